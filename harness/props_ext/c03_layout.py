"""C03 extension — block LAYOUTS: every output key of the materialized graph (optimize on and off) is executed and each
block's shape, dtype AND content is compared with what `.chunks` / `.dtype` advertise and with NumPy's value at the
advertised block extents.

(A) `drift`: expression families whose OPTIMIZED root lands on another block layout than the advertised one.  The
    interesting class is "same number of blocks per axis, other block sizes" (any comparison of layouts that looks at
    counts / totals only lets it through): selections (integer lists, slices with any step, flips, rolls) over
    elementwise combinations of two or three operands whose chunkings along the selected axis are generated
    adversarially (same count and different cuts / different counts / equal), with astype / negation / reductions and
    cumulative sums over the other axis / transposes / concatenations / stacks / rechunk compositions in between;
    sliding-window reductions over ragged chunkings with a chunk shorter than the window; each followed by a consumer
    that trusts the advertised layout (nothing, elementwise, `map_blocks` with `block_info`, `.blocks`, a reduction).
    Candidates are STEERED (never judged) by the layout the optimizer settles on (`dask_array._materialize._lower`): per
    family a quota of cases of the same-count class is collected in every run, plus unsteered cases.
(B) `method`: every public Array method / `da` function that re-derives chunks arithmetically (view with both orders
    and every itemsize ratio, astype, real/imag, ravel/reshape, repeat, tile, pad, insert/delete/append, diff, cumulative
    ops, to_delayed, T/transpose/moveaxis/swapaxes/rollaxis, flip/rot90, squeeze/expand_dims/atleast_nd, blocks/
    partitions, map_blocks/map_overlap with adjusted chunks, coarsen, topk, stacking, tri*/diag*, reductions with
    keepdims, tensordot/matmul/einsum/outer, apply_along_axis, …) on arrays of rank 1-3 whose AXES have equal block
    counts and different block sizes (an axis mixed up with another one shows), against the same NumPy call.  The
    public names of `dask_array` and of `Array` are enumerated from the package and the ones reached are reported.

Every case is a JSON dict that rebuilds the arrays from scratch (`replay`).
"""
from __future__ import annotations

import itertools
import warnings

import numpy as np

_UID = itertools.count()


# ====================================================================================== helpers


def _extents(chunks_axis):
    out, s = [], 0
    for c in chunks_axis:
        out.append((s, s + int(c)))
        s += int(c)
    return out


def _comp(rng, n, k):
    """random composition of n into exactly k positive parts (k <= n)"""
    k = max(1, min(k, n))
    cuts = sorted(rng.sample(range(1, n), k - 1)) if k > 1 else []
    return [b - a for a, b in zip([0] + cuts, cuts + [n])]


def _other_comp(rng, n, k, avoid):
    """a composition of n into k parts different from every member of `avoid` (when one exists)"""
    for _ in range(12):
        c = _comp(rng, n, k)
        if c not in avoid:
            return c
    return _comp(rng, n, k)


def _src_data(shape, dtype, mul, off):
    n = int(np.prod(shape)) if len(shape) else 1
    a = ((np.arange(n, dtype=np.int64) * mul + off) % 23).reshape(shape)
    dt = np.dtype(dtype)
    if dt.kind == "c":
        return (a + 1j * (a % 5)).astype(dt)
    if dt.kind == "b":
        return (a % 2).astype(bool)
    return a.astype(dt)


class _PosFn:
    """block function that trusts block_info: adds the GLOBAL index (from 'array-location') of every element, weighted per
    axis; NumPy's value of the same is `a + sum_ax (ax+1) * index_ax`"""

    __name__ = "posfn"

    def __init__(self):
        self.uid = next(_UID)

    def __dask_tokenize__(self):
        return ("_PosFn", self.uid)

    def __call__(self, block, block_info=None):
        b = np.asarray(block)
        out = b.astype(np.int64) if b.dtype.kind in "iub" else b.copy()
        if block_info is None or 0 not in block_info:
            return out
        loc = block_info[0]["array-location"]
        for ax, (lo, _hi) in enumerate(loc):
            shp = [1] * b.ndim
            shp[ax] = b.shape[ax]
            out = (out + (ax + 1) * (int(lo) + np.arange(b.shape[ax])).reshape(shp)).astype(out.dtype)
        return out


def _pos_np(a):
    out = a.astype(np.int64) if a.dtype.kind in "iub" else a.copy()
    for ax in range(a.ndim):
        shp = [1] * a.ndim
        shp[ax] = a.shape[ax]
        out = (out + (ax + 1) * np.arange(a.shape[ax]).reshape(shp)).astype(out.dtype)
    return out


# ====================================================================================== expression trees (JSON)

BIN = {
    "add": lambda m, a, b: a + b,
    "sub": lambda m, a, b: a - b,
    "mul": lambda m, a, b: a * b,
    "maximum": lambda m, a, b: m.maximum(a, b),
    "where": lambda m, a, b: m.where(a > b, a, b),
}


def _sel_index(sel, axis, nd):
    kind = sel[0]
    if kind == "take":
        i = [int(v) for v in sel[1]]
    elif kind == "slice":
        i = slice(sel[1], sel[2], sel[3])
    elif kind == "int":
        i = int(sel[1])
    else:
        raise ValueError(kind)
    return tuple(i if d == axis else slice(None) for d in range(nd))


def ev(node, srcs):
    """Evaluate a JSON expression tree on the real code and on NumPy at once: returns (dask array, ndarray)."""
    import dask_array as da

    op = node[0]
    if op == "src":
        s = srcs[node[1]]
        a = _src_data(tuple(s["shape"]), s.get("dtype", "i8"), s.get("mul", 1), s.get("off", 0))
        return da.from_array(a, chunks=tuple(tuple(c) for c in s["chunks"])), a
    if op == "bin":
        (d1, a1), (d2, a2) = ev(node[2], srcs), ev(node[3], srcs)
        return BIN[node[1]](da, d1, d2), BIN[node[1]](np, a1, a2)
    d, a = ev(node[-1], srcs)
    if op == "neg":
        return -d, -a
    if op == "affine":
        return d * 2 + 1, a * 2 + 1
    if op == "astype":
        return d.astype(node[1]), a.astype(node[1])
    if op == "T":
        return d.T, a.T
    if op == "sel":
        idx = _sel_index(node[2], node[1], a.ndim)
        return d[idx], a[idx]
    if op == "flip":
        return da.flip(d, node[1]), np.flip(a, node[1])
    if op == "roll":
        return da.roll(d, node[2], axis=node[1]), np.roll(a, node[2], axis=node[1])
    if op == "swv":
        w = da.sliding_window_view(d, node[2], axis=node[1])
        wn = np.lib.stride_tricks.sliding_window_view(a, node[2], axis=node[1])
        return getattr(w, node[3])(axis=-1), getattr(wn, node[3])(axis=-1)
    if op == "rechunk":
        return d.rechunk(tuple(tuple(c) for c in node[1])), a
    if op == "reduce":
        return getattr(d, node[1])(axis=node[2]), getattr(a, node[1])(axis=node[2])
    if op == "cumsum":
        return da.cumsum(d, axis=node[1]), np.cumsum(a, axis=node[1])
    if op == "concat":
        rest = [ev(n, srcs) for n in node[2:-1]]
        return da.concatenate([r[0] for r in rest] + [d], axis=node[1]), np.concatenate([r[1] for r in rest] + [a], axis=node[1])
    if op == "stack":
        rest = [ev(n, srcs) for n in node[2:-1]]
        return da.stack([r[0] for r in rest] + [d], axis=node[1]), np.stack([r[1] for r in rest] + [a], axis=node[1])
    if op == "mb_info":
        return d.map_blocks(_PosFn(), dtype=np.int64 if a.dtype.kind in "iub" else a.dtype), _pos_np(a)
    if op == "blocks":  # the LAST block along axis node[1], located through the advertised chunks
        ax = node[1]
        k = len(d.chunks[ax]) - 1
        lo = int(sum(d.chunks[ax][:-1]))
        bidx = tuple(slice(k, None) if q == ax else slice(None) for q in range(d.ndim))
        sl = tuple(slice(lo, None) if q == ax else slice(None) for q in range(d.ndim))
        return d.blocks[bidx], a[sl]
    raise ValueError(op)


def settled_chunks(y):
    """STEERING ONLY: the block layout the optimizer settles on for y's expression (None when the internals moved)"""
    try:
        from dask_array._materialize import _lower

        return tuple(tuple(c) for c in _lower(y.expr, True).chunks)
    except Exception:  # noqa: BLE001
        return None


def drift_class(y):
    adv = y.chunks
    oc = settled_chunks(y)
    if oc is None:
        return "unknown"
    if len(oc) != len(adv):
        return "rank"
    if tuple(tuple(c) for c in adv) == oc:
        return "same"
    if all(len(a) == len(b) for a, b in zip(adv, oc)):
        return "same-count"
    return "other-count"


# ====================================================================================== checking


def _c(case, **detail):
    return {**case, "detail": detail}


def _close(got, want):
    got, want = np.asarray(got), np.asarray(want)
    if got.shape != want.shape:
        return False
    with np.errstate(all="ignore"):
        if got.dtype.kind in "fc" or want.dtype.kind in "fc":
            tol = 1e-4 if min(got.dtype.itemsize, want.dtype.itemsize) // (2 if got.dtype.kind == "c" else 1) <= 4 else 1e-9
            return bool(np.allclose(got, want, rtol=tol, atol=tol, equal_nan=True))
        return bool(np.array_equal(got, want))


class _Capped:
    """at most 3 reported failures per signature and run (the first ones; every one is a concrete replayable case)"""

    def __init__(self, ctx):
        self._ctx = ctx

    def __getattr__(self, k):
        return getattr(self._ctx, k)

    def fail(self, sig, case, what=""):
        if sum(1 for f in self._ctx.failures if f["sig"] == sig) < 3:
            self._ctx.fail(sig, case, what)
        else:
            self._ctx.notes["layout.more_failures:" + sig] = self._ctx.notes.get("layout.more_failures:" + sig, 0) + 1


def check_array(ctx, case, y, want, sig, values_ok=True, compute=True, opts=(True, False)):
    """All blocks of y (optimize on and off): shape/dtype vs advertised, content vs `want` at the advertised extents;
    the assembled whole vs `want`.  Reports at most one failure; returns the number of blocks executed.
    `sig(kind, exc=None)` makes the signature."""
    import dask
    from harness import graphs as G
    from harness.props.C03 import block_failures

    n = 0
    ctx = _Capped(ctx)
    known = not any(isinstance(c, float) and np.isnan(c) for ax in y.chunks for c in ax)
    if known and want is not None and tuple(int(s) for s in y.shape) != tuple(want.shape):
        ctx.fail(sig("advertised-shape"), _c(case, advertised=str(y.shape), numpy=str(want.shape), chunks=str(y.chunks)),
                 "advertised shape differs from the shape NumPy computes for the same call")
        return 0
    for opt in opts:
        try:
            fails, values = block_failures(y, opt)
        except Exception as e:  # noqa: BLE001
            ctx.fail(sig("compute-raises", e), _c(case, optimize=opt, outcome=repr(e)[:240], chunks=str(y.chunks)), "materializing / executing the graph raises")
            return n
        n += len(values)
        if fails:
            kind, bid, g, w = fails[0]
            ctx.fail(sig(kind), _c(case, optimize=opt, block=list(bid), got=str(g), advertised=str(w), chunks=str(y.chunks)),
                     "a block of the materialized graph does not have the advertised shape/dtype")
            return n
        if want is None:
            continue
        if known and values_ok:
            for bid in itertools.product(*[range(len(c)) for c in y.chunks]):
                sl = tuple(slice(*_extents(c)[j]) for c, j in zip(y.chunks, bid))
                if not _close(values[(y.name, *bid)], want[sl]):
                    ctx.fail(sig("block-content"), _c(case, optimize=opt, block=list(bid), chunks=str(y.chunks),
                                                     got=repr(np.asarray(values[(y.name, *bid)]).tolist())[:120], numpy=repr(want[sl].tolist())[:120]),
                             "a block of the materialized graph is not NumPy's value at the advertised block extents")
                    return n
        try:
            if opt and compute:
                with dask.config.set({"array.optimize-graph": True}):
                    got = np.asarray(y.compute(scheduler="sync"))
            else:
                got = np.asarray(G.assemble(y, values))
        except Exception as e:  # noqa: BLE001
            ctx.fail(sig("compute-raises", e), _c(case, optimize=opt, outcome=repr(e)[:240]), "compute raises although every block was produced")
            return n
        if got.dtype != y.dtype:
            ctx.fail(sig("computed-dtype"), _c(case, optimize=opt, advertised=str(y.dtype), computed=str(got.dtype)), "computed result has a different dtype than advertised")
            return n
        if got.shape != want.shape:
            ctx.fail(sig("computed-shape"), _c(case, optimize=opt, advertised=str(y.shape), computed=str(got.shape), numpy=str(want.shape)),
                     "computed result has a different shape than NumPy / than advertised")
            return n
        if values_ok and not _close(got, want):
            ctx.fail(sig("computed-value"), _c(case, optimize=opt, got=repr(got.tolist())[:120], numpy=repr(want.tolist())[:120]), "computed result differs from NumPy")
            return n
    return n


# ====================================================================================== (A) drift

DRIFT_FAMILIES = ("elem-take", "elem-slice", "elem-flip", "elem-roll", "elem-mid-take", "swv", "swv-elem", "swv-sel", "concat-sel", "unify-concat-sel",
                  "stack-sel", "rechunk-comp", "reduce-sel", "three-sel")


def _ragged_sources(rng, n, cross, axis, k, nsrc, mode):
    """`nsrc` sources of length n along `axis` (cross axis length `cross`, 0 = 1-d) whose chunkings along `axis` are
    mode = 'same-count' (equal block count, different cuts) / 'other-count' / 'equal'."""
    srcs, seen = [], []
    cross_chunks = None
    if cross:
        cross_chunks = _comp(rng, cross, rng.choice([1, 1, 2]))
    for i in range(nsrc):
        if mode == "equal" and seen:
            c = list(seen[0])
        elif mode == "other-count" and seen:
            c = _other_comp(rng, n, max(1, min(n, k + rng.choice([-2, -1, 1, 2]))), seen)
        else:
            c = _other_comp(rng, n, k, seen)
        seen.append(c)
        if cross:
            cc = cross_chunks if rng.random() < 0.7 else _comp(rng, cross, rng.choice([1, 2]))
            shape, chunks = ([n, cross], [c, cc]) if axis == 0 else ([cross, n], [cc, c])
        else:
            shape, chunks = [n], [c]
        srcs.append({"shape": shape, "chunks": chunks, "dtype": rng.choice(["i8", "i8", "f8", "i4"]), "mul": 3 + 2 * i, "off": i})
    return srcs


def _rand_sel(rng, n, kind=None):
    kind = kind or rng.choice(["take", "take", "take", "slice", "slice"])
    if kind == "take":
        idx = [rng.randrange(n) for _ in range(rng.randint(2, n + 3))]
        r = rng.random()
        if r < 0.25:
            idx = sorted(idx)
        elif r < 0.35:
            idx = sorted(set(idx))
        elif r < 0.45:
            idx = [i - n for i in idx]  # negative spellings
        return ["take", idx]
    step = rng.choice([1, 1, 2, 3, -1, -1, -2])
    if step > 0:
        a, b = rng.choice([None, 0, 1, 2]), rng.choice([None, n - 1, n - 2, -1])
    else:
        a, b = rng.choice([None, n - 1, n - 2]), rng.choice([None, 0, 1])
    return ["slice", a, b, step]


def _elem(rng, nsrc):
    e = ["bin", rng.choice(list(BIN)), ["src", 0], ["src", 1]]
    for i in range(2, nsrc):
        e = ["bin", rng.choice(list(BIN)), e, ["src", i]]
    return e


def _swv_chunks(rng, w, n=None):
    """ragged chunking with interior chunks of length w-1 (shorter than the window) between chunks that hold a whole window:
    the layout a native sliding-window rewrite settles on then has the block COUNTS of the advertised one and other sizes.
    With `n` given, a chunking of exactly that length (or None when none was found)."""
    for _ in range(20):
        k = rng.randint(3, 5)
        c = [rng.randint(w, w + 4) for _ in range(k)]
        for pos in rng.sample(range(1, k - 1), rng.choice([1, 1, 2]) if k > 3 else 1):
            if c[pos - 1] >= w:
                c[pos] = w - 1
        if any(v == w - 1 for v in c) and (n is None or sum(c) == n) and all(v > 0 for v in c):
            return c
    return None


def drift_gen(rng, family, mode=None, p1d=0.5):
    """A random candidate of a family: {"layout", "family", "srcs", "core" (tree), "consumer"}."""
    n = rng.randint(5, 16)
    cross = 0 if rng.random() < p1d else rng.choice([2, 3])
    axis = rng.choice([0, 1]) if cross else 0
    nd = 2 if cross else 1
    k = rng.randint(2, min(5, n))
    mode = mode or rng.choice(["same-count", "same-count", "same-count", "other-count", "equal"])
    nsrc = 3 if family == "three-sel" else 2
    srcs = _ragged_sources(rng, n, cross, axis, k, nsrc, mode)
    e = _elem(rng, nsrc)
    if family in ("elem-take", "three-sel"):
        core = ["sel", axis, _rand_sel(rng, n, "take" if family == "elem-take" else None), e]
    elif family == "elem-slice":
        core = ["sel", axis, _rand_sel(rng, n, "slice"), e]
    elif family == "elem-flip":
        core = ["flip", axis, e]
        if rng.random() < 0.5:
            core = ["sel", axis, _rand_sel(rng, n), core]
    elif family == "elem-roll":
        core = ["roll", axis, rng.randint(1, n - 1), e]
        if rng.random() < 0.5:
            core = ["sel", axis, _rand_sel(rng, n), core]
    elif family == "elem-mid-take":
        mid = rng.choice(["astype", "neg", "cumsum-cross", "T", "affine", "cumsum-axis"])
        ax2 = axis
        if mid == "astype":
            e = ["astype", rng.choice(["f4", "f8", "i4", "c8"]), e]
        elif mid == "neg":
            e = ["neg", e]
        elif mid == "affine":
            e = ["affine", e]
        elif mid == "cumsum-cross" and nd == 2:
            e = ["cumsum", 1 - axis, e]
        elif mid == "cumsum-axis":
            e = ["cumsum", axis, e]
        elif mid == "T" and nd == 2:
            e = ["T", e]
            ax2 = 1 - axis
        core = ["sel", ax2, _rand_sel(rng, n), e]
    elif family in ("swv", "swv-elem", "swv-sel"):
        w = rng.randint(2, min(5, n - 1))
        fn = rng.choice(["sum", "sum", "mean", "max", "min"])
        rag = axis if cross else 0
        pat = _swv_chunks(rng, w) if rng.random() < 0.8 else None
        if pat is not None:  # the window axis takes the length of the pattern
            n = sum(pat)
            for sd in srcs:
                sd["shape"][rag] = n
                sd["chunks"][rag] = list(pat)
        if family == "swv-elem":
            if pat is not None and rng.random() < 0.6:
                srcs[1]["chunks"][rag] = _swv_chunks(rng, w, n) or _comp(rng, n, len(pat))
            base = e
        else:
            srcs = srcs[:1]
            base = ["src", 0]
        core = ["swv", axis, w, fn, base]
        if family == "swv-sel":
            core = ["sel", axis, _rand_sel(rng, n - w + 1), core]
    elif family == "concat-sel":
        # concatenation along the ragged axis of an elementwise combination and a plain operand
        core = ["sel", axis, _rand_sel(rng, 2 * n), ["concat", axis, e, ["src", rng.randrange(nsrc)]]]
    elif family == "unify-concat-sel":
        # concatenation along the CROSS axis: the operands' different chunkings of the ragged axis must be unified
        if not cross:
            srcs = _ragged_sources(rng, n, 2, 0, k, 2, mode)
            axis, nd = 0, 2
        core = ["sel", axis, _rand_sel(rng, n), ["concat", 1 - axis, ["src", 0], ["neg", ["src", 1]]]]
    elif family == "stack-sel":
        core = ["sel", axis + 1, _rand_sel(rng, n), ["stack", 0, ["src", 0], ["src", 1]]]
    elif family == "rechunk-comp":
        tgt = [list(c) for c in srcs[0]["chunks"]]
        tgt[axis if cross else 0] = _other_comp(rng, n, k, [s["chunks"][axis if cross else 0] for s in srcs])
        r = rng.random()
        if r < 0.4:
            core = ["sel", axis, _rand_sel(rng, n), ["rechunk", tgt, e]]
        elif r < 0.7:
            core = ["rechunk", tgt, ["sel", axis, ["slice", None, None, rng.choice([1, -1])], e]]
        else:
            core = ["sel", axis, _rand_sel(rng, n), ["bin", "add", ["rechunk", tgt, ["src", 0]], ["src", 1]]]
    elif family == "reduce-sel":
        if not cross:
            srcs = _ragged_sources(rng, n, 3, 0, k, 2, mode)
            axis, nd = 0, 2
        core = ["sel", 0, _rand_sel(rng, n), ["reduce", rng.choice(["sum", "max", "mean"]), 1 - axis, e]]
    else:
        raise ValueError(family)
    return {"layout": "drift", "family": family, "srcs": srcs, "core": core, "consumer": "none"}


def drift_mutate(rng, case):
    """a neighbour of a case (same chunkings; another operator / operand dtype / a few other selected positions): the class a
    steered hit belongs to mostly survives, so a rare hit is turned into several different cases cheaply"""
    import json

    c = json.loads(json.dumps(case))

    def walk(node):
        if not isinstance(node, list) or not node:
            return
        if node[0] == "bin" and rng.random() < 0.5:
            node[1] = rng.choice(list(BIN))
        if node[0] == "sel" and node[2][0] == "take" and len(node[2][1]) > 1:
            idx = node[2][1]
            for _ in range(rng.choice([1, 1, 2])):
                i = rng.randrange(len(idx))
                j = rng.randrange(len(idx))
                idx[i] = idx[j] if rng.random() < 0.5 else max(min(idx[i] + rng.choice([-1, 1]), max(idx)), min(idx))
        if node[0] == "swv" and rng.random() < 0.5:
            node[3] = rng.choice(["sum", "mean", "max", "min"])
        for ch in node[1:]:
            walk(ch)

    walk(c["core"])
    for sdef in c["srcs"]:
        if rng.random() < 0.4:
            sdef["dtype"] = rng.choice(["i8", "f8", "i4", "f4"])
    return c


# families whose optimized root never leaves the advertised layout (steering gives up early; unsteered cases still run)
STABLE_FAMILIES = ("concat-sel", "unify-concat-sel", "stack-sel")

CONSUMERS = ("none", "none", "none", "mb_info", "mb_info", "affine", "blocks", "sum", "astype")
# `.blocks[k]` directly over a native sliding-window reduction raises on the unchanged tree with the optimizer on AND off
# (x=from_array(arange(8).reshape(2,4),chunks=((2,),(4,))); r=sliding_window_view(x,2,axis=1).max(-1); r.chunks==((1,1),(3,));
# r.blocks[1].compute() -> ValueError 'Chunks do not add up to shape. Got chunks=((1,), (3,)), shape=(0, 3)'): reported to the
# coordinator under the signature below; until it is listed or repaired the random stream does not put `.blocks` on the swv families
SWV_BLOCKS_CONSUMER = False
# `.blocks[k]` over a selection that is pushed through ANOTHER node before it reaches the elementwise combination raises
# 'Chunks do not add up to shape' on the unchanged tree, optimizer on and off (x=from_array(arange(6.).reshape(6,1),chunks=((3,1,2),(1,)));
# y=from_array(arange(6).reshape(6,1)+3,chunks=((2,4),(1,))); (x+y).sum(axis=1)[3:6].blocks[0].compute()): the listed family
# grid-consumer:stale-dependents (C02/C20: the node the pushdown creates is unknown to the grid contract of the .blocks consumer).
# Reported to the coordinator; until C03 is added to that entry (or it is repaired) `.blocks` is only put on the families whose
# selection sits directly on the elementwise combination / concatenation
BLOCKS_FAMILIES = ("elem-take", "elem-slice", "three-sel", "concat-sel", "unify-concat-sel", "stack-sel")


def _pick_consumer(rng, family):
    c = rng.choice(CONSUMERS)
    if c == "blocks" and family not in BLOCKS_FAMILIES and not (family.startswith("swv") and SWV_BLOCKS_CONSUMER):
        c = "mb_info"
    return c


def _with_consumer(case, y_nd_axis):
    c = case["consumer"]
    core = case["core"]
    if c == "none":
        return core
    if c == "mb_info":
        return ["mb_info", core]
    if c == "affine":
        return ["affine", core]
    if c == "astype":
        return ["astype", "f8", core]
    if c == "blocks":
        return ["blocks", y_nd_axis, core]
    if c == "sum":
        return ["reduce", "sum", y_nd_axis, core]
    raise ValueError(c)


def drift_sig(case):
    def sig(kind, exc=None):
        fam = case["family"]
        if exc is not None and fam.startswith("swv") and any(t in str(exc) for t in (
                "Missing dependency ('sliding-window", "adjust_chunks specified with", "optimization changed the block structure")):
            return "swv-layout-drift"  # documented family (a consumer that captured the advertised chunks of a native swv rewrite)
        if exc is not None and fam.startswith("swv") and case.get("consumer") == "blocks" and "Chunks do not add up to shape" in str(exc):
            return "swv-reduce:blocks-consumer:raises"
        if exc is not None and case.get("consumer") == "blocks" and "Chunks do not add up to shape" in str(exc):
            return "grid-consumer:stale-dependents"  # listed family (C02/C20)
        return f"layout-drift:{fam}:{kind}"
    return sig


def drift_check(ctx, case):
    """one drift case (core + consumer); returns (blocks executed, drift class of the core)"""
    with warnings.catch_warnings():
        warnings.simplefilter("ignore")
        try:
            core_d, core_a = ev(case["core"], case["srcs"])
        except (NotImplementedError, IndexError, ValueError) as e:
            ctx.notes["drift.refused"] = ctx.notes.get("drift.refused", 0) + 1
            ctx.extra.setdefault("drift_refusal_examples", {}).setdefault(f"{case['family']}:{type(e).__name__}", {"case": case, "error": repr(e)[:160]})
            return 0, "refused"
        if core_d.ndim == 0 or core_a.size == 0:
            return 0, "empty"
        cls = drift_class(core_d)
        ax = case.get("axis_hint", 0) % core_d.ndim
        tree = _with_consumer(case, ax)
        try:
            y, want = (core_d, core_a) if case["consumer"] == "none" else ev(tree, case["srcs"])
        except (NotImplementedError, IndexError, ValueError):
            y, want = core_d, core_a
        n = check_array(ctx, case, y, want, drift_sig(case))
        return n, cls


DRIFT_CORPUS = [
    # take over the sum of two raggedly, differently chunked operands with EQUAL block counts after regrouping
    {"family": "elem-take", "srcs": [{"shape": [10, 3], "chunks": [[4, 1, 2, 1, 2], [3]], "dtype": "f8", "mul": 1, "off": 0},
                                     {"shape": [10, 3], "chunks": [[6, 2, 2], [3]], "dtype": "f8", "mul": 2, "off": 1}],
     "core": ["sel", 0, ["take", [3, 4, 5, 2, 4, 0, 5, 9, 8]], ["bin", "add", ["src", 0], ["src", 1]]], "consumer": "none"},
    {"family": "elem-take", "srcs": [{"shape": [9], "chunks": [[3, 5, 1]], "dtype": "i8", "mul": 1, "off": 0}, {"shape": [9], "chunks": [[2, 3, 4]], "dtype": "i8", "mul": 2, "off": 1}],
     "core": ["sel", 0, ["slice", None, None, -1], ["bin", "add", ["src", 0], ["src", 1]]], "consumer": "mb_info"},
    # sliding-window reductions over a ragged chunking with a chunk shorter than the window
    {"family": "swv", "srcs": [{"shape": [27], "chunks": [[9, 3, 15]], "dtype": "f8", "mul": 5, "off": 1}], "core": ["swv", 0, 4, "sum", ["src", 0]], "consumer": "none"},
    {"family": "swv", "srcs": [{"shape": [27], "chunks": [[9, 3, 15]], "dtype": "f8", "mul": 5, "off": 1}], "core": ["swv", 0, 4, "sum", ["src", 0]], "consumer": "mb_info"},
    {"family": "swv", "srcs": [{"shape": [4, 17], "chunks": [[2, 2], [7, 4, 1, 5]], "dtype": "f8", "mul": 3, "off": 2}], "core": ["swv", 1, 2, "mean", ["src", 0]], "consumer": "mb_info", "axis_hint": 1},
    {"family": "swv", "srcs": [{"shape": [26], "chunks": [[4, 1, 4, 3, 9, 5]], "dtype": "i8", "mul": 7, "off": 0}], "core": ["swv", 0, 2, "max", ["src", 0]], "consumer": "affine"},
]


def run_drift(ctx):
    rng = ctx.rng
    per_class = {}
    n_cases = 0
    for c in DRIFT_CORPUS:
        case = {"layout": "drift", **c}
        n, cls = drift_check(ctx, case)
        ctx.count(("drift", case["family"], cls, case["consumer"]), max(1, n))
        per_class[cls] = per_class.get(cls, 0) + 1
        n_cases += 1
    quota = ctx.scale(5, 60)      # cases of the same-count class per family
    free = ctx.scale(2, 40)       # unsteered cases per family
    tries_cap = ctx.scale(160, 3000)
    give_up = ctx.scale(90, 600)  # candidates without a single same-count hit (families that never drift that way)
    starved = []
    for fam in DRIFT_FAMILIES:
        got, tries, hits = 0, 0, []
        cap, gu = (3 * tries_cap, 3 * give_up) if fam == "elem-take" else (tries_cap, give_up // 4 if fam in STABLE_FAMILIES else give_up)
        while got < quota and tries < cap and not (got == 0 and tries >= gu):
            tries += 1
            if hits and rng.random() < 0.6:
                case = drift_mutate(rng, hits[rng.randrange(len(hits))])
            else:
                # integer-list selections: same-count hits are rare (~3%) and rank-2 candidates are 10x dearer: search rank 1
                case = drift_gen(rng, fam, mode="same-count" if rng.random() < 0.8 else None, p1d=0.9 if fam == "elem-take" else 0.5)
            with warnings.catch_warnings():
                warnings.simplefilter("ignore")
                try:
                    d, a = ev(case["core"], case["srcs"])
                except Exception:  # noqa: BLE001
                    continue
                if d.ndim == 0 or a.size == 0 or drift_class(d) != "same-count":
                    continue
            got += 1
            hits.append({k: v for k, v in case.items()})
            case["consumer"] = _pick_consumer(rng, fam)
            case["axis_hint"] = rng.randrange(d.ndim)
            n, cls = drift_check(ctx, case)
            ctx.count(("drift", fam, cls, case["consumer"]), max(1, n))
            per_class[cls] = per_class.get(cls, 0) + 1
            n_cases += 1
            if got == 1:
                ctx.sample(case)
        if got < quota:
            starved.append(f"{fam}:{got}/{quota}")
        for _ in range(free):
            case = drift_gen(rng, fam)
            case["consumer"] = _pick_consumer(rng, fam)
            case["axis_hint"] = rng.randrange(2)
            n, cls = drift_check(ctx, case)
            ctx.count(("drift", fam, cls, case["consumer"]), max(1, n))
            per_class[cls] = per_class.get(cls, 0) + 1
            n_cases += 1
    ctx.notes["drift.cases"] = n_cases
    for k, v in sorted(per_class.items()):
        ctx.notes["drift.class." + k] = v
    if starved:
        ctx.notes["drift.families_below_same_count_quota"] = ", ".join(starved)


# ====================================================================================== (B) method

PROFILES = [
    # axes with EQUAL block counts and DIFFERENT block sizes: an axis mixed up with another one shows in the sizes
    {"shape": [6, 8], "chunks": [[3, 3], [4, 4]]},
    {"shape": [6, 8], "chunks": [[2, 4], [6, 2]]},
    {"shape": [7, 5], "chunks": [[3, 1, 3], [2, 2, 1]]},
    {"shape": [9], "chunks": [[4, 1, 4]]},
    {"shape": [8], "chunks": [[2, 6]]},
    {"shape": [4, 6, 10], "chunks": [[2, 2], [6], [7, 3]]},
    {"shape": [4, 6, 8], "chunks": [[1, 3], [4, 2], [6, 2]]},
]


def _rand_profile(rng, nd):
    k = rng.choice([2, 2, 3])
    shape, chunks, seen = [], [], []
    for _ in range(nd):
        n = rng.randint(max(k + 1, 4), 9)
        c = _other_comp(rng, n, k, seen)
        seen.append(c)
        shape.append(n)
        chunks.append(c)
    return {"shape": shape, "chunks": chunks}


def _ext_slices(chunks, bidx):
    """NumPy slices of the block selection `bidx` (ints / slices over the block grid) through the given chunks"""
    out = []
    for c, b in zip(chunks, bidx):
        ex = _extents(c)
        if isinstance(b, int):
            out.append(slice(*ex[b]))
        else:
            sel = ex[b]
            out.append(slice(sel[0][0], sel[-1][1]) if sel else slice(0, 0))
    return tuple(out)


def _rep2(b, axis=0):
    return np.repeat(np.asarray(b), 2, axis=axis)


def _sum0(b):
    return np.asarray(b).sum(axis=0)


def _new0(b):
    return np.asarray(b)[None] * 2


def _ident(b):
    return np.asarray(b) + 0


def _cum_last(v):
    return np.cumsum(v)


def _second(x2_chunks_src):
    return x2_chunks_src


class M:
    """context handed to a table entry: module (np or da), the array, its profile, and a second operand of the same
    shape whose chunking (on the dask side) has the same block counts and other cuts"""

    def __init__(self, m, x, y, prof, da_side):
        self.m, self.x, self.y, self.prof, self.da = m, x, y, prof, da_side
        self.nd = x.ndim
        self.chunks = prof["chunks"]


def _mb(c, f, np_f, **kw):
    return c.x.map_blocks(f, dtype=c.x.dtype, **kw) if c.da else np_f(c.x)


def _entries():
    """name -> (ranks, fn(c: M) -> result, options).  `name` is `Array.<method>[:variant]` or `da.<function>[:variant]`."""
    T = {}

    def E(name, fn, ranks=(1, 2, 3), **opt):
        T[name] = (ranks, fn, opt)

    # ---- axis permutations
    E("Array.T", lambda c: c.x.T)
    E("Array.transpose", lambda c: c.x.transpose())
    E("Array.transpose:perm", lambda c: c.x.transpose(tuple(range(1, c.nd)) + (0,)), ranks=(2, 3))
    E("Array.swapaxes", lambda c: c.x.swapaxes(0, -1), ranks=(2, 3))
    E("da.transpose", lambda c: c.m.transpose(c.x, tuple(range(c.nd))[::-1]))
    E("da.moveaxis", lambda c: c.m.moveaxis(c.x, 0, -1), ranks=(2, 3))
    E("da.moveaxis:back", lambda c: c.m.moveaxis(c.x, -1, 0), ranks=(2, 3))
    E("da.rollaxis", lambda c: c.m.rollaxis(c.x, c.nd - 1), ranks=(2, 3))
    E("da.rollaxis:start", lambda c: c.m.rollaxis(c.x, 0, c.nd), ranks=(2, 3))
    E("da.swapaxes", lambda c: c.m.swapaxes(c.x, 0, 1), ranks=(2, 3))
    E("da.flip", lambda c: c.m.flip(c.x, 0))
    E("da.flip:last", lambda c: c.m.flip(c.x, -1), ranks=(2, 3))
    E("da.flip:all", lambda c: c.m.flip(c.x))
    E("da.fliplr", lambda c: c.m.fliplr(c.x), ranks=(2, 3))
    E("da.flipud", lambda c: c.m.flipud(c.x))
    for k in (1, 2, 3):
        E(f"da.rot90:{k}", lambda c, k=k: c.m.rot90(c.x, k), ranks=(2, 3))
    E("da.rot90:axes", lambda c: c.m.rot90(c.x, 1, axes=(c.nd - 1, 0)), ranks=(2, 3))
    E("da.roll", lambda c: c.m.roll(c.x, 2, axis=0))
    E("da.roll:flat", lambda c: c.m.roll(c.x, 3))
    E("da.roll:multi", lambda c: c.m.roll(c.x, (1, 2), axis=(0, -1)), ranks=(2, 3))
    # ---- dtype / parts
    for dt in ("f4", "i4", "c16", "u1"):
        E(f"Array.astype:{dt}", lambda c, dt=dt: c.x.astype(dt))
    E("Array.real", lambda c: c.x.real, dt="c16")
    E("Array.imag", lambda c: c.x.imag, dt="c16")
    E("Array.imag:float", lambda c: c.x.imag)
    E("Array.conj", lambda c: c.x.conj(), dt="c16")
    E("da.real", lambda c: c.m.real(c.x), dt="c8")
    E("da.imag", lambda c: c.m.imag(c.x), dt="c8")
    E("da.angle", lambda c: c.m.angle(c.x), dt="c16")
    E("Array.copy", lambda c: c.x.copy())
    E("Array.clip", lambda c: c.x.clip(2, 9))
    E("Array.round", lambda c: (c.x / 3).round(1))
    # ---- flattening / reshaping
    E("Array.ravel", lambda c: c.x.ravel())
    E("Array.flatten", lambda c: c.x.flatten())
    E("da.ravel", lambda c: c.m.ravel(c.x))
    E("Array.reshape:flat", lambda c: c.x.reshape(-1))
    E("Array.reshape:merge-first", lambda c: c.x.reshape((c.x.shape[0] * c.x.shape[1],) + tuple(c.x.shape[2:])), ranks=(2, 3))
    E("Array.reshape:merge-last", lambda c: c.x.reshape(tuple(c.x.shape[:-2]) + (c.x.shape[-2] * c.x.shape[-1],)), ranks=(2, 3))
    E("Array.reshape:newaxis", lambda c: c.x.reshape((1,) + tuple(c.x.shape) + (1,)))
    E("da.reshape", lambda c: c.m.reshape(c.x, (c.x.shape[0], -1)), ranks=(2, 3))
    E("da.reshape_blockwise", lambda c: c.m.reshape_blockwise(c.x, (c.x.shape[0] * c.x.shape[1],) + tuple(c.x.shape[2:])) if c.da else None, ranks=(2, 3), values=False)
    E("Array.squeeze", lambda c: c.x[:1].squeeze(0) if c.nd > 1 else c.x[:1].squeeze(), ranks=(1, 2, 3))
    E("da.squeeze", lambda c: c.m.squeeze(c.x[:, :1], axis=1), ranks=(2, 3))
    E("da.squeeze:all", lambda c: c.m.squeeze(c.x[:1]), ranks=(2, 3))
    E("da.expand_dims", lambda c: c.m.expand_dims(c.x, 0))
    E("da.expand_dims:last", lambda c: c.m.expand_dims(c.x, -1))
    E("da.expand_dims:multi", lambda c: c.m.expand_dims(c.x, (0, 2)))
    E("getitem:None", lambda c: c.x[None, ..., None])
    E("getitem:mid-None", lambda c: c.x[:, None], ranks=(1, 2, 3))
    E("da.atleast_1d", lambda c: c.m.atleast_1d(c.x))
    E("da.atleast_2d", lambda c: c.m.atleast_2d(c.x))
    E("da.atleast_3d", lambda c: c.m.atleast_3d(c.x))
    E("da.broadcast_to", lambda c: c.m.broadcast_to(c.x, (2,) + tuple(c.x.shape)))
    E("da.broadcast_to:row", lambda c: c.m.broadcast_to(c.x[:1], tuple(c.x.shape)), ranks=(2, 3))
    E("da.broadcast_arrays", lambda c: tuple(c.m.broadcast_arrays(c.x, c.y[:1])), ranks=(2, 3))
    E("da.unify_chunks", lambda c: (c.m.unify_chunks(c.x, tuple("ijk"[: c.nd]), c.y, tuple("ijk"[: c.nd]))[1] if c.da else [c.x, c.y]))
    # ---- repetition / padding / insertion
    for ax in (0, 1, 2, -1):
        E(f"Array.repeat:{ax}", lambda c, ax=ax: c.x.repeat(2, axis=ax), ranks=tuple(r for r in (1, 2, 3) if (ax if ax >= 0 else 0) < r))
        E(f"da.repeat:{ax}", lambda c, ax=ax: c.m.repeat(c.x, 3, axis=ax), ranks=tuple(r for r in (1, 2, 3) if (ax if ax >= 0 else 0) < r))
    E("da.repeat:flat", lambda c: c.m.repeat(c.x, 2))
    E("da.tile", lambda c: c.m.tile(c.x, 2))
    E("da.tile:tuple", lambda c: c.m.tile(c.x, (2, 1, 3)[: c.nd]))
    E("da.tile:more", lambda c: c.m.tile(c.x, (2,) * (c.nd + 1)))
    for mode in ("constant", "edge", "reflect", "symmetric", "wrap", "linear_ramp", "mean", "maximum", "minimum", "empty"):
        E(f"da.pad:{mode}", lambda c, mode=mode: c.m.pad(c.x, [(1, 2)] + [(2, 0)] * (c.nd - 1), mode=mode), values=mode != "empty")
    E("da.pad:int", lambda c: c.m.pad(c.x, 2, mode="constant", constant_values=7))
    E("da.pad:first-only", lambda c: c.m.pad(c.x, [(3, 1)] + [(0, 0)] * (c.nd - 1), mode="edge"))
    E("da.pad:last-only", lambda c: c.m.pad(c.x, [(0, 0)] * (c.nd - 1) + [(1, 3)], mode="reflect"))
    E("da.append", lambda c: c.m.append(c.x, c.y, axis=0))
    E("da.append:last", lambda c: c.m.append(c.x, c.y, axis=-1))
    E("da.append:flat", lambda c: c.m.append(c.x, c.y))
    E("da.insert", lambda c: c.m.insert(c.x, 2, 5, axis=0))
    E("da.insert:list", lambda c: c.m.insert(c.x, [1, 3], 7, axis=-1))
    E("da.insert:last", lambda c: c.m.insert(c.x, 1, 5, axis=c.nd - 1))
    E("da.delete", lambda c: c.m.delete(c.x, 1, axis=0))
    E("da.delete:list", lambda c: c.m.delete(c.x, [0, 2], axis=-1))
    E("da.delete:slice", lambda c: c.m.delete(c.x, slice(1, 3), axis=0))
    E("da.diff", lambda c: c.m.diff(c.x, axis=0))
    E("da.diff:last", lambda c: c.m.diff(c.x, n=2, axis=-1))
    E("da.diff:prepend", lambda c: c.m.diff(c.x, axis=0, prepend=c.x[:1], append=c.x[:2]))
    E("da.ediff1d", lambda c: c.m.ediff1d(c.x))
    E("da.ediff1d:ends", lambda c: c.m.ediff1d(c.x, to_begin=1, to_end=[2, 3]))
    E("da.gradient", lambda c: c.m.gradient(c.x, axis=0))
    E("da.gradient:all", lambda c: tuple(c.m.gradient(c.x)), ranks=(2, 3))
    # ---- cumulative
    for fn in ("cumsum", "cumprod", "nancumsum", "nancumprod"):
        E(f"da.{fn}", lambda c, fn=fn: getattr(c.m, fn)(c.x % 3 + 1, axis=0))
        E(f"da.{fn}:last", lambda c, fn=fn: getattr(c.m, fn)(c.x % 3 + 1, axis=-1))
        E(f"da.{fn}:flat", lambda c, fn=fn: getattr(c.m, fn)(c.x % 2 + 1, axis=None) if c.da else getattr(np, fn)(c.x % 2 + 1), dt="i8")
    E("da.cumsum:blelloch", lambda c: c.m.cumsum(c.x, axis=0, method="blelloch") if c.da else np.cumsum(c.x, axis=0))
    E("Array.cumsum", lambda c: c.x.cumsum(axis=-1))
    E("Array.cumprod", lambda c: (c.x % 2 + 1).cumprod(axis=0))
    # ---- reductions (keepdims re-derives 1-chunks)
    for fn in ("sum", "mean", "max", "min", "prod", "std", "var", "any", "all", "argmax", "argmin"):
        E(f"Array.{fn}", lambda c, fn=fn: getattr(c.x % 5, fn)(axis=0))
        if not fn.startswith("arg"):
            E(f"Array.{fn}:keepdims", lambda c, fn=fn: getattr(c.x % 5, fn)(axis=-1, keepdims=True))
    for fn in ("nansum", "nanmean", "nanmax", "nanmin", "nanprod", "nanstd", "nanvar", "nanargmax", "nanargmin", "median", "nanmedian", "ptp", "count_nonzero", "average"):
        E(f"da.{fn}", lambda c, fn=fn: getattr(c.m, fn)(c.x % 5, axis=0))
    E("da.argmax:keepdims", lambda c: c.m.argmax(c.x % 5, axis=-1, keepdims=True))
    E("da.sum:axes", lambda c: c.m.sum(c.x, axis=(0, -1), keepdims=True), ranks=(2, 3))
    E("da.reduction", lambda c: c.m.reduction(c.x, np.sum, np.sum, axis=0, dtype=c.x.dtype, keepdims=True) if c.da else np.sum(c.x, axis=0, keepdims=True))
    E("da.moment", lambda c: c.m.moment(c.x, 2, axis=0) if c.da else np.mean((c.x - c.x.mean(axis=0)) ** 2, axis=0))
    E("Array.moment", lambda c: c.x.moment(2, axis=-1) if c.da else np.mean((c.x - c.x.mean(axis=-1, keepdims=True)) ** 2, axis=-1))
    E("da.trace", lambda c: c.m.trace(c.x), ranks=(2, 3))
    E("Array.trace", lambda c: c.x.trace(offset=1), ranks=(2, 3))
    E("da.topk", lambda c: c.m.topk(c.x, 2, axis=0) if c.da else -np.sort(-c.x, axis=0)[:2])
    E("da.topk:neg", lambda c: c.m.topk(c.x, -2, axis=-1) if c.da else np.sort(c.x, axis=-1)[..., :2])
    E("Array.topk", lambda c: c.x.topk(3, axis=-1) if c.da else -np.sort(-c.x, axis=-1)[..., :3])
    E("da.argtopk", lambda c: c.m.argtopk(c.x, 2, axis=0) if c.da else None, values=False)
    E("Array.argtopk", lambda c: c.x.argtopk(2, axis=-1) if c.da else None, values=False)
    E("da.percentile", lambda c: c.m.percentile(c.x, [25, 50]) if c.da else None, ranks=(1,), values=False)
    E("da.quantile", lambda c: c.m.quantile(c.x, [0.25, 0.5], axis=0), ranks=(1, 2))
    E("da.nanquantile", lambda c: c.m.nanquantile(c.x, 0.5, axis=-1), ranks=(1, 2))
    E("da.nanpercentile", lambda c: c.m.nanpercentile(c.x, [10, 90], axis=0), ranks=(1, 2))
    E("da.coarsen", lambda c: c.m.coarsen(np.sum, c.x, {0: 2}, trim_excess=True) if c.da else None, values=False)
    E("da.coarsen:last", lambda c: c.m.coarsen(np.max, c.x, {c.nd - 1: 2}, trim_excess=True) if c.da else None, values=False)
    # ---- stacking
    E("da.stack", lambda c: c.m.stack([c.x, c.y], axis=0))
    E("da.stack:last", lambda c: c.m.stack([c.x, c.y], axis=-1))
    E("da.stack:mid", lambda c: c.m.stack([c.x, c.y, c.x], axis=1))
    E("da.concatenate", lambda c: c.m.concatenate([c.x, c.y], axis=0))
    E("da.concatenate:last", lambda c: c.m.concatenate([c.x, c.y, c.x], axis=-1))
    E("da.concatenate:flat", lambda c: c.m.concatenate([c.x, c.y], axis=None))
    E("da.hstack", lambda c: c.m.hstack([c.x, c.y]))
    E("da.vstack", lambda c: c.m.vstack([c.x, c.y]))
    E("da.dstack", lambda c: c.m.dstack([c.x, c.y]))
    E("da.block", lambda c: c.m.block([[c.x, c.y], [c.y, c.x]]), ranks=(2, 3))
    E("da.block:1d", lambda c: c.m.block([c.x, c.y, c.x]))
    # ---- selection
    E("da.take", lambda c: c.m.take(c.x, [3, 0, 2, 2], axis=0))
    E("da.take:last", lambda c: c.m.take(c.x, [1, 1, 0, 3], axis=-1))
    E("da.compress", lambda c: c.m.compress([True, False, True, True], c.x, axis=0))
    E("da.compress:last", lambda c: c.m.compress([False, True, True], c.x, axis=-1))
    E("da.extract", lambda c: c.m.extract(c.x % 3 == 0, c.x))
    E("getitem:bool", lambda c: c.x[c.x % 2 == 0])
    E("getitem:ints", lambda c: c.x[[2, 0, 1, 1]])
    E("getitem:int", lambda c: c.x[1], ranks=(2, 3))
    E("getitem:int-last", lambda c: c.x[..., 2], ranks=(2, 3))
    E("getitem:step", lambda c: c.x[::2, ..., ::-1] if c.nd > 1 else c.x[::-2])
    # rank 3 with a chunked trailing axis is the listed finding vindex:multi-array-multi-block (C12)
    E("Array.vindex", lambda c: (c.x.vindex[[0, 2, 1], [1, 3, 0]] if c.da else c.x[[0, 2, 1], [1, 3, 0]]), ranks=(2,))
    E("Array.vindex:one", lambda c: (c.x.vindex[[0, 2, 1, 1]] if c.da else c.x[[0, 2, 1, 1]]))
    E("Array.shuffle", lambda c: (c.x.shuffle([[2, 0], [1, 3, 3]], axis=0) if c.da else c.x.take([2, 0, 1, 3, 3], axis=0)))
    E("da.shuffle", lambda c: (c.m.shuffle(c.x, [[1], [0, 2, 2], [3]], axis=c.nd - 1) if c.da else c.x.take([1, 0, 2, 2, 3], axis=c.nd - 1)))
    E("da.where", lambda c: c.m.where(c.x > 4, c.x, c.y))
    E("da.where:scalar", lambda c: c.m.where(c.x > 4, c.x, -1))
    E("da.choose", lambda c: c.m.choose(c.x % 2, [c.x, c.y]), dt="i8")
    E("Array.choose", lambda c: (c.x % 2).choose([c.y, c.x]), dt="i8")
    E("da.select", lambda c: c.m.select([c.x > 6, c.x > 2], [c.x, c.y], default=-1))
    E("da.piecewise", lambda c: c.m.piecewise(c.x, [c.x < 3, c.x >= 3], [-1, 1]))
    E("da.nonzero", lambda c: tuple(c.m.nonzero(c.x % 3)))
    E("Array.nonzero", lambda c: tuple((c.x % 2).nonzero()))
    E("da.argwhere", lambda c: c.m.argwhere(c.x % 3))
    E("da.flatnonzero", lambda c: c.m.flatnonzero(c.x % 3))
    E("da.unique", lambda c: c.m.unique(c.x % 4))
    E("da.union1d", lambda c: c.m.union1d(c.x % 4, c.y % 5), ranks=(1,))
    E("da.isin", lambda c: c.m.isin(c.x, [1, 3, 5]))
    E("da.searchsorted", lambda c: c.m.searchsorted(c.m.cumsum(c.x % 3 + 1), c.y), ranks=(1,))
    E("da.digitize", lambda c: c.m.digitize(c.x, np.array([2, 5, 9])))
    E("da.bincount", lambda c: c.m.bincount(c.x % 5, minlength=6), ranks=(1,), dt="i8")
    E("da.histogram", lambda c: c.m.histogram(c.x, bins=4, range=(0, 23))[0])
    E("da.histogram2d", lambda c: c.m.histogram2d(c.x, c.x * 2 % 23, bins=3, range=((0, 23), (0, 23)))[0], ranks=(1,))
    E("da.histogramdd", lambda c: c.m.histogramdd((c.x.rechunk({1: -1}) if c.da else c.x)[:, :2], bins=(2, 3), range=((0, 23), (0, 23)))[0], ranks=(2,))
    E("da.ravel_multi_index", lambda c: c.m.ravel_multi_index(c.m.stack([c.x % 3, c.y % 4]), (3, 4)), dt="i8")
    E("da.unravel_index", lambda c: c.m.stack(c.m.unravel_index(c.x % 12, (3, 4))) if c.da else np.stack(np.unravel_index(c.x % 12, (3, 4))), dt="i8")
    # ---- triangles / diagonals
    E("da.tril", lambda c: c.m.tril(c.x), ranks=(2, 3))
    E("da.triu", lambda c: c.m.triu(c.x, k=1), ranks=(2, 3))
    E("da.diag:1d", lambda c: c.m.diag(c.x), ranks=(1,))
    E("da.diag:1d-k", lambda c: c.m.diag(c.x, k=2), ranks=(1,))
    E("da.diag:2d", lambda c: c.m.diag(c.x), ranks=(2,))
    E("da.diag:2d-k", lambda c: c.m.diag(c.x, k=-1), ranks=(2,))
    E("da.diagonal", lambda c: c.m.diagonal(c.x), ranks=(2, 3))
    E("da.diagonal:offset", lambda c: c.m.diagonal(c.x, offset=1, axis1=c.nd - 1, axis2=0), ranks=(2, 3))
    E("da.tril_indices_from", lambda c: tuple(c.m.tril_indices_from(c.x)), ranks=(2,))
    E("da.triu_indices_from", lambda c: tuple(c.m.triu_indices_from(c.x, k=1)), ranks=(2,))
    # ---- products
    E("da.tensordot", lambda c: c.m.tensordot(c.x, c.y.T, axes=1), ranks=(2,))
    E("da.tensordot:axes", lambda c: c.m.tensordot(c.x, c.y, axes=((0,), (0,))), ranks=(2, 3))
    E("da.matmul", lambda c: c.m.matmul(c.x, c.m.swapaxes(c.y, -1, -2)), ranks=(2, 3))
    E("da.matmul:vec", lambda c: c.m.matmul(c.x, c.y[0] if c.nd == 2 else c.y[0, 0]), ranks=(2, 3))
    E("da.dot", lambda c: c.m.dot(c.x, c.y.T), ranks=(2,))
    E("Array.dot", lambda c: c.x.dot(c.y.T), ranks=(2,))
    E("da.vdot", lambda c: c.m.vdot(c.x, c.y), ranks=(1, 2))
    E("da.outer", lambda c: c.m.outer(c.x, c.y), ranks=(1, 2))
    E("da.einsum", lambda c: c.m.einsum("ij,kj->ik", c.x, c.y), ranks=(2,))
    E("da.einsum:trace", lambda c: c.m.einsum("ij->j", c.x), ranks=(2,))
    E("da.einsum:T", lambda c: c.m.einsum("ij->ji", c.x), ranks=(2,))
    E("da.cov", lambda c: c.m.cov(c.x), ranks=(2,))
    E("da.corrcoef", lambda c: c.m.corrcoef(c.x + c.m.arange(c.x.shape[1]) ** 2 if not c.da else c.x + c.m.arange(c.x.shape[1], chunks=2) ** 2), ranks=(2,))
    # ---- apply / map
    E("da.apply_along_axis", lambda c: c.m.apply_along_axis(_cum_last, 0, c.x, dtype=c.x.dtype, shape=(c.x.shape[0],)) if c.da else np.apply_along_axis(_cum_last, 0, c.x))
    E("da.apply_along_axis:last", lambda c: c.m.apply_along_axis(np.sum, c.nd - 1, c.x), ranks=(2, 3))
    E("da.apply_over_axes", lambda c: c.m.apply_over_axes(np.sum, c.x, [0]), ranks=(2, 3))
    E("da.apply_gufunc", lambda c: (c.m.apply_gufunc(_sum_last, "(i)->()", c.x.rechunk({c.nd - 1: -1}), output_dtypes=c.x.dtype) if c.da else c.x.sum(axis=-1)))
    E("da.as_gufunc", lambda c: (c.m.as_gufunc(signature="(i)->()", output_dtypes=c.x.dtype)(_sum_last)(c.x.rechunk({c.nd - 1: -1})) if c.da else c.x.sum(axis=-1)))
    E("da.apply_gufunc:newdim", lambda c: (c.m.apply_gufunc(_rep2_last, "(i)->(j)", c.x.rechunk({c.nd - 1: -1}), output_dtypes=c.x.dtype, output_sizes={"j": 2 * c.x.shape[-1]}) if c.da else np.repeat(c.x, 2, axis=-1)))
    E("Array.map_blocks:chunks", lambda c: _mb(c, _rep2, _rep2, chunks=(tuple(2 * v for v in c.chunks[0]),) + tuple(tuple(v) for v in c.chunks[1:])))
    E("Array.map_blocks:drop", lambda c: _mb(c, _sum0, _sum0, drop_axis=0) if (not c.da or len(c.chunks[0]) == 1) else c.x.rechunk({0: -1}).map_blocks(_sum0, drop_axis=0, dtype=c.x.dtype), ranks=(2, 3))
    E("Array.map_blocks:new", lambda c: _mb(c, _new0, _new0, new_axis=0))
    E("da.map_blocks:two", lambda c: c.m.map_blocks(np.add, c.x, c.x * 2, dtype=c.x.dtype) if c.da else c.x * 3)
    E("da.blockwise", lambda c: (c.m.blockwise(np.add, tuple(range(c.nd)), c.x, tuple(range(c.nd)), c.y, tuple(range(c.nd)), dtype=c.x.dtype) if c.da else c.x + c.y))
    E("da.blockwise:T", lambda c: (c.m.blockwise(np.transpose, (1, 0), c.x, (0, 1), dtype=c.x.dtype) if c.da else c.x.T), ranks=(2,))
    E("da.blockwise:adjust", lambda c: (c.m.blockwise(_rep2, tuple(range(c.nd)), c.x, tuple(range(c.nd)), dtype=c.x.dtype, adjust_chunks={0: lambda n: 2 * n}) if c.da else _rep2(c.x)))
    E("da.elemwise", lambda c: c.m.elemwise(np.add, c.x, c.y) if c.da else c.x + c.y)
    E("Array.map_overlap", lambda c: c.x.map_overlap(_ident, depth=1, boundary="reflect", dtype=c.x.dtype) if c.da else c.x)
    # map_overlap(trim=False) is the listed finding overlap-seq:map_overlap:notrim:raises (C19/C08): not repeated here
    E("da.map_overlap:none", lambda c: c.m.map_overlap(_ident, c.x, depth=1, boundary="none", dtype=c.x.dtype) if c.da else c.x)
    E("da.overlap", lambda c: c.m.overlap(c.x, depth={0: 1}, boundary={0: "reflect"}) if c.da else None, values=False)
    E("da.trim_overlap", lambda c: c.m.trim_overlap(c.m.overlap(c.x, depth=1, boundary="periodic"), depth=1, boundary="periodic") if c.da else c.x)
    E("da.sliding_window_view", lambda c: (c.m.sliding_window_view(c.x, 2, axis=0) if c.da else np.lib.stride_tricks.sliding_window_view(c.x, 2, axis=0)))
    E("da.sliding_window_view:last", lambda c: (c.m.sliding_window_view(c.x, 3, axis=-1) if c.da else np.lib.stride_tricks.sliding_window_view(c.x, 3, axis=-1)))
    E("da.sliding_window_view:reduced", lambda c: (c.m.sliding_window_view(c.x, 3, axis=0).sum(-1) if c.da else np.lib.stride_tricks.sliding_window_view(c.x, 3, axis=0).sum(-1)))
    E("da.push", lambda c: c.m.push(c.x, None, 0) if c.da else c.x)
    # ---- block access / rechunking
    E("Array.blocks:int", lambda c: c.x.blocks[1] if c.da else c.x[_ext_slices(c.chunks, (1,))])
    E("Array.blocks:last", lambda c: (c.x.blocks[(Ellipsis, -1)] if c.da else c.x[(Ellipsis,) + _ext_slices(c.chunks[-1:], (len(c.chunks[-1]) - 1,))]))
    E("Array.blocks:slice", lambda c: (c.x.blocks[1:, :1] if c.da else c.x[_ext_slices(c.chunks, (slice(1, None), slice(None, 1)))]), ranks=(2, 3))
    E("Array.blocks:list", lambda c: (c.x.blocks[[1, 0]] if c.da else np.concatenate([c.x[_ext_slices(c.chunks, (1,))], c.x[_ext_slices(c.chunks, (0,))]], axis=0)))
    E("Array.partitions", lambda c: c.x.partitions[-1] if c.da else c.x[_ext_slices(c.chunks, (len(c.chunks[0]) - 1,))])
    E("Array.rechunk:int", lambda c: c.x.rechunk(2) if c.da else c.x)
    E("Array.rechunk:dict", lambda c: c.x.rechunk({0: -1, c.nd - 1: 3}) if c.da else c.x)
    E("Array.rechunk:swap", lambda c: c.x.rechunk(tuple(_swap_cuts(c.chunks))) if c.da else c.x)
    E("Array.rechunk:auto", lambda c: c.x.rechunk("auto") if c.da else c.x)
    E("Array.rechunk:balance", lambda c: c.x.rechunk(3, balance=True) if c.da else c.x)
    E("da.rechunk:twice", lambda c: c.m.rechunk(c.x.rechunk(tuple(_swap_cuts(c.chunks))), tuple(tuple(v) for v in c.chunks)) if c.da else c.x)
    E("Array.persist", lambda c: c.x.persist(scheduler="sync") if c.da else c.x)
    E("Array.freeze_chunks", lambda c: (c.x + 1).freeze_chunks() if c.da else c.x + 1)
    E("Array.optimize", lambda c: (c.x + c.y)[::-1].optimize() if c.da else (c.x + c.y)[::-1])
    E("da.optimize", lambda c: c.m.optimize((c.x + c.y)[::-1]) if c.da else (c.x + c.y)[::-1])
    E("da.compute", lambda c: c.m.asarray(c.m.compute((c.x + c.y)[::-1])[0]) if c.da else (c.x + c.y)[::-1])
    E("Array.A", lambda c: c.x.A if c.da else c.x)
    E("Array.store", lambda c: _store_roundtrip(c, method=True) if c.da else c.x[::-1])
    E("Array.simplify", lambda c: (c.x + c.y)[::-1].simplify() if c.da else (c.x + c.y)[::-1])
    E("Array.compute_chunk_sizes", lambda c: c.x[c.x[(slice(None),) + (0,) * (c.nd - 1)] % 2 == 0].compute_chunk_sizes() if c.da else c.x[c.x[(slice(None),) + (0,) * (c.nd - 1)] % 2 == 0])
    E("Array.to_delayed", lambda c: _from_delayed_roundtrip(c) if c.da else c.x)
    E("da.from_delayed", lambda c: _from_delayed_roundtrip(c, flip=True) if c.da else c.x[::-1])
    E("da.from_map", lambda c: (c.m.from_map(_fm_block, [[1], [2], [3]], chunks=((2, 2, 2), (3,)), dtype="f8") if c.da else np.concatenate([_fm_block(v) for v in (1, 2, 3)], axis=0)), ranks=(1,))
    E("da.store", lambda c: _store_roundtrip(c) if c.da else c.x[::-1])
    E("da.to_npy_stack", lambda c: _npy_roundtrip(c) if c.da else c.x)
    # ---- creation (chunks derived from a spec)
    E("da.arange", lambda c: c.m.arange(2, 19, 2, chunks=3) if c.da else np.arange(2, 19, 2), ranks=(1,))
    E("da.linspace", lambda c: c.m.linspace(0, 5, 11, chunks=4) if c.da else np.linspace(0, 5, 11), ranks=(1,))
    E("da.ones_like", lambda c: c.m.ones_like(c.x))
    E("da.zeros_like", lambda c: c.m.zeros_like(c.x, dtype="i4"))
    E("da.full_like", lambda c: c.m.full_like(c.x, 3))
    E("da.empty_like", lambda c: c.m.empty_like(c.x), values=False)
    E("da.ones", lambda c: c.m.ones(tuple(c.x.shape), chunks=tuple(tuple(v) for v in c.chunks)) if c.da else np.ones(c.x.shape))
    E("da.zeros", lambda c: c.m.zeros(tuple(c.x.shape), chunks=3) if c.da else np.zeros(c.x.shape))
    E("da.full", lambda c: c.m.full(tuple(c.x.shape), 4, chunks=(2,) * c.nd) if c.da else np.full(c.x.shape, 4))
    E("da.empty", lambda c: c.m.empty(tuple(c.x.shape), chunks=2) if c.da else np.empty(c.x.shape), values=False)
    E("da.eye", lambda c: c.m.eye(7, chunks=3, M=5, k=1) if c.da else np.eye(7, M=5, k=1), ranks=(1,))
    E("da.tri", lambda c: c.m.tri(6, M=8, k=-1, chunks=(4, 3)) if c.da else np.tri(6, M=8, k=-1), ranks=(1,))
    E("da.indices", lambda c: c.m.indices((4, 5), chunks=(3, 2)) if c.da else np.indices((4, 5)), ranks=(1,))
    E("da.meshgrid", lambda c: tuple(c.m.meshgrid(c.x, c.y[:5], indexing="ij")), ranks=(1,))
    E("da.meshgrid:xy", lambda c: tuple(c.m.meshgrid(c.x, c.y[:5], c.x[:3])), ranks=(1,))
    E("da.meshgrid:sparse", lambda c: tuple(c.m.meshgrid(c.x, c.y[:5], sparse=True)), ranks=(1,))
    E("da.fromfunction", lambda c: c.m.fromfunction(_ff2, shape=(5, 6), chunks=((2, 3), (4, 2)), dtype="f8") if c.da else np.fromfunction(_ff2, (5, 6), dtype="f8"), ranks=(1,))
    E("da.tril_indices", lambda c: tuple(c.m.tril_indices(5, k=0, m=4, chunks=2)) if c.da else tuple(np.tril_indices(5, k=0, m=4)), ranks=(1,))
    E("da.triu_indices", lambda c: tuple(c.m.triu_indices(4, k=1, chunks=3)) if c.da else tuple(np.triu_indices(4, k=1)), ranks=(1,))
    E("da.from_array", lambda c: c.m.from_array(np.asarray(c.x.compute() if c.da else c.x), chunks=tuple(tuple(v) for v in c.chunks)) if c.da else c.x)
    E("da.asarray", lambda c: c.m.asarray(c.x, dtype="f4"))
    E("da.asanyarray", lambda c: c.m.asanyarray(c.x))
    E("da.array", lambda c: c.m.array(c.x, dtype="i8"))
    E("da.random", lambda c: c.m.random.default_rng(3).random(tuple(c.x.shape), chunks=tuple(tuple(v) for v in c.chunks)) if c.da else np.empty(c.x.shape), values=False)
    E("da.random:normal", lambda c: c.m.random.default_rng(3).normal(0, 1, size=tuple(c.x.shape), chunks=2) if c.da else np.empty(c.x.shape), values=False)
    E("da.random:permutation", lambda c: c.m.random.default_rng(3).permutation(c.x) if c.da else c.x, values=False)
    E("da.random:choice", lambda c: c.m.random.default_rng(3).choice(c.x, size=5, chunks=2) if c.da else np.empty(5), ranks=(1,), values=False)
    # ---- fft / linalg (chunks derived from sizes)
    E("da.fft.fft", lambda c: c.m.fft.fft(c.x.rechunk({c.nd - 1: -1}) if c.da else c.x))
    E("da.fft.rfft", lambda c: c.m.fft.rfft(c.x.rechunk({c.nd - 1: -1}) if c.da else c.x))
    E("da.fft.rfft:n", lambda c: c.m.fft.rfft(c.x.rechunk({0: -1}) if c.da else c.x, n=5, axis=0))
    E("da.fft.irfft", lambda c: c.m.fft.irfft(c.x.rechunk({c.nd - 1: -1}) if c.da else c.x))
    E("da.fft.fft2", lambda c: c.m.fft.fft2(c.x.rechunk({c.nd - 1: -1, c.nd - 2: -1}) if c.da else c.x), ranks=(2, 3))
    E("da.fft.fftshift", lambda c: c.m.fft.fftshift(c.x))
    E("da.fft.fftshift:axis", lambda c: c.m.fft.fftshift(c.x, axes=0))
    E("da.fft.fftfreq", lambda c: c.m.fft.fftfreq(9, chunks=4) if c.da else np.fft.fftfreq(9), ranks=(1,))
    E("da.fft.rfftfreq", lambda c: c.m.fft.rfftfreq(9, chunks=2) if c.da else np.fft.rfftfreq(9), ranks=(1,))
    E("da.linalg.norm", lambda c: c.m.linalg.norm(c.x, axis=0, keepdims=True))
    E("da.linalg.norm:fro", lambda c: c.m.linalg.norm(c.x), ranks=(1, 2))
    E("da.linalg.qr", lambda c: tuple(c.m.linalg.qr(c.x.rechunk({1: -1}))) if c.da else None, ranks=(2,), values=False)
    E("da.linalg.svd", lambda c: tuple(c.m.linalg.svd(c.x.rechunk({1: -1}))) if c.da else None, ranks=(2,), values=False)
    E("da.linalg.tsqr", lambda c: tuple(c.m.linalg.tsqr(c.x.rechunk({1: -1}))) if c.da else None, ranks=(2,), values=False)
    # ---- tuple-valued ufuncs
    E("da.frexp", lambda c: tuple(c.m.frexp(c.x)))
    E("da.modf", lambda c: tuple(c.m.modf(c.x / 3)))
    E("da.divmod", lambda c: tuple(c.m.divmod(c.x, c.y + 1)))
    E("da.nan_to_num", lambda c: c.m.nan_to_num(c.x / (c.x % 3)))
    E("da.around", lambda c: c.m.around(c.x / 7, 2))
    E("da.round", lambda c: c.m.round(c.x / 7, 1))
    E("da.clip", lambda c: c.m.clip(c.x, 3, 11))
    E("da.isclose", lambda c: c.m.isclose(c.x, c.y))
    E("da.allclose", lambda c: c.m.allclose(c.x, c.x))
    E("da.ldexp", lambda c: c.m.ldexp(c.x, (c.y % 3).astype("i4")))
    E("da.i0", lambda c: c.m.i0(c.x / 9))
    E("da.sinc", lambda c: c.m.sinc(c.x / 9))
    E("da.fix", lambda c: c.m.fix(c.x / 3 - 2))
    E("da.iscomplexobj", lambda c: c.m.asarray(c.m.iscomplexobj(c.x)))
    E("da.result_type", lambda c: c.m.zeros((), dtype=c.m.result_type(c.x, "f4")) if not c.da else c.m.zeros((), dtype=c.m.result_type(c.x, "f4"), chunks=()))
    E("da.shape", lambda c: c.m.asarray(c.m.shape(c.x)))
    E("da.ndim", lambda c: c.m.asarray(c.m.ndim(c.x)))
    E("da.isnull", lambda c: c.m.isnull(c.x / (c.x % 3)) if c.da else np.isnan(c.x / (c.x % 3)))
    E("da.notnull", lambda c: c.m.notnull(c.x / (c.x % 3)) if c.da else ~np.isnan(c.x / (c.x % 3)))
    E("da.frompyfunc", lambda c: c.m.frompyfunc(_py_add, 2, 1)(c.x, c.y), values=False)
    E("da.cumreduction", lambda c: (c.m.cumreduction(np.cumsum, _op_add, 0, c.x, axis=0, dtype=c.x.dtype) if c.da else np.cumsum(c.x, axis=0)))
    # rank 1 only: ties of a flat arg-reduction over several axes are the listed finding reduction:arg-ravel:tie-not-first-in-C-order (C18)
    E("da.arg_reduction", lambda c: c.m.argmax(c.x, axis=None) if c.da else np.argmax(c.x), ranks=(1,))
    return T


def _sum_last(v):
    return np.asarray(v).sum(axis=-1)


def _rep2_last(v):
    return np.repeat(np.asarray(v), 2, axis=-1)


def _py_add(a, b):
    return a + b


def _op_add(a, b):
    return a + b


def _ff2(i, j):
    return i * 10 + j


def _fm_block(v):
    return np.full((2, 3), float(v))


def _swap_cuts(chunks):
    """another chunking with the same block counts: every axis' cuts reversed (or shifted when symmetric)"""
    out = []
    for c in chunks:
        r = list(c)[::-1]
        if r == list(c) and len(c) > 1 and c[0] > 1:
            r = [c[0] - 1] + list(c[1:-1]) + [c[-1] + 1]
        out.append(tuple(r))
    return out


def _from_delayed_roundtrip(c, flip=False):
    """to_delayed(): one Delayed per advertised block; each is rebuilt with from_delayed using the ADVERTISED block shape
    and the grid is reassembled with block() — a block that does not have the advertised shape shows."""
    import dask_array as da

    x = c.x[::-1] + c.y if flip else c.x
    ds = x.to_delayed()
    grid = np.empty(ds.shape, dtype=object)
    for bid in itertools.product(*[range(n) for n in ds.shape]):
        shp = tuple(x.chunks[ax][j] for ax, j in enumerate(bid))
        grid[bid] = da.from_delayed(ds[bid], shape=shp, dtype=x.dtype)
    out = da.block(grid.tolist())
    if flip:
        return out - c.y
    return out


def _store_roundtrip(c, method=False):
    import dask_array as da

    tgt = np.zeros(tuple(c.x.shape), dtype=c.x.dtype)
    if method:
        (c.x + c.y)[::-1].store(tgt, scheduler="sync", lock=False)
    else:
        da.store((c.x + c.y)[::-1], tgt, scheduler="sync", lock=False)
    return da.from_array(tgt, chunks=tuple(tuple(v) for v in c.chunks)) - c.y[::-1]


def _npy_roundtrip(c):
    import shutil
    import tempfile

    import dask_array as da

    d = tempfile.mkdtemp(prefix="c03npy")
    try:
        da.to_npy_stack(d, c.x, axis=0)
        y = da.from_npy_stack(d, mmap_mode=None)
        y._c03_keep = d
        return da.from_array(np.asarray(y.compute(scheduler="sync")), chunks=y.chunks)
    finally:
        shutil.rmtree(d, ignore_errors=True)


UFUNC1 = ("abs", "absolute", "arccos", "arccosh", "arcsin", "arcsinh", "arctan", "arctanh", "cbrt", "ceil", "conj", "conjugate", "cos", "cosh", "deg2rad",
          "degrees", "exp", "exp2", "expm1", "fabs", "floor", "isfinite", "isinf", "isnan", "isneginf", "isposinf", "isreal", "iscomplex", "log", "log10",
          "log1p", "log2", "logical_not", "negative", "positive", "rad2deg", "radians", "reciprocal", "rint", "sign", "signbit", "sin", "sinh", "spacing",
          "sqrt", "square", "tan", "tanh", "trunc")
UFUNC1_INT = ("bitwise_not", "invert")
UFUNC2 = ("add", "arctan2", "copysign", "divide", "equal", "float_power", "floor_divide", "fmax", "fmin", "fmod", "greater", "greater_equal", "hypot", "less",
          "less_equal", "logaddexp", "logaddexp2", "logical_and", "logical_or", "logical_xor", "maximum", "minimum", "mod", "multiply", "nextafter", "not_equal",
          "power", "remainder", "subtract", "true_divide")
UFUNC2_INT = ("bitwise_and", "bitwise_or", "bitwise_xor", "left_shift", "right_shift")


def _ufunc_entries():
    T = {}
    for fn in UFUNC1 + UFUNC1_INT:
        T["da." + fn] = ((1, 2, 3), (lambda c, fn=fn: getattr(c.m, fn)(c.x / 5 if fn not in UFUNC1_INT else c.x)[_SEL[c.nd]]), {"dt": "i8" if fn in UFUNC1_INT else "f8", "light": True})
    for fn in UFUNC2 + UFUNC2_INT:
        T["da." + fn] = ((1, 2, 3), (lambda c, fn=fn: getattr(c.m, fn)(c.x, c.y % 4 + 1)[_SEL[c.nd]]), {"dt": "i8" if fn in UFUNC2_INT else "f8", "light": True})
    return T


_SEL = {1: (slice(None, None, -1),), 2: ([2, 0, 1, 1],), 3: (slice(1, None), slice(None), [1, 0, 3])}


# ---- view: every itemsize ratio, both orders
VIEW_PAIRS = [("f8", "f4"), ("f8", "i8"), ("f8", "u1"), ("f8", "i2"), ("f8", "c16"), ("f4", "f8"), ("i2", "i4"), ("u1", "i2"), ("u1", "f8"), ("c16", "f8"),
              ("c8", "f4"), ("i4", "f4"), ("i8", "c16"), ("f4", "u1")]


def view_case(src, dst, order, nd, base):
    """profile whose rescaled axis' sizes are multiples of the itemsize ratio; all axes have equal block counts and
    different sizes"""
    r = max(1, np.dtype(dst).itemsize // np.dtype(src).itemsize)
    chunks = [[v * r for v in ax] for ax in base[:nd]]
    return {"layout": "method", "name": f"Array.view:{order}", "view": [src, dst, order], "profile": {"shape": [sum(c) for c in chunks], "chunks": chunks}, "dt": src}


VIEW_BASES = [[[1, 2], [3, 1], [2, 2]], [[2, 1, 1], [1, 1, 3], [1, 2, 1]], [[3, 3], [4, 4], [1, 2]]]


def _np_view(a, dt, order):
    if order == "C":
        return np.ascontiguousarray(a).view(dt)
    return np.asfortranarray(a).T.view(dt).T


# names exercised inside another entry (round trips) or by the checker itself on every case
REACH_ALSO = {"da.to_npy_stack": ["da.from_npy_stack"], "Array.to_delayed": ["da.from_delayed", "da.block"], "da.store": ["da.from_array"],
              "Array.T": ["Array.chunks", "Array.dtype", "Array.shape", "Array.name", "Array.ndim", "Array.compute", "Array.dask", "Array.numblocks", "Array.expr"]}

_TABLE = None


def table():
    global _TABLE
    if _TABLE is None:
        _TABLE = {**_entries(), **_ufunc_entries()}
    return _TABLE


def public_names():
    """public callables of the package and public attributes of Array, from the package itself"""
    import inspect

    import dask_array as da

    fns = sorted(n for n in dir(da) if not n.startswith("_") and callable(getattr(da, n)) and not inspect.isclass(getattr(da, n)) and not inspect.ismodule(getattr(da, n)))
    meths = sorted(n for n in dir(da.Array) if not n.startswith("_"))
    return fns, meths


def _second_chunks(prof):
    return [list(c) for c in _swap_cuts(prof["chunks"])]


def method_build(case):
    """Returns (list of (label, dask array, numpy reference or None), values flag)."""
    import dask_array as da

    prof = case["profile"]
    dt = case.get("dt", "f8")
    shape = tuple(prof["shape"])
    a = _src_data(shape, dt, 7, 3)
    b = _src_data(shape, dt, 5, 1)
    x = da.from_array(a, chunks=tuple(tuple(c) for c in prof["chunks"]))
    y = da.from_array(b, chunks=tuple(tuple(c) for c in _second_chunks(prof)))
    if case.get("view"):
        src, dst, order = case["view"]
        return [("", x.view(dst, order=order), _np_view(a, dst, order))], True
    ranks, fn, opt = table()[case["name"]]
    got = fn(M(da, x, y, prof, True))
    try:
        with np.errstate(all="ignore"):
            want = fn(M(np, a, b, prof, False))
    except Exception as e:  # noqa: BLE001
        want = None
        case["_np_error"] = repr(e)[:120]
    if isinstance(got, (tuple, list)):
        wants = list(want) if isinstance(want, (tuple, list)) and len(want) == len(got) else [None] * len(got)
        outs = [(f"[{i}]", g, (None if w is None else np.asarray(w))) for i, (g, w) in enumerate(zip(got, wants)) if hasattr(g, "chunks")]
    else:
        if not hasattr(got, "chunks"):
            got = da.asarray(got)
        outs = [("", got, None if want is None else np.asarray(want))]
    return outs, bool(opt.get("values", True))


def method_sig(case):
    name = case["name"]

    def sig(kind, exc=None):
        return f"method:{name}:{kind}"
    return sig


def method_check(ctx, case, light=False):
    with warnings.catch_warnings():
        warnings.simplefilter("ignore")
        try:
            outs, values_ok = method_build(case)
        except Exception as e:  # noqa: BLE001
            # refused at construction: not wrong data (noted with an example per entry)
            ctx.notes["method.refused"] = ctx.notes.get("method.refused", 0) + 1
            ex = ctx.extra.setdefault("method_refusal_examples", {})
            if case["name"] not in ex and len(ex) < 40:
                ex[case["name"]] = {"profile": case["profile"], "error": repr(e)[:160]}
            return 0, False
        if case.get("_np_error"):
            ex = ctx.extra.setdefault("method_no_numpy_reference", {})
            ex.setdefault(case["name"], case.pop("_np_error"))
        case.pop("_np_error", None)
        n = 0
        for label, y, want in outs:
            if want is not None and want.dtype.kind != y.dtype.kind and not (want.dtype.kind in "iub" and y.dtype.kind in "iub"):
                # dtype conformance to NumPy is not C03 (advertised vs produced is): noted
                d = ctx.extra.setdefault("method_advertised_dtype_kind_differs_from_numpy(noted, not C03)", {})
                d.setdefault(case["name"] + label, {"advertised": str(y.dtype), "numpy": str(want.dtype)})
                want = None
            if want is not None and want.dtype.kind in "fc" and y.dtype.kind in "iub":
                want = None
            nf = len(ctx.failures)
            n += check_array(ctx, case, y, want, method_sig(case), values_ok=values_ok, compute=bool(case.get("view")) or ctx.tier != "quick",
                             opts=(True,) if (light and ctx.tier == "quick") else (True, False))
            if len(ctx.failures) > nf:
                break
        return n, True


def run_method(ctx):
    rng = ctx.rng
    T = table()
    reached, refused = set(), set()
    n_cases = 0
    rand_profiles = {nd: [_rand_profile(rng, nd) for _ in range(ctx.scale(1, 6))] for nd in (1, 2, 3)}
    by_rank = {nd: [p for p in PROFILES if len(p["shape"]) == nd] for nd in (1, 2, 3)}
    reps = ctx.scale(1, 4)
    for name, (ranks, fn, opt) in T.items():
        light = bool(opt.get("light"))
        profs = []
        for _ in range(reps):
            nd = rng.choice(list(ranks))
            pool = by_rank[nd] + rand_profiles[nd]
            profs.append(pool[rng.randrange(len(pool))])
        if not light and ctx.tier != "quick":
            profs += [p for nd in ranks for p in by_rank[nd]]
        for prof in profs:
            case = {"layout": "method", "name": name, "profile": prof, "dt": opt.get("dt", rng.choice(["f8", "f8", "i8"]) if not light else "f8")}
            n, ok = method_check(ctx, case, light=light)
            n_cases += 1
            (reached if ok else refused).add(name)
            ctx.count(("method", name, len(prof["shape"]), ok), max(1, n))
    # view: every itemsize ratio x both orders x rank 1-3
    for src, dst in VIEW_PAIRS:
        for order in ("C", "F"):
            nds = (1, 2, 3) if ctx.tier != "quick" else (2, rng.choice([1, 3]))
            for nd in nds:
                base = VIEW_BASES[rng.randrange(len(VIEW_BASES))] if nd > 1 else [rng.choice([[1, 2], [2, 1, 1], [3, 1]])]
                if rng.random() < 0.5:
                    base = [_comp(rng, rng.randint(3, 6), 2) for _ in range(nd)]
                    if nd > 1 and base[0] == base[-1]:
                        base[0] = base[0][::-1] if base[0] != base[0][::-1] else [base[0][0] + 1, base[0][1]]
                case = view_case(src, dst, order, nd, base)
                n, ok = method_check(ctx, case)
                n_cases += 1
                (reached if ok else refused).add("Array.view")
                ctx.count(("method", "view", src, dst, order, nd, ok), max(1, n))
    ctx.notes["method.cases"] = n_cases
    # ---- which public names were reached
    try:
        fns, meths = public_names()
        hit = {n.split(":")[0] for n in reached}
        for k, also in REACH_ALSO.items():
            if k in hit:
                hit |= set(also)
        hit_fn = {h[3:].split(".")[0] for h in hit if h.startswith("da.")} | {h[3:] for h in hit if h.startswith("da.")}
        hit_me = {h[6:] for h in hit if h.startswith("Array.")}
        # functions also reached by the other C03 streams (programs / dtype / blocks streams)
        elsewhere_fn = {"map_blocks", "blockwise", "rechunk", "concatenate", "stack", "from_array", "einsum", "cov", "trace", "cumreduction", "reduction", "apply_gufunc",
                        "apply_along_axis", "map_overlap", "sum", "prod", "mean", "var", "std", "max", "min", "all", "any", "argmax", "argmin", "full", "matmul"}
        nfn = [n for n in fns if n not in hit_fn and n not in elsewhere_fn]
        nme = [n for n in meths if n not in hit_me]
        ctx.notes["method.public_functions"] = len(fns)
        ctx.notes["method.public_functions_reached"] = len([n for n in fns if n in hit_fn])
        ctx.notes["method.public_array_attributes"] = len(meths)
        ctx.notes["method.public_array_attributes_reached"] = len([n for n in meths if n in hit_me])
        ctx.extra["method_public_functions_not_reached"] = nfn
        ctx.extra["method_public_array_attributes_not_reached"] = nme
        ctx.extra["method_entries_refused_at_construction"] = sorted(refused - reached)
    except Exception as e:  # noqa: BLE001
        ctx.notes["method.public_names_error"] = repr(e)[:120]


# ====================================================================================== entry


def run(ctx):
    run_drift(ctx)
    run_method(ctx)


def _strip(case):
    return {k: v for k, v in case.items() if k != "detail"}


def replay(ctx, case):
    case = _strip(case)
    if case.get("layout") == "drift":
        n, cls = drift_check(ctx, case)
        ctx.count(("drift", case["family"], cls, case["consumer"]), max(1, n))
    elif case.get("layout") == "method":
        n, ok = method_check(ctx, case)
        ctx.count(("method", case["name"], len(case["profile"]["shape"]), ok), max(1, n))
    else:
        raise ValueError("unknown layout case")
