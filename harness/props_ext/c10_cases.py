"""Case generators of the C10 catalogue (stratified: the kwargs / chunk classes that decide which kernel
path runs are ENUMERATED in every run; everything else is drawn from the seeded rng)."""
from __future__ import annotations

from harness.props_ext.c10_catalog import PRES, SIBS, chunk_pattern, compose, mk_src, rand_chunks

QUANTILE_METHODS = ("linear", "lower", "higher", "midpoint", "nearest", "inverted_cdf", "averaged_inverted_cdf",
                    "closest_observation", "interpolated_inverted_cdf", "hazen", "weibull", "median_unbiased", "normal_unbiased")


def mk(rng, op, kw, src, pre=None, sib=None, family=None, both=False):
    """both: run under array.optimize-graph on AND off (otherwise one of them, drawn)"""
    return {"kind": "cat", "family": family or op, "op": op, "kw": kw, "src": src, "both": both,
            "pre": pre if pre is not None else rng.choice(PRES[:1] * 3 + PRES[1:]),
            "sib": sib if sib is not None else rng.choice(SIBS)}


def rshape(rng, ndim=None, lo=2, hi=8):
    ndim = ndim or rng.choice((1, 2, 2, 2, 3))
    return [rng.randint(lo, hi if ndim < 3 else 4) for _ in range(ndim)]


def fdtype(rng):
    return rng.choice(("f8", "f8", "f8", "f4", "i8", "i4"))


def axis_chunks(rng, shape, axis, pat, limit=None, other=("one", "ragged", "regular", "first1", "ones")):
    """chunks with pattern `pat` on `axis` (or axes) and random patterns elsewhere"""
    axes = axis if isinstance(axis, (list, tuple)) else [axis]
    axes = [a % len(shape) for a in axes]
    return [chunk_pattern(rng, n, pat, limit) if i in axes else chunk_pattern(rng, n, rng.choice(other)) for i, n in enumerate(shape)]


# ------------------------------------------------------------------------------ order statistics

def order_statistics(rng):
    out = []
    fam = "order-statistic"
    for fn in ("quantile", "nanquantile"):
        # the kernel path is decided by: keepdims (dropped axis -> the kernel gets a concatenated copy), overwrite_input,
        # whether the reduced axis is one chunk, whether it is the LAST axis and method == linear (private kernel of
        # nanquantile): full product
        for keepdims in (False, True):
            for ow in (False, True):
                for onechunk in (True, False):
                    for last in (True, False):
                        for linear in (True, False):
                            nd = rng.choice((1, 2, 2, 3)) if last else rng.choice((2, 2, 3))
                            shape = rshape(rng, nd)
                            axis = nd - 1 if last else rng.randrange(nd - 1)
                            if rng.random() < 0.2:
                                axis = axis - nd
                            kw = {"q": rng.choice((0.5, 0.25, 0.0, 1.0, [0.1, 0.9], [0.5], [0.0, 0.3, 1.0])), "axis": axis,
                                  "keepdims": keepdims, "overwrite_input": ow}
                            if not linear:
                                kw["method"] = rng.choice(QUANTILE_METHODS[1:])
                            elif rng.random() < 0.3:
                                kw["method"] = "linear"
                            pat = "one" if onechunk else rng.choice(("ragged", "first1", "last1", "ones"))
                            nan = rng.choice((0.0, 0.0, 0.2)) if fn == "quantile" else rng.choice((0.0, 0.2, 0.5))
                            src = mk_src(rng, shape, axis_chunks(rng, shape, axis, pat), rng.choice(("f8", "f8", "f4", "i8")), nan=nan, ties=rng.random() < 0.3)
                            out.append(mk(rng, fn, kw, [src], family=fam, both=ow and onechunk))
        # several axes / axis=None (one block)
        for keepdims, ow in ((False, True), (True, True), (True, False)):
            shape = rshape(rng, rng.choice((2, 3)))
            if rng.random() < 0.5:
                axes = sorted(rng.sample(range(len(shape)), 2))
                kw = {"q": rng.choice((0.5, [0.2, 0.8])), "axis": axes, "keepdims": keepdims, "overwrite_input": ow}
                ch = axis_chunks(rng, shape, axes, rng.choice(("one", "ragged")))
            else:
                kw = {"q": rng.choice((0.5, [0.2, 0.8])), "keepdims": keepdims, "overwrite_input": ow}
                if rng.random() < 0.4:  # weights need the whole array in one block
                    kw.update(method="inverted_cdf", weights=True, wdask=False)
                ch = [[n] for n in shape]
            out.append(mk(rng, fn, kw, [mk_src(rng, shape, ch, "f8", nan=0.1 if fn == "nanquantile" else 0.0)], family=fam))
    for fn in ("median", "nanmedian"):
        for keepdims in (False, True):
            for pat in ("one", "ragged", "last1"):
                shape = rshape(rng, rng.choice((1, 2, 2, 3)))
                axis = rng.randrange(len(shape))
                ax = [axis] if rng.random() < 0.2 else axis
                if len(shape) > 1 and rng.random() < 0.25:
                    ax = sorted(rng.sample(range(len(shape)), 2))
                src = mk_src(rng, shape, axis_chunks(rng, shape, ax, pat), rng.choice(("f8", "f4", "i8")), nan=0.25 if fn == "nanmedian" else 0.0, ties=rng.random() < 0.3)
                out.append(mk(rng, fn, {"axis": ax, "keepdims": keepdims}, [src], family=fam, both=True))
    for fn in ("percentile", "nanpercentile"):
        for pat in ("one", "ragged", "first1", "ones"):
            n = rng.randint(3, 14)
            kw = {"q": rng.choice((50, [10, 90], [0, 50, 100], 0, 100))}
            if fn == "percentile":
                kw["method"] = rng.choice(("linear", "lower", "higher", "midpoint", "nearest"))
                kw["internal_method"] = rng.choice(("default", "dask"))
            src = mk_src(rng, [n], [chunk_pattern(rng, n, pat)], rng.choice(("f8", "i8")), nan=0.2 if fn == "nanpercentile" else 0.0)
            out.append(mk(rng, fn, kw, [src], family=fam))
    for fn in ("topk", "argtopk", "topk_method"):
        for sign in (1, -1):
            # (chunking of the axis, k reaches the axis length or not): |k| >= block length returns the block itself
            for pat, kbig in (("one", False), ("one", True), ("ragged", False), ("first1", rng.random() < 0.5), ("ones", True)):
                shape = rshape(rng)
                axis = rng.randrange(-len(shape), len(shape))
                k = sign * (rng.randint(shape[axis], shape[axis] + 1) if kbig else rng.randint(1, max(1, shape[axis] - 1)))
                kw = {"k": k, "axis": axis}
                if rng.random() < 0.5:
                    kw["split_every"] = rng.choice((2, 3))
                src = mk_src(rng, shape, axis_chunks(rng, shape, axis, pat), rng.choice(("f8", "i8", "f4")), ties=rng.random() < 0.4)
                out.append(mk(rng, fn, kw, [src], family=fam))
    for pat in ("one", "ragged"):
        shape = rshape(rng, 2)
        axis = rng.randrange(2)
        out.append(mk(rng, "map_blocks_sort", {"axis": axis}, [mk_src(rng, shape, axis_chunks(rng, shape, axis, pat), "f8")], family=fam))
        out.append(mk(rng, "map_blocks_partition", {"axis": axis, "kth": rng.randint(0, 3)}, [mk_src(rng, shape, axis_chunks(rng, shape, axis, pat), "i8")], family=fam))
    return out


# ------------------------------------------------------------------------------------ reductions

def reductions(rng):
    from harness.props_ext.c10_ops import REDUCTIONS

    out = []
    fam = "reduction"
    for fn in REDUCTIONS:
        for rep in range(2):
            shape = rshape(rng)
            nd = len(shape)
            r = rng.random()
            if r < 0.5:
                axis = rng.randrange(-nd, nd)
            elif r < 0.75 and nd > 1 and not fn.startswith(("arg", "nanarg")):
                axis = sorted(rng.sample(range(nd), 2))
            else:
                axis = None
            kw = {"axis": axis}
            if fn != "ptp":
                kw["keepdims"] = rng.random() < 0.5
                if rng.random() < 0.5:
                    kw["split_every"] = rng.choice((2, 3, {"0": 2}.get("x", 2)))
            if fn in ("var", "nanvar", "std", "nanstd") and rng.random() < 0.5:
                kw["ddof"] = 1
            if fn in ("sum", "prod", "mean", "nansum", "cumsum") and rng.random() < 0.3:
                kw["dtype"] = rng.choice(("f8", "f4", "i8"))
            if fn == "count_nonzero":
                kw.pop("split_every", None)
                kw.pop("keepdims", None)
            dt = "b1" if fn in ("any", "all") and rng.random() < 0.5 else fdtype(rng)
            nan = 0.25 if fn.startswith("nan") and dt in ("f8", "f4") else 0.0
            pats = ("one", "ragged", "first1", "last1", "ones", "regular") if rep == 0 else ("first1", "last1", "ones", "zero", "one")
            ch = [chunk_pattern(rng, n, rng.choice(pats)) for n in shape]
            out.append(mk(rng, fn, kw, [mk_src(rng, shape, ch, dt, nan=nan, ties=rng.random() < 0.3)], family=fam))
    for _ in range(3):
        shape = rshape(rng, 2)
        kw = {"order": rng.randint(0, 4), "axis": rng.choice((0, 1, None)), "keepdims": rng.random() < 0.5, "ddof": rng.choice((0, 1))}
        out.append(mk(rng, "moment", kw, [mk_src(rng, shape, rand_chunks(rng, shape), "f8")], family=fam))
    for w in (None, "dask", "numpy"):
        shape = rshape(rng, 2)
        axis = rng.randrange(2)
        ch = rand_chunks(rng, shape)
        kw = {"axis": axis if w else rng.choice((axis, None)), "weights": w, "keepdims": rng.random() < 0.5}
        if w == "dask":
            kw["axis"] = rng.choice((axis, None))
        out.append(mk(rng, "average", kw, [mk_src(rng, shape, ch, "f8"), mk_src(rng, shape, ch, "f8")], family=fam))
    for fn in ("sum", "max", "mean", "nanmin", "argmax", "var"):
        shape = rshape(rng, 2)
        kw = {"fn": fn, "axis": rng.randrange(2), "keepdims": rng.random() < 0.5}
        out.append(mk(rng, "reduction_out", kw, [mk_src(rng, shape, rand_chunks(rng, shape), "f8")], family=fam))
    for conc in (True, True):
        shape = rshape(rng, 2)
        kw = {"fn": rng.choice(("sum", "max")), "axis": rng.choice((0, 1, None)), "keepdims": rng.random() < 0.5, "concatenate": conc, "split_every": rng.choice((None, 2))}
        out.append(mk(rng, "reduction_custom", kw, [mk_src(rng, shape, rand_chunks(rng, shape), "i8")], family=fam))
    shape = [rng.randint(2, 6)] * 2
    out.append(mk(rng, "trace", {"offset": rng.randint(-1, 1)}, [mk_src(rng, shape, rand_chunks(rng, shape), "i8")], family=fam))
    return out


# ------------------------------------------------------------------------------------ cumulative

def cumulative(rng):
    out = []
    fam = "cumulative"
    for fn in ("cumsum", "cumprod", "nancumsum", "nancumprod"):
        for method in ("sequential", "blelloch"):
            for pat in ("ragged", rng.choice(("first1", "last1", "ones", "one", "zero"))):
                shape = rshape(rng)
                nd = len(shape)
                axis = rng.randrange(-nd, nd)
                kw = {"axis": axis, "method": method}
                if rng.random() < 0.2 and not fn.startswith("nan"):
                    kw["axis"] = None
                if rng.random() < 0.25:
                    kw["dtype"] = rng.choice(("f8", "i8", "f4"))
                dt = fdtype(rng) if "prod" not in fn else rng.choice(("f8", "i8"))
                src = mk_src(rng, shape, axis_chunks(rng, shape, axis, pat), dt, nan=0.2 if fn.startswith("nan") and dt[0] == "f" else 0.0, ties="prod" in fn)
                out.append(mk(rng, fn, kw, [src], family=fam))
    for fn in ("add", "maximum", "minimum"):
        shape = rshape(rng, 2)
        axis = rng.randrange(2)
        out.append(mk(rng, "cumreduction", {"fn": fn, "axis": axis, "method": "sequential"},
                      [mk_src(rng, shape, axis_chunks(rng, shape, axis, rng.choice(("ragged", "first1", "ones"))), "f8")], family=fam))
    shape = rshape(rng, 2)
    out.append(mk(rng, "cumsum_method", {"axis": rng.randrange(2), "method": rng.choice(("sequential", "blelloch"))}, [mk_src(rng, shape, rand_chunks(rng, shape), "i8")], family=fam))
    return out


# --------------------------------------------------------------------------------- moving windows

def moving_windows(rng, full=True):
    out = []
    fam = "moving-window"
    native = ("move_sum", "move_mean", "move_min", "move_max")
    others = ("move_std", "move_var", "move_median", "move_rank", "move_argmin", "move_argmax")
    # chunk classes on the rolling axis: (name, needs every chunk < window)
    classes = ("first1", "last1", "ones", "ragged_small", "ragged_big", "one")
    for fn in native + others:
        for mc in (("default", "one", "mid") if fn in native else (rng.choice(("default", "one", "mid")),)):
            cls_list = classes if fn in native else (rng.choice(classes[:4]), rng.choice(classes[4:]))
            for cls in cls_list:
                w = rng.randint(2, 6)
                n = rng.randint(w + (1 if cls != "one" else 0), w + 7)
                nd = rng.choice((1, 2, 2, 3))
                shape = [rng.randint(1, 4) for _ in range(nd)]
                axis = rng.randrange(nd)
                shape[axis] = n
                if cls == "first1":
                    cax = [1] + compose(rng, n - 1, w - 1, parts_min=1)
                elif cls == "last1":
                    cax = compose(rng, n - 1, w - 1, parts_min=1) + [1]
                elif cls == "ones":
                    cax = [1] * n
                elif cls == "ragged_small":
                    cax = compose(rng, n, w - 1)
                elif cls == "ragged_big":
                    cax = compose(rng, n, None)
                    if max(cax) < w:
                        cax = [n - n // 2, n // 2] if n - n // 2 >= w else [n - 1, 1]
                else:
                    cax = [n]
                ch = [cax if i == axis else chunk_pattern(rng, s, rng.choice(("one", "ragged", "ones"))) for i, s in enumerate(shape)]
                kw = {"window": w, "axis": axis if rng.random() < 0.7 else axis - nd}
                if mc == "default":
                    if rng.random() < 0.5:
                        kw["min_count"] = None
                elif mc == "one":
                    kw["min_count"] = 1
                else:
                    kw["min_count"] = rng.randint(min(2, w), w)
                if fn in ("move_std", "move_var") and rng.random() < 0.5:
                    kw["ddof"] = 1
                dt = rng.choice(("f8", "f8", "f8", "f4", "i8"))
                if dt == "f4":
                    kw["dtype"] = rng.choice(("f4", "f8"))
                src = mk_src(rng, shape, ch, dt, nan=rng.choice((0.0, 0.15, 0.4)) if dt[0] == "f" else 0.0)
                # the rolled array is usually a plain from_array (xarray): keep `pre` none half of the time
                out.append(mk(rng, f"bn.{fn}", kw, [src], pre="none" if rng.random() < 0.5 else None, family=fam,
                              both=fn in native and cls in ("first1", "last1", "ones")))
    for n_ in (None, 1, 2):
        for pat in ("ragged", rng.choice(("first1", "last1", "ones", "one"))):
            shape = rshape(rng, rng.choice((1, 2)), lo=3)
            axis = rng.randrange(len(shape))
            out.append(mk(rng, "push", {"n": n_, "axis": axis}, [mk_src(rng, shape, axis_chunks(rng, shape, axis, pat), "f8", nan=0.4)], family=fam))
    for boundary in (None, "none", "reflect", "periodic", "nearest", 0, {"0": "reflect", "1": "periodic"}):
        shape = rshape(rng, 2, lo=4)
        d = rng.randint(1, 2)
        depth = rng.choice((d, {"0": d}, {"0": [d, 0]}, {"0": d, "1": 1})) if boundary not in (None, "none") or True else d
        if isinstance(depth, dict) and any(isinstance(v, list) for v in depth.values()) and boundary not in (None, "none"):
            depth = {"0": d}
        kw = {"fn": rng.choice(("smooth", "cummax")), "depth": depth, "boundary": boundary, "trim": True, "axis": 0,
              "api": rng.choice(("method", "module"))}
        out.append(mk(rng, "map_overlap", kw, [mk_src(rng, shape, rand_chunks(rng, shape, ("one", "ragged", "regular", "first1", "last1")), "f8")], family=fam))
    swv_pats = ["first1", "last1", "ones", "ragged", "one", "regular"]
    for i, red in enumerate((None, "sum", "max", "min", "mean", "nansum", "nanmax", "nanmin", "nanmean", "prod")):
        # native banded layer (chunks smaller than the window) and the overlap plan, tiny first/last blocks
        for pat in (swv_pats[i % 6], swv_pats[(i + 2 + rng.randrange(3)) % 6]):
            shape = rshape(rng, rng.choice((1, 2)), lo=4)
            axis = rng.randrange(len(shape))
            w = rng.randint(1, shape[axis])
            kw = {"window": w, "axis": axis, "reduce": red}
            lim = max(1, w - 1) if rng.random() < 0.6 else None
            ch = [chunk_pattern(rng, n, pat, lim) if j == axis else chunk_pattern(rng, n, rng.choice(("one", "ragged", "ones"))) for j, n in enumerate(shape)]
            out.append(mk(rng, "sliding_window_view", kw, [mk_src(rng, shape, ch, rng.choice(("f8", "f8", "i8")), nan=0.2 if red and red.startswith("nan") else 0.0)], family=fam))
    for _ in range(2):
        shape = rshape(rng, 2, lo=3)
        axis = rng.randrange(2)
        out.append(mk(rng, "diff", {"n": rng.randint(1, 2), "axis": axis}, [mk_src(rng, shape, rand_chunks(rng, shape), "i8")], family=fam))
        out.append(mk(rng, "gradient", {"axis": axis}, [mk_src(rng, shape, [[n] if (i == axis and rng.random() < 0.5) or n < 4 else [n - n // 2, n // 2] for i, n in enumerate(shape)], "f8")], family=fam))
    shape = [rng.randint(2, 4) * 2, rng.randint(2, 3) * 2]
    out.append(mk(rng, "coarsen", {"fn": rng.choice(("sum", "max", "mean")), "axes": {"0": 2, "1": 2}}, [mk_src(rng, shape, [[2] * (shape[0] // 2), [shape[1]]], "f8")], family=fam))
    return out


# --------------------------------------------------------------------------- elementwise / out= / where=

def elementwise(rng):
    from harness.props_ext.c10_ops import BINARY_UFUNCS, UNARY_UFUNCS

    out = []
    fam = "elementwise-out-where"

    def two(shape=None, dt="f8", same_chunks=True, **kw):
        shape = shape or rshape(rng)
        ch = rand_chunks(rng, shape)
        ch2 = ch if same_chunks else rand_chunks(rng, shape)
        return [mk_src(rng, shape, ch, dt, **kw), mk_src(rng, shape, ch2, dt, **kw)]

    for target in ("fresh", "src_last", "src_first"):
        for where in (None, "dask", "numpy", "scalar"):
            uf, nin = rng.choice((("add", 2), ("multiply", 2), ("maximum", 2), ("negative", 1), ("sqrt", 1), ("exp", 1), ("hypot", 2)))
            srcs = two(same_chunks=rng.random() < 0.7, pos=uf == "sqrt")
            srcs.append(mk_src(rng, srcs[0]["shape"], srcs[0]["chunks"] if rng.random() < 0.6 else [[n] for n in srcs[0]["shape"]], "f8"))
            kw = {"uf": uf, "nin": nin, "out": target, "where": where, "odtype": "f8"}
            out.append(mk(rng, "ufunc_out", kw, srcs, family=fam))
    for o in ("iadd", "imul", "isub", "setitem_mask", "setitem_slice", "ufunc_out_self"):
        out.append(mk(rng, "inplace_operator", {"operator": o, "value": rng.randint(-5, 5)}, two(dt=rng.choice(("f8", "i8"))), family=fam))
    for fn in rng.sample(UNARY_UFUNCS, 8):
        dt = "c16" if fn in ("conj", "real", "imag", "angle") and rng.random() < 0.7 else ("b1" if fn == "logical_not" else "f8")
        shape = rshape(rng)
        out.append(mk(rng, fn, {}, [mk_src(rng, shape, rand_chunks(rng, shape, ("one", "ragged", "first1", "ones", "zero")), dt, pos=fn in ("sqrt", "log1p"), nan=0.2 if fn in ("isnan", "isfinite") else 0.0)], family=fam))
    for fn in rng.sample(BINARY_UFUNCS, 6):
        dt = "i8" if fn in ("floor_divide", "mod") else "f8"
        out.append(mk(rng, fn, {}, two(dt=dt, same_chunks=rng.random() < 0.5, pos=fn in ("power", "floor_divide", "mod")), family=fam))
    for fn in ("modf", "frexp"):
        shape = rshape(rng)
        out.append(mk(rng, fn, {}, [mk_src(rng, shape, rand_chunks(rng, shape), "f8")], family=fam))
    out.append(mk(rng, "divmod", {}, two(dt="i8", pos=True), family=fam))
    for api in ("method", "module"):
        shape = rshape(rng)
        lo, hi = rng.choice(((-5, 5), (None, 3), (-2, None)))
        out.append(mk(rng, "clip", {"min": lo, "max": hi, "api": api}, [mk_src(rng, shape, rand_chunks(rng, shape), rng.choice(("f8", "i8")))], family=fam))
        out.append(mk(rng, "round", {"decimals": rng.randint(-1, 2), "api": api}, [mk_src(rng, shape, rand_chunks(rng, shape), "f8")], family=fam))
    shape = rshape(rng)
    out.append(mk(rng, "around", {"decimals": 1}, [mk_src(rng, shape, rand_chunks(rng, shape), "f8")], family=fam))
    for kw in ({}, {"copy": False}, {"copy": True, "nan": -1.0}, {"copy": False, "nan": 5.0, "posinf": 9.0}):
        shape = rshape(rng)
        out.append(mk(rng, "nan_to_num", kw, [mk_src(rng, shape, rand_chunks(rng, shape), "f8", nan=0.3)], family=fam))
    for kw in ({"dtype": "f8"}, {"dtype": "f8", "copy": False}, {"dtype": "f4"}, {"dtype": "i8", "casting": "unsafe"}, {"dtype": "f8", "copy": True}):
        shape = rshape(rng)
        out.append(mk(rng, "astype", kw, [mk_src(rng, shape, rand_chunks(rng, shape), "f8")], family=fam))
    shape = rshape(rng, 2)
    out.append(mk(rng, "view", {"dtype": rng.choice(("i8", "u8", "f8"))}, [mk_src(rng, shape, rand_chunks(rng, shape), "f8")], family=fam))
    out.append(mk(rng, "copy", {}, [mk_src(rng, shape, rand_chunks(rng, shape), "f8")], family=fam))
    for fn in ("where", "choose", "select"):
        out.append(mk(rng, fn, {"fill": 0, "default": -1}, two(same_chunks=rng.random() < 0.5), family=fam))
    shape = rshape(rng)
    out.append(mk(rng, "piecewise", {}, [mk_src(rng, shape, rand_chunks(rng, shape), "f8")], family=fam))
    return out


# --------------------------------------------------------------------------------- setitem / store

def rand_index(rng, shape):
    enc = []
    for n in shape:
        r = rng.random()
        if r < 0.45:
            a = rng.randint(0, n - 1)
            b = rng.randint(a, n)
            enc.append(["s", a, b, rng.choice((None, None, 2))])
        elif r < 0.6:
            enc.append(["i", rng.randrange(-n, n)])
        elif r < 0.75:
            enc.append(["s", None, None, None])
        elif r < 0.85 and not any(e[0] in ("l", "mp") for e in enc):
            enc.append(["l", sorted(rng.sample(range(n), rng.randint(1, n)))])
        elif r < 0.93 and not any(e[0] in ("l", "mp") for e in enc):
            enc.append(["mp", rng.randint(1, 3)])
        else:
            enc.append(["s", None, None, -1 if rng.random() < 0.3 else None])
    return enc


def setitem_store(rng):
    out = []
    fam = "setitem-store"
    for value in (3, "nparr", "dask", "self_rev"):
        for kind in ("basic", "mask", "basic"):
            shape = rshape(rng, rng.choice((1, 2, 2)))
            ch = rand_chunks(rng, shape)
            idx = [["m", rng.randint(-5, 5)]] if kind == "mask" else rand_index(rng, shape)
            if value == "dask" and kind != "mask" and any(e[0] in ("l", "mp") for e in idx):
                idx = [e if e[0] not in ("l", "mp") else ["s", None, None, None] for e in idx]
            kw = {"index": idx, "value": value, "via_copy": rng.random() < 0.6}
            if kind == "mask" and value in ("nparr", "self_rev", "dask"):
                kw["value"] = value = -1
            srcs = [mk_src(rng, shape, ch, rng.choice(("f8", "i8"))), mk_src(rng, shape, ch if rng.random() < 0.5 else rand_chunks(rng, shape), "i8")]
            out.append(mk(rng, "setitem", kw, srcs, family=fam))
    for compute in (True, False):
        for rs in (False, True):
            for lock in (True, False):
                shape = rshape(rng, rng.choice((1, 2)))
                nsrc = rng.choice((1, 1, 2))
                ch = rand_chunks(rng, shape)
                kw = {"compute": compute, "return_stored": rs, "lock": lock, "region": rng.random() < 0.4, "nsrc": nsrc}
                out.append(mk(rng, "store", kw, [mk_src(rng, shape, ch, "f8"), mk_src(rng, shape, ch, "f8")][:nsrc], family=fam))
    for _ in range(4):
        shape = rshape(rng, 2)
        out.append(mk(rng, "getitem", {"index": rand_index(rng, shape)}, [mk_src(rng, shape, rand_chunks(rng, shape), "i8")], family=fam))
    return out


# --------------------------------------------------------------------------------- contractions etc.

def contractions(rng):
    out = []
    fam = "contraction-fft-linalg"
    n, m, k = rng.randint(2, 6), rng.randint(2, 6), rng.randint(2, 5)
    cm = chunk_pattern(rng, m, rng.choice(("one", "ragged", "first1", "ones")))

    def src(shape, chunks=None, dt="f8"):
        return mk_src(rng, shape, chunks or rand_chunks(rng, shape), dt)

    def r1(n_):
        return chunk_pattern(rng, n_, rng.choice(("one", "ragged", "first1", "last1", "ones")))

    for dt in ("f8", "i8"):
        out.append(mk(rng, "tensordot", {"axes": 1}, [src([n, m], [r1(n), cm], dt), src([m, k], [cm, r1(k)], dt)], family=fam))
        out.append(mk(rng, "matmul", {}, [src([n, m], [r1(n), cm], dt), src([m, k], [cm, r1(k)], dt)], family=fam))
    out.append(mk(rng, "tensordot", {"axes": [[0], [1]]}, [src([m, n], [cm, r1(n)]), src([k, m], [r1(k), cm])], family=fam))
    out.append(mk(rng, "tensordot", {"axes": [[0, 1], [1, 0]]}, [src([m, n], [cm, r1(n)]), src([n, m], [r1(n), r1(m)])], family=fam))
    out.append(mk(rng, "tensordot", {"axes": 0}, [src([n], [r1(n)]), src([k], [r1(k)])], family=fam))
    out.append(mk(rng, "dot", {}, [src([n, m], [r1(n), cm]), src([m], [r1(m)])], family=fam))
    out.append(mk(rng, "matmul_op", {}, [src([2, n, m], [[1, 1], r1(n), cm]), src([m, k], [cm, r1(k)])], family=fam))
    out.append(mk(rng, "outer", {}, [src([n], [r1(n)]), src([k], [r1(k)])], family=fam))
    out.append(mk(rng, "vdot", {}, [src([m], [cm], "c16"), src([m], [r1(m)], "c16")], family=fam))
    for subs, shapes in (("ij,jk->ik", ([n, m], [m, k])), ("ij,ij->i", ([n, m], [n, m])), ("ij->ji", ([n, m],)), ("ii->i", ([n, n],)),
                         ("i,i->", ([m], [m])), ("ijk,k->ij", ([2, n, m], [m])), ("ij,kj->ik", ([n, m], [k, m]))):
        kw = {"subs": subs, "n": len(shapes)}
        if rng.random() < 0.3:
            kw["optimize"] = rng.choice((True, "greedy"))
        if rng.random() < 0.3:
            kw["split_every"] = 2
        if subs == "ii->i":
            c = r1(n)
            out.append(mk(rng, "einsum", kw, [src([n, n], [c, c])], family=fam))
            continue
        out.append(mk(rng, "einsum", kw, [src(s) for s in shapes], family=fam))
    for fn, nd in (("fft", 1), ("ifft", 1), ("rfft", 1), ("irfft", 1), ("hfft", 1), ("ihfft", 1), ("fft2", 2), ("ifft2", 2), ("rfft2", 2), ("fftn", 2), ("rfftn", 2), ("fftshift", 2), ("ifftshift", 2)):
        shape = [rng.randint(2, 6), rng.randint(2, 6)]
        if fn.endswith("shift"):
            kw = {"fn": fn, "axes": rng.choice((None, 0, [0, 1]))}
            ch = rand_chunks(rng, shape)
        elif nd == 1:
            axis = rng.randrange(2)
            kw = {"fn": fn, "axis": axis}
            if rng.random() < 0.3:
                kw["n"] = rng.randint(2, 7)
            ch = axis_chunks(rng, shape, axis, "one")
        else:
            kw = {"fn": fn}
            ch = [[shape[0]], [shape[1]]]
            shape = [rng.randint(1, 3)] + shape
            ch = [chunk_pattern(rng, shape[0], rng.choice(("one", "ones")))] + ch
            kw["axes"] = [1, 2]
        dt = "c16" if fn in ("ifft", "irfft", "hfft", "ifft2") and rng.random() < 0.7 else "f8"
        out.append(mk(rng, "fft", kw, [src(shape, ch, dt)], family=fam))
    rows = rng.randint(4, 9)
    cols = rng.randint(2, 3)
    tall = [src([rows, cols], [compose(rng, rows, None) if rng.random() < 0.7 else [rows], [cols]])]
    for fn in ("qr", "svd", "tsqr"):
        tall = [src([rows, cols], [[max(cols, rows // 2), rows - max(cols, rows // 2)] if rows - max(cols, rows // 2) >= cols else [rows], [cols]])]
        out.append(mk(rng, "linalg", {"fn": fn}, tall, family=fam))
    for o, axis in ((None, None), (1, 0), ("fro", [0, 1]), (2, 1), (None, 1)):
        shape = rshape(rng, 2)
        out.append(mk(rng, "linalg", {"fn": "norm", "ord": o, "axis": axis, "keepdims": rng.random() < 0.5}, [src(shape)], family=fam))
    sq = rng.randint(2, 5)
    for fn in ():  # inv / cholesky / lu / solve / lstsq need scipy (not installed here)
        c = chunk_pattern(rng, sq, rng.choice(("one", "regular")))
        srcs = [src([sq, sq], [c, c]), src([sq, 2], [c, [2]])]
        out.append(mk(rng, "linalg", {"fn": fn}, srcs, family=fam))
    return out


# ------------------------------------------------------------------------------ sort-like / search

def search_like(rng):
    out = []
    fam = "search-sort-histogram"

    def src(shape, dt="f8", pats=("one", "ragged", "first1", "last1", "ones", "regular"), **kw):
        return mk_src(rng, shape, rand_chunks(rng, shape, pats), dt, **kw)

    for kw in ({}, {"return_counts": True}, {"return_index": True, "return_inverse": True}, {"return_inverse": True, "return_counts": True, "return_index": True}):
        n = rng.randint(3, 12)
        out.append(mk(rng, "unique", kw, [src([n], "i8", ties=True)], family=fam))
    for side in ("left", "right"):
        shape = rshape(rng)
        out.append(mk(rng, "searchsorted", {"side": side, "kchunk": rng.choice((3, 5, 15))}, [src(shape)], family=fam))
    for inv in (False, True):
        shape = rshape(rng)
        out.append(mk(rng, "isin", {"invert": inv, "assume_unique": False}, [src(shape, "i8", ties=True), src([rng.randint(1, 5)], "i8", ties=True)], family=fam))
    shape = rshape(rng)
    out.append(mk(rng, "digitize", {"right": rng.random() < 0.5}, [src(shape)], family=fam))
    for w in (False, True):
        n = rng.randint(3, 12)
        c = [chunk_pattern(rng, n, rng.choice(("one", "ragged", "first1", "ones")))]
        out.append(mk(rng, "bincount", {"weights": w, "minlength": rng.choice((0, 9)), "split_every": rng.choice((None, 2))},
                      [mk_src(rng, [n], c, "i8", ties=True, ), mk_src(rng, [n], c, "f8")], family=fam))
        shape = rshape(rng)
        ch = rand_chunks(rng, shape)
        out.append(mk(rng, "histogram", {"bins": rng.randint(2, 6), "range": [-20, 20], "weights": w, "density": rng.choice((None, True))},
                      [mk_src(rng, shape, ch, "f8"), mk_src(rng, shape, ch, "f8", pos=True)], family=fam))
    n = rng.randint(3, 10)
    c = [chunk_pattern(rng, n, "ragged")]
    out.append(mk(rng, "histogram2d", {"bins": [3, 4], "range": [[-20, 20], [-20, 20]]}, [mk_src(rng, [n], c, "f8"), mk_src(rng, [n], c, "f8")], family=fam))
    for fn in ("argwhere", "nonzero", "flatnonzero", "boolmask", "extract"):
        shape = rshape(rng)
        out.append(mk(rng, fn, {}, [src(shape)], family=fam))
    for fn in ("compress",):
        shape = rshape(rng, 2)
        out.append(mk(rng, fn, {"axis": rng.randrange(2)}, [src(shape)], family=fam))
    for fn in ("take", "take_dask"):
        shape = rshape(rng, 2)
        axis = rng.randrange(2) if fn == "take" else 0
        idx = [rng.randrange(shape[axis]) for _ in range(rng.randint(1, 6))]
        out.append(mk(rng, fn, {"indices": idx, "axis": axis, "ichunk": rng.randint(1, 3)}, [src(shape, "i8")], family=fam))
    shape = rshape(rng, 2)
    k = rng.randint(1, 4)
    out.append(mk(rng, "vindex", {"i": [rng.randrange(shape[0]) for _ in range(k)], "j": [rng.randrange(shape[1]) for _ in range(k)]}, [src(shape, "i8")], family=fam))
    shape = rshape(rng, 2)
    axis = rng.randrange(2)
    perm = list(range(shape[axis]))
    rng.shuffle(perm)
    cut = rng.randint(1, len(perm) - 1)
    out.append(mk(rng, "shuffle", {"indexer": [perm[:cut], perm[cut:]], "axis": axis}, [src(shape, "i8")], family=fam))
    for fn in ("cov", "corrcoef"):
        shape = [rng.randint(2, 4), rng.randint(3, 7)]
        out.append(mk(rng, fn, {}, [src(shape)], family=fam))
    return out


# ----------------------------------------------------------------------------------- manipulation

def manipulation(rng):
    out = []
    fam = "manipulation"
    allp = ("one", "ragged", "first1", "last1", "ones", "regular", "zero")

    def src(shape, dt="i8", pats=allp[:6], chunks=None, **kw):
        return mk_src(rng, shape, chunks or rand_chunks(rng, shape, pats), dt, **kw)

    for mode in ("constant", "edge", "linear_ramp", "maximum", "mean", "minimum", "reflect", "symmetric", "wrap"):  # not "empty": its values are unspecified
        shape = rshape(rng, rng.choice((1, 2)), lo=3)
        pw = [[rng.randint(0, 2), rng.randint(0, 2)] for _ in shape]
        extra = {}
        if mode == "constant" and rng.random() < 0.5:
            extra["constant_values"] = rng.randint(-3, 3)
        if mode in ("maximum", "mean", "minimum") and rng.random() < 0.5:
            extra["stat_length"] = 2
        out.append(mk(rng, "pad", {"pad_width": pw, "mode": mode, "extra": extra}, [src(shape, "f8")], family=fam))
    shape = rshape(rng, 2)
    out.append(mk(rng, "roll", {"shift": rng.randint(-5, 5), "axis": rng.choice((0, 1, None))}, [src(shape)], family=fam))
    out.append(mk(rng, "roll", {"shift": [1, -2], "axis": [0, 1]}, [src(shape)], family=fam))
    out.append(mk(rng, "repeat", {"repeats": rng.randint(1, 3), "axis": rng.randrange(2)}, [src(shape)], family=fam))
    out.append(mk(rng, "tile", {"reps": rng.choice((2, [2, 1], [1, 3]))}, [src(shape)], family=fam))
    ax = rng.randrange(2)
    out.append(mk(rng, "insert", {"obj": rng.randrange(shape[ax]), "values": -9, "axis": ax}, [src(shape)], family=fam))
    out.append(mk(rng, "delete", {"obj": rng.choice((rng.randrange(shape[ax]), [0, shape[ax] - 1])), "axis": ax}, [src(shape)], family=fam))
    ch = rand_chunks(rng, shape)
    two = lambda: [mk_src(rng, shape, ch, "i8"), mk_src(rng, shape, ch if rng.random() < 0.5 else rand_chunks(rng, shape), "i8")]
    out.append(mk(rng, "append", {"axis": rng.randrange(2)}, two(), family=fam))
    out.append(mk(rng, "flip", {"axis": rng.choice((0, 1, None, [0, 1]))}, [src(shape)], family=fam))
    out.append(mk(rng, "rot90", {"k": rng.randint(-1, 3)}, [src(shape)], family=fam))
    out.append(mk(rng, "concatenate", {"axis": rng.randrange(2), "n": rng.choice((2, 3))}, two(), family=fam))
    out.append(mk(rng, "stack", {"axis": rng.randint(0, 2)}, two(), family=fam))
    out.append(mk(rng, "block", {}, two(), family=fam))
    out.append(mk(rng, rng.choice(("vstack", "hstack", "dstack")), {}, two(), family=fam))
    a, b = rng.randint(2, 4), rng.randint(2, 4)
    out.append(mk(rng, "reshape", {"shape": rng.choice(([a * b], [b, a], [a, 1, b], [-1]))}, [src([a, b])], family=fam))
    out.append(mk(rng, "reshape", {"shape": [a, b]}, [src([a * b])], family=fam))
    out.append(mk(rng, "ravel", {}, [src(shape)], family=fam))
    out.append(mk(rng, "flatten", {}, [src(shape)], family=fam))
    s3 = rshape(rng, 3)
    perm = [0, 1, 2]
    rng.shuffle(perm)
    out.append(mk(rng, "transpose", {"axes": perm}, [src(s3)], family=fam))
    out.append(mk(rng, "T", {}, [src(shape)], family=fam))
    out.append(mk(rng, "moveaxis", {"source": 0, "destination": rng.choice((1, 2, -1))}, [src(s3)], family=fam))
    out.append(mk(rng, "swapaxes", {"a": 0, "b": rng.choice((1, 2))}, [src(s3)], family=fam))
    out.append(mk(rng, "expand_squeeze", {"axis": rng.randint(0, 2)}, [src(shape)], family=fam))
    out.append(mk(rng, "broadcast_to", {"shape": [rng.randint(1, 3)] + shape}, [src(shape, pats=("one", "ragged", "regular"))], family=fam))
    sq = [rng.randint(2, 5)] * 2
    out.append(mk(rng, "diag", {"k": rng.randint(-1, 1)}, [src(rng.choice((sq, [sq[0]])))], family=fam))
    out.append(mk(rng, "diagonal", {"offset": rng.randint(-1, 1)}, [src(shape)], family=fam))
    out.append(mk(rng, rng.choice(("tril", "triu")), {"k": rng.randint(-1, 1)}, [src(shape)], family=fam))
    out.append(mk(rng, "rechunk", {"chunks": rand_chunks(rng, shape, allp)}, [src(shape, pats=allp)], family=fam))
    out.append(mk(rng, "rechunk_merge", {}, [src(shape, pats=allp)], family=fam))
    out.append(mk(rng, "ediff1d", {}, [src(shape)], family=fam))
    n1, n2 = rng.randint(2, 6), rng.randint(2, 6)
    out.append(mk(rng, "union1d", {}, [src([n1], ties=True), src([n2], ties=True)], family=fam))
    out.append(mk(rng, "atleast_3d", {}, [src(shape)], family=fam))
    out.append(mk(rng, "apply_along_axis", {"axis": rng.randrange(2)}, [src(shape)], family=fam))
    out.append(mk(rng, "apply_over_axes", {"axes": rng.choice(([0], [0, 1], [1]))}, [src(shape)], family=fam))
    out.append(mk(rng, "apply_gufunc", {}, [src(shape)], family=fam))
    out.append(mk(rng, "blockwise_concat", {}, [src(shape)], family=fam))
    out.append(mk(rng, "map_blocks_block_info", {}, [src(shape)], family=fam))
    return out


# ------------------------------------------------------------------------- dask arrays as ARGUMENTS

INT_DTYPES = ("i8", "i4", "i2", "i1", "u8", "u4", "u2", "u1")


def dask_arguments(rng, full=True):
    """operations taking OTHER dask arrays as arguments (integer indexers with negative entries in every integer
    dtype, boolean masks, bins, choices, conditions): every argument collection is a source of the case, so it is a root
    of both graphs, fingerprinted around every task that depends on it and re-computed afterwards.  The same indexer
    object is applied to arrays of DIFFERENT lengths in one graph (a kernel that normalises it in place for one length
    corrupts the other).  ENUMERATED in every sweep: indexer dtype x {getitem, take, setitem}, indexer chunk class."""
    out = []
    fam = "dask-arguments"
    ipats = ("ragged", "ones", "one", "regular", "first1", "last1")

    def xsrc(shape, dt=None, **kw):
        return mk_src(rng, shape, rand_chunks(rng, shape, ("one", "ragged", "regular", "first1", "ones")), dt or rng.choice(("f8", "i8", "f4")), **kw)

    def isrc(n, dt, k=None, pat=None, perm=False):
        """integer indexer into an axis of length n: entries over the whole legal range [-n, n) (unsigned: [0, n))"""
        k = k or rng.randint(2, 7)
        ch = [chunk_pattern(rng, k, pat or rng.choice(ipats))]
        if perm:
            return mk_src(rng, [k], ch, dt, perm=n)
        return mk_src(rng, [k], ch, dt, range=[0 if dt[0] == "u" else -n, n])

    def base(nd=None):
        shape = rshape(rng, nd or rng.choice((1, 2, 2, 3)), lo=3, hi=7)
        axis = rng.randrange(len(shape))
        return shape, axis

    def other_len(shape, axis):
        s2 = list(shape)
        s2[axis] = shape[axis] + rng.randint(1, 5)
        return s2

    # 1. x[idx], y[idx] (y longer along the axis), every integer dtype; the plain from_array indexer (whose blocks are
    # views of the user's array) at least half of the time
    for j, dt in enumerate(INT_DTYPES + ("i8",)):
        shape, axis = base()
        kw = {"axis": axis, "again": rng.random() < 0.3}
        if len(shape) > 1 and rng.random() < 0.3:
            kw["rest"] = [None if i == axis else (["s", 0, rng.randint(1, n), None] if rng.random() < 0.6 else ["i", rng.randrange(-n, n)]) for i, n in enumerate(shape)]
        srcs = [xsrc(shape), xsrc(other_len(shape, axis)), isrc(shape[axis], dt, pat=ipats[j % len(ipats)])]
        out.append(mk(rng, "arg.getitem", kw, srcs, pre="none" if j % 2 == 0 else None, family=fam, both=dt == "i8"))
    # 2. take
    for dt in ("i8", rng.choice(INT_DTYPES[1:])):
        shape, axis = base()
        srcs = [xsrc(shape), xsrc(other_len(shape, axis)), isrc(shape[axis], dt)]
        out.append(mk(rng, "arg.take", {"axis": axis}, srcs, pre=rng.choice(("none", None)), family=fam))
    # 3. boolean masks: 1-D along an axis, full-shape
    for dt in ("b1", "b1"):
        shape, axis = base()
        m = mk_src(rng, [shape[axis]], [chunk_pattern(rng, shape[axis], rng.choice(ipats))], "b1")
        out.append(mk(rng, "arg.getitem", {"axis": axis}, [xsrc(shape), m], family=fam))
    shape, axis = base()
    ch = rand_chunks(rng, shape)
    out.append(mk(rng, "arg.getitem_mask_nd", {}, [mk_src(rng, shape, ch, "f8"), mk_src(rng, shape, ch if rng.random() < 0.6 else rand_chunks(rng, shape), "b1")], family=fam))
    # 4. setitem with dask keys
    for dt, value in (("i8", 3), ("i8", "nparr"), (rng.choice(INT_DTYPES[1:]), rng.choice((3, "nparr"))), ("b1", -2), ("b1nd", -2)):
        shape, axis = base(rng.choice((1, 2, 2)))
        if dt == "b1nd":
            ch = rand_chunks(rng, shape)
            out.append(mk(rng, "arg.setitem", {"axis": 0, "full": True, "value": value}, [mk_src(rng, shape, ch, "f8"), mk_src(rng, shape, ch, "b1")], family=fam))
            continue
        key = mk_src(rng, [shape[axis]], [chunk_pattern(rng, shape[axis], rng.choice(ipats))], "b1") if dt == "b1" else \
            isrc(shape[axis], dt, k=rng.randint(1, shape[axis]), perm=True, pat="one" if value == "nparr" else None)  # an array value needs a one-chunk key
        out.append(mk(rng, "arg.setitem", {"axis": axis, "value": value}, [xsrc(shape, rng.choice(("f8", "i8"))), key], pre="none" if rng.random() < 0.5 else None, family=fam))
    # 5. masks / conditions / choices / bins as collections
    shape, axis = base(2)
    out.append(mk(rng, "arg.compress", {"axis": axis}, [xsrc(shape), mk_src(rng, [shape[axis]], [chunk_pattern(rng, shape[axis], rng.choice(ipats))], "b1")], family=fam))
    ch = rand_chunks(rng, shape)
    same = lambda dt, **kw: mk_src(rng, shape, ch if rng.random() < 0.6 else rand_chunks(rng, shape), dt, **kw)
    out.append(mk(rng, "arg.extract", {}, [same("f8"), same("b1")], family=fam))
    out.append(mk(rng, "arg.choose", {}, [same("f8"), same("f8"), same(rng.choice(("i8", "i4", "u1")), range=[0, 2])], family=fam))
    out.append(mk(rng, "arg.select", {"default": -1}, [same("f8"), same("f8"), same("b1"), same("b1")], family=fam))
    out.append(mk(rng, "arg.where", {}, [same("f8"), same("i8"), same("b1")], family=fam))
    out.append(mk(rng, "arg.piecewise", {}, [same("f8"), same("b1"), same("b1")], family=fam))
    nb = rng.randint(2, 6)
    bins = lambda: mk_src(rng, [nb], [chunk_pattern(rng, nb, rng.choice(("one", "ragged", "ones")))], "f8", sorted=True)
    out.append(mk(rng, "arg.digitize", {"right": rng.random() < 0.5}, [same("f8"), bins()], family=fam))
    out.append(mk(rng, "arg.searchsorted", {"side": rng.choice(("left", "right"))}, [same("f8"), bins()], family=fam))
    w = rng.random() < 0.5
    out.append(mk(rng, "arg.histogram", {"weights": w, "density": rng.choice((None, True))}, [same("f8"), bins()] + ([mk_src(rng, shape, ch, "f8", pos=True)] if w else []), family=fam))
    n = rng.randint(3, 10)
    c = [chunk_pattern(rng, n, rng.choice(ipats))]
    out.append(mk(rng, "arg.bincount", {"weights": True, "minlength": rng.choice((0, 9))}, [mk_src(rng, [n], c, rng.choice(("i8", "i4", "u2")), ties=True), mk_src(rng, [n], c, "f8")], family=fam))
    out.append(mk(rng, "arg.isin", {"invert": rng.random() < 0.5}, [same("i8", ties=True), mk_src(rng, [nb], [chunk_pattern(rng, nb, "ragged")], "i8", ties=True)], family=fam))
    dims = [rng.randint(2, 5), rng.randint(2, 5)]
    k = rng.randint(2, 6)
    out.append(mk(rng, "arg.unravel_index", {"dims": dims}, [mk_src(rng, [k], [chunk_pattern(rng, k, "ragged")], rng.choice(("i8", "i4")), range=[0, dims[0] * dims[1]])], family=fam))
    out.append(mk(rng, "arg.ravel_multi_index", {"dims": [9, 9]}, [mk_src(rng, [2, k], [[2], chunk_pattern(rng, k, "ragged")], "i8", range=[0, 9])], family=fam))
    # 6. NumPy arrays as keys (negative entries, every integer dtype): the user's key arrays are watched
    for how in ("getitem", "take", "vindex", "setitem"):
        shape, axis = base(2)
        dt = rng.choice(INT_DTYPES[:4]) if how != "getitem" else "i8"
        k = rng.randint(1, 5)
        kw = {"how": how, "axis": axis, "kdtype": dt, "key": [rng.randrange(-shape[axis], shape[axis]) for _ in range(k)]}
        if how == "vindex":
            kw["key"] = [rng.randrange(-shape[0], shape[0]) for _ in range(k)]
            kw["key2"] = [rng.randrange(-shape[1], shape[1]) for _ in range(k)]
        out.append(mk(rng, "arg.numpy_key", kw, [xsrc(shape, "i8")], family=fam))
    return out


FAMILIES = (order_statistics, moving_windows, reductions, cumulative, elementwise, setitem_store, contractions, search_like, manipulation)


def gen_cases(rng):
    """one stratified sweep (a few hundred cases): the dask-argument family and the two families whose kernels take
    NumPy-level overwrite options / special-case tiny blocks first, the others in a drawn order (a time budget may cut
    the tail of a sweep)"""
    out = dask_arguments(rng)
    rest = list(FAMILIES[2:])
    rng.shuffle(rest)
    for f in list(FAMILIES[:2]) + rest:
        out += f(rng)
    return out
