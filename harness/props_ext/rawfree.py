"""Rewrite-free evaluation of ONE form of an expression (used by C08 and harness/props_ext/c02_rawfree.py).

`x.compute()` under `array.optimize-graph=False` is not rewrite-free: `Array.compute` hands the lowered
expression to `dask.base.compute`, whose generic `expr.optimize()` runs `simplify()` over it again, so
slice / take pushdowns still fire (observed with harness.trace on `transpose(...)[i]`).  A comparison of
"unoptimized" and "optimized" results obtained that way compares two simplified forms.

Here only `lower_completely()` runs (a graph cannot be built from un-lowered nodes; dask's generic
fixpoint, no simplify, no fuse, no process-wide lowering cache), the layers are collected by the plain
`Expr.__dask_graph__` walk and the graph is run by dask's synchronous scheduler; blocks are assembled
with NumPy.
"""
from __future__ import annotations

import warnings

import numpy as np


def assemble(blocks, ndim):
    if ndim == 0:
        while isinstance(blocks, (list, tuple)):
            blocks = blocks[0]
        return np.asarray(blocks)

    def rec(b, ax):
        if ax == ndim:
            return np.asarray(b)
        return np.concatenate([rec(c, ax + 1) for c in b], axis=ax)

    return rec(blocks, 0)


def raw_eval(expr):
    """the array computed by exactly this form of the expression"""
    import dask
    from dask._expr import Expr

    with warnings.catch_warnings():
        warnings.simplefilter("ignore")
        low = expr.lower_completely()
        dsk = Expr.__dask_graph__(low)
        blocks = dask.get(dsk, low.__dask_keys__())
        return assemble(blocks, low.ndim)
