"""C28 extension — operations whose VALIDITY (or result shape) depends on the length of an axis that is still unknown.

Stream "validity" (run in full in every quick run; NumPy is the oracle, int64 data, exact):

  selections  boolean-mask selections along one axis of a 1-d / 2-d / 3-d source whose PER-BLOCK kept counts are
              adversarial: the first block keeps exactly 1 / 0 / several elements while the later blocks keep a different
              number (every pattern of PATTERNS: (1,0) (1,1) (1,2) (0,1) (2,1) (1,0,2) (0,0,1) ... plus single-block and
              random ones), given as x[mask] with a dask mask leaf / a mask expression / compress / x[flatnonzero(mask)] /
              nonzero / extract / argwhere.
  operations  every operation of CATALOGUE (squeeze with an explicit axis in all its spellings, reshape / ravel / flatten with
              explicit shapes, transpose family, broadcast_to / broadcast_arrays, expand + squeeze round trips, integer /
              list / take / vindex / boolean-mask indexing and setitem / delete / insert with positions placed at 0, the first block's count,
              L-1, L, -L, -L-1, diff / gradient / ediff1d, sliding windows and rolling reductions, map_overlap, repeat
              with per-element repeats, tile, atleast_nd, stack / concatenate / vstack / hstack / append / block with a
              known partner of the true / the first block's / a wrong length, dot / tensordot / matmul / einsum / vdot /
              average(weights) / compress / choose with such partners, int() / float() / bool() / iteration, searchsorted,
              diag / diagonal / trace / tril / triu, pad, roll, topk, median ...), before and after compute_chunk_sizes,
              optimized and unoptimized graphs.
  oracle      NumPy applied to the materialised selection.  The outcome must be NumPy's value (same shape, same values,
              advertised shape consistent) or a refusal (an exception at construction or at compute time).  Where NumPy
              itself raises (squeeze of an axis longer than one, reshape to a wrong size, an index out of bounds, operands
              that do not line up) dask must raise too — returning data is a violation.
  control     the same operation on a PLAIN array (from_array of the true selection with the true block sizes): when the
              plain array shows the same deviation from NumPy the case says nothing about unknown sizes (API difference /
              unsupported operation / documented zero-length-chunk families) and is only counted in the notes.

A case is {"stream": "validity", "src", "sel", "op", "p", "phase", "opt"} and replays from that dict alone.
"""
from __future__ import annotations

import functools
import math
import warnings

import numpy as np

from harness.programs import source_data


def B():
    from harness.props import C28

    return C28


def _da():
    import dask_array as da

    return da


def _nan(v):
    return isinstance(v, float) and math.isnan(v)


# ============================================================================= selections


def _mask_bits(sel):
    return np.array(sel["bits"], dtype=bool)


def build_selection(m, src, sel):
    """selection of source `src` along sel["axis"] by the explicit mask sel["bits"] (blocks sel["mchunks"])"""
    data = source_data(src)
    bits = _mask_bits(sel)
    u = sel["axis"]
    form = sel["form"]
    if m is np:
        x, mask = data, bits
    else:
        x = m.from_array(data, chunks=tuple(tuple(c) for c in src["chunks"]))
        mc = (tuple(sel["mchunks"]),)
        if form == "expr":
            mask = m.from_array(bits.astype(np.int64) * 3, chunks=mc) > 1
        else:
            mask = m.from_array(bits, chunks=mc)
    pre = (slice(None),) * u
    if form in ("getitem", "expr"):
        return x[pre + (mask,)]
    if form == "compress":
        return m.compress(mask, x, axis=u)
    if form == "by_index":
        return x[pre + (m.flatnonzero(mask),)]
    # the remaining forms need a 1-d source
    if form == "nonzero":
        return m.nonzero(mask)[0] * 7 + 100
    if form == "flatnonzero":
        return m.flatnonzero(mask) * 3 + 50
    if form == "extract":
        return m.extract(mask, x)
    if form == "argwhere":  # shape (L, 1): the unknown axis is 0, a known axis of length 1 follows
        return m.argwhere(mask) + 10
    raise KeyError(form)


FORMS_ND = ["getitem", "getitem", "expr", "compress", "by_index"]
FORMS_1D = ["getitem", "getitem", "expr", "compress", "by_index", "nonzero", "flatnonzero", "extract"]

# per-block kept counts: the first block keeps exactly one / none / several, the later blocks differ
PATTERNS = [
    (1, 0), (1, 1), (1, 2), (1, 3), (0, 1), (0, 2), (2, 1), (2, 0), (2, 2), (3, 1),
    (1, 0, 0), (1, 0, 2), (1, 1, 1), (1, 2, 0), (1, 2, 3), (0, 0, 1), (0, 1, 0), (0, 1, 2), (0, 2, 1), (2, 0, 1), (2, 1, 1), (3, 0, 1),
    (1,), (2,), (3,),
]
FIRST_ONE = [p for p in PATTERNS if p[0] == 1 and sum(p) > 1]
UNIT = [p for p in PATTERNS if sum(p) == 1]
ZERO_TOTAL = [(0, 0), (0,), (0, 0, 0)]


def gen_selection(rng, counts, nd=None, u=None, form=None, olen=None):
    """(src, sel, info) for the per-block kept counts `counts` along axis u of an nd-dimensional source"""
    nd = nd or rng.choice([1, 1, 2, 2, 3])
    u = rng.randrange(nd) if u is None else u
    sizes = [max(1, c + rng.choice([0, 0, 1, 1, 2])) for c in counts]
    bits = []
    for c, s in zip(counts, sizes):
        keep = set(rng.sample(range(s), c))
        bits += [1 if i in keep else 0 for i in range(s)]
    n = sum(sizes)
    shape = [olen or rng.randint(1, 3) for _ in range(nd)]
    shape[u] = n
    chunks = []
    for i, k in enumerate(shape):
        if i == u:
            chunks.append(list(sizes))
        elif k >= 2 and rng.random() < 0.5:
            c = rng.randint(1, k - 1)
            chunks.append([c, k - c])
        else:
            chunks.append([k])
    src = {"op": "src", "shape": shape, "chunks": chunks, "mul": rng.choice([1, 3, 7]), "off": rng.randint(-3, 120), "mod": 1 << 40}
    if nd == 1:
        src["mul"] = rng.choice([1, 2, 5])  # increasing values: searchsorted / unique stay meaningful
    form = form or rng.choice(FORMS_1D if nd == 1 else FORMS_ND)
    if nd == 1 and form != "argwhere" and rng.random() < 0.06:
        form = "argwhere"
    sel = {"axis": u, "bits": bits, "mchunks": list(sizes), "form": form}
    return src, sel


def true_info(src, sel):
    """facts about the materialised selection that the parameter generators place literals around"""
    a = np.asarray(build_selection(np, src, sel))
    u = 0 if sel["form"] in ("nonzero", "flatnonzero", "extract", "argwhere") else sel["axis"]
    bits = _mask_bits(sel)
    counts, pos = [], 0
    for s in sel["mchunks"]:
        counts.append(int(bits[pos:pos + s].sum()))
        pos += s
    return {"a": a, "nd": a.ndim, "u": u, "L": a.shape[u], "c0": counts[0], "counts": counts, "shape": list(a.shape)}


# ============================================================================= operations


def _ix(a, ax, i):
    return a[(slice(None),) * ax + (i,)]


def _partner(m, sp):
    shape = tuple(sp["shape"])
    n = int(np.prod(shape)) if shape else 1
    data = ((np.arange(n, dtype=np.int64) * sp.get("mul", 3) + sp.get("off", 1)) % sp.get("mod", 17)).reshape(shape)
    if sp.get("bool"):
        data = (data % 3) != 0
        if sp.get("last_true") and data.size:
            data.reshape(-1)[-1] = True
    um = sp.get("umask")
    if um:
        # the partner is itself a selection of unknown length along um["axis"] (sp["shape"] is its source's shape)
        bits = np.array(um["bits"], dtype=bool)
        pre = (slice(None),) * um["axis"]
        if m is np:
            return data[pre + (bits,)]
        if sp.get("plain"):  # control: the materialised partner with its true block sizes
            cks = [list(c) for c in sp["chunks"]]
            pos, true = 0, []
            for n in um["mchunks"]:
                true.append(int(bits[pos:pos + n].sum()))
                pos += n
            cks[um["axis"]] = true
            return m.from_array(data[pre + (bits,)], chunks=tuple(tuple(c) for c in cks))
        x = m.from_array(data, chunks=tuple(tuple(c) for c in sp["chunks"]))
        y = x[pre + (m.from_array(bits, chunks=(tuple(um["mchunks"]),)),)]
        if sp.get("resolve"):
            y.compute_chunk_sizes()
        return y
    if m is np:
        return data
    return m.from_array(data, chunks=tuple(tuple(c) for c in sp["chunks"]))


def _swv(m, a, w, axis):
    if m is np:
        return np.lib.stride_tricks.sliding_window_view(a, w, axis=axis)
    return m.sliding_window_view(a, w, axis=axis)


def _setitem(a, ax, k, v):
    b = a.copy()
    b[(slice(None),) * ax + (k,)] = v
    return b


def _item(m, a):
    """the single element of a size-one array (NumPy: ndarray.item(); dask: the scalar conversion protocol)"""
    if m is np:
        return a.item()
    return int(a)


def _ident(b):
    return b


def _vindex(m, a, idx):
    return a[idx] if m is np else a.vindex[idx]


def _topk(m, a, k, ax):
    if m is np:
        s = np.flip(np.sort(a, axis=ax), axis=ax)
        return _ix(s, ax, slice(0, k))
    return m.topk(a, k, axis=ax)


def _map_overlap(m, a, d, ax):
    if m is np:
        return a
    return a.map_overlap(_ident, depth={ax: d}, boundary="none", dtype=a.dtype)


def _iter_rows(m, a):
    return [np.asarray(r if m is np else r.compute()).tolist() for r in a]


OPS = {
    # ---- squeeze: valid iff the named axis has length one
    "squeeze_u": lambda m, a, p: m.squeeze(a, axis=p["u"]),
    "squeeze_u_neg": lambda m, a, p: a.squeeze(p["u"] - a.ndim),
    "squeeze_u_tuple": lambda m, a, p: a.squeeze(axis=(p["u"],)),
    "squeeze_none": lambda m, a, p: m.squeeze(a),
    "squeeze_u_dispatch": lambda m, a, p: np.squeeze(a, axis=p["u"]),  # NumPy's function applied to the dask array (__array_function__)
    "squeeze_newaxis_u": lambda m, a, p: a[None].squeeze(axis=p["u"] + 1),
    "squeeze_newaxis_both": lambda m, a, p: a[None].squeeze(axis=(0, p["u"] + 1)),
    "squeeze_newaxis_0": lambda m, a, p: a[None].squeeze(axis=0),
    "squeeze_trailing_new": lambda m, a, p: a[..., None].squeeze(axis=p["u"]),
    "expand_squeeze_u": lambda m, a, p: m.expand_dims(a, p["u"] + 1).squeeze(p["u"]),
    "expand_squeeze_new": lambda m, a, p: m.expand_dims(a, p["u"] + 1).squeeze(p["u"] + 1),
    "squeeze_o": lambda m, a, p: a.squeeze(p["o"]),
    "squeeze_u_o": lambda m, a, p: a.squeeze(axis=(p["u"], p["o"])),
    "squeeze_u_sum": lambda m, a, p: m.squeeze(a, axis=p["u"]).sum(),
    "squeeze_u_derived": lambda m, a, p: (a * 2 + 1).squeeze(p["u"]),
    "squeeze_u_T": lambda m, a, p: a.T.squeeze(a.ndim - 1 - p["u"]),
    "squeeze_u_slice": lambda m, a, p: _ix(a, p["u"], slice(None)).squeeze(p["u"]),
    "squeeze_keepdims": lambda m, a, p: a.sum(axis=p["u"], keepdims=True).squeeze(p["u"]),
    "squeeze_u_add": lambda m, a, p: m.squeeze(a, axis=p["u"]) + 1,
    # ---- reshape family: valid iff the sizes agree
    "reshape": lambda m, a, p: a.reshape(tuple(p["shape"])),
    "reshape_fn": lambda m, a, p: m.reshape(a, tuple(p["shape"])),
    "ravel": lambda m, a, p: a.ravel(),
    "ravel_fn": lambda m, a, p: m.ravel(a),
    "flatten": lambda m, a, p: a.flatten(),
    # ---- transpose family (validity is static; values and advertised shape must be right)
    "transpose_axes": lambda m, a, p: m.transpose(a, p["axes"]),
    "T": lambda m, a, p: a.T,
    "swapaxes": lambda m, a, p: m.swapaxes(a, p["u"], p["o"]),
    "moveaxis": lambda m, a, p: m.moveaxis(a, p["u"], -1 if p["u"] != a.ndim - 1 else 0),
    "rot90": lambda m, a, p: m.rot90(a),
    "flipud": lambda m, a, p: m.flipud(a),
    # ---- broadcasting
    "broadcast_to": lambda m, a, p: m.broadcast_to(a, tuple(p["shape"])),
    "broadcast_arrays": lambda m, a, p: list(m.broadcast_arrays(a, _partner(m, p["partner"]))),
    # ---- integer / list indexing on the unknown axis
    "int_u": lambda m, a, p: _ix(a, p["u"], p["k"]),
    "int_u_sum": lambda m, a, p: _ix(a, p["u"], p["k"]).sum(),
    "take_list": lambda m, a, p: _ix(a, p["u"], list(p["idx"])),
    "take_fn": lambda m, a, p: m.take(a, list(p["idx"]), axis=p["u"]),
    "take_scalar": lambda m, a, p: m.take(a, p["k"], axis=p["u"]),
    "vindex": lambda m, a, p: _vindex(m, a, list(p["idx"])),
    "slice_from": lambda m, a, p: _ix(a, p["u"], slice(p["k"], None)),
    "slice_to": lambda m, a, p: _ix(a, p["u"], slice(None, p["k"])),
    "slice_rev_int": lambda m, a, p: _ix(_ix(a, p["u"], slice(None, None, -1)), p["u"], p["k"]),
    "setitem_int": lambda m, a, p: _setitem(a, p["u"], p["k"], -5),
    "setitem_list": lambda m, a, p: _setitem(a, p["u"], list(p["idx"]), -5),
    "delete": lambda m, a, p: m.delete(a, p["k"], axis=p["u"]),
    "insert": lambda m, a, p: m.insert(a, p["k"], -9, axis=p["u"]),
    "boolmask_np": lambda m, a, p: _ix(a, p["u"], _partner(np, p["partner"])),
    "boolmask_da": lambda m, a, p: _ix(a, p["u"], _partner(m, p["partner"])),
    "compress_cond": lambda m, a, p: m.compress(_partner(np, p["partner"]), a, axis=p["u"]),
    # ---- differences, windows
    "diff": lambda m, a, p: m.diff(a, n=p["k"], axis=p["u"]),
    "ediff1d": lambda m, a, p: m.ediff1d(a),
    "gradient": lambda m, a, p: m.gradient(a, axis=p["u"]),
    "swv": lambda m, a, p: _swv(m, a, p["k"], p["u"]),
    "swv_sum": lambda m, a, p: _swv(m, a, p["k"], p["u"]).sum(axis=-1),
    "swv_max": lambda m, a, p: _swv(m, a, p["k"], p["u"]).max(axis=-1),
    "map_overlap": lambda m, a, p: _map_overlap(m, a, p["k"], p["u"]),
    # ---- repeat / tile / atleast / pad / roll
    "repeat_each": lambda m, a, p: m.repeat(a, np.array(p["reps"]), axis=p["u"]),
    "repeat_k": lambda m, a, p: m.repeat(a, p["k"], axis=p["u"]),
    "repeat_flat": lambda m, a, p: m.repeat(a, p["k"]),
    "tile": lambda m, a, p: m.tile(a, tuple(p["reps"])),
    "atleast_1d": lambda m, a, p: m.atleast_1d(a),
    "atleast_2d": lambda m, a, p: m.atleast_2d(a),
    "atleast_3d": lambda m, a, p: m.atleast_3d(a),
    "pad": lambda m, a, p: m.pad(a, p["k"], mode=p["mode"]),
    "roll": lambda m, a, p: m.roll(a, p["k"], axis=p["u"]),
    "roll_flat": lambda m, a, p: m.roll(a, p["k"]),
    "flip": lambda m, a, p: m.flip(a, p["u"]),
    # ---- joins with a known partner whose length along the unknown axis is the true one / the first block's / another
    "stack0": lambda m, a, p: m.stack([a, _partner(m, p["partner"])], axis=0),
    "stack_last": lambda m, a, p: m.stack([_partner(m, p["partner"]), a], axis=-1),
    "concat_u": lambda m, a, p: m.concatenate([a, _partner(m, p["partner"])], axis=p["u"]),
    "concat_o": lambda m, a, p: m.concatenate([_partner(m, p["partner"]), a], axis=p["o"]),
    "vstack": lambda m, a, p: m.vstack([a, _partner(m, p["partner"])]),
    "hstack": lambda m, a, p: m.hstack([a, _partner(m, p["partner"])]),
    "dstack": lambda m, a, p: m.dstack([a, _partner(m, p["partner"])]),
    "append_o": lambda m, a, p: m.append(a, _partner(m, p["partner"]), axis=p["o"]),
    "block_row": lambda m, a, p: m.block([a, _partner(m, p["partner"])]),
    "block_col": lambda m, a, p: m.block([[a], [_partner(m, p["partner"])]]),
    # ---- contractions / pairings with such partners
    "dot": lambda m, a, p: m.dot(_partner(m, p["partner"]), a) if p.get("left") else m.dot(a, _partner(m, p["partner"])),
    "matmul": lambda m, a, p: m.matmul(_partner(m, p["partner"]), a) if p.get("left") else m.matmul(a, _partner(m, p["partner"])),
    "tensordot_u": lambda m, a, p: m.tensordot(a, _partner(m, p["partner"]), axes=((p["u"],), (p["pu"],))),
    "vdot": lambda m, a, p: m.vdot(a, _partner(m, p["partner"])),
    "einsum_inner": lambda m, a, p: m.einsum("i,i->", a, _partner(m, p["partner"])),
    "einsum_mat": lambda m, a, p: m.einsum("ij,j->i" if p["u"] == 1 else "ij,i->j", a, _partner(m, p["partner"])),
    "add_partner": lambda m, a, p: a + _partner(m, p["partner"]),
    "where_partner": lambda m, a, p: m.where(a > 3, a, _partner(m, p["partner"])),
    "choose": lambda m, a, p: m.choose(_partner(m, p["partner"]) % 2, [a, a + 1]),
    "average_w": lambda m, a, p: m.average(a, axis=p["u"], weights=_partner(m, p["partner"]) + 1),
    "outer": lambda m, a, p: m.outer(a, _partner(m, p["partner"])),
    "meshgrid": lambda m, a, p: list(m.meshgrid(a, _partner(m, p["partner"]))),
    "isin_partner": lambda m, a, p: m.isin(a, _partner(m, p["partner"])),
    "searchsorted_in": lambda m, a, p: m.searchsorted(a, np.array(p["vals"]) if m is np else m.from_array(np.array(p["vals"]), chunks=2)),
    "searchsorted_of": lambda m, a, p: m.searchsorted(_partner(m, p["partner"]), a),
    # ---- conversions that need exactly one element / a length
    "item": lambda m, a, p: _item(m, a),
    "float": lambda m, a, p: float(_item(m, a)) if m is np else float(a),
    "bool": lambda m, a, p: bool(_item(m, a)) if m is np else bool(a),
    "index": lambda m, a, p: [10, 11, 12][_item(m, a) % 3] if m is np else [10, 11, 12][int(a % 3)],
    "len": lambda m, a, p: len(a),
    "iter": lambda m, a, p: _iter_rows(m, a),
    # ---- shape-dependent constructions
    "diag": lambda m, a, p: m.diag(a),
    "diagonal": lambda m, a, p: m.diagonal(a, offset=p["k"]),
    "trace": lambda m, a, p: m.trace(a, offset=p["k"]),
    "tril": lambda m, a, p: m.tril(a, k=p["k"]),
    "triu": lambda m, a, p: m.triu(a, k=p["k"]),
    "ones_like": lambda m, a, p: m.ones_like(a),
    "full_like": lambda m, a, p: m.full_like(a, 7),
    "topk": lambda m, a, p: _topk(m, a, p["k"], p["u"]),
    "median": lambda m, a, p: m.median(a, axis=p["u"]),
    "cumsum_flat": lambda m, a, p: m.cumsum(a, axis=None),
    "argmax_flat": lambda m, a, p: m.argmax(a),
    "argmin_u": lambda m, a, p: m.argmin(a, axis=p["u"]),
    "unique": lambda m, a, p: m.unique(a),
    "count_nonzero": lambda m, a, p: m.count_nonzero(a > p["k"], axis=p["u"]),
    "view": lambda m, a, p: np.ascontiguousarray(a).view("i4") if m is np else a.view("i4"),
}

# operations that pair the blocks of the unknown axis with the blocks of a partner (blockwise): the listed family
# unknown-elemwise-positional-blocks (equal block COUNTS are taken for equal chunks) shows through them
PAIRING = {"add_partner", "where_partner", "choose", "einsum_inner", "einsum_mat", "average_w", "broadcast_arrays", "vdot", "dot", "matmul",
           "tensordot_u", "boolmask_da", "stack0", "stack_last", "concat_o", "vstack", "hstack", "dstack", "append_o", "block_row", "block_col"}


def _positions(G):
    """integer positions on the unknown axis: inside the first block, just after it, the last, one past the end"""
    L, c0 = G["L"], G["c0"]
    ks = {0, 1, -1, c0, c0 - 1, L - 1, L, -L, -L - 1, L + 1}
    return sorted(k for k in ks if -6 <= k <= 6)


def _pchunks(rng, G, shape, ax, mode):
    """chunks of a partner of shape `shape`; along ax: one chunk / as many blocks as the selection / random"""
    cks = []
    for i, n in enumerate(shape):
        if i != ax or mode == "one" or n < 2:
            cks.append([n])
            continue
        nb = len(G["counts"]) if mode == "same-count" else rng.randint(2, min(3, n))
        nb = min(nb, n)
        cuts = sorted(rng.sample(range(1, n), nb - 1)) if nb > 1 else []
        cks.append([b - a for a, b in zip([0] + cuts, cuts + [n])])
    return cks


def _plens(G):
    """lengths of a partner along the axis that meets the unknown axis: true, first block's count, 1, off by one"""
    L, c0 = G["L"], G["c0"]
    return sorted({v for v in (L, c0, 1, L + 1, L - 1, sum(G["counts"][1:])) if v >= 1})


def _partner_like(rng, G, ax_len, ax=None, shape=None, **kw):
    """partner spec with the true shape of the selection except length `ax_len` along axis ax (default the unknown axis)"""
    shape = list(G["shape"] if shape is None else shape)
    ax = G["u"] if ax is None else ax
    shape[ax] = ax_len
    mode = rng.choice(["one", "one", "random", "same-count"])
    sp = {"shape": shape, "chunks": _pchunks(rng, G, shape, ax, mode), "mul": rng.choice([1, 3, 5]), "off": rng.randint(0, 4), "mod": rng.choice([17, 1 << 40])}
    sp.update(kw)
    if rng.random() < 0.25 and not kw.get("bool"):
        # the partner is an unknown-length selection as well, keeping ax_len elements: as many blocks as the selection
        # (its first block keeping the same number / another number) or another block count
        nb = len(G["counts"]) if rng.random() < 0.6 else rng.randint(1, 3)
        counts = [0] * nb
        left = ax_len
        if rng.random() < 0.5 and G["c0"] <= left:
            counts[0] = G["c0"]
            left -= G["c0"]
        for _ in range(left):
            counts[rng.randrange(nb)] += 1
        sizes = [max(1, c + rng.choice([0, 0, 1])) for c in counts]
        bits = []
        for c, n in zip(counts, sizes):
            keep = set(rng.sample(range(n), c))
            bits += [1 if i in keep else 0 for i in range(n)]
        shape = list(shape)
        shape[ax] = sum(sizes)
        cks = [list(c) for c in sp["chunks"]]
        cks[ax] = sizes
        sp.update({"shape": shape, "chunks": cks, "umask": {"axis": ax, "bits": bits, "mchunks": sizes}})
    return sp


def _samp(rng, xs, n):
    xs = list(xs)
    return rng.sample(xs, min(n, len(xs)))


def params(rng, op, G):
    """parameter dicts of operation `op` for a selection with the facts G ([] when the operation does not apply)"""
    nd, u, L, c0 = G["nd"], G["u"], G["L"], G["c0"]
    others = [i for i in range(nd) if i != u]
    o = others[0] if others else None
    if len(others) > 1 and rng.random() < 0.5:
        o = others[1]
    base = {"u": u}
    if o is not None:
        base["o"] = o

    def P(**kw):
        d = dict(base)
        d.update(kw)
        return d

    shp = G["shape"]
    size = int(np.prod(shp))
    if op in ("squeeze_u", "squeeze_u_dispatch", "squeeze_u_neg", "squeeze_u_tuple", "squeeze_none", "squeeze_newaxis_u", "squeeze_newaxis_both", "squeeze_newaxis_0",
              "squeeze_trailing_new", "expand_squeeze_u", "expand_squeeze_new", "squeeze_u_sum", "squeeze_u_derived", "squeeze_u_T", "squeeze_u_slice",
              "squeeze_keepdims", "squeeze_u_add", "ravel", "ravel_fn", "flatten", "T", "atleast_1d", "atleast_2d", "atleast_3d", "flip", "len", "iter",
              "ones_like", "full_like", "median", "cumsum_flat", "argmax_flat", "argmin_u", "unique", "gradient"):
        return [P()]
    if op in ("squeeze_o", "squeeze_u_o", "swapaxes"):
        return [P()] if o is not None else []
    if op in ("item", "float", "bool", "index"):
        return [P()]
    if op == "view":
        return [P()]
    if op in ("reshape", "reshape_fn"):
        cands = [[size], [c0 * (size // max(L, 1))] if L else [0], [1], [size + 1], [-1], [-1, 1], [1, -1], [size, 1], [1, size], [], [2, -1], [-1, 2]]
        if nd >= 2:
            n_o = size // max(L, 1)
            cands += [list(shp), [shp[u] if i == u else s for i, s in enumerate(shp)][::-1], [-1, n_o], [n_o, -1], [L, -1], [c0, n_o] if c0 else [1, n_o],
                      [-1 if i == u else s for i, s in enumerate(shp)], [1 if i == u else s for i, s in enumerate(shp)]]
        ks = _samp(rng, cands, min(len(cands), 5))
        return [P(shape=s) for s in ks]
    if op == "transpose_axes":
        if nd < 2:
            return []
        ax = list(range(nd))
        rng.shuffle(ax)
        return [P(axes=ax), P(axes=[i - nd for i in ax])]
    if op in ("moveaxis",):
        return [P()] if nd >= 2 else []
    if op in ("rot90", "flipud"):
        return [P()] if nd >= 2 or op == "flipud" else []
    if op == "broadcast_to":
        out = []
        for k in _plens(G) + [3]:
            s = list(shp)
            s[u] = k
            out.append(P(shape=s))
            out.append(P(shape=[2] + s))
        return _samp(rng, out, min(len(out), 5))
    if op in ("int_u", "int_u_sum", "take_scalar", "slice_rev_int", "setitem_int", "delete", "insert"):
        ks = _positions(G)
        return [P(k=k) for k in _samp(rng, ks, min(len(ks), 4 if op == "int_u" else 3))]
    if op in ("slice_from", "slice_to"):
        return [P(k=k) for k in _samp(rng, [c0, -c0 if c0 else -1, L, L - 1, 1, -1], 2)]
    if op in ("take_list", "take_fn", "vindex", "setitem_list"):
        if op == "vindex" and nd != 1:
            return []
        cands = [[0, L - 1], [0, L], [-L - 1], [c0], [L - 1, 0, c0], [0, 0], [-1, -L], [c0 - 1, c0] if c0 else [0], [L]]
        return [P(idx=i) for i in _samp(rng, cands, 3)]
    if op in ("boolmask_np", "boolmask_da", "compress_cond"):
        out = []
        for k in _plens(G):
            sp = {"shape": [k], "chunks": _pchunks(rng, G, [k], 0, rng.choice(["one", "same-count", "random"])), "mul": rng.choice([1, 5, 7]), "off": rng.randint(0, 3),
                  "mod": 17, "bool": True, "last_true": True}
            out.append(P(partner=sp))
        return _samp(rng, out, min(len(out), 3))
    if op == "diff":
        return [P(k=k) for k in _samp(rng, sorted({1, 2, max(c0, 1), max(L, 1)}), 2)]
    if op == "ediff1d":
        return [P()] if nd == 1 else []
    if op in ("swv", "swv_sum", "swv_max", "map_overlap"):
        ws = sorted({1, 2, c0 + 1, max(L, 1), L + 1})
        return [P(k=k) for k in _samp(rng, ws, 2 if op != "swv" else 3)]
    if op == "repeat_each":
        out = []
        for k in _plens(G):
            out.append(P(reps=[1 + (i * 2) % 3 for i in range(k)]))
        return _samp(rng, out, min(len(out), 3))
    if op in ("repeat_k", "repeat_flat"):
        return [P(k=rng.choice([1, 2, 3]))]
    if op == "tile":
        return [P(reps=r) for r in _samp(rng, [[2], [1, 2], [2, 1], [1] * nd, [2] * nd], 2)]
    if op == "pad":
        return [P(k=rng.choice([1, 2]), mode=md) for md in _samp(rng, ["constant", "edge", "reflect", "wrap"], 2)]
    if op in ("roll", "roll_flat"):
        return [P(k=k) for k in _samp(rng, [1, -1, max(c0, 1), max(L, 1), L + 1], 2)]
    if op in ("stack0", "stack_last", "add_partner", "where_partner", "choose", "broadcast_arrays"):
        return [P(partner=_partner_like(rng, G, k)) for k in _samp(rng, _plens(G), min(3, len(_plens(G))))]
    if op in ("concat_u",):
        return [P(partner=_partner_like(rng, G, k)) for k in _samp(rng, _plens(G), 2)]
    if op in ("concat_o", "append_o"):
        if o is None:
            return []
        return [P(partner=_partner_like(rng, G, k)) for k in _samp(rng, _plens(G), min(3, len(_plens(G))))]
    if op in ("vstack", "hstack", "dstack", "block_row", "block_col"):
        return [P(partner=_partner_like(rng, G, k)) for k in _samp(rng, _plens(G), min(2, len(_plens(G))))]
    if op in ("vdot", "einsum_inner", "outer", "isin_partner", "searchsorted_in", "searchsorted_of", "meshgrid"):
        if nd != 1:
            return []
        if op == "searchsorted_of":
            return [P(partner={"shape": [4], "chunks": [[2, 2]], "mul": 40, "off": 0, "mod": 1 << 40})]
        if op == "searchsorted_in":
            a = G["a"]
            if not a.size:
                return [P(vals=[0, 5])]
            return [P(vals=sorted({int(a.min()) - 1, int(a[len(a) // 2]), int(a.max()), int(a.max()) + 1}))]
        return [P(partner=_partner_like(rng, G, k)) for k in _samp(rng, _plens(G), min(3, len(_plens(G))))]
    if op == "einsum_mat":
        if nd != 2:
            return []
        out = []
        for k in _samp(rng, _plens(G), min(3, len(_plens(G)))):
            sp = _partner_like(rng, G, k, ax=0, shape=[k])
            out.append(P(partner=sp))
        return out
    if op in ("dot", "matmul"):
        out = []
        for k in _samp(rng, _plens(G), min(3, len(_plens(G)))):
            if nd == 1:
                out.append(P(partner=_partner_like(rng, G, k, ax=0, shape=[k])))
            elif nd == 2 and u == 1:  # a (n, L) @ partner (k, 2)
                out.append(P(partner=_partner_like(rng, G, k, ax=0, shape=[k, 2])))
            elif nd == 2 and u == 0:  # partner (2, k) @ a (L, n)
                out.append(P(partner=_partner_like(rng, G, k, ax=1, shape=[2, k]), left=True))
        return out
    if op == "tensordot_u":
        out = []
        for k in _samp(rng, _plens(G), min(3, len(_plens(G)))):
            out.append(P(partner=_partner_like(rng, G, k, ax=1, shape=[2, k]), pu=1))
        return out
    if op == "average_w":
        return [P(partner=_partner_like(rng, G, k, ax=0, shape=[k])) for k in _samp(rng, _plens(G), min(3, len(_plens(G))))]
    if op == "diag":
        return [P()] if nd == 1 else []
    if op in ("diagonal", "trace", "tril", "triu"):
        if nd != 2:
            return []
        return [P(k=k) for k in _samp(rng, [0, 1, -1, c0], 2)]
    if op == "topk":
        return [P(k=k) for k in _samp(rng, sorted({1, c0 + 1, max(L, 1), L + 1}), 2)]
    if op == "count_nonzero":
        return [P(k=rng.randint(0, 60))]
    raise KeyError(op)


# ============================================================================= evaluation


def _materialise(r, da):
    """('arr', value, advertised shape) | ('list', [values]) | ('scalar', value)"""
    if isinstance(r, da.Array):
        shp = tuple(r.shape)
        return ("arr", np.asarray(r.compute()), shp)
    if isinstance(r, (list, tuple)):
        return ("list", [np.asarray(e.compute()) if isinstance(e, da.Array) else np.asarray(e) for e in r], None)
    return ("scalar", np.asarray(r), None)


def _np_materialise(r):
    if isinstance(r, (list, tuple)) and not isinstance(r, np.ndarray):
        return ("list", [np.asarray(e) for e in r], None)
    return ("arr", np.asarray(r), None)


def _same_value(g, w):
    base = B()
    if (g[0] == "list") != (w[0] == "list"):
        return False
    if g[0] == "list":
        return len(g[1]) == len(w[1]) and all(base.same(x, y) for x, y in zip(g[1], w[1]))
    return base.same(g[1], w[1])


def _shape_of(v):
    if v[0] == "list":
        return [tuple(e.shape) for e in v[1]]
    return tuple(np.asarray(v[1]).shape)


def _short(v):
    if v[0] == "list":
        return repr([e.tolist() for e in v[1]])[:110]
    return repr(np.asarray(v[1]).tolist())[:110]


def _resolved_chunks(src, sel):
    da = _da()
    y = build_selection(da, src, sel)
    y.compute_chunk_sizes()
    return tuple(tuple(int(c) for c in d) for d in y.chunks)


def eval_case(case, want_control=False):
    """{'np': ('ok', v)|('raise', cls), 'da': ('ok', v)|('raise', cls, msg), 'ctl': likewise (only on request)}"""
    import dask

    da = _da()
    f = OPS[case["op"]]
    p = case["p"]
    src, sel = case["src"], case["sel"]
    out = {}
    with warnings.catch_warnings():
        warnings.simplefilter("ignore")
        try:
            a_np = build_selection(np, src, sel)
            out["np"] = ("ok", _np_materialise(f(np, a_np, p)))
        except Exception as e:
            out["np"] = ("raise", type(e).__name__)
        with dask.config.set({"array.optimize-graph": bool(case.get("opt", True)), "scheduler": "synchronous"}):
            unknown_partner = isinstance(p.get("partner"), dict) and p["partner"].get("umask")
            try:
                a = build_selection(da, src, sel)
                if case["phase"] in ("after", "partial"):
                    a.compute_chunk_sizes()
                p1 = p
                if case["phase"] == "after" and unknown_partner:  # "after": every unknown input is resolved
                    p1 = dict(p)
                    p1["partner"] = dict(p["partner"], resolve=True)
                out["da"] = ("ok", _materialise(f(da, a, p1), da))
            except Exception as e:
                out["da"] = ("raise", type(e).__name__, str(e)[:140].replace("\n", " "))
            if want_control:
                try:
                    a_np = np.asarray(build_selection(np, src, sel))
                    plain = da.from_array(a_np, chunks=_resolved_chunks(src, sel))
                    p2 = p
                    if unknown_partner:
                        p2 = dict(p)
                        p2["partner"] = dict(p["partner"], plain=True)
                    out["ctl"] = ("ok", _materialise(f(da, plain, p2), da))
                except Exception as e:
                    out["ctl"] = ("raise", type(e).__name__, str(e)[:140].replace("\n", " "))
    return out


def _deviation(npo, dao, phase):
    """how a dask outcome deviates from NumPy's: None | (kind, text)"""
    if dao[0] == "raise":
        if npo[0] == "ok" and phase == "after":
            return ("refused", f"raises {dao[1]}: {dao[2]}")
        return None
    if npo[0] == "raise":
        return ("value-where-numpy-raises", f"NumPy raises {npo[1]}, dask returns a value of shape {_shape_of(dao[1])}: {_short(dao[1])}")
    g, w = dao[1], npo[1]
    if not _same_value(g, w):
        return ("wrong-result", f"got shape {_shape_of(g)} {_short(g)} want shape {_shape_of(w)} {_short(w)}")
    if g[2] is not None:
        ws = _shape_of(w)
        adv = g[2]
        if len(adv) != len(ws) or any(not _nan(s) and int(s) != t for s, t in zip(adv, ws)):
            return ("advertised-shape", f"advertised shape {adv} vs computed {ws}")
        if phase == "after" and any(_nan(s) for s in adv):
            return ("still-unknown", f"advertised shape {adv} still unknown after compute_chunk_sizes")
    return None


def judge(case, res=None):
    """None when the property holds, else (signature, what).  Evaluates the plain-array control when needed."""
    res = res or eval_case(case)
    dev = _deviation(res["np"], res["da"], case["phase"])
    if dev is None:
        return None
    if "ctl" not in res:
        res.update({"ctl": eval_case(case, want_control=True)["ctl"]})
    cdev = _deviation(res["np"], res["ctl"], "after")
    if cdev is not None and cdev[0] == dev[0]:
        # a plain array with the same blocks deviates from NumPy in the same way: not a matter of unknown sizes
        return ("control", dev[0])
    kind, what = dev
    if kind == "refused":
        return (f"validity:after-resolve:refused:{case['op']}", f"after compute_chunk_sizes the operation {what} (a plain array with the same blocks computes NumPy's result)")
    if kind == "still-unknown":
        return (f"validity:after-resolve:still-unknown:{case['op']}", what)
    return (f"validity:{kind}:{case['op']}", what)


SQUEEZE_NONE = "unknown-squeeze-none-keeps-unit-axis"
SEARCHSORTED = "unknown-searchsorted-nan-positions"
SHORT_BOOLMASK = "unknown-onechunk-short-boolmask-accepted"


def classify(case, sig):
    """documented families reached through another call"""
    if case["phase"] == "before" and case["op"] == "squeeze_none" and sig == "validity:wrong-result:squeeze_none":
        G = true_info(case["src"], case["sel"])
        if G["L"] == 1:
            # squeeze(axis=None) cannot know that the unknown axis has length one: it keeps it
            return SQUEEZE_NONE
    if case["phase"] == "before" and case["op"] == "boolmask_np" and sig == "validity:value-where-numpy-raises:boolmask_np" and len(case["sel"]["mchunks"]) == 1:
        return SHORT_BOOLMASK
    if case["phase"] == "before" and case["op"] == "searchsorted_in" and sig == "validity:wrong-result:searchsorted_in":
        return SEARCHSORTED
    if case["phase"] != "after" and case["op"] in PAIRING and (":wrong-result:" in sig or ":value-where-numpy-raises:" in sig or ":advertised-shape:" in sig):
        sp = case["p"].get("partner")
        if sp is not None:
            G = true_info(case["src"], case["sel"])
            nb = len(G["counts"])
            if any(len(c) == nb for c in sp["chunks"]):
                # the partner has as many blocks as the unknown axis along some axis and its sizes are not the true ones
                return "unknown-elemwise-positional-blocks"
    return sig


def describe(case):
    s, sel = case["src"], case["sel"]
    out = [f"x = da.from_array(source_data({{shape:{s['shape']}, mul:{s['mul']}, off:{s['off']}}}), chunks={s['chunks']})",
           f"mask = {''.join(map(str, sel['bits']))} (blocks {sel['mchunks']}) along axis {sel['axis']}; a = select[{sel['form']}](x, mask)"]
    if case["phase"] == "after":
        out.append("a.compute_chunk_sizes() (and the partner, when it is an unknown-length selection)")
    if case["phase"] == "partial":
        out.append("a.compute_chunk_sizes() (the partner stays unknown)")
    out.append(f"result = op[{case['op']}](a; {case['p']})  [optimize-graph={case.get('opt', True)}]")
    return "; ".join(out)


# ============================================================================= the stream


def _run_case(ctx, case, tally):
    res = eval_case(case)
    npk = res["np"][0]
    dak = res["da"][0]
    outcome = {("ok", "ok"): "value", ("ok", "raise"): "refused", ("raise", "raise"): "both-raise", ("raise", "ok"): "value-np-raises"}[(npk, dak)]
    ctx.count(("validity", case["op"], case["phase"], outcome, case["sel"]["form"] if outcome != "refused" else ""))
    tally[(case["op"], outcome)] = tally.get((case["op"], outcome), 0) + 1
    bad = judge(case, res)
    if not bad:
        return
    if bad[0] == "control":
        k = f"validity.control.{bad[1]}.{case['op']}"
        ctx.notes[k] = ctx.notes.get(k, 0) + 1
        if bad[1] in ("value-where-numpy-raises", "wrong-result"):
            ctx.notes.setdefault("validity.control.sample." + case["op"], describe(case))
        return
    sig, what = bad
    sig = classify(case, sig)
    ctx.sample({"failing": describe(case)})
    ctx.fail(sig, {"case": case, "what": what, "program": describe(case)}, what)


def _s1(n, chunks, off=100):
    return {"op": "src", "shape": [n], "chunks": [list(chunks)], "mul": 1, "off": off, "mod": 1 << 40}


PROBES = [
    # (signature, case, what): dedicated probes of the families found through this stream (fail while the defect exists)
    (SHORT_BOOLMASK,
     {"stream": "validity", "src": _s1(4, [4], off=10), "sel": {"axis": 0, "bits": [1, 1, 1, 0], "mchunks": [4], "form": "getitem"},
      "op": "boolmask_np", "p": {"u": 0, "partner": {"shape": [1], "chunks": [[1]], "mul": 1, "off": 1, "mod": 17, "bool": True, "last_true": True}},
      "phase": "before", "opt": True},
     "x=from_array(arange(10,14), chunks=4); y=x[from_array([T,T,T,F], chunks=4)]; y[np.array([True])].compute() -> [10] (also [True, False]); NumPy "
     "raises IndexError (boolean index of size 1 on an axis of size 3), a known-size dask array raises too, a mask that is too LONG is refused: "
     "on a single-block axis of unknown length a too-short NumPy boolean mask is converted to integer positions and taken from the block"),
    (SQUEEZE_NONE,
     {"stream": "validity", "src": _s1(4, [2, 2]), "sel": {"axis": 0, "bits": [0, 0, 1, 0], "mchunks": [2, 2], "form": "getitem"},
      "op": "squeeze_none", "p": {"u": 0}, "phase": "before", "opt": True},
     "x=from_array(arange(100,104), chunks=2); y=x[from_array([F,F,T,F], chunks=2)]; da.squeeze(y).compute() has shape (1,), np.squeeze gives shape () "
     "(squeeze(axis=None) silently keeps an axis of unknown length whose true length is one; after compute_chunk_sizes it is dropped)"),
    (SEARCHSORTED,
     {"stream": "validity", "src": _s1(4, [2, 2]), "sel": {"axis": 0, "bits": [1, 0, 1, 1], "mchunks": [2, 2], "form": "getitem"},
      "op": "searchsorted_in", "p": {"u": 0, "vals": [100, 103]}, "phase": "before", "opt": True},
     "x=from_array(arange(100,104), chunks=2); y=x[from_array([T,F,T,T], chunks=2)]; da.searchsorted(y, from_array([100,103], chunks=2)).compute() "
     "-> [0., nan], NumPy [0, 2]: the block offsets are the cumulative sums of the nan chunk sizes, so every position found beyond the first "
     "block is nan (float dtype) instead of a refusal"),
]


def run_stream(ctx):
    rng = ctx.rng
    warnings.simplefilter("ignore")
    t0 = ctx.elapsed()
    tally = {}
    for sig, pc, what in PROBES:
        bad = judge(pc)
        ctx.count(("validity-probe", sig))
        if bad and bad[0] != "control":
            ctx.fail(sig, {"case": pc, "what": bad[1], "program": describe(pc)}, what)
        else:
            ctx.notes["probe_no_longer_fails." + sig] = ctx.notes.get("probe_no_longer_fails." + sig, 0) + 1
    ops = list(OPS)
    rounds = ctx.scale(1, 6)
    for _ in range(rounds):
        # every pattern is used; every operation meets >= 2 first-block-keeps-one patterns and >= 2 others per round
        pats = list(PATTERNS)
        rng.shuffle(pats)
        sels = []
        for counts in pats + rng.sample(FIRST_ONE, 4) + [rng.choice(ZERO_TOTAL)]:
            src, sel = gen_selection(rng, counts)
            sels.append((src, sel, true_info(src, sel)))
        first_one = [s for s in sels if s[2]["c0"] == 1 and s[2]["L"] > 1]
        unit = [s for s in sels if s[2]["L"] == 1]
        rest = [s for s in sels if s[2]["L"] != 1 and s[2]["c0"] != 1]
        for op in ops:
            # per operation: the first block keeps exactly one element while later blocks keep more (x2), exactly one
            # element overall (in the first / in a later block), and another pattern (first block keeps 0 or several)
            chosen = rng.sample(first_one, 2) + rng.sample(unit, 1) + rng.sample(rest, 1)
            if op in ("squeeze_o", "squeeze_u_o"):
                # need a known axis of length one next to the unknown axis
                chosen = []
                for counts in _samp(rng, FIRST_ONE, 2) + _samp(rng, UNIT, 1) + _samp(rng, PATTERNS, 1):
                    s2, l2 = gen_selection(rng, counts, nd=rng.choice([2, 2, 3]), olen=1)
                    chosen.append((s2, l2, true_info(s2, l2)))
            if op in ("item", "float", "bool", "index", "len", "iter"):
                chosen = []
                for counts in _samp(rng, FIRST_ONE, 2) + _samp(rng, UNIT, 1) + _samp(rng, PATTERNS, 1):
                    s2, l2 = gen_selection(rng, counts, nd=1)
                    chosen.append((s2, l2, true_info(s2, l2)))
            for src, sel, G in chosen:
                ps = params(rng, op, G)
                if not ps:
                    # the operation does not apply to this rank: a fresh selection of a rank it applies to
                    for nd2 in (1, 2):
                        s2, l2 = gen_selection(rng, rng.choice(FIRST_ONE), nd=nd2)
                        G2 = true_info(s2, l2)
                        ps = params(rng, op, G2)
                        if ps:
                            src, sel, G = s2, l2, G2
                            break
                for p in ps:
                    phases = ("before", "after") if rng.random() < ctx.scale(0.25, 1.0) else ("before",)
                    if len(phases) == 2 and isinstance(p.get("partner"), dict) and p["partner"].get("umask") and rng.random() < 0.5:
                        phases = ("before", "partial")  # the selection resolved, the unknown partner not
                    for phase in phases:
                        case = {"stream": "validity", "src": src, "sel": sel, "op": op, "p": p, "phase": phase, "opt": rng.random() < 0.6}
                        _run_case(ctx, case, tally)
    ctx.notes["validity.seconds"] = round(ctx.elapsed() - t0, 1)
    never_valued = sorted(op for op in ops if not tally.get((op, "value")) and not tally.get((op, "refused")))
    if never_valued:
        ctx.notes["validity.ops_without_numpy_value"] = never_valued
    return tally


def replay(ctx, case, sig=None):
    bad = judge(case)
    if bad and bad[0] != "control":
        ctx.fail(classify(case, bad[0]), {"case": case, "what": bad[1], "program": describe(case)}, bad[1])
    return True
