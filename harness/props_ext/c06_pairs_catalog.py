"""Catalogue of call families for c06_pairs (one per public entry point / expression class).

Every parameter value is a Python source string; `A(dtype, shape, chunks, k)` is a deterministic source array
(dask collection when building, NumPy twin for the reference), `R(dtype, shape, k)` a NumPy array in both
modes, `G(bitgen, seed)` / `RS(seed)` random generators, `f_*` the helper functions below.
`make(a)` builds the dask collection from the evaluated arguments, `ref(a)` the NumPy reference (None: the
value the call computes alone, from empty registries, is the oracle).
"""
from __future__ import annotations

import numpy as np

# ------------------------------------------------------------------------------ helper block functions
# (module level: tokenised by qualified name, picklable)


def f_wsum(x, weights=None, dtype=None, computing_meta=False, **kwargs):
    if computing_meta:
        return x
    if weights is not None:
        x = x * weights
    return np.sum(x, dtype=dtype, **kwargs)


def f_wmax(x, weights=None, dtype=None, computing_meta=False, **kwargs):
    if computing_meta:
        return x
    if weights is not None:
        x = x * weights
    kwargs.pop("dtype", None)
    return np.max(x, **kwargs)


def f_fill(block, value=0.0):
    return np.full_like(block, value, dtype="f8")


def f_fill2(block, value=0.0, scale=1):
    return np.full_like(block, value, dtype="f8") * scale


def f_addk(block, k=0):
    return block + k


def f_mulk(block, k=1):
    return block * k


def f_pick(block, idx):
    """block[idx] summed and broadcast back: a tuple index and a list index are different things"""
    return np.zeros_like(block, dtype="f8") + np.asarray(block)[idx].sum()


def f_typecode(block, v):
    """depends on the TYPE of the literal only"""
    return np.zeros_like(block, dtype="i8") + {bool: 1, int: 2, float: 3}.get(type(v), 4 + np.dtype(type(v)).itemsize if isinstance(v, np.generic) else 9)


def f_signs(block):
    return np.where(np.signbit(block), -1.0, 1.0)


def f_getter_plain(a, idx, *args, **kw):
    return np.asarray(a[idx])


def f_getter_plus(a, idx, *args, **kw):
    return np.asarray(a[idx]) + 1


def f_np_sum(x, **kw):
    return np.sum(x, **kw)


def f_np_max(x, **kw):
    return np.max(x, **kw)


def f_id(x):
    return x


def f_from_map(v, k=0):
    return np.full((2,), v + k, dtype="f8")


def f_from_map2(v, k=0):
    return np.full((2,), v * 2 + k, dtype="f8")


def f_fromfunction(i, j, k=0.0):
    return (i * 10 + j) * 1.0 + k


def f_ptp1d(v, scale=1):
    return (v.max() - v.min()) * scale


def f_gu_mean(x, k=0.0):
    return np.mean(x, axis=-1) + k


def f_overlap_sum(b, k=0.0):
    return b + np.roll(b, 1, axis=0) + k


def f_overlap_sign(b):
    return np.copysign(1.0, b)


ZEROS = ["0.0", "-0.0", "0", "False", "np.float32(0.0)", "np.float32(-0.0)", "np.float64(-0.0)", "np.int8(0)"]
ONES = ["1", "True", "1.0", "np.float32(1)", "np.int8(1)", "np.float64(1.0)", "np.bool_(True)", "np.uint8(1)", "np.int64(1)"]
NANS = ["float('nan')", "NANP(5)", "np.float32('nan')"]  # the SIGN of a NaN literal: family literal.nan-sign only
LITS = ZEROS + ONES + NANS + ["2", "2.0", "-1", "-1.0"]


def _noref():
    from harness.props_ext.c06_pairs import NoRef

    return NoRef()


def _F(*a, **k):
    from harness.props_ext.c06_pairs import Family

    return Family(*a, **k)


def pick(rng, xs, n):
    xs = list(xs)
    rng.shuffle(xs)
    return xs[:n]


def catalogue():
    import dask_array as da

    out = []
    add = out.append

    # ===================================================================== blockwise / map_blocks literals
    BIN = {"np.copysign": np.copysign, "np.divide": np.divide, "np.arctan2": np.arctan2, "np.multiply": np.multiply, "np.add": np.add,
           "np.maximum": np.maximum, "np.power": np.power, "np.subtract": np.subtract, "np.fmin": np.fmin}

    def b_poslit(rng):
        return {"x": rng.choice(["A('f8',(6,),(3,))", "A('f8',(4,3),(2,2))", "A('i8',(6,),(4,))"]), "op": rng.choice(list(BIN)), "lit": rng.choice(ZEROS[:2] + ONES[:3])}

    def a_poslit(rng, base):
        return {"lit": LITS, "op": pick(rng, BIN, 3)}

    add(_F("map_blocks.positional-literal", b_poslit, a_poslit,
           make=lambda a: a["x"].map_blocks(a["op"], a["lit"]),
           ref=lambda a: a["op"](a["x"], a["lit"])))
    add(_F("map_blocks.literal-first", b_poslit, a_poslit,
           make=lambda a: da.map_blocks(a["op"], a["lit"], a["x"]),
           ref=lambda a: a["op"](a["lit"], a["x"])))
    add(_F("map_blocks.keyword-literal",
           lambda rng: {"x": "A('f8',(6,),(3,))", "f": "f_fill", "value": rng.choice(ZEROS[:2] + ONES[:3]), "dtype": "'f8'", "name": "None", "token": "None", "meta": "None"},
           lambda rng, b: {"value": LITS, "f": ["f_fill2"], "dtype": ["None"], "name": ["'nm'"], "token": ["'tk'"], "meta": ["np.empty((0,), dtype='f8')"]},
           make=lambda a: a["x"].map_blocks(a["f"], value=a["value"], dtype=a["dtype"], name=a["name"], token=a["token"], meta=a["meta"]),
           ref=lambda a: a["f"](a["x"], value=a["value"])))
    add(_F("map_blocks.literal-type",
           {"x": "A('i8',(6,),(3,))", "v": "1"}, {"v": ONES + ZEROS},
           make=lambda a: a["x"].map_blocks(f_typecode, a["v"], dtype="i8"),
           ref=lambda a: f_typecode(a["x"], a["v"])))
    add(_F("map_blocks.tuple-vs-list",
           {"x": "A('f8',(4,4),(4,4))", "idx": "(0, 1)"}, {"idx": ["[0, 1]", "(1, 0)", "[1, 0]", "([0, 1],)", "(0, 1.0 == 1)", "(False, 1)"]},
           make=lambda a: a["x"].map_blocks(f_pick, a["idx"], dtype="f8"),
           ref=lambda a: f_pick(a["x"], a["idx"])))
    add(_F("map_blocks.structure",
           {"x": "A('f8',(4,6),(2,3))", "k": "1", "drop_axis": "None", "new_axis": "None", "chunks": "None", "enforce_ndim": "False", "dtype": "'f8'"},
           {"k": ["1.0", "True", "2"], "enforce_ndim": ["True"], "dtype": ["'f4'", "'i8'"], "chunks": ["(2, 3)"]},
           make=lambda a: a["x"].map_blocks(f_addk, k=a["k"], drop_axis=a["drop_axis"], new_axis=a["new_axis"], chunks=a["chunks"], enforce_ndim=a["enforce_ndim"], dtype=a["dtype"]),
           ref=lambda a: f_addk(a["x"], a["k"]).astype(a["dtype"]), exact=True))

    def b_bw(rng):
        return {"x": "A('f8',(6,),(3,))", "op": rng.choice(["np.divide", "np.copysign", "np.arctan2"]), "lit": rng.choice(ZEROS[:2]), "dtype": "'f8'",
                "concatenate": "None", "align_arrays": "True", "token": "None", "name": "None", "meta": "None"}

    add(_F("blockwise.literal", b_bw,
           lambda rng, b: {"lit": LITS, "op": pick(rng, BIN, 2), "dtype": ["'f4'"], "concatenate": ["True"], "align_arrays": ["False"], "token": ["'tk'"], "name": ["'nm'"]},
           make=lambda a: da.blockwise(a["op"], "i", a["x"], "i", a["lit"], None, dtype=a["dtype"], concatenate=a["concatenate"], align_arrays=a["align_arrays"],
                                       token=a["token"], name=a["name"], meta=a["meta"]),
           ref=lambda a: a["op"](a["x"], a["lit"]).astype(a["dtype"])))
    add(_F("blockwise.keyword-literal",
           {"x": "A('f8',(4,4),(2,2))", "value": "0.0", "scale": "1"},
           {"value": LITS, "scale": ["True", "1.0", "-1", "np.float32(1)"]},
           make=lambda a: da.blockwise(f_fill2, "ij", a["x"], "ij", value=a["value"], scale=a["scale"], dtype="f8"),
           ref=lambda a: f_fill2(a["x"], a["value"], a["scale"])))
    add(_F("blockwise.contraction",
           {"x": "A('f8',(4,6),(2,3))", "out": "'i'", "k": "0", "concatenate": "True", "adjust": "None"},
           {"out": ["'j'"], "k": ["0.0", "-0.0", "False", "1"]},
           make=lambda a: da.blockwise(f_contract_i if a["out"] == "i" else f_contract_j, a["out"], a["x"], "ij", k=a["k"], concatenate=True, dtype="f8"),
           ref=lambda a: (a["x"].sum(axis=1) if a["out"] == "i" else a["x"].sum(axis=0)) + a["k"]))

    # ===================================================================== elemwise
    def b_elem(rng):
        return {"x": rng.choice(["A('f8',(6,),(3,))", "A('i8',(4,3),(2,2))", "A('f4',(5,),(2,))"]), "op": rng.choice(list(BIN)), "lit": rng.choice(ZEROS[:2] + ONES[:3]), "dtype": "None"}

    add(_F("elemwise.ufunc-literal", b_elem, lambda rng, b: {"lit": LITS, "op": pick(rng, BIN, 3), "dtype": ["'f8'", "'f4'"]},
           make=lambda a: getattr(da, a["op"].__name__)(a["x"], a["lit"], **({"dtype": a["dtype"]} if a["dtype"] else {})),
           ref=lambda a: a["op"](a["x"], a["lit"], **({"dtype": a["dtype"]} if a["dtype"] else {}))))
    add(_F("elemwise.literal-ufunc", b_elem, lambda rng, b: {"lit": LITS, "op": pick(rng, BIN, 3)},
           make=lambda a: getattr(da, a["op"].__name__)(a["lit"], a["x"]),
           ref=lambda a: a["op"](a["lit"], a["x"])))
    OPS = {"'+'": lambda x, y: x + y, "'*'": lambda x, y: x * y, "'/'": lambda x, y: x / y, "'-'": lambda x, y: x - y, "'**'": lambda x, y: x ** y,
           "'r/'": lambda x, y: y / x, "'r-'": lambda x, y: y - x, "'%'": lambda x, y: x % y, "'//'": lambda x, y: x // y, "'=='": lambda x, y: x == y, "'<'": lambda x, y: x < y}
    OPF = {k.strip("'"): v for k, v in OPS.items()}
    add(_F("elemwise.operator-literal",
           lambda rng: {"x": rng.choice(["A('f8',(6,),(3,))", "A('i8',(4,3),(2,2))"]), "op": rng.choice(list(OPS)), "lit": rng.choice(ZEROS[:2] + ONES[:3])},
           lambda rng, b: {"lit": LITS, "op": pick(rng, OPS, 4)},
           make=lambda a: OPF[a["op"]](a["x"], a["lit"]), ref=lambda a: OPF[a["op"]](a["x"], a["lit"])))
    add(_F("elemwise.where-out",
           {"x": "A('f8',(6,),(3,))", "y": "A('f8',(6,),(3,),1)", "where": "R('bool',(6,),0)", "out": "A('f8',(6,),(3,),2)", "op": "np.add"},
           {"where": ["R('bool',(6,),1)", "R('bool',(6,),2)", "True", "A('bool',(6,),(3,),1)", "A('bool',(6,),(2,),0)"], "out": ["A('f8',(6,),(3,),3)", "A('f8',(6,),(2,),2)"],
            "op": ["np.subtract", "np.multiply"], "y": ["A('f8',(6,),(3,),4)", "1.0", "True"]},
           make=lambda a: getattr(da, a["op"].__name__)(a["x"], a["y"], where=a["where"], out=a["out"]),
           ref=lambda a: a["op"](a["x"], a["y"], where=a["where"], out=a["out"].copy())))
    UN = ["np.negative", "np.abs", "np.sign", "np.sqrt", "np.signbit", "np.reciprocal", "np.exp", "np.isnan", "np.logical_not", "np.rint", "np.floor", "np.conj", "np.square"]
    add(_F("elemwise.unary",
           lambda rng: {"x": rng.choice(["A('f8',(6,),(3,))", "A('i8',(4,3),(2,2))"]), "op": rng.choice(UN), "dtype": "None"},
           lambda rng, b: {"op": UN, "dtype": ["'f8'", "'f4'", "'c16'"], "x": ["A('f8',(6,),(2,))", "A('f8',(6,),(3,),1)", "A('f4',(6,),(3,))"]},
           make=lambda a: getattr(da, a["op"].__name__)(a["x"], **({"dtype": a["dtype"]} if a["dtype"] else {})),
           ref=lambda a: a["op"](a["x"], **({"dtype": a["dtype"]} if a["dtype"] else {}))))
    add(_F("clip",
           {"x": "A('f8',(6,),(3,))", "lo": "0.0", "hi": "3"}, {"lo": ["-0.0", "0", "False", "None", "-1"], "hi": ["3.0", "np.float32(3)", "None", "4"]},
           make=lambda a: da.clip(a["x"], a["lo"], a["hi"]), ref=lambda a: np.clip(a["x"], a["lo"], a["hi"])))
    add(_F("where",
           {"c": "A('bool',(6,),(3,))", "x": "A('f8',(6,),(3,))", "y": "0.0"}, {"y": LITS, "x": ["1.0", "-0.0", "A('f8',(6,),(3,),1)"], "c": ["A('bool',(6,),(3,),1)", "True", "False", "1", "0"]},
           make=lambda a: da.where(a["c"], a["x"], a["y"]), ref=lambda a: np.where(a["c"], a["x"], a["y"])))
    add(_F("round-nan_to_num-isclose",
           {"x": "A('f8',(6,),(3,))", "fn": "'round'", "p": "0"},
           {"fn": ["'nan_to_num'", "'isclose'", "'around'"], "p": ["1", "-1", "True", "0.0", "-0.0"]},
           make=lambda a: _multi(da, a), ref=lambda a: _multi(np, a)))

    # ===================================================================== reductions
    def b_red(rng):
        return {"x": "A('f8',(6,10),(4,5))", "chunk": "f_wsum", "agg": "f_np_sum", "axis": rng.choice(["0", "1", "None"]), "keepdims": "False", "dtype": "'f8'", "split_every": "None",
                "combine": "None", "name": "None", "concatenate": "True", "output_size": "1", "meta": "None", "weights": rng.choice(["R('f8',(6,1),1)", "R('f8',(10,),2)", "R('f8',(6,10),3)"])}

    add(_F("reduction.custom", b_red,
           lambda rng, b: {"weights": ["R('f8',(6,1),1)", "R('f8',(10,),2)", "R('f8',(6,10),3)", "R('f8',(6,10),4)", "None", "R('i8',(10,),2)"], "axis": ["0", "1", "None", "(0, 1)"],
                           "keepdims": ["True"], "split_every": ["2", "{0: 2, 1: 2}"], "combine": ["f_np_sum"], "name": ["'nm'"], "dtype": ["'f4'"], "chunk": ["f_wmax"], "agg": ["f_np_max"],
                           "meta": ["np.empty((0,), dtype='f8')"]},
           make=lambda a: da.reduction(a["x"], a["chunk"], a["agg"], axis=a["axis"], keepdims=a["keepdims"], dtype=a["dtype"], split_every=a["split_every"], combine=a["combine"],
                                       name=a["name"], concatenate=a["concatenate"], output_size=a["output_size"], meta=a["meta"], weights=a["weights"]),
           ref=lambda a: _red_ref(a), exact=False))
    RED = ["sum", "prod", "min", "max", "mean", "var", "std", "any", "all", "nansum", "nanmax", "nanmean", "nanvar", "nanprod", "nanmin", "nanstd"]
    add(_F("reduction.named",
           lambda rng: {"x": rng.choice(["A('f8',(6,4),(4,3))", "A('i8',(4,6),(3,4))"]), "fn": repr(rng.choice(RED)), "axis": rng.choice(["0", "1", "None"]), "keepdims": "False", "split_every": "None", "dtype": "None"},
           lambda rng, b: {"fn": [repr(f) for f in pick(rng, RED, 5)], "axis": ["0", "1", "None", "(0, 1)", "-1", "(1,)"], "keepdims": ["True"], "split_every": ["2", "3"], "dtype": ["'f8'", "'f4'", "'i8'", "'c16'"],
                           "x": ["A('f8',(6,4),(4,3),1)", "A('f8',(6,4),(3,4))"]},
           make=lambda a: getattr(da, a["fn"])(a["x"], axis=a["axis"], keepdims=a["keepdims"], split_every=a["split_every"], **({"dtype": a["dtype"]} if a["dtype"] and a["fn"] not in ("min", "max", "any", "all", "nanmin", "nanmax") else {})),
           ref=lambda a: getattr(np, a["fn"])(a["x"], axis=a["axis"], keepdims=a["keepdims"], **({"dtype": a["dtype"]} if a["dtype"] and a["fn"] not in ("min", "max", "any", "all", "nanmin", "nanmax") else {})),
           exact=False))
    add(_F("reduction.ddof-moment",
           {"x": "A('f8',(6,4),(4,3))", "fn": "'var'", "ddof": "0", "axis": "0", "order": "2"},
           {"fn": ["'std'", "'nanvar'", "'nanstd'", "'moment'"], "ddof": ["1", "True", "1.0", "2"], "axis": ["1", "None"], "order": ["3", "4"]},
           make=lambda a: da.moment(a["x"], a["order"], axis=a["axis"], ddof=a["ddof"]) if a["fn"] == "moment" else getattr(da, a["fn"])(a["x"], axis=a["axis"], ddof=a["ddof"]),
           ref=None, exact=False))
    ARG = ["argmax", "argmin", "nanargmax", "nanargmin"]
    add(_F("reduction.arg",
           lambda rng: {"x": "A('f8',(6,5),(4,2))", "fn": repr(rng.choice(ARG)), "axis": rng.choice(["0", "1", "None"]), "keepdims": "False", "split_every": "None"},
           lambda rng, b: {"fn": [repr(f) for f in ARG], "axis": ["0", "1", "None", "-1"], "keepdims": ["True"], "split_every": ["2"], "x": ["A('f8',(6,5),(4,2),1)", "A('f8',(6,5),(2,5))"]},
           make=lambda a: getattr(da, a["fn"])(a["x"], axis=a["axis"], keepdims=a["keepdims"], split_every=a["split_every"]),
           ref=lambda a: getattr(np, a["fn"])(a["x"], axis=a["axis"], keepdims=a["keepdims"])))
    CUM = ["cumsum", "cumprod", "nancumsum", "nancumprod"]
    add(_F("reduction.cumulative",
           lambda rng: {"x": "A('f8',(6,4),(2,3))", "fn": repr(rng.choice(CUM)), "axis": rng.choice(["0", "1"]), "dtype": "None", "method": "'sequential'"},
           lambda rng, b: {"fn": [repr(f) for f in CUM], "axis": ["0", "1", "None", "-1"], "dtype": ["'f4'", "'i8'"], "method": ["'blelloch'"], "x": ["A('f8',(6,4),(2,3),1)", "A('i8',(6,4),(2,3))"]},
           make=lambda a: getattr(da, a["fn"])(a["x"], axis=a["axis"], dtype=a["dtype"], method=a["method"]),
           ref=lambda a: getattr(np, a["fn"])(a["x"], axis=a["axis"], dtype=a["dtype"]), exact=False))
    add(_F("reduction.topk",
           {"x": "A('f8',(8,5),(3,5))", "fn": "'topk'", "k": "2", "axis": "0", "split_every": "None"},
           {"fn": ["'argtopk'"], "k": ["-2", "3", "1", "True", "2.0 == 2 and 2"], "axis": ["1", "-1"], "split_every": ["2"]},
           make=lambda a: getattr(da, a["fn"])(a["x"], a["k"], axis=a["axis"], split_every=a["split_every"]), ref=None))
    add(_F("average",
           {"x": "A('f8',(6,4),(4,3))", "axis": "0", "weights": "R('f8',(6,),1)", "keepdims": "False"},
           {"axis": ["None"], "weights": ["R('f8',(6,),2)", "R('f8',(6,),3)", "None", "A('f8',(6,),(4,),1)", "A('f8',(6,),(4,),2)", "R('i8',(6,),1)"], "keepdims": ["True"]},
           make=lambda a: da.average(a["x"], axis=a["axis"], weights=(np.abs(a["weights"]) + 1 if a["weights"] is not None else None), keepdims=a["keepdims"]) if a["axis"] is not None or a["weights"] is None else da.average(a["x"]),
           ref=lambda a: np.average(a["x"], axis=a["axis"], weights=(np.abs(a["weights"]) + 1 if a["weights"] is not None else None), keepdims=a["keepdims"]) if a["axis"] is not None or a["weights"] is None else np.average(a["x"]),
           exact=False))
    return out + catalogue2() + catalogue3()


def f_contract_i(b, k=0):
    return b.sum(axis=1) + k


def f_contract_j(b, k=0):
    return b.sum(axis=0) + k


def _multi(m, a):
    fn, p, x = a["fn"], a["p"], a["x"]
    if fn in ("round", "around"):
        return getattr(m, fn)(x / 3, int(p) if not isinstance(p, float) else 0)
    if fn == "nan_to_num":
        return m.nan_to_num(x / (x - 1), nan=p, posinf=p)
    return m.isclose(x, x + 1e-9, atol=float(abs(p)) * 1e-9)


def _red_ref(a):
    x = a["x"]
    w = a["weights"]
    if w is not None:
        x = x * w
    f = np.sum if a["chunk"] is f_wsum and a["agg"] is f_np_sum else None
    if f is None:
        if a["chunk"] is f_wmax and a["agg"] is f_np_max:
            f = np.max
        else:
            raise _noref()
    r = f(x, axis=a["axis"], keepdims=a["keepdims"])
    return np.asarray(r).astype(a["dtype"])


BITGENS = ["'PCG64'", "'MT19937'", "'Philox'", "'SFC64'", "'PCG64DXSM'"]


def catalogue2():
    """random streams, IO sources, creation routines"""
    import dask_array as da

    out = []
    add = out.append
    # ===================================================================== random (oracle: the value alone)
    DIST0 = ["standard_normal", "standard_exponential", "standard_cauchy", "random"]
    DIST2 = ["normal", "uniform", "gumbel", "laplace", "logistic", "lognormal"]
    add(_F("random.generator-bitgen",
           lambda rng: {"bitgen": rng.choice(BITGENS), "seed": str(rng.choice([0, 1234, 7])), "dist": repr(rng.choice(DIST0)), "size": "(12,)", "chunks": "(4,)"},
           lambda rng, b: {"bitgen": BITGENS, "seed": [str(int(b["seed"]) + 1), "np.random.SeedSequence(%s)" % b["seed"], "[%s]" % b["seed"], "[%s, 0]" % b["seed"]],
                           "dist": [repr(d) for d in DIST0], "size": ["(13,)", "(12, 1)", "12"], "chunks": ["(6,)", "(4, 4, 4)", "((4, 4, 4),)", "4"]},
           make=lambda a: getattr(da.random.default_rng(getattr(np.random, a["bitgen"])(a["seed"])), a["dist"])(size=a["size"], chunks=a["chunks"]), ref=None))
    add(_F("random.generator-args",
           lambda rng: {"bitgen": rng.choice(BITGENS), "seed": "5", "dist": repr(rng.choice(DIST2)), "p0": "0.0", "p1": "1.0", "size": "(3, 4)", "chunks": "(2, 2)"},
           lambda rng, b: {"bitgen": pick(rng, BITGENS, 2), "dist": [repr(d) for d in DIST2], "p0": ["-0.0", "0", "False", "1.0", "np.float32(0)", "0.5"], "p1": ["1", "True", "2.0", "np.float32(1)"],
                           "size": ["(4, 3)"], "chunks": ["(3, 2)"]},
           make=lambda a: getattr(da.random.default_rng(getattr(np.random, a["bitgen"])(a["seed"])), a["dist"])(a["p0"], a["p1"], size=a["size"], chunks=a["chunks"]), ref=None))
    add(_F("random.generator-integers",
           {"bitgen": "'PCG64'", "seed": "3", "low": "0", "high": "10", "dtype": "'i8'", "endpoint": "False", "size": "(8,)", "chunks": "(3,)"},
           lambda rng, b: {"bitgen": pick(rng, BITGENS, 3), "low": ["1", "False", "0.0"], "high": ["11", "10.0", "None"], "dtype": ["'i4'", "'u1'", "np.int64"], "endpoint": ["True"], "seed": ["4"]},
           make=lambda a: da.random.default_rng(getattr(np.random, a["bitgen"])(a["seed"])).integers(a["low"], a["high"], size=a["size"], chunks=a["chunks"], dtype=a["dtype"], endpoint=a["endpoint"]), ref=None))
    add(_F("random.generator-random-poisson",
           {"bitgen": "'PCG64'", "seed": "3", "fn": "'random'", "arg": "'f8'", "size": "(8,)", "chunks": "(3,)"},
           lambda rng, b: {"bitgen": pick(rng, BITGENS, 3), "fn": ["'poisson'", "'exponential'", "'chisquare'"], "arg": ["'f4'", "np.float64", "1", "1.0", "True", "2"], "seed": ["4"]},
           make=lambda a: (da.random.default_rng(getattr(np.random, a["bitgen"])(a["seed"])).random(size=a["size"], chunks=a["chunks"], dtype=a["arg"]) if a["fn"] == "random"
                           else getattr(da.random.default_rng(getattr(np.random, a["bitgen"])(a["seed"])), a["fn"])(a["arg"], size=a["size"], chunks=a["chunks"])), ref=None))
    add(_F("random.successive-draws",
           # several draws from ONE generator object, identical arguments: the nodes differ only in the generator's position
           lambda rng: {"gen": rng.choice(["G('PCG64', 3)", "G('MT19937', 3)", "RS(3)"]), "combo": "'a-a'", "size": "(4,)", "chunks": "(2,)"},
           {"combo": ["'a-b'", "'b-a'", "'b-b'", "'a'", "'b'", "'c'", "'a-c'"], "gen": ["G('Philox', 3)", "RS(4)"]},
           make=lambda a: _draws(a), ref=None))
    add(_F("random.generator-choice",
           {"bitgen": "'PCG64'", "seed": "3", "a": "6", "size": "(8,)", "replace": "True", "p": "None", "chunks": "(3,)", "shuffle": "True"},
           lambda rng, b: {"bitgen": ["'MT19937'", "'Philox'"], "a": ["7", "R('i8',(6,),1)", "R('i8',(6,),2)"], "replace": ["False"], "p": ["[0.5, 0.1, 0.1, 0.1, 0.1, 0.1]", "[0.1, 0.5, 0.1, 0.1, 0.1, 0.1]"],  # fixed probe (known defect family): no random choices
                           "seed": ["4"], "size": ["(3,)"], "shuffle": ["False"]},
           make=lambda a: da.random.default_rng(getattr(np.random, a["bitgen"])(a["seed"])).choice(a["a"], size=a["size"] if a["replace"] else (3,), replace=a["replace"], p=a["p"], chunks=a["chunks"], shuffle=a["shuffle"]), ref=None, one_sig="random:generator-choice-recompute"))
    add(_F("random.randomstate",
           lambda rng: {"seed": "3", "dist": repr(rng.choice(["normal", "uniform", "gumbel"])), "p0": "0.0", "p1": "1.0", "size": "(3, 4)", "chunks": "(2, 2)"},
           {"seed": ["4", "np.uint32(3)"], "dist": ["'normal'", "'uniform'", "'gumbel'", "'laplace'"], "p0": ["-0.0", "0", "False", "0.5"], "p1": ["1", "True", "2.0"], "size": ["(4, 3)"], "chunks": ["(3, 2)"]},
           make=lambda a: getattr(da.random.RandomState(a["seed"]), a["dist"])(a["p0"], a["p1"], size=a["size"], chunks=a["chunks"]), ref=None))
    add(_F("random.randomstate-discrete",
           {"seed": "3", "fn": "'randint'", "p0": "0", "p1": "10", "size": "(8,)", "chunks": "(3,)"},
           {"seed": ["4"], "fn": ["'random_integers'", "'binomial'"], "p0": ["1", "False"], "p1": ["11", "0.5"], "chunks": ["(4,)"]},
           make=lambda a: getattr(da.random.RandomState(a["seed"]), a["fn"])(a["p0"], a["p1"], size=a["size"], chunks=a["chunks"]), ref=None))
    add(_F("random.randomstate-choice",
           {"seed": "3", "a": "6", "replace": "True", "p": "None", "size": "(4,)"},
           {"seed": ["4"], "a": ["7", "R('i8',(6,),1)", "R('i8',(6,),2)"], "replace": ["False"], "p": ["[0.5, 0.1, 0.1, 0.1, 0.1, 0.1]", "[0.1, 0.5, 0.1, 0.1, 0.1, 0.1]"], "size": ["(3,)"]},
           make=lambda a: da.random.RandomState(a["seed"]).choice(a["a"], size=a["size"], replace=a["replace"], p=a["p"], chunks=(2,)), ref=None))
    add(_F("random.choice-array-population",
           {"gen": "RS(3)", "a": "A('i8',(6,),(3,),1)", "p": "None"},
           {"gen": ["RS(4)"], "a": ["A('i8',(6,),(3,),2)", "A('i8',(6,),(6,),1)"], "p": ["A('f8',(6,),(3,),0) * 0 + 1 / 6"]},  # Generator.choice: family random.generator-choice
           make=lambda a: a["gen"].choice(a["a"], size=(4,), p=a["p"], chunks=(2,)), ref=None, one_sig="random:choice-array-population-node-rebuilt"))
    add(_F("random.permutation",
           {"gen": "RS(3)", "x": "A('i8',(6,),(3,),1)"},
           {"gen": ["RS(4)", "G('PCG64', 3)", "G('MT19937', 3)"], "x": ["A('i8',(6,),(3,),2)", "A('i8',(6,),(2,),1)", "6"]},
           make=lambda a: a["gen"].permutation(a["x"] if not isinstance(a["x"], int) else da.arange(a["x"], chunks=3)), ref=None))

    # ===================================================================== from_array & friends
    add(_F("from_array",
           {"data": "R('f8',(6,4),0)", "chunks": "(3, 2)", "lock": "False", "asarray": "None", "fancy": "True", "getitem": "None", "meta": "None", "inline_array": "False", "name": "None"},
           {"data": ["R('f8',(6,4),1)", "R('i8',(6,4),0)", "R('f4',(6,4),0)", "np.asfortranarray(R('f8',(6,4),0))", "R('f8',(6,4),0) * 0.0", "R('f8',(6,4),0) * -0.0", "R('f8',(4,6),0)", "R('f8',(6,4),0).tolist()"],
            "chunks": ["(2, 2)", "((3, 3), (2, 2))", "(6, 4)", "-1", "3"], "lock": ["True"], "asarray": ["True", "False"], "fancy": ["False"], "getitem": ["f_getter_plain", "f_getter_plus"],
            "meta": ["np.empty((0, 0), dtype='f8')"], "inline_array": ["True"], "name": ["'nm'", "False"]},
           make=lambda a: da.from_array(a["data"], chunks=a["chunks"], lock=a["lock"], asarray=a["asarray"], fancy=a["fancy"], getitem=a["getitem"], meta=a["meta"], inline_array=a["inline_array"], name=a["name"]),
           ref=lambda a: np.asarray(a["data"]) + (1 if a["getitem"] is f_getter_plus else 0)))
    add(_F("from_array.then-slice-rechunk",
           {"data": "R('f8',(8,4),0)", "chunks": "(4, 2)", "getitem": "None", "sl": "slice(0, 4)", "re": "(2, 2)", "name": "None"},
           {"data": ["R('f8',(8,4),1)"], "chunks": ["(2, 2)", "(8, 4)"], "getitem": ["f_getter_plus", "f_getter_plain"], "sl": ["slice(4, 8)", "slice(1, 5)", "slice(0, 8, 2)", "[0, 1, 2, 3]"], "re": ["(4, 2)", "(2, 4)"], "name": ["'nm'"]},
           make=lambda a: da.from_array(a["data"], chunks=a["chunks"], getitem=a["getitem"], name=a["name"]).rechunk(a["re"])[a["sl"]].rechunk(a["re"]),
           ref=lambda a: (np.asarray(a["data"]) + (1 if a["getitem"] is f_getter_plus else 0))[a["sl"]]))
    add(_F("asarray-array",
           {"data": "R('f8',(6,),0)", "fn": "'asarray'", "dtype": "None", "chunks": "3"},
           {"data": ["R('i8',(6,),0)", "R('f8',(6,),0).tolist()", "tuple(R('f8',(6,),0).tolist())", "R('f8',(6,),1)"], "fn": ["'asanyarray'", "'array'"], "dtype": ["'f4'", "'f8'", "'i8'"]},
           make=lambda a: getattr(da, a["fn"])(a["data"], dtype=a["dtype"]) if a["fn"] == "array" else getattr(da, a["fn"])(a["data"], dtype=a["dtype"], chunks=a["chunks"]) if False else getattr(da, a["fn"])(a["data"], dtype=a["dtype"]),
           ref=lambda a: np.asarray(a["data"], dtype=a["dtype"])))
    add(_F("from_delayed",
           {"v": "1.0", "k": "0", "shape": "(2,)", "dtype": "'f8'", "meta": "None", "name": "None"},
           {"v": ["1", "True", "-1.0", "2.0"], "k": ["0.0", "-0.0", "1"], "dtype": ["'f4'"], "name": ["'nm'"], "meta": ["np.empty((0,), dtype='f8')"]},
           make=lambda a: _from_delayed(da, a), ref=lambda a: f_from_map(a["v"], a["k"]).astype(a["dtype"])))
    add(_F("from_map",
           {"f": "f_from_map", "values": "[1, 2, 3]", "k": "0", "dtype": "'f8'", "name": "None", "meta": "None"},
           {"f": ["f_from_map2"], "values": ["[1, 2, 4]", "(1, 2, 3)", "[1.0, 2.0, 3.0]", "[True, 2, 3]", "[3, 2, 1]"], "k": ["0.0", "-0.0", "1", "True"], "dtype": ["'f4'"], "name": ["'nm'"]},
           make=lambda a: da.from_map(a["f"], a["values"], chunks=((2,) * len(a["values"]),), dtype=a["dtype"], name=a["name"], meta=a["meta"], k=a["k"]),
           ref=lambda a: np.concatenate([a["f"](v, a["k"]) for v in a["values"]]).astype(a["dtype"])))
    add(_F("fromfunction",
           {"shape": "(4, 4)", "chunks": "(2, 2)", "dtype": "'f8'", "k": "0.0"},
           {"shape": ["(4, 5)"], "chunks": ["(4, 2)"], "dtype": ["'f4'"], "k": ["-0.0", "0", "1.0", "True", "1"]},
           make=lambda a: da.fromfunction(f_fromfunction, chunks=a["chunks"], shape=a["shape"], dtype=a["dtype"], k=a["k"]),
           ref=lambda a: np.fromfunction(f_fromfunction, a["shape"], dtype=a["dtype"], k=a["k"]).astype(a["dtype"])))

    # ===================================================================== creation
    add(_F("full",
           lambda rng: {"fn": "'full'", "shape": "(4, 3)", "fill": rng.choice(ZEROS[:2] + ONES[:3]), "dtype": rng.choice(["None", "'f8'"]), "chunks": "(2, 2)", "name": "None"},
           lambda rng, b: {"fill": LITS, "shape": ["(3, 4)", "[4, 3]", "(4, 3, 1)"], "dtype": ["None", "'f8'", "'f4'", "'i8'", "bool", "float"], "chunks": ["(4, 3)", "((2, 2), (2, 1))", "2"], "name": ["'nm'"]},
           make=lambda a: da.full(a["shape"], a["fill"], dtype=a["dtype"], chunks=a["chunks"], name=a["name"]),
           ref=lambda a: np.full(a["shape"], a["fill"], dtype=a["dtype"])))
    add(_F("ones-zeros-empty",
           {"fn": "'ones'", "shape": "(4, 3)", "dtype": "'f8'", "chunks": "(2, 2)", "name": "None"},
           {"fn": ["'zeros'"], "shape": ["(3, 4)", "[4, 3]", "(4, 3, 1)", "12"], "dtype": ["'f4'", "'i8'", "bool", "float", "None"], "chunks": ["(4, 3)", "2"], "name": ["'nm'"]},
           make=lambda a: getattr(da, a["fn"])(a["shape"], dtype=a["dtype"], chunks=a["chunks"], name=a["name"]) if a["dtype"] is not None else getattr(da, a["fn"])(a["shape"], chunks=a["chunks"], name=a["name"]),
           ref=lambda a: getattr(np, a["fn"])(a["shape"], dtype=a["dtype"] or float)))
    add(_F("like",
           {"x": "A('f8',(4,3),(2,2))", "fn": "'full_like'", "fill": "0.0", "dtype": "None", "chunks": "None", "shape": "None"},
           {"x": ["A('i8',(4,3),(2,2))", "A('f8',(4,3),(4,3))"], "fn": ["'zeros_like'", "'ones_like'"], "fill": LITS, "dtype": ["'f4'", "'i8'"], "chunks": ["(4, 3)"], "shape": ["(3, 4)"]},
           make=lambda a: da.full_like(a["x"], a["fill"], dtype=a["dtype"], chunks=a["chunks"], shape=a["shape"]) if a["fn"] == "full_like" else getattr(da, a["fn"])(a["x"], dtype=a["dtype"], chunks=a["chunks"], shape=a["shape"]),
           ref=lambda a: np.full_like(a["x"], a["fill"], dtype=a["dtype"], shape=a["shape"]) if a["fn"] == "full_like" else getattr(np, a["fn"])(a["x"], dtype=a["dtype"], shape=a["shape"])))
    add(_F("arange",
           {"start": "0", "stop": "6", "step": "1", "chunks": "3", "dtype": "None"},
           {"start": ["1", "0.0", "-0.0", "False"], "stop": ["7", "6.0"], "step": ["2", "1.0", "True", "0.5"], "chunks": ["2", "(3, 3)", "6"], "dtype": ["'f8'", "'i4'", "'i8'", "'f4'"]},
           make=lambda a: da.arange(a["start"], a["stop"], a["step"], chunks=a["chunks"], dtype=a["dtype"]),
           ref=lambda a: np.arange(a["start"], a["stop"], a["step"], dtype=a["dtype"])))
    add(_F("linspace",
           {"start": "0", "stop": "1", "num": "6", "endpoint": "True", "chunks": "3", "dtype": "None"},
           {"start": ["0.0", "-0.0", "False", "0.5"], "stop": ["1.0", "True", "2"], "num": ["7"], "endpoint": ["False"], "chunks": ["2", "6"], "dtype": ["'f4'", "'f8'", "'i8'"]},
           make=lambda a: da.linspace(a["start"], a["stop"], a["num"], endpoint=a["endpoint"], chunks=a["chunks"], dtype=a["dtype"]),
           ref=lambda a: np.linspace(a["start"], a["stop"], a["num"], endpoint=a["endpoint"], dtype=a["dtype"]), exact=False))
    add(_F("eye-tri",
           {"fn": "'eye'", "N": "4", "M": "None", "k": "0", "dtype": "float", "chunks": "2"},
           {"fn": ["'tri'"], "N": ["5"], "M": ["4", "5", "3"], "k": ["1", "-1", "False", "True"], "dtype": ["'f4'", "int", "bool", "'f8'"], "chunks": ["4", "3"]},
           make=lambda a: da.eye(a["N"], chunks=a["chunks"], M=a["M"], k=a["k"], dtype=a["dtype"]) if a["fn"] == "eye" else da.tri(a["N"], M=a["M"], k=a["k"], dtype=a["dtype"], chunks=a["chunks"]),
           ref=lambda a: np.eye(a["N"], M=a["M"], k=a["k"], dtype=a["dtype"]) if a["fn"] == "eye" else np.tri(a["N"], M=a["M"], k=a["k"], dtype=a["dtype"])))
    add(_F("diag-diagonal",
           {"x": "A('f8',(4,4),(2,2))", "fn": "'diag'", "k": "0", "axis1": "0", "axis2": "1"},
           {"x": ["A('f8',(4,),(2,))", "A('f8',(4,4),(2,2),1)", "A('f8',(4,4),(4,4))"], "fn": ["'diagonal'", "'tril'", "'triu'", "'trace'"], "k": ["1", "-1", "True"], "axis1": ["1"], "axis2": ["0"]},
           make=lambda a: _diag(da, a), ref=lambda a: _diag(np, a)))
    add(_F("indices-meshgrid",
           {"fn": "'indices'", "dims": "(3, 4)", "dtype": "int", "chunks": "(2, 2)", "sparse": "False", "indexing": "'xy'"},
           {"fn": ["'meshgrid0'", "'meshgrid1'"], "dims": ["(4, 3)", "[3, 4]"], "dtype": ["float", "'i4'"], "chunks": ["(3, 4)"], "sparse": ["True"], "indexing": ["'ij'"]},
           make=lambda a: _indices(da, a), ref=lambda a: _indices(np, a)))
    return out


def _draws(a):
    g = a["gen"]
    d = {}
    for k in "abc":
        d[k] = g.normal(0.0, 1.0, size=a["size"], chunks=a["chunks"])
    c = a["combo"]
    return d[c] if len(c) == 1 else d[c[0]] - d[c[2]]


def _from_delayed(da, a):
    import dask

    v = dask.delayed(f_from_map)(a["v"], a["k"])
    return da.from_delayed(v, shape=a["shape"], dtype=a["dtype"], meta=a["meta"], name=a["name"])


def _diag(m, a):
    fn, x = a["fn"], a["x"]
    if fn == "diag":
        return m.diag(x, a["k"])
    if x.ndim < 2:
        return m.diag(x, a["k"])
    if fn == "diagonal":
        return m.diagonal(x, offset=a["k"], axis1=a["axis1"], axis2=a["axis2"])
    if fn == "trace":
        return m.trace(x, offset=a["k"], axis1=a["axis1"], axis2=a["axis2"])
    return getattr(m, fn)(x, a["k"])


def _indices(m, a):
    fn = a["fn"]
    if fn == "indices":
        if m is np:
            return np.indices(tuple(a["dims"]), dtype=a["dtype"])
        return m.indices(a["dims"], dtype=a["dtype"], chunks=(1,) + tuple(a["chunks"]) if False else a["chunks"])
    xs = [np.arange(n, dtype=a["dtype"]) for n in a["dims"]]
    if m is not np:
        xs = [m.from_array(x, chunks=2) for x in xs]
    return m.meshgrid(*xs, sparse=a["sparse"], indexing=a["indexing"])[int(fn[-1])]


def catalogue3():
    """structure: slicing, reshaping, stacking, rechunking, overlap"""
    import dask_array as da

    out = []
    add = out.append
    add(_F("literal.nan-sign",
           # dask.tokenize normalises NaN literals; copysign reads the sign bit of the NaN
           {"x": "A('f8',(6,),(3,))", "lit": "float('nan')"}, {"lit": ["-float('nan')", "NANP(1, True)", "NANP(1)"]},
           make=lambda a: a["x"].map_blocks(np.copysign, a["lit"], dtype="f8"), ref=lambda a: np.copysign(a["x"], a["lit"]), one_sig="pairs:one-name-two-arrays:literal.nan-sign:lit"))
    IDX = ["(slice(1, 5), slice(None))", "(slice(1, 5),)", "(slice(0, 5), slice(None))", "(slice(1, 5, 2), slice(None))", "(slice(None, None, -1),)", "([1, 2],)", "([2, 1],)", "((1, 2),)", "(1, 2)", "[1, 2]",
           "(np.array([1, 2]),)", "(np.array([True, True, False, False, True, False]),)", "(A('bool',(6,4),(4,3)),)", "(A('bool',(6,4),(4,3),1),)", "(A('bool',(6,),(4,)),)", "(1,)", "(-1,)", "(None, 1)", "(1, None)", "(Ellipsis, 1)", "(slice(1, 5), 1)", "(slice(1, 5), [1])", "(slice(1, 5), slice(1, 2))",
           "([1, 2], [1, 2])", "([[1], [2]], [1, 2])", "(np.int64(1),)", "(slice(np.int64(1), 5),)", "(slice(1, 5, True),)", "(slice(1.0 == 1 and 1, 5),)"]
    add(_F("getitem",
           lambda rng: {"x": rng.choice(["A('f8',(6,4),(4,3))", "A('i8',(6,4),(2,2))"]), "idx": rng.choice(IDX)},
           lambda rng, b: {"idx": pick(rng, IDX, 12), "x": ["A('f8',(6,4),(4,3),1)", "A('f8',(6,4),(3,4))"]},
           make=lambda a: a["x"][a["idx"]], ref=lambda a: a["x"][a["idx"]]))
    add(_F("vindex-blocks",
           {"x": "A('f8',(6,4),(2,2))", "fn": "'vindex'", "idx": "([1, 2], [1, 2])"},
           {"fn": ["'blocks'", "'getitem'"], "idx": ["([2, 1], [1, 2])", "([1, 2], [2, 1])", "([1, 2], slice(None))", "(slice(None), [1, 2])", "(1, [1, 0])", "([1, 0], 1)", "([1, 0], [1])", "(0, 1)", "(slice(0, 2), 1)"]},
           make=lambda a: _vindex(a, True), ref=lambda a: _vindex(a, False)))
    add(_F("blocks",
           {"x": "A('f8',(6,4),(2,2))", "idx": "(0, 1)"},
           {"idx": ["(1, 0)", "(slice(0, 2), 1)", "([0, 1], 1)", "([1, 0], 1)", "(0,)", "(False, 1)", "(0, True)", "(slice(0, 2),)", "(-1, -1)", "(2, 1)"], "x": ["A('f8',(6,4),(3,2))", "A('f8',(6,4),(2,2),1)"]},
           make=lambda a: a["x"].blocks[a["idx"]], ref=None))
    add(_F("take-compress",
           {"x": "A('f8',(6,4),(4,3))", "fn": "'take'", "sel": "[1, 2, 3]", "axis": "0"},
           {"fn": ["'compress'", "'delete'"], "sel": ["[2, 1, 3]", "[1, 2, 0]", "np.array([1, 2, 3])", "[True, True, False, True, False, False]", "[1, 1, 0, 1, 0, 0]", "[1, 2, True]"], "axis": ["1", "-1"]},
           make=lambda a: _take(da, a), ref=lambda a: _take(np, a)))
    add(_F("setitem",
           {"x": "A('f8',(6,4),(4,3))", "idx": "(slice(1, 3),)", "value": "0.0"},
           {"idx": ["(slice(1, 4),)", "(1,)", "([1, 2],)", "(slice(None), 1)", "(A('bool',(6,4),(4,3)),)", "(A('bool',(6,4),(4,3),1),)"], "value": LITS + ["R('f8',(4,),1)"]},
           make=lambda a: _setitem(a, True), ref=lambda a: _setitem(a, False)))
    add(_F("setitem.spelling",
           # keys selecting the same elements in another order / spelling (forward vs backward slices, lists vs slices, negative vs positive
           # bounds, masks vs integer lists), values differing only in order / dtype / broadcast shape
           {"x": "A('f8',(6,4),(4,3))", "idx": "(slice(1, 5),)", "value": "R('f8',(4,4),1)"},
           {"idx": ["(slice(4, 0, -1),)", "([1, 2, 3, 4],)", "([4, 3, 2, 1],)", "(slice(-5, -1),)", "(slice(-2, -6, -1),)", "(slice(1, 5), slice(None, None, -1))", "(slice(4, 0, -1), slice(None, None, -1))",
                    "(np.array([False, True, True, True, True, False]),)", "(slice(1, 5, 1),)", "(slice(1, 5), [0, 1, 2, 3])", "(slice(1, 5), [3, 2, 1, 0])", "(np.array([1, 2, 3, 4]),)", "(np.array([4, 3, 2, 1]),)"],
            "value": ["R('f8',(4,4),1)[::-1].copy()", "R('f8',(4,4),1)[:, ::-1].copy()", "R('f8',(1,4),1)", "R('f8',(4,1),1)", "R('f8',(4,),1)", "R('i8',(4,4),1)", "R('f4',(4,4),1)", "A('f8',(4,4),(2,2),1)", "A('f8',(4,4),(2,2),1)[::-1]"]},
           make=lambda a: _setitem(a, True), ref=lambda a: _setitem(a, False)))
    add(_F("setitem.spelling-1d",
           {"x": "A('f8',(10,),(4,))", "idx": "(slice(2, 8),)", "value": "R('f8',(6,),1)"},
           {"idx": ["(slice(7, 1, -1),)", "([2, 3, 4, 5, 6, 7],)", "([7, 6, 5, 4, 3, 2],)", "(slice(-8, -2),)", "(slice(-3, -9, -1),)", "(np.array([2, 3, 4, 5, 6, 7]),)", "(np.array([False, False, True, True, True, True, True, True, False, False]),)", "(slice(3, 9),)"],
            "value": ["R('f8',(6,),1)[::-1].copy()", "R('i8',(6,),1)", "R('f8',(1,),1)", "A('f8',(6,),(3,),1)", "A('f8',(6,),(3,),1)[::-1]", "R('f8',(6,),1).tolist()"]},
           make=lambda a: _setitem(a, True), ref=lambda a: _setitem(a, False)))
    add(_F("rechunk",
           {"x": "A('f8',(8,6),(4,3))", "chunks": "(2, 3)", "threshold": "None", "block_size_limit": "None", "balance": "False", "method": "None"},
           {"chunks": ["(2, 6)", "((2, 6), (3, 3))", "((6, 2), (3, 3))", "{0: 2}", "{1: 2}", "(2, -1)", "2", "(3, 3)"], "threshold": ["1", "2"], "block_size_limit": ["64", "1e9"], "balance": ["True"], "method": ["'tasks'"],
            "x": ["A('f8',(8,6),(4,3),1)", "A('f8',(8,6),(2,3))"]},
           make=lambda a: a["x"].rechunk(a["chunks"], threshold=a["threshold"], block_size_limit=a["block_size_limit"], balance=a["balance"], method=a["method"]), ref=lambda a: a["x"]))
    add(_F("reshape",
           {"x": "A('f8',(6,4),(2,4))", "fn": "'reshape'", "shape": "(24,)", "merge_chunks": "True", "limit": "None"},
           {"fn": ["'reshape_blockwise'", "'ravel'"], "shape": ["(12, 2)", "(-1,)", "[24]", "(2, 3, 4)", "(6, 2, 2)", "(3, 2, 4)", "(6, 4)", "(6, 4, 1)", "(1, 6, 4)", "(3, 8)"], "merge_chunks": ["False"], "limit": ["32", "1e9"],
            "x": ["A('f8',(6,4),(3,4))", "A('f8',(6,4),(2,4),1)", "A('f8',(6,4),(2,2))"]},
           make=lambda a: _reshape(da, a), ref=lambda a: _reshape(np, a)))
    add(_F("broadcast_to",
           {"x": "A('f8',(1,4),(1,2))", "shape": "(3, 4)", "chunks": "None", "meta": "None"},
           {"x": ["A('f8',(4,),(2,))", "A('f8',(1,4),(1,4))", "A('f8',(1,4),(1,2),1)", "A('i8',(1,4),(1,2))"], "shape": ["(2, 4)", "(3, 1, 4)", "[3, 4]", "(1, 3, 4)"], "chunks": ["(3, 2)", "(1, 2)", "((2, 1), (2, 2))"], "meta": ["np.empty((0, 0), dtype='f8')"]},
           make=lambda a: da.broadcast_to(a["x"], a["shape"], chunks=a["chunks"], meta=a["meta"]), ref=lambda a: np.broadcast_to(a["x"], a["shape"])))
    AX = ["transpose", "swapaxes", "moveaxis", "rollaxis", "rot90", "flip", "roll", "squeeze", "expand_dims"]
    add(_F("axes",
           lambda rng: {"x": "A('f8',(3,1,4),(2,1,3))", "fn": repr(rng.choice(AX)), "p": rng.choice(["0", "1", "2"]), "q": rng.choice(["0", "1", "2"])},
           lambda rng, b: {"fn": [repr(f) for f in AX], "p": ["0", "1", "2", "-1", "True", "False"], "q": ["0", "1", "2", "-1"], "x": ["A('f8',(3,1,4),(3,1,2))", "A('f8',(3,1,4),(2,1,3),1)"]},
           make=lambda a: _axes(da, a), ref=lambda a: _axes(np, a)))
    add(_F("repeat-tile-pad",
           {"x": "A('f8',(4,3),(2,2))", "fn": "'repeat'", "n": "2", "axis": "0", "mode": "'constant'", "cv": "0.0"},
           {"fn": ["'tile'", "'pad'"], "n": ["3", "1", "True", "(1, 2)", "((1, 2), (0, 1))", "[1, 2]"], "axis": ["1", "-1", "None"], "mode": ["'edge'", "'reflect'", "'wrap'", "'linear_ramp'", "'mean'", "'maximum'", "'symmetric'", "'empty'"][:7], "cv": LITS[:10] + ["(0.0, -0.0)"]},
           make=lambda a: _rep(da, a), ref=lambda a: _rep(np, a)))
    add(_F("concatenate-stack",
           {"xs": "[A('f8',(4,3),(2,2)), A('f8',(4,3),(2,2),1)]", "fn": "'concatenate'", "axis": "0", "auc": "False"},
           {"xs": ["[A('f8',(4,3),(2,2),1), A('f8',(4,3),(2,2))]", "(A('f8',(4,3),(2,2)), A('f8',(4,3),(2,2),1))", "[A('f8',(4,3),(2,2)), A('f8',(4,3),(2,2),2)]", "[A('f8',(4,3),(2,2)), A('f8',(4,3),(4,3),1)]",
                   "[A('f8',(4,3),(2,2)), A('f8',(4,3),(2,2),1), A('f8',(4,3),(2,2))]", "[A('f8',(4,3),(2,2)), A('i8',(4,3),(2,2),1)]"],
            "fn": ["'stack'", "'vstack'", "'hstack'", "'dstack'", "'block'", "'block2'"], "axis": ["1", "-1", "2", "True", "None"], "auc": ["True"]},
           make=lambda a: _cat(da, a), ref=lambda a: _cat(np, a)))
    add(_F("insert-append-diff",
           {"x": "A('f8',(6,3),(4,2))", "fn": "'insert'", "obj": "1", "values": "0.0", "axis": "0", "n": "1"},
           {"fn": ["'append'", "'diff'", "'ediff1d'", "'gradient'"], "obj": ["2", "[1, 3]", "True", "slice(1, 3)"], "values": LITS[:10] + ["R('f8',(3,),1)"], "axis": ["1", "-1"], "n": ["2", "True", "0"]},
           make=lambda a: _ins(da, a), ref=lambda a: _ins(np, a), exact=False))
    add(_F("sliding_window_view",
           {"x": "A('f8',(8,4),(3,2))", "w": "3", "axis": "0", "auto": "True"},
           {"w": ["2", "4", "(3,)", "(2, 2)", "True + 2"], "axis": ["1", "-1", "(0,)", "(0, 1)"], "auto": ["False"], "x": ["A('f8',(8,4),(4,4))"]},
           make=lambda a: da.sliding_window_view(a["x"], a["w"], axis=a["axis"] if not (isinstance(a["w"], tuple) and len(a["w"]) == 2) else (0, 1), automatic_rechunk=a["auto"]),
           ref=lambda a: np.lib.stride_tricks.sliding_window_view(a["x"], a["w"], axis=a["axis"] if not (isinstance(a["w"], tuple) and len(a["w"]) == 2) else (0, 1))))
    add(_F("map_overlap",
           {"x": "A('f8',(8,4),(4,2))", "f": "f_overlap_sum", "depth": "1", "boundary": "'reflect'", "trim": "True", "k": "0.0", "allow_rechunk": "True"},
           {"f": ["f_overlap_sign"], "depth": ["2", "{0: 1, 1: 0}", "(1, 0)", "{0: 1}", "True", "{0: (1, 0)}"], "boundary": ["'nearest'", "'periodic'", "'none'", "0.0", "-0.0", "0", "1", "1.0", "{0: 'reflect', 1: 'periodic'}", "None"],
            "trim": ["False"], "k": ["-0.0", "0", "1", "True"], "allow_rechunk": ["False"]},
           make=lambda a: (da.map_overlap(a["f"], a["x"], depth=a["depth"], boundary=a["boundary"], trim=a["trim"], allow_rechunk=a["allow_rechunk"], dtype="f8", k=a["k"]) if a["f"] is f_overlap_sum
                           else da.map_overlap(a["f"], a["x"], depth=a["depth"], boundary=a["boundary"], trim=a["trim"], allow_rechunk=a["allow_rechunk"], dtype="f8")), ref=None))
    add(_F("overlap.overlap-trim",
           {"x": "A('f8',(8,4),(4,2))", "depth": "1", "boundary": "'reflect'", "fn": "'overlap'"},
           {"depth": ["2", "{0: 1, 1: 0}", "{0: 1, 1: 1}", "{0: (1, 0), 1: 0}"], "boundary": ["'nearest'", "'periodic'", "'none'", "0.0", "-0.0", "1", "{0: 0.0, 1: -0.0}"], "fn": ["'trim'"]},
           make=lambda a: da.overlap(a["x"], depth=a["depth"], boundary=a["boundary"]) if a["fn"] == "overlap" else da.trim_overlap(da.overlap(a["x"], depth=a["depth"], boundary=a["boundary"]), depth=a["depth"], boundary=a["boundary"]),
           ref=None))
    add(_F("coarsen",
           {"x": "A('f8',(8,6),(4,3))", "red": "np.sum", "axes": "{0: 2}", "trim_excess": "False"},
           {"red": ["np.max", "np.mean", "np.min"], "axes": ["{0: 4}", "{1: 3}", "{0: 2, 1: 3}", "{0: 2, 1: 1}", "{0: 3}"], "trim_excess": ["True"], "x": ["A('f8',(8,6),(2,3))", "A('f8',(8,6),(4,3),1)"]},
           make=lambda a: da.coarsen(a["red"], a["x"], a["axes"], trim_excess=a["trim_excess"]), ref=None))
    add(_F("shuffle",
           {"x": "A('f8',(6,4),(3,2))", "indexer": "[[0, 1, 2], [3, 4, 5]]", "axis": "0"},
           {"indexer": ["[[0, 2, 1], [3, 4, 5]]", "[[3, 4, 5], [0, 1, 2]]", "[[0, 1], [2, 3]]", "[[0, 1, 2, 3], [4, 5]]", "[[0, 1, 2]]"], "axis": ["1"], "x": ["A('f8',(6,4),(2,2))"]},
           make=lambda a: da.shuffle(a["x"], a["indexer"], a["axis"]), ref=lambda a: np.take(a["x"], [i for g in a["indexer"] for i in g], axis=a["axis"])))
    SW = ["sum", "max", "min", "mean"]
    add(_F("sliding-window.reduce",
           lambda rng: {"x": "A('f8',(10,4),(4,2))", "w": "3", "axis": "0", "fn": repr(rng.choice(SW)), "keepdims": "False"},
           {"w": ["2", "4", "True + 2", "5"], "axis": ["1"], "fn": [repr(f) for f in SW], "keepdims": ["True"], "x": ["A('f8',(10,4),(5,4))", "A('f8',(10,4),(4,2),1)", "A('f8',(10,4),(3,2))"]},
           make=lambda a: getattr(da.sliding_window_view(a["x"], a["w"], axis=a["axis"]), a["fn"])(axis=-1, keepdims=a["keepdims"]),
           ref=lambda a: getattr(np.lib.stride_tricks.sliding_window_view(a["x"], a["w"], axis=a["axis"]), a["fn"])(axis=-1, keepdims=a["keepdims"]), exact=False))
    add(_F("map_overlap.moving-window",
           {"x": "A('f8',(12,3),(4,3))", "fn": "'move_sum'", "w": "3", "min_count": "None", "axis": "0"},
           {"fn": ["'move_mean'", "'move_min'", "'move_max'", "'move_std'"], "w": ["2", "4", "5"], "min_count": ["1", "2", "True"], "x": ["A('f8',(12,3),(3,3))", "A('f8',(12,3),(4,3),1)", "A('f8',(12,3),(6,3))"]},
           make=lambda a: _moving(da, a), ref=lambda a: _moving(None, a), exact=False))
    add(_F("take.unknown-chunks",
           {"x": "A('f8',(8,),(8,))", "thr": "0", "idx": "[0, 1]", "fn": "'take'"},
           {"thr": ["1", "-1", "0.0", "False"], "idx": ["[1, 0]", "[0, 2]", "[0]", "slice(0, 2)", "np.array([0, 1])"], "fn": ["'compute_chunk_sizes'"], "x": ["A('f8',(8,),(3,))", "A('f8',(8,),(8,),1)"]},
           make=lambda a: _unknown(a, True), ref=lambda a: _unknown(a, False)))
    add(_F("histogram.delayed-range",
           {"x": "A('f8',(12,),(5,))", "bins": "4", "lo": "'min'", "hi": "'max'", "weights": "None"},
           {"bins": ["5", "3"], "lo": ["'-4'", "'-5'"], "hi": ["'6'", "'7'"], "weights": ["A('f8',(12,),(5,),1)", "A('f8',(12,),(5,),2)"], "x": ["A('f8',(12,),(5,),3)"]},
           make=lambda a: _hist_delayed(a, True), ref=lambda a: _hist_delayed(a, False), exact=False))
    return out + catalogue4()


def _moving(da, a):
    import bottleneck as bn

    f = getattr(bn, a["fn"])
    kw = {"window": a["w"], "axis": a["axis"]}
    if a["min_count"] is not None:
        kw["min_count"] = a["min_count"]
    if da is None:
        return f(a["x"], **kw)
    return da.map_overlap(f, a["x"], depth={a["axis"]: (a["w"] - 1, 0)}, boundary="none", dtype="f8", **kw)


def _unknown(a, dask_mode):
    x = a["x"]
    y = x[x > a["thr"]]
    if dask_mode and a["fn"] == "compute_chunk_sizes":
        y = y.compute_chunk_sizes()
    return y[a["idx"]]


def _hist_delayed(a, dask_mode):
    x = a["x"]
    lo = x.min() if a["lo"] == "min" else float(a["lo"])
    hi = x.max() if a["hi"] == "max" else float(a["hi"])
    if dask_mode:
        import dask_array as da

        return da.histogram(x, bins=a["bins"], range=(lo, hi), weights=a["weights"])[0]
    return np.histogram(x, bins=a["bins"], range=(lo, hi), weights=a["weights"])[0]


def _vindex(a, dask_mode):
    x, idx, fn = a["x"], a["idx"], a["fn"]
    if fn == "getitem":
        return x[idx]
    if fn == "vindex":
        return x.vindex[idx] if dask_mode else x[idx]
    if not dask_mode:
        raise _noref()
    return x.blocks[idx]


def _take(m, a):
    x, fn, sel, ax = a["x"], a["fn"], a["sel"], a["axis"]
    if fn == "take":
        return m.take(x, sel, axis=ax)
    if fn == "delete":
        return m.delete(x, sel, axis=ax)
    c = np.asarray(sel).astype(bool)[: x.shape[ax]]
    return m.compress(c, x, axis=ax)


def _setitem(a, dask_mode):
    x = a["x"]
    x = (x + 0) if dask_mode else x.copy()
    idx = a["idx"]
    x[idx if len(idx) > 1 else idx[0]] = a["value"]
    return x


def _reshape(m, a):
    fn, x = a["fn"], a["x"]
    if fn == "ravel":
        return m.ravel(x)
    if fn == "reshape":
        if m is np:
            return np.reshape(x, a["shape"])
        return m.reshape(x, a["shape"], merge_chunks=a["merge_chunks"], limit=a["limit"])
    if m is np:
        raise _noref()
    return m.reshape_blockwise(x, tuple(a["shape"]))


def _axes(m, a):
    fn, x, p, q = a["fn"], a["x"], a["p"], a["q"]
    if fn == "transpose":
        ax = [0, 1, 2]
        ax[int(p)], ax[int(q)] = ax[int(q)], ax[int(p)]
        return m.transpose(x, tuple(ax))
    if fn == "swapaxes":
        return m.swapaxes(x, p, q)
    if fn == "moveaxis":
        return m.moveaxis(x, p, q)
    if fn == "rollaxis":
        return m.rollaxis(x, int(p) % 3, int(q) % 3)
    if fn == "rot90":
        return m.rot90(x, k=int(p), axes=(0, 2) if int(q) % 2 else (2, 0))
    if fn == "flip":
        return m.flip(x, p)
    if fn == "roll":
        return m.roll(x, p, q)
    if fn == "squeeze":
        return m.squeeze(x, axis=1 if int(p) % 2 else None)
    return m.expand_dims(x, p)


def _rep(m, a):
    fn, x, n = a["fn"], a["x"], a["n"]
    if fn == "repeat":
        return m.repeat(x, n, axis=a["axis"])
    if fn == "tile":
        return m.tile(x, n)
    kw = {"constant_values": a["cv"]} if a["mode"] == "constant" else {}
    return m.pad(x, n, mode=a["mode"], **kw)


def _cat(m, a):
    fn, xs, ax = a["fn"], a["xs"], a["axis"]
    if fn == "concatenate":
        if m is np:
            return np.concatenate(xs, axis=ax)
        return m.concatenate(xs, axis=ax, allow_unknown_chunksizes=a["auc"])
    if fn == "stack":
        return m.stack(xs, axis=ax)
    if fn == "block":
        return m.block(list(xs))
    if fn == "block2":
        return m.block([[x] for x in xs])
    return getattr(m, fn)(tuple(xs))


def _ins(m, a):
    fn, x = a["fn"], a["x"]
    if fn == "insert":
        return m.insert(x, a["obj"], a["values"], axis=a["axis"])
    if fn == "append":
        v = np.zeros((1, 3)) + a["values"] if a["axis"] in (0,) else np.zeros((6, 1)) + np.mean(a["values"])
        return m.append(x, v, axis=a["axis"])
    if fn == "diff":
        return m.diff(x, n=int(a["n"]), axis=a["axis"])
    if fn == "ediff1d":
        return m.ediff1d(x[:, 0], to_end=a["values"] if np.ndim(a["values"]) == 0 else None)
    return m.gradient(x, float(a["n"]) + 1.0, axis=a["axis"])


def f_along(v, k=0.0):
    return np.array([v.sum() + k, v.max()])


def f_gu_outer(x, y):
    return x[..., :, None] * y[..., None, :]


def catalogue4():
    """routines, histogramming, linalg, fft, gufuncs"""
    import dask_array as da

    out = []
    add = out.append
    add(_F("histogram",
           {"x": "A('f8',(12,),(5,))", "bins": "4", "range": "(-4, 6)", "weights": "None", "density": "False"},
           {"bins": ["5", "[-4, 0, 3, 6]", "[-4, 0, 2, 6]", "np.array([-4.0, 0.0, 3.0, 6.0])", "A('f8',(4,),(4,)) * 0 + np.array([-4.0, 0.0, 3.0, 6.0])"], "range": ["(-4, 7)", "[-4, 6]", "(-4.0, 6.0)", "(-5, 6)"],
            "weights": ["A('f8',(12,),(5,),1)", "A('f8',(12,),(5,),2)", "A('i8',(12,),(5,),1)"], "density": ["True"], "x": ["A('f8',(12,),(5,),3)", "A('f8',(12,),(4,))"]},
           make=lambda a: da.histogram(a["x"], bins=a["bins"], range=a["range"] if np.ndim(a["bins"]) == 0 else None, weights=a["weights"], density=a["density"])[0],
           ref=lambda a: np.histogram(a["x"], bins=a["bins"], range=a["range"] if np.ndim(a["bins"]) == 0 else None, weights=a["weights"], density=a["density"])[0], exact=False))
    add(_F("histogram2d-dd",
           {"x": "A('f8',(12,),(5,))", "y": "A('f8',(12,),(5,),1)", "fn": "'histogram2d'", "bins": "3", "range": "((-4, 6), (-4, 6))", "weights": "None", "density": "False"},
           {"y": ["A('f8',(12,),(5,),2)"], "fn": ["'histogramdd'"], "bins": ["4", "(3, 4)", "[3, 3]"], "range": ["((-4, 7), (-4, 6))", "((-4, 6), (-4, 7))"], "weights": ["A('f8',(12,),(5,),1)", "A('f8',(12,),(5,),2)"], "density": ["True"]},
           make=lambda a: (da.histogram2d(a["x"], a["y"], bins=a["bins"], range=a["range"], weights=a["weights"], density=a["density"])[0] if a["fn"] == "histogram2d"
                           else da.histogramdd((a["x"], a["y"]), bins=a["bins"], range=a["range"], weights=a["weights"], density=a["density"])[0]),
           ref=lambda a: (np.histogram2d(a["x"], a["y"], bins=a["bins"], range=a["range"], weights=a["weights"], density=a["density"])[0] if a["fn"] == "histogram2d"
                          else np.histogramdd((a["x"], a["y"]), bins=a["bins"], range=a["range"], weights=a["weights"], density=a["density"])[0]), exact=False))
    add(_F("bincount",
           {"x": "A('u1',(12,),(5,))", "weights": "None", "minlength": "0", "split_every": "None"},
           {"x": ["A('u1',(12,),(5,),1)", "A('u1',(12,),(4,))"], "weights": ["A('f8',(12,),(5,),1)", "A('f8',(12,),(5,),2)", "A('i8',(12,),(5,),1)"], "minlength": ["12", "11", "True", "20"], "split_every": ["2"]},
           make=lambda a: da.bincount(a["x"], weights=a["weights"], minlength=a["minlength"], split_every=a["split_every"]),
           ref=lambda a: np.bincount(a["x"], weights=a["weights"], minlength=int(a["minlength"])), exact=False))
    add(_F("unique",
           {"x": "A('i8',(12,),(5,))", "which": "0", "ri": "False", "rv": "False", "rc": "False"},
           {"x": ["A('i8',(12,),(5,),1)", "A('i8',(12,),(4,))"], "which": ["1"], "ri": ["True"], "rv": ["True"], "rc": ["True"]},
           make=lambda a: _unique(da, a), ref=lambda a: _unique(np, a)))
    add(_F("isin-searchsorted-digitize",
           {"x": "A('i8',(12,),(5,))", "fn": "'isin'", "t": "[0, 1, 5]", "flag": "False", "flag2": "False"},
           {"fn": ["'searchsorted'", "'digitize'"], "t": ["[0, 1, 6]", "(0, 1, 5)", "[0.0, 1.0, 5.0]", "np.array([0, 1, 5])", "[-1, 1, 5]", "[0, 1, 5, 5]"], "flag": ["True", "1"], "flag2": ["True"], "x": ["A('i8',(12,),(5,),1)"]},
           make=lambda a: _isin(da, a), ref=lambda a: _isin(np, a)))
    add(_F("percentile-quantile-median",
           {"x": "A('f8',(12,),(5,))", "fn": "'percentile'", "q": "50", "method": "'linear'", "im": "'default'"},
           {"fn": ["'nanpercentile'", "'median'", "'quantile'", "'nanmedian'"], "q": ["25", "[50]", "[25, 75]", "50.0", "(50,)"], "method": ["'lower'", "'higher'", "'nearest'", "'midpoint'"], "im": ["'dask'", "'tdigest'"][:1], "x": ["A('f8',(12,),(5,),1)"]},
           make=lambda a: _pct(da, a), ref=None, exact=False))
    add(_F("einsum-tensordot",
           {"x": "A('f8',(4,6),(2,3))", "y": "A('f8',(6,4),(3,2),1)", "fn": "'einsum'", "sub": "'ij,jk->ik'", "dtype": "None", "optimize": "False", "split_every": "None"},
           {"fn": ["'tensordot'", "'dot'", "'matmul'"], "sub": ["'ij,jk->ki'", "'ij,jk->i'", "'ij,jk'", "'ij,ji->ij'", "'ij,ji->'", "'ij,jk->ijk'"], "dtype": ["'f4'", "'f8'"], "optimize": ["True", "'greedy'"], "split_every": ["2"],
            "y": ["A('f8',(6,4),(3,2),2)", "A('f8',(6,4),(2,2),1)"]},
           make=lambda a: _einsum(da, a), ref=lambda a: _einsum(np, a), exact=False))
    add(_F("tensordot-axes",
           {"x": "A('f8',(4,6),(2,3))", "y": "A('f8',(6,4),(3,2),1)", "axes": "1", "fn": "'tensordot'"},
           {"axes": ["2 - 1", "((1,), (0,))", "([1], [0])", "((0,), (1,))", "((1, 0), (0, 1))", "((0, 1), (1, 0))", "0", "True"], "fn": ["'vdot'", "'outer'"]},
           make=lambda a: _tdot(da, a), ref=lambda a: _tdot(np, a), exact=False))
    add(_F("select-choose-piecewise",
           {"x": "A('f8',(8,),(3,))", "fn": "'select'", "default": "0", "v": "1.0"},
           {"fn": ["'choose'", "'piecewise'"], "default": ["0.0", "-0.0", "False", "1", "np.float32(0)"], "v": ["1", "True", "-1.0", "2.0", "np.float32(1)"], "x": ["A('f8',(8,),(3,),1)"]},
           make=lambda a: _select(da, a), ref=lambda a: _select(np, a)))
    add(_F("double-outputs",
           {"x": "A('f8',(8,),(3,))", "fn": "'frexp'", "which": "0"},
           {"fn": ["'modf'", "'divmod'"], "which": ["1", "True", "-1"], "x": ["A('f8',(8,),(3,),1)", "A('f8',(8,),(4,))"]},
           make=lambda a: _double(da, a), ref=lambda a: _double(np, a)))
    add(_F("apply_along_axis",
           {"x": "A('f8',(4,6),(2,3))", "axis": "0", "k": "0.0", "dtype": "'f8'", "shape": "(2,)"},
           {"axis": ["1", "-1", "False"], "k": ["-0.0", "0", "1.0", "True", "1"], "dtype": ["None"], "shape": ["None"], "x": ["A('f8',(4,6),(2,3),1)", "A('f8',(4,6),(4,3))"]},
           make=lambda a: da.apply_along_axis(f_along, a["axis"], a["x"], dtype=a["dtype"], shape=a["shape"], k=a["k"]), ref=lambda a: np.apply_along_axis(f_along, a["axis"], a["x"], k=a["k"])))
    add(_F("apply_gufunc",
           {"x": "A('f8',(4,6),(2,6))", "sig": "'(i)->()'", "k": "0.0", "axis": "-1", "keepdims": "False", "vectorize": "None", "allow_rechunk": "False", "odt": "'f8'"},
           {"k": ["-0.0", "0", "1.0", "True", "1"], "axis": ["None"], "keepdims": ["True"], "vectorize": ["False"], "allow_rechunk": ["True"], "odt": ["float", "'f4'"], "x": ["A('f8',(4,6),(2,6),1)", "A('f8',(4,6),(4,6))"]},
           make=lambda a: da.apply_gufunc(f_gu_mean, a["sig"], a["x"], **({"axis": a["axis"]} if a["axis"] is not None else {}), keepdims=a["keepdims"], vectorize=a["vectorize"], allow_rechunk=a["allow_rechunk"],
                                          output_dtypes=a["odt"], k=a["k"]),
           ref=lambda a: (np.mean(a["x"], axis=-1, keepdims=a["keepdims"]) + a["k"]).astype(a["odt"])))
    add(_F("gufunc-outer",
           {"x": "A('f8',(3,4),(2,4))", "y": "A('f8',(3,2),(2,2),1)", "odt": "'f8'", "vectorize": "False"},
           {"y": ["A('f8',(3,2),(2,2),2)", "A('f8',(3,2),(3,2),1)"], "odt": ["'f4'"], "vectorize": ["True"], "x": ["A('f8',(3,4),(2,4),3)"]},
           make=lambda a: da.apply_gufunc(f_gu_outer, "(i),(j)->(i,j)", a["x"], a["y"], output_dtypes=a["odt"], vectorize=a["vectorize"]),
           ref=lambda a: f_gu_outer(a["x"], a["y"]).astype(a["odt"])))
    add(_F("cov-corrcoef",
           {"x": "A('f8',(3,8),(3,4))", "fn": "'cov'", "rowvar": "True", "bias": "False", "ddof": "None"},
           {"fn": ["'corrcoef'"], "rowvar": ["False", "1", "0"], "bias": ["True", "1"], "ddof": ["0", "1", "2", "True"], "x": ["A('f8',(3,8),(3,4),1)"]},
           make=lambda a: _cov(da, a), ref=lambda a: _cov(np, a), exact=False))
    add(_F("push-nonzero-argwhere",
           {"x": "A('f8',(8,3),(3,2))", "fn": "'push'", "n": "None", "axis": "0"},
           {"fn": ["'argwhere'", "'flatnonzero'", "'count_nonzero'", "'ptp'"], "n": ["1", "2", "True"], "axis": ["1", "-1"], "x": ["A('f8',(8,3),(3,2),1)"]},
           make=lambda a: _push(da, a), ref=None))
    add(_F("linalg.norm",
           {"x": "A('f8',(6,4),(3,4))", "ord": "None", "axis": "None", "keepdims": "False"},
           {"ord": ["'fro'", "2", "1", "np.inf", "-np.inf", "'nuc'", "True", "2.0", "-1", "0"], "axis": ["0", "1", "(0, 1)", "(1, 0)"], "keepdims": ["True"], "x": ["A('f8',(6,4),(3,4),1)", "A('f8',(6,4),(6,4))"]},
           make=lambda a: da.linalg.norm(a["x"], ord=a["ord"], axis=a["axis"], keepdims=a["keepdims"]), ref=lambda a: np.linalg.norm(a["x"], ord=a["ord"], axis=a["axis"], keepdims=a["keepdims"]), exact=False))
    add(_F("linalg.factor",
           {"x": "A('f8',(8,4),(4,4))", "fn": "'qr'", "which": "0"},
           {"fn": ["'tsqr'", "'sfqr'", "'svd'", "'svd_compressed'"][:3] + ["'lstsq'"], "which": ["1", "-1", "True"], "x": ["A('f8',(8,4),(4,4),1)", "A('f8',(8,4),(2,4))", "A('f8',(8,4),(8,4))"]},
           make=lambda a: _factor(da, a), ref=None, exact=False))
    add(_F("linalg.square",
           {"x": "A('f8',(4,4),(2,2))", "fn": "'lu'", "which": "0", "lower": "False"},
           {"fn": ["'cholesky'", "'solve_triangular'", "'solve'", "'inv'"], "which": ["1", "2"], "lower": ["True", "1"], "x": ["A('f8',(4,4),(2,2),1)", "A('f8',(4,4),(4,4))"]},
           make=lambda a: _square(da, a), ref=None, exact=False))
    add(_F("fft",
           {"x": "A('f8',(4,8),(2,8))", "fn": "'fft'", "n": "None", "axis": "-1", "norm": "None"},
           {"fn": ["'ifft'", "'rfft'", "'hfft'", "'fftshift'", "'ifftshift'"], "n": ["8", "6", "10", "8.0 == 8 and 8"], "axis": ["1", "0"], "norm": ["'ortho'", "'forward'", "'backward'"], "x": ["A('f8',(4,8),(2,8),1)", "A('f8',(4,8),(4,8))", "A('c16',(4,8),(2,8))"]},
           make=lambda a: _fft(da, a), ref=lambda a: _fft(np, a), exact=False))
    add(_F("fft.freq",
           {"fn": "'fftfreq'", "n": "8", "d": "1.0", "chunks": "4"},
           {"fn": ["'rfftfreq'"], "n": ["9", "7"], "d": ["1", "True", "2.0", "0.5"], "chunks": ["8", "2"]},
           make=lambda a: getattr(da.fft, a["fn"])(a["n"], d=a["d"], chunks=a["chunks"]), ref=lambda a: getattr(np.fft, a["fn"])(a["n"], d=a["d"]), exact=False))
    return out


def _unique(m, a):
    r = m.unique(a["x"], return_index=a["ri"], return_inverse=a["rv"], return_counts=a["rc"])
    if isinstance(r, tuple):
        return r[min(a["which"], len(r) - 1)]
    return r


def _isin(m, a):
    fn, x, t = a["fn"], a["x"], a["t"]
    if fn == "isin":
        return m.isin(x, t, assume_unique=bool(a["flag2"]) and len(set(np.asarray(t).tolist())) == len(np.asarray(t)), invert=a["flag"])
    ts = np.sort(np.asarray(t))
    if fn == "digitize":
        return m.digitize(x, ts, right=a["flag"])
    if m is np:
        return np.searchsorted(ts, x, side="right" if a["flag"] else "left")
    return m.searchsorted(m.from_array(ts, chunks=2), x, side="right" if a["flag"] else "left")


def _pct(da, a):
    fn, x = a["fn"], a["x"]
    if fn in ("percentile", "nanpercentile"):
        kw = {"method": a["method"], "internal_method": a["im"]} if fn == "percentile" else {"method": a["method"]}
        return getattr(da, fn)(x, a["q"], **kw)
    x2 = x.reshape((3, 4)).rechunk((3, 2))
    if fn in ("median", "nanmedian"):
        return getattr(da, fn)(x2, axis=0)
    return da.quantile(x2, np.asarray(a["q"]) / 100.0, axis=0, method=a["method"])


def _einsum(m, a):
    fn, x, y = a["fn"], a["x"], a["y"]
    if fn == "einsum":
        kw = {}
        if a["dtype"] is not None:
            kw["dtype"] = a["dtype"]
        if m is not np and a["split_every"] is not None:
            kw["split_every"] = a["split_every"]
        return m.einsum(a["sub"], x, y, optimize=a["optimize"], **kw)
    if fn == "tensordot":
        return m.tensordot(x, y, axes=1)
    return getattr(m, fn)(x, y)


def _tdot(m, a):
    fn, x, y = a["fn"], a["x"], a["y"]
    if fn == "tensordot":
        return m.tensordot(x, y, axes=a["axes"])
    if fn == "vdot":
        return m.vdot(x.ravel() if m is np else x.reshape(24), y.ravel() if m is np else y.reshape(24))
    return m.outer(x[0], y[:, 0])


def _select(m, a):
    fn, x, v, d = a["fn"], a["x"], a["v"], a["default"]
    if fn == "select":
        return m.select([x < 0, x > 3], [x * v, x + v], default=d)
    if fn == "choose":
        idx = (x > 0).astype("i8")
        return m.choose(idx, [x * v, x + d])
    return m.piecewise(x, [x < 0, x >= 0], [v, d])


def _double(m, a):
    fn, x, w = a["fn"], a["x"], int(a["which"])
    if fn == "divmod":
        return m.divmod(x, 3.0)[w]
    return getattr(m, fn)(x)[w]


def _cov(m, a):
    x = a["x"]
    if a["fn"] == "corrcoef":
        return m.corrcoef(x, rowvar=a["rowvar"])
    return m.cov(x, rowvar=a["rowvar"], bias=a["bias"], ddof=a["ddof"])


def _push(da, a):
    fn, x = a["fn"], a["x"]
    if fn == "push":
        y = da.where(x > 0, x, np.nan)
        return da.push(y, a["n"], a["axis"])
    if fn in ("count_nonzero", "ptp"):
        return getattr(da, fn)(x, axis=a["axis"])
    return getattr(da, fn)(x)


def _factor(da, a):
    fn, x, w = a["fn"], a["x"], int(a["which"])
    if fn == "qr":
        return da.linalg.qr(x)[w]
    if fn == "tsqr":
        return da.linalg.tsqr(x)[w]
    if fn == "sfqr":
        return da.linalg.sfqr(x.T.rechunk((4, 4)))[w]
    if fn == "svd":
        return da.linalg.svd(x)[w]
    return da.linalg.lstsq(x, x[:, 0])[w]


def _square(da, a):
    fn, x, w = a["fn"], a["x"], int(a["which"])
    spd = x @ x.T + 20 * da.eye(4, chunks=x.chunks[0][0])
    if fn == "lu":
        return da.linalg.lu(spd)[w]
    if fn == "cholesky":
        return da.linalg.cholesky(spd, lower=bool(a["lower"]))
    if fn == "solve_triangular":
        t = da.tril(spd) if a["lower"] else da.triu(spd)
        return da.linalg.solve_triangular(t, x, lower=a["lower"])
    if fn == "solve":
        return da.linalg.solve(spd, x)
    return da.linalg.inv(spd)


def _fft(m, a):
    fn, x = a["fn"], a["x"]
    if fn in ("fftshift", "ifftshift"):
        return getattr(m.fft, fn)(x, axes=a["axis"])
    kw = {} if (a["norm"] is None or m is not np and False) else {"norm": a["norm"]}
    return getattr(m.fft, fn)(x, n=a["n"], axis=a["axis"], **kw)
