"""Seeded generators shared by the property checks."""
from __future__ import annotations

import itertools


def compositions(n, zeros=False, maxparts=None):
    """All chunkings of an axis of length n (ordered compositions). With zeros=True,
    zero-length chunks are allowed (bounded by maxparts)."""
    if not zeros:
        if n == 0:
            yield (0,)
            return
        for mask in range(1 << (n - 1)):
            parts = []
            cur = 1
            for i in range(n - 1):
                if mask >> i & 1:
                    parts.append(cur)
                    cur = 1
                else:
                    cur += 1
            parts.append(cur)
            yield tuple(parts)
    else:
        maxparts = maxparts or (n + 2)
        for L in range(1, maxparts + 1):
            for c in itertools.product(range(0, n + 1), repeat=L):
                if sum(c) == n:
                    yield c


def rand_chunks(rng, n, zeros=0.0, maxparts=None):
    """Random chunking of n; `zeros` is the probability of inserting zero-length chunks."""
    if n == 0:
        return (0,)
    parts = []
    left = n
    style = rng.random()
    if style < 0.3:
        c = rng.randint(1, max(1, n))
        while left > 0:
            parts.append(min(c, left))
            left -= parts[-1]
    else:
        while left > 0:
            c = rng.randint(1, max(1, min(left, rng.choice([1, 2, 3, 5, 8, left]))))
            parts.append(c)
            left -= c
    if maxparts and len(parts) > maxparts:
        head = parts[: maxparts - 1]
        parts = head + [n - sum(head)]
    if zeros and rng.random() < zeros:
        for _ in range(rng.randint(1, 2)):
            parts.insert(rng.randint(0, len(parts)), 0)
    return tuple(parts)


def slice_values(n):
    return [None] + list(range(-n - 2, n + 3))


def rand_slice(rng, n, steps=(None, 1, 2, 3, 5, -1, -2, -3, -7)):
    def v():
        r = rng.random()
        if r < 0.2:
            return None
        if r < 0.9:
            return rng.randint(-n - 2, n + 2)
        return rng.choice([-3 * n - 5, 3 * n + 5, 10**9, -(10**9)])

    return slice(v(), v(), rng.choice(steps))


def rand_shape(rng, maxrank=3, maxdim=7, allow_zero=True):
    r = rng.randint(1, maxrank)
    lo = 0 if allow_zero and rng.random() < 0.15 else 1
    return tuple(rng.randint(lo, maxdim) for _ in range(r))
