"""Classification of program-level failures into stable signatures (used for known-findings
matching, see known_findings.json).  A signature is a decidable predicate on the canonical
failing case (program + outcome), narrow enough that a different violation is still reported."""
from __future__ import annotations

import numpy as np

from harness import programs as P


def _has(prog, op):
    return any(s["op"] == op for s in prog)


def _minmax_on_empty(prog):
    try:
        env = P.run_np(prog)
    except Exception:
        return False
    for s in prog:
        if s["op"] == "reduce" and s["fn"] in ("max", "min") and env[s["args"][0]].size == 0:
            return True
    return False


def _minmax_on_empty_misbehaves(prog):
    """the min/max step over a zero-size array itself (computed alone, unoptimized) raises or has another shape than
    NumPy's: whatever a consumer of it raises afterwards is the listed min/max defect"""
    import warnings

    import dask

    try:
        npenv = P.run_np(prog)
    except Exception:
        return False
    for k, s in enumerate(prog):
        if s["op"] == "reduce" and s["fn"] in ("max", "min") and npenv[s["args"][0]].size == 0:
            try:
                with warnings.catch_warnings():
                    warnings.simplefilter("ignore")
                    with dask.config.set({"array.optimize-graph": False}):
                        got = np.asarray(P.run_da(prog, upto=k + 1)[s["out"]].compute(scheduler="sync"))
                if got.shape != npenv[s["out"]].shape:
                    return True
            except Exception:  # noqa: BLE001
                return True
    return False


def _take_on_broadcast(prog):
    tags = {}
    for s in prog:
        t = set()
        for a in s.get("args", []):
            t |= tags.get(a, set())
        if s["op"] == "broadcast_to":
            t.add("bcast")
        tags[s["out"]] = t
        if s["op"] == "getitem" and any(isinstance(i, list) and i and i[0] == "l" for i in s["index"]) and "bcast" in tags.get(s["args"][0], ()):
            return True
    return False


def _nested_swv(prog):
    """some swv_reduce has another swv_reduce among its ancestors"""
    anc = {}
    for s in prog:
        a = set()
        for x in s.get("args", []):
            a |= anc.get(x, set())
        if s["op"] == "swv_reduce":
            if "swv" in a:
                return True
            a = a | {"swv"}
        anc[s["out"]] = a
    return False


def _eye_offset_with_short_rows(prog):
    """a da.eye step with an off-diagonal offset whose row chunk is not the chunk size the diagonal test assumes: Eye._layer
    places the k-diagonal with the FIRST ROW chunk as the common block size of both axes, which is wrong when the rows fit in
    one chunk shorter than the column chunks (N < chunk size <= M): the listed finding `eye:offset:first-row-chunk-shorter`"""
    from dask_array._core_utils import normalize_chunks

    for s in prog:
        if s.get("op") == "creation" and s.get("fn") == "eye" and s.get("k"):
            try:
                n, m = s["shape"]
                v, h = normalize_chunks(s["chunks"], shape=(n, m), dtype=np.dtype(s.get("dtype") or float))
            except Exception:  # noqa: BLE001
                continue
            if v and h and v[0] != h[0]:
                return True
    return False


def _zero_width_on_broadcast_axis(msg):
    import re

    return ("Chunks do not add up to same value" in msg or "Chunks do not add up to shape" in msg) and re.search(r"\((?:1, 0|0, 1)\)", msg) is not None


def classify(prog, outcome):
    """outcome: ("exc", exception) or ("value", description).  Returns a signature string;
    known classes get their listed signature, anything else a generic one."""
    kind, info = outcome
    msg = repr(info) if kind == "exc" else str(info)
    if _has(prog, "swv_reduce") and (
        "Missing dependency ('sliding-window" in msg
        or "adjust_chunks specified with" in msg
        or "optimization changed the block structure" in msg
        or "cannot reshape array of size" in msg
    ):
        return "swv-layout-drift"
    if _nested_swv(prog) and kind == "value":
        return "swv-nested-wrong-values"
    if kind == "exc" and _zero_width_on_broadcast_axis(msg):
        return "broadcast-axis-zero-width-chunk"
    if _take_on_broadcast(prog) and ("Chunks do not add up to" in msg or kind == "value"):
        return "take-through-broadcast"
    if _minmax_on_empty(prog) and ("zero-size array to reduction" in msg or kind == "value"):
        return "minmax-zero-size"
    if kind == "exc" and _minmax_on_empty(prog) and _minmax_on_empty_misbehaves(prog):
        return "minmax-zero-size"
    if kind == "value" and _eye_offset_with_short_rows(prog):
        return "eye:offset:first-row-chunk-shorter"
    if kind == "exc":
        return "raises:" + type(info).__name__
    return "value-mismatch"


def is_refusal(exc):
    """Documented refusals at construction time (not failures)."""
    return isinstance(exc, NotImplementedError)
