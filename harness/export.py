"""Export REAL dask_array expression objects to `ex` program tokens of the Lean model
(lean/DaskArrayModel/Drv/Expr.lean), and the model-correspondence section shared by the C02 / C08
checks (driver family `ru`, lean/DaskArrayModel/Drv/Rules.lean).

`Exporter(sources).export(expr)` returns one program token or None when something below `expr` is
outside the mini-language.  `sources` = [(ndarray, mul, off, mod)]: the NumPy arrays behind the
program's `from_array` calls with the formula that generates them (`programs.source_data`).  A
`FromArray` over a COPY of a sub-region of a source (what `FromArray._accept_slice` produces for small
NumPy sources) or with a deferred `_region` is exported as `slice` of the full source (the model keeps a
region as the node `slice (src …) region`), located by content.

Nothing here can raise an alarm by itself except `ru.equiv before after = 0` on a fired rewrite whose
two sides both export (a model / implementation disagreement, handled by core.finish).  Coverage
(`ru.accepts`) and the measure comparison are evidence only: a refactor that emits a different but
equivalent product degrades coverage, never the verdict.
"""
from __future__ import annotations

import itertools
import operator
from numbers import Integral

import numpy as np

BIG = 1 << 40


def _fl(l):
    l = [int(v) for v in l]
    return "_" if not l else ",".join(str(v) for v in l)


def _fll(ll):
    ll = list(ll)
    return "-" if not ll else "/".join(_fl(l) for l in ll)


def _opt(v):
    return "N" if v is None else str(int(v))


class Inexpressible(Exception):
    pass


def _op_name(op):
    """canonical name of an elementwise operator (operator.* / numpy ufunc)"""
    table = {
        operator.add: "add", operator.sub: "sub", operator.mul: "mul", operator.neg: "neg", operator.abs: "abs",
        operator.mod: "mod", operator.gt: "gt",
        np.add: "add", np.subtract: "sub", np.multiply: "mul", np.negative: "neg", np.absolute: "abs",
        np.mod: "mod", np.remainder: "mod", np.maximum: "maximum", np.greater: "gt", np.where: "where",
    }
    try:
        if op in table:
            return table[op]
    except TypeError:
        pass
    nm = getattr(op, "__name__", "")
    return {"add": "add", "subtract": "sub", "sub": "sub", "multiply": "mul", "mul": "mul", "negative": "neg", "neg": "neg",
            "absolute": "abs", "abs": "abs", "mod": "mod", "remainder": "mod", "maximum": "maximum", "greater": "gt", "gt": "gt",
            "where": "where"}.get(nm)


_RED_NAMES = {"sum": "sum", "max": "max", "min": "min", "amax": "max", "amin": "min",
              "chunk_max": "max", "chunk_min": "min"}


class Exporter:
    def __init__(self, sources):
        self.sources = [(np.asarray(a), int(m), int(o), int(md)) for a, m, o, md in sources]
        self.steps = []
        self.memo = {}

    # ------------------------------------------------------------------ public
    def export(self, expr):
        """program token for `expr`, or None"""
        self.steps = []
        self.memo = {}
        self.reason = None
        try:
            self._node(expr)
        except Inexpressible as e:
            self.reason = str(e)
            return None
        except Exception as e:  # an unexpected object layout is "inexpressible", never an alarm
            self.reason = "unexpected: " + repr(e)[:120]
            return None
        return ";".join(self.steps)

    # ------------------------------------------------------------------ helpers
    def _emit(self, s):
        self.steps.append(s)
        return len(self.steps) - 1

    def _int_dtype(self, e):
        dt = getattr(e, "dtype", None)
        if dt is None or np.dtype(dt).kind not in "iu":
            raise Inexpressible(f"dtype {dt}")

    def _const(self, v):
        v = int(v)
        if v < 0 or v >= BIG:
            raise Inexpressible("scalar out of range")
        return self._emit(f"src~_~-~0~{v}~{BIG}")

    def _locate(self, arr):
        """(source, offsets) such that source[offsets : offsets + arr.shape] == arr"""
        for S, mul, off, md in self.sources:
            if S.ndim != arr.ndim or S.dtype.kind not in "iu":
                continue
            if S.shape == arr.shape and np.array_equal(S, arr):
                return (S, mul, off, md), (0,) * S.ndim
        for S, mul, off, md in self.sources:
            if S.ndim != arr.ndim or any(a > s for a, s in zip(arr.shape, S.shape)):
                continue
            ranges = [range(s - a + 1) for a, s in zip(arr.shape, S.shape)]
            n = 1
            for r in ranges:
                n *= len(r)
            if n > 20000:
                continue
            for offs in itertools.product(*ranges):
                sl = tuple(slice(o, o + a) for o, a in zip(offs, arr.shape))
                if np.array_equal(S[sl], arr):
                    return (S, mul, off, md), offs
        raise Inexpressible("source not found")

    def _rechunk_to(self, k, have, want):
        if tuple(map(tuple, have)) == tuple(map(tuple, want)):
            return k
        return self._emit(f"rechunk~{k}~{_fll(want)}")

    # ------------------------------------------------------------------ nodes
    def _node(self, e):
        key = getattr(e, "_name", None)
        if key is not None and key in self.memo:
            return self.memo[key]
        k = self._node_inner(e)
        if key is not None:
            self.memo[key] = k
        return k

    def _node_inner(self, e):
        cls = type(e).__name__
        mro = {c.__name__ for c in type(e).__mro__}
        if any(isinstance(c, float) and np.isnan(c) for dim in e.chunks for c in dim):
            raise Inexpressible("unknown chunks")
        if cls == "FromArray":
            return self._from_array(e)
        self._int_dtype(e)
        if cls == "Elemwise":
            return self._elemwise(e)
        if cls == "SliceSlicesIntegers":
            k = self._node(e.array)
            items = []
            for i in e.index:
                if i is None:
                    raise Inexpressible("newaxis")
                if isinstance(i, slice):
                    items.append(f"{_opt(i.start)}:{_opt(i.stop)}:{_opt(i.step)}")
                elif isinstance(i, (Integral, np.integer)):
                    items.append(str(int(i)))
                else:
                    raise Inexpressible("fancy index")
            return self._emit(f"slice~{k}~{'|'.join(items) if items else '_'}")
        if cls == "Transpose":
            k = self._node(e.array)
            return self._emit(f"transpose~{k}~{_fl(e.axes)}")
        if "Rechunk" in mro and cls in ("Rechunk", "TasksRechunk"):
            k = self._node(e.array)
            return self._emit(f"rechunk~{k}~{_fll(e.chunks)}")
        if cls == "Concatenate":
            ks = [self._node(a) for a in e.args]
            return self._emit(f"concat~{int(e.axis)}~{_fl(ks)}")
        if cls == "Stack":
            ks = [self._node(a) for a in e.args]
            ids = [self._emit(f"expand~{k}~{int(e.axis)}") for k in ks]
            return self._emit(f"concat~{int(e.axis)}~{_fl(ids)}")
        if cls == "ExpandDims":
            k = self._node(e.array)
            for ax in sorted(int(a) for a in e.axes):
                k = self._emit(f"expand~{k}~{ax}")
            return k
        if cls == "Squeeze":
            k = self._node(e.array)
            for ax in sorted(e._axis_set, reverse=True):
                k = self._emit(f"squeeze~{k}~{int(ax)}")
            return k
        if cls == "BroadcastTo":
            k = self._node(e.array)
            return self._emit(f"broadcast~{k}~{_fl(e._shape)}~{_fll(e._chunks)}")
        if cls in ("Sum", "Max", "Min"):
            if e.operand("weights") is not None:
                raise Inexpressible("weights")
            if np.dtype(e.array.dtype).kind not in "iu":
                raise Inexpressible("dtype")
            k = self._node(e.array)
            axes = sorted(int(a) for a in e.axis)
            if not axes:
                raise Inexpressible("no axis")
            return self._emit(f"reduce~{cls.lower()}~{k}~{_fl(axes)}~{1 if e.keepdims else 0}~N")
        if cls == "PartialReduce":
            return self._partial_reduce(e)
        if cls == "CumReduction":
            if getattr(e.func, "__name__", "") != "cumsum" or getattr(e.binop, "__name__", "") not in ("_cumsum_merge", "add"):
                raise Inexpressible("cumulative function")
            k = self._node(e.array)
            return self._emit(f"cumsum~{k}~{int(e.axis)}")
        raise Inexpressible(cls)

    def _from_array(self, e):
        arr = e.array
        if type(arr) is not np.ndarray or arr.dtype.kind not in "iu":
            raise Inexpressible("source type")
        (S, mul, off, md), offs = self._locate(arr)
        region = e.operand("_region")
        lo, hi = [], []
        for ax, (o, a) in enumerate(zip(offs, arr.shape)):
            if region is None:
                s0, s1 = 0, a
            else:
                s0, s1, st = region[ax].indices(a)
                if st != 1:
                    raise Inexpressible("stepped region")
                s1 = max(s0, s1)
            lo.append(o + s0)
            hi.append(o + s1)
        chunks = [list(map(int, c)) for c in e.chunks]
        if any(sum(c) != h - l for c, l, h in zip(chunks, lo, hi)):
            raise Inexpressible("chunks do not cover the region")
        if all(l == 0 and h == n for l, h, n in zip(lo, hi, S.shape)):
            return self._emit(f"src~{_fl(S.shape)}~{_fll(chunks)}~{mul}~{off}~{md}")
        full = []
        for c, l, h, n in zip(chunks, lo, hi, S.shape):
            full.append(([l] if l else []) + list(c) + ([n - h] if n - h else []))
        k = self._emit(f"src~{_fl(S.shape)}~{_fll(full)}~{mul}~{off}~{md}")
        items = "|".join(f"{l}:{h}:N" for l, h in zip(lo, hi))
        return self._emit(f"slice~{k}~{items if items else '_'}")

    def _elemwise(self, e):
        from dask_array._core_utils import is_scalar_for_elemwise

        if e.where is not True or e.out is not None:
            raise Inexpressible("where/out")
        name = _op_name(e.op)
        args = list(e.elemwise_args)
        if name is None:
            raise Inexpressible("op")
        target_shape = tuple(e.shape)
        target_chunks = tuple(e.chunks)

        def arr(a):
            """export an array operand, rechunked to the node's (unified) chunks on the axes it shares"""
            self._int_dtype(a)
            k = self._node(a)
            nd = len(target_shape)
            want = []
            for j, (d, c) in enumerate(zip(a.shape, a.chunks)):
                t = nd - a.ndim + j
                want.append(tuple(target_chunks[t]) if d == target_shape[t] else tuple(c))
            return self._rechunk_to(k, a.chunks, want)

        def is_scalar(a):
            return is_scalar_for_elemwise(a) and not hasattr(a, "_name")

        def scalar(a):
            v = np.asarray(a)
            if v.ndim != 0 or v.dtype.kind not in "iub":
                raise Inexpressible("scalar")
            return int(v)

        if name in ("neg", "abs") and len(args) == 1 and not is_scalar(args[0]):
            return self._emit(f"map~{name}~{arr(args[0])}")
        if name == "mod" and len(args) == 2 and not is_scalar(args[0]) and is_scalar(args[1]) and scalar(args[1]) == 7:
            return self._emit(f"map~mod7~{arr(args[0])}")
        if name in ("add", "sub", "mul", "maximum") and len(args) == 2:
            a, b = args
            if is_scalar(a) and is_scalar(b):
                raise Inexpressible("two scalars")
            if is_scalar(b):
                v = scalar(b)
                if v < 0 and name in ("add", "sub"):
                    name, v = ("sub" if name == "add" else "add"), -v
                return self._emit(f"zip~{name}~{arr(a)}~{self._const(v)}")
            if is_scalar(a):
                return self._emit(f"zip~{name}~{self._const(scalar(a))}~{arr(b)}")
            return self._emit(f"zip~{name}~{arr(a)}~{arr(b)}")
        if name == "where" and len(args) == 3:
            c, a, b = args
            if type(c).__name__ == "Elemwise" and _op_name(c.op) == "gt" and c.where is True:
                ca, cb = c.elemwise_args
                if getattr(ca, "_name", 0) == getattr(a, "_name", 1) and getattr(cb, "_name", 0) == getattr(b, "_name", 1):
                    return self._emit(f"zip~where_gt~{arr(a)}~{arr(b)}")
        raise Inexpressible("elemwise " + str(name))

    def _partial_reduce(self, e):
        """PartialReduce(… PartialReduce(Blockwise(chunk, x))) = the reduction of x over the axes"""
        top = e
        node = e
        axes = None
        fn = None
        while type(node).__name__ == "PartialReduce":
            nm = (node.operand("name") or "")
            f = nm.split("-")[0]
            f = _RED_NAMES.get(f)
            if f is None:
                raise Inexpressible("partial reduce " + nm)
            if fn is not None and f != fn:
                raise Inexpressible("mixed reduce")
            fn = f
            ax = tuple(sorted(int(a) for a in node.split_every))
            if axes is not None and ax != axes:
                raise Inexpressible("axes differ")
            axes = ax
            if node is not top and not node.keepdims:
                raise Inexpressible("inner keepdims")
            node = node.array
        if type(node).__name__ != "Blockwise":
            raise Inexpressible("partial reduce over " + type(node).__name__)
        kw = dict(node.kwargs or {})
        f = _RED_NAMES.get(getattr(getattr(node.func, "func", node.func), "__name__", ""))
        kax = kw.get("axis")
        kax = tuple(sorted(int(a) for a in (kax if isinstance(kax, (tuple, list)) else (kax,))))
        if f != fn or kax != axes or not kw.get("keepdims", False):
            raise Inexpressible("chunk step")
        arrs = [a for a, ind in zip(node.args[0::2], node.args[1::2]) if ind is not None]
        if len(arrs) != 1 or tuple(node.args[1]) != tuple(node.out_ind):
            raise Inexpressible("chunk operands")
        x = arrs[0]
        if np.dtype(x.dtype).kind not in "iu":
            raise Inexpressible("dtype")
        k = self._node(x)
        return self._emit(f"reduce~{fn}~{k}~{_fl(axes)}~{1 if top.keepdims else 0}~N")


# ======================================================================================
# model correspondence for traced rewrites (used by harness/props/C02.py and C08.py)
# ======================================================================================

SLICE_PARENT = "SliceSlicesIntegers"

# candidate model-rule sequences for a real rule, keyed by (rule, class of `before`)
_CANDS = {
    ("SliceSlicesIntegers._simplify_down", SLICE_PARENT): ["sliceSliceFuse", "sliceIdentityDrop"],
    ("FromArray._simplify_up", SLICE_PARENT): ["sliceIntoSrcKeep", "sliceSplitInts", "sliceSliceFuse"],
    ("FromArray._simplify_up", "Rechunk"): ["rechunkIntoSrc", "rechunkIntoRegion"],
    ("Elemwise._simplify_up", SLICE_PARENT): ["sliceThroughMap", "sliceThroughZip"],
    ("Elemwise._simplify_up", "Rechunk"): ["rechunkThroughMap", "rechunkThroughZip"],
    ("Transpose._simplify_up", SLICE_PARENT): ["sliceThroughTranspose", "sliceSplitInts+sliceThroughTranspose"],
    ("Transpose._simplify_up", "Rechunk"): ["rechunkThroughTranspose"],
    ("ExpandDims._simplify_up", SLICE_PARENT): ["sliceThroughExpandDims*", "sliceSplitInts+sliceThroughExpandDims*"],
    ("ExpandDims._simplify_up", "Rechunk"): ["rechunkThroughExpandDims*"],
    ("Concatenate._simplify_up", SLICE_PARENT): ["sliceThroughConcat*"],
    ("Stack._simplify_up", SLICE_PARENT): ["sliceThroughConcat*+sliceThroughExpandDims*",
                                           "sliceSplitInts+sliceThroughConcat*+sliceThroughExpandDims*"],
    ("Rechunk._simplify_up", "Rechunk"): ["rechunkRechunk"],
    ("Rechunk._simplify_down", "Rechunk"): ["rechunkNoop"],
    ("Rechunk._lower", "Rechunk"): ["rechunkNoop", "rechunkIntoSrc", "rechunkIntoRegion", "rechunkRechunk",
                                    "rechunkThroughMap", "rechunkThroughZip", "rechunkThroughTranspose",
                                    "rechunkThroughExpandDims*"],
}
for _r in ("Sum", "Max", "Min"):
    _CANDS[(f"{_r}._simplify_up", SLICE_PARENT)] = ["sliceThroughSqueeze*+sliceThroughReduce*",
                                                    "sliceSplitInts+sliceThroughSqueeze*+sliceThroughReduce*"]


def sources_of(prog):
    from harness import programs as P

    out = []
    for st in prog:
        if st["op"] == "src":
            out.append((P.source_data(st), st.get("mul", 1), st.get("off", 0), st.get("mod", 1 << 40)))
    return out


def collect(ctx, prog, recs, limit=60):
    """Export the (before, after) objects of the traced rewrites of one program; the driver is
    consulted later, in one batch (`flush`)."""
    pend = ctx.__dict__.setdefault("_ru_pending", [])
    stats = ctx.__dict__.setdefault("_ru_stats", {"inexpressible": {}, "identical": {}})
    ex = Exporter(sources_of(prog))
    seen = set()
    n = 0
    for r in recs:
        key = (r["before"]._name, r["after"]._name)
        if key in seen:
            continue
        seen.add(key)
        if n >= limit:
            break
        n += 1
        tb = ex.export(r["before"])
        ta = ex.export(r["after"]) if tb is not None else None
        if tb is None or ta is None:
            stats["inexpressible"][r["rule"]] = stats["inexpressible"].get(r["rule"], 0) + 1
            why = stats.setdefault("why", {})
            why[ex.reason] = why.get(ex.reason, 0) + 1
            continue
        if tb == ta:
            stats["identical"][r["rule"]] = stats["identical"].get(r["rule"], 0) + 1
            continue
        pend.append({"rule": r["rule"], "phase": r["phase"], "before_cls": type(r["before"]).__name__,
                     "after_cls": type(r["after"]).__name__, "tb": tb, "ta": ta, "program": prog})


def flush(ctx):
    """One driver batch for everything collected: `ru.equiv` (a 0 is a model/implementation
    disagreement), `ru.measure` and `ru.accepts` (evidence only)."""
    pend = ctx.__dict__.get("_ru_pending", [])
    stats = ctx.__dict__.setdefault("_ru_stats", {"inexpressible": {}, "identical": {}})
    ctx.__dict__["_ru_pending"] = []
    lines = []
    index = []
    for j, p in enumerate(pend):
        lines.append(f"ru.equiv {p['tb']} {p['ta']}")
        index.append((j, "equiv", None))
        lines.append(f"ru.measure {p['tb']}")
        index.append((j, "mb", None))
        lines.append(f"ru.measure {p['ta']}")
        index.append((j, "ma", None))
        for seq in _CANDS.get((p["rule"], p["before_cls"]), []):
            lines.append(f"ru.accepts {seq} {p['tb']} {p['ta']}")
            index.append((j, "acc", seq))
    outs = ctx.driver.run(lines) if lines else []
    res = [{"acc": []} for _ in pend]
    for (j, kind, seq), out in zip(index, outs):
        if kind == "acc":
            res[j]["acc"].append((seq, out))
        else:
            res[j][kind] = out
    cov = ctx.extra.setdefault("rule_instances_covered", {})
    unc = ctx.extra.setdefault("rule_instances_uncovered", {})
    by_model = ctx.extra.setdefault("model_rule_instances", {})
    meas = ctx.extra.setdefault("measure", {"decreased": {}, "not_decreased": {}})
    not_wf = ctx.extra.setdefault("rule_instances_outside_model_domain", {})
    for p, r in zip(pend, res):
        rule = p["rule"]
        eq = r.get("equiv", "")
        if not eq.startswith("ok"):
            # the pair parses on the Python side but is outside the model's domain (implicit chunk
            # unification, zero-size concat operand, max/min over zero-length chunks, …)
            not_wf[rule] = not_wf.get(rule, 0) + 1
            unc[rule] = unc.get(rule, 0) + 1
            continue
        ctx.traces += 1
        ctx.evaluations += 1
        ctx.distinct.add(("ru.equiv", rule, p["before_cls"], p["after_cls"]))
        if eq != "ok 1":
            if len(ctx.disagreements) < 200:
                ctx.disagree("ru", f"ru.equiv {p['tb']} {p['ta']}", eq, "ok 1")
                ctx.disagreements[-1]["program"] = p["program"]
                ctx.disagreements[-1]["rule"] = rule
            continue
        hit = next((seq for seq, out in r["acc"] if out == "ok 1"), None)
        if hit is not None:
            cov[rule] = cov.get(rule, 0) + 1
            by_model[hit] = by_model.get(hit, 0) + 1
            ctx.distinct.add(("ru.accepts", rule, hit))
        else:
            unc[rule] = unc.get(rule, 0) + 1
        if p["phase"] == "simplify":
            try:
                mb, ma = int(r["mb"].split()[1]), int(r["ma"].split()[1])
            except Exception:
                continue
            d = meas["decreased" if ma < mb else "not_decreased"]
            d[rule] = d.get(rule, 0) + 1
    for rule, n in stats["inexpressible"].items():
        unc[rule] = unc.get(rule, 0) + n
    ctx.extra["rule_instances_inexpressible"] = dict(stats["inexpressible"])
    ctx.extra["rule_instances_identical_export"] = dict(stats["identical"])
    stats["inexpressible"] = {}
    stats["identical"] = {}
    ctx.notes["ru.pairs_checked"] = ctx.notes.get("ru.pairs_checked", 0) + len(pend)


def model_optimize_stream(ctx, cases):
    """The model's own optimizer on whole programs: `cases` = [(prog, numpy_value)] with programs inside
    the mini-language.  The optimized tree printed by `ru.optimize` must evaluate (`ex.eval`) to the NumPy
    value of the ORIGINAL program (what `C02_optimize_sound` proves, here checking the driver's printer and
    parser around it), and optimizing it again must return it unchanged (`C08_optimize_idempotent`).
    A mismatch is a model-side disagreement (the implementation is not involved)."""
    from harness import progcheck as PC

    toks = []
    for prog, want in cases:
        shapes = None
        try:
            from harness import programs as P

            shapes = {k: v.shape for k, v in P.run_np(prog).items()}
        except Exception:
            pass
        t = PC.encode(prog, shapes)
        if t is not None and np.asarray(want).dtype.kind in "iu":
            toks.append((t, np.asarray(want)))
    if not toks:
        return
    outs = ctx.driver.run([f"ru.optimize {t}" for t, _ in toks])
    second = []
    for (t, want), o in zip(toks, outs):
        if o.startswith("ok ") and "?" not in o:
            second.append((t, want, o[3:]))
    lines = []
    for t, want, t2 in second:
        lines += [f"ex.eval {t2}", f"ru.optimize {t2}", f"ru.rules {t}"]
    outs = ctx.driver.run(lines) if lines else []
    for j, (t, want, t2) in enumerate(second):
        ev, again, fired = outs[3 * j: 3 * j + 3]
        ctx.traces += 1
        ctx.evaluations += 1
        ctx.distinct.add(("ru.optimize", fired[:60]))
        if ev.startswith("err"):
            # the printed tree is outside what the `ex` parser accepts (e.g. a zero-size concat operand)
            ctx.notes["ru.optimize_unparsed"] = ctx.notes.get("ru.optimize_unparsed", 0) + 1
            continue
        expect = "ok " + PC.f_arr(want)
        if ev != expect:
            ctx.disagree("ru.optimize", f"ex.eval {t2}   (= ru.optimize {t})", ev[:200], expect[:200])
        if again.startswith("ok ") and again[3:] != t2:
            ctx.disagree("ru.optimize", f"ru.optimize {t2}", again[:200], "ok " + t2[:200])
    ctx.notes["ru.optimize_programs"] = ctx.notes.get("ru.optimize_programs", 0) + len(second)
