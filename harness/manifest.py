"""Regenerates /verif/MANIFEST.json from the table below (python3 -m harness.manifest)."""
import json
from pathlib import Path

VERIF = Path(__file__).resolve().parents[1]

# id -> (technique, level text, level note, design_ref)
CHECKS = {}


def claim(pid, technique, text, note, ref):
    CHECKS[pid] = dict(technique=technique, text=text, note=note, ref=ref)


PENDING = {}

claim(
    "C13",
    "Lean 4 theorems over a hand-written model of the slice helpers + behavioural correspondence (model vs Python, exhaustive small domain + random) + brute-force search on the real helpers",
    "Theorems (all dims, all chunkings, all slices): normalize_slice preserves selected positions; fuse_slice / _compose_slices compose; the _slice_1d plan partitions the selection in order, new_blockdim = piece lengths. The model is tied to the code by running both on the same inputs every run.",
    "Trusted: Lean kernel (+propext, Classical.choice, Quot.sound), Py/Basic.lean transcription of CPython slice.indices/range/%/bisect (tied by correspondence), the correspondence harness. NumPy's own slicing of a block is the meaning of `sel`.",
    "DESIGN.md §4 C13, §3",
)

claim(
    "C27",
    "Lean 4 proof over a line-by-line integer model of moved_fraction / _rechunk_stage_transfer + exact behavioural correspondence + model-independent search over layout pairs and every node of raw/simplified/lowered/fused trees",
    "Proved for all layouts and ranks: moved fraction in [0,1], 0 for identical layouts and pure splits (zero-length blocks allowed); rechunk stage 0 <= min <= max for any rank; (0,0) for identical positive layouts. The other per-class transfer formulas are covered by the node search only (stated in evidence).",
    "Trusted: Lean kernel (+propext, Classical.choice, Quot.sound), Py/Basic.lean, the correspondence harness (integer numerator/total; the single float division is reproduced). Not modelled: per-class formulas other than Rechunk (search only); NaN direction checked by search.",
    "DESIGN.md §4 C27",
)


def build():
    props = [json.loads(l) for l in (VERIF / "properties.jsonl").read_text().splitlines() if l.strip()]
    checks = []
    na = []
    for p in props:
        pid = p["id"]
        if pid in CHECKS:
            c = CHECKS[pid]
            checks.append(
                {
                    "property_id": pid,
                    "quick_cmd": f"./check {pid} --tier quick",
                    "thorough_cmd": f"./check {pid} --tier thorough",
                    "evidence_file": f"/verif/evidence/{pid}.json",
                    "replay_cmd_template": f"./check {pid} --replay {{path}}",
                    "engine": "lean-model+correspondence",
                    "level_claimed": {"category": "proof", "text": c["text"], "design_ref": c["ref"]},
                    "level_note": c["note"],
                    "technique": c["technique"],
                }
            )
        else:
            na.append({"property_id": pid, "reason": PENDING.get(pid, "check not built yet in this round (planned: see DESIGN.md §4); not claimed until its theorems and correspondence exist")})
    m = {
        "version": 1,
        "setup_cmd": "cd /verif/lean && lake build",
        "hooks": {
            "guard": "DASK_ARRAY_VERIF",
            "enable": "no source hooks: all instrumentation is monkey-patched from the harness process (DESIGN.md §2.7)",
            "baseline_off_cmd": "cd /repo && /venv/bin/python -m pytest -ra -q -p no:cacheprovider --timeout=900 --continue-on-collection-errors",
            "source_commits": [],
            "add_only": True,
        },
        "engines": [
            {
                "name": "lean-model+correspondence",
                "path": "/verif/lean, /verif/harness",
                "serves_properties": sorted(CHECKS),
                "kind_free_text": "Lean 4 model + theorems (lake project), compiled line-protocol driver, Python correspondence/search harness run under /venv/bin/python against /repo",
            }
        ],
        "checks": checks,
        "not_applicable": na,
        "notes": "fix: commits in /repo: f53e1c9 (normalize_slice), 61fa7aa (_slice_1d); see known_findings.json",
    }
    (VERIF / "MANIFEST.json").write_text(json.dumps(m, indent=1) + "\n")
    return m


if __name__ == "__main__":
    m = build()
    try:
        import jsonschema

        jsonschema.validate(m, json.loads(Path("/root/.vp/MANIFEST.schema.json").read_text()))
        print("MANIFEST valid;", len(m["checks"]), "claimed,", len(m["not_applicable"]), "not claimed")
    except ImportError:
        print("written (jsonschema not available)")
