"""Regenerates /verif/MANIFEST.json from the table below (python3 -m harness.manifest)."""
import json
from pathlib import Path

VERIF = Path(__file__).resolve().parents[1]

# id -> (technique, level text, level note, design_ref)
CHECKS = {}


def claim(pid, technique, text, note, ref):
    CHECKS[pid] = dict(technique=technique, text=text, note=note, ref=ref)


PENDING = {}

claim(
    "C13",
    "Lean 4 theorems over a hand-written model of the slice helpers + behavioural correspondence (model vs Python, exhaustive small domain + random) + brute-force search on the real helpers",
    "Theorems (all dims, all chunkings, all slices): normalize_slice preserves selected positions; fuse_slice / _compose_slices compose; the _slice_1d plan partitions the selection in order, new_blockdim = piece lengths. The model is tied to the code by running both on the same inputs every run.",
    "Trusted: Lean kernel (+propext, Classical.choice, Quot.sound), Py/Basic.lean transcription of CPython slice.indices/range/%/bisect (tied by correspondence), the correspondence harness. NumPy's own slicing of a block is the meaning of `sel`.",
    "DESIGN.md §4 C13, §3",
)

claim(
    "C27",
    "Lean 4 proof over a line-by-line integer model of moved_fraction / _rechunk_stage_transfer + exact behavioural correspondence + model-independent search over layout pairs and every node of raw/simplified/lowered/fused trees",
    "Proved for all layouts and ranks: moved fraction in [0,1], 0 for identical layouts and pure splits (zero-length blocks allowed); rechunk stage 0 <= min <= max for any rank; (0,0) for identical positive layouts. The other per-class transfer formulas are covered by the node search only (stated in evidence).",
    "Trusted: Lean kernel (+propext, Classical.choice, Quot.sound), Py/Basic.lean, the correspondence harness (integer numerator/total; the single float division is reproduced). Not modelled: per-class formulas other than Rechunk (search only); NaN direction checked by search.",
    "DESIGN.md §4 C27",
)

TB = "Trusted: Lean kernel (+propext, Classical.choice, Quot.sound only, audited per theorem each run), Py/Basic.lean transcription of CPython primitives, the hand-written model tied by the correspondence harness (differential testing bounded by generator quality); NumPy kernels, dask scheduler/tokenize, floats and threads are assumptions. "

claim("C01",
  "Lean 4 refinement theorems for an n-D expression language (13 constructors + Expr2 layer + reshape planner + contraction plan; 57 theorems) + behavioural correspondence (model den/chunks/blocks vs real compute/.chunks/graph keys: ex.*, ex2.*, rsh.*, ctr.*) + program fuzz vs NumPy (optimize on/off, re-chunked variants)",
  "C01_blockDen_correct: for every well-formed expression (src, map, zip, slice with any step sign, transpose, rechunk, concat, expand_dims, squeeze, broadcast_to, reduce, cumsum, map_blocks) of any depth/rank/shape/chunking, the value each block task computes is the restriction of the NumPy meaning to that block, and the assembled result equals it. Extensions audited by the same check: derived forms roll/stack/diff/swapaxes/moveaxis/atleast_Nd (Props/C01Derived), second layer Expr2 = broadcasting elemwise, integer-list take, sliding-window reduction (Props/C01Ext), reshape planner (C01r_plan_index / C01r_compute_eq_reshape, Props/C01Reshape), matmul/tensordot/dot/einsum contraction plan with any split_every (C01c_block_correct, C01c_tree_any_fanin, Props/C01Contract). Ops outside the model (tile, clip, where=/out=, boolean masks inside programs ...) are covered by the program search only.",
  TB + "The theorem is about the model; the tie is the ex.* correspondence on generated programs (values and advertised chunks) plus per-block values in C03. Known findings: swv-layout-drift, take-through-broadcast, minmax-zero-size, slice-through-generic-blockwise.",
  "DESIGN.md §4 C01, §10")
claim("C03",
  "Lean 4 theorems (block shape of blockDen = advertised chunks; chunks sum to shape) + correspondence of model blockDen with every executed block of the real graph + search executing every output key of real graphs",
  "C03_block_shape / C03_chunks_sum for every well-formed expression of the mini-language, C03x_* for the Expr2 layer (broadcasting elemwise, take, sliding-window reduction chunks), C03r_* for reshape plans, C03c_* for the node rebuilt by the coarse (adjust_chunks) slice pushdown (Blockwise.chunks does not raise and equals the kept output chunks); every output block of the real materialized graph (optimize on and off, programs biased to layout-changing rewrites, unknown sizes by block count) is executed and its shape/dtype compared with .chunks.",
  TB + "The chunk bridge of _materialize and ChunksFreeze lowering are exercised by the search, not modelled.",
  "DESIGN.md §4 C03")
claim("C12",
  "Lean 4 proof over a model of normalize_index, the n-D _slice_1d plan of SliceSlicesIntegers, .blocks and take regrouping + behavioural correspondence (exhaustive 1-D n<=5) + end-to-end search vs NumPy",
  "24 theorems for all ranks/shapes/chunkings: Props/C12Shuffle (9): the Shuffle layer computes x[indexer] chunk by chunk for every chunking and ANY argsort satisfying IsArgsort, take raises IndexError exactly outside [-n,n) and otherwise returns [x[i] for i in index] in the advertised chunks, every per-block take stays inside its block, .vindex returns the points in order and refuses exactly out-of-bounds entries; Props/C12 (15): normalize_index preserves NumPy meaning and refuses exactly when NumPy does (basic indices); the per-axis block plan lifted to the n-D grid reads exactly the selected positions in order (axisLift, ssiLayer_eq_cells); advertised chunks/shape; .blocks selection; take regrouping preserves the index list.",
  TB + "Boolean / dask-array indexers, index-array broadcasting, the transpose/reshape after vindex and slice pushdown through Shuffle are decided by correspondence of the helpers plus the end-to-end search only. 12 known findings are listed and probed every run.",
  "DESIGN.md §4 C12")
claim("C16",
  "Lean 4 theorems over a line-by-line model of blockdims_from_blockshape / round_to / auto_chunks (no previous_chunks) / normalize_chunks with the float root as an oracle + correspondence + brute-force validator on the real normalize_chunks",
  "10 theorems for all shapes/specs/oracle values: per-axis and whole-function well-formedness, uniform layout, round_to, the auto byte limit under the checked oracle relation (_partial: the IEEE root is an oracle), fuel, merge kernel.",
  TB + "previous_chunks branch is search-only apart from its merge kernel; the literal limit is false there by design (tolerance) and for zero-size previous chunks and beyond 2^48 elements (three known findings). parse_bytes, presentation layer, NaN sizes: search only.",
  "DESIGN.md §4 C16")
claim("C17",
  "Lean 4 proof over a model of common_blockdim, coarse_blockdim and the per-index logic of unify_chunks_expr (float cost comparisons as an oracle) + correspondence in every input order + end-to-end search from clean registries",
  "15 theorems for all sizes: commonBlockdim sum/refines/splits, coarseBlockdim spec, sizeGuard_limit and C17_limit (every policy, every limit, every oracle value), refine only splits, common layout per index; Props/C17Lower: after lowering an elemwise every operand has the unified layout (length-1 axes excepted), it is the model's layout, and under refine each operand is only split.",
  TB + "Unknown (nan) sizes not modelled; auto-policy cost arithmetic only through the relation its outcome must satisfy (checked each run); values unchanged is C14's theorem, checked end-to-end here.",
  "DESIGN.md §4 C17")
claim("C18",
  "Lean 4 proof over a model of the PartialReduce tree (partition_all groups, depth, n-D layer wiring, _accept_slice_impl bookkeeping) + correspondence + NumPy-oracle search over all listed reductions",
  "33 theorems: for every chunking, fan-in k and depth with #blocks <= k^depth the cascade yields one block equal to the flat reduction for any (chunk, combine, aggregate) homomorphism; instances sum/prod/min/max/any/all, mean over Q, argmin/argmax with first-index ties; block counts; layer coverage; slices never reach reduced axes.",
  TB + "var/moment, topk, nan-variants and all float arithmetic: search only (rtol 1e-7). Depth and split_every root are oracle parameters checked by relation. Five known findings listed and probed.",
  "DESIGN.md §4 C18")
claim("C19",
  "Lean 4 proof over models of the sequential and Blelloch scan wiring, the sliding/moving window block plans, ensure_minimum_chunksize and boundary/trim chunk rules + rename-invariant layer correspondence (exhaustive n<=8, 1..40 blocks) + search vs NumPy/bottleneck definitions",
  "41 theorems for all inputs: Props/C19Gradient (14): each block of da.gradient sees exactly coords[lo-(b>0) : hi+(b<last)] and the values at those positions for every ragged chunking, the chunked gradient equals the kernel on the whole axis for every edge-local kernel (np.gradient edge_order 1 and 2 over Q belong to the class) whenever the code's own chunk guard passes, diff of order n is the n-fold first difference of prepend ++ a ++ append; both scans equal the global scan for every block count; the banded window decompositions tile exactly the window under the native guards with indices in range; output chunks; ensure_minimum_chunksize; boundary kinds equal np.pad index maps; overlap/trim chunk round trip; Props/C19Overlap (12): the chunked map_overlap pipeline (boundaries, overlap_internal, block function, trim) equals the global stencil g∘pad for every boundary kind, depth pair, window-local g and every chunking with chunks >= depth, in 1-D and n-D, hence is chunking-independent; the rechunk guard is established and necessary (decided witness).",
  TB + "new_axis/drop_axis/trim=False/several inputs of map_overlap, min_count/NaN masking, diff/gradient and floats are correspondence/search only.",
  "DESIGN.md §4 C19")
claim("C24",
  "Lean 4 theorems over a per-axis model of FromArray region logic (_accept_slice, _layer offsets, _compute_sliced_chunks, _accept_rechunk read chunks) + correspondence with the real layers + recording-source search vs NumPy",
  "10 theorems: for all axis lengths, chunkings, chains of pushed unit-step slices/ints and read chunkings the emitted per-block reads concatenate to exactly NumPy's selection and lie within [0, dim]; storage-aligned read chunks are a valid chunking of the region.",
  TB + "Per axis; the n-D statement assumes NumPy basic indexing is a per-axis product. The NumPy-source rebase branch is correspondence/search only.",
  "DESIGN.md §4 C24")
claim("C25",
  "Lean 4 theorems over the per-block write index fuse_slice(region, chunk_slice) (model shared with C13), the n-D store as a fold of block writes in any order and the npy-stack round trip + correspondence with logged __setitem__ keys of real da.store runs + sentinel-target search and npy-stack round trips",
  "10 theorems: for all target lengths, chunkings and positive-step regions the block write sets are pairwise disjoint, concatenate to sel region, place each element at its position and touch nothing outside; negative regions are refused; Props/C25StoreND (6): n-D, any order of block writes, several (source, target, region) triples: every region position gets its source value exactly once and nothing else changes (C25n_writes_partition, C25n_store_correct, C25n_order_independent, C25n_multi); to_npy_stack/from_npy_stack round trip (C25n_stack_roundtrip). C25n_refusal_partial: the exact-refusal statement is false for the code (decided witnesses) and is kept as a comment.",
  TB + "Locks, schedulers, return_stored/load_stored, compute=False and the rechunk inside to_npy_stack are correspondence/search only.",
  "DESIGN.md §4 C25")

claim("C15",
  "Lean 4 theorems over a model of the rechunk planner and crosswalk (float-derived choices as oracle parameters) + correspondence incl. whole plan_rechunk runs with recorded oracle values + brute-force validation of real plans",
  "16 theorems: crosswalk exact (all chunkings incl. zero-width); divide_to_width / merge_to_number preserve the total, bound width/count, only merge neighbours; every plan of the model is a list of chunkings of the same shape ending in new; under the checked oracle relations every step (merge/split and degree passes) has largest block <= max(limit/itemsize, largest old, largest new).",
  TB + "Termination of the while-True loop is not proved (fuel in the model, watchdog in the search). Floats are never reasoned about: oracle values are recorded from the real run and their relations checked per case.",
  "DESIGN.md §4 C15")
claim("C14",
  "Lean 4 theorems on the data-level reading of the crosswalk + correspondence (spec resolution, balance, intersect_chunks, the _compute_rechunk task graph) + NumPy/normalize_chunks search over all spec kinds, unknown sizes and rechunks inside random programs",
  "6 theorems (one axis, all chunkings incl. zero-width): assembling each new block from the crosswalk pieces yields exactly its positions; any chain of stages preserves the data; explicit spec kinds and balance=True preserve axis length. End-to-end: .chunks equals the documented resolution and values equal NumPy for 10 spec kinds x 12 graph shapes; unknown sizes allowed on unchanged axes and refused on changed ones.",
  TB + "n-D layers are products of per-axis crosswalks: compared with the model each run, proved per axis only. 'auto'/byte-limit expectations call normalize_chunks (C16). P2P rechunk unavailable offline. Pushdown rules are search-only here (C02).",
  "DESIGN.md §4 C14")
claim("C22",
  "PARTIAL: pure Rust planning kernels extracted from crates/dask-array-python/src on every run, compiled with rustc, compared three-way (Rust vs Lean model vs Python) + check that every _frisky_layer declines without the extension and the Python path serves the same graph",
  "3 theorems (one model serves Python and Rust): crosswalk exact for cum/breakpoints/intersect_1d; partition_all runs flatten to the input, non-empty and <= size. Three-way correspondence for those and searchsorted_right; two-way for the other std-only kernels.",
  TB + "dask_array._rust cannot be built offline (pyo3 missing): #[pymethods] expansion code, to_dask_graph/to_task_records/to_records_chunk encodings and the build-generation guard are NOT executed. Trusted: rustc, the generated std-only wrapper, brace-matching extraction.",
  "DESIGN.md §4 C22, §7")
claim("C06",
  "Lean 4 theorems over a free-term model of expression names and a name-keyed cache; coverage premise decided (decide +kernel) over a table generated from the source by an AST translator; tied by a run-time name->content registry, operand perturbation and graph-key merging",
  "10 theorems: if every class's semantic operands are among those its name tokenizes, equal names imply equal denotation and chunks (any depth); a name-keyed insert-if-absent cache stays sound under every history; C06_table_covers decides the premise for the 111 ArrayExpr classes of the current tree minus listed pinned-name classes.",
  TB + "tokenize is assumed collision-free (names are a free term algebra); the translator's AST approximation is validated every run by perturbation; pinned/hand-built names are covered only by the run-time registry.",
  "DESIGN.md §4 C06")
claim("C07",
  "Lean 4 theorems over a model of tokens with process-dependent operands and carried tokens (pickle round trip, getstate) + generated tables for __reduce__/__getstate__ and hidden-state reads in naming code; tied by rebuilding programs in-process and in fresh subprocesses with other hash seeds and by pickle round trips",
  "7 theorems: the rebuilt node and every node of its tree keep their names for all pairs of processes; names depend on the process only through unstable operands not shielded by a carried token; getstate drops only recomputable caches; decided on the current tree: __reduce__ carries the token, naming code reads id/uuid/random only at 13 documented sites.",
  TB + "Partial: determinism across processes is sampled (other hash seeds x programs), not proved; the site scan is an AST approximation; untokenizable sources are held to per-instance stability only.",
  "DESIGN.md §4 C07")
claim("C28",
  "Lean 4 model of the nan-size guards, ChunksOverride and per-block mask selection with theorems + exhaustive small-domain correspondence with the real helpers + NumPy-oracle search over data-dependent selections x follow-on ops before/after compute_chunk_sizes",
  "14 theorems: compute_chunk_sizes exactness for mask selections (all chunkings and masks, 1-D and per axis); parametricity of the slicing and rechunk guards in the unknown sizes; rechunk guard iff; override. The unify guard is only partial, with a refuting witness (the corresponding real defect is a listed known finding).",
  TB + "Seven selection kinds and ~50 follow-on ops are covered by search only. 8 known findings listed and probed.",
  "DESIGN.md §4 C28")
claim("C20",
  "Lean 4 model of block_info payloads, the broadcast rule and ChunksFreeze lowering with theorems + correspondence with recorded payloads and ChunksFreeze.lower_once + recording-function search with producers below and consumers above the call",
  "6 theorems: array-location extents tile each axis, chunk shape = extent lengths = advertised chunks, for all layouts and block ids; whatever layout the optimized child settles on, the lowered freeze node has exactly the frozen layout, so the delivered block has the promised shape; broadcast rule well-defined.",
  TB + "'Whatever rewrites optimization applies' rests on C20_freeze quantifying over all settled layouts plus the search under both optimize settings.",
  "DESIGN.md §4 C20")

claim("C04",
  "Lean 4 theorems lifting a per-layer contract to the merged graph of every expression DAG + the contract monitored on every real layer of generated programs (optimize on/off) + direct closure/cycle/key-grid/name checks of real merged graphs",
  "8 theorems (all DAGs): contract on every layer + node set closed under dependencies => merged graph closed; dependency-ordered DAG with owned layers => explicit topological order (acyclic); the union defines raw-name x block grid whether or not optimization renamed the root; RootAlias keeps these iff the embedded-root guard passes (witness cycle without it).",
  TB + "The contract is monitored, not proved per layer class; the acyclicity theorem needs key-disjoint layers (SetItem embeds a materialized sub-graph: those walks are covered by the closure theorem and the direct cycle check only).",
  "DESIGN.md §4 C04")
claim("C10",
  "Lean 4 theorem that any two topological orders of a closed graph of pure tasks evaluate identically (+ uniqueness of solutions of the graph equations) + instrumented execution of real graphs in seeded random/FIFO/LIFO orders with dependency and source fingerprinting, sync and threaded schedulers",
  "5 theorems (all graphs): evaluation along a topological order never needs an undefined dependency; any two topological orders give the same key->value map; any assignment satisfying the task equations equals it. The purity assumption is what the harness monitors on every task of every generated graph.",
  TB + "Partial by nature: a theorem cannot exhibit a mutation - purity/no-mutation is monitored (sha1 fingerprints); thread interleavings inside NumPy are outside the model.",
  "DESIGN.md §4 C10")
claim("C21",
  "Lean 4 model of _Flattener/_records and of the shared-seen walk with theorems + correspondence with the real _records on tasks of real layers and with the real walk + an in-process records executor compared block by block with __dask_graph__",
  "15 theorems: (all nested nodes) the flat records evaluate to the value of the nested node with only declared deps visible; -subN keys distinct; every dep names an outer key or a generated record; a shared-seen walk emits one layer per name and the union is complete given per-layer completeness; Props/C21Keys (10), at the level of key STRINGS (what a worker resolves by): _norm_key is idempotent, canonical on keys without np.str_/np.bool_ components and Python-equal to the key as written; on canonical keys str is injective and == holds iff the strings are equal (raw keys: (('x', np.int64(0)) == ('x', 0)) with different strings — decided witness); for every record the strings of the embedded key objects are exactly the declared deps (reusing a ref when == breaks this: decided witness — a seeded change); completeness at string level.",
  TB + "Native Rust layers absent: only GraphRecordsLayer and FusedBlockwiseLayer's pure-Python records are exercised; binary chunks and frisky.Future branches are untestable offline; key names restricted to [A-Za-z0-9_.-] (no repr escaping), floats / nested tuples as key components not modelled.",
  "DESIGN.md §4 C21")
claim("C05",
  "Lean 4 model of the entry points (materialize + RootAlias pin, from_graph rebuild with the three-way _find_layer_key lookup) with theorems + correspondence of the lookup on real and synthetic layers + NumPy-oracle search over 11 entry points x 2 schedulers x follow-on ops",
  "10 theorems: all entry points hand back the same blocks when the graph defines rawName x grid(chunks); persisted and optimized collections keep name, chunks, dtype, keys; the lookup's ValueError branch is characterised exactly; the pin establishes the root keys.",
  TB + "Partial by nature: covers name/key bookkeeping only; dask.base glue is search-only. dask.optimize walks the raw tree and mixed compute infers outputs from leaves on this tree: listed known findings.",
  "DESIGN.md §4 C05")
claim("C09",
  "Lean 4 model of the shared name-keyed lowering cache with oracle-quantified planner choices and histories + generated table of config reads reachable from lowering decided against a documented list + monitoring of the real _LOWER_CACHE invariant + NumPy-oracle search over histories x config points x 4 timing modes",
  "10 theorems (all systems, configurations, histories): the cache invariant is preserved by every step; materialized meaning = expression meaning for every history, construction config and run config; opt-out nodes never enter the cache; config keys readable from lowering are within the documented list.",
  TB + "Premises explicit: RuleSound (per-rule value preservation for every config value, C02) and NameInj (C06). Layouts are not claimed equal. Known on this tree: unify-policy drift between construction and materialization.",
  "DESIGN.md §4 C09")
claim("C26",
  "AST translator (import graph, name-resolved call graph, registry-write sites, entry points) -> generated Lean table; Lean 4 reachability theorems (closed-set soundness proved in general, finite checks by kernel evaluation); fresh-interpreter import-order experiment + xarray value comparison",
  "Proved over the table regenerated from the tree on every run: for every module and every chain of module-scope imports/calls (unbounded length) no code that writes xarray's chunk-manager registry is reached; the set of registering functions is complete; no xarray.chunkmanagers entry point. Tied by seeded import orders in fresh interpreters before/after register().",
  TB + "Partial: the call graph is name-resolved (calls through objects of unknown type are invisible), so the interpreter runs are the tie; the AST translator is trusted.",
  "DESIGN.md §4 C26")
claim("C29",
  "Recording sources and recording block functions over generated programs x every metadata accessor / optimize / graph build on the real code; thin Lean parametricity theorems on a small expression model; generated syntactic table of data-touching sites checked by decide",
  "Theorems: metadata is identical in all data environments and its instrumented log contains only empty reads and calls on empty/synthetic unit blocks. Table: every syntactic source subscript / asarray / user-function call in constructor, metadata and rewrite code is in an allowed class. Monitor: zero non-empty reads and zero user-function calls on data before compute.",
  TB + "Partial: the theorem is thin and excludes 0-d sources; the monitor carries the weight and is bounded by its generator. Four known findings listed.",
  "DESIGN.md §4 C29")

claim("C02",
  "Lean 4 soundness theorems for 22 rewrite rules on the expression mini-language, the block-id assignment of blockwise fusion, chunk unification at lowering, the gates of the generic Blockwise slice/take pushdown, the coarse (adjust_chunks) slice pushdown, the slice rule of map_overlap, the axis-permutation rules, slices folded into creation arrays and the slice pushdown through reductions (142 theorems) + congruence/fixpoint theorems (optimize sound for any rule sequence) + correspondence: every traced real rewrite (before/after objects exported) must be den-equal for the model (ru.equiv), instances of proved rules counted + real-code search (4 phase forms vs NumPy, fused vs lowered blocks, every fired rewrite computed on both sides, rule-directed chains, sliding-window kernel substitution)",
  "C02_rule_sound_<rule> for slice-slice fusion, identity-slice removal, slice through elemwise/transpose/expand_dims/squeeze/reductions/concatenate, rechunk no-op / rechunk-rechunk / through elemwise, transpose, expand_dims / into a source; C02_step_sound, C02_any_sequence, C02_optimize_sound and C02_optimize_compute (with C01) for every well-formed expression. Extensions audited by the same check: slice through broadcast_to, rechunk through concatenate, rechunk-slice composition (Props/C02Ext); fusion: under WF, Ordered, Accepted (model of _remove_conflicting_exprs) and ValidBlock every member gets the block id reached along every path and the fused task reads exactly what the unfused graph reads (C02_fuse_block_ids, Props/C02Fusion); chunk unification at lowering is well-formed, denotes the pointwise op and computes it (C02l_*, Props/C02Lower). the generic Blockwise slice/take pushdown is sound for label-local block functions whenever its gate fires, each gate is necessary (C02g_push_sound, C02g_gate_necessary_*, Props/C02Gate); the coarse adjust_chunks path keeps exactly the blocks meeting the slice and the rewritten node denotes the slice of the original for every block-to-block function (C02c_accept_sound, C02c_findBlockRange_spec, C02c_operand_axis_gates, Props/C02Coarse; chunks: C03c_*, Props/C03Coarse); the slice rule of map_overlap expands by the depth, trims on top and is sound for every boundary kind and window-local function, the periodic guard on the expanded slice is necessary (C02o_accept_sound[_nd,_node], C02o_periodic_guard_necessary, Props/C02Overlap). Axis permutations (Props/C02Perm, 24): transpose of transpose is the transpose by the composed permutation exactly as the code composes it (the opposite order differs: decided witness), the inverse permutation, the block-key map of the transpose layer, take through transpose uses axes[k] (inverse[k] is wrong: witness), the swapaxes / moveaxis / rollaxis builders have NumPy's meaning, the push through elemwise fires iff every array operand, where= and out= has the output rank and is sound then. Creation arrays (Props/C02Creation, 10): num_rows = len(range(...)), the blocks of arange concatenate to its values for every chunking, a slice of an integer arange is the folded arange with exactly those values and an exact stop, the float midpoint gives back the count, slices / takes of constant arrays are the constant array of the new shape with the name reset. Reductions (Props/C02ReduceSlice, 7): for every lane function, output size (topk: k), keepdims and index on which the rule fires, (reduce x)[index] = (reduce x[input_index])[final_index]; the item on a kept reduced axis is re-applied unchanged (replacing it by 0 — a seeded change — differs: decided witness); decline iff. Lowering of other node kinds is covered by the search only; block-layout-sensitive consumers over pushdown targets are searched by harness/props_ext/c02_grid.py.",
  TB + "The tie is ru.equiv on exported real rewrites; coverage and measure are evidence only. Known findings: swv-layout-drift, take-through-broadcast, slice-through-generic-blockwise.",
  "DESIGN.md §4 C02")
claim("C08",
  "optimize defined in Lean by well-founded recursion on an explicit measure (accepted only with the decrease proof for every rule) + idempotence / normal-form / WF-preservation theorems + correspondence (ru.equiv on traced rewrites, model optimizer round trip) + search (watchdog, re-optimization names, simplify/lower idempotence, optimized vs unoptimized compute)",
  "C08_rule_decreases / C08_step_decreases (17 rules), C08_optimize_normal, C08_optimize_idempotent, C08_no_new_errors, C08_optimized_computes. Partial: unmodelled rules, sharing gates and lowering are covered by the search only.",
  TB + "The real optimizer's termination argument differs for rules the model represents differently, so measure non-decrease on real instances is evidence only. Known finding: optimize-not-idempotent:FromArray._simplify_up.",
  "DESIGN.md §4 C08")

claim("C23",
  "Lean 4 theorems over a history model of the Random expression (seeds drawn at construction, stored in the node value, carried through __reduce__) + the mirrored _block_id_to_flat_index loop; tied by correspondence (flat index, grids, real seed vectors and task arguments) and a NumPy-on-first-realisation search",
  "15 theorems: along any history of computes, rewrites that reuse or substitute around the node, pickles and rebuilds every observation of the node uses the same seed vector; same seed/shape/chunks give the same seeds; the block-id to flat-index map is a bijection from the grid onto range(#blocks) for all ranks, so culling a block never shifts other blocks' seeds.",
  TB + "Covers nodes without array-valued parameters (a witness proves the statement fails otherwise: listed known finding). RandomChoice, NumPy's SeedSequence/BitGenerator streams and fusion machinery are correspondence/search only. Unseeded generators out of scope.",
  "DESIGN.md §4 C23")
claim("C11",
  "Lean 4 theorems over a collection-store machine (immutable expression values, _replace_expr drops the lowered cache) and a model of parse_assignment_indices + the per-block arithmetic of setitem_array_expr; tied by correspondence with real tasks and a random history search against NumPy mirrors with source fingerprints",
  "15 theorems: frame (an op on x leaves every other collection's meaning unchanged, for all histories) and cache invariant; chunked x[s] = v equals NumPy's assignment for all axis lengths, chunkings, slices of any sign/step and broadcast values (1-D list theorem and n-D per-axis theorem for slice and int keys); parse_assignment_indices selects the same positions (reversed when flagged).",
  TB + "The store theorems assume a sound materialize/eval (C01/C02). List, boolean and dask-array keys, higher-rank value broadcasting and the where path are search-only. Three known findings listed.",
  "DESIGN.md §4 C11")


def build():
    props = [json.loads(l) for l in (VERIF / "properties.jsonl").read_text().splitlines() if l.strip()]
    checks = []
    na = []
    for p in props:
        pid = p["id"]
        if pid in CHECKS:
            c = CHECKS[pid]
            checks.append(
                {
                    "property_id": pid,
                    "quick_cmd": f"./check {pid} --tier quick",
                    "thorough_cmd": f"./check {pid} --tier thorough",
                    "evidence_file": f"/verif/evidence/{pid}.json",
                    "replay_cmd_template": f"./check {pid} --replay {{path}}",
                    "engine": "lean-model+correspondence",
                    "level_claimed": {"category": "proof", "text": c["text"], "design_ref": c["ref"]},
                    "level_note": c["note"],
                    "technique": c["technique"],
                }
            )
        else:
            na.append({"property_id": pid, "reason": PENDING.get(pid, "check not built yet in this round (planned: see DESIGN.md §4); not claimed until its theorems and correspondence exist")})
    m = {
        "version": 1,
        "setup_cmd": "cd /verif/lean && lake build",
        "hooks": {
            "guard": "DASK_ARRAY_VERIF",
            "enable": "no source hooks: all instrumentation is monkey-patched from the harness process (DESIGN.md §2.7)",
            "baseline_off_cmd": "cd /repo && /venv/bin/python -m pytest -ra -q -p no:cacheprovider --timeout=900 --continue-on-collection-errors",
            "source_commits": [],
            "add_only": True,
        },
        "engines": [
            {
                "name": "lean-model+correspondence",
                "path": "/verif/lean, /verif/harness",
                "serves_properties": sorted(CHECKS),
                "kind_free_text": "Lean 4 model + theorems (lake project), compiled line-protocol driver, Python correspondence/search harness run under /venv/bin/python against /repo",
            }
        ],
        "checks": checks,
        "not_applicable": na,
        "notes": "fix: commits in /repo: f53e1c9 (normalize_slice), 61fa7aa (_slice_1d); see known_findings.json",
    }
    (VERIF / "MANIFEST.json").write_text(json.dumps(m, indent=1) + "\n")
    return m


if __name__ == "__main__":
    m = build()
    try:
        import jsonschema

        jsonschema.validate(m, json.loads(Path("/root/.vp/MANIFEST.schema.json").read_text()))
        print("MANIFEST valid;", len(m["checks"]), "claimed,", len(m["not_applicable"]), "not claimed")
    except ImportError:
        print("written (jsonschema not available)")
