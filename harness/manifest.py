"""Regenerates /verif/MANIFEST.json from the table below (python3 -m harness.manifest)."""
import json
from pathlib import Path

VERIF = Path(__file__).resolve().parents[1]

# id -> (technique, level text, level note, design_ref)
CHECKS = {}


def claim(pid, technique, text, note, ref):
    CHECKS[pid] = dict(technique=technique, text=text, note=note, ref=ref)


PENDING = {}

claim(
    "C13",
    "Lean 4 theorems over a hand-written model of the slice helpers + behavioural correspondence (model vs Python, exhaustive small domain + random) + brute-force search on the real helpers",
    "Theorems (all dims, all chunkings, all slices): normalize_slice preserves selected positions; fuse_slice / _compose_slices compose; the _slice_1d plan partitions the selection in order, new_blockdim = piece lengths. The model is tied to the code by running both on the same inputs every run.",
    "Trusted: Lean kernel (+propext, Classical.choice, Quot.sound), Py/Basic.lean transcription of CPython slice.indices/range/%/bisect (tied by correspondence), the correspondence harness. NumPy's own slicing of a block is the meaning of `sel`.",
    "DESIGN.md §4 C13, §3",
)

claim(
    "C27",
    "Lean 4 proof over a line-by-line integer model of moved_fraction / _rechunk_stage_transfer + exact behavioural correspondence + model-independent search over layout pairs and every node of raw/simplified/lowered/fused trees",
    "Proved for all layouts and ranks: moved fraction in [0,1], 0 for identical layouts and pure splits (zero-length blocks allowed); rechunk stage 0 <= min <= max for any rank; (0,0) for identical positive layouts. The other per-class transfer formulas are covered by the node search only (stated in evidence).",
    "Trusted: Lean kernel (+propext, Classical.choice, Quot.sound), Py/Basic.lean, the correspondence harness (integer numerator/total; the single float division is reproduced). Not modelled: per-class formulas other than Rechunk (search only); NaN direction checked by search.",
    "DESIGN.md §4 C27",
)

TB = "Trusted: Lean kernel (+propext, Classical.choice, Quot.sound only, audited per theorem each run), Py/Basic.lean transcription of CPython primitives, the hand-written model tied by the correspondence harness (differential testing bounded by generator quality); NumPy kernels, dask scheduler/tokenize, floats and threads are assumptions. "

claim("C01",
  "Lean 4 refinement theorem for an n-D expression mini-language (13 constructors) + behavioural correspondence (model den/chunks vs real compute/.chunks) + program fuzz vs NumPy (optimize on/off, re-chunked variants)",
  "C01_blockDen_correct: for every well-formed expression (src, map, zip, slice with any step sign, transpose, rechunk, concat, expand_dims, squeeze, broadcast_to, reduce, cumsum, map_blocks) of any depth/rank/shape/chunking, the value each block task computes is the restriction of the NumPy meaning to that block, and the assembled result equals it. Ops outside the mini-language (roll/stack/diff are encoded through it; reshape, take, sliding windows, tile, clip, where...) are covered by the program search only.",
  TB + "The theorem is about the model; the tie is the ex.* correspondence on generated programs (values and advertised chunks) plus per-block values in C03. Known findings: swv-layout-drift, take-through-broadcast, minmax-zero-size, slice-through-generic-blockwise.",
  "DESIGN.md §4 C01, §10")
claim("C03",
  "Lean 4 theorems (block shape of blockDen = advertised chunks; chunks sum to shape) + correspondence of model blockDen with every executed block of the real graph + search executing every output key of real graphs",
  "C03_block_shape / C03_chunks_sum for every well-formed expression of the mini-language; every output block of the real materialized graph (optimize on and off, programs biased to layout-changing rewrites, unknown sizes by block count) is executed and its shape/dtype compared with .chunks.",
  TB + "The chunk bridge of _materialize and ChunksFreeze lowering are exercised by the search, not modelled.",
  "DESIGN.md §4 C03")
claim("C12",
  "Lean 4 proof over a model of normalize_index, the n-D _slice_1d plan of SliceSlicesIntegers, .blocks and take regrouping + behavioural correspondence (exhaustive 1-D n<=5) + end-to-end search vs NumPy",
  "15 theorems for all ranks/shapes/chunkings: normalize_index preserves NumPy meaning and refuses exactly when NumPy does (basic indices); the per-axis block plan lifted to the n-D grid reads exactly the selected positions in order (axisLift, ssiLayer_eq_cells); advertised chunks/shape; .blocks selection; take regrouping preserves the index list.",
  TB + "Integer-list/boolean/dask-array/.vindex indexing and the Shuffle gather are decided by correspondence of the helpers plus the end-to-end search only. 12 known findings are listed and probed every run.",
  "DESIGN.md §4 C12")
claim("C16",
  "Lean 4 theorems over a line-by-line model of blockdims_from_blockshape / round_to / auto_chunks (no previous_chunks) / normalize_chunks with the float root as an oracle + correspondence + brute-force validator on the real normalize_chunks",
  "10 theorems for all shapes/specs/oracle values: per-axis and whole-function well-formedness, uniform layout, round_to, the auto byte limit under the checked oracle relation (_partial: the IEEE root is an oracle), fuel, merge kernel.",
  TB + "previous_chunks branch is search-only apart from its merge kernel; the literal limit is false there by design (tolerance) and for zero-size previous chunks and beyond 2^48 elements (three known findings). parse_bytes, presentation layer, NaN sizes: search only.",
  "DESIGN.md §4 C16")
claim("C17",
  "Lean 4 proof over a model of common_blockdim, coarse_blockdim and the per-index logic of unify_chunks_expr (float cost comparisons as an oracle) + correspondence in every input order + end-to-end search from clean registries",
  "8 theorems for all sizes: commonBlockdim sum/refines/splits, coarseBlockdim spec, sizeGuard_limit and C17_limit (every policy, every limit, every oracle value), refine only splits, common layout per index.",
  TB + "Unknown (nan) sizes not modelled; auto-policy cost arithmetic only through the relation its outcome must satisfy (checked each run); values unchanged is C14's theorem, checked end-to-end here.",
  "DESIGN.md §4 C17")
claim("C18",
  "Lean 4 proof over a model of the PartialReduce tree (partition_all groups, depth, n-D layer wiring, _accept_slice_impl bookkeeping) + correspondence + NumPy-oracle search over all listed reductions",
  "33 theorems: for every chunking, fan-in k and depth with #blocks <= k^depth the cascade yields one block equal to the flat reduction for any (chunk, combine, aggregate) homomorphism; instances sum/prod/min/max/any/all, mean over Q, argmin/argmax with first-index ties; block counts; layer coverage; slices never reach reduced axes.",
  TB + "var/moment, topk, nan-variants and all float arithmetic: search only (rtol 1e-7). Depth and split_every root are oracle parameters checked by relation. Five known findings listed and probed.",
  "DESIGN.md §4 C18")
claim("C19",
  "Lean 4 proof over models of the sequential and Blelloch scan wiring, the sliding/moving window block plans, ensure_minimum_chunksize and boundary/trim chunk rules + rename-invariant layer correspondence (exhaustive n<=8, 1..40 blocks) + search vs NumPy/bottleneck definitions",
  "15 theorems for all inputs: both scans equal the global scan for every block count; the banded window decompositions tile exactly the window under the native guards with indices in range; output chunks; ensure_minimum_chunksize; boundary kinds equal np.pad index maps; overlap/trim chunk round trip.",
  TB + "Value-level overlap/trim identity (upstream ArrayOverlapLayer), min_count/NaN masking, diff/gradient and floats are correspondence/search only.",
  "DESIGN.md §4 C19")
claim("C24",
  "Lean 4 theorems over a per-axis model of FromArray region logic (_accept_slice, _layer offsets, _compute_sliced_chunks, _accept_rechunk read chunks) + correspondence with the real layers + recording-source search vs NumPy",
  "10 theorems: for all axis lengths, chunkings, chains of pushed unit-step slices/ints and read chunkings the emitted per-block reads concatenate to exactly NumPy's selection and lie within [0, dim]; storage-aligned read chunks are a valid chunking of the region.",
  TB + "Per axis; the n-D statement assumes NumPy basic indexing is a per-axis product. The NumPy-source rebase branch is correspondence/search only.",
  "DESIGN.md §4 C24")
claim("C25",
  "Lean 4 theorems over the per-block write index fuse_slice(region, chunk_slice) (model shared with C13) + correspondence with logged __setitem__ keys of real da.store runs + sentinel-target search and npy-stack round trips",
  "4 theorems: for all target lengths, chunkings and positive-step regions the block write sets are pairwise disjoint, concatenate to sel region, place each element at its position and touch nothing outside; negative regions are refused.",
  TB + "Per axis with the tuple glue proved (C25_fuseTuple_axiswise); return_stored/load_stored and the npy stack are correspondence/search only.",
  "DESIGN.md §4 C25")


def build():
    props = [json.loads(l) for l in (VERIF / "properties.jsonl").read_text().splitlines() if l.strip()]
    checks = []
    na = []
    for p in props:
        pid = p["id"]
        if pid in CHECKS:
            c = CHECKS[pid]
            checks.append(
                {
                    "property_id": pid,
                    "quick_cmd": f"./check {pid} --tier quick",
                    "thorough_cmd": f"./check {pid} --tier thorough",
                    "evidence_file": f"/verif/evidence/{pid}.json",
                    "replay_cmd_template": f"./check {pid} --replay {{path}}",
                    "engine": "lean-model+correspondence",
                    "level_claimed": {"category": "proof", "text": c["text"], "design_ref": c["ref"]},
                    "level_note": c["note"],
                    "technique": c["technique"],
                }
            )
        else:
            na.append({"property_id": pid, "reason": PENDING.get(pid, "check not built yet in this round (planned: see DESIGN.md §4); not claimed until its theorems and correspondence exist")})
    m = {
        "version": 1,
        "setup_cmd": "cd /verif/lean && lake build",
        "hooks": {
            "guard": "DASK_ARRAY_VERIF",
            "enable": "no source hooks: all instrumentation is monkey-patched from the harness process (DESIGN.md §2.7)",
            "baseline_off_cmd": "cd /repo && /venv/bin/python -m pytest -ra -q -p no:cacheprovider --timeout=900 --continue-on-collection-errors",
            "source_commits": [],
            "add_only": True,
        },
        "engines": [
            {
                "name": "lean-model+correspondence",
                "path": "/verif/lean, /verif/harness",
                "serves_properties": sorted(CHECKS),
                "kind_free_text": "Lean 4 model + theorems (lake project), compiled line-protocol driver, Python correspondence/search harness run under /venv/bin/python against /repo",
            }
        ],
        "checks": checks,
        "not_applicable": na,
        "notes": "fix: commits in /repo: f53e1c9 (normalize_slice), 61fa7aa (_slice_1d); see known_findings.json",
    }
    (VERIF / "MANIFEST.json").write_text(json.dumps(m, indent=1) + "\n")
    return m


if __name__ == "__main__":
    m = build()
    try:
        import jsonschema

        jsonschema.validate(m, json.loads(Path("/root/.vp/MANIFEST.schema.json").read_text()))
        print("MANIFEST valid;", len(m["checks"]), "claimed,", len(m["not_applicable"]), "not claimed")
    except ImportError:
        print("written (jsonschema not available)")
