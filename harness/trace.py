"""Rewrite tracing that keeps the (before, after) expression OBJECTS (the repo's own
trace_rewrites keeps only names).  Patches class attributes from the harness process only."""
from __future__ import annotations

import functools
from contextlib import contextmanager

HOOKS = {"_simplify_down": "simplify", "_simplify_up": "simplify", "_lower": "lower"}


def _classes():
    from dask_array._expr import ArrayExpr

    seen = set()
    stack = [ArrayExpr]
    while stack:
        c = stack.pop()
        if c in seen:
            continue
        seen.add(c)
        stack.extend(c.__subclasses__())
    return seen


@contextmanager
def trace_objects(limit=5000):
    records = []  # dict(phase, rule, before, after)
    patched = []

    def wrap(orig, hook, phase):
        @functools.wraps(orig)
        def wrapper(self, *args, **kwargs):
            out = orig(self, *args, **kwargs)
            if out is None:
                return out
            before = args[0] if hook == "_simplify_up" else self
            if getattr(out, "_name", None) != before._name and len(records) < limit:
                records.append({"phase": phase, "rule": f"{type(self).__name__}.{hook}", "before": before, "after": out})
            return out

        return wrapper

    for cls in _classes():
        for hook, phase in HOOKS.items():
            if hook in cls.__dict__:
                orig = cls.__dict__[hook]
                setattr(cls, hook, wrap(orig, hook, phase))
                patched.append((cls, hook, orig))
    try:
        yield records
    finally:
        for cls, hook, orig in reversed(patched):
            setattr(cls, hook, orig)


def clear_caches():
    """Forget process-wide memo state so that a program is optimized from scratch
    (used by checks that are quantified over inputs/configurations, not histories)."""
    try:
        from dask_array import _materialize

        _materialize._LOWER_CACHE.clear()
    except Exception:
        pass
    try:
        from dask._expr import SingletonExpr

        inst = getattr(SingletonExpr, "_instances", None)
        if inst is not None:
            inst.clear()
    except Exception:
        pass
