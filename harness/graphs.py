"""Graph utilities: conversion, closure/acyclicity checks, seeded random-order executor
with dependency fingerprinting (C04, C10, C21 and users of real task graphs)."""
from __future__ import annotations

import hashlib

import numpy as np


def to_tasks(dsk):
    from dask._task_spec import convert_legacy_graph

    return convert_legacy_graph(dict(dsk))


def dependencies(tasks):
    return {k: set(t.dependencies) for k, t in tasks.items()}


def check_closed_acyclic(tasks):
    """Returns (missing: list[(key, dep)], cycle: list|None)."""
    deps = dependencies(tasks)
    missing = [(k, d) for k, ds in deps.items() for d in ds if d not in tasks]
    # iterative DFS for cycles
    WHITE, GREY, BLACK = 0, 1, 2
    color = dict.fromkeys(tasks, WHITE)
    cycle = None
    for root in tasks:
        if color[root] != WHITE:
            continue
        stack = [(root, iter(deps[root]))]
        color[root] = GREY
        path = [root]
        while stack and cycle is None:
            node, it = stack[-1]
            for d in it:
                if d not in tasks:
                    continue
                if color[d] == GREY:
                    cycle = path[path.index(d):] + [d]
                    break
                if color[d] == WHITE:
                    color[d] = GREY
                    stack.append((d, iter(deps[d])))
                    path.append(d)
                    break
            else:
                color[node] = BLACK
                stack.pop()
                path.pop()
        if cycle:
            break
    return missing, cycle


def fingerprint(v):
    """Content fingerprint of a task value (arrays by bytes+shape+dtype, containers recursively)."""
    h = hashlib.sha1()

    def rec(o):
        if isinstance(o, np.ndarray):
            h.update(b"A")
            h.update(str(o.dtype).encode())
            h.update(str(o.shape).encode())
            try:
                h.update(np.ascontiguousarray(o).tobytes())
            except Exception:
                h.update(repr(o).encode())
        elif isinstance(o, np.generic):
            h.update(b"G" + str(o.dtype).encode() + o.tobytes())
        elif isinstance(o, (list, tuple)):
            h.update(b"L%d" % len(o))
            for e in o:
                rec(e)
        elif isinstance(o, dict):
            h.update(b"D%d" % len(o))
            for k in sorted(o, key=repr):
                h.update(repr(k).encode())
                rec(o[k])
        elif isinstance(o, (int, float, str, bytes, bool, type(None), complex, slice)):
            h.update(repr(o).encode())
        else:
            h.update(b"O" + type(o).__name__.encode())

    rec(v)
    return h.hexdigest()


def execute(tasks, rng=None, fingerprints=False, order="random"):
    """Execute a closed acyclic Task graph serially in a (seeded random) topological order.
    Returns (values, mutations) where mutations lists (task_key, dep_key) whose dependency
    value fingerprint changed while task_key ran."""
    deps = dependencies(tasks)
    indeg = {k: len([d for d in ds if d in tasks]) for k, ds in deps.items()}
    rdeps = {k: [] for k in tasks}
    for k, ds in deps.items():
        for d in ds:
            if d in rdeps:
                rdeps[d].append(k)
    ready = sorted((k for k, n in indeg.items() if n == 0), key=repr)
    values = {}
    mutations = []
    fps = {}
    while ready:
        if rng is not None and order == "random":
            i = rng.randrange(len(ready))
        elif order == "lifo":
            i = len(ready) - 1
        else:
            i = 0
        k = ready.pop(i)
        t = tasks[k]
        dvals = {d: values[d] for d in deps[k]}
        if fingerprints:
            before = {d: fps.get(d) or fingerprint(v) for d, v in dvals.items()}
        values[k] = t(dvals)
        if fingerprints:
            for d, v in dvals.items():
                after = fingerprint(v)
                fps[d] = after
                if after != before[d]:
                    mutations.append((k, d))
            fps[k] = fingerprint(values[k])
        for r in rdeps[k]:
            indeg[r] -= 1
            if indeg[r] == 0:
                ready.append(r)
    if len(values) != len(tasks):
        raise RuntimeError("graph has a cycle or missing dependency; executed %d of %d" % (len(values), len(tasks)))
    return values, mutations


def assemble(x, values):
    """Assemble the collection's result from executed block values using its advertised keys."""
    import dask
    from dask.core import flatten

    keys = x.__dask_keys__()

    def rec(k):
        if isinstance(k, list):
            return [rec(i) for i in k]
        return values[k]

    nested = rec(keys)
    finalize, args = x.__dask_postcompute__()
    return finalize(nested, *args)
