"""Shared program-level machinery: build/compute a DSL program on the real code, compare with
NumPy, encode programs for the Lean `ex.*` driver family, known-finding probes."""
from __future__ import annotations

import warnings

import numpy as np

from harness import classify, programs as P


def build(prog):
    """Returns (env, None) or (None, exc) for a construction-time exception."""
    try:
        with warnings.catch_warnings():
            warnings.simplefilter("ignore")
            return P.run_da(prog), None
    except Exception as e:  # noqa: BLE001
        return None, e


def compute_root(prog, optimize=True, scheduler="sync"):
    import dask

    env, exc = build(prog)
    if exc is not None:
        return None, None, exc
    x = env[prog[-1]["out"]]
    try:
        with warnings.catch_warnings():
            warnings.simplefilter("ignore")
            with dask.config.set({"array.optimize-graph": optimize}):
                return x, x.compute(scheduler=scheduler), None
    except Exception as e:  # noqa: BLE001
        return x, None, e


def same(got, want):
    got = np.asarray(got)
    return got.shape == want.shape and got.dtype.kind == want.dtype.kind and np.array_equal(got, want)


def check_values(ctx, prog, want, optimize, tag="C01"):
    """Runs prog on the real code; returns None when fine or declined, else a failure dict
    (already classified)."""
    x, got, exc = compute_root(prog, optimize)
    if exc is not None:
        if x is None and classify.is_refusal(exc):
            ctx.notes["declined_at_construction"] = ctx.notes.get("declined_at_construction", 0) + 1
            return None
        return {"sig": classify.classify(prog, ("exc", exc)), "outcome": repr(exc)[:300], "optimize": optimize}
    if not same(got, want):
        return {
            "sig": classify.classify(prog, ("value", "mismatch")),
            "outcome": f"got shape {np.asarray(got).shape} dtype {np.asarray(got).dtype}, want shape {want.shape} dtype {want.dtype}; "
            f"got {np.asarray(got).ravel()[:12].tolist()} want {want.ravel()[:12].tolist()}",
            "optimize": optimize,
        }
    # advertised metadata
    if tuple(x.shape) != want.shape and not any(np.isnan(s) for s in x.shape):
        return {"sig": "advertised-shape", "outcome": f"x.shape {x.shape} vs {want.shape}", "optimize": optimize}
    return None


# ----------------------------------------------------------------- Lean ex.* encoding

def _f_ll(ll):
    return "/".join(("_" if not l else ",".join(str(int(v)) for v in l)) for l in ll) if ll else "-"


def _f_l(l):
    return "_" if not l else ",".join(str(int(v)) for v in l)


def _f_idx(enc):
    items = []
    for i in enc:
        if i == "None":
            items.append("None")
        elif i == "...":
            return None  # ellipsis: normalise on the Python side instead
        elif isinstance(i, list) and i[0] == "s":
            items.append(":".join("N" if v is None else str(int(v)) for v in i[1:]))
        elif isinstance(i, list):
            return None
        else:
            items.append(str(int(i)))
    return "|".join(items) if items else None


def encode(prog, shapes=None):
    """Encode a DSL program as one `ex.*` program token, or None when some op is outside
    the modelled mini-language.  `shapes` (name -> shape, e.g. from the NumPy evaluation) lets
    roll/diff be expressed through slices + concat/zip, the way the implementation builds them."""
    pos = {}
    steps = []
    ndims = shapes
    for st in prog:
        op = st["op"]
        a = [pos.get(x) for x in st.get("args", [])]
        if any(v is None for v in a):
            return None
        if op == "src":
            s = f"src~{_f_l(st['shape'])}~{_f_ll(st['chunks'])}~{st.get('mul', 1)}~{st.get('off', 0)}~{st.get('mod', 1 << 40)}"
        elif op in P.UNARY:
            s = f"map~{op}~{a[0]}"
        elif op in P.BINARY:
            s = f"zip~{op}~{a[0]}~{a[1]}"
        elif op == "getitem":
            idx = _f_idx(st["index"])
            if idx is None:
                return None
            s = f"slice~{a[0]}~{idx}"
        elif op == "transpose":
            s = f"transpose~{a[0]}~{_f_l(st['axes'])}"
        elif op == "rechunk":
            s = f"rechunk~{a[0]}~{_f_ll(st['chunks'])}"
        elif op == "concatenate":
            s = f"concat~{st['axis']}~{_f_l(a)}"
        elif op == "reduce":
            ax = st["axis"]
            axs = "N" if ax is None else _f_l(ax if isinstance(ax, list) else [ax])
            se = "N" if st.get("split_every") is None else str(st["split_every"])
            s = f"reduce~{st['fn']}~{a[0]}~{axs}~{1 if st['keepdims'] else 0}~{se}"
        elif op == "flip":
            s = f"flip~{a[0]}~{st['axis']}"
        elif op == "expand_dims":
            if isinstance(st["axis"], list):
                return None
            s = f"expand~{a[0]}~{st['axis']}"
        elif op == "cumsum":
            if st.get("method", "sequential") != "sequential":
                return None
            s = f"cumsum~{a[0]}~{st['axis']}"
        elif op == "squeeze":
            s = f"squeeze~{a[0]}~{st['axis']}"
        elif op == "stack":
            # stack = concatenate of expand_dims (as the implementation does)
            ids = []
            for k in a:
                steps.append(f"expand~{k}~{st['axis']}")
                ids.append(len(steps) - 1)
            s = f"concat~{st['axis']}~{_f_l(ids)}"
        elif op == "roll" and ndims is not None:
            # exactly as dask_array.manipulation._roll.roll builds it: concatenate([x[s:], x[:s]])
            n = ndims[st["args"][0]][st["axis"]]
            nd = len(ndims[st["args"][0]])
            sh = 0 if n == 0 else (-st["shift"]) % n

            def sl(lo, hi):
                return "|".join(("N:N:N" if ax != st["axis"] else f"{'N' if lo is None else lo}:{'N' if hi is None else hi}:N") for ax in range(nd))

            steps.append(f"slice~{a[0]}~{sl(sh, None)}")
            steps.append(f"slice~{a[0]}~{sl(None, sh)}")
            s = f"concat~{st['axis']}~{len(steps) - 2},{len(steps) - 1}"
        elif op == "diff" and ndims is not None:
            nd = len(ndims[st["args"][0]])
            hi = "|".join(("N:N:N" if ax != st["axis"] else "1:N:N") for ax in range(nd))
            lo = "|".join(("N:N:N" if ax != st["axis"] else "N:-1:N") for ax in range(nd))
            steps.append(f"slice~{a[0]}~{hi}")
            steps.append(f"slice~{a[0]}~{lo}")
            s = f"zip~sub~{len(steps) - 2}~{len(steps) - 1}"
        else:
            return None
        pos[st["out"]] = len(steps)
        steps.append(s)
    return ";".join(steps)


def f_arr(a):
    a = np.asarray(a)
    return f"{_f_l(a.shape)} {_f_l(a.ravel().tolist())}"


# ----------------------------------------------------------------- known-finding probes

def probe_known(ctx, sigs):
    """Run the listed inputs of the known program-level findings; record a failure with the
    listed signature while they still fail (core prints KNOWN-FINDING for those)."""
    import dask
    import dask_array as da

    def attempt(sig, fn, want=None):
        try:
            with warnings.catch_warnings():
                warnings.simplefilter("ignore")
                got = fn()
            if want is not None and not same(got, want):
                ctx.fail(sig, {"probe": sig, "outcome": f"shape {np.asarray(got).shape} vs {want.shape}"}, "known finding still reproduces")
        except Exception as e:  # noqa: BLE001
            ctx.fail(sig, {"probe": sig, "outcome": repr(e)[:200]}, "known finding still reproduces")

    if "swv-layout-drift" in sigs:
        x = np.arange(12).reshape(3, 4)
        d = da.from_array(x, chunks=((3,), (2, 2)))
        want = np.lib.stride_tricks.sliding_window_view(x, 2, axis=0).max(-1)[:, 0:0]
        attempt("swv-layout-drift", lambda: da.sliding_window_view(d, 2, axis=0).max(axis=-1)[:, 0:0].compute(), want)
    if "take-through-broadcast" in sigs:
        x = np.ones((4, 5), dtype=np.int64)
        b = da.broadcast_to(da.from_array(x, chunks=(2, 3)), (2, 4, 5))
        want = np.broadcast_to(x, (2, 4, 5))[:, :, [-4, 1, 2, 0, -5, 4]]
        attempt("take-through-broadcast", lambda: b[:, :, [-4, 1, 2, 0, -5, 4]].compute(), want)
    if "minmax-zero-size" in sigs:
        x = np.zeros((2, 0, 2, 6), dtype=np.int64)
        d = da.from_array(x, chunks=((2,), (0,), (2,), (4, 2)))
        attempt("minmax-zero-size", lambda: d.min(axis=(0, 2), keepdims=True).compute(), x.min(axis=(0, 2), keepdims=True))
    if "slice-through-generic-blockwise" in sigs:
        x = np.arange(10)
        d = da.from_array(x, chunks=5)
        want = np.concatenate([np.cumsum(x[:5]), np.cumsum(x[5:])])[::-1]
        attempt("slice-through-generic-blockwise", lambda: d.map_blocks(lambda b: np.cumsum(b, axis=0), dtype=int)[::-1].compute(), want)
