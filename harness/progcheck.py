"""Shared program-level machinery: build/compute a DSL program on the real code, compare with
NumPy, encode programs for the Lean `ex.*` driver family, known-finding probes."""
from __future__ import annotations

import warnings

import numpy as np

from harness import classify, programs as P


def build(prog):
    """Returns (env, None) or (None, exc) for a construction-time exception."""
    try:
        with warnings.catch_warnings():
            warnings.simplefilter("ignore")
            return P.run_da(prog), None
    except Exception as e:  # noqa: BLE001
        return None, e


def compute_root(prog, optimize=True, scheduler="sync"):
    import dask

    env, exc = build(prog)
    if exc is not None:
        return None, None, exc
    x = env[prog[-1]["out"]]
    try:
        with warnings.catch_warnings():
            warnings.simplefilter("ignore")
            with dask.config.set({"array.optimize-graph": optimize}):
                return x, x.compute(scheduler=scheduler), None
    except Exception as e:  # noqa: BLE001
        return x, None, e


def same(got, want):
    got = np.asarray(got)
    return got.shape == want.shape and got.dtype.kind == want.dtype.kind and np.array_equal(got, want)


def check_values(ctx, prog, want, optimize, tag="C01"):
    """Runs prog on the real code; returns None when fine or declined, else a failure dict
    (already classified)."""
    x, got, exc = compute_root(prog, optimize)
    if exc is not None:
        if x is None and classify.is_refusal(exc):
            ctx.notes["declined_at_construction"] = ctx.notes.get("declined_at_construction", 0) + 1
            return None
        return {"sig": classify.classify(prog, ("exc", exc)), "outcome": repr(exc)[:300], "optimize": optimize}
    if not same(got, want):
        return {
            "sig": classify.classify(prog, ("value", "mismatch")),
            "outcome": f"got shape {np.asarray(got).shape} dtype {np.asarray(got).dtype}, want shape {want.shape} dtype {want.dtype}; "
            f"got {np.asarray(got).ravel()[:12].tolist()} want {want.ravel()[:12].tolist()}",
            "optimize": optimize,
        }
    # advertised metadata
    if tuple(x.shape) != want.shape and not any(np.isnan(s) for s in x.shape):
        return {"sig": "advertised-shape", "outcome": f"x.shape {x.shape} vs {want.shape}", "optimize": optimize}
    return None


# ----------------------------------------------------------------- Lean ex.* encoding

def _f_ll(ll):
    return "/".join(("_" if not l else ",".join(str(int(v)) for v in l)) for l in ll) if ll else "-"


def _f_l(l):
    return "_" if not l else ",".join(str(int(v)) for v in l)


def _f_idx(enc):
    items = []
    for i in enc:
        if i == "None":
            items.append("None")
        elif i == "...":
            return None  # ellipsis: normalise on the Python side instead
        elif isinstance(i, list) and i[0] == "s":
            items.append(":".join("N" if v is None else str(int(v)) for v in i[1:]))
        elif isinstance(i, list):
            return None
        else:
            items.append(str(int(i)))
    return "|".join(items) if items else None


def encode(prog, shapes=None):
    """Encode a DSL program as one `ex.*` program token, or None when some op is outside
    the modelled mini-language.  `shapes` (name -> shape, e.g. from the NumPy evaluation) lets
    roll/diff be expressed through slices + concat/zip, the way the implementation builds them."""
    pos = {}
    steps = []
    ndims = shapes
    for st in prog:
        op = st["op"]
        a = [pos.get(x) for x in st.get("args", [])]
        if any(v is None for v in a):
            return None
        if op == "src":
            s = f"src~{_f_l(st['shape'])}~{_f_ll(st['chunks'])}~{st.get('mul', 1)}~{st.get('off', 0)}~{st.get('mod', 1 << 40)}"
        elif op in P.UNARY:
            s = f"map~{op}~{a[0]}"
        elif op in P.BINARY:
            s = f"zip~{op}~{a[0]}~{a[1]}"
        elif op == "getitem":
            idx = _f_idx(st["index"])
            if idx is None:
                return None
            s = f"slice~{a[0]}~{idx}"
        elif op == "transpose":
            s = f"transpose~{a[0]}~{_f_l(st['axes'])}"
        elif op == "rechunk":
            s = f"rechunk~{a[0]}~{_f_ll(st['chunks'])}"
        elif op == "concatenate":
            s = f"concat~{st['axis']}~{_f_l(a)}"
        elif op == "reduce":
            ax = st["axis"]
            axs = "N" if ax is None else _f_l(sorted(ax) if isinstance(ax, list) else [ax])
            se = "N" if st.get("split_every") is None else str(st["split_every"])
            s = f"reduce~{st['fn']}~{a[0]}~{axs}~{1 if st['keepdims'] else 0}~{se}"
        elif op == "flip":
            s = f"flip~{a[0]}~{st['axis']}"
        elif op == "expand_dims":
            if isinstance(st["axis"], list):
                return None
            s = f"expand~{a[0]}~{st['axis']}"
        elif op == "cumsum":
            if st.get("method", "sequential") != "sequential":
                return None
            s = f"cumsum~{a[0]}~{st['axis']}"
        elif op == "squeeze":
            s = f"squeeze~{a[0]}~{st['axis']}"
        elif op == "stack":
            # stack = concatenate of expand_dims (as the implementation does)
            ids = []
            for k in a:
                steps.append(f"expand~{k}~{st['axis']}")
                ids.append(len(steps) - 1)
            s = f"concat~{st['axis']}~{_f_l(ids)}"
        elif op == "roll" and ndims is not None:
            # exactly as dask_array.manipulation._roll.roll builds it: concatenate([x[s:], x[:s]])
            n = ndims[st["args"][0]][st["axis"]]
            nd = len(ndims[st["args"][0]])
            sh = 0 if n == 0 else (-st["shift"]) % n

            def sl(lo, hi):
                return "|".join(("N:N:N" if ax != st["axis"] else f"{'N' if lo is None else lo}:{'N' if hi is None else hi}:N") for ax in range(nd))

            steps.append(f"slice~{a[0]}~{sl(sh, None)}")
            steps.append(f"slice~{a[0]}~{sl(None, sh)}")
            s = f"concat~{st['axis']}~{len(steps) - 2},{len(steps) - 1}"
        elif op == "diff" and ndims is not None:
            nd = len(ndims[st["args"][0]])
            hi = "|".join(("N:N:N" if ax != st["axis"] else "1:N:N") for ax in range(nd))
            lo = "|".join(("N:N:N" if ax != st["axis"] else "N:-1:N") for ax in range(nd))
            steps.append(f"slice~{a[0]}~{hi}")
            steps.append(f"slice~{a[0]}~{lo}")
            s = f"zip~sub~{len(steps) - 2}~{len(steps) - 1}"
        else:
            return None
        pos[st["out"]] = len(steps)
        steps.append(s)
    return ";".join(steps)


def f_arr(a):
    a = np.asarray(a)
    return f"{_f_l(a.shape)} {_f_l(a.ravel().tolist())}"


# ----------------------------------------------------------------- known-finding probes

def probe_known(ctx, sigs):
    """Run the listed inputs of the known program-level findings; record a failure with the
    listed signature while they still fail (core prints KNOWN-FINDING for those)."""
    import dask
    import dask_array as da

    def attempt(sig, fn, want=None):
        try:
            with warnings.catch_warnings():
                warnings.simplefilter("ignore")
                got = fn()
            if want is not None and not same(got, want):
                ctx.fail(sig, {"probe": sig, "outcome": f"shape {np.asarray(got).shape} vs {want.shape}"}, "known finding still reproduces")
        except Exception as e:  # noqa: BLE001
            ctx.fail(sig, {"probe": sig, "outcome": repr(e)[:200]}, "known finding still reproduces")

    if "swv-layout-drift" in sigs:
        x = np.arange(12).reshape(3, 4)
        d = da.from_array(x, chunks=((3,), (2, 2)))
        want = np.lib.stride_tricks.sliding_window_view(x, 2, axis=0).max(-1)[:, 0:0]
        attempt("swv-layout-drift", lambda: da.sliding_window_view(d, 2, axis=0).max(axis=-1)[:, 0:0].compute(), want)
    if "take-through-broadcast" in sigs:
        x = np.ones((4, 5), dtype=np.int64)
        b = da.broadcast_to(da.from_array(x, chunks=(2, 3)), (2, 4, 5))
        want = np.broadcast_to(x, (2, 4, 5))[:, :, [-4, 1, 2, 0, -5, 4]]
        attempt("take-through-broadcast", lambda: b[:, :, [-4, 1, 2, 0, -5, 4]].compute(), want)
    if "minmax-zero-size" in sigs:
        x = np.zeros((2, 0, 2, 6), dtype=np.int64)
        d = da.from_array(x, chunks=((2,), (0,), (2,), (4, 2)))
        attempt("minmax-zero-size", lambda: d.min(axis=(0, 2), keepdims=True).compute(), x.min(axis=(0, 2), keepdims=True))
    if "swv-nested-wrong-values" in sigs:
        x = np.array([[0, 1], [2, 3], [4, 0], [1, 2]])
        d = da.from_array(x, chunks=((4,), (2,)))
        S = np.lib.stride_tricks.sliding_window_view
        want = S(S(x, 2, axis=0).min(-1), 2, axis=1).sum(-1)
        attempt("swv-nested-wrong-values", lambda: da.sliding_window_view(da.sliding_window_view(d, 2, axis=0).min(-1), 2, axis=1).sum(-1).compute(), want)
    if "broadcast-axis-zero-width-chunk" in sigs:
        a = np.arange(24).reshape(6, 4)
        v1 = da.from_array(a, chunks=((3, 2, 1), (1, 3)))
        attempt("broadcast-axis-zero-width-chunk", lambda: da.maximum(v1[:, :-2:2], v1).compute(), np.maximum(a[:, :-2:2], a))
    if "slice-through-generic-blockwise" in sigs:
        x = np.arange(10)
        d = da.from_array(x, chunks=5)
        want = np.concatenate([np.cumsum(x[:5]), np.cumsum(x[5:])])[::-1]
        attempt("slice-through-generic-blockwise", lambda: d.map_blocks(lambda b: np.cumsum(b, axis=0), dtype=int)[::-1].compute(), want)


# ----------------------------------------------------------------- Lean ex2.* encoding (phase 3)

_BLOCK_FN2 = {"affine": "eaffine3", "sq": "esq", "neg": "eneg", "zzz_scale": "escale5", "aaa_shift": "eshift4"}


def _chunks_ll(chunks):
    return [[int(c) for c in ax] for ax in chunks]


def _known(chunks):
    return not any(isinstance(c, float) and np.isnan(c) for ax in chunks for c in ax)


def _swv_intermediate_chunks(arr):
    """Chunks of the array the overlap plan of `sliding_window_view(...).<reduce>(-1)` works on: the
    input of the `OverlapInternal` below the `SlidingWindowView` node of the RAW expression (what
    `sliding_window_view` rechunks its argument to).  None when the tree does not look like that."""
    try:
        e = arr.expr
        node = e
        for _ in range(3):
            if type(node).__name__ == "SlidingWindowView":
                break
            deps = node.dependencies()
            if len(deps) != 1:
                return None
            node = deps[0]
        if type(node).__name__ != "SlidingWindowView":
            return None
        ov = node.dependencies()
        if len(ov) != 1 or type(ov[0]).__name__ != "OverlapInternal":
            return None
        inp = ov[0].dependencies()
        if len(inp) != 1:
            return None
        ch = inp[0].chunks
        return _chunks_ll(ch) if _known(ch) else None
    except Exception:  # noqa: BLE001
        return None


def encode2(prog, shapes, real=None, stats=None):
    """Encode a DSL program as one `ex2.*` program token (lean/DaskArrayModel/Drv/Expr2.lean), or None
    when some op is outside the second-layer mini-language.  Superset of `encode`: additionally
    broadcasting binaries, integer-list `take`, sliding-window reductions (overlap plan), `clip`,
    `broadcast_to`, elementwise `map_blocks`, `None` / `Ellipsis` in basic indices, n-axis `expand_dims`.

    `shapes`: name -> NumPy shape.  `real`: name -> the dask arrays of the built program; when given,
    the RESULT of the implementation's own chunk decisions that the model does not make is taken from it
    and written into the program as explicit `rechunk` steps: implicit chunk unification of
    binary / concatenate / stack / diff operands (C17's subject) and the intermediate chunking
    `sliding_window_view` rechunks to (float heuristics); `broadcast_to` takes its declared chunks from it.
    `stats` (dict) counts those uses."""
    pos = {}
    steps = []

    def note(k):
        if stats is not None:
            stats[k] = stats.get(k, 0) + 1

    def emit(s):
        steps.append(s)
        return len(steps) - 1

    def rechunk_to(k, have, want):
        if [list(map(int, c)) for c in have] == [list(map(int, c)) for c in want]:
            return k
        note("chunks_from_impl")
        return emit(f"rechunk~{k}~{_f_ll(want)}")

    for st in prog:
        op = st["op"]
        names = st.get("args", [])
        a = [pos.get(x) for x in names]
        if any(v is None for v in a):
            return None
        out = st["out"]
        r = real.get(out) if real is not None else None
        if r is not None and not _known(r.chunks):
            return None
        if op == "src":
            k = emit(f"src~{_f_l(st['shape'])}~{_f_ll(st['chunks'])}~{st.get('mul', 1)}~{st.get('off', 0)}~{st.get('mod', 1 << 40)}")
        elif op in P.UNARY:
            k = emit(f"map~{op}~{a[0]}")
        elif op == "clip":
            k = emit(f"clip~{a[0]}~{int(st['lo'])}~{int(st['hi'])}")
        elif op in P.BINARY:
            ks = list(a)
            if real is not None:
                for j, nm in enumerate(names):
                    x = real[nm]
                    if not _known(x.chunks):
                        return None
                    want = []
                    for d, (n, c) in enumerate(zip(x.shape, x.chunks)):
                        t = r.ndim - x.ndim + d
                        want.append(list(r.chunks[t]) if n == r.shape[t] else list(c))
                    ks[j] = rechunk_to(ks[j], x.chunks, want)
            k = emit(f"zipb~{op}~{ks[0]}~{ks[1]}")
        elif op == "getitem":
            rank = len(shapes[names[0]])
            idx = list(P._dec_index(st["index"]))
            if sum(1 for i in idx if i is Ellipsis) > 1:
                return None
            consuming = sum(1 for i in idx if i is not None and i is not Ellipsis)
            if consuming > rank:
                return None
            if any(i is Ellipsis for i in idx):
                e = next(j for j, i in enumerate(idx) if i is Ellipsis)
                idx[e:e + 1] = [slice(None)] * (rank - consuming)
            else:
                idx = idx + [slice(None)] * (rank - consuming)
            lists = [j for j, i in enumerate(idx) if isinstance(i, list)]
            if len(lists) > 1:
                return None
            has_int = any(isinstance(i, (int, np.integer)) and not isinstance(i, bool) for i in idx)
            if lists and has_int:
                return None  # int and list in one index: NumPy may reorder axes (separate class)
            where_none = []
            ints = 0
            p = 0
            for i in idx:
                if i is None:
                    where_none.append(p - ints)
                elif isinstance(i, (int, np.integer)):
                    ints += 1
                p += 1
            core = [i for i in idx if i is not None]
            lst_axis = None
            lst = None
            items = []
            for ax, i in enumerate(core):
                if isinstance(i, list):
                    if len(i) == 0:
                        items.append("0:0:1")  # `slice_wrap_lists`: an empty list is the slice 0:0:1
                    else:
                        lst_axis, lst = ax, i
                        items.append("N:N:N")
                elif isinstance(i, slice):
                    items.append(":".join("N" if v is None else str(int(v)) for v in (i.start, i.stop, i.step)))
                else:
                    items.append(str(int(i)))
            k = a[0]
            if any(t != "N:N:N" for t in items) or (lst is None and not where_none):
                k = emit(f"slice~{k}~{'|'.join(items) if items else '_'}")
            if lst is not None:
                k = emit(f"take~{k}~{lst_axis}~{_f_l(lst)}")
            for ax in where_none:
                k = emit(f"expand~{k}~{ax}")
        elif op == "transpose":
            k = emit(f"transpose~{a[0]}~{_f_l(st['axes'])}")
        elif op == "rechunk":
            k = emit(f"rechunk~{a[0]}~{_f_ll(st['chunks'])}")
        elif op == "concatenate":
            ks = list(a)
            nms = list(names)
            sizes = [int(np.prod(shapes[n])) for n in nms]
            if any(s == 0 for s in sizes) and not all(s == 0 for s in sizes):
                keep = [j for j, s in enumerate(sizes) if s]  # `concatenate` drops empty operands
                ks = [ks[j] for j in keep]
                nms = [nms[j] for j in keep]
            if len(ks) == 1:
                pos[out] = ks[0]
                continue
            nd = len(shapes[nms[0]])
            axis = st["axis"] + nd if st["axis"] < 0 else st["axis"]
            if real is not None:
                for j, nm in enumerate(nms):
                    x = real[nm]
                    if not _known(x.chunks):
                        return None
                    want = [list(x.chunks[d]) if d == axis else list(r.chunks[d]) for d in range(nd)]
                    ks[j] = rechunk_to(ks[j], x.chunks, want)
            k = emit(f"concat~{axis}~{_f_l(ks)}")
        elif op == "stack":
            ks = list(a)
            nd = len(shapes[names[0]])
            axis = st["axis"] + nd + 1 if st["axis"] < 0 else st["axis"]
            if real is not None:
                want = [list(c) for d, c in enumerate(r.chunks) if d != axis]
                for j, nm in enumerate(names):
                    x = real[nm]
                    if not _known(x.chunks):
                        return None
                    ks[j] = rechunk_to(ks[j], x.chunks, want)
            k = emit(f"stack~{axis}~{_f_l(ks)}")
        elif op == "reduce":
            ax = st["axis"]
            axs = "N" if ax is None else _f_l(sorted(ax) if isinstance(ax, list) else [ax])
            se = "N" if st.get("split_every") is None else str(st["split_every"])
            k = emit(f"reduce~{st['fn']}~{a[0]}~{axs}~{1 if st['keepdims'] else 0}~{se}")
        elif op == "flip":
            k = emit(f"flip~{a[0]}~{st['axis']}")
        elif op == "expand_dims":
            axes = st["axis"] if isinstance(st["axis"], list) else [st["axis"]]
            nd = len(shapes[names[0]]) + len(axes)
            axes = sorted(x + nd if x < 0 else x for x in axes)
            k = a[0]
            for ax in axes:
                k = emit(f"expand~{k}~{ax}")
        elif op == "cumsum":
            if st.get("method", "sequential") != "sequential":
                return None
            k = emit(f"cumsum~{a[0]}~{st['axis']}")
        elif op == "squeeze":
            k = emit(f"squeeze~{a[0]}~{st['axis']}")
        elif op == "roll":
            k = emit(f"roll~{a[0]}~{int(st['shift'])}~{st['axis']}")
        elif op == "diff":
            if real is not None:
                note("chunks_from_impl")
                k = emit(f"diff~{a[0]}~{st['axis']}~{_f_ll(_chunks_ll(r.chunks))}")
            else:
                k = emit(f"diff~{a[0]}~{st['axis']}")
        elif op == "broadcast_to":
            if r is None:
                return None
            k = emit(f"broadcast~{a[0]}~{_f_l(st['shape'])}~{_f_ll(_chunks_ll(r.chunks))}")
        elif op == "map_blocks":
            fn = _BLOCK_FN2.get(st["fn"])
            if fn is None:
                return None
            k = emit(f"mapblocks~{fn}~{a[0]}")
        elif op == "swv_reduce":
            if r is None or st["fn"] not in ("sum", "max", "min"):
                return None
            inter = _swv_intermediate_chunks(r)
            if inter is None:
                return None
            x = real[names[0]]
            if not _known(x.chunks):
                return None
            nd = len(shapes[names[0]])
            axis = st["axis"] + nd if st["axis"] < 0 else st["axis"]
            kk = rechunk_to(a[0], x.chunks, inter)
            k = emit(f"swv~{st['fn']}~{kk}~{int(st['window'])}~{axis}")
        else:
            return None
        pos[out] = k
    if not steps:
        return None
    root = pos[prog[-1]["out"]]
    if root != len(steps) - 1:
        # the result must be the last step: re-emit it through a no-op (rank-preserving) step
        # (only when a trailing concatenate collapsed to one of its operands)
        sh = shapes[prog[-1]["out"]]
        steps.append(f"slice~{root}~{'|'.join(['N:N:N'] * len(sh)) if len(sh) else '_'}")
    return ";".join(steps)
