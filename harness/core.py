"""Common machinery for every property check (see DESIGN.md section 2.4).

verdict logic
  1. (translators)   2. lake build + axiom audit of Props/<id>.lean
  3. corpus + correspondence (model vs implementation)   -> disagreements
  4. end-to-end property search on the real code          -> failures
  5. targeted search around disagreements / broken obligations
  6. subtract known findings, print KNOWN-FINDING lines
  7. exit 0 / exit 1 with VIOLATION lines; harness crash -> exit 2
"""
from __future__ import annotations

import fcntl
import json
import os
import random
import re
import subprocess
import sys
import time
import traceback
from pathlib import Path

VERIF = Path(__file__).resolve().parents[1]
REPO = Path(os.environ.get("VERIF_REPO", "/repo"))
LEAN = VERIF / "lean"
DRIVER_BIN = LEAN / ".lake" / "build" / "bin" / "driver"
ALLOWED_AXIOMS = {"propext", "Classical.choice", "Quot.sound"}
FORBIDDEN = re.compile(
    r"\bsorry\b|\badmit\b|^\s*axiom\s|native_decide|bv_decide|implemented_by|\bunsafe\s|maxHeartbeats\s+0\b"
)

TRUSTED_BASE = [
    "Lean 4.33 kernel; axioms allowed: propext, Classical.choice, Quot.sound (audited per theorem each run)",
    "Py/Basic.lean: hand transcription of CPython int //, %, slice.indices, range, bisect, partition_all (tied to CPython by correspondence, not proved)",
    "hand-written model + correspondence harness/generators/canonicaliser (differential testing)",
    "NumPy kernels, dask scheduler/Task/tokenize, floating point, threads: modelled as assumptions, not verified",
]


# --------------------------------------------------------------------------- lean

def _strip_comments(src: str) -> str:
    # remove /- ... -/ (nested not needed here) and -- comments
    out = []
    i = 0
    depth = 0
    n = len(src)
    while i < n:
        if src.startswith("/-", i):
            depth += 1
            i += 2
        elif src.startswith("-/", i) and depth:
            depth -= 1
            i += 2
        elif depth:
            i += 1
        elif src.startswith("--", i):
            j = src.find("\n", i)
            i = n if j < 0 else j
        else:
            out.append(src[i])
            i += 1
    return "".join(out)


def lean_build(targets=None, timeout=3000):
    """Build the Lean project (under a file lock). Returns (ok, log)."""
    lock = open(LEAN / ".build.lock", "w")
    fcntl.flock(lock, fcntl.LOCK_EX)
    try:
        cmd = ["lake", "build"] + (list(targets) if targets else [])
        p = subprocess.run(cmd, cwd=LEAN, capture_output=True, text=True, timeout=timeout)
        return p.returncode == 0, (p.stdout + p.stderr)
    finally:
        fcntl.flock(lock, fcntl.LOCK_UN)
        lock.close()


def write_generated(name: str, content: str):
    """(Re)write lean/DaskArrayModel/Generated/<name>.lean from a translator, only when its
    content changed (keeps the no-op build fast).  Taken under the build lock so that
    concurrent checks never observe a half-written table."""
    d = LEAN / "DaskArrayModel" / "Generated"
    d.mkdir(exist_ok=True)
    f = d / f"{name}.lean"
    lock = open(LEAN / ".build.lock", "w")
    fcntl.flock(lock, fcntl.LOCK_EX)
    try:
        if not f.exists() or f.read_text() != content:
            f.write_text(content)
            return True
        return False
    finally:
        fcntl.flock(lock, fcntl.LOCK_UN)
        lock.close()


def prop_files(pid: str):
    """Props/<pid>.lean plus extension files Props/<pid><Suffix>.lean (e.g. C02Fusion.lean)."""
    d = LEAN / "DaskArrayModel" / "Props"
    out = [f for f in sorted(d.glob(f"{pid}*.lean")) if re.fullmatch(pid + r"[A-Za-z]*", f.stem)]
    return out


def prop_theorems(pid: str):
    """Theorem names declared in Props/<pid>*.lean (comments stripped)."""
    names = []
    for f in prop_files(pid):
        names += _theorems_in(f)
    return names


def _theorems_in(f):
    src = _strip_comments(f.read_text())
    ns = []
    names = []
    for line in src.splitlines():
        m = re.match(r"\s*namespace\s+(\S+)", line)
        if m:
            ns.append(m.group(1))
            continue
        m = re.match(r"\s*end\s+(\S+)", line)
        if m and ns and ns[-1] == m.group(1):
            ns.pop()
            continue
        m = re.match(r"\s*(?:@\[[^\]]*\]\s*)?(?:private\s+|protected\s+)?theorem\s+(\S+)", line)
        if m:
            names.append(".".join(ns + [m.group(1)]))
    return names


def _import_closure(pid):
    """Lean source files (inside the project) transitively imported by Props/<pid>.lean, plus
    the driver's sources (the model files the correspondence executes)."""
    roots = prop_files(pid) + [LEAN / "Driver.lean"]
    seen = {}
    stack = [r for r in roots if r.exists()]
    while stack:
        f = stack.pop()
        if f in seen:
            continue
        src = f.read_text()
        seen[f] = src
        for m in re.finditer(r"^\s*import\s+(DaskArrayModel(?:\.\w+)+)", src, re.M):
            g = LEAN / (m.group(1).replace(".", "/") + ".lean")
            if g.exists():
                stack.append(g)
    return seen


def forbidden_scan(pid=None):
    hits = []
    if pid is None:
        files = {f: f.read_text() for f in sorted((LEAN / "DaskArrayModel").rglob("*.lean")) + [LEAN / "Driver.lean"]}
    else:
        files = _import_closure(pid)
    for f, text in sorted(files.items()):
        src = _strip_comments(text)
        for k, line in enumerate(src.splitlines(), 1):
            if FORBIDDEN.search(line):
                hits.append(f"{f.relative_to(LEAN)}:{k}: {line.strip()[:120]}")
    return hits


def lean_audit(pid: str, tier: str):
    """Returns dict(obligations, discharged, broken:[...], axioms:{thm:[..]}, log)."""
    res = {"obligations": 0, "discharged": 0, "broken": [], "axioms": {}, "log": ""}
    # build only this property's theorems (and the driver): a table generated for another
    # property that no longer checks must not break this one
    targets = [f"DaskArrayModel.Props.{f.stem}" for f in prop_files(pid)] + ["driver"]
    ok, log = lean_build(targets)
    res["log"] = log[-4000:]
    thms = prop_theorems(pid)
    res["obligations"] = len(thms)
    if not ok:
        # which module failed?
        bad = re.findall(r"error: (\S+\.lean:\d+:\d+): (.*)", log)
        res["broken"] = [f"lake build failed: {a}: {b[:200]}" for a, b in bad[:5]] or ["lake build failed"]
        return res
    hits = forbidden_scan(pid)
    if hits:
        res["broken"] += [f"forbidden construct: {h}" for h in hits]
    if not thms:
        return res
    audit = LEAN / ".audit"
    audit.mkdir(exist_ok=True)
    af = audit / f"Audit_{pid}_{os.getpid()}.lean"
    body = [f"import DaskArrayModel.Props.{f.stem}" for f in prop_files(pid)] + [f"#print axioms {t}" for t in thms]
    af.write_text("\n".join(body) + "\n")
    try:
        p = subprocess.run(["lake", "env", "lean", str(af)], cwd=LEAN, capture_output=True, text=True, timeout=1200)
    finally:
        try:
            af.unlink()
        except OSError:
            pass
    out = p.stdout + p.stderr
    # parse: "'X' depends on axioms: [a, b]" or "'X' does not depend on any axioms"
    cur = {}
    for m in re.finditer(r"'([^']+)' depends on axioms: \[([^\]]*)\]", out, re.S):
        cur[m.group(1)] = [a.strip() for a in m.group(2).replace("\n", " ").split(",") if a.strip()]
    for m in re.finditer(r"'([^']+)' does not depend on any axioms", out):
        cur[m.group(1)] = []
    for t in thms:
        if t not in cur:
            res["broken"].append(f"theorem {t}: not found in compiled environment")
            continue
        res["axioms"][t] = cur[t]
        extra = [a for a in cur[t] if a not in ALLOWED_AXIOMS]
        if extra:
            res["broken"].append(f"theorem {t}: uses axioms {extra}")
        else:
            res["discharged"] += 1
    if tier == "thorough" and not res["broken"]:
        try:
            p = subprocess.run(
                ["lake", "env", "leanchecker"] + [f"DaskArrayModel.Props.{f.stem}" for f in prop_files(pid)],
                cwd=LEAN, capture_output=True, text=True, timeout=1800,
            )
            res["leanchecker"] = "ok" if p.returncode == 0 else (p.stdout + p.stderr)[-500:]
            if p.returncode != 0:
                res["broken"].append("leanchecker rejected DaskArrayModel.Props." + pid)
        except Exception as e:  # pragma: no cover
            res["leanchecker"] = f"not run: {e!r}"
    return res


class Driver:
    """Batch interface to the compiled Lean driver."""

    def __init__(self):
        # VERIF_DRIVER_CMD lets a developer run a private driver file while a new
        # family is not yet wired into Driver.lean (never set by registered checks)
        self.cmd = None
        if os.environ.get("VERIF_DRIVER_CMD"):
            self.cmd = os.environ["VERIF_DRIVER_CMD"].split()
            return
        if not DRIVER_BIN.exists():
            ok, log = lean_build(["driver"])
            if not ok:
                raise RuntimeError("cannot build lean driver:\n" + log[-2000:])

    def run(self, lines):
        lines = list(lines)
        if not lines:
            return []
        data = "\n".join(lines) + "\n"
        p = subprocess.run(self.cmd or [str(DRIVER_BIN)], input=data, capture_output=True, text=True, timeout=3600, cwd=LEAN)
        if p.returncode != 0:
            raise RuntimeError(f"driver failed: {p.stderr[-500:]}")
        out = p.stdout.split("\n")
        if out and out[-1] == "":
            out.pop()
        if len(out) != len(lines):
            raise RuntimeError(f"driver returned {len(out)} lines for {len(lines)} requests")
        return out


# ------------------------------------------------------------------ token formatting

def f_opt(v):
    return "N" if v is None else str(int(v))


def f_slice(s):
    return f"{f_opt(s.start)}:{f_opt(s.stop)}:{f_opt(s.step)}"


def f_list(l):
    l = list(l)
    return "_" if not l else ",".join(str(int(v)) for v in l)


def f_ll(ll):
    ll = list(ll)
    return "-" if not ll else ";".join(f_list(l) for l in ll)


def p_slice(tok):
    a, b, c = tok.split(":")
    cv = lambda t: None if t == "N" else int(t)
    return slice(cv(a), cv(b), cv(c))


def err_name(e: BaseException) -> str:
    return "err " + type(e).__name__


# ------------------------------------------------------------------------- context

class Ctx:
    def __init__(self, pid, tier, seed):
        self.pid = pid
        self.tier = tier
        self.seed = seed
        self.rng = random.Random(seed * 1000003 + sum(map(ord, pid)))
        self.t0 = time.time()
        self.evaluations = 0
        self.distinct = set()
        self.samples = []
        self.traces = 0  # correspondence cases validated against the implementation
        self.disagreements = []  # model vs impl
        self.failures = []  # property failures on the real code: dict(sig=..., case=...)
        self.known_hits = []
        self.notes = {}
        self.assumptions = []
        self.extra = {}
        self.exhaustive = False
        self.rule = ""
        self._driver = None
        self.audit = {}

    # budget helpers
    def scale(self, quick, thorough):
        return thorough if self.tier == "thorough" else quick

    def elapsed(self):
        return time.time() - self.t0

    @property
    def driver(self):
        if self._driver is None:
            self._driver = Driver()
        return self._driver

    def sample(self, case, every=1):
        if len(self.samples) < 8:
            self.samples.append(case)

    def count(self, key=None, n=1):
        self.evaluations += n
        if key is not None:
            self.distinct.add(key)

    def fail(self, sig, case, what=""):
        self.failures.append({"sig": sig, "case": case, "what": what})

    def disagree(self, fam, request, model, impl):
        self.disagreements.append({"family": fam, "request": request, "model": model, "impl": impl})

    # correspondence: list of (request_line, impl_output)
    def correspond(self, fam, pairs, branch_key=None):
        pairs = list(pairs)
        outs = self.driver.run([r for r, _ in pairs])
        nd = 0
        for (req, impl), model in zip(pairs, outs):
            self.traces += 1
            self.evaluations += 1
            if branch_key is not None:
                self.distinct.add((fam, branch_key(req, model)))
            else:
                self.distinct.add((fam, model[:40], len(req) // 8))
            if model != impl:
                nd += 1
                if len(self.disagreements) < 200:
                    self.disagree(fam, req, model, impl)
        if pairs:
            self.sample({"family": fam, "request": pairs[len(pairs) // 2][0], "response": outs[len(pairs) // 2]})
        self.notes[f"corr.{fam}"] = self.notes.get(f"corr.{fam}", 0) + len(pairs)
        return nd


def load_known(pid):
    f = VERIF / "known_findings.json"
    if not f.exists():
        return []
    data = json.loads(f.read_text())
    return [
        e for e in data.get("findings", [])
        if (e.get("property") == pid or pid in e.get("properties", [])) and e.get("kind") == "known"
    ]


def write_replay(ctx, name, payload):
    d = VERIF / "replays"
    d.mkdir(exist_ok=True)
    f = d / f"{ctx.pid}-{ctx.tier}-{ctx.seed}-{name}.json"
    f.write_text(json.dumps(payload, indent=1, default=str))
    return f


def finish(ctx: Ctx, audit: dict, level_note: str = ""):
    """Apply the verdict logic, write evidence, print lines, return exit code."""
    known = load_known(ctx.pid)
    known_sigs = {e["signature"]: e for e in known}
    new_fail = []
    for f in ctx.failures:
        if f["sig"] in known_sigs:
            ctx.known_hits.append(f)
        else:
            new_fail.append(f)
    printed = set()
    for f in ctx.known_hits:
        if f["sig"] not in printed:
            printed.add(f["sig"])
            print(f"KNOWN-FINDING: property={ctx.pid} {known_sigs[f['sig']].get('what', f['sig'])}")
    violations = 0
    lines = []
    if new_fail:
        seen = set()
        for k, f in enumerate(new_fail):
            if f["sig"] in seen:
                continue
            seen.add(f["sig"])
            rp = write_replay(ctx, f"fail{k}", f)
            lines.append(f"VIOLATION property={ctx.pid} replay={rp}")
            violations += 1
            if violations >= 5:
                break
    elif ctx.disagreements or audit.get("broken"):
        payload = {
            "kind": "model-or-proof-broken",
            "broken_obligations": audit.get("broken", []),
            "disagreements": ctx.disagreements[:20],
            "searched": ctx.notes.get("targeted_search", "end-to-end search of this run found no failing input"),
        }
        rp = write_replay(ctx, "nofail", payload)
        lines.append(f"VIOLATION property={ctx.pid} replay={rp} no-failing-input-found")
        violations = 1
    cov = {
        "obligations": audit.get("obligations", 0),
        "discharged": audit.get("discharged", 0),
        "checker_cmd": f"cd lean && lake build && lake env lean <#print axioms for every theorem in DaskArrayModel/Props/{ctx.pid}.lean>"
        + ("; lake env leanchecker DaskArrayModel.Props." + ctx.pid if ctx.tier == "thorough" else ""),
        "trusted_base": TRUSTED_BASE + ctx.extra.pop("trusted_base", []),
        "theorems": audit.get("axioms", {}),
        "broken_obligations": audit.get("broken", []),
        "evaluations": ctx.evaluations,
        "distinct_nontrivial": len(ctx.distinct),
        "rule": ctx.rule,
        "samples": ctx.samples or [{"note": "no executable cases in this run"}],
        "traces_validated_against_impl": ctx.traces,
        "model_impl_disagreements": len(ctx.disagreements),
        "property_failures": len(new_fail),
        "known_findings_reproduced": sorted(printed),
        "exhaustive": ctx.exhaustive,
        "counts": ctx.notes,
    }
    if "leanchecker" in audit:
        cov["leanchecker"] = audit["leanchecker"]
    cov.update(ctx.extra)
    ev = {
        "property_id": ctx.pid,
        "tier": ctx.tier,
        "seed": ctx.seed,
        "level": "proof",
        "coverage": cov,
        "assumptions": ctx.assumptions,
        "wall_s": round(time.time() - ctx.t0, 2),
        "violations": violations,
    }
    # evidence/<id>.json is written only by runs against /repo itself; development runs against a
    # private copy (VERIF_REPO) write to evidence/dev/ (not committed)
    evdir = VERIF / "evidence" / "dev" if os.environ.get("VERIF_REPO") else VERIF / "evidence"
    evdir.mkdir(parents=True, exist_ok=True)
    (evdir / f"{ctx.pid}.json").write_text(json.dumps(ev, indent=1, default=str))
    for l in lines:
        print(l)
    print(
        f"[{ctx.pid}] tier={ctx.tier} seed={ctx.seed} theorems={cov['discharged']}/{cov['obligations']} "
        f"cases={ctx.evaluations} corr={ctx.traces} disagreements={len(ctx.disagreements)} "
        f"failures={len(new_fail)} known={len(printed)} wall={ev['wall_s']}s"
    )
    return 1 if violations else 0


def main_for(pid, run_fn):
    """Entry used by ./check: run_fn(ctx) performs correspondence + search."""
    import argparse

    ap = argparse.ArgumentParser()
    ap.add_argument("--tier", default=os.environ.get("VERIF_TIER", "quick"))
    ap.add_argument("--replay", default=None)
    args = ap.parse_args(sys.argv[2:])
    tier = "thorough" if args.tier == "thorough" else "quick"
    seed = int(os.environ.get("VERIF_SEED", "0") or 0)
    ctx = Ctx(pid, tier, seed)
    try:
        import importlib

        mod = importlib.import_module(f"harness.props.{pid}")
        if hasattr(mod, "translate"):
            # step 1 of the verdict logic: regenerate Generated/*.lean from the repository's working
            # tree.  The tables are shared files, so translate + build + audit run under one lock:
            # a concurrent run against another tree (VERIF_REPO) must not swap the table in between.
            tl = open(LEAN / ".tables.lock", "w")
            fcntl.flock(tl, fcntl.LOCK_EX)
            try:
                mod.translate(ctx)
                audit = lean_audit(pid, tier)
            finally:
                fcntl.flock(tl, fcntl.LOCK_UN)
                tl.close()
        else:
            audit = lean_audit(pid, tier)
        ctx.audit = audit
        if args.replay:
            ctx.extra["replay_of"] = args.replay
            run_fn(ctx, replay=json.loads(Path(args.replay).read_text()))
        else:
            run_fn(ctx)
        return finish(ctx, audit)
    except SystemExit:
        raise
    except BaseException:
        traceback.print_exc()
        print(f"[{pid}] harness error (exit 2, not a verdict)")
        return 2
