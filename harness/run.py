import importlib
import sys

from harness import core


def main():
    if len(sys.argv) < 2:
        print("usage: ./check <property-id> [--tier quick|thorough] [--replay file]")
        return 2
    pid = sys.argv[1]
    mod = importlib.import_module(f"harness.props.{pid}")
    return core.main_for(pid, mod.run)


if __name__ == "__main__":
    sys.exit(main())
