"""Program DSL shared by the program-level checks (C01-C05, C08-C11, C20, C21, C23, C28).

A program is a JSON list of steps {"out": name, "op": opname, "args": [names], ...params}.
`gen_program` builds a program by a seeded random walk while evaluating it with NumPy (so
every step is valid and shapes are known); `run_np` / `run_da` evaluate a program from the
JSON alone, so a replay never depends on the PRNG.  All data are int64 (exact arithmetic).
"""
from __future__ import annotations

import itertools
import math

import numpy as np

from harness import gen


# ----------------------------------------------------------------------------- helpers

def _enc_index(idx):
    out = []
    for i in idx:
        if i is None:
            out.append("None")
        elif i is Ellipsis:
            out.append("...")
        elif isinstance(i, slice):
            out.append(["s", i.start, i.stop, i.step])
        elif isinstance(i, (list, tuple, np.ndarray)):
            out.append(["l", [int(v) for v in i]])
        else:
            out.append(int(i))
    return out


def _dec_index(enc):
    out = []
    for i in enc:
        if i == "None":
            out.append(None)
        elif i == "...":
            out.append(Ellipsis)
        elif isinstance(i, list) and i and i[0] == "s":
            out.append(slice(i[1], i[2], i[3]))
        elif isinstance(i, list) and i and i[0] == "l":
            out.append(list(i[1]))
        else:
            out.append(int(i))
    return tuple(out)


def rand_chunks_nd(rng, shape, zeros=0.0):
    return tuple(gen.rand_chunks(rng, n, zeros=zeros) for n in shape)


def source_data(step):
    shape = tuple(step["shape"])
    n = int(np.prod(shape)) if shape else 1
    a = (np.arange(n, dtype=np.int64) * step.get("mul", 1) + step.get("off", 0)) % step.get("mod", 1 << 40)
    return a.reshape(shape)


# block-local functions usable in map_blocks (must commute with blocking)
def zzz_scale(b):
    return b * 5 + 2


def aaa_shift(b):
    return b - 4


BLOCK_FUNCS = {
    "affine": lambda b: b * 3 - 1,
    "sq": lambda b: b * b,
    "neg": lambda b: -b,
    # named functions: graph key prefixes (and with them set/sort orders inside the optimizer) vary
    "zzz_scale": zzz_scale,
    "aaa_shift": aaa_shift,
}

UNARY = {
    "neg": lambda m, a: -a,
    "abs": lambda m, a: m.abs(a),
    "affine": lambda m, a: a * 2 + 1,
    "mod7": lambda m, a: a % 7,
    "sq": lambda m, a: a * a,
}
BINARY = {
    "add": lambda m, a, b: a + b,
    "sub": lambda m, a, b: a - b,
    "mul": lambda m, a, b: a * b,
    "maximum": lambda m, a, b: m.maximum(a, b),
    "where_gt": lambda m, a, b: m.where(a > b, a, b),
}
REDUCE = ("sum", "max", "min")


# ------------------------------------------------------------------------ evaluation

def apply_step(step, env, m, da_mode):
    """m is numpy or dask_array; env maps names to arrays of that module."""
    op = step["op"]
    A = [env[a] for a in step.get("args", [])]
    if op == "src":
        data = source_data(step)
        if da_mode:
            return m.from_array(data, chunks=tuple(tuple(c) for c in step["chunks"]))
        return data
    if op in UNARY:
        return UNARY[op](m, A[0])
    if op in BINARY:
        return BINARY[op](m, A[0], A[1])
    if op == "transpose":
        return m.transpose(A[0], step["axes"])
    if op == "getitem":
        return A[0][_dec_index(step["index"])]
    if op == "rechunk":
        return A[0].rechunk(tuple(tuple(c) for c in step["chunks"])) if da_mode else A[0]
    if op == "reduce":
        f = getattr(m, step["fn"])
        kw = {}
        if da_mode and step.get("split_every") is not None:
            kw["split_every"] = step["split_every"]
        ax = step["axis"]
        ax = tuple(ax) if isinstance(ax, list) else ax
        return f(A[0], axis=ax, keepdims=step["keepdims"], **kw)
    if op == "cumsum":
        if da_mode:
            return m.cumsum(A[0], axis=step["axis"], method=step.get("method", "sequential"))
        return np.cumsum(A[0], axis=step["axis"])
    if op == "concatenate":
        return m.concatenate(A, axis=step["axis"])
    if op == "stack":
        return m.stack(A, axis=step["axis"])
    if op == "expand_dims":
        ax = step["axis"]
        return m.expand_dims(A[0], tuple(ax) if isinstance(ax, list) else ax)
    if op == "squeeze":
        return m.squeeze(A[0], axis=step["axis"])
    if op == "flip":
        return m.flip(A[0], step["axis"])
    if op == "roll":
        return m.roll(A[0], step["shift"], axis=step["axis"])
    if op == "reshape":
        return m.reshape(A[0], tuple(step["shape"]))
    if op == "broadcast_to":
        return m.broadcast_to(A[0], tuple(step["shape"]))
    if op == "map_blocks":
        f = BLOCK_FUNCS[step["fn"]]
        return A[0].map_blocks(f, dtype=A[0].dtype) if da_mode else f(A[0])
    if op == "swv_reduce":
        if da_mode:
            w = m.sliding_window_view(A[0], step["window"], axis=step["axis"])
        else:
            w = np.lib.stride_tricks.sliding_window_view(A[0], step["window"], axis=step["axis"])
        return getattr(w, step["fn"])(axis=-1)
    if op == "repeat":
        return m.repeat(A[0], step["repeats"], axis=step["axis"])
    if op == "tile":
        return m.tile(A[0], step["reps"])
    if op == "clip":
        return m.clip(A[0], step["lo"], step["hi"])
    if op == "diff":
        return m.diff(A[0], axis=step["axis"])
    if op == "setitem":
        x = A[0].copy()
        v = step["value"]
        if isinstance(v, str):
            v = env[v]
        x[_dec_index(step["index"])] = v
        return x
    if op == "boolmask_1d":
        # data-dependent selection along axis 0 of a 1-d array
        return A[0][A[0] % step["mod"] != 0]
    if op == "compute_chunk_sizes":
        if da_mode:
            y = A[0]
            y.compute_chunk_sizes()
            return y
        return A[0]
    if op in T6_OPS:  # axis permutations by name, creation functions (name= / dtype= / chunks forms), ufunc(out=, where=)
        return _apply_step_t6(step, A, m, da_mode)
    raise KeyError(op)


def run_np(prog):
    env = {}
    for step in prog:
        env[step["out"]] = apply_step(step, env, np, False)
    return env


def run_da(prog, upto=None):
    import dask_array as da

    env = {}
    for step in prog[: upto if upto is not None else len(prog)]:
        env[step["out"]] = apply_step(step, env, da, True)
    return env


# ------------------------------------------------------------------------ generation

# ops inside the Lean mini-language (Model/Expr.lean); used by the correspondence streams
MINI_OPS = (
    "unary", "binary", "transpose", "getitem", "getitem", "rechunk", "reduce", "cumsum_seq", "concatenate",
    "expand_dims", "squeeze", "flip", "stack", "roll", "diff",
)

DEFAULT_OPS = (
    "unary", "unary", "binary", "binary", "binary_new", "transpose", "getitem", "getitem", "rechunk", "reduce",
    "reduce", "cumsum", "concatenate", "stack", "expand_dims", "squeeze", "flip", "roll", "reshape",
    "broadcast_to", "map_blocks", "swv_reduce", "take", "clip", "diff", "self_transpose",
)


def rand_basic_index(rng, shape, allow_none=True, allow_neg_step=True, allow_int=True, allow_ellipsis=True):
    idx = []
    for d in shape:
        r = rng.random()
        if r < 0.2 and d > 0 and allow_int:
            idx.append(rng.randint(-d, d - 1))
        elif r < 0.35:
            idx.append(slice(None))
        else:
            steps = (None, 1, 2, 3, -1, -2) if allow_neg_step else (None, 1, 2, 3)
            idx.append(gen.rand_slice(rng, d, steps=steps))
    if allow_ellipsis and rng.random() < 0.2 and idx:
        k = rng.randint(0, len(idx))
        j = rng.randint(k, len(idx))
        if all(isinstance(i, slice) and i == slice(None) for i in idx[k:j]) or k == j:
            idx[k:j] = [Ellipsis]
    elif rng.random() < 0.3:
        # drop trailing full slices
        while idx and isinstance(idx[-1], slice) and idx[-1] == slice(None):
            idx.pop()
    if allow_none and rng.random() < 0.25:
        idx.insert(rng.randint(0, len(idx)), None)
        if rng.random() < 0.4:
            idx.insert(rng.randint(0, len(idx)), None)
    return tuple(idx)


class ProgGen:
    def __init__(self, rng, ops=DEFAULT_OPS, maxrank=3, maxdim=6, maxsize=240, zero_axes=0.05, avoid=(), basic_only=False):
        self.basic_only = basic_only
        self.rng = rng
        self.ops = ops
        self.maxrank = maxrank
        self.maxdim = maxdim
        self.maxsize = maxsize
        self.zero_axes = zero_axes
        self.avoid = set(avoid)
        self.prog = []
        self.env = {}
        self.k = 0
        self.tags = {}  # name -> set of tags (e.g. "swv" for sliding-window ancestry)

    def fresh(self):
        self.k += 1
        return f"v{self.k}"

    def add(self, step, tags=()):
        step["out"] = self.fresh()
        with np.errstate(all="ignore"):
            val = apply_step(step, self.env, np, False)
        if val.size and val.dtype.kind in "iu" and int(np.abs(val).max()) > (1 << 40):
            # keep magnitudes far from int64 overflow: NumPy wraps, the Lean model (unbounded Int) does not
            self.k -= 1
            raise _Skip
        self.env[step["out"]] = val
        self.prog.append(step)
        t = set(tags)
        for a in step.get("args", []):
            t |= self.tags.get(a, set())
        self.tags[step["out"]] = t
        return step["out"]

    def new_source(self, shape=None):
        rng = self.rng
        if shape is None:
            r = rng.randint(1, self.maxrank)
            shape = tuple(0 if rng.random() < self.zero_axes else rng.randint(1, self.maxdim) for _ in range(r))
        step = {
            "op": "src", "shape": list(shape), "chunks": [list(c) for c in rand_chunks_nd(rng, shape)],
            "mul": rng.choice([1, 1, 3, 7]), "off": rng.randint(-5, 5), "mod": rng.choice([1 << 20, 11, 5]),
        }
        return self.add(step)

    def pick(self):
        return self.rng.choice(list(self.env))

    def step(self):
        rng = self.rng
        for _ in range(20):
            kind = rng.choice(self.ops)
            try:
                out = getattr(self, "g_" + kind)()
            except _Skip:
                continue
            if out is not None:
                if self.env[out].size > self.maxsize * 4:
                    # too big: undo
                    self.prog.pop()
                    del self.env[out]
                    continue
                return out
        return None

    # --- op generators
    def g_unary(self):
        return self.add({"op": self.rng.choice(list(UNARY)), "args": [self.pick()]})

    def g_binary(self):
        a = self.pick()
        cands = [b for b in self.env if _bcast_ok(self.env[a].shape, self.env[b].shape)]
        if not cands:
            raise _Skip
        return self.add({"op": self.rng.choice(list(BINARY)), "args": [a, self.rng.choice(cands)]})

    def g_binary_new(self):
        a = self.pick()
        shp = list(self.env[a].shape)
        # broadcastable partner: drop leading dims / size-1 dims
        k = self.rng.randint(0, len(shp))
        shp = shp[k:]
        shp = [1 if self.rng.random() < 0.3 else d for d in shp]
        b = self.new_source(tuple(shp))
        return self.add({"op": self.rng.choice(list(BINARY)), "args": [a, b] if self.rng.random() < 0.5 else [b, a]})

    def g_transpose(self):
        a = self.pick()
        n = self.env[a].ndim
        if n < 2:
            raise _Skip
        axes = list(range(n))
        self.rng.shuffle(axes)
        return self.add({"op": "transpose", "args": [a], "axes": axes})

    def g_getitem(self):
        a = self.pick()
        if self.env[a].ndim == 0:
            raise _Skip
        idx = rand_basic_index(self.rng, self.env[a].shape, allow_none=not self.basic_only, allow_ellipsis=not self.basic_only)
        if not idx:
            raise _Skip
        return self.add({"op": "getitem", "args": [a], "index": _enc_index(idx)})

    def g_getitem_explicit(self):
        """basic index whose slices carry explicit integer start AND stop (often non-empty, both step signs):
        the clamping / emptiness arithmetic of pushdown rules sees other inputs than with open-ended slices"""
        a = self.pick()
        shape = self.env[a].shape
        if not shape:
            raise _Skip
        rng = self.rng
        idx = []
        for d in shape:
            r = rng.random()
            if r < 0.25 or d == 0:
                idx.append(slice(None))
                continue
            step = rng.choice([-3, -2, -1, -1, 1, 2])
            lo, hi = sorted((rng.randint(0, d + 1), rng.randint(0, d + 1)))
            if rng.random() < 0.8 and lo == hi:
                hi = lo + 1
            if rng.random() < 0.3:
                lo, hi = lo - d - 1, hi  # negative spelling of one bound
            idx.append(slice(hi, lo, step) if step < 0 else slice(lo, hi, step))
        return self.add({"op": "getitem", "args": [a], "index": _enc_index(tuple(idx))})

    def g_take(self):
        a = self.pick()
        x = self.env[a]
        if x.ndim == 0 or 0 in x.shape:
            raise _Skip
        ax = self.rng.randrange(x.ndim)
        d = x.shape[ax]
        lst = [self.rng.randint(-d, d - 1) for _ in range(self.rng.randint(1, d + 2))]
        idx = [slice(None)] * ax + [lst]
        return self.add({"op": "getitem", "args": [a], "index": _enc_index(idx)}, tags=("take",))

    def g_rechunk(self):
        a = self.pick()
        x = self.env[a]
        if x.ndim == 0:
            raise _Skip
        return self.add({"op": "rechunk", "args": [a], "chunks": [list(c) for c in rand_chunks_nd(self.rng, x.shape)]})

    def g_reduce(self):
        a = self.pick()
        x = self.env[a]
        if x.ndim == 0:
            raise _Skip
        fn = self.rng.choice(REDUCE)
        axes = [i for i in range(x.ndim) if self.rng.random() < 0.5] or [self.rng.randrange(x.ndim)]
        if fn in ("max", "min") and any(x.shape[i] == 0 for i in axes):
            raise _Skip
        if len(axes) > 1 and self.rng.random() < 0.5:
            self.rng.shuffle(axes)  # NumPy accepts the axes of a reduction in any order
        ax = axes[0] if len(axes) == 1 and self.rng.random() < 0.5 else axes
        if self.rng.random() < 0.15:
            ax = None
            if fn in ("max", "min") and x.size == 0:
                raise _Skip
        se = self.rng.choice([None, None, 2, 3, 4])
        return self.add({"op": "reduce", "fn": fn, "args": [a], "axis": ax, "keepdims": self.rng.random() < 0.4, "split_every": se})

    def g_cumsum(self):
        a = self.pick()
        x = self.env[a]
        if x.ndim == 0:
            raise _Skip
        return self.add({"op": "cumsum", "args": [a], "axis": self.rng.randrange(x.ndim), "method": self.rng.choice(["sequential", "blelloch"])})

    def g_cumsum_seq(self):
        a = self.pick()
        x = self.env[a]
        if x.ndim == 0:
            raise _Skip
        return self.add({"op": "cumsum", "args": [a], "axis": self.rng.randrange(x.ndim), "method": "sequential"})

    def g_concatenate(self):
        a = self.pick()
        x = self.env[a]
        if x.ndim == 0:
            raise _Skip
        ax = self.rng.randrange(x.ndim)
        shp = list(x.shape)
        shp[ax] = self.rng.randint(1, 4)
        b = self.new_source(tuple(shp))
        args = [a, b] if self.rng.random() < 0.5 else [b, a]
        if self.rng.random() < 0.3:
            args.append(a)
        return self.add({"op": "concatenate", "args": args, "axis": ax})

    def g_stack(self):
        a = self.pick()
        x = self.env[a]
        if x.ndim >= self.maxrank + 1:
            raise _Skip
        b = self.new_source(x.shape) if self.rng.random() < 0.6 else a
        return self.add({"op": "stack", "args": [a, b], "axis": self.rng.randint(0, x.ndim)})

    def g_expand_dims(self):
        a = self.pick()
        x = self.env[a]
        if x.ndim >= self.maxrank + 1:
            raise _Skip
        if not self.basic_only and x.ndim <= self.maxrank - 1 and self.rng.random() < 0.3:
            axes = sorted(self.rng.sample(range(x.ndim + 2), 2))
            return self.add({"op": "expand_dims", "args": [a], "axis": axes})
        return self.add({"op": "expand_dims", "args": [a], "axis": self.rng.randint(0, x.ndim)})

    def g_expand_dims_multi(self):
        """two or more unit axes added at once (expand_dims with a tuple / several None in one index)"""
        a = self.pick()
        x = self.env[a]
        if x.ndim > self.maxrank - 1:
            raise _Skip
        k = 2 if x.ndim + 2 > self.maxrank + 1 or self.rng.random() < 0.7 else 3
        axes = sorted(self.rng.sample(range(x.ndim + k), k))
        return self.add({"op": "expand_dims", "args": [a], "axis": axes})

    def g_self_transpose(self):
        """a (op) a.T for square 2-D arrays: one node consumed under two block mappings."""
        cands = [k for k, v in self.env.items() if v.ndim == 2 and v.shape[0] == v.shape[1] and v.shape[0] > 0]
        if not cands:
            # make one
            n = self.rng.randint(2, 5)
            cands = [self.new_source((n, n))]
        a = self.rng.choice(cands)
        if self.rng.random() < 0.6:
            a = self.add({"op": self.rng.choice(list(UNARY)), "args": [a]})
            if self.rng.random() < 0.6:
                a = self.add({"op": "map_blocks", "args": [a], "fn": self.rng.choice(list(BLOCK_FUNCS))}, tags=("map_blocks",))
        t = self.add({"op": "transpose", "args": [a], "axes": [1, 0]})
        return self.add({"op": self.rng.choice(list(BINARY)), "args": [a, t] if self.rng.random() < 0.5 else [t, a]})

    def g_squeeze(self):
        a = self.pick()
        x = self.env[a]
        ones = [i for i, d in enumerate(x.shape) if d == 1]
        if not ones:
            raise _Skip
        return self.add({"op": "squeeze", "args": [a], "axis": self.rng.choice(ones)})

    def g_flip(self):
        a = self.pick()
        x = self.env[a]
        if x.ndim == 0:
            raise _Skip
        return self.add({"op": "flip", "args": [a], "axis": self.rng.randrange(x.ndim)})

    def g_roll(self):
        a = self.pick()
        x = self.env[a]
        if x.ndim == 0:
            raise _Skip
        return self.add({"op": "roll", "args": [a], "shift": self.rng.randint(-4, 4), "axis": self.rng.randrange(x.ndim)})

    def g_reshape(self):
        a = self.pick()
        x = self.env[a]
        if x.size == 0 or x.ndim == 0:
            raise _Skip
        n = x.size
        divs = [d for d in range(1, n + 1) if n % d == 0]
        d = self.rng.choice(divs)
        shp = [d, n // d] if self.rng.random() < 0.6 else [n]
        if self.rng.random() < 0.3:
            shp = [-1 if i == 0 else s for i, s in enumerate(shp)]
        return self.add({"op": "reshape", "args": [a], "shape": shp})

    def g_broadcast_to(self):
        a = self.pick()
        x = self.env[a]
        if x.ndim >= self.maxrank + 1:
            raise _Skip
        if "swv" in self.tags.get(a, ()) and "swv-consumer" in self.avoid:
            raise _Skip
        shp = [self.rng.randint(1, 3)] + [d for d in x.shape]
        return self.add({"op": "broadcast_to", "args": [a], "shape": shp}, tags=("bcast",))

    def g_map_blocks(self):
        return self.add({"op": "map_blocks", "args": [self.pick()], "fn": self.rng.choice(list(BLOCK_FUNCS))}, tags=("map_blocks",))

    def g_swv_reduce(self):
        a = self.pick()
        x = self.env[a]
        if x.ndim == 0 or 0 in x.shape:
            raise _Skip
        ax = self.rng.randrange(x.ndim)
        if x.shape[ax] < 1:
            raise _Skip
        w = self.rng.randint(1, x.shape[ax])
        return self.add({"op": "swv_reduce", "args": [a], "window": w, "axis": ax, "fn": self.rng.choice(["sum", "max", "min"])}, tags=("swv",))

    def g_repeat(self):
        a = self.pick()
        x = self.env[a]
        if x.ndim == 0:
            raise _Skip
        if "swv" in self.tags.get(a, ()) and "swv-consumer" in self.avoid:
            raise _Skip
        return self.add({"op": "repeat", "args": [a], "repeats": self.rng.randint(1, 3), "axis": self.rng.randrange(x.ndim)})

    def g_clip(self):
        return self.add({"op": "clip", "args": [self.pick()], "lo": self.rng.randint(-5, 3), "hi": self.rng.randint(4, 40)})

    def g_diff(self):
        a = self.pick()
        x = self.env[a]
        if x.ndim == 0:
            raise _Skip
        ax = self.rng.randrange(x.ndim)
        if x.shape[ax] < 2:
            raise _Skip
        return self.add({"op": "diff", "args": [a], "axis": ax})

    # --- third-round generators (additive; in no default op list, so existing streams are unchanged):
    # rank-4/5 sources, axis permutations by every spelling, integer / mixed indices, creation functions with
    # name= / dtype= / chunks forms, ufuncs with out= / where=, length-changing takes.  See T6_OPS below.
    def g_src_hi(self):
        """a fresh rank-4/5 source with small extents (equal extents half of the time: a wrongly permuted
        result then keeps its shape and only the values tell)"""
        rng = self.rng
        r = rng.choice([4, 4, 4, 5])
        top = 4 if r == 4 else 3
        if rng.random() < 0.5:
            n = rng.randint(2, top)
            shape = (n,) * r
        else:
            shape = tuple(rng.randint(1 if rng.random() < 0.15 else 2, top) for _ in range(r))
        return self.new_source(shape)

    def g_perm(self):
        """an axis permutation spelled as transpose / .T-like reversal / moveaxis / rollaxis / swapaxes; for rank >= 3
        non-involutive permutations (cycles) are preferred"""
        rng = self.rng
        a = self.pick()
        n = self.env[a].ndim
        if n < 2:
            raise _Skip
        kind = rng.choice(["transpose", "transpose", "cycle", "cycle", "moveaxis", "moveaxis", "rollaxis", "swapaxes"])
        if kind == "transpose":
            axes = list(range(n))
            rng.shuffle(axes)
            if rng.random() < 0.3:
                axes = [x - n for x in axes]  # negative spelling
            return self.add({"op": "transpose", "args": [a], "axes": axes})
        if kind == "cycle":
            k = rng.randint(1, n - 1)
            axes = [(i + k) % n for i in range(n)]
            if n >= 4 and rng.random() < 0.5:  # a cycle on a subset, the rest fixed
                keep = rng.randrange(n)
                rest = [i for i in range(n) if i != keep]
                k = rng.randint(1, len(rest) - 1)
                rot = rest[k:] + rest[:k]
                axes = list(range(n))
                for i, j in zip(rest, rot):
                    axes[i] = j
            return self.add({"op": "transpose", "args": [a], "axes": axes})
        if kind == "moveaxis":
            m = rng.randint(1, min(3, n))
            src = rng.sample(range(n), m)
            dst = rng.sample(range(n), m)
            if rng.random() < 0.3:
                src = [s - n for s in src]
            if rng.random() < 0.3:
                dst = [d - n for d in dst]
            return self.add({"op": "moveaxis", "args": [a], "source": src, "destination": dst})
        if kind == "rollaxis":
            return self.add({"op": "rollaxis", "args": [a], "axis": rng.randint(-n, n - 1), "start": rng.randint(-n, n)})
        return self.add({"op": "swapaxes", "args": [a], "axis1": rng.randint(-n, n - 1), "axis2": rng.randint(-n, n - 1)})

    def g_getitem_int(self):
        """basic index with at least one integer; the other positions are full / plain / stepped slices (trailing full
        slices dropped half of the time)"""
        rng = self.rng
        a = self.pick()
        shape = self.env[a].shape
        nz = [i for i, d in enumerate(shape) if d > 0]
        if not nz:
            raise _Skip
        ints = set(rng.sample(nz, rng.randint(1, min(len(nz), 2 if len(shape) > 2 else 1))))
        idx = []
        for i, d in enumerate(shape):
            if i in ints:
                idx.append(rng.randint(-d, d - 1))
            elif rng.random() < 0.55:
                idx.append(slice(None))
            else:
                idx.append(gen.rand_slice(rng, d, steps=(None, 1, 2, -1)))
        if rng.random() < 0.5:
            while idx and isinstance(idx[-1], slice) and idx[-1] == slice(None):
                idx.pop()
        return self.add({"op": "getitem", "args": [a], "index": _enc_index(tuple(idx))})

    def g_getitem_any(self):
        """one of every index kind: integer-bearing, explicit-bound slices, general basic (None / Ellipsis), take"""
        r = self.rng.random()
        if r < 0.3:
            return self.g_getitem_int()
        if r < 0.55:
            return self.g_getitem_explicit()
        if r < 0.8:
            return self.g_getitem()
        return self.g_take_len()

    def g_take_len(self):
        """integer-list take whose length differs from the axis length (repeated / dropped positions), or a pure
        permutation (control)"""
        rng = self.rng
        a = self.pick()
        x = self.env[a]
        if x.ndim == 0 or 0 in x.shape:
            raise _Skip
        ax = rng.randrange(x.ndim)
        d = x.shape[ax]
        r = rng.random()
        if r < 0.4:
            lst = [rng.randint(0, d - 1) for _ in range(d + rng.randint(1, 3))]  # longer
        elif r < 0.8 and d > 1:
            lst = rng.sample(range(d), rng.randint(1, d - 1))  # shorter, no repeats
        else:
            lst = list(range(d))
            rng.shuffle(lst)
        if rng.random() < 0.3:
            lst = [v - d if rng.random() < 0.5 else v for v in lst]
        idx = [slice(None)] * ax + [lst]
        return self.add({"op": "getitem", "args": [a], "index": _enc_index(idx)}, tags=("take",))

    def _t6_chunks_arg(self, shape):
        """a chunks= argument for `shape` in one of the accepted forms (explicit / blockshape / uniform int / -1)"""
        rng = self.rng
        r = rng.random()
        if r < 0.55 or not shape:
            return [list(c) for c in rand_chunks_nd(rng, shape)]
        if r < 0.75:
            return [rng.randint(1, max(1, d)) for d in shape]
        if r < 0.92:
            return rng.randint(1, max(1, max(shape)))
        return -1

    def _t6_name(self, fn):
        return f"t6-{fn}-{self.rng.getrandbits(40):010x}"

    def g_creation(self, shape=None, named=None):
        """a creation function (ones / zeros / full / empty / arange / linspace / eye / tri) with or without name=
        and dtype=, chunks in any accepted form"""
        rng = self.rng
        if shape is None:
            r = rng.randint(1, 3)
            shape = tuple(rng.randint(1, self.maxdim) for _ in range(r))
        shape = tuple(int(d) for d in shape)
        fns = ["ones", "zeros", "full", "full", "empty0"]
        if len(shape) == 1 and shape[0] >= 1:
            fns += ["arange", "arange", "linspace"]
        if len(shape) == 2:
            fns += ["eye", "tri"]
        fn = rng.choice(fns)
        st = {"op": "creation", "fn": fn, "shape": list(shape), "chunks": self._t6_chunks_arg(shape),
              "dtype": rng.choice([None, "int64", "int64", "float64", "int32"]), "fill": rng.randint(-4, 9), "name": None}
        if fn in ("ones", "zeros", "full", "empty0"):
            if named if named is not None else rng.random() < 0.6:
                st["name"] = self._t6_name(fn)
            if fn == "empty0":
                st["dtype"] = "int64"
        elif fn == "arange":
            st["start"] = rng.randint(-3, 3)
            st["step"] = rng.choice([1, 1, 2, 3, -1, -2])
        elif fn == "linspace":
            st["start"] = rng.randint(-3, 3)
            st["step"] = rng.choice([1, 2, -1])
            st["dtype"] = rng.choice([None, "float64"])
        else:
            st["k"] = rng.randint(-2, 2)
            c = st["chunks"]
            if fn == "eye" and not isinstance(c, int):
                st["chunks"] = rng.randint(1, max(shape))  # eye takes a uniform block size only
        return self.add(st, tags=("creation",))

    def g_creation_named(self):
        return self.g_creation(named=True)

    def g_creation_like(self):
        """ones_like / zeros_like / full_like of the current array, with or without name= / dtype= / chunks="""
        rng = self.rng
        a = self.pick()
        x = self.env[a]
        if x.ndim == 0:
            raise _Skip
        fn = rng.choice(["ones_like", "zeros_like", "full_like"])
        st = {"op": "creation", "fn": fn, "args": [a], "shape": list(x.shape), "fill": rng.randint(-4, 9),
              "chunks": None if rng.random() < 0.5 else self._t6_chunks_arg(x.shape),
              "dtype": rng.choice([None, None, "int64", "float64"]), "name": self._t6_name(fn) if rng.random() < 0.6 else None}
        return self.add(st, tags=("creation",))

    def g_creation_binary(self):
        """current (op) creation-of-the-same-or-broadcastable-shape: an index on the result is pushed through the
        elementwise node into the creation node"""
        rng = self.rng
        a = self.pick()
        x = self.env[a]
        if x.ndim == 0 or x.ndim > 3:
            raise _Skip
        shp = list(x.shape)
        if rng.random() < 0.3:
            k = rng.randint(0, len(shp) - 1)
            shp = [1 if rng.random() < 0.3 else d for d in shp[k:]]
        b = self.g_creation(shape=tuple(shp)) if rng.random() < 0.8 or tuple(shp) != x.shape else self.g_creation_like()
        return self.add({"op": rng.choice(list(BINARY)), "args": [a, b] if rng.random() < 0.5 else [b, a]})

    def g_src_named(self):
        """from_array(..., name=<str>) of the shape of the current array (or a fresh one)"""
        rng = self.rng
        r = rng.randint(1, 3)
        shape = tuple(rng.randint(1, self.maxdim) for _ in range(r))
        step = {"op": "src_named", "shape": list(shape), "chunks": [list(c) for c in rand_chunks_nd(rng, shape)],
                "mul": rng.choice([1, 3, 7]), "off": rng.randint(-5, 5), "mod": rng.choice([1 << 20, 11, 5]),
                "name": self._t6_name("src")}
        return self.add(step)

    def g_map_blocks_named(self):
        fn = self.rng.choice(list(BLOCK_FUNCS))
        return self.add({"op": "map_blocks_named", "args": [self.pick()], "fn": fn, "name": self._t6_name(fn)}, tags=("map_blocks",))

    def g_ufunc_out(self, where=None):
        """ufunc(a, b, out=o[, where=w]) with o (and w) fresh sources of the result's shape with their own chunks;
        the step's value is o after the call.  b broadcasts against a in a third of the cases."""
        rng = self.rng
        a = self.pick()
        x = self.env[a]
        if x.ndim == 0 or 0 in x.shape or x.dtype != np.int64:
            raise _Skip
        fn = rng.choice(["add", "subtract", "multiply", "maximum", "minimum", "negative", "absolute"])
        args = [a]
        if fn not in ("negative", "absolute"):
            if rng.random() < 0.35:
                k = rng.randint(0, x.ndim - 1)
                shp = [1 if rng.random() < 0.3 else d for d in x.shape[k:]]
            else:
                shp = list(x.shape)
            b = self.new_source(tuple(shp))
            args = [a, b] if rng.random() < 0.6 else [b, a]
        st = {"op": "ufunc_out", "fn": fn, "where_mod": None}
        if where if where is not None else rng.random() < 0.3:
            r = rng.random()
            wshape = x.shape if r < 0.6 else tuple(1 if rng.random() < 0.5 else d for d in x.shape[rng.randint(0, x.ndim - 1):])
            args.append(self.new_source(wshape))
            st["where_mod"] = rng.randint(2, 3)
        args.append(self.new_source(x.shape))
        st["args"] = args
        return self.add(st, tags=("out",))

    def g_ufunc_out_true(self):
        return self.g_ufunc_out(where=False)

    def g_ufunc_out_where(self):
        return self.g_ufunc_out(where=True)


class Directed(ProgGen):
    """ProgGen whose operand choice is the most recent variable: builds chains."""

    last = None

    def pick(self):
        return self.last

    def add(self, step, tags=()):
        self.last = super().add(step, tags)
        return self.last


def directed_programs(rng, n, patterns, **kw):
    """n short chains, pattern i % len(patterns): a fresh source followed by the op kinds of the pattern."""
    kw.setdefault("maxrank", 3)
    kw.setdefault("maxdim", 6)
    kw.setdefault("zero_axes", 0.0)
    for i in range(n):
        g = Directed(rng, **kw)
        g.new_source()
        g.last = list(g.env)[-1]
        pat = patterns[i % len(patterns)]
        try:
            for kind in pat:
                getattr(g, "g_" + kind)()
        except _Skip:
            continue
        yield pat, g


class _Skip(Exception):
    pass


def _bcast_ok(s1, s2):
    try:
        np.broadcast_shapes(s1, s2)
        return True
    except ValueError:
        return False


def gen_program(rng, depth=4, **kw):
    g = ProgGen(rng, **kw)
    g.new_source()
    if rng.random() < 0.3:
        g.new_source()
    last = None
    for _ in range(depth):
        out = g.step()
        if out is not None:
            last = out
    return g.prog, g


def shrink(prog, still_fails, max_iter=200):
    """Greedy delta-debugging over steps: try to drop trailing steps and unused steps and
    to replace the root by an earlier variable."""
    prog = list(prog)
    it = 0
    # 1. shortest failing prefix
    for n in range(1, len(prog)):
        it += 1
        try:
            if still_fails(prog[:n]):
                prog = prog[:n]
                break
        except Exception:
            pass
    # 2. drop unused steps
    changed = True
    while changed and it < max_iter:
        changed = False
        root = prog[-1]["out"]
        used = {root}
        for st in reversed(prog):
            if st["out"] in used:
                used |= set(st.get("args", []))
                if isinstance(st.get("value"), str):
                    used.add(st["value"])
        slim = [st for st in prog if st["out"] in used]
        if len(slim) < len(prog):
            prog = slim
            changed = True
        # 3. try bypassing each unary-ish step
        for i, st in enumerate(prog[:-1]):
            if st["op"] == "src" or len(st.get("args", [])) != 1:
                continue
            it += 1
            sub = st["args"][0]
            cand = []
            for s2 in prog[:i] + prog[i + 1:]:
                s2 = dict(s2)
                if "args" in s2:
                    s2["args"] = [sub if a == st["out"] else a for a in s2["args"]]
                cand.append(s2)
            try:
                run_np(cand)
                if still_fails(cand):
                    prog = cand
                    changed = True
                    break
            except Exception:
                continue
    return prog


# =====================================================================================
# Extensions used by the graph-level checks (C04, C10, C21).  Added functions only: the
# behaviour (and the random streams) of everything above is unchanged.
# =====================================================================================

# extra block functions for map_blocks (kept apart from BLOCK_FUNCS so existing streams
# drawing from BLOCK_FUNCS are not perturbed)
BLOCK_FUNCS_EXT = {
    "ident": lambda b: b,  # returns its input object (aliasing between task values)
    "inplace_safe": lambda b: np.add(b, 1),  # fresh output
}

EXT_OPS = ("setitem", "astype", "map_ident", "big_src", "split_rechunk", "where_scalar")


def apply_step_ext(step, env, m, da_mode, sources=None):
    """`apply_step` plus the extra ops of the graph-level checks.  `sources`: optional dict
    name -> ndarray; the arrays handed to `from_array` are stored there (and reused when
    already present) so a caller can fingerprint the user's own objects."""
    op = step["op"]
    A = [env[a] for a in step.get("args", [])]
    if op == "src":
        if not da_mode:
            return source_data(step)
        if sources is None:
            data = source_data(step)
        else:
            if step["out"] not in sources:
                sources[step["out"]] = source_data(step)
            data = sources[step["out"]]
        return m.from_array(data, chunks=tuple(tuple(c) for c in step["chunks"]))
    if op == "astype":
        return A[0].astype(step["dtype"])
    if op == "map_ident":
        f = BLOCK_FUNCS_EXT[step["fn"]]
        return A[0].map_blocks(f, dtype=A[0].dtype) if da_mode else f(A[0])
    if op == "where_scalar":
        return m.where(A[0] % step["mod"] == 0, A[0], step["fill"])
    if op in EXT2_OPS:
        return _apply_step_ext2(step, A, m, da_mode)
    return apply_step(step, env, m, da_mode)


def run_np_ext(prog):
    env = {}
    for step in prog:
        env[step["out"]] = apply_step_ext(step, env, np, False)
    return env


def run_da_ext(prog, sources=None, upto=None):
    """Evaluate with dask_array; `sources` (dict) receives/provides the NumPy arrays behind
    every `from_array` so that the caller keeps references to the user's objects."""
    import dask_array as da

    env = {}
    for step in prog[: upto if upto is not None else len(prog)]:
        env[step["out"]] = apply_step_ext(step, env, da, True, sources)
    return env


class ProgGenExt(ProgGen):
    """ProgGen plus setitem / astype / identity map_blocks / big-block sources whose
    rechunk-splits and slices are views (copy-if-small in `chunk.getitem`)."""

    def add(self, step, tags=()):
        step["out"] = self.fresh()
        self.env[step["out"]] = apply_step_ext(step, self.env, np, False)
        self.prog.append(step)
        t = set(tags)
        for a in step.get("args", []):
            t |= self.tags.get(a, set())
        if isinstance(step.get("value"), str):
            t |= self.tags.get(step["value"], set())
        self.tags[step["out"]] = t
        return step["out"]

    def g_setitem(self):
        a = self.pick()
        x = self.env[a]
        if x.ndim == 0 or 0 in x.shape:
            raise _Skip
        if "swv" in self.tags.get(a, ()) and "swv-consumer" in self.avoid:
            raise _Skip
        idx = rand_basic_index(self.rng, x.shape, allow_none=False, allow_ellipsis=False, allow_neg_step=False)
        tgt = x[idx]
        if tgt.size == 0:
            raise _Skip  # dask refuses some empty-target assignments NumPy accepts (not a graph property)
        if self.rng.random() < 0.5 or tgt.ndim == 0:
            v = self.rng.randint(-9, 9)
        else:
            cands = [b for b in self.env if b != a and _bcast_to_ok(self.env[b].shape, tgt.shape)
                     and not ("swv" in self.tags.get(b, ()) and "swv-consumer" in self.avoid)]
            v = self.rng.choice(cands) if cands else self.rng.randint(-9, 9)
            if isinstance(v, str) and self.env[v].ndim:
                # a multi-chunk dask value makes SetItem raise at compute time on the unchanged tree
                # (concatenate3 called with 2 arguments; reported, not a graph property): single-chunk it
                v = self.add({"op": "rechunk", "args": [v], "chunks": [[d] for d in self.env[v].shape]})
        return self.add({"op": "setitem", "args": [a], "index": _enc_index(idx), "value": v}, tags=("setitem",))

    def g_astype(self):
        return self.add({"op": "astype", "args": [self.pick()], "dtype": self.rng.choice(["int64", "int32", "float64", "int64"])})

    def g_map_ident(self):
        return self.add({"op": "map_ident", "args": [self.pick()], "fn": self.rng.choice(list(BLOCK_FUNCS_EXT))}, tags=("map_blocks",))

    def g_where_scalar(self):
        return self.add({"op": "where_scalar", "args": [self.pick()], "mod": self.rng.randint(2, 4), "fill": self.rng.randint(-3, 3)})

    def g_split_rechunk(self):
        """rechunk a coarse array into pieces: the split pieces of a big block are slices of it"""
        a = self.pick()
        x = self.env[a]
        if x.ndim == 0 or x.size == 0:
            raise _Skip
        first = [[d] for d in x.shape]
        mid = self.add({"op": "rechunk", "args": [a], "chunks": first})
        second = []
        for d in x.shape:
            k = self.rng.randint(1, max(1, d))
            second.append([k] + ([d - k] if d - k else []))
        return self.add({"op": "rechunk", "args": [mid], "chunks": second})


def _bcast_to_ok(src, dst):
    try:
        return np.broadcast_shapes(src, dst) == tuple(dst)
    except ValueError:
        return False


EXT_DEFAULT_OPS = DEFAULT_OPS + ("setitem", "setitem", "astype", "map_ident", "split_rechunk", "where_scalar")


def gen_program_ext(rng, depth=4, nsrc=None, **kw):
    kw.setdefault("ops", EXT_DEFAULT_OPS)
    g = ProgGenExt(rng, **kw)
    g.new_source()
    for _ in range((nsrc - 1) if nsrc else (1 if rng.random() < 0.3 else 0)):
        g.new_source()
    for _ in range(depth):
        g.step()
    return g.prog, g


def prog_ancestry(prog):
    """name -> set of op names among the step and all its ancestors (incl. setitem values)."""
    anc = {}
    for st in prog:
        s = {st["op"]}
        for a in st.get("args", []):
            s |= anc.get(a, set())
        if isinstance(st.get("value"), str):
            s |= anc.get(st["value"], set())
        if st["op"] == "getitem" and any(isinstance(i, list) and i and i[0] == "l" for i in st["index"]):
            s.add("take")
        anc[st["out"]] = s
    return anc


def in_known_class(prog, npenv=None):
    """Static membership test for the defect families documented in DESIGN.md §8 /
    known_findings.json that the graph-level generators must not emit.  Returns the
    signature or None."""
    anc = prog_ancestry(prog)
    npenv = npenv if npenv is not None else run_np_ext(prog)
    zero_src = {st["out"] for st in prog if st["op"] == "src" and any(0 in c for c in st["chunks"]) and 0 not in st["shape"]}
    if zero_src:
        # a sliding-window reduction over a source with a zero-width chunk raises under optimization
        # ('adjust_chunks specified with N blocks'): member of the documented swv-layout-drift family
        srcs = {}
        for st in prog:
            srcs[st["out"]] = ({st["out"]} if st["op"] == "src" else set()).union(*[srcs.get(a, set()) for a in st.get("args", [])])
            if st["op"] == "swv_reduce" and srcs[st["out"]] & zero_src:
                return "swv-layout-drift"
    for st in prog:
        args = st.get("args", [])
        up = set().union(*[anc.get(a, set()) for a in args]) if args else set()
        if isinstance(st.get("value"), str):
            up |= anc.get(st["value"], set())
        # (the former "slice-of-dask-int-index" avoidance is gone: slicing / taking — directly or through roll/flip/
        # diff/... — the result of x[<dask int array>] computes since /repo de6ba02 + 3422420; ~900 formerly excluded
        # programs were compared with NumPy, optimized and not, before the branch was removed)
        if "ufunc_where_out" in up and st["op"] not in _DASK_INDEX_SAFE:
            # an integer index / stepped slice pushed through ufunc(where=<array>, out=<dask array>) raises under
            # optimization on the unchanged tree ("Chunks and shape must be of the same length", "Chunks do not
            # add up ..."); correct with array.optimize-graph=False (reported)
            return "slice-through-where-out"
        if st["op"] in ("broadcast_to", "repeat", "setitem", "tile", "swv_reduce") and "swv_reduce" in up:
            return "swv-layout-drift"
        if st["op"] == "getitem" and "swv_reduce" in up and npenv[st["out"]].size == 0:
            return "swv-layout-drift"
        if st["op"] == "getitem" and any(isinstance(i, list) and i and i[0] == "l" for i in st["index"]) and "broadcast_to" in up:
            return "take-through-broadcast"
        if (st["op"] == "reduce" and st["fn"] in ("min", "max")) or (st["op"] == "swv_reduce" and st["fn"] in ("min", "max")):
            if npenv[args[0]].size == 0:
                return "minmax-zero-size"
    return None


_DASK_INDEX_SAFE = set(UNARY) | set(BINARY) | {"reduce", "rechunk", "map_blocks", "map_ident", "astype", "persist", "clip", "where_scalar", "create"}

_KNOWN_MSG = (
    ("swv-layout-drift", ("Missing dependency ('sliding-window-", "adjust_chunks specified with", "optimization changed the block structure"), "swv_reduce"),
    ("take-through-broadcast", ("Chunks do not add up to shape",), "broadcast_to"),
)


def classify_known(prog, message):
    """Signature of a documented defect family for a failure message, else None."""
    ops = {st["op"] for st in prog}
    for sig, texts, needs in _KNOWN_MSG:
        if needs in ops and any(t in message for t in texts):
            return sig
    k = in_known_class(prog) if all(st["op"] != "reshape" for st in prog) else None
    if k == "minmax-zero-size" and ("zero-size array" in message or "shape" in message):
        return k
    return None


def gen_clean_program(rng, depth, ext=False, tries=50, **kw):
    """A generated program outside the documented defect families (and whose construction is
    not refused); returns (prog, npenv)."""
    kw.setdefault("avoid", ("swv-consumer",))
    kw.setdefault("zero_axes", 0)
    for _ in range(tries):
        prog, g = (gen_program_ext if ext else gen_program)(rng, depth=depth, **kw)
        if in_known_class(prog, g.env) is None:
            return prog, g.env
    raise RuntimeError("generator could not leave the known-defect classes")


# ------------------------------------------------------------------------------------
# second extension round (graph-level checks): creation ops with irregular chunks,
# concatenate=True contractions, masked setitem values, ufunc(where=, out=), persist,
# zero-width source chunks.  Added functions only.
# ------------------------------------------------------------------------------------

EXT2_OPS = ("create", "setitem_masked", "ufunc_where_out", "persist", "blockwise_concat",
            "apply_along_axis", "take_dask_index", "apply_gufunc")


def _row_sum(b):
    return b.sum(axis=-1)


def _rev_cumsum(v):
    return v[::-1].cumsum()


def _apply_step_ext2(step, A, m, da_mode):
    op = step["op"]
    if op == "create":
        shape = tuple(step["shape"])
        kw = {"chunks": tuple(tuple(c) for c in step["chunks"])} if da_mode else {}
        fn = step["fn"]
        if fn == "ones":
            return m.ones(shape, dtype=step["dtype"], **kw)
        if fn == "zeros":
            return m.zeros(shape, dtype=step["dtype"], **kw)
        if fn == "full":
            return m.full(shape, step["fill"], dtype=step["dtype"], **kw)
        if fn == "arange":
            return m.arange(shape[0], dtype=step["dtype"], **kw)
        raise KeyError(fn)
    if op == "setitem_masked":
        x = A[0].copy()
        x[_dec_index(step["index"])] = np.ma.masked_array(np.array(step["data"]).reshape(step["vshape"]), mask=np.array(step["mask"]).reshape(step["vshape"]))
        return x
    if op == "ufunc_where_out":
        o = A[3].copy()
        m.add(A[0], A[1], where=(A[2] % step["mod"] == 0), out=o)
        return o
    if op == "persist":
        return A[0].persist(scheduler="sync") if da_mode else A[0]
    if op == "blockwise_concat":
        if not da_mode:
            return _row_sum(A[0])
        idx = "abcdefg"[: A[0].ndim]
        return m.blockwise(_row_sum, idx[:-1], A[0], idx, concatenate=True, dtype=A[0].dtype)
    if op == "apply_along_axis":
        if not da_mode:
            return np.apply_along_axis(_rev_cumsum, step["axis"], A[0])
        return m.apply_along_axis(_rev_cumsum, step["axis"], A[0], dtype=A[0].dtype, shape=(A[0].shape[step["axis"]],))
    if op == "take_dask_index":
        idx = np.array(step["idx"], dtype=np.int64)
        if not da_mode:
            return A[0][idx]
        return A[0][m.from_array(idx, chunks=step["ichunk"])]
    if op == "apply_gufunc":
        if not da_mode:
            return _row_sum(A[0])
        return m.apply_gufunc(_row_sum, "(i)->()", A[0], output_dtypes=A[0].dtype, allow_rechunk=True)
    raise KeyError(op)


def irregular_chunks(rng, n):
    """a chunking of n with >= 4 blocks whose differing block is an interior one that fixed sample
    positions (first / middle / last) miss; None when n is too small"""
    if n < 5:
        return None
    k = rng.randint(4, min(n - 1, 7))
    base = [1] * k
    extra = n - k
    pos = rng.choice([i for i in range(1, k - 1) if i != k // 2] or [1])
    if rng.random() < 0.5:
        base[pos] += extra
    else:
        base[pos] += 1
        for _ in range(extra - 1):
            base[rng.randrange(k)] += 1
    return base


class ProgGenExt2(ProgGenExt):
    """ProgGenExt + the second-round ops; `zero_chunks`: probability that a source gets a
    zero-width block inserted into one of its axes."""

    def __init__(self, rng, zero_chunks=0.0, **kw):
        super().__init__(rng, **kw)
        self.zero_chunks = zero_chunks

    def _swv(self, a):
        return "swv" in self.tags.get(a, ()) and "swv-consumer" in self.avoid

    def new_source(self, shape=None):
        out = super().new_source(shape)
        st = self.prog[-1]
        if st["op"] == "src" and st["shape"] and self.rng.random() < self.zero_chunks:
            ax = self.rng.randrange(len(st["shape"]))
            if st["shape"][ax] <= 1:
                # a length-1 axis chunked (0, 1) cannot be broadcast on the unchanged tree
                # ("Chunks do not add up to same value"; reported, not a graph property)
                return out
            c = list(st["chunks"][ax])
            c.insert(self.rng.randint(0, len(c)), 0)
            st["chunks"][ax] = c
        return out

    def g_create_binary(self):
        a = self.pick()
        x = self.env[a]
        if x.ndim == 0 or x.ndim > 2 or 0 in x.shape or self._swv(a):
            raise _Skip
        chunks = []
        for d in x.shape:
            c = irregular_chunks(self.rng, d) if self.rng.random() < 0.7 else None
            chunks.append(c or list(gen.rand_chunks(self.rng, d)))
        fn = self.rng.choice(["ones", "zeros", "full", "ones", "arange"] if x.ndim == 1 else ["ones", "zeros", "full"])
        b = self.add({"op": "create", "fn": fn, "shape": list(x.shape), "chunks": chunks, "dtype": "int64", "fill": self.rng.randint(-4, 9)})
        r = self.rng.random()
        if r < 0.35:
            return self.add({"op": self.rng.choice(list(UNARY)), "args": [b]})
        if r < 0.55:
            a2 = self.add({"op": "rechunk", "args": [a], "chunks": chunks})
            return self.add({"op": self.rng.choice(list(BINARY)), "args": [a2, b]})
        return self.add({"op": self.rng.choice(list(BINARY)), "args": [a, b] if self.rng.random() < 0.5 else [b, a]})

    def g_setitem_masked(self):
        a = self.pick()
        x = self.env[a]
        if x.ndim == 0 or 0 in x.shape or self._swv(a) or x.dtype.kind not in "iu":
            raise _Skip
        idx = rand_basic_index(self.rng, x.shape, allow_none=False, allow_ellipsis=False, allow_neg_step=False, allow_int=False)
        tgt = x[idx]
        if tgt.size == 0 or tgt.size > 40:
            raise _Skip
        data = [self.rng.randint(-9, 9) for _ in range(tgt.size)]
        mask = [self.rng.random() < 0.4 for _ in range(tgt.size)]
        return self.add({"op": "setitem_masked", "args": [a], "index": _enc_index(idx), "data": data, "mask": mask, "vshape": list(tgt.shape)}, tags=("setitem", "masked"))

    def g_ufunc_where_out(self):
        a = self.pick()
        x = self.env[a]
        if x.ndim == 0 or 0 in x.shape or self._swv(a) or x.dtype.kind not in "iu":
            raise _Skip
        same = [b for b in self.env if self.env[b].shape == x.shape and self.env[b].dtype == x.dtype and not self._swv(b)]
        b = self.rng.choice(same)
        c = self.rng.choice(same)
        # the out array: a single-chunk source (its block owns its data) or a persisted array
        o = self.new_source(x.shape)
        self.prog[-1]["chunks"] = [[d] for d in x.shape]
        if self.rng.random() < 0.5:
            o = self.add({"op": "persist", "args": [o]})
        return self.add({"op": "ufunc_where_out", "args": [a, b, c, o], "mod": self.rng.randint(2, 3)}, tags=("out",))

    def g_persist(self):
        a = self.pick()
        if self._swv(a):
            raise _Skip
        return self.add({"op": "persist", "args": [a]})

    def g_blockwise_concat(self):
        a = self.pick()
        x = self.env[a]
        if x.ndim < 2 or 0 in x.shape or self._swv(a):
            raise _Skip
        return self.add({"op": "blockwise_concat", "args": [a]}, tags=("concat",))

    def g_apply_along_axis(self):
        a = self.pick()
        x = self.env[a]
        if x.ndim < 1 or 0 in x.shape or self._swv(a):
            raise _Skip
        return self.add({"op": "apply_along_axis", "args": [a], "axis": self.rng.randrange(x.ndim)}, tags=("concat",))

    def g_apply_gufunc(self):
        a = self.pick()
        x = self.env[a]
        if x.ndim < 2 or 0 in x.shape or self._swv(a):
            raise _Skip
        return self.add({"op": "apply_gufunc", "args": [a]}, tags=("concat",))

    def g_take_dask_index(self):
        a = self.pick()
        x = self.env[a]
        if x.ndim != 1 or x.shape[0] == 0 or self._swv(a) or "bcast" in self.tags.get(a, ()):
            raise _Skip
        n = x.shape[0]
        idx = [self.rng.randint(0, n - 1) for _ in range(self.rng.randint(2, n + 2))]
        return self.add({"op": "take_dask_index", "args": [a], "idx": idx, "ichunk": self.rng.randint(1, len(idx))}, tags=("take",))


EXT2_DEFAULT_OPS = EXT_DEFAULT_OPS + ("create_binary", "create_binary", "setitem_masked", "ufunc_where_out", "persist",
                                      "blockwise_concat", "blockwise_concat", "apply_along_axis", "apply_gufunc", "take_dask_index")


def gen_program_ext2(rng, depth=4, nsrc=None, **kw):
    kw.setdefault("ops", EXT2_DEFAULT_OPS)
    g = ProgGenExt2(rng, **kw)
    g.new_source()
    for _ in range((nsrc - 1) if nsrc else (1 if rng.random() < 0.3 else 0)):
        g.new_source()
    for _ in range(depth):
        g.step()
    return g.prog, g


def gen_clean_program2(rng, depth, tries=50, **kw):
    """like gen_clean_program(ext=True) over the second-round op set"""
    kw.setdefault("avoid", ("swv-consumer",))
    kw.setdefault("zero_axes", 0)
    for _ in range(tries):
        prog, g = gen_program_ext2(rng, depth=depth, **kw)
        if in_known_class(prog, g.env) is None:
            return prog, g.env
    raise RuntimeError("generator could not leave the known-defect classes")


# ------------------------------------------------------------------------------------
# third extension round (program-level checks C02 / C08): axis permutations by name, creation
# functions with name= / dtype= / chunks forms, from_array(name=), ufunc(out=[, where=]).
# Evaluated by `apply_step` itself (so `run_np` / `run_da` / `progcheck.build` understand them).
# Added functions only.
# ------------------------------------------------------------------------------------

T6_OPS = ("moveaxis", "swapaxes", "rollaxis", "creation", "src_named", "ufunc_out", "map_blocks_named")

_T6_DEFAULT_DTYPE = {"ones": "float64", "zeros": "float64", "eye": "float64", "tri": "float64", "empty0": "int64"}


def _t6_chunks(c):
    if isinstance(c, list):
        return tuple(tuple(v) if isinstance(v, list) else v for v in c)
    return c


def _apply_step_t6(step, A, m, da_mode):
    op = step["op"]
    if op == "moveaxis":
        return m.moveaxis(A[0], tuple(step["source"]), tuple(step["destination"]))
    if op == "swapaxes":
        return m.swapaxes(A[0], step["axis1"], step["axis2"])
    if op == "rollaxis":
        return m.rollaxis(A[0], step["axis"], step["start"])
    if op == "map_blocks_named":
        f = BLOCK_FUNCS[step["fn"]]
        return A[0].map_blocks(f, dtype=A[0].dtype, name=step["name"]) if da_mode else f(A[0])
    if op == "src_named":
        data = source_data(step)
        if da_mode:
            return m.from_array(data, chunks=tuple(tuple(c) for c in step["chunks"]), name=step["name"])
        return data
    if op == "creation":
        fn = step["fn"]
        shape = tuple(step["shape"])
        dt = step.get("dtype")
        kw = {}
        if da_mode:
            if step.get("chunks") is not None:
                kw["chunks"] = _t6_chunks(step["chunks"])
            if step.get("name") is not None:
                kw["name"] = step["name"]
        if fn.endswith("_like"):
            if dt is not None:
                kw["dtype"] = dt
            if fn == "full_like":
                return m.full_like(A[0], step["fill"], **kw)
            return getattr(m, fn)(A[0], **kw)
        if dt is not None or not da_mode:
            d = dt if dt is not None else _T6_DEFAULT_DTYPE.get(fn)
            if d is not None:
                kw["dtype"] = d
        if fn in ("ones", "zeros"):
            return getattr(m, fn)(shape, **kw)
        if fn == "full":
            return m.full(shape, step["fill"], **kw)
        if fn == "empty0":
            # empty() has unspecified contents: times 0 (integer dtype) it is zeros, through one more elementwise node
            return (m.empty(shape, **kw) * 0) if da_mode else np.zeros(shape, dtype=kw["dtype"])
        if fn == "arange":
            s, k = step["start"], step["step"]
            return m.arange(s, s + shape[0] * k, k, **kw)
        if fn == "linspace":
            s, k = step["start"], step["step"]
            return m.linspace(s, s + (shape[0] - 1) * k, shape[0], **kw)
        if fn == "eye":
            if da_mode:
                return m.eye(shape[0], M=shape[1], k=step["k"], **kw)
            return np.eye(shape[0], M=shape[1], k=step["k"], **kw)
        if fn == "tri":
            return m.tri(shape[0], M=shape[1], k=step["k"], **kw)
        raise KeyError(fn)
    if op == "ufunc_out":
        o = A[-1].copy()
        kw = {"out": o}
        ins = A[:-1]
        if step.get("where_mod"):
            kw["where"] = ins[-1] % step["where_mod"] == 0
            ins = ins[:-1]
        res = getattr(m, step["fn"])(*ins, **kw)
        return o if da_mode else res
    raise KeyError(op)


class DirectedT6(Directed):
    """Directed + a magnitude guard for floating results (creation functions default to float64): every value stays
    an exactly representable integer, so any evaluation order gives the same bits."""

    def add(self, step, tags=()):
        prev = self.last
        out = super().add(step, tags)
        val = self.env[out]
        if val.size and val.dtype.kind == "f" and not (np.isfinite(val).all() and float(np.abs(val).max()) <= float(1 << 40)):
            self.prog.pop()
            del self.env[out]
            self.tags.pop(out, None)
            self.k -= 1
            self.last = prev
            raise _Skip
        return out


def directed_programs_t6(rng, n, patterns, **kw):
    """like `directed_programs` over DirectedT6; a pattern starting with a source generator (`src_hi`, `creation*`,
    `src_named`) starts from that source instead of a default one"""
    kw.setdefault("maxrank", 3)
    kw.setdefault("maxdim", 6)
    kw.setdefault("zero_axes", 0.0)
    for i in range(n):
        g = DirectedT6(rng, **kw)
        pat = patterns[i % len(patterns)]
        try:
            if pat[0] not in ("src_hi", "creation", "creation_named", "src_named"):
                g.new_source()
            for kind in pat:
                getattr(g, "g_" + kind)()
        except _Skip:
            continue
        yield pat, g


# third-round directed chains (generators in harness/programs.py, "third-round generators"): (kwargs of the program
# generator, patterns).  A pattern starting with a source generator starts from that source.
T6_PATTERNS = {
    # rank-4/5 sources, permutations by every spelling, then integer / mixed indices (index pushed below the transpose)
    "perm": ({"maxrank": 5}, (
        ("src_hi", "perm", "getitem_int"), ("src_hi", "perm", "perm", "getitem_int"), ("src_hi", "perm", "unary", "getitem_int"),
        ("src_hi", "perm", "getitem_any"), ("src_hi", "unary", "perm", "getitem_int", "getitem_int"), ("src_hi", "perm", "getitem_int", "perm"),
        ("src_hi", "perm", "getitem_int", "binary_new"), ("src_hi", "perm", "reduce", "getitem_any"),
        # siblings: other pushdowns through a permutation, other rules that renumber the surviving axes at rank >= 4
        ("src_hi", "perm", "take_len"), ("src_hi", "perm", "rechunk"), ("src_hi", "expand_dims", "getitem_int"),
        ("src_hi", "reduce", "getitem_int"), ("src_hi", "stack", "getitem_int"), ("src_hi", "concatenate", "getitem_int"),
        ("src_hi", "getitem_int", "getitem_int"), ("src_hi", "flip", "perm", "getitem_int"),
    )),
    # creation functions with / without name=, dtype=, chunks forms, then every index kind
    "creation": ({}, (
        ("creation", "getitem_any"), ("creation_named", "getitem_any"), ("creation_named", "getitem_int"), ("creation_named", "getitem_explicit"),
        ("creation_binary", "getitem_any"), ("creation_binary", "getitem_explicit"), ("creation_like", "getitem_any"),
        ("creation_named", "unary", "getitem_any"), ("creation_named", "getitem_any", "getitem_any"), ("creation_binary", "unary", "getitem_int"),
        ("src_named", "getitem_any"), ("src_named", "unary", "getitem_any"), ("creation_named", "perm", "getitem_any"),
        ("creation_named", "rechunk", "getitem_any"), ("creation_named", "reduce"), ("creation_named", "getitem_any", "reduce"),
        ("creation_named", "take_len"), ("creation_binary", "take_len"), ("creation_named", "expand_dims", "getitem_any"),
        ("creation_named", "rechunk"), ("map_blocks_named", "getitem_any"), ("creation_like", "take_len"),
    )),
    # ufunc(out=) / ufunc(out=, where=<array>), then slices, integer indices, takes that change the axis length
    "out": ({}, (
        ("ufunc_out_true", "take_len"), ("ufunc_out_true", "getitem_any"), ("ufunc_out_true", "getitem_int"), ("ufunc_out_true", "getitem_explicit"),
        ("ufunc_out_true", "unary", "take_len"), ("ufunc_out_true", "perm", "getitem_any"), ("ufunc_out_true", "take_len", "take_len"),
        ("ufunc_out_true", "reduce"), ("ufunc_out_true", "rechunk", "take_len"), ("ufunc_out_true", "binary_new", "take_len"),
        ("ufunc_out_where", "take_len"), ("ufunc_out_where", "getitem_any"), ("ufunc_out_where", "getitem_int"),
        ("ufunc_out_where", "getitem_explicit"), ("ufunc_out_where", "unary", "take_len"), ("ufunc_out_where", "ufunc_out_true", "getitem_any"),
    )),
}
