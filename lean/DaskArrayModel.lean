import DaskArrayModel.Py.Basic
import DaskArrayModel.Proto
import DaskArrayModel.Model.Slicing
import DaskArrayModel.Model.SliceSpec
import DaskArrayModel.Model.Rechunk
import DaskArrayModel.Model.RechunkSpec
import DaskArrayModel.Props.C13
import DaskArrayModel.Props.C15
