import DaskArrayModel.Py.Basic
import DaskArrayModel.Model.Slicing
