/-
The index-kind-agnostic core of the pushdown theorem: if the operands of a well-formed node with a
`LabelLocal` function are replaced by their re-indexings under `R` (a re-indexing of point labels that no
operand broadcasts), the new node is well-formed and denotes the re-indexing of the old result.
-/
import DaskArrayModel.Lemmas.BlockwiseGateBlocks
namespace Dask.BWG
open Dask.Py Dask.ND Dask.Contract

/-- `bw'` is `bw` with operands re-indexed by `R` (values up to `Arr.Equiv`) -/
structure Reindexed (R : Reix) (bw bw' : BW) : Prop where
  f : bw'.f = bw.f
  outInd : bw'.outInd = bw.outInd
  newAxes : bw'.newAxes = bw.newAxes
  adjust : bw'.adjust = bw.adjust
  len : bw'.ops.length = bw.ops.length
  ind : ∀ t, t < bw.ops.length → (bw'.ops.getD t dO).ind = (bw.ops.getD t dO).ind
  isArr : ∀ t, t < bw.ops.length → (bw'.ops.getD t dO).isArr = (bw.ops.getD t dO).isArr
  piece : ∀ t, t < bw.ops.length → (bw'.ops.getD t dO).pieceRank = (bw.ops.getD t dO).pieceRank
  chunks : ∀ t, t < bw.ops.length → (bw'.ops.getD t dO).chunks.length = (bw.ops.getD t dO).arr.shape.length
  arr : ∀ t, t < bw.ops.length → Arr.Equiv (bw'.ops.getD t dO).arr
    (reix R (labLen bw) (bw.ops.getD t dO).labels (bw.ops.getD t dO).arr)

/-- the hypotheses on the re-indexing -/
structure ReixOK (R : Reix) (bw : BW) : Prop where
  point : ∀ l, R.act l = true → bw.sig.point l = true
  range : ∀ l, R.act l = true → ∀ x, x < R.len l → R.map l x < labLen bw l
  /-- no operand broadcasts a label the re-indexing acts on -/
  unbroadcast : ∀ l, R.act l = true → ∀ p ∈ lenPairs bw.ops, p.1 = l → p.2 = labLen bw l

/-- label lengths after the re-indexing -/
def newLen (R : Reix) (bw : BW) (l : Nat) : Nat := if R.act l then R.len l else labLen bw l

theorem Reindexed.labels {R : Reix} {bw bw' : BW} (h : Reindexed R bw bw') (t : Nat) (ht : t < bw.ops.length) :
    (bw'.ops.getD t dO).labels = (bw.ops.getD t dO).labels := by
  unfold Opd.labels; rw [h.ind t ht]

theorem Reindexed.sig {R : Reix} {bw bw' : BW} (h : Reindexed R bw bw') : bw'.sig = bw.sig := by
  have hinds : bw'.ops.map Opd.labels = bw.ops.map Opd.labels := by
    apply List.ext_getElem (by simp [h.len])
    intro t h1 h2
    have ht : t < bw.ops.length := by simpa using h2
    have ht' : t < bw'.ops.length := by simpa using h1
    simp only [List.getElem_map]
    have := h.labels t ht
    rwa [getD_eq_getElem _ _ _ ht, getD_eq_getElem _ _ _ ht'] at this
  simp only [BW.sig, h.outInd, h.newAxes, h.adjust, hinds]

theorem Reindexed.shape_getD {R : Reix} {bw bw' : BW} (h : Reindexed R bw bw') (t : Nat) (ht : t < bw.ops.length)
    (k : Nat) (hk : k < (bw.ops.getD t dO).labels.length) :
    (bw'.ops.getD t dO).arr.shape.getD k 0 =
      if R.on (labLen bw) ((bw.ops.getD t dO).labels.getD k 0) ((bw.ops.getD t dO).arr.shape.getD k 0)
      then R.len ((bw.ops.getD t dO).labels.getD k 0) else (bw.ops.getD t dO).arr.shape.getD k 0 := by
  rw [(h.arr t ht).1, reix_shape_getD _ _ _ _ _ hk]

theorem Reindexed.shape_length {R : Reix} {bw bw' : BW} (h : Reindexed R bw bw') (t : Nat) (ht : t < bw.ops.length) :
    (bw'.ops.getD t dO).arr.shape.length = (bw.ops.getD t dO).labels.length := by
  rw [(h.arr t ht).1, reix_shape_length]

/-- the `(label, length)` pairs of the new operands -/
theorem mem_lenPairs_reindexed {R : Reix} {bw bw' : BW} (hS : SOK bw) (h : Reindexed R bw bw') (p : Nat × Nat) :
    p ∈ lenPairs bw'.ops ↔ ∃ t, t < bw.ops.length ∧ ∃ k, k < (bw.ops.getD t dO).labels.length ∧
      p = ((bw.ops.getD t dO).labels.getD k 0,
        if R.on (labLen bw) ((bw.ops.getD t dO).labels.getD k 0) ((bw.ops.getD t dO).arr.shape.getD k 0)
        then R.len ((bw.ops.getD t dO).labels.getD k 0) else (bw.ops.getD t dO).arr.shape.getD k 0) := by
  rw [mem_lenPairs]
  constructor
  · rintro ⟨o', ho', k, hk1, hk2, e⟩
    obtain ⟨t, ht, et⟩ := mem_getD bw'.ops o' dO ho'
    have ht' : t < bw.ops.length := by rw [← h.len]; exact ht
    subst et
    rw [h.labels t ht'] at hk1 e
    refine ⟨t, ht', k, hk1, ?_⟩
    rw [e, h.shape_getD t ht' k hk1]
  · rintro ⟨t, ht, k, hk, e⟩
    have ht' : t < bw'.ops.length := by rw [h.len]; exact ht
    refine ⟨bw'.ops.getD t dO, getD_mem _ _ _ ht', k, ?_, ?_, ?_⟩
    · rw [h.labels t ht]; exact hk
    · rw [h.shape_length t ht]; exact hk
    · rw [e, h.labels t ht, h.shape_getD t ht k hk]

/-- pairs of the old operands, by position -/
theorem mem_lenPairs_getD (bw : BW) (hS : SOK bw) (p : Nat × Nat) :
    p ∈ lenPairs bw.ops ↔ ∃ t, t < bw.ops.length ∧ ∃ k, k < (bw.ops.getD t dO).labels.length ∧
      p = ((bw.ops.getD t dO).labels.getD k 0, (bw.ops.getD t dO).arr.shape.getD k 0) := by
  rw [mem_lenPairs]
  constructor
  · rintro ⟨o, ho, k, hk1, _, e⟩
    obtain ⟨t, ht, et⟩ := mem_getD bw.ops o dO ho
    subst et
    exact ⟨t, ht, k, hk1, e⟩
  · rintro ⟨t, ht, k, hk, e⟩
    have ho := getD_mem bw.ops t dO ht
    have := (hS.rank _ ho).1
    exact ⟨_, ho, k, hk, by omega, e⟩

theorem labLen_eq_bdim (bw : BW) (l L : Nat)
    (h1 : ∀ p ∈ lenPairs bw.ops, p.1 = l → p.2 = L ∨ p.2 = 1)
    (h2 : (l, L) ∈ lenPairs bw.ops) : labLen bw l = L := by
  unfold labLen
  apply bdim_eq
  · intro n hn
    obtain ⟨p, hp, e⟩ := List.mem_map.mp hn
    obtain ⟨hp1, hp2⟩ := List.mem_filter.mp hp
    rw [← e]
    exact h1 p hp1 (by simpa using hp2)
  · apply List.mem_map.mpr
    exact ⟨(l, L), List.mem_filter.mpr ⟨h2, by simp⟩, rfl⟩

/-- the label lengths of the re-indexed node -/
theorem labLen_reindexed {R : Reix} {bw bw' : BW} (hS : SOK bw) (hR : ReixOK R bw) (h : Reindexed R bw bw')
    (l : Nat) (hl : l ∈ bw.outInd) (hnew : bw.newAxes.lookup l = none) :
    labLen bw' l = newLen R bw l := by
  have hcov : (l, labLen bw l) ∈ lenPairs bw.ops := by
    rcases hS.covered l hl with c | c
    · rw [hnew] at c; simp at c
    · exact c
  apply labLen_eq_bdim
  · intro p hp e
    obtain ⟨t, ht, k, hk, ep⟩ := (mem_lenPairs_reindexed hS h p).mp hp
    have hold : ((bw.ops.getD t dO).labels.getD k 0, (bw.ops.getD t dO).arr.shape.getD k 0) ∈ lenPairs bw.ops :=
      (mem_lenPairs_getD bw hS _).mpr ⟨t, ht, k, hk, rfl⟩
    have hlab : (bw.ops.getD t dO).labels.getD k 0 = l := by rw [ep] at e; exact e
    rw [ep]; simp only
    unfold newLen
    by_cases hact : R.act l = true
    · have hn := hR.unbroadcast l hact _ hold hlab
      simp only at hn
      have hon : R.on (labLen bw) ((bw.ops.getD t dO).labels.getD k 0) ((bw.ops.getD t dO).arr.shape.getD k 0) = true := by
        simp only [Reix.on]; rw [hlab, hact, hn]; simp
      rw [if_pos hon, if_pos hact, hlab]; exact Or.inl rfl
    · have hon : R.on (labLen bw) ((bw.ops.getD t dO).labels.getD k 0) ((bw.ops.getD t dO).arr.shape.getD k 0) = false := by
        simp only [Reix.on]; rw [hlab]
        have : R.act l = false := by simpa using hact
        rw [this]; simp
      rw [hon, if_neg hact]
      have := hS.lens _ hold (by simp only; rw [hlab]; exact hl)
      simp only at this
      rw [hlab] at this
      simpa using this
  · obtain ⟨t, ht, k, hk, ep⟩ := (mem_lenPairs_getD bw hS _).mp hcov
    apply (mem_lenPairs_reindexed hS h _).mpr
    refine ⟨t, ht, k, hk, ?_⟩
    have hlab : (bw.ops.getD t dO).labels.getD k 0 = l := (Prod.mk.inj ep).1.symm
    have hsh : (bw.ops.getD t dO).arr.shape.getD k 0 = labLen bw l := (Prod.mk.inj ep).2.symm
    rw [hlab, hsh]
    unfold newLen
    simp only [Reix.on, beq_self_eq_true, Bool.and_true]

/-- the re-indexed node is well-formed -/
theorem sok_reindexed {R : Reix} {bw bw' : BW} (hS : SOK bw) (hR : ReixOK R bw) (h : Reindexed R bw bw') :
    SOK bw' := by
  refine ⟨h.outInd ▸ hS.nodup, ?_, ?_, h.newAxes ▸ hS.newNodup, ?_, ?_, h.adjust ▸ hS.noAdj⟩
  · intro o' ho'
    obtain ⟨t, ht, et⟩ := mem_getD bw'.ops o' dO ho'
    have ht' : t < bw.ops.length := by rw [← h.len]; exact ht
    subst et
    have hr := hS.rank _ (getD_mem bw.ops t dO ht')
    refine ⟨?_, ?_, ?_⟩
    · rw [h.labels t ht', h.shape_length t ht']
    · rw [h.chunks t ht', h.shape_length t ht']; exact hr.1.symm
    · rw [h.isArr t ht', h.ind t ht', h.piece t ht']; exact hr.2.2
  · intro q hq
    rw [h.newAxes] at hq
    obtain ⟨a, b, c⟩ := hS.newIn q hq
    refine ⟨h.outInd ▸ a, b, ?_⟩
    intro p hp e
    obtain ⟨t, ht, k, hk, ep⟩ := (mem_lenPairs_reindexed hS h p).mp hp
    have hold : ((bw.ops.getD t dO).labels.getD k 0, (bw.ops.getD t dO).arr.shape.getD k 0) ∈ lenPairs bw.ops :=
      (mem_lenPairs_getD bw hS _).mpr ⟨t, ht, k, hk, rfl⟩
    exact c _ hold (by rw [ep] at e; exact e)
  · intro l hl
    rw [h.outInd] at hl
    rw [h.newAxes]
    cases hnew : bw.newAxes.lookup l with
    | some v => exact Or.inl rfl
    | none =>
      right
      rw [labLen_reindexed hS hR h l hl hnew]
      have hcov : (l, labLen bw l) ∈ lenPairs bw.ops := by
        rcases hS.covered l hl with c | c
        · rw [hnew] at c; simp at c
        · exact c
      obtain ⟨t, ht, k, hk, ep⟩ := (mem_lenPairs_getD bw hS _).mp hcov
      apply (mem_lenPairs_reindexed hS h _).mpr
      refine ⟨t, ht, k, hk, ?_⟩
      have hlab : (bw.ops.getD t dO).labels.getD k 0 = l := (Prod.mk.inj ep).1.symm
      have hsh : (bw.ops.getD t dO).arr.shape.getD k 0 = labLen bw l := (Prod.mk.inj ep).2.symm
      rw [hlab, hsh]
      unfold newLen
      simp only [Reix.on, beq_self_eq_true, Bool.and_true]
  · intro p hp hin
    rw [h.outInd] at hin
    obtain ⟨t, ht, k, hk, ep⟩ := (mem_lenPairs_reindexed hS h p).mp hp
    have hold : ((bw.ops.getD t dO).labels.getD k 0, (bw.ops.getD t dO).arr.shape.getD k 0) ∈ lenPairs bw.ops :=
      (mem_lenPairs_getD bw hS _).mpr ⟨t, ht, k, hk, rfl⟩
    have hlab : (bw.ops.getD t dO).labels.getD k 0 = p.1 := by rw [ep]
    have hnew : bw.newAxes.lookup p.1 = none := by
      rw [← hlab]
      exact lookup_new_of_label bw hS _ (getD_mem bw.ops t dO ht) k hk
    rw [labLen_reindexed hS hR h p.1 hin hnew]
    rw [ep]; simp only
    rw [ep] at hlab; simp only at hlab
    unfold newLen
    by_cases hact : R.act ((bw.ops.getD t dO).labels.getD k 0) = true
    · have hn := hR.unbroadcast _ hact _ hold rfl
      simp only at hn
      have hon : R.on (labLen bw) ((bw.ops.getD t dO).labels.getD k 0) ((bw.ops.getD t dO).arr.shape.getD k 0) = true := by
        simp only [Reix.on]; rw [hact, hn]; simp
      rw [if_pos hon, if_pos hact]; exact Or.inl rfl
    · have hon : R.on (labLen bw) ((bw.ops.getD t dO).labels.getD k 0) ((bw.ops.getD t dO).arr.shape.getD k 0) = false := by
        simp only [Reix.on]
        have : R.act ((bw.ops.getD t dO).labels.getD k 0) = false := by simpa using hact
        rw [this]; simp
      rw [hon, if_neg hact]
      have := hS.lens _ hold (by simp only; rw [ep] at hin; exact hin)
      simpa using this

/-- **Core.**  The re-indexed node denotes the re-indexing of the old result. -/
theorem den_reindexed {R : Reix} {bw bw' : BW} (U U' : Nat → List Nat) (hS : SOK bw) (hL : LOK U bw)
    (hf : LabelLocal bw.sig bw.f) (hR : ReixOK R bw) (h : Reindexed R bw bw') (hL' : LOK U' bw') :
    Arr.Equiv (den U' bw') (reix R (labLen bw) bw.outInd (den U bw)) := by
  have hS' := sok_reindexed hS hR h
  have hf' : LabelLocal bw'.sig bw'.f := by rw [h.sig, h.f]; exact hf
  have hI := isLen_wholes bw hS
  have hlen : bw.sig.inds.length = bw.ops.length := by simp [BW.sig]
  have A' := den_eq_whole U' bw' hS' hL' hf'
  rw [h.f] at A'
  have C : Arr.Equiv (bw.f bw'.wholes)
      (bw.f ((List.range bw.sig.inds.length).map (fun t =>
        reix R (labLen bw) (bw.sig.inds.getD t []) (bw.wholes.getD t dA)))) := by
    apply hf.congr
    · simp [BW.wholes, h.len, hlen]
    · intro t ht
      have ht' : t < bw.ops.length := by simpa [BW.wholes, h.len] using ht
      rw [wholes_getD bw' t (by rw [h.len]; exact ht'), getD_rangeMap _ _ _ _ (by omega),
        sig_inds_getD bw t ht', wholes_getD bw t ht']
      exact h.arr t ht'
  have Nt := hf.natural R bw.wholes (labLen bw) hI hR.point hR.range
  have A := den_eq_whole U bw hS hL hf
  have hsh := hf.shape _ _ hI
  have D : Arr.Equiv (reix R (labLen bw) bw.outInd (bw.f bw.wholes))
      (reix R (labLen bw) bw.outInd (den U bw)) := by
    apply reix_congr _ _ _ _ _ (by rw [hsh]; simp [Sig.outShape, BW.sig]) A.symm
    intro k hk hon x hx
    simp only [Reix.on, Bool.and_eq_true, beq_iff_eq] at hon
    rw [hon.2]
    exact hR.range _ hon.1 x hx
  exact ((A'.trans C).trans Nt).trans D

end Dask.BWG
