/-
Lemmas for C06 / C07 (proofs; the property statements are restated in Props/C06.lean, Props/C07.lean).
No Mathlib.
-/
import DaskArrayModel.Model.Names
namespace Dask.Lemmas.Names
open Dask.Names

/-! ## C06: name determines denotation -/

section ND
variable {σ : Type} (T S : Nat → List Nat) (sem : Nat → List (Option (Val σ)) → σ)

theorem denAll_length (n : Node) : (denAll S sem n).length = (encAll T n).length := by
  induction n with
  | nil c => rfl
  | lit v r ih => simp [denAll, encAll, ih]
  | child c r _ ih => simp [denAll, encAll, ih]

theorem den_none_of_enc_none (n : Node) (i : Nat) (h : (encAll T n)[i]? = none) :
    (denAll S sem n)[i]? = none := by
  rw [List.getElem?_eq_none_iff] at h ⊢
  rw [denAll_length T S sem n]; exact h

/-- pointwise: equal tokens at position `i` give equal semantic views at position `i` -/
def QAll (a : Node) : Prop :=
  ∀ (b : Node) (i : Nat), (encAll T a)[i]? = (encAll T b)[i]? → (denAll S sem a)[i]? = (denAll S sem b)[i]?

variable (pinned : Nat → Bool)

/-- from the pointwise statement to the node: needs coverage for the node's class, or the pin hypothesis -/
theorem name_den_of_QAll
    (hcov : ∀ c, pinned c = false → ∀ i, i ∈ S c → i ∈ T c)
    (hpin : ∀ a b : Node, pinned a.cls = true → name T a = name T b → den S sem a = den S sem b)
    (a : Node) (hq : QAll T S sem a) (b : Node) (h : name T a = name T b) : den S sem a = den S sem b := by
  cases hp : pinned a.cls with
  | true => exact hpin a b hp h
  | false =>
    have h' := h
    unfold name at h'
    injection h' with hcls hsel
    unfold den
    rw [← hcls]
    rw [← hcls] at hsel
    congr 1
    unfold sel at hsel ⊢
    rw [List.map_inj_left] at hsel ⊢
    intro i hi
    exact hq b i (hsel i (hcov _ hp i hi))

theorem QAll_all
    (hcov : ∀ c, pinned c = false → ∀ i, i ∈ S c → i ∈ T c)
    (hpin : ∀ a b : Node, pinned a.cls = true → name T a = name T b → den S sem a = den S sem b)
    (a : Node) : QAll T S sem a := by
  induction a with
  | nil c =>
    intro b i h
    have hb : (encAll T b)[i]? = none := by rw [← h]; simp [encAll]
    rw [den_none_of_enc_none T S sem b i hb]; simp [denAll]
  | lit v r ih =>
    intro b i h
    cases i with
    | zero =>
      cases b with
      | nil c => simp [encAll] at h
      | lit w r' => simp [encAll] at h; simp [denAll, h]
      | child c' r' => simp [encAll] at h
    | succ j =>
      cases b with
      | nil c =>
        have hr : (encAll T r)[j]? = none := by simpa [encAll] using h
        simp [denAll, den_none_of_enc_none T S sem r j hr]
      | lit w r' =>
        have hr : (encAll T r)[j]? = (encAll T r')[j]? := by simpa [encAll] using h
        simpa [denAll] using ih r' j hr
      | child c' r' =>
        have hr : (encAll T r)[j]? = (encAll T r')[j]? := by simpa [encAll] using h
        simpa [denAll] using ih r' j hr
  | child c r ihc ihr =>
    intro b i h
    cases i with
    | zero =>
      cases b with
      | nil c0 => simp [encAll] at h
      | lit w r' => simp [encAll] at h
      | child c' r' =>
        rw [encAll_child, encAll_child] at h
        have hn : name T c = name T c' := by simpa using h
        have hd := name_den_of_QAll T S sem pinned hcov hpin c ihc c' hn
        rw [denAll_child, denAll_child]
        simp [hd]
    | succ j =>
      cases b with
      | nil c0 =>
        have hr : (encAll T r)[j]? = none := by simpa [encAll] using h
        simp [denAll, den_none_of_enc_none T S sem r j hr]
      | lit w r' =>
        have hr : (encAll T r)[j]? = (encAll T r')[j]? := by simpa [encAll] using h
        simpa [denAll] using ihr r' j hr
      | child c' r' =>
        have hr : (encAll T r)[j]? = (encAll T r')[j]? := by simpa [encAll] using h
        simpa [denAll] using ihr r' j hr

/-- MAIN: with coverage for unpinned classes and the registry hypothesis for pinned ones,
    equal names denote equal arrays, for nodes of any depth. -/
theorem name_determines_den
    (hcov : ∀ c, pinned c = false → ∀ i, i ∈ S c → i ∈ T c)
    (hpin : ∀ a b : Node, pinned a.cls = true → name T a = name T b → den S sem a = den S sem b)
    (a b : Node) (h : name T a = name T b) : den S sem a = den S sem b :=
  name_den_of_QAll T S sem pinned hcov hpin a (QAll_all T S sem pinned hcov hpin a) b h

end ND

/-! ## C06: name-keyed cache -/

section Cache
variable {κ ν σ : Type} [DecidableEq κ] (nm : ν → κ) (dn : ν → σ) (lower : ν → ν)

/-- every entry's denotation equals that of any node carrying the entry's name -/
def CacheSound (cache : List (κ × ν)) : Prop :=
  ∀ k v, (k, v) ∈ cache → ∀ n, nm n = k → dn v = dn n

theorem lookup_mem (cache : List (κ × ν)) (k : κ) (v : ν) (h : cacheLookup cache k = some v) : (k, v) ∈ cache := by
  induction cache with
  | nil => simp [cacheLookup] at h
  | cons e rest ih =>
    obtain ⟨k', v'⟩ := e
    unfold cacheLookup at h
    by_cases hk : k' = k
    · simp [hk] at h; simp [hk, h]
    · simp [hk] at h; exact List.mem_cons_of_mem _ (ih h)

theorem step_sound
    (hnd : ∀ a b, nm a = nm b → dn a = dn b) (hlow : ∀ n, dn (lower n) = dn n)
    (cache : List (κ × ν)) (hs : CacheSound nm dn cache) (n : ν) :
    CacheSound nm dn (cacheStep nm lower cache n).1 ∧ dn (cacheStep nm lower cache n).2 = dn n := by
  unfold cacheStep
  cases hl : cacheLookup cache (nm n) with
  | some v =>
    exact ⟨hs, hs _ _ (lookup_mem cache (nm n) v hl) n rfl⟩
  | none =>
    refine ⟨?_, hlow n⟩
    intro k v hm m hmk
    rcases List.mem_cons.mp hm with h | h
    · injection h with h1 h2
      subst h2
      rw [hlow n]
      exact hnd n m (by rw [hmk, h1])
    · exact hs k v h m hmk

theorem run_sound
    (hnd : ∀ a b, nm a = nm b → dn a = dn b) (hlow : ∀ n, dn (lower n) = dn n)
    (hist : List ν) : ∀ (cache : List (κ × ν)), CacheSound nm dn cache →
      CacheSound nm dn (cacheRun nm lower cache hist).1 ∧
      ∀ p, p ∈ (cacheRun nm lower cache hist).2 → dn p.2 = dn p.1 := by
  induction hist with
  | nil => intro cache hs; exact ⟨hs, by simp [cacheRun]⟩
  | cons n rest ih =>
    intro cache hs
    have h1 := step_sound nm dn lower hnd hlow cache hs n
    have h2 := ih (cacheStep nm lower cache n).1 h1.1
    simp only [cacheRun]
    refine ⟨h2.1, ?_⟩
    intro p hp
    rcases List.mem_cons.mp hp with h | h
    · subst h; exact h1.2
    · exact h2.2 p h

omit [DecidableEq κ] in
theorem empty_sound : CacheSound nm dn ([] : List (κ × ν)) := by
  intro k v h; simp at h

end Cache

/-! ## table → positions (lifting `decide` over the generated table to the model's premise) -/

/-- positions (in `ps ++ ["*"]`) of the operand names listed in `names` -/
def posOf (ps names : List String) : List Nat :=
  (List.range (ps.length + 1)).filter (fun j => names.contains ((ps ++ ["*"]).getD j ""))

theorem posOf_subset (ps s t : List String) (h : ∀ p, p ∈ s → p ∈ t) :
    ∀ i, i ∈ posOf ps s → i ∈ posOf ps t := by
  intro i hi
  unfold posOf at hi ⊢
  rw [List.mem_filter] at hi ⊢
  refine ⟨hi.1, ?_⟩
  have := hi.2
  rw [List.contains_iff_mem] at this ⊢
  exact h _ this

/-! ## C07 -/

theorem cls_roundtripWith (e : Nat) (t : Option PTok) (n : PNode) : (roundtripWith e t n).cls = n.cls := by
  induction n with
  | nil c t0 => rfl
  | lit s v r ih => simpa [roundtripWith, PNode.cls] using ih
  | child c r _ ih => simpa [roundtripWith, PNode.cls] using ih

theorem carried_roundtripWith (e : Nat) (t : Option PTok) (n : PNode) : (roundtripWith e t n).carried = t := by
  induction n with
  | nil c t0 => rfl
  | lit s v r ih => simpa [roundtripWith, PNode.carried] using ih
  | child c r _ ih => simpa [roundtripWith, PNode.carried] using ih

theorem arity_roundtripWith (e : Nat) (t : Option PTok) (n : PNode) : (roundtripWith e t n).arity = n.arity := by
  induction n with
  | nil c t0 => rfl
  | lit s v r ih => simpa [roundtripWith, PNode.arity] using ih
  | child c r _ ih => simpa [roundtripWith, PNode.arity] using ih

theorem detToken_roundtrip (e₁ e₂ : Nat) (n : PNode) : detToken e₂ (roundtrip e₁ n) = detToken e₁ n := by
  unfold roundtrip
  simp [detToken, carried_roundtripWith]

/-- the pickled-and-rebuilt node has, in ANY process, the name it had where it was pickled -/
theorem reduce_roundtrip (e₁ e₂ : Nat) (n : PNode) : nameEnv e₂ (roundtrip e₁ n) = nameEnv e₁ n := by
  unfold nameEnv
  rw [detToken_roundtrip]
  unfold roundtrip
  rw [cls_roundtripWith]

theorem allNames_roundtripWith (e₁ e₂ : Nat) (n : PNode) :
    ∀ t, allNames e₂ (roundtripWith e₁ t n) = allNames e₁ n := by
  induction n with
  | nil c t0 => intro t; rfl
  | lit s v r ih => intro t; simpa [roundtripWith, allNames] using ih t
  | child c r ihc ihr =>
    intro t
    simp only [roundtripWith, allNames]
    rw [ihr t, ihc (some (detToken e₁ c))]
    have := reduce_roundtrip e₁ e₂ c
    unfold roundtrip at this
    rw [this]

/-- … and so has every node of its tree (all graph keys derive from these names) -/
theorem reduce_roundtrip_tree (e₁ e₂ : Nat) (n : PNode) : treeNames e₂ (roundtrip e₁ n) = treeNames e₁ n := by
  unfold treeNames
  rw [reduce_roundtrip]
  unfold roundtrip
  rw [allNames_roundtripWith]

/-- the name depends on the process only through unstable operands that no carried token shields -/
theorem ptokAll_env_indep (e₁ e₂ : Nat) (n : PNode) (h : stable n = true) : ptokAll e₁ n = ptokAll e₂ n := by
  induction n with
  | nil c t => rfl
  | lit s v r ih =>
    cases s with
    | true => simp [stable] at h; simp [ptokAll, ih h]
    | false => simp [stable] at h
  | child c r ihc ihr =>
    simp only [stable, Bool.and_eq_true, Bool.or_eq_true] at h
    simp only [ptokAll]
    rw [ihr h.2]
    cases hc : c.carried with
    | some t => simp
    | none =>
      have : stable c = true := by
        rcases h.1 with h1 | h1
        · simp [hc] at h1
        · exact h1
      simp [ihc this]

theorem nameEnv_env_indep (e₁ e₂ : Nat) (n : PNode) (h : n.carried.isSome = true ∨ stable n = true) :
    nameEnv e₁ n = nameEnv e₂ n := by
  unfold nameEnv detToken
  rcases h with h | h
  · cases hc : n.carried with
    | some t => simp
    | none => simp [hc] at h
  · rw [ptokAll_env_indep e₁ e₂ n h]

/-- getstate/setstate keep the expression and leave only recomputable caches empty -/
theorem getstate_drops_only_caches {ε γ κ : Type} (materialize : ε → Bool → γ) (keysOf : ε → κ) (dflt : Bool)
    (s : CollState ε γ κ) :
    (setstate (getstate s)).expr = s.expr ∧
    (setstate (getstate s)).optimizeFlag = s.optimizeFlag ∧
    CacheInv materialize keysOf dflt (setstate (getstate s)) ∧
    (CacheInv materialize keysOf dflt s →
      observe materialize keysOf dflt (setstate (getstate s)) = observe materialize keysOf dflt s) := by
  refine ⟨rfl, rfl, ?_, ?_⟩
  · constructor
    · intro g h; simp [setstate, getstate] at h
    · intro k h; simp [setstate, getstate] at h
  · intro hinv
    obtain ⟨h1, h2⟩ := hinv
    unfold observe setstate getstate
    simp only [Option.getD_none]
    cases hl : s.lowered with
    | none =>
      cases hk : s.keys with
      | none => simp
      | some k => simp [h2 k hk]
    | some g =>
      cases hk : s.keys with
      | none => simp [h1 g hl]
      | some k => simp [h1 g hl, h2 k hk]

end Dask.Lemmas.Names
