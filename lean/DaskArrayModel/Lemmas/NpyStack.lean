/-
Round trip of the npy-stack model (Model/NpyStack.lean).  Core Lean only.
-/
import DaskArrayModel.Model.NpyStack
import DaskArrayModel.Lemmas.StoreNDCorrect
namespace Dask.Lemmas.NpyStack
open Dask.Py Dask.Slicing Dask.SourceIO Dask.StoreND Dask.NpyStack Dask.Lemmas.StoreND Dask.Lemmas.SourceIO

/-! ### locating a position in a chunked axis / array -/

theorem locAxis_spec (c : List Int) (hc : ∀ x ∈ c, 0 ≤ x) (g : Int) (b : Nat) (o : Int)
    (h : locAxis c g = some (b, o)) : b < c.length ∧ blockStart c b + o = g := by
  induction c generalizing g b o with
  | nil => simp [locAxis] at h
  | cons x xs ih =>
    unfold locAxis at h
    split at h
    · injection h with h; injection h with h1 h2
      subst h1; subst h2
      exact ⟨by simp, by simp [blockStart_zero']⟩
    · cases hr : locAxis xs (g - x) with
      | none => simp [hr] at h
      | some bo =>
        obtain ⟨b', o'⟩ := bo
        simp only [hr, Option.map_some, Option.some.injEq, Prod.mk.injEq] at h
        obtain ⟨rfl, rfl⟩ := h
        have := ih (fun y hy => hc y (List.mem_cons_of_mem _ hy)) (g - x) b' o' hr
        refine ⟨by simpa using this.1, ?_⟩
        rw [blockStart_cons_succ']; omega

theorem locAxis_exists (c : List Int) (g : Int) (h0 : 0 ≤ g) (h1 : g < isum c) : ∃ bo, locAxis c g = some bo := by
  induction c generalizing g with
  | nil => simp [isum] at h1; omega
  | cons x xs ih =>
    unfold locAxis
    by_cases hg : g < x
    · exact ⟨(0, g), by simp [hg]⟩
    · obtain ⟨bo, hbo⟩ := ih (g - x) (by omega) (by simp only [isum] at h1; omega)
      exact ⟨(bo.1 + 1, bo.2), by simp [hg, hbo]⟩

theorem locAll_spec (cc : List (List Int)) (hc : ChunksOK cc) (q : Pos) (bs : List Nat) (os : List Int)
    (h : locAll cc q = some (bs, os)) :
    bs ∈ blockIds cc ∧ addPos ((blockIndex cc bs).map (·.1)) os = q := by
  induction cc generalizing q bs os with
  | nil =>
    cases q with
    | nil => simp [locAll] at h; obtain ⟨rfl, rfl⟩ := h; simp [blockIds, blockIndex, addPos]
    | cons _ _ => simp [locAll] at h
  | cons c cs ih =>
    cases q with
    | nil => simp [locAll] at h
    | cons q0 qs =>
      simp only [locAll] at h
      split at h
      · cases h
      · cases h1 : locAxis c q0 with
        | none => simp [h1] at h
        | some bo =>
          cases h2 : locAll cs qs with
          | none => simp [h1, h2] at h
          | some r =>
            simp only [h1, h2, Option.some.injEq, Prod.mk.injEq] at h
            obtain ⟨rfl, rfl⟩ := h
            have hax := locAxis_spec c (hc c (List.mem_cons_self ..)) q0 bo.1 bo.2 (by simpa using h1)
            have hr := ih (fun c' hc' => hc c' (List.mem_cons_of_mem _ hc')) qs r.1 r.2 (by simpa using h2)
            refine ⟨(mem_blockIds_cons ..).mpr ⟨bo.1, r.1, rfl, hax.1, hr.1⟩, ?_⟩
            simp only [blockIndex, List.map_cons, addPos, hr.2, List.cons.injEq, and_true]
            exact hax.2

theorem locAll_exists (cc : List (List Int)) (q : Pos) (h : InRange cc q) : ∃ r, locAll cc q = some r := by
  induction cc generalizing q with
  | nil =>
    cases q with
    | nil => exact ⟨([], []), rfl⟩
    | cons _ _ => simp [InRange] at h
  | cons c cs ih =>
    cases q with
    | nil => simp [InRange] at h
    | cons q0 qs =>
      obtain ⟨h0, h1, hr⟩ := h
      obtain ⟨bo, hbo⟩ := locAxis_exists c q0 h0 h1
      obtain ⟨r, hr'⟩ := ih qs hr
      exact ⟨(bo.1 :: r.1, bo.2 :: r.2), by simp [locAll, hbo, hr', show ¬ q0 < 0 by omega]⟩

/-! ### the collapsed chunks -/

theorem len_flatMap_range {α} (n m : Nat) (f : Nat → List α) (hf : ∀ i, (f i).length = m) :
    ((List.range n).flatMap f).length = n * m := by
  induction n with
  | zero => simp
  | succ n ih => simp [List.range_succ, List.flatMap_append, ih, hf, Nat.succ_mul]

theorem length_blockIds_cons (c : List Int) (cs : List (List Int)) :
    (blockIds (c :: cs)).length = c.length * (blockIds cs).length := by
  simp only [blockIds]
  exact len_flatMap_range _ _ _ (fun i => by simp)

theorem collapse_srcShape (s : Nat) (axis : Int) (chunks : List (List Int)) :
    srcShape (collapseFrom s axis chunks) = srcShape chunks := by
  induction chunks generalizing s with
  | nil => rfl
  | cons c cs ih =>
    simp only [collapseFrom, srcShape, List.map_cons, List.cons.injEq]
    refine ⟨?_, ih (s + 1)⟩
    split
    · rfl
    · simp [isum]

theorem collapse_ok (s : Nat) (axis : Int) (chunks : List (List Int)) (hc : ChunksOK chunks) :
    ChunksOK (collapseFrom s axis chunks) := by
  induction chunks generalizing s with
  | nil => intro c hc'; simp [collapseFrom] at hc'
  | cons c cs ih =>
    intro c' hc' x hx
    simp only [collapseFrom, List.mem_cons] at hc'
    rcases hc' with rfl | hc'
    · split at hx
      · exact hc c (List.mem_cons_self ..) x hx
      · simp only [List.mem_singleton] at hx
        subst hx
        exact isum_nonneg c (hc c (List.mem_cons_self ..))
    · exact ih (s + 1) (fun c'' h'' => hc c'' (List.mem_cons_of_mem _ h'')) c' hc' x hx

theorem inRange_of_shape (a b : List (List Int)) (h : srcShape a = srcShape b) (q : Pos) (hq : InRange b q) :
    InRange a q := by
  induction a generalizing b q with
  | nil =>
    cases b with
    | nil => exact hq
    | cons _ _ => simp [srcShape] at h
  | cons x xs ih =>
    cases b with
    | nil => simp [srcShape] at h
    | cons y ys =>
      simp only [srcShape, List.map_cons, List.cons.injEq] at h
      cases q with
      | nil => simp [InRange] at hq
      | cons q0 qs =>
        obtain ⟨h0, h1, hr⟩ := hq
        exact ⟨h0, by omega, ih ys h.2 qs hr⟩

theorem collapse_past (s : Nat) (axis : Int) (chunks : List (List Int)) (h : axis < (s : Int)) :
    (blockIds (collapseFrom s axis chunks)).length = 1 := by
  induction chunks generalizing s with
  | nil => simp [collapseFrom, blockIds]
  | cons c cs ih =>
    simp only [collapseFrom]
    rw [length_blockIds_cons, ih (s + 1) (by omega)]
    have : ¬ ((s : Int) = axis) := by omega
    simp [this]

theorem collapse_axis (s a : Nat) (chunks : List (List Int)) (ha : a < chunks.length) :
    ∃ ca, (collapseFrom s ((s : Int) + a) chunks)[a]? = some ca ∧ chunks[a]? = some ca ∧
      (blockIds (collapseFrom s ((s : Int) + a) chunks)).length = ca.length := by
  induction chunks generalizing s a with
  | nil => simp at ha
  | cons c cs ih =>
    cases a with
    | zero =>
      refine ⟨c, by simp [collapseFrom], by simp, ?_⟩
      simp only [collapseFrom]
      rw [length_blockIds_cons, collapse_past (s + 1) _ cs (by omega)]
      simp
    | succ a =>
      obtain ⟨ca, h1, h2, h3⟩ := ih (s + 1) a (by simpa using ha)
      have e : ((s : Int) + ((a + 1 : Nat) : Int)) = ((s + 1 : Nat) : Int) + (a : Int) := by omega
      rw [e]
      refine ⟨ca, by simpa [collapseFrom] using h1, by simpa using h2, ?_⟩
      simp only [collapseFrom]
      rw [length_blockIds_cons, h3]
      have : ¬ ((s : Int) = (s : Int) + 1 + (a : Int)) := by omega
      simp [this]

/-! ### `dict(zip(keys, values))` -/

theorem lookup_zip_range' (l : List (List Nat)) (hl : l.Nodup) (s n i : Nat) (k : List Nat)
    (hk : l[i]? = some k) (hi : i < n) : (l.zip (List.range' s n)).lookup k = some (s + i) := by
  induction l generalizing s n i with
  | nil => simp at hk
  | cons a as ih =>
    cases n with
    | zero => omega
    | succ n =>
      rw [List.range'_succ, List.zip_cons_cons, List.lookup_cons]
      rw [List.nodup_cons] at hl
      cases i with
      | zero =>
        simp only [List.getElem?_cons_zero, Option.some.injEq] at hk
        subst hk
        simp
      | succ i =>
        simp only [List.getElem?_cons_succ] at hk
        have hne : (k == a) = false := by
          rw [beq_eq_false_iff_ne]
          intro e
          subst e
          exact hl.1 (List.mem_of_getElem? hk)
        rw [hne]
        show (as.zip (List.range' (s + 1) n)).lookup k = some (s + (i + 1))
        rw [ih hl.2 (s + 1) n i hk (by omega)]
        simp only [Option.some.injEq]
        omega

/-! ### round trip -/

theorem stack_roundtrip (chunks : List (List Int)) (axis : Nat) (x : Pos → Int) (hc : ChunksOK chunks)
    (ha : axis < chunks.length) :
    ∃ f, fromStack (toStack axis chunks x).1 (toStack axis chunks x).2 =
        .ok ((toStack axis chunks x).2.chunks, f) ∧
      (toStack axis chunks x).2.chunks[axis]? = chunks[axis]? ∧
      srcShape (toStack axis chunks x).2.chunks = srcShape chunks ∧
      ∀ q, InRange chunks q → f q = some (x q) := by
  obtain ⟨ca, h1, h2, h3⟩ := collapse_axis 0 axis chunks ha
  simp only [Int.natCast_zero, Int.zero_add] at h1 h3
  have hcc := collapse_ok 0 axis chunks hc
  have hget : pyGet? (collapseFrom 0 axis chunks) (axis : Int) = some ca := by
    simp [pyGet?, h1]
  unfold fromStack toStack
  simp only [hget]
  refine ⟨_, rfl, by rw [h1, h2], collapse_srcShape 0 axis chunks, ?_⟩
  intro q hq
  have hq' := inRange_of_shape _ _ (collapse_srcShape 0 axis chunks) q hq
  obtain ⟨r, hr⟩ := locAll_exists _ q hq'
  obtain ⟨bs, os⟩ := r
  obtain ⟨hmem, hadd⟩ := locAll_spec _ hcc q bs os hr
  obtain ⟨i, hi, hib⟩ := List.getElem_of_mem hmem
  have hib' : (blockIds (collapseFrom 0 axis chunks))[i]? = some bs := by
    rw [List.getElem?_eq_getElem hi, hib]
  have hlook := lookup_zip_range' _ (nodup_blockIds _) 0 ca.length i bs hib' (by omega)
  simp only [hr]
  rw [List.range_eq_range', hlook]
  simp only [Nat.zero_add, List.getElem?_map, hib', Option.map_some, blockArr, hadd]
