/-
n-D lift of the slice-through-map_overlap rule (Model/OverlapSliceND.lean): the per-axis index-map lemma
`padSrc_shift`, the induction over the axes `boxWin_shift`, `accept_sound_nd`, and the passage from a fired
`acceptAxis` to the per-axis record (`acceptAxis_shift`), and the whole-node statement `accept_sound_node`.  Core Lean only.
-/
import DaskArrayModel.Model.OverlapSliceND
import DaskArrayModel.Lemmas.OverlapSlice
namespace Dask.Lemmas.OverlapSlice
open Dask.Py Dask.Py.PySlice Dask.OverlapSlice Dask.Lemmas.SliceAlgebra

variable {α β γ : Type}

/-- the list-level extension reads exactly the index map -/
theorem padAt_eq_src (b : Boundary α) (dl dr : Nat) (x : List α) (p : Nat) :
    padAt b dl dr x p =
      match padSrc b dl dr x.length p with
      | .idx j => x[j]?.map some
      | .absent => some none
      | .fill c => some (some c)
      | .out => none := by
  unfold padAt padSrc
  cases b <;> simp only [] <;> grind

/-- `s'` (in the sub-array that starts at `es`) and `s` (in the whole axis) read the same thing -/
def srcRel (es : Nat) : Src α → Src α → Prop
  | .idx q, .idx j => j = es + q
  | .absent, .absent => True
  | .fill c, .fill c' => c = c'
  | .out, .out => True
  | _, _ => False

theorem srcRel_refl (s : Src α) : srcRel 0 s s := by
  cases s <;> simp [srcRel]

theorem padSrc_shift (b : Boundary α) (dl dr n s e es ee j t : Nat)
    (he : e ≤ n) (hj : s + j < e) (ht : t ≤ dl + dr)
    (hes : es = s - dl) (hee : ee = min n (e + dr))
    (hl : dl ≤ ee - es) (hr : dr ≤ ee - es)
    (hper : b.kind = .periodic → (dl = 0 ∧ dr = 0) ∨ (es ≠ 0 ∧ ee ≠ n)) :
    srcRel es (padSrc b dl dr (ee - es) (s - es + j + t)) (padSrc b dl dr n (s + j + t)) := by
  unfold padSrc
  cases b with
  | none => simp only []; grind [srcRel]
  | constant c => simp only []; grind [srcRel]
  | nearest => simp only []; grind [srcRel]
  | reflect => simp only []; grind [srcRel]
  | periodic =>
    have := hper rfl
    simp only []; grind [srcRel]

/-- one axis of a fired rewrite, in natural numbers -/
structure AxRec (α : Type) where
  b : Boundary α
  dl : Nat
  dr : Nat
  /-- axis length -/
  n : Nat
  /-- length of the pushed sub-array -/
  m : Nat
  /-- first requested position -/
  s : Nat
  /-- first position of the input slice -/
  es : Nat
  /-- first position of the trim slice -/
  ts : Nat
  /-- number of requested positions -/
  L : Nat

/-- the windows of the requested outputs read the same sources in the sub-array and in the whole axis -/
def AxRec.Shift (r : AxRec α) : Prop :=
  ∀ j t, j < r.L → t ≤ r.dl + r.dr →
    srcRel r.es (padSrc r.b r.dl r.dr r.m (r.ts + j + t)) (padSrc r.b r.dl r.dr r.n (r.s + j + t))

def specsOrig (recs : List (AxRec α)) : List (AxSpec α) := recs.map (fun r => ⟨r.n, r.dl, r.dr, r.b⟩)
def specsSub (recs : List (AxRec α)) : List (AxSpec α) := recs.map (fun r => ⟨r.m, r.dl, r.dr, r.b⟩)

/-- `J` is a multi-index of the requested region -/
def InRange : List (AxRec α) → List Nat → Prop
  | [], [] => True
  | r :: rs, j :: js => j < r.L ∧ InRange rs js
  | _, _ => False

theorem flatMap_congr' {δ ε : Type} (l : List δ) (f g : δ → List ε) (h : ∀ o ∈ l, f o = g o) :
    l.flatMap f = l.flatMap g := by
  induction l with
  | nil => rfl
  | cons a t ih =>
    simp only [List.flatMap_cons]
    rw [h a (by simp), ih (fun o ho => h o (by simp [ho]))]

theorem boxWin_shift : ∀ (recs : List (AxRec α)), (∀ r ∈ recs, r.Shift) →
    ∀ (G G' : List Nat → Option α), (∀ js, G' js = G (addv (recs.map (·.es)) js)) →
    ∀ J, InRange recs J →
      boxWin (widths (specsSub recs)) (padND (specsSub recs) G') (addv (recs.map (·.ts)) J) =
        boxWin (widths (specsOrig recs)) (padND (specsOrig recs) G) (addv (recs.map (·.s)) J) := by
  intro recs
  induction recs with
  | nil =>
    intro _ G G' hG J hJ
    cases J with
    | nil => simp [boxWin, padND, widths, specsSub, specsOrig, hG, addv]
    | cons j js => exact absurd hJ (by simp [InRange])
  | cons r rs ih =>
    intro hrec G G' hG J hJ
    cases J with
    | nil => exact absurd hJ (by simp [InRange])
    | cons j js =>
      obtain ⟨hj, hjs⟩ := hJ
      simp only [specsSub, specsOrig, List.map_cons, widths, addv, boxWin]
      apply flatMap_congr'
      intro o ho
      have ho' : o < r.dl + r.dr + 1 := by simpa using ho
      have hsh := hrec r (by simp) j o hj (by omega)
      have ih' := ih (fun r' hr' => hrec r' (by simp [hr']))
      simp only [specsSub, specsOrig, widths] at ih'
      exact ih' _ _ (by
        intro js'
        revert hsh
        generalize padSrc r.b r.dl r.dr r.m (r.ts + j + o) = a
        generalize padSrc r.b r.dl r.dr r.n (r.s + j + o) = c
        intro hsh
        cases a <;> cases c <;> simp [srcRel] at hsh <;> simp [hG, addv, hsh]) js hjs

/-- n-D soundness at the level of natural numbers: when every axis satisfies `Shift`, the rewritten expression
and the slice of the original agree at every multi-index of the requested region. -/
theorem accept_sound_nd (k : List (Option α) → β) (recs : List (AxRec α)) (hrec : ∀ r ∈ recs, r.Shift)
    (A : List Nat → α) (J : List Nat) (hJ : InRange recs J) :
    sliceND (recs.map (·.ts)) (mapOverlapND k (specsSub recs) (sliceND (recs.map (·.es)) A)) J =
      sliceND (recs.map (·.s)) (mapOverlapND k (specsOrig recs) A) J := by
  unfold sliceND mapOverlapND
  rw [boxWin_shift recs hrec (fun js => some (A js)) _ (fun js => rfl) J hJ]



theorem sel_length_unit (s : PySlice) (n : Int) (h1 : s.stp = 1) :
    (sel s n).length = (s.istop n - s.istart n).toNat := by
  simp [sel, rangeList, h1, rangeLen_one]

/-- the record of one axis, read off the three slices -/
def axRec (b : Boundary α) (dl dr n : Nat) (idx inp trim : PySlice) : AxRec α :=
  { b := b, dl := dl, dr := dr, n := n, m := (sel inp n).length,
    s := (idx.istart n).toNat, es := (inp.istart n).toNat,
    ts := (trim.istart ((sel inp n).length : Nat)).toNat, L := (sel idx n).length }

theorem trim_istart (ts te m : Int) (h0 : 0 ≤ ts) (hm : 0 ≤ m) :
    istart ⟨if ts = 0 then none else some ts, some te, none⟩ m = min ts m := by
  by_cases hz : ts = 0
  · subst hz; simp [istart, stp]; omega
  · simp only [hz, if_false]
    exact istart_mk ts _ _ _ h0 rfl

theorem acceptAxis_shift (b : Boundary α) (dl dr n : Nat) (al : Bool) (idx inp trim : PySlice) (t : Bool)
    (h : acceptAxis n dl dr b.kind al idx = .ok inp trim t) :
    (axRec b dl dr n idx inp trim).Shift ∧
      (sel trim ((sel inp n).length : Nat)).length = (sel idx n).length := by
  have hn : (0 : Int) ≤ n := Int.natCast_nonneg _
  rcases acceptAxis_ok h with ⟨rfl, rfl, rfl, -⟩ | ⟨-, h1, hmax, rfl, rfl, -⟩ |
    ⟨-, h1, hmax, -, hper, hfit, -, rfl, rfl, -⟩
  · have hc : (sel colon (n : Int)).length = n := by
      rw [sel_length_unit _ _ (by decide)]; simp [colon, istart, istop, stp]
    refine ⟨?_, by rw [hc]; exact hc⟩
    intro j t _ _
    simp only [axRec, hc]
    have e1 : (colon.istart (n : Int)).toNat = 0 := by simp [colon, istart, stp]
    rw [e1]
    exact srcRel_refl _
  · have hS := istart_pos_bounds inp n hn (by omega)
    have hE := istop_pos_bounds inp n hn (by omega)
    obtain ⟨s, hs⟩ := Int.eq_ofNat_of_zero_le hS.1
    obtain ⟨e, he⟩ := Int.eq_ofNat_of_zero_le hE.1
    have hdl : dl = 0 := by omega
    have hdr : dr = 0 := by omega
    subst hdl; subst hdr
    have hL : (sel inp (n : Int)).length = e - s := by
      rw [sel_length_unit _ _ h1, hs, he]; omega
    have hc : (sel colon ((e - s : Nat) : Int)).length = e - s := by
      rw [sel_length_unit _ _ (by decide)]; simp [colon, istart, istop, stp]
    refine ⟨?_, by rw [hL, hc]⟩
    intro j t hj ht
    simp only [axRec, hL, hs, Int.toNat_natCast] at hj ht ⊢
    have e1 : (colon.istart ((e - s : Nat) : Int)).toNat = 0 := by simp [colon, istart, stp]
    rw [e1]
    have := padSrc_shift b 0 0 n s e s (min n (e + 0)) j t (by omega) (by omega) ht (by omega) rfl
      (by omega) (by omega) (fun _ => Or.inl ⟨rfl, rfl⟩)
    have e2 : min n (e + 0) - s = e - s := by omega
    rw [e2, Nat.sub_self] at this
    exact this
  · have hS := istart_pos_bounds idx n hn (by omega)
    have hE := istop_pos_bounds idx n hn (by omega)
    obtain ⟨s, hs⟩ := Int.eq_ofNat_of_zero_le hS.1
    obtain ⟨e, he⟩ := Int.eq_ofNat_of_zero_le hE.1
    rw [hs, he] at hper hfit
    rw [hs, he]
    obtain ⟨es, hes⟩ : ∃ es, es = s - dl := ⟨_, rfl⟩
    obtain ⟨ee, hee⟩ : ∃ ee, ee = min n (e + dr) := ⟨_, rfl⟩
    have hes' : max 0 ((s : Int) - dl) = (es : Int) := by omega
    have hee' : min (n : Int) ((e : Int) + dr) = (ee : Int) := by omega
    rw [hes', hee'] at hper hfit
    rw [hes', hee']
    have hi1 : istart ⟨some (es : Int), some (ee : Int), none⟩ (n : Int) = es := by
      rw [istart_mk _ _ _ _ (by omega) rfl]; omega
    have hi2 : istop ⟨some (es : Int), some (ee : Int), none⟩ (n : Int) = ee := by
      rw [istop_mk _ _ _ _ (by omega) rfl]; omega
    have hm : (sel ⟨some (es : Int), some (ee : Int), none⟩ (n : Int)).length = ee - es := by
      rw [sel_length_unit _ _ rfl, hi1, hi2]; omega
    have hL : (sel idx (n : Int)).length = e - s := by
      rw [sel_length_unit _ _ h1, hs, he]; omega
    have ht1 := trim_istart ((s : Int) - es) ((s : Int) - es + ((e : Int) - s)) ((ee - es : Nat) : Int)
      (by omega) (by omega)
    have ht2 : istop ⟨if (s : Int) - es = 0 then none else some ((s : Int) - es),
        some ((s : Int) - es + ((e : Int) - s)), none⟩ ((ee - es : Nat) : Int) =
        min ((s : Int) - es + ((e : Int) - s)) ((ee - es : Nat) : Int) :=
      istop_mk _ _ _ _ (by omega) rfl
    constructor
    · intro j t hj ht
      simp only [axRec, hm, hL, hs, hi1, ht1, Int.toNat_natCast] at hj ht ⊢
      have e1 : (min ((s : Int) - es) ((ee - es : Nat) : Int)).toNat = s - es := by omega
      rw [e1]
      exact padSrc_shift b dl dr n s e es ee j t (by omega) (by omega) ht hes hee (by omega) (by omega)
        (by intro hk; right; constructor <;> (intro hc; apply hper; exact ⟨hk, by omega⟩))
    · rw [hm, hL, sel_length_unit _ _ rfl, ht1, ht2]
      omega


/-- the pushed node can be built: when an overlap axis fires, both depths fit in the pushed sub-array
(`ensure_minimum_chunksize` does not raise for the new `MapOverlap`). -/
theorem acceptAxis_depth_fits (n dl dr : Int) (bk : BKind) (al : Bool) (idx inp trim : PySlice)
    (hn : 0 ≤ n) (h : acceptAxis n dl dr bk al idx = .ok inp trim true) :
    max dl dr ≤ ((sel inp n).length : Int) := by
  rcases acceptAxis_ok h with ⟨-, -, -, h4⟩ | ⟨-, -, -, -, -, h4⟩ |
    ⟨-, h1, hmax, -, hper, hfit, -, rfl, -, -⟩
  · cases h4
  · cases h4
  · have hS := istart_pos_bounds idx n hn (by omega)
    have hE := istop_pos_bounds idx n hn (by omega)
    rw [sel_length_unit _ _ rfl, istart_mk _ _ _ _ (by omega) rfl, istop_mk _ _ _ _ (by omega) rfl]
    omega


/-- the per-axis records of a node on which the loop of `_accept_slice` completed with input slices `is` and
trim slices `ts`; `bs` = the boundary (kind and fill) of each axis -/
def nodeRecs (nd : Node) (bs : List (Boundary α)) : Nat → List PySlice → List PySlice → List PySlice → List (AxRec α)
  | _, [], _, _ => []
  | axis, idx :: rest, is, ts =>
    axRec (bs.getD axis .none) (nd.depth.getD axis (0, 0)).1.toNat (nd.depth.getD axis (0, 0)).2.toNat
      (nd.shape.getD axis 0).toNat idx (is.headD colon) (ts.headD colon) ::
      nodeRecs nd bs (axis + 1) rest is.tail ts.tail

/-- a node as `map_overlap` builds it: non-negative extents and depths, `bs` carries the kinds the node records -/
def NodeWf (nd : Node) (bs : List (Boundary α)) : Prop :=
  (∀ axis, 0 ≤ nd.shape.getD axis 0) ∧
  (∀ axis, 0 ≤ (nd.depth.getD axis (0, 0)).1 ∧ 0 ≤ (nd.depth.getD axis (0, 0)).2) ∧
  (∀ axis, (bs.getD axis .none).kind = nd.bkind.getD axis .none)

theorem nodeRecs_shift (nd : Node) (bs : List (Boundary α)) (hwf : NodeWf nd bs) :
    ∀ (l : List PySlice) (axis : Nat) (is ts : List PySlice) (b : Bool),
      acceptLoop nd axis l = some (is, ts, b) → ∀ r ∈ nodeRecs nd bs axis l is ts, r.Shift := by
  intro l
  induction l with
  | nil => intro axis is ts b _ r hr; simp [nodeRecs] at hr
  | cons idx rest ih =>
    intro axis is ts b h r hr
    unfold acceptLoop at h
    change (match axisCall nd axis idx with
      | .decline => none
      | .ok inp trim t => match acceptLoop nd (axis + 1) rest with
        | none => none
        | some (is, ts, b) => some (inp :: is, trim :: ts, t || b)) = some (is, ts, b) at h
    cases hc : axisCall nd axis idx with
    | decline => rw [hc] at h; simp at h
    | ok inp trim t =>
      rw [hc] at h
      simp only at h
      cases hl : acceptLoop nd (axis + 1) rest with
      | none => rw [hl] at h; simp at h
      | some v =>
        obtain ⟨is', ts', b'⟩ := v
        rw [hl] at h
        simp only [Option.some.injEq, Prod.mk.injEq] at h
        obtain ⟨rfl, rfl, -⟩ := h
        simp only [nodeRecs, List.headD_cons, List.tail_cons, List.mem_cons] at hr
        rcases hr with rfl | hr
        · obtain ⟨h1, h2, h3⟩ := hwf
          have e1 : nd.shape.getD axis 0 = (((nd.shape.getD axis 0).toNat : Nat) : Int) := by
            have := h1 axis; omega
          have e2 : (nd.depth.getD axis (0, 0)).1 = (((nd.depth.getD axis (0, 0)).1.toNat : Nat) : Int) := by
            have := (h2 axis).1; omega
          have e3 : (nd.depth.getD axis (0, 0)).2 = (((nd.depth.getD axis (0, 0)).2.toNat : Nat) : Int) := by
            have := (h2 axis).2; omega
          unfold axisCall at hc
          rw [e1, e2, e3, ← h3 axis] at hc
          exact (acceptAxis_shift _ _ _ _ _ _ _ _ _ hc).1
        · exact ih (axis + 1) is' ts' b' hl r hr

/-- **Whole node, n-D.**  When `_accept_slice` fires with input slices `inps`, the loop completed with some trim
slices `ts` (`trim = some ts` when a trim is needed; otherwise every entry of `ts` is the full slice and the new
node is returned bare), and for every array, every box kernel and every multi-index of the requested region the
rewritten expression has the value of the slice of the original. -/
theorem accept_sound_node (k : List (Option α) → β) (nd : Node) (bs : List (Boundary α)) (hwf : NodeWf nd bs)
    (index : List Ix) (inps : List PySlice) (trim : Option (List PySlice))
    (h : accept nd index = .ok inps trim) :
    ∃ ts needsTrim, acceptLoop nd 0 (fullIndex nd index) = some (inps, ts, needsTrim) ∧
      trim = (if needsTrim then some ts else none) ∧
      ∀ (A : List Nat → α) (J : List Nat),
        InRange (nodeRecs nd bs 0 (fullIndex nd index) inps ts) J →
        sliceND ((nodeRecs nd bs 0 (fullIndex nd index) inps ts).map (·.ts))
            (mapOverlapND k (specsSub (nodeRecs nd bs 0 (fullIndex nd index) inps ts))
              (sliceND ((nodeRecs nd bs 0 (fullIndex nd index) inps ts).map (·.es)) A)) J =
          sliceND ((nodeRecs nd bs 0 (fullIndex nd index) inps ts).map (·.s))
            (mapOverlapND k (specsOrig (nodeRecs nd bs 0 (fullIndex nd index) inps ts)) A) J := by
  unfold accept at h
  simp only at h
  split at h
  · cases h
  · split at h
    · cases h
    · split at h
      · cases h
      · split at h
        · cases h
        · change (match acceptLoop nd 0 (fullIndex nd index) with
            | none => Res.decline
            | some (is, ts, needsTrim) => Res.ok is (if needsTrim then some ts else none)) = Res.ok inps trim at h
          cases hl : acceptLoop nd 0 (fullIndex nd index) with
          | none => rw [hl] at h; cases h
          | some v =>
            obtain ⟨is, ts, b⟩ := v
            rw [hl] at h
            simp only [Res.ok.injEq] at h
            obtain ⟨rfl, rfl⟩ := h
            refine ⟨ts, b, rfl, rfl, ?_⟩
            intro A J hJ
            exact accept_sound_nd k _ (nodeRecs_shift nd bs hwf _ 0 is ts b hl) A J hJ

/-- when no axis set `needs_trim`, every trim entry is the full slice (the bare new node is the whole result) -/
theorem acceptLoop_no_trim (nd : Node) : ∀ (l : List PySlice) (axis : Nat) (is ts : List PySlice),
    acceptLoop nd axis l = some (is, ts, false) → ∀ t ∈ ts, t = colon := by
  intro l
  induction l with
  | nil => intro axis is ts h t ht; simp [acceptLoop] at h; obtain ⟨-, rfl⟩ := h; simp at ht
  | cons idx rest ih =>
    intro axis is ts h t ht
    unfold acceptLoop at h
    change (match axisCall nd axis idx with
      | .decline => none
      | .ok inp trim t => match acceptLoop nd (axis + 1) rest with
        | none => none
        | some (is, ts, b) => some (inp :: is, trim :: ts, t || b)) = some (is, ts, false) at h
    cases hc : axisCall nd axis idx with
    | decline => rw [hc] at h; simp at h
    | ok inp trim t' =>
      rw [hc] at h
      simp only at h
      cases hl : acceptLoop nd (axis + 1) rest with
      | none => rw [hl] at h; simp at h
      | some v =>
        obtain ⟨is', ts', b'⟩ := v
        rw [hl] at h
        simp only [Option.some.injEq, Prod.mk.injEq, Bool.or_eq_false_iff] at h
        obtain ⟨rfl, rfl, rfl, rfl⟩ := h
        simp only [List.mem_cons] at ht
        rcases ht with rfl | ht
        · unfold axisCall at hc
          rcases acceptAxis_ok hc with ⟨-, -, h3, -⟩ | ⟨-, -, -, -, h3, -⟩ | ⟨-, -, -, -, -, -, -, -, -, h4⟩
          · exact h3
          · exact h3
          · cases h4
        · exact ih (axis + 1) is' ts' hl t ht


end Dask.Lemmas.OverlapSlice
