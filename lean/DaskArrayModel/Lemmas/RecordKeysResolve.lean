/-
Lemmas for Model/RecordKeys.lean, part 2: `_Flattener.resolve` / `_records` at the string level —
the strings of the embedded references ARE the collected deps, every embedded key is canonical, and
the refinement of the abstract-key model of Model/Graph.lean (`resolve cfgK`), through which
`records_complete` (C21_flatten_complete) transfers to the strings a worker looks up.
-/
import DaskArrayModel.Lemmas.RecordKeys
import DaskArrayModel.Lemmas.Graph
namespace Dask.Lemmas.RecordKeys
open Dask.RecordKeys
open Dask.Graph (Node Args Arg Rec FlatCfg nodeRefs argsRefs argRefs argRefsL)

/-! ## embedded keys of rewritten arguments -/

theorem keysL_append (xs ys : List OArg) : keysL (xs ++ ys) = keysL xs ++ keysL ys := by
  induction xs with
  | nil => simp [keysL]
  | cons a as ih => simp [keysL, ih]

theorem keysL_lits (d : List Nat) : keysL (d.map OArg.lit) = [] := by
  induction d with
  | nil => simp [keysL]
  | cons a as ih => simp [keysL, OArg.keys, ih]

theorem refStrsL_lits_append (d : List Nat) (xs : List OArg) :
    refStrsL (d.map OArg.lit ++ xs) = refStrsL xs := by
  simp [refStrsL, keysL_append, keysL_lits]

theorem mem_sortedSet (l : List String) (x : String) : x ∈ sortedSet l ↔ x ∈ l :=
  Dask.Lemmas.Graph.mem_sortDedupBy _ l x

/-! ## the strings of the embedded references are the collected deps -/

mutual
theorem resolve_strs (parent : String) : ∀ (t : Term) (n : Nat),
    (resolve normalize parent t n).1.refStrs = (resolve normalize parent t n).2.2.2 ∧
    ∀ rec ∈ (resolve normalize parent t n).2.2.1, ∀ s, s ∈ refStrsL rec.args ↔ s ∈ rec.deps
  | .ref k, n => by simp [resolve, OArg.refStrs, OArg.keys]
  | .alias k, n => by simp [resolve, OArg.refStrs, OArg.keys]
  | .data v, n => by simp [resolve, OArg.refStrs, OArg.keys]
  | .lit v, n => by simp [resolve, OArg.refStrs, OArg.keys]
  | .other, n => by simp [resolve, OArg.refStrs, OArg.keys]
  | .nlist xs, n => by
    have := resolveL_strs parent xs n
    simpa [resolve, OArg.refStrs, OArg.keys, refStrsL] using this
  | .ntuple xs, n => by
    have := resolveL_strs parent xs n
    simpa [resolve, OArg.refStrs, OArg.keys, refStrsL] using this
  | .plist xs, n => by
    have := resolveL_strs parent xs n
    simpa [resolve, OArg.refStrs, OArg.keys, refStrsL] using this
  | .ptuple xs, n => by
    have := resolveL_strs parent xs n
    simpa [resolve, OArg.refStrs, OArg.keys, refStrsL] using this
  | .pdict ks xs, n => by
    have := resolveL_strs parent xs n
    simpa [resolve, OArg.refStrs, OArg.keys, refStrsL] using this
  | .task f kw xs, n => by
    obtain ⟨h1, h2⟩ := resolveL_strs parent xs (n + 1)
    refine ⟨by simp [resolve, OArg.refStrs, OArg.keys, keyStr_bare], ?_⟩
    intro rec hrec s
    simp only [resolve, List.mem_append, List.mem_singleton] at hrec
    rcases hrec with hrec | rfl
    · exact h2 rec hrec s
    · simp only [mem_sortedSet, h1]
  | .fused f d kw xs, n => by
    obtain ⟨h1, h2⟩ := resolveL_strs parent xs (n + 1)
    refine ⟨by simp [resolve, OArg.refStrs, OArg.keys, keyStr_bare], ?_⟩
    intro rec hrec s
    simp only [resolve, List.mem_append, List.mem_singleton] at hrec
    rcases hrec with hrec | rfl
    · exact h2 rec hrec s
    · simp only [mem_sortedSet, refStrsL_lits_append, h1]
theorem resolveL_strs (parent : String) : ∀ (ts : Terms) (n : Nat),
    refStrsL (resolveL normalize parent ts n).1 = (resolveL normalize parent ts n).2.2.2 ∧
    ∀ rec ∈ (resolveL normalize parent ts n).2.2.1, ∀ s, s ∈ refStrsL rec.args ↔ s ∈ rec.deps
  | .nil, n => by simp [resolveL, refStrsL, keysL]
  | .cons x xs, n => by
    obtain ⟨a1, a2⟩ := resolve_strs parent x n
    obtain ⟨b1, b2⟩ := resolveL_strs parent xs (resolve normalize parent x n).2.1
    refine ⟨?_, ?_⟩
    · simp only [resolveL, refStrsL, keysL, List.map_append]
      simp only [OArg.refStrs] at a1
      simp only [refStrsL] at b1
      rw [a1, b1]
    · intro rec hrec s
      simp only [resolveL, List.mem_append] at hrec
      rcases hrec with hrec | hrec
      · exact a2 rec hrec s
      · exact b2 rec hrec s
end

/-! ## every embedded key is canonical -/

mutual
theorem resolve_canon (parent : String) : ∀ (t : Term) (n : Nat),
    (∀ k ∈ t.refs, k.normalizable = true) →
    (∀ k ∈ (resolve normalize parent t n).1.keys, k.canon = true) ∧
    ∀ rec ∈ (resolve normalize parent t n).2.2.1, ∀ k ∈ keysL rec.args, k.canon = true
  | .ref k, n => by
    intro h; simp only [resolve, OArg.keys, List.mem_singleton, List.not_mem_nil, false_imp_iff, implies_true, and_true]
    rintro _ rfl; exact normalize_canon k (h k (by simp [Term.refs]))
  | .alias k, n => by
    intro h; simp only [resolve, OArg.keys, List.mem_singleton, List.not_mem_nil, false_imp_iff, implies_true, and_true]
    rintro _ rfl; exact normalize_canon k (h k (by simp [Term.refs]))
  | .data v, n => by simp [resolve, OArg.keys]
  | .lit v, n => by simp [resolve, OArg.keys]
  | .other, n => by simp [resolve, OArg.keys]
  | .nlist xs, n => by
    intro h; simpa [resolve, OArg.keys] using resolveL_canon parent xs n (by simpa [Term.refs] using h)
  | .ntuple xs, n => by
    intro h; simpa [resolve, OArg.keys] using resolveL_canon parent xs n (by simpa [Term.refs] using h)
  | .plist xs, n => by
    intro h; simpa [resolve, OArg.keys] using resolveL_canon parent xs n (by simpa [Term.refs] using h)
  | .ptuple xs, n => by
    intro h; simpa [resolve, OArg.keys] using resolveL_canon parent xs n (by simpa [Term.refs] using h)
  | .pdict ks xs, n => by
    intro h; simpa [resolve, OArg.keys] using resolveL_canon parent xs n (by simpa [Term.refs] using h)
  | .task f kw xs, n => by
    intro h
    obtain ⟨h1, h2⟩ := resolveL_canon parent xs (n + 1) (by simpa [Term.refs] using h)
    refine ⟨by simp [resolve, OArg.keys, PKey.canon], ?_⟩
    intro rec hrec k hk
    simp only [resolve, List.mem_append, List.mem_singleton] at hrec
    rcases hrec with hrec | rfl
    · exact h2 rec hrec k hk
    · exact h1 k hk
  | .fused f d kw xs, n => by
    intro h
    obtain ⟨h1, h2⟩ := resolveL_canon parent xs (n + 1) (by simpa [Term.refs] using h)
    refine ⟨by simp [resolve, OArg.keys, PKey.canon], ?_⟩
    intro rec hrec k hk
    simp only [resolve, List.mem_append, List.mem_singleton] at hrec
    rcases hrec with hrec | rfl
    · exact h2 rec hrec k hk
    · simp only [keysL_append, keysL_lits, List.nil_append] at hk
      exact h1 k hk
theorem resolveL_canon (parent : String) : ∀ (ts : Terms) (n : Nat),
    (∀ k ∈ ts.refs, k.normalizable = true) →
    (∀ k ∈ keysL (resolveL normalize parent ts n).1, k.canon = true) ∧
    ∀ rec ∈ (resolveL normalize parent ts n).2.2.1, ∀ k ∈ keysL rec.args, k.canon = true
  | .nil, n => by simp [resolveL, keysL]
  | .cons x xs, n => by
    intro h
    obtain ⟨a1, a2⟩ := resolve_canon parent x n (fun k hk => h k (by simp [Terms.refs, hk]))
    obtain ⟨b1, b2⟩ := resolveL_canon parent xs (resolve normalize parent x n).2.1
      (fun k hk => h k (by simp [Terms.refs, hk]))
    refine ⟨?_, ?_⟩
    · intro k hk
      simp only [resolveL, keysL, List.mem_append] at hk
      rcases hk with hk | hk
      · exact a1 k hk
      · exact b1 k hk
    · intro rec hrec
      simp only [resolveL, List.mem_append] at hrec
      rcases hrec with hrec | hrec
      · exact a2 rec hrec
      · exact b2 rec hrec
end

/-! ## `_records` -/

/-- the shape of a record set built from resolved arguments -/
theorem records_strs (key : PKey) (t : Term) (rs : List ORec) (h : records normalize key t = some rs) :
    ∀ rec ∈ rs, ∀ s, s ∈ refStrsL rec.args ↔ s ∈ rec.deps := by
  have main : ∀ (xs : Terms) (hd : ORec), refStrsL hd.args = refStrsL (resolveL normalize (keyStr (normalize key)) xs 0).1 →
      hd.deps = sortedSet (resolveL normalize (keyStr (normalize key)) xs 0).2.2.2 →
      ∀ rec ∈ hd :: (resolveL normalize (keyStr (normalize key)) xs 0).2.2.1, ∀ s, s ∈ refStrsL rec.args ↔ s ∈ rec.deps := by
    intro xs hd e1 e2 rec hrec s
    obtain ⟨h1, h2⟩ := resolveL_strs (keyStr (normalize key)) xs 0
    rcases List.mem_cons.mp hrec with rfl | hrec
    · rw [e1, e2, mem_sortedSet, h1]
    · exact h2 rec hrec s
  cases t with
  | alias k =>
    simp only [records] at h
    split at h
    · cases h; simp
    · cases h; simp [refStrsL, keysL, OArg.keys, eq_comm]
  | data v => simp only [records] at h; cases h; simp [refStrsL, keysL, OArg.keys]
  | lit v => simp only [records] at h; cases h; simp [refStrsL, keysL, OArg.keys]
  | nlist xs =>
    simp only [records] at h; cases h
    exact main xs _ (by simp [refStrsL, keysL, OArg.keys]) rfl
  | ntuple xs =>
    simp only [records] at h; cases h
    exact main xs _ (by simp [refStrsL, keysL, OArg.keys]) rfl
  | task f kw xs =>
    simp only [records] at h; cases h
    exact main xs _ rfl rfl
  | fused f d kw xs =>
    simp only [records] at h; cases h
    exact main xs _ (by simp [refStrsL_lits_append]) rfl
  | ref k => simp [records] at h
  | plist xs => simp [records] at h
  | ptuple xs => simp [records] at h
  | pdict ks xs => simp [records] at h
  | other => simp [records] at h

theorem records_canon (key : PKey) (t : Term) (rs : List ORec) (h : records normalize key t = some rs)
    (hn : ∀ k ∈ t.refs, k.normalizable = true) :
    ∀ rec ∈ rs, ∀ k ∈ keysL rec.args, k.canon = true := by
  have main : ∀ (xs : Terms) (hd : ORec), (∀ k ∈ xs.refs, k.normalizable = true) →
      keysL hd.args = keysL (resolveL normalize (keyStr (normalize key)) xs 0).1 →
      ∀ rec ∈ hd :: (resolveL normalize (keyStr (normalize key)) xs 0).2.2.1, ∀ k ∈ keysL rec.args, k.canon = true := by
    intro xs hd hx e1 rec hrec k hk
    obtain ⟨h1, h2⟩ := resolveL_canon (keyStr (normalize key)) xs 0 hx
    rcases List.mem_cons.mp hrec with rfl | hrec
    · rw [e1] at hk; exact h1 k hk
    · exact h2 rec hrec k hk
  cases t with
  | alias k =>
    simp only [records] at h
    split at h
    · cases h; simp
    · cases h
      simp only [List.mem_singleton, forall_eq, keysL, OArg.keys, List.append_nil]
      exact normalize_canon k (hn k (by simp [Term.refs]))
  | data v => simp only [records] at h; cases h; simp [keysL, OArg.keys]
  | lit v => simp only [records] at h; cases h; simp [keysL, OArg.keys]
  | nlist xs =>
    simp only [records] at h; cases h
    exact main xs _ (by simpa [Term.refs] using hn) (by simp [keysL, OArg.keys])
  | ntuple xs =>
    simp only [records] at h; cases h
    exact main xs _ (by simpa [Term.refs] using hn) (by simp [keysL, OArg.keys])
  | task f kw xs =>
    simp only [records] at h; cases h
    exact main xs _ (by simpa [Term.refs] using hn) rfl
  | fused f d kw xs =>
    simp only [records] at h; cases h
    exact main xs _ (by simpa [Term.refs] using hn) (by simp [keysL_append, keysL_lits])
  | ref k => simp [records] at h
  | plist xs => simp [records] at h
  | ptuple xs => simp [records] at h
  | pdict ks xs => simp [records] at h
  | other => simp [records] at h

/-! ## refinement of the abstract-key model -/

mutual
theorem argRefs_erase : ∀ (a : OArg), argRefs (erase a) = a.refStrs
  | .ref k => by simp [erase, argRefs, OArg.refStrs, OArg.keys]
  | .lit v => by simp [erase, argRefs, OArg.refStrs, OArg.keys]
  | .list xs => by simpa [erase, argRefs, OArg.refStrs, OArg.keys, refStrsL] using argRefsL_erase xs
  | .tuple xs => by simpa [erase, argRefs, OArg.refStrs, OArg.keys, refStrsL] using argRefsL_erase xs
  | .dict ks xs => by simpa [erase, argRefs, OArg.refStrs, OArg.keys, refStrsL] using argRefsL_erase xs
theorem argRefsL_erase : ∀ (as : List OArg), argRefsL (eraseL as) = refStrsL as
  | [] => by simp [eraseL, argRefsL, refStrsL, keysL]
  | a :: as => by
    have h1 := argRefs_erase a
    have h2 := argRefsL_erase as
    simp only [OArg.refStrs] at h1
    simp only [refStrsL] at h2
    simp [eraseL, argRefsL, refStrsL, keysL, h1, h2]
end

mutual
theorem resolve_erase (parent : String) : ∀ (x : Node PKey String Nat) (n : Nat),
    Dask.Graph.resolve cfgK parent x n =
      (erase (resolve normalize parent (ofNode x) n).1, (resolve normalize parent (ofNode x) n).2.1,
        (resolve normalize parent (ofNode x) n).2.2.1.map eraseRec, (resolve normalize parent (ofNode x) n).2.2.2)
  | .taskRef k, n => by simp [Dask.Graph.resolve, resolve, ofNode, erase, cfgK]
  | .alias k, n => by simp [Dask.Graph.resolve, resolve, ofNode, erase, cfgK]
  | .data v, n => by simp [Dask.Graph.resolve, resolve, ofNode, erase]
  | .lit v, n => by simp [Dask.Graph.resolve, resolve, ofNode, erase]
  | .list xs, n => by simp [Dask.Graph.resolve, resolve, ofNode, erase, resolveL_erase parent xs n]
  | .tuple xs, n => by simp [Dask.Graph.resolve, resolve, ofNode, erase, resolveL_erase parent xs n]
  | .plist xs, n => by simp [Dask.Graph.resolve, resolve, ofNode, erase, resolveL_erase parent xs n]
  | .ptuple xs, n => by simp [Dask.Graph.resolve, resolve, ofNode, erase, resolveL_erase parent xs n]
  | .task f kw xs, n => by
    simp only [Dask.Graph.resolve, resolve, ofNode]
    rw [resolveL_erase parent xs (n + 1)]
    simp [erase, cfgK, eraseRec, keyStr_bare]
theorem resolveL_erase (parent : String) : ∀ (xs : Args PKey String Nat) (n : Nat),
    Dask.Graph.resolveArgs cfgK parent xs n =
      (eraseL (resolveL normalize parent (ofArgs xs) n).1, (resolveL normalize parent (ofArgs xs) n).2.1,
        (resolveL normalize parent (ofArgs xs) n).2.2.1.map eraseRec, (resolveL normalize parent (ofArgs xs) n).2.2.2)
  | .nil, n => by simp [Dask.Graph.resolveArgs, resolveL, ofArgs, eraseL]
  | .cons x xs, n => by
    simp [Dask.Graph.resolveArgs, resolveL, ofArgs, eraseL, resolve_erase parent x n,
      resolveL_erase parent xs (resolve normalize parent (ofNode x) n).2.1]
end

theorem records_erase (key : PKey) (node : Node PKey String Nat) (rs : List ORec)
    (h : records normalize key (ofNode node) = some rs) :
    Dask.Graph.records cfgK (keyStr (normalize key)) node = rs.map eraseRec := by
  cases node with
  | taskRef k => simp [ofNode, records] at h
  | plist xs => simp [ofNode, records] at h
  | ptuple xs => simp [ofNode, records] at h
  | alias k =>
    simp only [ofNode, records] at h
    simp only [Dask.Graph.records, cfgK]
    split at h
    · rename_i he; cases h; simp [he]
    · rename_i he; cases h; simp [he, eraseRec, eraseL, erase]
  | data v => simp only [ofNode, records] at h; cases h; simp [Dask.Graph.records, eraseRec, eraseL, erase]
  | lit v => simp only [ofNode, records] at h; cases h; simp [Dask.Graph.records, eraseRec, eraseL, erase]
  | list xs =>
    simp only [ofNode, records] at h; cases h
    simp only [Dask.Graph.records]
    rw [resolveL_erase]
    simp [eraseRec, eraseL, erase, cfgK]
  | tuple xs =>
    simp only [ofNode, records] at h; cases h
    simp only [Dask.Graph.records]
    rw [resolveL_erase]
    simp [eraseRec, eraseL, erase, cfgK]
  | task f kw xs =>
    simp only [ofNode, records] at h; cases h
    simp only [Dask.Graph.records]
    rw [resolveL_erase]
    simp [eraseRec, cfgK]

theorem subKey_inj (parent : String) (a b : Nat) (h : subKey parent a = subKey parent b) : a = b := by
  simp only [subKey] at h
  exact natChars_inj (String.ofList_injective ((String.append_right_inj _).mp h))

/-- COMPLETENESS AT THE STRING LEVEL (through `records_complete` of Lemmas/Graph.lean) -/
theorem records_complete_str (key : PKey) (node : Node PKey String Nat) (main : ORec) (extra : List ORec)
    (h : records normalize key (ofNode node) = some (main :: extra)) :
    (extra.map (·.key)).Nodup ∧
    (∀ r ∈ extra, ∃ i, 1 ≤ i ∧ r.key = subKey (keyStr (normalize key)) i) ∧
    ∀ r ∈ main :: extra, ∀ s ∈ refStrsL r.args,
      (∃ k ∈ nodeRefs node, s = keyStr (normalize k)) ∨ ∃ r' ∈ extra, r'.key = s := by
  have hG := records_erase key node _ h
  simp only [List.map_cons] at hG
  obtain ⟨g1, g2, g3⟩ := Dask.Lemmas.Graph.records_complete (cfg := cfgK) (parent := keyStr (normalize key))
    (fun l x => mem_sortedSet l x) (fun a b hab => subKey_inj _ a b hab) node _ _ hG
  have hk : (extra.map eraseRec).map (·.key) = extra.map (·.key) := by
    simp [List.map_map, Function.comp_def, eraseRec]
  refine ⟨hk ▸ g1, ?_, ?_⟩
  · intro r hr
    obtain ⟨i, hi, e⟩ := g2 (eraseRec r) (List.mem_map_of_mem hr)
    exact ⟨i, hi, e⟩
  · intro r hr s hs
    have hd : s ∈ r.deps := (records_strs key (ofNode node) _ h r hr s).mp hs
    have hr' : eraseRec r ∈ eraseRec main :: extra.map eraseRec := by
      rcases List.mem_cons.mp hr with rfl | hr
      · simp
      · exact List.mem_cons_of_mem _ (List.mem_map_of_mem hr)
    rcases g3 (eraseRec r) hr' s hd with ⟨k, hk1, hk2⟩ | ⟨r', hr1, hr2⟩
    · exact Or.inl ⟨k, hk1, hk2⟩
    · obtain ⟨r'', hr3, rfl⟩ := List.mem_map.mp hr1
      exact Or.inr ⟨r'', hr3, hr2⟩

end Dask.Lemmas.RecordKeys
