/-
`_vindex_merge` as a scatter (Model/Vindex.lean `vmerge`).  Core Lean only.
-/
import DaskArrayModel.Lemmas.VindexBase
namespace Dask.Lemmas.Vindex
open Dask.Py Dask.Slicing Dask.Indexing Dask.Shuffle Dask.Vindex Dask.Lemmas.Shuffle

/-! ### `_vindex_merge`: scatter -/

theorem getD_set {α} (buf : List α) (l l' : Nat) (v d : α) :
    (buf.set l v).getD l' d = if l' = l ∧ l < buf.length then v else buf.getD l' d := by
  simp only [List.getD_eq_getElem?_getD, List.getElem?_set]
  by_cases h : l = l'
  · subst h
    by_cases h2 : l < buf.length
    · simp [h2]
    · simp [h2]
  · have : ¬ l' = l := fun e => h e.symm
    simp [h, this]

/-- invariant of the writes: cells are unwritten or hold `f` of their position; written cells stay written. -/
def Inv {α} (f : Nat → α) (buf : List (Option α)) : Prop :=
  ∀ l, buf.getD l none = none ∨ buf.getD l none = some (f l)

theorem writeAll_spec {α} (f : Nat → α) (loc : Nat → Nat) (val : Nat → α) : ∀ (J : List Nat) (buf : List (Option α)),
    (∀ j ∈ J, loc j < buf.length ∧ val j = f (loc j)) → Inv f buf →
    let r := writeAll buf (J.map (fun j => ((loc j : Nat) : Int))) (J.map val)
    r.length = buf.length ∧ Inv f r ∧
      (∀ l, (buf.getD l none ≠ none ∨ ∃ j ∈ J, loc j = l) → r.getD l none ≠ none)
  | [], buf, _, hinv => by
    simp only [List.map_nil, writeAll]
    exact ⟨trivial, hinv, fun l h => by
      rcases h with h | ⟨j, hj, _⟩
      · exact h
      · simp at hj⟩
  | j :: J, buf, hJ, hinv => by
    have hj := hJ j (by simp)
    have hinv' : Inv f (buf.set (loc j) (some (val j))) := by
      intro l
      rw [getD_set]
      by_cases h : l = loc j ∧ loc j < buf.length
      · rw [if_pos h, hj.2, h.1]; exact Or.inr rfl
      · rw [if_neg h]; exact hinv l
    have ih := writeAll_spec f loc val J (buf.set (loc j) (some (val j)))
      (fun j' hj' => by simpa using hJ j' (List.mem_cons_of_mem _ hj')) hinv'
    simp only [List.map_cons, writeAll, Int.toNat_natCast]
    refine ⟨by simpa using ih.1, ih.2.1, ?_⟩
    intro l h
    apply ih.2.2 l
    rcases h with h | ⟨j', hj', e⟩
    · left
      rw [getD_set]
      split
      · simp
      · exact h
    · rcases List.mem_cons.mp hj' with rfl | hj'
      · left
        rw [getD_set, if_pos ⟨e.symm, hj.1⟩]; simp
      · exact Or.inr ⟨j', hj', e⟩

theorem foldl_writeAll_spec {α} (f : Nat → α) (loc : Nat → Nat) (val : Nat → α) :
    ∀ (Js : List (List Nat)) (buf : List (Option α)),
    (∀ j ∈ Js.flatten, loc j < buf.length ∧ val j = f (loc j)) → Inv f buf →
    let r := (Js.map (fun J => (J.map (fun j => ((loc j : Nat) : Int)), J.map val))).foldl
      (fun buf p => writeAll buf p.1 p.2) buf
    r.length = buf.length ∧ Inv f r ∧
      (∀ l, (buf.getD l none ≠ none ∨ ∃ j ∈ Js.flatten, loc j = l) → r.getD l none ≠ none)
  | [], buf, _, hinv => by
    simp only [List.map_nil, List.foldl_nil]
    exact ⟨trivial, hinv, fun l h => by
      rcases h with h | ⟨j, hj, _⟩
      · exact h
      · simp at hj⟩
  | J :: Js, buf, hJ, hinv => by
    have h1 := writeAll_spec f loc val J buf (fun j hj => hJ j (by simp [hj])) hinv
    have ih := foldl_writeAll_spec f loc val Js _
      (fun j hj => by rw [h1.1]; exact hJ j (by simp [hj])) h1.2.1
    simp only [List.map_cons, List.foldl_cons]
    refine ⟨by rw [ih.1, h1.1], ih.2.1, ?_⟩
    intro l h
    apply ih.2.2 l
    rcases h with h | ⟨j, hj, e⟩
    · exact Or.inl (h1.2.2 l (Or.inl h))
    · rw [List.flatten_cons] at hj
      rcases List.mem_append.mp hj with hj | hj
      · exact Or.inl (h1.2.2 l (Or.inr ⟨j, hj, e⟩))
      · exact Or.inr ⟨j, hj, e⟩

theorem foldl_add_lengths {β} (len : β → Nat) : ∀ (l : List β) (a : Nat),
    (l.map len).foldl (· + ·) a = a + (l.map len).sum
  | [], a => by simp
  | b :: l, a => by simp [foldl_add_lengths len l (a + len b)]; omega

/-- `_vindex_merge` on parts whose locations tile `range n`: the buffer is completely written. -/
theorem vmerge_spec {α} (f : Nat → α) (loc : Nat → Nat) (val : Nat → α) (Js : List (List Nat)) (n : Nat)
    (hn : Js.flatten.length = n) (hloc : ∀ j ∈ Js.flatten, loc j < n ∧ val j = f (loc j))
    (hcov : ∀ l < n, ∃ j ∈ Js.flatten, loc j = l) :
    vmerge (Js.map (fun J => (J.map (fun j => ((loc j : Nat) : Int)), J.map val))) =
      (List.range n).map (fun l => some (f l)) := by
  unfold vmerge
  have hlen : ((Js.map (fun J => (J.map (fun j => ((loc j : Nat) : Int)), J.map val))).map
      (fun p => p.1.length)).foldl (· + ·) 0 = n := by
    rw [List.map_map, foldl_add_lengths]
    simp only [Function.comp_def, List.length_map, Nat.zero_add]
    rw [← hn, List.length_flatten]
  rw [hlen]
  have h := foldl_writeAll_spec f loc val Js (List.replicate n none)
    (by simpa using hloc) (by intro l; left; simp [List.getD_eq_getElem?_getD, List.getElem?_replicate]; split <;> rfl)
  obtain ⟨h1, h2, h3⟩ := h
  apply List.ext_getElem
  · simp [h1]
  · intro l hl1 hl2
    simp only [List.length_map, List.length_range] at hl2
    have hw := h3 l (Or.inr (hcov l hl2))
    have hi := h2 l
    rw [List.getD_eq_getElem?_getD, List.getElem?_eq_getElem hl1] at hw hi
    simp only [Option.getD_some] at hw hi
    rcases hi with hi | hi
    · exact absurd hi hw
    · simp [hi]

end Dask.Lemmas.Vindex
