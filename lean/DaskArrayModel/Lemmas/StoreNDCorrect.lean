/-
Correctness of the n-d store model from the "glue" facts (the write index of every block names the
block's piece of the region's selection): per-block write formula, partition, final target for any
order of the blocks, several triples.  Core Lean only.
-/
import DaskArrayModel.Lemmas.StoreNDBlocks
namespace Dask.Lemmas.StoreND
open Dask.Py Dask.Py.PySlice Dask.Slicing Dask.SourceIO Dask.StoreND Dask.Lemmas.SourceIO

/-- what links `store`'s per-block index computation to the region's selection `G` -/
structure Glue (tshape : List Int) (region : Option (List RIdx)) (chunks : List (List Int))
    (G : List AxSel) : Prop where
  sel : regionSel tshape region = .ok G
  nodup : NodupSel G
  shape : selShape G = srcShape chunks
  block : ∀ bid ∈ blockIds chunks, ∃ widx,
    storeIndex region (blockIndex chunks bid) = .ok widx ∧
    indexSel tshape widx = .ok (blockSel G (blockIndex chunks bid))

/-- the write of block `bid`, as a function of the region's selection -/
def blockSpec (G : List AxSel) (chunks : List (List Int)) (src : Pos → Int) (bid : List Nat) : Write Pos :=
  fun q => match locate G q with
    | none => none
    | some g => if inBlock (blockIndex chunks bid) g then some (src g) else none

theorem blockWrite_eq (tshape : List Int) (region : Option (List RIdx)) (chunks : List (List Int))
    (G : List AxSel) (src : Pos → Int) (hc : ChunksOK chunks) (hg : Glue tshape region chunks G)
    (bid : List Nat) (hb : bid ∈ blockIds chunks) :
    blockWrite tshape region chunks src bid = .ok (blockSpec G chunks src bid) := by
  obtain ⟨widx, hw, hsel⟩ := hg.block bid hb
  have hfit := fits_block G chunks hc hg.nodup hg.shape bid hb
  unfold blockWrite
  simp only [hw]
  split
  · rename_i hz
    congr 1
    funext q
    unfold blockSpec
    cases hl : locate G q with
    | none => rfl
    | some g =>
      simp only
      split
      · rename_i hin
        have := iprod_pos_of_inBlock _ g hin
        omega
      · rfl
  · simp only [hsel, selShape_blockSel G _ hfit, bcastOk_self, if_true]
    congr 1
    funext q
    unfold blockSpec
    rw [locate_blockSel G _ q hfit]
    cases hl : locate G q with
    | none => rfl
    | some g =>
      simp only
      split
      · rename_i hin
        simp only [Option.map_some, bcastIdx_inBlock _ g hin, addPos_subPos _ g hin]
      · rfl

theorem blockSpec_disjoint (G : List AxSel) (chunks : List (List Int)) (src : Pos → Int)
    (hc : ChunksOK chunks) (bid bid' : List Nat) (hb : bid ∈ blockIds chunks) (hb' : bid' ∈ blockIds chunks)
    (hne : bid ≠ bid') : Disjoint (blockSpec G chunks src bid) (blockSpec G chunks src bid') := by
  intro q
  unfold blockSpec
  cases hl : locate G q with
  | none => left; rfl
  | some g =>
    simp only
    by_cases h1 : inBlock (blockIndex chunks bid) g = true
    · by_cases h2 : inBlock (blockIndex chunks bid') g = true
      · exact absurd (nd_unique chunks hc g bid bid' hb hb' h1 h2) hne
      · right; simp [h2]
    · left; simp [h1]

/-- partition: a target position is written by some block iff the region selects it, and then by
exactly one block, which writes the source value at the position's multi-index in the selection -/
theorem writes_partition (G : List AxSel) (chunks : List (List Int)) (src : Pos → Int)
    (hc : ChunksOK chunks) (hs : selShape G = srcShape chunks) (q : Pos) :
    (∀ g, locate G q = some g →
      ∃ bid ∈ blockIds chunks, blockSpec G chunks src bid q = some (src g) ∧
        ∀ bid' ∈ blockIds chunks, bid' ≠ bid → blockSpec G chunks src bid' q = none) ∧
    (locate G q = none → ∀ bid, blockSpec G chunks src bid q = none) := by
  constructor
  · intro g hl
    obtain ⟨bid, hb, hin⟩ := nd_cover chunks hc g (locate_inRange G chunks hs q g hl)
    refine ⟨bid, hb, by simp [blockSpec, hl, hin], ?_⟩
    intro bid' hb' hne
    rcases blockSpec_disjoint G chunks src hc bid' bid hb' hb hne q with h | h
    · exact h
    · simp [blockSpec, hl, hin] at h
  · intro hl bid
    simp [blockSpec, hl]

theorem nodup_blockIds (chunks : List (List Int)) : (blockIds chunks).Nodup := by
  induction chunks with
  | nil => simp [blockIds]
  | cons c cs ih =>
    unfold blockIds
    rw [List.Nodup, List.pairwise_flatMap]
    constructor
    · intro i _
      rw [List.pairwise_map]
      exact ih.imp (fun h e => h (by injection e))
    · exact (List.nodup_range (n := c.length)).imp (fun {a b} hab x hx y hy e => by
        obtain ⟨_, _, rfl⟩ := List.mem_map.mp hx
        obtain ⟨_, _, rfl⟩ := List.mem_map.mp hy
        injection e with e1 _
        exact hab e1)

/-- the final target for ANY order of the blocks that is a permutation of all blocks -/
theorem store_correct (tshape : List Int) (region : Option (List RIdx)) (chunks : List (List Int))
    (G : List AxSel) (src tgt : Pos → Int) (hc : ChunksOK chunks) (hg : Glue tshape region chunks G)
    (order : List (List Nat)) (hp : order.Perm (blockIds chunks)) :
    storeEvalOrder tshape region chunks src order tgt = .ok (specTarget G src tgt) := by
  unfold storeEvalOrder
  have hm : mapE (blockWrite tshape region chunks src) order = .ok (order.map (blockSpec G chunks src)) :=
    mapE_eq_map _ _ _ (fun bid hb => blockWrite_eq tshape region chunks G src hc hg bid (hp.mem_iff.mp hb))
  simp only [hm]
  congr 1
  funext q
  have hnd : order.Nodup := hp.nodup_iff.mpr (nodup_blockIds chunks)
  have hpw : (order.map (blockSpec G chunks src)).Pairwise Disjoint := by
    rw [List.pairwise_map]
    exact hnd.imp_of_mem (fun {a b} ha hb hab =>
      blockSpec_disjoint G chunks src hc a b (hp.mem_iff.mp ha) (hp.mem_iff.mp hb) hab)
  have hpart := writes_partition G chunks src hc hg.shape q
  unfold specTarget
  cases hl : locate G q with
  | none =>
    simp only
    apply applyAll_none
    intro w hw
    obtain ⟨bid, _, rfl⟩ := List.mem_map.mp hw
    exact hpart.2 hl bid
  | some g =>
    simp only
    obtain ⟨bid, hb, hv, _⟩ := hpart.1 g hl
    exact applyAll_some tgt _ q (src g) hpw (blockSpec G chunks src bid)
      (List.mem_map.mpr ⟨bid, hp.mem_iff.mpr hb, rfl⟩) hv

end Dask.Lemmas.StoreND
