/-
Soundness of the `Transpose._simplify_down` rules on `Expr`, the transpose layer (block-key map + per-block
transposition) and the elemwise split.  Core Lean only.
-/
import DaskArrayModel.Lemmas.Perm
namespace Dask.Perm
open Dask.Py Dask.Slicing Dask.ND

/-! ### the rules on `Expr` -/

theorem transposeTranspose_sound : Sound transposeTranspose := by
  intro env e e' hw h
  unfold transposeTranspose at h
  split at h
  · rename_i a p q
    injection h with h; subst h
    simp only [WF, wf, Bool.and_eq_true] at hw
    obtain ⟨⟨ha, hp⟩, hq⟩ := hw
    have hp' := isPerm_ok hp
    have hq' : PermOK q (shape a).length := by
      have := isPerm_ok hq
      simp only [shape, List.length_map, hp'.len] at this
      exact this
    refine ⟨?_, ?_, ?_⟩
    · simp only [WF, wf, Bool.and_eq_true]
      exact ⟨ha, isPerm_of_ok (composeAsCode_ok hp' hq')⟩
    · simp only [shape]
      exact (shape_compose hp' hq' (shape a)).symm
    · intro i _
      simp only [denGet]
      rw [unperm_compose hp' hq']
  · simp at h

theorem transposeIdentity_sound : Sound transposeIdentity := by
  intro env e e' hw h
  unfold transposeIdentity at h
  split at h
  · rename_i a p
    split at h
    · rename_i hp
      injection h with h; subst h
      simp only [WF, wf, Bool.and_eq_true] at hw
      subst hp
      refine ⟨hw.1, ?_, ?_⟩
      · simp only [shape]
        exact (shape_permute_range (shape a)).symm
      · intro i hi
        simp only [denGet]
        simp only [shape] at hi
        rw [shape_permute_range] at hi
        rw [unperm_range _ i hi.length_eq]
    · simp at h
  · simp at h

theorem elemwiseSplit_unary (p : List Nat) (k : Nat) :
    elemwiseSplit p [.arr k] none none = if k = p.length then some ⟨[some p], none, none⟩ else none := by
  unfold elemwiseSplit
  by_cases h : k = p.length <;> simp [argsSameRank, rankDiffers, h]

theorem elemwiseSplit_binary (p : List Nat) (k m : Nat) :
    elemwiseSplit p [.arr k, .arr m] none none =
      if k = p.length ∧ m = p.length then some ⟨[some p, some p], none, none⟩ else none := by
  unfold elemwiseSplit
  by_cases h : k = p.length <;> by_cases h2 : m = p.length <;> simp [argsSameRank, rankDiffers, h, h2]

theorem transposeThroughMap_sound : Sound transposeThroughMap := by
  intro env e e' hw h
  unfold transposeThroughMap at h
  split at h
  · rename_i f a p
    rw [elemwiseSplit_unary] at h
    split at h
    · simp only [Option.map_some] at h
      injection h with h; subst h
      simp only [WF, wf, shape, Bool.and_eq_true] at hw
      exact ⟨by simp only [WF, wf, Bool.and_eq_true]; exact hw, rfl, fun _ _ => rfl⟩
    · simp at h
  · simp at h

theorem transposeThroughZip_sound : Sound transposeThroughZip := by
  intro env e e' hw h
  unfold transposeThroughZip at h
  split at h
  · rename_i f a b p
    rw [elemwiseSplit_binary] at h
    split at h
    · simp only [Option.map_some] at h
      injection h with h; subst h
      simp only [WF, wf, shape, Bool.and_eq_true, decide_eq_true_eq] at hw
      obtain ⟨⟨⟨⟨ha, hb⟩, hs⟩, hc⟩, hp⟩ := hw
      refine ⟨?_, rfl, fun _ _ => rfl⟩
      have h1 : wf (.transpose a p) = true := by simp only [wf, Bool.and_eq_true]; exact ⟨ha, hp⟩
      have h2 : wf (.transpose b p) = true := by simp only [wf, Bool.and_eq_true]; exact ⟨hb, hs ▸ hp⟩
      have h3 : shape (.transpose a p) = shape (.transpose b p) := by simp only [shape]; rw [hs]
      have h4 : chunks (.transpose a p) = chunks (.transpose b p) := by simp only [chunks]; rw [hc]
      show (wf (.transpose a p) && wf (.transpose b p) && decide (shape (.transpose a p) = shape (.transpose b p))
        && decide (chunks (.transpose a p) = chunks (.transpose b p))) = true
      rw [h1, h2, decide_eq_true h3, decide_eq_true h4]; rfl
    · simp at h
  · simp at h

/-- under `WF` the elemwise rules never decline on `Expr` (operands of `map` / `zip` have the rank of the result) -/
theorem transposeThroughZip_fires (f : Nat) (a b : Expr) (p : List Nat) (hw : WF (.transpose (.zip f a b) p)) :
    transposeThroughZip (.transpose (.zip f a b) p) = some (.zip f (.transpose a p) (.transpose b p)) := by
  simp only [WF, wf, shape, Bool.and_eq_true, decide_eq_true_eq] at hw
  obtain ⟨⟨⟨⟨_, _⟩, hs⟩, _⟩, hp⟩ := hw
  have hp' := isPerm_ok hp
  simp only [transposeThroughZip]
  rw [elemwiseSplit_binary, if_pos ⟨hp'.len.symm, by rw [← hs]; exact hp'.len.symm⟩]
  rfl

/-! ### the elemwise split: which operand gets which axes, when it declines -/

theorem argsSameRank_iff (n : Nat) : ∀ (args : List Opnd),
    argsSameRank n args = true ↔ ∀ k, Opnd.arr k ∈ args → k = n
  | [] => by simp [argsSameRank]
  | .scalar :: r => by
    simp only [argsSameRank]
    rw [argsSameRank_iff n r]
    simp
  | .arr m :: r => by
    simp only [argsSameRank]
    by_cases h : m = n
    · rw [if_neg (by simpa using h), argsSameRank_iff n r]
      constructor
      · intro hr k hk
        rcases List.mem_cons.mp hk with hk | hk
        · injection hk with hk; rw [hk]; exact h
        · exact hr k hk
      · intro hr k hk
        exact hr k (List.mem_cons_of_mem _ hk)
    · rw [if_pos h]
      constructor
      · intro hf; exact absurd hf (by simp)
      · intro hr; exact absurd (hr m List.mem_cons_self) h

/-- the rule fires exactly when every array argument, `where=` and `out=` have the rank of the output -/
theorem elemwiseSplit_isSome_iff (axes : List Nat) (args : List Opnd) (whr out : Option Nat) :
    (elemwiseSplit axes args whr out).isSome = true ↔
      (∀ k, Opnd.arr k ∈ args → k = axes.length) ∧ (∀ k, whr = some k → k = axes.length) ∧
        (∀ k, out = some k → k = axes.length) := by
  unfold elemwiseSplit
  simp only []
  rw [← argsSameRank_iff]
  cases hA : argsSameRank axes.length args
  · simp
  · cases whr with
    | none =>
      cases out with
      | none => simp [rankDiffers]
      | some m => by_cases hm : m = axes.length <;> simp [rankDiffers, hm]
    | some k =>
      by_cases hk : k = axes.length
      · cases out with
        | none => simp [rankDiffers, hk]
        | some m => by_cases hm : m = axes.length <;> simp [rankDiffers, hm, hk]
      · simp [rankDiffers, hk]

/-- when it fires every array argument (and `where=` / `out=`) gets the WHOLE permutation, scalars are untouched -/
theorem elemwiseSplit_some (axes : List Nat) (args : List Opnd) (whr out : Option Nat) (s : Split)
    (h : elemwiseSplit axes args whr out = some s) :
    s.args = args.map (fun a => match a with | .scalar => none | .arr _ => some axes) ∧
      s.whr = whr.map (fun _ => axes) ∧ s.out = out.map (fun _ => axes) := by
  unfold elemwiseSplit at h
  simp only [] at h
  split at h
  · simp at h
  · split at h
    · simp at h
    · split at h
      · simp at h
      · injection h with h; subst h; exact ⟨rfl, rfl, rfl⟩

/-- soundness at the array level for ANY number of same-shape operands (a `where=` mask and an `out=` array are
operands of `f`): transposing the pointwise result = the pointwise result of the transposed operands -/
theorem pointwise_transpose (f : List Int → Int) (ops : List (Arr Int)) (p : List Nat) (hne : ops ≠ []) :
    Arr.Equiv (transposeArr (pointwiseArr f ops) p) (pointwiseArr f (ops.map (fun a => transposeArr a p))) := by
  cases ops with
  | nil => exact absurd rfl hne
  | cons a r =>
    refine ⟨rfl, ?_⟩
    intro i _
    simp only [transposeArr, pointwiseArr, List.map_map, List.map_cons]
    rfl

/-! ### the transpose layer -/

theorem transposeArr_congr {a b : Arr Int} {p : List Nat} (h : Arr.Equiv a b) (hp : PermOK p a.shape.length) :
    Arr.Equiv (transposeArr a p) (transposeArr b p) := by
  refine ⟨by simp only [transposeArr]; rw [h.1], ?_⟩
  intro i hi
  simp only [transposeArr] at hi ⊢
  exact h.2 _ (unperm_inB hp hi)

/-- the source-only environment used to instantiate the phase-1 refinement theorem -/
def srcEnv (a : Arr Int) : Env := { src := fun _ => a, un := fun _ x => x, bin := fun _ x _ => x }

theorem srcEnv_ok (a : Arr Int) : EnvOK (srcEnv a) := fun _ _ _ h => ⟨h, rfl⟩

/-- one output block of the layer: the block at the block-key `_input_block_id`, transposed, is the block of
the transposed array on the extent advertised by the permuted chunks -/
theorem transposeBlock_correct {p : List Nat} {n : Nat} (hp : PermOK p n) (a : Arr Int) (cl : Layout)
    (hl : wfLayout a.shape cl = true) (hn : a.shape.length = n) (blocks : List Nat → Arr Int)
    (hB : ∀ b, validBid cl b → Arr.Equiv (blocks b) (restrict a (extent cl b)))
    (bid : List Nat) (hb : validBid (transposeChunks p cl) bid) :
    Arr.Equiv (transposeBlock p blocks bid) (restrict (transposeArr a p) (extent (transposeChunks p cl) bid)) := by
  have hcl : cl.length = n := by
    rw [← hn, ← (wfLayout_iff.mp hl).1]; simp
  have hbl : bid.length = n := by
    rw [hb.length_eq]; simp [transposeChunks, permute, hp.len]
  have hB' := validBid_unperm hp cl hcl bid hb
  have hwf : WF (.transpose (.src 0 a.shape cl) p) := by
    simp only [WF, wf, shape, Bool.and_eq_true]
    exact ⟨hl, isPerm_of_ok (hn ▸ hp)⟩
  have hsrc : BlockOK (srcEnv a) (.src 0 a.shape cl) := fun _ _ => Arr.Equiv.refl _
  have hT := transpose_ok (srcEnv a) (.src 0 a.shape cl) p hwf hsrc bid hb
  unfold transposeBlock
  rw [inputBlockId_eq hp bid hbl]
  have hbs : (blocks (unperm p bid)).shape.length = n := by
    rw [(hB _ hB').1]
    simp only [restrict, extent]
    rw [blockShape_length (by rw [unperm_length, hp.len, hcl]), hcl]
  exact (transposeArr_congr (hB _ hB') (hbs ▸ hp)).trans hT

/-- the whole layer assembles to the transposed array, for every chunking -/
theorem transposeLayer_assemble {p : List Nat} {n : Nat} (hp : PermOK p n) (a : Arr Int) (cl : Layout)
    (hl : wfLayout a.shape cl = true) (hn : a.shape.length = n) (blocks : List Nat → Arr Int)
    (hB : ∀ b, validBid cl b → Arr.Equiv (blocks b) (restrict a (extent cl b))) :
    Arr.Equiv (assemble (transposeChunks p cl) (transposeBlock p blocks)) (transposeArr a p) := by
  apply assemble_of_blocks
  · have hs := (wfLayout_iff.mp hl).1
    simp only [transposeChunks, permute, transposeArr, List.map_map]
    apply List.map_congr_left
    intro k _
    simp only [Function.comp]
    rw [← hs]
    by_cases hk : k < cl.length
    · rw [getD_eq_getElem cl k [] hk, getD_map _ cl k [] 0 hk, getD_eq_getElem cl k [] hk]
    · rw [getD_of_ge cl k [] (by omega), getD_of_ge _ k 0 (by simp; omega)]; rfl
  · exact transposeBlock_correct hp a cl hl hn blocks hB

end Dask.Perm
