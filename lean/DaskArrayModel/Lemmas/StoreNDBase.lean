/-
Base lemmas for the n-d store model (Model/StoreND.lean): order-free application of pairwise
disjoint writes, `findPos` in a piece of a duplicate-free position list, `locate` of a block's
selection in terms of the region's selection.  Core Lean only.
-/
import DaskArrayModel.Model.StoreND
import DaskArrayModel.Lemmas.SourceIO
namespace Dask.Lemmas.StoreND
open Dask.Py Dask.Py.PySlice Dask.Slicing Dask.SourceIO Dask.StoreND Dask.Lemmas.SourceIO

/-! ### writes -/

def Disjoint {α : Type} (a b : Write α) : Prop := ∀ q, a q = none ∨ b q = none

theorem disjoint_symm {α : Type} {a b : Write α} (h : Disjoint a b) : Disjoint b a :=
  fun q => (h q).symm

theorem applyAll_cons {α : Type} (t : α → Int) (w : Write α) (ws : List (Write α)) :
    applyAll t (w :: ws) = applyAll (applyWrite t w) ws := rfl

theorem applyAll_none {α : Type} (t : α → Int) (ws : List (Write α)) (q : α)
    (h : ∀ w ∈ ws, w q = none) : applyAll t ws q = t q := by
  induction ws generalizing t with
  | nil => rfl
  | cons w ws ih =>
    rw [applyAll_cons, ih _ (fun w' hw' => h w' (List.mem_cons_of_mem _ hw'))]
    simp [applyWrite, h w (List.mem_cons_self ..)]

theorem applyAll_some {α : Type} (t : α → Int) (ws : List (Write α)) (q : α) (v : Int)
    (hd : ws.Pairwise Disjoint) (w : Write α) (hw : w ∈ ws) (hv : w q = some v) :
    applyAll t ws q = v := by
  induction ws generalizing t with
  | nil => simp at hw
  | cons a rest ih =>
    rw [List.pairwise_cons] at hd
    rw [applyAll_cons]
    rcases List.mem_cons.mp hw with rfl | hw'
    · rw [applyAll_none]
      · simp [applyWrite, hv]
      · intro w' hw'
        rcases hd.1 w' hw' q with h | h
        · rw [hv] at h; cases h
        · exact h
    · exact ih _ hd.2 hw'

theorem mapE_eq_map {α β} (f : α → Except Err β) (g : α → β) (l : List α)
    (h : ∀ x ∈ l, f x = .ok (g x)) : mapE f l = .ok (l.map g) := by
  induction l with
  | nil => rfl
  | cons x xs ih =>
    simp only [mapE, h x (List.mem_cons_self ..), ih (fun y hy => h y (List.mem_cons_of_mem _ hy)),
      List.map_cons]

/-! ### `findPos` -/

theorem findPos_some_iff (q : Int) (l : List Int) (j : Nat) :
    findPos q l = some j ↔ l[j]? = some q ∧ ∀ i < j, l[i]? ≠ some q := by
  induction l generalizing j with
  | nil => simp [findPos]
  | cons x xs ih =>
    unfold findPos
    by_cases hq : q = x
    · subst hq
      simp only [if_true]
      constructor
      · intro h; injection h with h; subst h; simp
      · rintro ⟨h1, h2⟩
        cases j with
        | zero => rfl
        | succ j => exact absurd (by simp) (h2 0 (by omega))
    · simp only [hq, if_false]
      cases j with
      | zero =>
        simp only [List.getElem?_cons_zero, Option.some.injEq]
        constructor
        · intro h
          cases hf : findPos q xs <;> simp [hf] at h
        · rintro ⟨h, _⟩; exact absurd h.symm hq
      | succ j =>
        have := ih j
        simp only [List.getElem?_cons_succ]
        constructor
        · intro h
          cases hf : findPos q xs with
          | none => simp [hf] at h
          | some k =>
            simp only [hf, Option.map_some, Option.some.injEq] at h
            have hk : k = j := by omega
            subst hk
            obtain ⟨h1, h2⟩ := this.mp hf
            refine ⟨h1, ?_⟩
            intro i hi
            cases i with
            | zero => simp only [List.getElem?_cons_zero, ne_eq, Option.some.injEq]; exact fun e => hq e.symm
            | succ i => simp only [List.getElem?_cons_succ]; exact h2 i (by omega)
        · rintro ⟨h1, h2⟩
          have : findPos q xs = some j := this.mpr ⟨h1, fun i hi => by
            have := h2 (i + 1) (by omega); simpa using this⟩
          simp [this]

theorem findPos_nodup (q : Int) (l : List Int) (hl : l.Nodup) (j : Nat) :
    findPos q l = some j ↔ l[j]? = some q := by
  rw [findPos_some_iff]
  constructor
  · exact fun h => h.1
  · intro h
    refine ⟨h, ?_⟩
    intro i hi hiq
    have hj : j < l.length := by
      rcases Nat.lt_or_ge j l.length with h' | h'
      · exact h'
      · rw [List.getElem?_eq_none h'] at h; cases h
    have hi' : i < l.length := by omega
    rw [List.getElem?_eq_getElem hj] at h
    rw [List.getElem?_eq_getElem hi'] at hiq
    injection h with h
    injection hiq with hiq
    have := (List.pairwise_iff_getElem.mp hl) i j hi' hj hi
    exact this (by rw [hiq, h])

theorem findPos_none_iff (q : Int) (l : List Int) : findPos q l = none ↔ q ∉ l := by
  induction l with
  | nil => simp [findPos]
  | cons x xs ih =>
    unfold findPos
    by_cases hq : q = x
    · simp [hq]
    · simp only [hq, if_false, Option.map_eq_none_iff, ih, List.mem_cons, false_or]

/-- `findPos` in the piece `[p.1, p.2)` of a duplicate-free list -/
theorem findPos_piece (q : Int) (L : List Int) (hL : L.Nodup) (p : Int × Int)
    (h0 : 0 ≤ p.1) (h1 : p.1 ≤ p.2) (h2 : p.2 ≤ (L.length : Int)) :
    findPos q (piece L p) =
      match findPos q L with
      | none => none
      | some g => if p.1 ≤ (g : Int) ∧ (g : Int) < p.2 then some (g - p.1.toNat) else none := by
  have hlen := length_piece L p h0 h1 h2
  have hget : ∀ j : Nat, (j : Int) < p.2 - p.1 → (piece L p)[j]? = L[(p.1 + j).toNat]? :=
    fun j hj => piece_getElem? L p h0 h2 j hj
  cases hg : findPos q L with
  | none =>
    simp only
    rw [findPos_none_iff] at hg ⊢
    intro hm
    obtain ⟨j, hj, hjq⟩ := List.getElem_of_mem hm
    have := hget j (by omega)
    rw [List.getElem?_eq_getElem hj, hjq] at this
    exact hg (List.mem_of_getElem? this.symm)
  | some g =>
    have hgq := (findPos_nodup q L hL g).mp hg
    simp only
    split
    · rename_i hin
      have hj : ((g - p.1.toNat : Nat) : Int) < p.2 - p.1 := by omega
      rw [findPos_some_iff]
      have e : (p.1 + ((g - p.1.toNat : Nat) : Int)).toNat = g := by omega
      refine ⟨by rw [hget _ hj, e]; exact hgq, ?_⟩
      intro i hi hiq
      rw [hget i (by omega)] at hiq
      have := (findPos_nodup q L hL _).mpr hiq
      rw [hg] at this
      injection this with this
      omega
    · rename_i hout
      cases hf : findPos q (piece L p) with
      | none => rfl
      | some j =>
        exfalso
        have hjq := ((findPos_some_iff q _ j).mp hf).1
        have hjl : j < (piece L p).length := by
          rcases Nat.lt_or_ge j (piece L p).length with h' | h'
          · exact h'
          · rw [List.getElem?_eq_none h'] at hjq; cases hjq
        rw [hget j (by omega)] at hjq
        have := (findPos_nodup q L hL _).mpr hjq
        rw [hg] at this
        injection this with this
        omega

/-! ### a block's selection inside the region's selection -/

/-- the region's selection with every sliced axis cut down to the block's piece -/
def blockSel : List AxSel → List (Int × Int) → List AxSel
  | [], _ => []
  | AxSel.pt i :: as, ps => AxSel.pt i :: blockSel as ps
  | AxSel.many L :: as, p :: ps => AxSel.many (piece L p) :: blockSel as ps
  | AxSel.many L :: as, [] => AxSel.many L :: blockSel as []

/-- `g` (multi-index inside the region's selection) lies in the block with index `idx` -/
def inBlock : List (Int × Int) → List Int → Bool
  | [], [] => true
  | p :: ps, g :: gs => decide (p.1 ≤ g ∧ g < p.2) && inBlock ps gs
  | _, _ => false

def subPos : List Int → List Int → List Int
  | a :: as, b :: bs => (a - b) :: subPos as bs
  | _, _ => []

/-- the sliced axes of `G` are duplicate-free and long enough for the block index `idx`
(one pair per sliced axis) -/
def Fits : List AxSel → List (Int × Int) → Prop
  | [], [] => True
  | AxSel.pt _ :: as, ps => Fits as ps
  | AxSel.many L :: as, p :: ps => L.Nodup ∧ 0 ≤ p.1 ∧ p.1 ≤ p.2 ∧ p.2 ≤ (L.length : Int) ∧ Fits as ps
  | _, _ => False

theorem locate_blockSel (G : List AxSel) (idx : List (Int × Int)) (q : Pos) (h : Fits G idx) :
    locate (blockSel G idx) q =
      match locate G q with
      | none => none
      | some g => if inBlock idx g then some (subPos g (idx.map (·.1))) else none := by
  induction G generalizing idx q with
  | nil =>
    cases idx with
    | nil => cases q <;> simp [blockSel, locate, inBlock, subPos]
    | cons p ps => simp [Fits] at h
  | cons a as ih =>
    cases a with
    | pt i =>
      cases q with
      | nil => simp [blockSel, locate]
      | cons q0 qs =>
        simp only [blockSel, locate]
        by_cases hq : q0 = i
        · simp only [hq, if_true]; exact ih idx qs h
        · simp [hq]
    | many L =>
      cases idx with
      | nil => simp [Fits] at h
      | cons p ps =>
        obtain ⟨hL, h0, h1, h2, hrest⟩ := h
        cases q with
        | nil => simp [blockSel, locate]
        | cons q0 qs =>
          simp only [blockSel, locate]
          rw [findPos_piece q0 L hL p h0 h1 h2, ih ps qs hrest]
          cases hg : findPos q0 L with
          | none => simp
          | some g =>
            cases hr : locate as qs with
            | none =>
              simp only
              split <;> simp_all
            | some gs =>
              simp only [inBlock, subPos, List.map_cons]
              by_cases hin : p.1 ≤ (g : Int) ∧ (g : Int) < p.2
              · simp only [hin, and_self, if_true, decide_true, Bool.true_and]
                by_cases hb : inBlock ps gs = true
                · simp only [hb, if_true]
                  congr 2
                  omega
                · simp [hb]
              · simp [hin]

end Dask.Lemmas.StoreND
