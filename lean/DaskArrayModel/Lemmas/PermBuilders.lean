/-
The builders of permutations (`swapaxes`, `moveaxis`, `rollaxis`, `.T`): for in-range arguments (negative ones
included) they return a valid permutation with NumPy's meaning, stated as the index map.  Core Lean only.
-/
import DaskArrayModel.Lemmas.Perm
namespace Dask.Perm
open Dask.Py Dask.Slicing Dask.ND

/-- NumPy's axis normalisation: `a + n` for a negative axis -/
def normI (n : Nat) (a : Int) : Nat := (if a < 0 then a + n else a).toNat

/-- the axis is accepted by NumPy -/
def AxisOK (n : Nat) (a : Int) : Prop := -(n : Int) ≤ a ∧ a < n

instance (n : Nat) (a : Int) : Decidable (AxisOK n a) := by unfold AxisOK; infer_instance

theorem normI_lt {n : Nat} {a : Int} (h : AxisOK n a) : normI n a < n := by
  unfold normI AxisOK at *; split <;> omega

/-! ### `range n` without one element -/

theorem range_split {n a : Nat} (ha : a < n) :
    List.range n = List.range a ++ a :: List.range' (a + 1) (n - a - 1) := by
  rw [List.range_eq_range', List.range_eq_range']
  have h2 : List.range' 0 n = List.range' 0 a ++ List.range' (0 + 1 * a) (n - a) := by
    rw [List.range'_append]; congr 1; omega
  rw [h2]
  congr 1
  have h3 : n - a = (n - a - 1) + 1 := by omega
  rw [h3, List.range'_succ]
  simp

theorem range_filter_ne {n a : Nat} (ha : a < n) :
    (List.range n).filter (fun k => k != a) = List.range a ++ List.range' (a + 1) (n - a - 1) := by
  rw [range_split ha, List.filter_append, List.filter_cons]
  have h1 : (List.range a).filter (fun k => k != a) = List.range a := by
    rw [List.filter_eq_self]
    intro x hx
    have := List.mem_range.mp hx
    simp; omega
  have h2 : (List.range' (a + 1) (n - a - 1)).filter (fun k => k != a) = List.range' (a + 1) (n - a - 1) := by
    rw [List.filter_eq_self]
    intro x hx
    have := List.mem_range'_1.mp hx
    simp; omega
  rw [h1, h2]
  simp

theorem range_eraseIdx {n a : Nat} (ha : a < n) :
    (List.range n).eraseIdx a = (List.range n).filter (fun k => k != a) := by
  rw [range_filter_ne ha]
  rw [range_split ha]
  rw [List.eraseIdx_append_of_length_le (by simp)]
  simp

theorem range_filter_length {n a : Nat} (ha : a < n) :
    ((List.range n).filter (fun k => k != a)).length = n - 1 := by
  rw [range_filter_ne ha]; simp; omega

/-! ### swapaxes -/

theorem pyIdx_nonneg {n : Nat} {b : Int} (h0 : 0 ≤ b) (h1 : b < n) : pyIdx n b = some b.toNat := by
  unfold pyIdx; rw [if_pos ⟨h0, h1⟩]

theorem isSwapaxes_swapPerm (n i j : Nat) : IsSwapaxes n i j (swapPerm n i j) := by
  refine ⟨by simp [swapPerm], ?_⟩
  intro k hk
  rw [swapPerm_getD _ _ _ _ hk]; rfl

theorem swapPerm_self (n i : Nat) : swapPerm n i i = List.range n := by
  unfold swapPerm
  conv => rhs; rw [← List.map_id (List.range n)]
  apply List.map_congr_left
  intro k _
  simp only [id]
  split <;> (try split) <;> omega

theorem swapaxes_correct (n : Nat) (a1 a2 : Int) (h1 : AxisOK n a1) (h2 : AxisOK n a2) :
    swapaxesPerm n a1 a2 = .ok (swapPerm n (normI n a1) (normI n a2)) ∧
      PermOK (swapPerm n (normI n a1) (normI n a2)) n ∧
      IsSwapaxes n (normI n a1) (normI n a2) (swapPerm n (normI n a1) (normI n a2)) := by
  refine ⟨?_, swapPerm_ok n _ _ (normI_lt h1) (normI_lt h2), isSwapaxes_swapPerm _ _ _⟩
  unfold swapaxesPerm
  by_cases he : a1 = a2
  · subst he
    rw [if_pos rfl, swapPerm_self]
  · rw [if_neg he]
    have hb1 : 0 ≤ (if a1 < 0 then a1 + n else a1) ∧ (if a1 < 0 then a1 + n else a1) < n := by
      unfold AxisOK at h1; split <;> omega
    have hb2 : 0 ≤ (if a2 < 0 then a2 + n else a2) ∧ (if a2 < 0 then a2 + n else a2) < n := by
      unfold AxisOK at h2; split <;> omega
    simp only []
    rw [pyIdx_nonneg hb1.1 hb1.2, pyIdx_nonneg hb2.1 hb2.2]
    rfl

/-! ### moveaxis (one axis) and rollaxis -/

theorem moveaxisPerm_ok (n s d : Nat) (hs : s < n) (hd : d < n) : PermOK (moveaxisPerm n s d) n :=
  isPerm_ok (isPerm_of_perm (moveaxisPerm_perm n s d hs hd))

theorem isMoveaxis_moveaxisPerm (n s d : Nat) (hs : s < n) (hd : d < n) : IsMoveaxis n s d (moveaxisPerm n s d) := by
  have hlen := range_filter_length hs
  unfold IsMoveaxis moveaxisPerm
  refine ⟨?_, List.eraseIdx_insertIdx_self _⟩
  have hl : d < (((List.range n).filter (fun k => k != s)).insertIdx d s).length := by
    rw [List.length_insertIdx, if_pos (by rw [hlen]; omega), hlen]; omega
  rw [getD_eq_getElem _ _ _ hl]
  exact List.getElem_insertIdx_self hl

theorem isMoveaxis_range (n a : Nat) (ha : a < n) : IsMoveaxis n a a (List.range n) :=
  ⟨getD_range _ _ ha, range_eraseIdx ha⟩

theorem normAxis_ok {n : Nat} {a : Int} (h : AxisOK n a) : normAxis n a = .ok (normI n a) := by
  unfold normAxis normI; exact if_pos h

theorem pyInsert_eq (l : List Nat) (pos x : Nat) (h : pos ≤ l.length) : pyInsert l pos x = l.insertIdx pos x := by
  unfold pyInsert; rw [Nat.min_eq_left h]

theorem moveaxis1_correct (n : Nat) (s d : Int) (hs : AxisOK n s) (hd : AxisOK n d) :
    moveaxisPermN n [s] [d] = .ok (moveaxisPerm n (normI n s) (normI n d)) ∧
      PermOK (moveaxisPerm n (normI n s) (normI n d)) n ∧
      IsMoveaxis n (normI n s) (normI n d) (moveaxisPerm n (normI n s) (normI n d)) := by
  have hs' := normI_lt hs
  have hd' := normI_lt hd
  refine ⟨?_, moveaxisPerm_ok n _ _ hs' hd', isMoveaxis_moveaxisPerm n _ _ hs' hd'⟩
  have ht : ∀ a, AxisOK n a → normAxisTuple n [a] = .ok [normI n a] := by
    intro a ha
    simp [normAxisTuple, normAxes, normAxis_ok ha]
  unfold moveaxisPermN
  rw [ht s hs, ht d hd]
  simp only [List.length_cons, List.length_nil, ne_eq, not_true_eq_false, if_false, List.zip_cons_cons,
    List.zip_nil_right, sortPairs, insertPair, List.foldl_cons, List.foldl_nil]
  have hf : (List.range n).filter (fun k => ![normI n s].contains k) = (List.range n).filter (fun k => k != normI n s) := by
    apply List.filter_congr
    intro x _
    by_cases hx : x = normI n s <;> simp [hx]
  rw [hf, pyInsert_eq _ _ _ (by rw [range_filter_length hs']; omega)]
  rfl

/-- the start position after `if start < 0: start += n` and `if axis < start: start -= 1` -/
def rollDest (n : Nat) (axis start : Int) : Nat :=
  let st := if start < 0 then start + n else start
  (if (normI n axis : Int) < st then st - 1 else st).toNat

/-- `start` is accepted by NumPy: `-n ≤ start ≤ n` -/
def StartOK (n : Nat) (start : Int) : Prop := -(n : Int) ≤ start ∧ start ≤ n

instance (n : Nat) (a : Int) : Decidable (StartOK n a) := by unfold StartOK; infer_instance

theorem rollDest_lt {n : Nat} {axis start : Int} (ha : AxisOK n axis) (hs : StartOK n start) :
    rollDest n axis start < n := by
  have := normI_lt ha
  unfold rollDest StartOK at *
  simp only []
  split <;> split <;> omega

theorem rollaxis_correct (n : Nat) (axis start : Int) (ha : AxisOK n axis) (hs : StartOK n start) :
    ∃ p, rollaxisPerm n axis start = .ok p ∧ PermOK p n ∧ IsMoveaxis n (normI n axis) (rollDest n axis start) p := by
  have ha' := normI_lt ha
  have hd' := rollDest_lt ha hs
  unfold rollaxisPerm
  rw [normAxis_ok ha]
  simp only []
  have hst : (0 : Int) ≤ (if start < 0 then start + n else start) ∧ (if start < 0 then start + n else start) < (n : Int) + 1 := by
    unfold StartOK at hs; split <;> omega
  rw [if_neg (by simpa using hst)]
  by_cases he : ((normI n axis : Nat) : Int) =
      (if (normI n axis : Int) < (if start < 0 then start + n else start) then (if start < 0 then start + n else start) - 1
        else (if start < 0 then start + n else start))
  · rw [if_pos he]
    refine ⟨_, rfl, range_ok n, ?_⟩
    have : rollDest n axis start = normI n axis := by
      unfold rollDest; simp only []; rw [← he]; simp
    rw [this]
    exact isMoveaxis_range n _ ha'
  · rw [if_neg he]
    refine ⟨_, rfl, ?_⟩
    have hE : pyInsert ((List.range n).erase (normI n axis))
        (if (normI n axis : Int) < (if start < 0 then start + n else start) then (if start < 0 then start + n else start) - 1
          else (if start < 0 then start + n else start)).toNat (normI n axis)
        = moveaxisPerm n (normI n axis) (rollDest n axis start) := by
      rw [List.Nodup.erase_eq_filter List.nodup_range, pyInsert_eq _ _ _ (by
        rw [range_filter_length ha']
        have := hd'
        unfold rollDest at this
        simp only [] at this
        omega)]
      rfl
    rw [hE]
    exact ⟨moveaxisPerm_ok n _ _ ha' hd', isMoveaxis_moveaxisPerm n _ _ ha' hd'⟩

/-! ### `.T` -/

theorem reversePerm_getD {n k : Nat} (hk : k < n) : (reversePerm n).getD k 0 = n - 1 - k := by
  unfold reversePerm
  rw [getD_eq_getElem _ _ _ (by simpa using hk), List.getElem_reverse]
  simp

theorem reversePerm_ok (n : Nat) : PermOK (reversePerm n) n := by
  apply permOK_of_inv (fun a => n - 1 - a) (by simp [reversePerm])
  · intro k hk; rw [reversePerm_getD hk]; omega
  · intro k hk; rw [reversePerm_getD hk]; show n - 1 - (n - 1 - k) = k; omega
  · intro a ha
    refine ⟨by show n - 1 - a < n; omega, ?_⟩
    show (reversePerm n).getD (n - 1 - a) 0 = a
    rw [reversePerm_getD (by omega)]; omega

end Dask.Perm
