/-
The blocks of an n-d chunking cover every in-range multi-index exactly once; the block index of
every block fits the region's selection; shape exactness of a block's selection.  Core Lean only.
-/
import DaskArrayModel.Lemmas.StoreNDBase
namespace Dask.Lemmas.StoreND
open Dask.Py Dask.Py.PySlice Dask.Slicing Dask.SourceIO Dask.StoreND Dask.Lemmas.SourceIO

/-! ### one axis -/

theorem blockStart_cons_succ' (x : Int) (xs : List Int) (k : Nat) :
    blockStart (x :: xs) (k + 1) = x + blockStart xs k := by
  simp [blockStart, isum]

theorem blockStart_zero' (xs : List Int) : blockStart xs 0 = 0 := by simp [blockStart, isum]

theorem blockStart_nonneg (c : List Int) (hc : ∀ x ∈ c, 0 ≤ x) (b : Nat) : 0 ≤ blockStart c b :=
  isum_nonneg _ (fun x hx => hc x (List.mem_of_mem_take hx))

theorem blockEnd_le (c : List Int) (hc : ∀ x ∈ c, 0 ≤ x) (b : Nat) (hb : b < c.length) :
    blockStart c b + c.getD b 0 ≤ isum c := by
  induction c generalizing b with
  | nil => simp at hb
  | cons x xs ih =>
    have hxs : ∀ y ∈ xs, 0 ≤ y := fun y hy => hc y (List.mem_cons_of_mem _ hy)
    cases b with
    | zero =>
      have := isum_nonneg xs hxs
      simp [blockStart_zero', isum]; omega
    | succ b =>
      have := ih hxs b (by simpa using hb)
      rw [blockStart_cons_succ']
      simp only [List.getD_cons_succ, isum]
      omega

theorem getD_nonneg (c : List Int) (hc : ∀ x ∈ c, 0 ≤ x) (b : Nat) : 0 ≤ c.getD b 0 := by
  rcases Nat.lt_or_ge b c.length with h | h
  · simp only [List.getD, List.getElem?_eq_getElem h, Option.getD_some]; exact hc _ (List.getElem_mem h)
  · simp [List.getD, List.getElem?_eq_none h]

theorem axis_cover (c : List Int) (hc : ∀ x ∈ c, 0 ≤ x) (g : Int) (h0 : 0 ≤ g) (h1 : g < isum c) :
    ∃ b, b < c.length ∧ blockStart c b ≤ g ∧ g < blockStart c b + c.getD b 0 := by
  induction c generalizing g with
  | nil => simp [isum] at h1; omega
  | cons x xs ih =>
    by_cases hg : g < x
    · exact ⟨0, by simp, by simp [blockStart_zero']; exact h0, by simp [blockStart_zero']; exact hg⟩
    · have hxs : ∀ y ∈ xs, 0 ≤ y := fun y hy => hc y (List.mem_cons_of_mem _ hy)
      obtain ⟨b, hb, h2, h3⟩ := ih hxs (g - x) (by omega) (by simp only [isum] at h1; omega)
      refine ⟨b + 1, by simpa using hb, ?_, ?_⟩
      · rw [blockStart_cons_succ']; omega
      · rw [blockStart_cons_succ']; simp only [List.getD_cons_succ]; omega

theorem axis_unique (c : List Int) (hc : ∀ x ∈ c, 0 ≤ x) (g : Int) (b b' : Nat)
    (h1 : blockStart c b ≤ g ∧ g < blockStart c b + c.getD b 0)
    (h2 : blockStart c b' ≤ g ∧ g < blockStart c b' + c.getD b' 0) : b = b' := by
  induction c generalizing g b b' with
  | nil =>
    simp [blockStart, isum] at h1
    omega
  | cons x xs ih =>
    have hxs : ∀ y ∈ xs, 0 ≤ y := fun y hy => hc y (List.mem_cons_of_mem _ hy)
    cases b with
    | zero =>
      cases b' with
      | zero => rfl
      | succ b' =>
        exfalso
        have := blockStart_nonneg xs hxs b'
        rw [blockStart_cons_succ'] at h2
        simp [blockStart_zero'] at h1
        omega
    | succ b =>
      cases b' with
      | zero =>
        exfalso
        have := blockStart_nonneg xs hxs b
        rw [blockStart_cons_succ'] at h1
        simp [blockStart_zero'] at h2
        omega
      | succ b' =>
        rw [blockStart_cons_succ'] at h1 h2
        simp only [List.getD_cons_succ] at h1 h2
        have := ih hxs (g - x) b b' (by omega) (by omega)
        omega

/-! ### all axes -/

theorem mem_blockIds_cons (c : List Int) (cs : List (List Int)) (bid : List Nat) :
    bid ∈ blockIds (c :: cs) ↔ ∃ i is, bid = i :: is ∧ i < c.length ∧ is ∈ blockIds cs := by
  simp only [blockIds, List.mem_flatMap, List.mem_range, List.mem_map]
  constructor
  · rintro ⟨i, hi, is, his, rfl⟩; exact ⟨i, is, rfl, hi, his⟩
  · rintro ⟨i, is, rfl, hi, his⟩; exact ⟨i, hi, is, his, rfl⟩

/-- `g` is a multi-index of an array with these chunks -/
def InRange : List (List Int) → List Int → Prop
  | [], [] => True
  | c :: cs, g :: gs => 0 ≤ g ∧ g < isum c ∧ InRange cs gs
  | _, _ => False

def ChunksOK (chunks : List (List Int)) : Prop := ∀ c ∈ chunks, ∀ x ∈ c, 0 ≤ x

theorem nd_cover (chunks : List (List Int)) (hc : ChunksOK chunks) (g : List Int) (hg : InRange chunks g) :
    ∃ bid ∈ blockIds chunks, inBlock (blockIndex chunks bid) g = true := by
  induction chunks generalizing g with
  | nil =>
    cases g with
    | nil => exact ⟨[], by simp [blockIds], by simp [blockIndex, inBlock]⟩
    | cons _ _ => simp [InRange] at hg
  | cons c cs ih =>
    cases g with
    | nil => simp [InRange] at hg
    | cons g0 gs =>
      obtain ⟨h0, h1, hr⟩ := hg
      obtain ⟨b, hb, h2, h3⟩ := axis_cover c (hc c (List.mem_cons_self ..)) g0 h0 h1
      obtain ⟨is, his, hin⟩ := ih (fun c' hc' => hc c' (List.mem_cons_of_mem _ hc')) gs hr
      refine ⟨b :: is, (mem_blockIds_cons ..).mpr ⟨b, is, rfl, hb, his⟩, ?_⟩
      simp only [blockIndex, inBlock, Bool.and_eq_true, decide_eq_true_eq]
      exact ⟨⟨h2, h3⟩, hin⟩

theorem nd_unique (chunks : List (List Int)) (hc : ChunksOK chunks) (g : List Int) (bid bid' : List Nat)
    (hb : bid ∈ blockIds chunks) (hb' : bid' ∈ blockIds chunks)
    (h1 : inBlock (blockIndex chunks bid) g = true) (h2 : inBlock (blockIndex chunks bid') g = true) :
    bid = bid' := by
  induction chunks generalizing g bid bid' with
  | nil => simp [blockIds] at hb hb'; rw [hb, hb']
  | cons c cs ih =>
    obtain ⟨i, is, rfl, hi, his⟩ := (mem_blockIds_cons ..).mp hb
    obtain ⟨i', is', rfl, hi', his'⟩ := (mem_blockIds_cons ..).mp hb'
    cases g with
    | nil => simp [blockIndex, inBlock] at h1
    | cons g0 gs =>
      simp only [blockIndex, inBlock, Bool.and_eq_true, decide_eq_true_eq] at h1 h2
      have e1 := axis_unique c (hc c (List.mem_cons_self ..)) g0 i i' h1.1 h2.1
      have e2 := ih (fun c' hc' => hc c' (List.mem_cons_of_mem _ hc')) gs is is' his his' h1.2 h2.2
      rw [e1, e2]

/-! ### every block fits the region's selection -/

/-- every sliced axis of the selection is duplicate-free -/
def NodupSel : List AxSel → Prop
  | [] => True
  | AxSel.pt _ :: as => NodupSel as
  | AxSel.many L :: as => L.Nodup ∧ NodupSel as

theorem fits_block (G : List AxSel) (chunks : List (List Int)) (hc : ChunksOK chunks)
    (hn : NodupSel G) (hs : selShape G = srcShape chunks) (bid : List Nat) (hb : bid ∈ blockIds chunks) :
    Fits G (blockIndex chunks bid) := by
  induction G generalizing chunks bid with
  | nil =>
    cases chunks with
    | nil => simp [blockIds] at hb; subst hb; simp [blockIndex, Fits]
    | cons c cs => simp [selShape, srcShape] at hs
  | cons a as ih =>
    cases a with
    | pt i => exact ih chunks hc hn hs bid hb
    | many L =>
      cases chunks with
      | nil => simp [selShape, srcShape] at hs
      | cons c cs =>
        obtain ⟨i, is, rfl, hi, his⟩ := (mem_blockIds_cons ..).mp hb
        simp only [selShape, srcShape, List.map_cons, List.cons.injEq] at hs
        have hc0 := hc c (List.mem_cons_self ..)
        refine ⟨hn.1, blockStart_nonneg c hc0 i, ?_, ?_, ?_⟩
        · have := getD_nonneg c hc0 i; simp only; omega
        · have := blockEnd_le c hc0 i hi; simp only; omega
        · exact ih cs (fun c' hc' => hc c' (List.mem_cons_of_mem _ hc')) hn.2 hs.2 is his

theorem locate_inRange (G : List AxSel) (chunks : List (List Int)) (hs : selShape G = srcShape chunks)
    (q : Pos) (g : List Int) (h : locate G q = some g) : InRange chunks g := by
  induction G generalizing chunks q g with
  | nil =>
    cases q with
    | nil =>
      simp [locate] at h; subst h
      cases chunks with
      | nil => trivial
      | cons _ _ => simp [selShape, srcShape] at hs
    | cons _ _ => simp [locate] at h
  | cons a as ih =>
    cases q with
    | nil => cases a <;> simp [locate] at h
    | cons q0 qs =>
      cases a with
      | pt i =>
        simp only [locate] at h
        split at h
        · exact ih chunks hs qs g h
        · cases h
      | many L =>
        cases chunks with
        | nil => simp [selShape, srcShape] at hs
        | cons c cs =>
          simp only [selShape, srcShape, List.map_cons, List.cons.injEq] at hs
          simp only [locate] at h
          cases hf : findPos q0 L with
          | none => simp [hf] at h
          | some j =>
            cases hr : locate as qs with
            | none => simp [hf, hr] at h
            | some js =>
              simp only [hf, hr, Option.some.injEq] at h
              subst h
              have hj := ((findPos_some_iff q0 L j).mp hf).1
              have hjl : j < L.length := by
                rcases Nat.lt_or_ge j L.length with h' | h'
                · exact h'
                · rw [List.getElem?_eq_none h'] at hj; cases hj
              exact ⟨by omega, by omega, ih cs hs.2 qs js hr⟩

/-! ### shapes and broadcast in the exact case -/

theorem selShape_blockSel (G : List AxSel) (idx : List (Int × Int)) (h : Fits G idx) :
    selShape (blockSel G idx) = idx.map (fun p => p.2 - p.1) := by
  induction G generalizing idx with
  | nil =>
    cases idx with
    | nil => rfl
    | cons _ _ => simp [Fits] at h
  | cons a as ih =>
    cases a with
    | pt i => exact ih idx h
    | many L =>
      cases idx with
      | nil => simp [Fits] at h
      | cons p ps =>
        obtain ⟨_, h0, h1, h2, hr⟩ := h
        simp only [blockSel, selShape, List.map_cons, ih ps hr, length_piece L p h0 h1 h2]

theorem okZip_self (xs : List Int) : okZip xs xs = true := by
  induction xs with
  | nil => rfl
  | cons x xs ih => simp [okZip, ih]

theorem bcastOk_self (xs : List Int) : bcastOk xs xs = true := by
  simp [bcastOk, okZip_self]

theorem inBlock_length (idx : List (Int × Int)) (g : List Int) (h : inBlock idx g = true) :
    idx.length = g.length := by
  induction idx generalizing g with
  | nil => cases g <;> simp [inBlock] at h ⊢
  | cons p ps ih =>
    cases g with
    | nil => simp [inBlock] at h
    | cons g0 gs =>
      simp only [inBlock, Bool.and_eq_true] at h
      simp [ih gs h.2]

theorem subPos_length (a b : List Int) (h : a.length = b.length) : (subPos a b).length = a.length := by
  induction a generalizing b with
  | nil => cases b <;> simp [subPos]
  | cons x xs ih =>
    cases b with
    | nil => simp at h
    | cons y ys => simp [subPos, ih ys (by simpa using h)]

theorem idxZip_inBlock (idx : List (Int × Int)) (g : List Int) (h : inBlock idx g = true) :
    idxZip (idx.map (fun p => p.2 - p.1)) (subPos g (idx.map (·.1))) = subPos g (idx.map (·.1)) := by
  induction idx generalizing g with
  | nil => cases g <;> simp [subPos, idxZip]
  | cons p ps ih =>
    cases g with
    | nil => simp [inBlock] at h
    | cons g0 gs =>
      simp only [inBlock, Bool.and_eq_true, decide_eq_true_eq] at h
      simp only [List.map_cons, subPos, idxZip, ih gs h.2, List.cons.injEq, and_true]
      split
      · omega
      · rfl

theorem addPos_subPos (idx : List (Int × Int)) (g : List Int) (h : inBlock idx g = true) :
    addPos (idx.map (·.1)) (subPos g (idx.map (·.1))) = g := by
  induction idx generalizing g with
  | nil => cases g <;> simp [inBlock] at h ⊢ <;> simp [addPos]
  | cons p ps ih =>
    cases g with
    | nil => simp [inBlock] at h
    | cons g0 gs =>
      simp only [inBlock, Bool.and_eq_true] at h
      simp only [List.map_cons, subPos, addPos, ih gs h.2, List.cons.injEq, and_true]
      omega

theorem bcastIdx_inBlock (idx : List (Int × Int)) (g : List Int) (h : inBlock idx g = true) :
    bcastIdx (idx.map (fun p => p.2 - p.1)) (subPos g (idx.map (·.1))) = subPos g (idx.map (·.1)) := by
  have hl := inBlock_length idx g h
  have hs : (subPos g (idx.map (·.1))).length = g.length := subPos_length _ _ (by simp [hl])
  unfold bcastIdx
  simp only [List.length_map, hs, hl, Nat.sub_self, List.replicate_zero, List.drop_zero, List.nil_append]
  exact idxZip_inBlock idx g h

theorem iprod_pos_of_inBlock (idx : List (Int × Int)) (g : List Int) (h : inBlock idx g = true) :
    0 < iprod (idx.map (fun p => p.2 - p.1)) := by
  induction idx generalizing g with
  | nil => simp [iprod]
  | cons p ps ih =>
    cases g with
    | nil => simp [inBlock] at h
    | cons g0 gs =>
      simp only [inBlock, Bool.and_eq_true, decide_eq_true_eq] at h
      simp only [List.map_cons, iprod]
      exact Int.mul_pos (by omega) (ih gs h.2)

end Dask.Lemmas.StoreND
