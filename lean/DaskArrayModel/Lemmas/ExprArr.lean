/-
Helper lemmas for L2 (`Model/Arr.lean`): `InB`, `Arr.Equiv`, per-axis block lookup,
`assemble (blocksOf a l) ≈ a`.
-/
import DaskArrayModel.Model.Arr
namespace Dask.ND

/-! ### small list facts -/

theorem getD_eq_getElem {α} (l : List α) (k : Nat) (d : α) (h : k < l.length) :
    l.getD k d = l[k] := by
  simp [List.getD_eq_getElem?_getD, h]

theorem getD_of_ge {α} (l : List α) (k : Nat) (d : α) (h : l.length ≤ k) : l.getD k d = d := by
  simp [List.getD_eq_getElem?_getD, h]

theorem getD_map {α β} (f : α → β) (l : List α) (k : Nat) (d : α) (d' : β) (h : k < l.length) :
    (l.map f).getD k d' = f (l.getD k d) := by
  simp [List.getD_eq_getElem?_getD, h]

theorem getD_zipWith {α β γ} (f : α → β → γ) (l : List α) (m : List β) (k : Nat) (da : α) (db : β)
    (dc : γ) (h1 : k < l.length) (h2 : k < m.length) :
    (List.zipWith f l m).getD k dc = f (l.getD k da) (m.getD k db) := by
  simp [List.getD_eq_getElem?_getD, List.getElem?_zipWith, h1, h2]

theorem getD_set_eq {α} (l : List α) (k : Nat) (a d : α) (h : k < l.length) :
    (l.set k a).getD k d = a := by
  simp [List.getD_eq_getElem?_getD, h]

theorem getD_set_ne {α} (l : List α) (k j : Nat) (a d : α) (h : k ≠ j) :
    (l.set k a).getD j d = l.getD j d := by
  simp [List.getD_eq_getElem?_getD, h]

theorem getD_range (n k : Nat) (h : k < n) : (List.range n).getD k 0 = k := by
  simp [List.getD_eq_getElem?_getD, h]

theorem list_ext_getD {l m : List Nat} (hl : l.length = m.length)
    (h : ∀ k, k < l.length → l.getD k 0 = m.getD k 0) : l = m := by
  apply List.ext_getElem hl
  intro i h1 h2
  have := h i h1
  rwa [getD_eq_getElem _ _ _ h1, getD_eq_getElem _ _ _ h2] at this

theorem sum_take_le (l : List Nat) (k : Nat) : (l.take k).sum ≤ l.sum := by
  induction l generalizing k with
  | nil => simp
  | cons x xs ih =>
    cases k with
    | zero => simp
    | succ k => simp only [List.take_succ_cons, List.sum_cons]; have := ih k; omega

theorem sum_take_succ (l : List Nat) (k : Nat) (h : k < l.length) :
    (l.take (k + 1)).sum = (l.take k).sum + l.getD k 0 := by
  induction l generalizing k with
  | nil => simp at h
  | cons x xs ih =>
    cases k with
    | zero => simp
    | succ k =>
      simp only [List.take_succ_cons, List.sum_cons, List.getD_cons_succ]
      rw [ih k (by simpa using h)]; omega

theorem sum_take_add_getD_le (l : List Nat) (k : Nat) (h : k < l.length) :
    (l.take k).sum + l.getD k 0 ≤ l.sum := by
  rw [← sum_take_succ l k h]; exact sum_take_le l (k + 1)

/-! ### `InB` -/

theorem InB.length_eq : ∀ {i s : List Nat}, InB i s → i.length = s.length
  | [], [], _ => rfl
  | _ :: is, _ :: ns, h => by simp [InB.length_eq (i := is) (s := ns) h.2]
  | [], _ :: _, h => h.elim
  | _ :: _, [], h => h.elim

theorem InB.getD_lt : ∀ {i s : List Nat}, InB i s → ∀ k, k < s.length → i.getD k 0 < s.getD k 0
  | [], [], _, k, hk => by simp at hk
  | x :: is, n :: ns, h, k, hk => by
    cases k with
    | zero => simpa using h.1
    | succ k => simpa using InB.getD_lt (i := is) (s := ns) h.2 k (by simpa using hk)
  | [], _ :: _, h, _, _ => h.elim
  | _ :: _, [], h, _, _ => h.elim

theorem InB.of_getD : ∀ {i s : List Nat}, i.length = s.length →
    (∀ k, k < s.length → i.getD k 0 < s.getD k 0) → InB i s
  | [], [], _, _ => trivial
  | x :: is, n :: ns, hl, h => by
    refine ⟨by simpa using h 0 (by simp), ?_⟩
    apply InB.of_getD (by simpa using hl)
    intro k hk
    simpa using h (k + 1) (by simpa using hk)
  | [], _ :: _, hl, _ => by simp at hl
  | _ :: _, [], hl, _ => by simp at hl

theorem InB_iff_getD {i s : List Nat} :
    InB i s ↔ i.length = s.length ∧ ∀ k, k < s.length → i.getD k 0 < s.getD k 0 :=
  ⟨fun h => ⟨h.length_eq, h.getD_lt⟩, fun h => InB.of_getD h.1 h.2⟩

/-! ### `Arr.Equiv` is an equivalence -/

theorem Arr.Equiv.refl {α} (a : Arr α) : Arr.Equiv a a := ⟨rfl, fun _ _ => rfl⟩

theorem Arr.Equiv.symm {α} {a b : Arr α} (h : Arr.Equiv a b) : Arr.Equiv b a :=
  ⟨h.1.symm, fun i hi => (h.2 i (h.1 ▸ hi)).symm⟩

theorem Arr.Equiv.trans {α} {a b c : Arr α} (h1 : Arr.Equiv a b) (h2 : Arr.Equiv b c) :
    Arr.Equiv a c :=
  ⟨h1.1.trans h2.1, fun i hi => (h1.2 i hi).trans (h2.2 i (h1.1 ▸ hi))⟩

/-- equal flat data on equal shapes -/
theorem Arr.Equiv.toList_eq {α} {a b : Arr α} (h : Arr.Equiv a b) : a.toList = b.toList := by
  have hall : ∀ (s : List Nat) (i : List Nat), i ∈ allIdx s → InB i s := by
    intro s
    induction s with
    | nil => intro i hi; simp [allIdx] at hi; subst hi; trivial
    | cons n ns ih =>
      intro i hi
      simp only [allIdx, List.mem_flatMap, List.mem_range, List.mem_map] at hi
      obtain ⟨x, hx, t, ht, rfl⟩ := hi
      exact ⟨hx, ih t ht⟩
  unfold Arr.toList
  rw [← h.1]
  apply List.map_congr_left
  intro i hi
  exact h.2 i (hall _ i hi)

/-! ### blocks: extents are inside the array -/

theorem validBid_cons {cs : List Nat} {l : Layout} {b : Nat} {bid : List Nat} :
    validBid (cs :: l) (b :: bid) ↔ b < cs.length ∧ validBid l bid := by
  simp [validBid, numblocks, InB]

theorem validBid_nil : validBid [] [] := by simp [validBid, numblocks, InB]

theorem validBid.length_eq {l : Layout} {bid : List Nat} (h : validBid l bid) :
    bid.length = l.length := by
  have := InB.length_eq h
  simpa [numblocks] using this

theorem validBid.getD_lt {l : Layout} {bid : List Nat} (h : validBid l bid) (k : Nat)
    (hk : k < l.length) : bid.getD k 0 < (l.getD k []).length := by
  have := InB.getD_lt h k (by simpa [numblocks] using hk)
  rwa [numblocks, getD_map List.length l k [] 0 hk] at this

theorem validBid.of_getD {l : Layout} {bid : List Nat} (hl : bid.length = l.length)
    (h : ∀ k, k < l.length → bid.getD k 0 < (l.getD k []).length) : validBid l bid := by
  apply InB.of_getD (by simpa [numblocks] using hl)
  intro k hk
  have hk' : k < l.length := by simpa [numblocks] using hk
  rw [numblocks, getD_map List.length l k [] 0 hk']
  exact h k hk'

theorem blockShape_length {l : Layout} {bid : List Nat} (h : bid.length = l.length) :
    (blockShape l bid).length = l.length := by
  simp [blockShape, h]

theorem origin_length {l : Layout} {bid : List Nat} (h : bid.length = l.length) :
    (origin l bid).length = l.length := by
  simp [origin, h]

theorem blockShape_getD {l : Layout} {bid : List Nat} (h : bid.length = l.length) (k : Nat)
    (hk : k < l.length) : (blockShape l bid).getD k 0 = (l.getD k []).getD (bid.getD k 0) 0 := by
  unfold blockShape
  rw [getD_zipWith _ l bid k [] 0 0 hk (by omega)]

theorem origin_getD {l : Layout} {bid : List Nat} (h : bid.length = l.length) (k : Nat)
    (hk : k < l.length) : (origin l bid).getD k 0 = ((l.getD k []).take (bid.getD k 0)).sum := by
  unfold origin
  rw [getD_zipWith _ l bid k [] 0 0 hk (by omega)]

theorem vadd_getD {a b : List Nat} (k : Nat) (h1 : k < a.length) (h2 : k < b.length) :
    (vadd a b).getD k 0 = a.getD k 0 + b.getD k 0 := by
  unfold vadd
  rw [getD_zipWith _ a b k 0 0 0 h1 h2]

theorem vadd_length {a b : List Nat} (h : a.length = b.length) : (vadd a b).length = a.length := by
  simp [vadd, h]

/-- a position inside a valid block is inside the array -/
theorem InB_vadd_origin : ∀ {l : Layout} {bid i : List Nat}, validBid l bid →
    InB i (blockShape l bid) → InB (vadd (origin l bid) i) (l.map List.sum)
  | [], [], [], _, _ => by simp [origin, vadd, InB]
  | cs :: l, b :: bid, x :: i, hb, hi => by
    rw [validBid_cons] at hb
    simp only [blockShape, List.zipWith_cons_cons, InB] at hi
    simp only [origin, vadd, List.zipWith_cons_cons, List.map_cons, InB]
    refine ⟨?_, InB_vadd_origin hb.2 hi.2⟩
    have := sum_take_add_getD_le cs b hb.1
    omega
  | [], _ :: _, _, hb, _ => by simp [validBid, numblocks, InB] at hb
  | _ :: _, [], _, hb, _ => by simp [validBid, numblocks, InB] at hb
  | _ :: _, _ :: _, [], _, hi => by simp [blockShape, InB] at hi
  | [], [], _ :: _, _, hi => by simp [blockShape, InB] at hi

/-! ### per-axis block lookup -/

theorem findBlock_spec : ∀ (cs : List Nat) (g : Nat), g < cs.sum →
    (findBlock cs g).1 < cs.length ∧ (findBlock cs g).2 < cs.getD (findBlock cs g).1 0 ∧
      (cs.take (findBlock cs g).1).sum + (findBlock cs g).2 = g
  | [], g, h => by simp at h
  | c :: cs, g, h => by
    unfold findBlock
    by_cases hg : g < c
    · simp [hg]
    · rw [if_neg hg]
      have ih := findBlock_spec cs (g - c) (by simp only [List.sum_cons] at h; omega)
      refine ⟨by simpa using ih.1, by simpa using ih.2.1, ?_⟩
      simp only [List.take_succ_cons, List.sum_cons]
      omega

theorem locate_spec : ∀ {l : Layout} {g : List Nat}, InB g (l.map List.sum) →
    validBid l (bidOf l g) ∧ InB (localOf l g) (blockShape l (bidOf l g)) ∧
      vadd (origin l (bidOf l g)) (localOf l g) = g
  | [], [], _ => by simp [bidOf, localOf, validBid, numblocks, blockShape, origin, vadd, InB]
  | cs :: l, x :: g, h => by
    simp only [List.map_cons, InB] at h
    obtain ⟨h1, h2, h3⟩ := findBlock_spec cs x h.1
    obtain ⟨r1, r2, r3⟩ := locate_spec (l := l) (g := g) h.2
    simp only [bidOf, localOf, List.zipWith_cons_cons] at r1 r2 r3 ⊢
    refine ⟨validBid_cons.2 ⟨h1, r1⟩, ?_, ?_⟩
    · simp only [blockShape, List.zipWith_cons_cons, InB]
      exact ⟨h2, r2⟩
    · simp only [origin, vadd, List.zipWith_cons_cons] at r3 ⊢
      rw [h3, r3]
  | [], _ :: _, h => by simp [InB] at h
  | _ :: _, [], h => by simp [InB] at h

theorem findBlock_start : ∀ (cs : List Nat) (b p : Nat), b < cs.length → p < cs.getD b 0 →
    findBlock cs ((cs.take b).sum + p) = (b, p)
  | [], _, _, h, _ => by simp at h
  | c :: cs, 0, p, _, hp => by
    simp only [List.getD_cons_zero] at hp
    simp [findBlock, hp]
  | c :: cs, b + 1, p, h, hp => by
    have ih := findBlock_start cs b p (by simpa using h) (by simpa using hp)
    have e1 : ((c :: cs).take (b + 1)).sum + p = c + ((cs.take b).sum + p) := by
      simp only [List.take_succ_cons, List.sum_cons]; omega
    rw [e1]
    unfold findBlock
    rw [if_neg (by omega)]
    have : c + ((cs.take b).sum + p) - c = (cs.take b).sum + p := by omega
    rw [this, ih]

/-- a position inside block `bid` is located in block `bid`, at that position -/
theorem locate_origin : ∀ {l : Layout} {bid i : List Nat}, validBid l bid →
    InB i (blockShape l bid) →
    bidOf l (vadd (origin l bid) i) = bid ∧ localOf l (vadd (origin l bid) i) = i
  | [], [], [], _, _ => by simp [bidOf, localOf, origin, vadd]
  | cs :: l, b :: bid, x :: i, hb, hi => by
    rw [validBid_cons] at hb
    simp only [blockShape, List.zipWith_cons_cons, InB] at hi
    obtain ⟨r1, r2⟩ := locate_origin (l := l) (bid := bid) (i := i) hb.2 hi.2
    simp only [bidOf, localOf, origin, vadd, List.zipWith_cons_cons] at r1 r2 ⊢
    rw [findBlock_start cs b x hb.1 hi.1, r1, r2]
    exact ⟨rfl, rfl⟩
  | [], _ :: _, _, hb, _ => by simp [validBid, numblocks, InB] at hb
  | _ :: _, [], _, hb, _ => by simp [validBid, numblocks, InB] at hb
  | _ :: _, _ :: _, [], _, hi => by simp [blockShape, InB] at hi
  | [], [], _ :: _, _, hi => by simp [blockShape, InB] at hi

/-- splitting an array into its block grid and assembling the grid gives the array back -/
theorem assemble_blocksOf {α} (a : Arr α) (l : Layout) (h : l.map List.sum = a.shape) :
    Arr.Equiv (assemble l (blocksOf a l)) a := by
  refine ⟨h, ?_⟩
  intro g hg
  obtain ⟨_, _, r3⟩ := locate_spec (l := l) (g := g) hg
  simp only [assemble, blocksOf, restrict, extent]
  rw [r3]

/-- assembling blocks that are (extensionally) the blocks of `a` gives `a` -/
theorem assemble_of_blocks {α} (a : Arr α) (l : Layout) (blocks : List Nat → Arr α)
    (h : l.map List.sum = a.shape)
    (hb : ∀ bid, validBid l bid → Arr.Equiv (blocks bid) (restrict a (extent l bid))) :
    Arr.Equiv (assemble l blocks) a := by
  refine ⟨h, ?_⟩
  intro g hg
  obtain ⟨r1, r2, r3⟩ := locate_spec (l := l) (g := g) hg
  have hE := hb _ r1
  simp only [assemble]
  have hsh : (blocks (bidOf l g)).shape = blockShape l (bidOf l g) := hE.1
  rw [hE.2 _ (hsh ▸ r2)]
  simp only [restrict, extent]
  rw [r3]

end Dask.ND
