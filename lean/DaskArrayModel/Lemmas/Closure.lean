/-
Soundness of the closed-set argument for reachability (general, no `decide`):
a set closed under the edges that contains the roots contains everything reachable by ANY finite path.
Plus: the backward version, Bool-checker soundness, and soundness of the executable `reachable`
(every listed node really is reachable — used for non-vacuity: when the checker says "no", a real path exists).
-/
import DaskArrayModel.Model.Closure
namespace Dask.Closure

/-- THE lemma: closed set containing the roots ⊇ everything reachable (paths of unbounded length). -/
theorem closed_set_sound (edges : Edges) (S : Nat → Prop) (roots : List Nat)
    (hroots : ∀ r ∈ roots, S r)
    (hclosed : ∀ a b, (a, b) ∈ edges → S a → S b) :
    ∀ r ∈ roots, ∀ n, Reach edges r n → S n := by
  intro r hr n h
  induction h with
  | refl => exact hroots r hr
  | step _ he ih => exact hclosed _ _ he ih

/-- backward version: a set closed under reversed edges that contains the target contains every
node that has a path to it. -/
theorem backward_closed_sound (edges : Edges) (S : Nat → Prop)
    (hclosed : ∀ a b, (a, b) ∈ edges → S b → S a) :
    ∀ a t, Reach edges a t → S t → S a := by
  intro a t h
  induction h with
  | refl => exact id
  | step _ he ih => exact fun hc => ih (hclosed _ _ he hc)

theorem Reach.trans {edges : Edges} {a b c : Nat} (h1 : Reach edges a b) (h2 : Reach edges b c) :
    Reach edges a c := by
  induction h2 with
  | refl => exact h1
  | step _ he ih => exact Reach.step ih he

theorem Reach.edge {edges : Edges} {a b : Nat} (h : (a, b) ∈ edges) : Reach edges a b :=
  Reach.step (Reach.refl a) h

/-! ### Bool checkers -/

theorem closedUnder_sound {edges : Edges} {S : List Nat} (h : closedUnder edges S = true) :
    ∀ a b, (a, b) ∈ edges → a ∈ S → b ∈ S := by
  intro a b he ha
  have := (List.all_eq_true.mp h) (a, b) he
  simp only [Bool.or_eq_true, Bool.not_eq_true', List.contains_iff_mem] at this
  rcases this with h1 | h1
  · have h2 : S.contains a = true := List.contains_iff_mem.mpr ha
    rw [h1] at h2; cases h2
  · exact h1

theorem closedUnderRev_sound {edges : Edges} {S : List Nat} (h : closedUnderRev edges S = true) :
    ∀ a b, (a, b) ∈ edges → b ∈ S → a ∈ S := by
  intro a b he hb
  have := (List.all_eq_true.mp h) (a, b) he
  simp only [Bool.or_eq_true, Bool.not_eq_true', List.contains_iff_mem] at this
  rcases this with h1 | h1
  · have h2 : S.contains b = true := List.contains_iff_mem.mpr hb
    rw [h1] at h2; cases h2
  · exact h1

/-- list form of `closed_set_sound`, the shape `decide` discharges -/
theorem closed_list_sound (edges : Edges) (S roots : List Nat)
    (hroots : ∀ r ∈ roots, r ∈ S) (hclosed : closedUnder edges S = true) :
    ∀ r ∈ roots, ∀ n, Reach edges r n → n ∈ S :=
  closed_set_sound edges (· ∈ S) roots hroots (closedUnder_sound hclosed)

theorem importSafe_sound {n : Nat} {edges : Edges} {flagged : List Nat}
    (h : importSafe n edges flagged = true) :
    ∀ m, m < n → ∀ k, Reach edges m k → k ∉ flagged := by
  simp only [importSafe, edgesBelow, Bool.and_eq_true, List.all_eq_true, decide_eq_true_eq] at h
  obtain ⟨hE, hF⟩ := h
  intro m hm k hr
  have hk : k < n :=
    closed_set_sound edges (· < n) [m] (by simpa using hm)
      (fun a b he _ => (hE (a, b) he).2) m (by simp) k hr
  intro hf
  exact Nat.lt_irrefl _ (Nat.lt_of_lt_of_le hk (hF k hf))

theorem closedUnderRevMask_sound {edges : Edges} {mask : Nat} (h : closedUnderRevMask edges mask = true) :
    ∀ a b, (a, b) ∈ edges → inMask mask b = true → inMask mask a = true := by
  intro a b he hb
  have := (List.all_eq_true.mp h) (a, b) he
  simp only [Bool.or_eq_true, Bool.not_eq_true'] at this
  rcases this with h1 | h1
  · rw [h1] at hb; cases hb
  · exact h1

theorem noRootReachesSeed_sound {n : Nat} {edges : Edges} {seeds : List Nat} {mask : Nat}
    (h : noRootReachesSeed n edges seeds mask = true) :
    ∀ m, m < n → ∀ s ∈ seeds, ¬ Reach edges m s := by
  simp only [noRootReachesSeed, Bool.and_eq_true, List.all_eq_true, List.mem_range,
    Bool.not_eq_true'] at h
  obtain ⟨⟨hB, hS⟩, hC⟩ := h
  intro m hm s hs hr
  have hmB : inMask mask m = true :=
    backward_closed_sound edges (fun i => inMask mask i = true) (closedUnderRevMask_sound hC) m s hr (hS s hs)
  rw [hB m hm] at hmB; cases hmB

/-- completeness of the generated backward closure, stated on its own: every node with a path
to a seed is in the set `mask`. -/
theorem backward_closure_complete {edges : Edges} {seeds : List Nat} {mask : Nat}
    (hS : seeds.all (fun s => inMask mask s) = true) (hC : closedUnderRevMask edges mask = true) :
    ∀ a, ∀ s ∈ seeds, Reach edges a s → inMask mask a = true := by
  intro a s hs hr
  exact backward_closed_sound edges (fun i => inMask mask i = true) (closedUnderRevMask_sound hC) a s hr
    ((List.all_eq_true.mp hS) s hs)

/-! ### the executable closure only lists nodes that really are reachable -/

theorem expand_sound (edges : Edges) (roots : List Nat) :
    ∀ (es : Edges), (∀ e ∈ es, e ∈ edges) → ∀ (acc : List Nat),
      (∀ n ∈ acc, ∃ r ∈ roots, Reach edges r n) →
      ∀ n ∈ es.foldl (fun acc e => if acc.contains e.1 && !acc.contains e.2 then e.2 :: acc else acc) acc,
        ∃ r ∈ roots, Reach edges r n := by
  intro es
  induction es with
  | nil => intro _ acc hacc n hn; exact hacc n (by simpa using hn)
  | cons e es ih =>
    intro hsub acc hacc
    simp only [List.foldl_cons]
    apply ih (fun x hx => hsub x (List.mem_cons_of_mem _ hx))
    intro n hn
    by_cases hc : (acc.contains e.1 && !acc.contains e.2) = true
    · rw [if_pos hc] at hn
      rcases List.mem_cons.mp hn with rfl | hn
      · have h1 : e.1 ∈ acc := by
          simp only [Bool.and_eq_true] at hc
          exact List.contains_iff_mem.mp hc.1
        obtain ⟨r, hr, hp⟩ := hacc e.1 h1
        exact ⟨r, hr, Reach.step hp (by simpa using hsub e (List.mem_cons_self))⟩
      · exact hacc n hn
    · rw [if_neg hc] at hn
      exact hacc n hn

theorem closure_sound (edges : Edges) (roots : List Nat) :
    ∀ (fuel : Nat) (S : List Nat), (∀ n ∈ S, ∃ r ∈ roots, Reach edges r n) →
      ∀ n ∈ closure edges fuel S, ∃ r ∈ roots, Reach edges r n := by
  intro fuel
  induction fuel with
  | zero => intro S hS n hn; exact hS n (by simpa [closure] using hn)
  | succ f ih =>
    intro S hS n hn
    simp only [closure] at hn
    split at hn
    · exact hS n hn
    · exact ih _ (expand_sound edges roots edges (fun _ h => h) S hS) n hn

/-- every node listed by `reachable edges roots` is reachable from some root -/
theorem reachable_sound (edges : Edges) (roots : List Nat) :
    ∀ n ∈ reachable edges roots, ∃ r ∈ roots, Reach edges r n :=
  closure_sound edges roots _ roots (fun n hn => ⟨n, hn, Reach.refl n⟩)

end Dask.Closure
