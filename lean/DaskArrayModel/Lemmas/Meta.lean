/- proofs for Props/C29.lean (structural inductions over `Expr`) -/
import DaskArrayModel.Model.Meta
namespace Dask.Meta

theorem regionSize_emptyRegion (shape : List Nat) (h : shape ≠ []) : regionSize (emptyRegion shape) = 0 := by
  cases shape with
  | nil => exact absurd rfl h
  | cons n rest =>
    simp only [regionSize, emptyRegion, List.map_cons, List.map_map, List.foldl_cons, Nat.sub_self, Nat.mul_zero]
    generalize List.map _ rest = l
    induction l with
    | nil => rfl
    | cons x xs ih => simpa [List.foldl_cons] using ih

theorem metaLog_harmless (env : Env) (e : Expr) (h : e.srcNonScalar = true) :
    ∀ ev ∈ (metaLog env e).2, ev.harmless = true := by
  induction e with
  | src id shape chunks dtype =>
    intro ev hev
    simp only [metaLog, List.mem_singleton] at hev
    subst hev
    have hs : shape ≠ [] := by simpa [Expr.srcNonScalar] using h
    simp [Event.harmless, regionSize_emptyRegion shape hs]
  | elem a b iha ihb =>
    simp only [Expr.srcNonScalar, Bool.and_eq_true] at h
    intro ev hev
    simp only [metaLog, List.mem_append] at hev
    rcases hev with hev | hev
    · exact iha h.1 ev hev
    · exact ihb h.2 ev hev
  | slice a r ih =>
    intro ev hev
    simp only [metaLog] at hev
    exact ih (by simpa [Expr.srcNonScalar] using h) ev hev
  | mapBlocks f a dt ih =>
    have ha : a.srcNonScalar = true := by simpa [Expr.srcNonScalar] using h
    intro ev hev
    cases dt with
    | some d => simp only [metaLog] at hev; exact ih ha ev hev
    | none =>
      simp only [metaLog, List.mem_append, List.mem_cons, List.not_mem_nil, or_false] at hev
      rcases hev with hev | hev | hev
      · exact ih ha ev hev
      · subst hev; simp [Event.harmless]
      · subst hev; simp [Event.harmless]
  | reduce a ih =>
    intro ev hev
    simp only [metaLog] at hev
    exact ih (by simpa [Expr.srcNonScalar] using h) ev hev

theorem metaLog_emptyOnly (env : Env) (e : Expr) (h : e.srcNonScalar = true) (hd : e.dtypesGiven = true) :
    ∀ ev ∈ (metaLog env e).2, ev.emptyOnly = true := by
  induction e with
  | src id shape chunks dtype =>
    intro ev hev
    simp only [metaLog, List.mem_singleton] at hev
    subst hev
    have hs : shape ≠ [] := by simpa [Expr.srcNonScalar] using h
    simp [Event.emptyOnly, regionSize_emptyRegion shape hs]
  | elem a b iha ihb =>
    simp only [Expr.srcNonScalar, Expr.dtypesGiven, Bool.and_eq_true] at h hd
    intro ev hev
    simp only [metaLog, List.mem_append] at hev
    rcases hev with hev | hev
    · exact iha h.1 hd.1 ev hev
    · exact ihb h.2 hd.2 ev hev
  | slice a r ih =>
    intro ev hev
    simp only [metaLog] at hev
    exact ih (by simpa [Expr.srcNonScalar] using h) (by simpa [Expr.dtypesGiven] using hd) ev hev
  | mapBlocks f a dt ih =>
    have ha : a.srcNonScalar = true := by simpa [Expr.srcNonScalar] using h
    intro ev hev
    cases dt with
    | some d =>
      simp only [metaLog] at hev
      exact ih ha (by simpa [Expr.dtypesGiven] using hd) ev hev
    | none => simp [Expr.dtypesGiven] at hd
  | reduce a ih =>
    intro ev hev
    simp only [metaLog] at hev
    exact ih (by simpa [Expr.srcNonScalar] using h) (by simpa [Expr.dtypesGiven] using hd) ev hev

/-- metadata (value AND log) is the same in every well-behaved environment -/
theorem metaLog_env_independent (env₁ env₂ : Env) (h₁ : env₁.WF) (h₂ : env₂.WF) (e : Expr)
    (h : e.srcNonScalar = true) : metaLog env₁ e = metaLog env₂ e := by
  induction e with
  | src id shape chunks dtype =>
    have hs : shape ≠ [] := by simpa [Expr.srcNonScalar] using h
    simp only [metaLog, h₁ id _ (regionSize_emptyRegion shape hs), h₂ id _ (regionSize_emptyRegion shape hs)]
  | elem a b iha ihb =>
    simp only [Expr.srcNonScalar, Bool.and_eq_true] at h
    simp only [metaLog, iha h.1, ihb h.2]
  | slice a r ih => simp only [metaLog, ih (by simpa [Expr.srcNonScalar] using h)]
  | mapBlocks f a dt ih => simp only [metaLog, ih (by simpa [Expr.srcNonScalar] using h)]
  | reduce a ih => simp only [metaLog, ih (by simpa [Expr.srcNonScalar] using h)]

theorem evalLog_fst (sem : Sem) (env : Env) (e : Expr) : (evalLog sem env e).1 = eval sem env e := by
  induction e with
  | src => rfl
  | elem a b iha ihb => simp only [evalLog, eval, iha, ihb]
  | slice a r ih => simp only [evalLog, eval, ih]
  | mapBlocks f a dt ih => simp only [evalLog, eval, ih]
  | reduce a ih => simp only [evalLog, eval, ih]

end Dask.Meta
