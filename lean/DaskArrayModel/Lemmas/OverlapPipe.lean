/-
Lemmas for the map_overlap pipeline (Model/OverlapPipe.lean), one axis.

* `cut_*`: the blocks of a list;
* `extBlock_eq`: the extended block as halo ++ block ++ halo taken from the concatenation of the earlier / later blocks
  (needs the neighbour to be at least as long as the depth — the minimum-chunk guard);
* `trim_core`: a window-local function applied to `A' ++ M ++ B'` and cut by `|A'|` in front and `|B'|` at the back is
  the stretch of its result on `A ++ M ++ B` that reads `M`;
* `block_*`: the four positions of a block (interior, first, last, only);
* `pipelineBlocks_eq_cut`: the trimmed blocks are the blocks of the global result.
Core Lean only.
-/
import DaskArrayModel.Model.OverlapPipe
import DaskArrayModel.Lemmas.OverlapSlice
namespace Dask.Lemmas.OverlapPipe
open Dask.OverlapSlice Dask.OverlapPipe Dask.Lemmas.OverlapSlice

variable {α β γ : Type}

/-! ### blocks -/

theorem cut_length : ∀ (cs : List Nat) (x : List α), (cut cs x).length = cs.length
  | [], _ => rfl
  | c :: cs, x => by simp [cut, cut_length cs]

theorem cut_flatten : ∀ (cs : List Nat) (x : List α), cs.sum = x.length → (cut cs x).flatten = x
  | [], x, h => by
    have : x = [] := List.eq_nil_of_length_eq_zero (by simpa using h.symm)
    simp [cut, this]
  | c :: cs, x, h => by
    simp only [cut, List.flatten_cons]
    rw [cut_flatten cs (x.drop c) (by simp [List.length_drop] at h ⊢; omega), List.take_append_drop]

theorem cut_getElem? : ∀ (cs : List Nat) (x : List α) (k : Nat), k < cs.length →
    (cut cs x)[k]? = some ((x.drop (lo cs k)).take (cs.getD k 0))
  | [], _, _, h => by simp at h
  | c :: cs, x, 0, _ => by simp [cut, lo]
  | c :: cs, x, k + 1, h => by
    simp only [cut, List.getElem?_cons_succ]
    rw [cut_getElem? cs (x.drop c) k (by simpa using h)]
    simp [lo, List.drop_drop]

theorem cut_lengths : ∀ (cs : List Nat) (x : List α), cs.sum = x.length → (cut cs x).map List.length = cs
  | [], _, _ => rfl
  | c :: cs, x, h => by
    simp only [cut, List.map_cons, List.length_take]
    rw [cut_lengths cs (x.drop c) (by simp [List.length_drop] at h ⊢; omega)]
    simp at h
    congr 1
    omega

theorem lo_le_sum (cs : List Nat) (k : Nat) : lo cs k + cs.getD k 0 ≤ cs.sum := by
  induction cs generalizing k with
  | nil => simp [lo]
  | cons c cs ih =>
    cases k with
    | zero => simp [lo]
    | succ k =>
      have := ih k
      simp [lo] at this ⊢
      omega

/-- the blocks before `k`, block `k`, the blocks after -/
theorem flatten_split (blks : List (List α)) (k : Nat) (hk : k < blks.length) :
    blks.flatten = (blks.take k).flatten ++ blks.getD k [] ++ (blks.drop (k + 1)).flatten := by
  conv => lhs; rw [← List.take_append_drop k blks]
  rw [List.flatten_append, List.drop_eq_getElem_cons hk, List.flatten_cons]
  simp [List.getD_eq_getElem?_getD, List.getElem?_eq_getElem hk, List.append_assoc]

theorem take_succ_flatten (blks : List (List α)) (k : Nat) (hk : k < blks.length) :
    (blks.take (k + 1)).flatten = (blks.take k).flatten ++ blks.getD k [] := by
  rw [List.take_add_one, List.flatten_append]
  simp [List.getD_eq_getElem?_getD, List.getElem?_eq_getElem hk]

theorem drop_flatten_cons (blks : List (List α)) (k : Nat) (hk : k < blks.length) :
    (blks.drop k).flatten = blks.getD k [] ++ (blks.drop (k + 1)).flatten := by
  rw [List.drop_eq_getElem_cons hk, List.flatten_cons]
  simp [List.getD_eq_getElem?_getD, List.getElem?_eq_getElem hk]

theorem lastN_append (d : Nat) (a c : List α) (h : d ≤ c.length) : lastN d (a ++ c) = lastN d c := by
  unfold lastN
  rw [List.length_append, List.drop_append]
  have h1 : a.length + c.length - d - a.length = c.length - d := by omega
  have h2 : a.drop (a.length + c.length - d) = [] := List.drop_eq_nil_of_le (by omega)
  rw [h1, h2, List.nil_append]

theorem lastN_zero (a : List α) : lastN 0 a = [] := by simp [lastN]

theorem lastN_length (d : Nat) (a : List α) (h : d ≤ a.length) : (lastN d a).length = d := by
  simp [lastN]; omega

theorem take_lastN (d : Nat) (a : List α) : a.take (a.length - d) ++ lastN d a = a := by
  simp [lastN]

/-- **the extended block, as halos from the concatenation of the neighbours** -/
theorem extBlock_eq (dl dr : Nat) (blks : List (List α)) (k : Nat) (_hk : k < blks.length)
    (hp : 0 < k → dl ≤ (blks.getD (k - 1) []).length)
    (hn : k + 1 < blks.length → dr ≤ (blks.getD (k + 1) []).length) :
    extBlock dl dr blks k =
      lastN (if 0 < k then dl else 0) (blks.take k).flatten ++ blks.getD k [] ++
        ((blks.drop (k + 1)).flatten).take (if k + 1 < blks.length then dr else 0) := by
  unfold extBlock
  congr 1
  · congr 1
    by_cases h0 : 0 < k
    · obtain ⟨j, rfl⟩ : ∃ j, k = j + 1 := ⟨k - 1, by omega⟩
      simp only [Nat.add_sub_cancel, Nat.zero_lt_succ, if_true, true_and] at hp ⊢
      rw [take_succ_flatten blks j (by omega), lastN_append _ _ _ (hp trivial)]
      by_cases hd : dl = 0
      · simp [hd, lastN_zero]
      · simp [hd]
    · simp [h0, lastN_zero]
  · by_cases h1 : k + 1 < blks.length
    · simp only [h1, if_true, true_and]
      rw [drop_flatten_cons blks (k + 1) h1, List.take_append_of_le_length (hn h1)]
      by_cases hd : dr = 0
      · simp [hd]
      · simp [hd]
    · simp [h1]

/-! ### the core: a window-local function on a block with context -/

theorem trim_core {dl dr : Nat} {g : List γ → List β} (hg : WinLocal dl dr g)
    (A M B A' B' : List γ) :
    ((g (A' ++ M ++ B')).take ((g (A' ++ M ++ B')).length - B'.length)).drop A'.length =
      ((g (A ++ M ++ B)).drop A.length).take (M.length - (dl + dr)) := by
  rw [List.drop_take, hg.1 (A' ++ M ++ B')]
  have hL : (A' ++ M ++ B').length - (dl + dr) - B'.length - A'.length = M.length - (dl + dr) := by
    simp only [List.length_append]; omega
  rw [hL]
  by_cases h0 : M.length - (dl + dr) = 0
  · simp [h0]
  · apply winLocal_transfer hg
    · simp only [List.length_append]; omega
    · simp only [List.length_append]; omega
    · intro j hj
      apply List.ext_getElem?
      intro t
      rw [window_getElem?, window_getElem?]
      by_cases ht : t < dl + dr + 1
      · simp only [ht, if_true]
        have e1 : (A' ++ M ++ B')[A'.length + j + t]? = M[j + t]? := by
          rw [List.append_assoc, List.getElem?_append_right (by omega),
            List.getElem?_append_left (by omega)]
          congr 1; omega
        have e2 : (A ++ M ++ B)[A.length + j + t]? = M[j + t]? := by
          rw [List.append_assoc, List.getElem?_append_right (by omega),
            List.getElem?_append_left (by omega)]
          congr 1; omega
        rw [e1, e2]
      · simp [ht]

/-- `x[front:back]` of `_trim`, as one `take`/`drop` -/
theorem trimBlock_eq (bk : BKind) (dl dr nb loc : Nat) (y : List β) :
    trimBlock bk dl dr nb loc y =
      (y.take (y.length - (if loc = nb - 1 ∧ bk = .none then 0 else dr))).drop (trimFront bk dl loc) := by
  unfold trimBlock trimBack
  by_cases h : loc = nb - 1 ∧ bk = .none
  · simp [h]
  · by_cases hd : dr = 0
    · simp [h, hd]
    · simp [h, hd]

/-- "no neighbour" markers -/
abbrev N (α : Type) (d : Nat) : List (Option α) := List.replicate d Option.none

theorem padB_none_eq (dl dr : Nat) (e : List α) : padB .none dl dr e = N α dl ++ e.map some ++ N α dr := rfl

/-- a block with both neighbours: `_trim` cuts `dl` in front and `dr` at the back -/
theorem interior_core {dl dr : Nat} {g : List (Option α) → List β} (hg : WinLocal dl dr g)
    (Lm Rm : List (Option α)) (PH PT Bk QH QT : List α) (hPT : PT.length = dl) (hQH : QH.length = dr) :
    ((g (N α dl ++ (PT ++ Bk ++ QH).map some ++ N α dr)).take
        ((g (N α dl ++ (PT ++ Bk ++ QH).map some ++ N α dr)).length - dr)).drop dl =
      ((g (Lm ++ (PH ++ PT ++ Bk ++ QH ++ QT).map some ++ Rm)).drop (Lm.length + PH.length)).take Bk.length := by
  have h := trim_core hg (Lm ++ PH.map some) ((PT ++ Bk ++ QH).map some) (QT.map some ++ Rm) (N α dl) (N α dr)
  have hM : ((PT ++ Bk ++ QH).map some).length - (dl + dr) = Bk.length := by
    simp only [List.length_map, List.length_append]; omega
  rw [hM] at h
  simp only [List.length_replicate, List.length_append, List.length_map] at h
  rw [h]
  simp [List.append_assoc]

/-- the first of several blocks under kind `none`: nothing cut in front -/
theorem first_core {dl dr : Nat} {g : List (Option α) → List β} (hg : WinLocal dl dr g)
    (Bk QH QT : List α) (hQH : QH.length = dr) :
    ((g (N α dl ++ (Bk ++ QH).map some ++ N α dr)).take
        ((g (N α dl ++ (Bk ++ QH).map some ++ N α dr)).length - dr)).drop 0 =
      ((g (N α dl ++ (Bk ++ QH ++ QT).map some ++ N α dr)).drop 0).take Bk.length := by
  have h := trim_core hg [] (N α dl ++ (Bk ++ QH).map some) (QT.map some ++ N α dr) [] (N α dr)
  have hM : (N α dl ++ (Bk ++ QH).map some).length - (dl + dr) = Bk.length := by
    simp only [List.length_map, List.length_append, List.length_replicate]; omega
  rw [hM] at h
  simp only [List.length_replicate, List.length_nil, List.nil_append] at h
  rw [h]
  simp [List.append_assoc]

/-- the last of several blocks under kind `none`: nothing cut at the back -/
theorem last_core {dl dr : Nat} {g : List (Option α) → List β} (hg : WinLocal dl dr g)
    (PH PT Bk : List α) (hPT : PT.length = dl) :
    ((g (N α dl ++ (PT ++ Bk).map some ++ N α dr)).take
        ((g (N α dl ++ (PT ++ Bk).map some ++ N α dr)).length - 0)).drop dl =
      ((g (N α dl ++ (PH ++ PT ++ Bk).map some ++ N α dr)).drop (dl + PH.length)).take Bk.length := by
  have h := trim_core hg (N α dl ++ PH.map some) ((PT ++ Bk).map some ++ N α dr) [] (N α dl) []
  have hM : ((PT ++ Bk).map some ++ N α dr).length - (dl + dr) = Bk.length := by
    simp only [List.length_map, List.length_append, List.length_replicate]; omega
  rw [hM] at h
  simp only [List.length_replicate, List.length_nil, List.append_nil, List.length_append, List.length_map] at h
  simp only [List.append_assoc] at h ⊢
  rw [h]
  simp [List.append_assoc]

/-- the only block under kind `none`: nothing cut -/
theorem only_core {dl dr : Nat} {g : List (Option α) → List β} (hg : WinLocal dl dr g) (Bk : List α) :
    ((g (N α dl ++ Bk.map some ++ N α dr)).take ((g (N α dl ++ Bk.map some ++ N α dr)).length - 0)).drop 0 =
      ((g (N α dl ++ Bk.map some ++ N α dr)).drop 0).take Bk.length := by
  have hl := hg.1 (N α dl ++ Bk.map some ++ N α dr)
  simp only [List.length_append, List.length_replicate, List.length_map] at hl
  have : (g (N α dl ++ Bk.map some ++ N α dr)).length = Bk.length := by omega
  simp [this, ← this]

theorem take_flatten_le (blks : List (List α)) (k : Nat) (hk : 0 < k) (hk2 : k ≤ blks.length) :
    (blks.getD (k - 1) []).length ≤ (blks.take k).flatten.length := by
  obtain ⟨j, rfl⟩ : ∃ j, k = j + 1 := ⟨k - 1, by omega⟩
  rw [take_succ_flatten blks j (by omega)]
  simp

theorem drop_flatten_le (blks : List (List α)) (k : Nat) (hk : k < blks.length) :
    (blks.getD k []).length ≤ (blks.drop k).flatten.length := by
  rw [drop_flatten_cons blks k hk]
  simp

/-- **one block under boundary `none`**, every position of the block -/
theorem block_none {dl dr : Nat} {g : List (Option α) → List β} (hg : WinLocal dl dr g)
    (blks : List (List α)) (k : Nat) (hk : k < blks.length)
    (hp : 0 < k → dl ≤ (blks.getD (k - 1) []).length)
    (hn : k + 1 < blks.length → dr ≤ (blks.getD (k + 1) []).length) :
    trimBlock .none dl dr blks.length k (g (padB .none dl dr (extBlock dl dr blks k))) =
      ((g (padB .none dl dr blks.flatten)).drop (blks.take k).flatten.length).take (blks.getD k []).length := by
  have hPre : 0 < k → dl ≤ (blks.take k).flatten.length := fun h =>
    Nat.le_trans (hp h) (take_flatten_le blks k h (by omega))
  have hPre0 : k = 0 → (blks.take k).flatten = [] := fun h => by simp [h]
  have hPost : k + 1 < blks.length → dr ≤ (blks.drop (k + 1)).flatten.length := fun h =>
    Nat.le_trans (hn h) (drop_flatten_le blks (k + 1) h)
  have hPost0 : ¬ k + 1 < blks.length → (blks.drop (k + 1)).flatten = [] := fun h => by
    rw [List.drop_eq_nil_of_le (by omega)]; rfl
  rw [trimBlock_eq, extBlock_eq dl dr blks k hk hp hn]
  conv => rhs; rw [flatten_split blks k hk]
  generalize (blks.take k).flatten = Pre at hPre hPre0 ⊢
  generalize (blks.drop (k + 1)).flatten = Post at hPost hPost0 ⊢
  generalize blks.getD k [] = Bk
  simp only [padB_none_eq, trimFront, and_true]
  by_cases h0 : 0 < k
  · have c1 : (if 0 < k then dl else 0) = dl := if_pos h0
    have c2 : (if k = 0 then 0 else dl) = dl := if_neg (by omega)
    have hPT := lastN_length dl Pre (hPre h0)
    have e2 : (Pre.take (Pre.length - dl)).length = Pre.length - dl := by simp
    have hPd := hPre h0
    by_cases h1 : k + 1 < blks.length
    · have c3 : (if k + 1 < blks.length then dr else 0) = dr := if_pos h1
      have c4 : (if k = blks.length - 1 then 0 else dr) = dr := if_neg (by omega)
      rw [c1, c2, c3, c4]
      have := interior_core hg (N α dl) (N α dr) (Pre.take (Pre.length - dl)) (lastN dl Pre) Bk (Post.take dr)
        (Post.drop dr) hPT (by rw [List.length_take]; exact Nat.min_eq_left (hPost h1))
      rw [this]
      have e1 : Pre.take (Pre.length - dl) ++ lastN dl Pre ++ Bk ++ Post.take dr ++ Post.drop dr = Pre ++ Bk ++ Post := by
        rw [take_lastN]; simp [List.append_assoc]
      rw [e1, e2, List.length_replicate]
      congr 2
      omega
    · have c3 : (if k + 1 < blks.length then dr else 0) = 0 := if_neg h1
      have c4 : (if k = blks.length - 1 then 0 else dr) = 0 := if_pos (by omega)
      rw [c1, c2, c3, c4, hPost0 h1]
      simp only [List.take_nil, List.append_nil]
      have := last_core (dr := dr) hg (Pre.take (Pre.length - dl)) (lastN dl Pre) Bk hPT
      rw [this]
      have e1 : Pre.take (Pre.length - dl) ++ lastN dl Pre ++ Bk = Pre ++ Bk := by rw [take_lastN]
      rw [e1, e2]
      congr 2
      omega
  · have hk0 : k = 0 := by omega
    have c1 : (if 0 < k then dl else 0) = 0 := if_neg h0
    have c2 : (if k = 0 then 0 else dl) = 0 := if_pos hk0
    rw [c1, c2, hPre0 hk0]
    simp only [lastN_zero, List.nil_append, List.length_nil]
    by_cases h1 : k + 1 < blks.length
    · have c3 : (if k + 1 < blks.length then dr else 0) = dr := if_pos h1
      have c4 : (if k = blks.length - 1 then 0 else dr) = dr := if_neg (by omega)
      rw [c3, c4]
      have := first_core (dl := dl) hg Bk (Post.take dr) (Post.drop dr)
        (by rw [List.length_take]; exact Nat.min_eq_left (hPost h1))
      rw [this]
      simp [List.append_assoc]
    · have c3 : (if k + 1 < blks.length then dr else 0) = 0 := if_neg h1
      have c4 : (if k = blks.length - 1 then 0 else dr) = 0 := if_pos (by omega)
      rw [c3, c4, hPost0 h1]
      simp only [List.take_nil, List.append_nil]
      exact only_core hg Bk

/-- a block with both neighbours in ANY block list, the global array written `Lm ++ flatten ++ Rm` -/
theorem block_interior {dl dr : Nat} {g : List (Option α) → List β} (hg : WinLocal dl dr g)
    (Lm Rm : List (Option α)) (blks : List (List α)) (k : Nat) (h0 : 0 < k) (h1 : k + 1 < blks.length)
    (hp : dl ≤ (blks.getD (k - 1) []).length) (hn : dr ≤ (blks.getD (k + 1) []).length) :
    ((g (padB .none dl dr (extBlock dl dr blks k))).take
        ((g (padB .none dl dr (extBlock dl dr blks k))).length - dr)).drop dl =
      ((g (Lm ++ blks.flatten.map some ++ Rm)).drop (Lm.length + ((blks.take k).flatten.length - dl))).take
        (blks.getD k []).length := by
  have hk : k < blks.length := by omega
  have hPre : dl ≤ (blks.take k).flatten.length :=
    Nat.le_trans hp (take_flatten_le blks k h0 (by omega))
  have hPost : dr ≤ (blks.drop (k + 1)).flatten.length :=
    Nat.le_trans hn (drop_flatten_le blks (k + 1) h1)
  rw [extBlock_eq dl dr blks k hk (fun _ => hp) (fun _ => hn)]
  conv => rhs; rw [flatten_split blks k hk]
  generalize (blks.take k).flatten = Pre at hPre ⊢
  generalize (blks.drop (k + 1)).flatten = Post at hPost ⊢
  generalize blks.getD k [] = Bk
  rw [if_pos h0, if_pos h1, padB_none_eq]
  have := interior_core hg Lm Rm (Pre.take (Pre.length - dl)) (lastN dl Pre) Bk (Post.take dr)
    (Post.drop dr) (lastN_length dl Pre hPre) (by rw [List.length_take]; exact Nat.min_eq_left hPost)
  rw [this]
  have e1 : Pre.take (Pre.length - dl) ++ lastN dl Pre ++ Bk ++ Post.take dr ++ Post.drop dr = Pre ++ Bk ++ Post := by
    rw [take_lastN]; simp [List.append_assoc]
  have e2 : (Pre.take (Pre.length - dl)).length = Pre.length - dl := by simp
  rw [e1, e2]

theorem getD_mem (blks : List (List α)) (k : Nat) (hk : k < blks.length) : blks.getD k [] ∈ blks := by
  rw [List.getD_eq_getElem?_getD, List.getElem?_eq_getElem hk]
  exact List.getElem_mem hk

theorem getD_pieces (L R : List α) (blks : List (List α)) (j : Nat) :
    (L :: (blks ++ [R])).getD (j + 1) [] =
      if j < blks.length then blks.getD j [] else if j = blks.length then R else [] := by
  simp only [List.getD_eq_getElem?_getD, List.getElem?_cons_succ]
  by_cases h : j < blks.length
  · simp [h, List.getElem?_append_left h]
  · by_cases h2 : j = blks.length
    · subst h2; simp
    · have : (blks ++ [R]).length ≤ j := by simp; omega
      simp [h, h2, List.getElem?_eq_none this]

/-- **one block behind `boundaries` pieces** `L`, `R` (every kind other than `none`) -/
theorem block_pieces {dl dr : Nat} {g : List (Option α) → List β} (hg : WinLocal dl dr g)
    (L R : List α) (blks : List (List α)) (hL : L.length = dl) (hR : R.length = dr)
    (hmin : ∀ blk ∈ blks, dl ≤ blk.length ∧ dr ≤ blk.length) (k : Nat) (hk : k < blks.length) :
    ((g (padB .none dl dr (extBlock dl dr (L :: (blks ++ [R])) (k + 1)))).take
        ((g (padB .none dl dr (extBlock dl dr (L :: (blks ++ [R])) (k + 1)))).length - dr)).drop dl =
      ((g ((L ++ blks.flatten ++ R).map some)).drop (blks.take k).flatten.length).take (blks.getD k []).length := by
  have hp : dl ≤ ((L :: (blks ++ [R])).getD (k + 1 - 1) []).length := by
    cases k with
    | zero => simp [hL]
    | succ j =>
      rw [Nat.add_sub_cancel, getD_pieces, if_pos (by omega)]
      exact (hmin _ (getD_mem blks j (by omega))).1
  have hn : dr ≤ ((L :: (blks ++ [R])).getD (k + 1 + 1) []).length := by
    rw [getD_pieces]
    by_cases h : k + 1 < blks.length
    · rw [if_pos h]; exact (hmin _ (getD_mem blks (k + 1) h)).2
    · rw [if_neg h, if_pos (by omega)]; omega
  have h := block_interior hg [] [] (L :: (blks ++ [R])) (k + 1) (by omega) (by simp; omega) hp hn
  rw [h]
  have e1 : (L :: (blks ++ [R])).flatten = L ++ blks.flatten ++ R := by simp [List.append_assoc]
  have e2 : ((L :: (blks ++ [R])).take (k + 1)).flatten.length - dl = (blks.take k).flatten.length := by
    rw [List.take_succ_cons, List.take_append_of_le_length (by omega)]
    simp [hL]
  have e3 : (L :: (blks ++ [R])).getD (k + 1) [] = blks.getD k [] := by
    rw [getD_pieces, if_pos hk]
  rw [e1, e2, e3]
  simp

/-! ### `chunk.trim` drops exactly the two blocks that belong to the pieces -/

theorem dropFrontBlocks_zero (bs : List (List α)) : dropFrontBlocks 0 bs = bs := by
  cases bs <;> simp [dropFrontBlocks]

theorem dropFrontBlocks_exact (t : Nat) (b : List α) (bs : List (List α)) (ht : t ≠ 0) (hb : b.length = t) :
    dropFrontBlocks t (b :: bs) = bs := by
  simp [dropFrontBlocks, ht, hb, dropFrontBlocks_zero]

theorem dropBackBlocks_exact (t : Nat) (mid : List (List α)) (last : List α) (ht : t ≠ 0) (hb : last.length = t) :
    dropBackBlocks t (mid ++ [last]) = mid := by
  unfold dropBackBlocks
  rw [List.reverse_append, List.reverse_singleton, List.singleton_append, List.map_cons,
    dropFrontBlocks_exact t _ _ ht (by simp [hb])]
  simp [List.map_reverse, Function.comp_def]

theorem overlapInternal_pieces (dl dr : Nat) (L R : List α) (blks : List (List α)) :
    overlapInternal dl dr (L :: (blks ++ [R])) =
      extBlock dl dr (L :: (blks ++ [R])) 0 ::
        ((List.range blks.length).map (fun k => extBlock dl dr (L :: (blks ++ [R])) (k + 1)) ++
          [extBlock dl dr (L :: (blks ++ [R])) (blks.length + 1)]) := by
  unfold overlapInternal
  have : (L :: (blks ++ [R])).length = blks.length + 1 + 1 := by simp
  rw [this, List.range_succ_eq_map, List.map_cons, List.map_map, List.range_succ, List.map_append]
  simp [Function.comp_def]

theorem chunkTrim_pieces (dl dr : Nat) (L R : List α) (blks : List (List α)) (hne : blks ≠ [])
    (hL : L.length = dl) (hR : R.length = dr) (ht : dl + dr ≠ 0)
    (hmin : ∀ blk ∈ blks, dl ≤ blk.length ∧ dr ≤ blk.length) :
    chunkTrim (dl + dr) (overlapInternal dl dr (L :: (blks ++ [R]))) =
      (List.range blks.length).map (fun k => extBlock dl dr (L :: (blks ++ [R])) (k + 1)) := by
  have hnb : 0 < blks.length := List.length_pos_iff.mpr hne
  have h0 : (extBlock dl dr (L :: (blks ++ [R])) 0).length = dl + dr := by
    have hd : dr ≤ (blks.getD 0 []).length := (hmin _ (getD_mem blks 0 hnb)).2
    have e : (L :: (blks ++ [R])).getD (0 + 1) [] = blks.getD 0 [] := by rw [getD_pieces, if_pos hnb]
    unfold extBlock
    rw [e]
    by_cases hdr : dr = 0
    · simp [hdr, hL]
    · rw [List.getD_eq_getElem?_getD] at hd
      simp [hdr, hL, Nat.min_eq_left hd]
  have h1 : (extBlock dl dr (L :: (blks ++ [R])) (blks.length + 1)).length = dl + dr := by
    have hd : dl ≤ (blks.getD (blks.length - 1) []).length := (hmin _ (getD_mem blks _ (by omega))).1
    have e : (L :: (blks ++ [R])).getD (blks.length + 1 - 1) [] = blks.getD (blks.length - 1) [] := by
      have : blks.length + 1 - 1 = (blks.length - 1) + 1 := by omega
      rw [this, getD_pieces, if_pos (by omega)]
    have e2 : (L :: (blks ++ [R])).getD (blks.length + 1) [] = R := by
      rw [getD_pieces, if_neg (by omega), if_pos rfl]
    unfold extBlock
    rw [e, e2]
    by_cases hdl : dl = 0
    · simp [hdl, hR]
    · have := lastN_length dl _ hd
      rw [List.getD_eq_getElem?_getD] at this
      simp [hdl, hR, this]
  unfold chunkTrim
  rw [if_neg ht, overlapInternal_pieces, dropFrontBlocks_exact _ _ _ ht h0, dropBackBlocks_exact _ _ _ ht h1]

/-! ### the pieces of `boundaries` are what `padB` appends -/

theorem padB_pieces (b : Boundary α) (dl dr : Nat) (x : List α) (hb : b.kind ≠ .none) :
    padB b dl dr x = (leftPiece b dl x ++ x ++ rightPiece b dr x).map some := by
  cases b <;> first | exact absurd rfl hb | rfl

theorem leftPiece_length (b : Boundary α) (d : Nat) (x : List α) (hb : b.kind ≠ .none) (hd : d ≤ x.length) :
    (leftPiece b d x).length = d := by
  cases b with
  | none => exact absurd rfl hb
  | periodic => simp [leftPiece]; omega
  | reflect => simp [leftPiece]; omega
  | constant c => simp [leftPiece]
  | nearest =>
    cases x with
    | nil => simp at hd; subst hd; simp [leftPiece]
    | cons a t => simp [leftPiece]

theorem rightPiece_length (b : Boundary α) (d : Nat) (x : List α) (hb : b.kind ≠ .none) (hd : d ≤ x.length) :
    (rightPiece b d x).length = d := by
  cases b with
  | none => exact absurd rfl hb
  | periodic => simp [rightPiece]; omega
  | reflect => simp [rightPiece]; omega
  | constant c => simp [rightPiece]
  | nearest =>
    cases x with
    | nil => simp at hd; subst hd; simp [rightPiece]
    | cons a t =>
      have h2 : (a :: t).drop ((a :: t).length - 1) = [(a :: t)[(a :: t).length - 1]'(by simp)] := by
        rw [List.drop_eq_getElem_cons (by simp)]
        have : (a :: t).length - 1 + 1 = (a :: t).length := by simp
        rw [this, List.drop_length]
      unfold rightPiece
      rw [h2]
      simp

theorem flatMap_nil_fn {δ ε : Type} (l : List δ) : l.flatMap (fun _ => ([] : List ε)) = [] := by
  induction l with
  | nil => rfl
  | cons a t ih => simp [List.flatMap_cons, ih]

theorem padB_zero (b : Boundary α) (x : List α) : padB b 0 0 x = padB .none 0 0 x := by
  cases b <;> simp [padB, flatMap_nil_fn]

theorem trimBlock_zero (bk : BKind) (nb loc : Nat) (y : List β) :
    trimBlock bk 0 0 nb loc y = trimBlock .none 0 0 nb loc y := by
  simp [trimBlock_eq, trimFront]

theorem take_flatten_cut (cs : List Nat) (x : List α) (h : cs.sum = x.length) (k : Nat) :
    ((cut cs x).take k).flatten.length = lo cs k := by
  rw [List.length_flatten, List.map_take, cut_lengths cs x h]
  rfl

theorem getD_cut_length (cs : List Nat) (x : List α) (h : cs.sum = x.length) (k : Nat) :
    ((cut cs x).getD k []).length = cs.getD k 0 := by
  have := congrArg (fun l => l.getD k 0) (cut_lengths cs x h)
  simp only [List.getD_eq_getElem?_getD, List.getElem?_map] at this ⊢
  rw [← this]
  cases (cut cs x)[k]? <;> simp

/-- **the trimmed blocks of the pipeline are the blocks of the global result** -/
theorem pipelineBlocks_eq_cut {dl dr : Nat} {g : List (Option α) → List β} (hg : WinLocal dl dr g)
    (b : Boundary α) (cs : List Nat) (f : List α → List β) (x : List α)
    (hf : ∀ e, f e = g (padB .none dl dr e)) (hG : Guard dl dr cs x.length) :
    pipelineBlocks b dl dr cs f x = cut cs (g (padB b dl dr x)) := by
  obtain ⟨hne, hsum, hmin⟩ := hG
  have hlenB := cut_length cs x
  have hflat := cut_flatten cs x hsum
  have hmin' : ∀ blk ∈ cut cs x, dl ≤ blk.length ∧ dr ≤ blk.length := by
    intro blk hb
    obtain ⟨k, hk, rfl⟩ := List.getElem_of_mem hb
    have h1 := getD_cut_length cs x hsum k
    rw [List.getD_eq_getElem?_getD, List.getElem?_eq_getElem hk] at h1
    simp only [Option.getD_some] at h1
    have hk' : k < cs.length := by rw [← hlenB]; exact hk
    have h2 := hmin (cs.getD k 0) (by
      rw [List.getD_eq_getElem?_getD, List.getElem?_eq_getElem hk']; exact List.getElem_mem hk')
    omega
  have hneB : cut cs x ≠ [] := by
    intro h; rw [h] at hlenB; exact hne (List.eq_nil_of_length_eq_zero hlenB.symm)
  have hgetD : ∀ k, k < cs.length → dl ≤ ((cut cs x).getD k []).length ∧ dr ≤ ((cut cs x).getD k []).length :=
    fun k hk => hmin' _ (getD_mem _ k (by omega))
  have hnle : dl ≤ x.length ∧ dr ≤ x.length := by
    have h0 := hgetD 0 (List.length_pos_iff.mpr hne)
    have h1 := drop_flatten_le (cut cs x) 0 (by rw [hlenB]; exact List.length_pos_iff.mpr hne)
    rw [List.drop_zero, hflat] at h1
    omega
  apply List.ext_getElem?
  intro k
  by_cases hk : k < cs.length
  · rw [cut_getElem? cs _ k hk]
    unfold pipelineBlocks trimInternal overlapBlocks boundaryBlocks
    by_cases hp : addsPieces b.kind dl dr = true
    · -- pieces
      have hb : b.kind ≠ .none := by
        intro h; simp [addsPieces, h] at hp
      have ht : dl + dr ≠ 0 := by
        intro h; simp [addsPieces] at hp; omega
      have hL := leftPiece_length b dl x hb hnle.1
      have hR := rightPiece_length b dr x hb hnle.2
      rw [if_pos hp, hflat]
      have hotd : overlapTrimDepth b.kind dl dr = dl + dr := by simp [overlapTrimDepth, hb]
      rw [hotd, List.singleton_append, List.cons_append,
        chunkTrim_pieces dl dr _ _ (cut cs x) hneB hL hR ht hmin']
      simp only [List.getElem?_mapIdx, List.getElem?_map, List.length_map, List.length_range, hlenB,
        List.getElem?_range hk, Option.map_some]
      rw [trimBlock_eq, hf]
      have c1 : (if k = cs.length - 1 ∧ b.kind = BKind.none then 0 else dr) = dr := if_neg (fun h => hb h.2)
      have c2 : trimFront b.kind dl k = dl := by simp [trimFront, hb]
      rw [c1, c2, block_pieces hg _ _ (cut cs x) hL hR hmin' k (by omega), hflat,
        take_flatten_cut cs x hsum, getD_cut_length cs x hsum, padB_pieces b dl dr x hb]
    · -- no pieces: kind `none`, or depth 0
      have hp' : addsPieces b.kind dl dr = false := by simpa using hp
      rw [if_neg hp]
      have hotd : overlapTrimDepth b.kind dl dr = 0 := by
        simp only [addsPieces, Bool.and_eq_false_iff] at hp'
        unfold overlapTrimDepth
        rcases hp' with h | h
        · simp at h; simp [h]
        · simp at h; simp [h]
      rw [hotd]
      simp only [chunkTrim, if_true, overlapInternal, List.getElem?_mapIdx, List.getElem?_map,
        List.length_map, List.length_range, hlenB, List.getElem?_range hk, Option.map_some]
      rw [hf]
      have hkey : trimBlock b.kind dl dr cs.length k (g (padB .none dl dr (extBlock dl dr (cut cs x) k))) =
          trimBlock .none dl dr cs.length k (g (padB .none dl dr (extBlock dl dr (cut cs x) k))) ∧
          padB b dl dr x = padB .none dl dr x := by
        by_cases hb : b.kind = .none
        · cases b <;> first | exact ⟨rfl, rfl⟩ | exact absurd hb (by simp [Boundary.kind])
        · have hz : dl = 0 ∧ dr = 0 := by
            simp [addsPieces, hb] at hp'; exact hp'
          obtain ⟨rfl, rfl⟩ := hz
          exact ⟨trimBlock_zero _ _ _ _, padB_zero b x⟩
      rw [hkey.1, hkey.2]
      have := block_none hg (cut cs x) k (by omega)
        (fun h0 => (hgetD (k - 1) (by omega)).1) (fun h1 => (hgetD (k + 1) (by omega)).2)
      rw [hlenB] at this
      rw [this, hflat, take_flatten_cut cs x hsum, getD_cut_length cs x hsum]
  · have h1 : (cut cs (g (padB b dl dr x))).length ≤ k := by rw [cut_length]; omega
    have h2 : (pipelineBlocks b dl dr cs f x).length ≤ k := by
      unfold pipelineBlocks trimInternal overlapBlocks boundaryBlocks
      rw [List.length_mapIdx, List.length_map]
      by_cases hp : addsPieces b.kind dl dr = true
      · have hb : b.kind ≠ .none := by
          intro h; simp [addsPieces, h] at hp
        have ht : dl + dr ≠ 0 := by
          intro h; simp [addsPieces] at hp; omega
        have hotd : overlapTrimDepth b.kind dl dr = dl + dr := by simp [overlapTrimDepth, hb]
        rw [if_pos hp, hflat, hotd, List.singleton_append, List.cons_append,
          chunkTrim_pieces dl dr _ _ (cut cs x) hneB (leftPiece_length b dl x hb hnle.1)
            (rightPiece_length b dr x hb hnle.2) ht hmin']
        simp [hlenB]; omega
      · have hp' : addsPieces b.kind dl dr = false := by simpa using hp
        have hotd : overlapTrimDepth b.kind dl dr = 0 := by
          simp only [addsPieces, Bool.and_eq_false_iff] at hp'
          unfold overlapTrimDepth
          rcases hp' with h | h
          · simp at h; simp [h]
          · simp at h; simp [h]
        rw [if_neg hp, hotd]
        simp [chunkTrim, overlapInternal, hlenB]; omega
    rw [List.getElem?_eq_none h1, List.getElem?_eq_none h2]

/-! ### further facts used by Props/C19Overlap.lean -/

theorem take_app3 (a b c : List α) (m : Nat) :
    (a ++ b ++ c).take (a.length + b.length + m) = a ++ b ++ c.take m := by
  rw [List.take_append, List.take_of_length_le (by simp),
    show a.length + b.length + m - (a ++ b).length = m by simp]

/-- the extended block is `x[lo - dl : hi + dr]` clipped to the axis — positions, not just length -/
theorem extBlock_sources (dl dr : Nat) (cs : List Nat) (x : List α) (hG : Guard dl dr cs x.length)
    (k : Nat) (hk : k < cs.length) :
    extBlock dl dr (cut cs x) k =
      (x.drop (lo cs k - dl)).take (lo cs k + cs.getD k 0 + dr - (lo cs k - dl)) := by
  obtain ⟨hne, hsum, hmin⟩ := hG
  have hlenB := cut_length cs x
  have hflat := cut_flatten cs x hsum
  have hgl := getD_cut_length cs x hsum
  have hmem : ∀ j, j < cs.length → max dl dr ≤ cs.getD j 0 := fun j hj =>
    hmin _ (by rw [List.getD_eq_getElem?_getD, List.getElem?_eq_getElem hj]; exact List.getElem_mem hj)
  have hp : 0 < k → dl ≤ ((cut cs x).getD (k - 1) []).length := fun h => by
    rw [hgl]; have := hmem (k - 1) (by omega); omega
  have hn : k + 1 < (cut cs x).length → dr ≤ ((cut cs x).getD (k + 1) []).length := fun h => by
    rw [hgl]; have := hmem (k + 1) (by omega); omega
  have hPre : 0 < k → dl ≤ ((cut cs x).take k).flatten.length := fun h =>
    Nat.le_trans (hp h) (take_flatten_le _ k h (by omega))
  have hPost : k + 1 < (cut cs x).length → dr ≤ ((cut cs x).drop (k + 1)).flatten.length := fun h =>
    Nat.le_trans (hn h) (drop_flatten_le _ (k + 1) h)
  have hPost0 : ¬ k + 1 < (cut cs x).length → ((cut cs x).drop (k + 1)).flatten = [] := fun h => by
    rw [List.drop_eq_nil_of_le (by omega)]; rfl
  have hlo := take_flatten_cut cs x hsum k
  have hck := hgl k
  rw [extBlock_eq dl dr (cut cs x) k (by omega) hp hn]
  conv => rhs; rw [← hflat, flatten_split (cut cs x) k (by omega)]
  generalize ((cut cs x).take k).flatten = Pre at hPre hlo ⊢
  generalize ((cut cs x).drop (k + 1)).flatten = Post at hPost hPost0 ⊢
  generalize (cut cs x).getD k [] = Bk at hck ⊢
  rw [← hlo, ← hck]
  have hd : (Pre ++ Bk ++ Post).drop (Pre.length - dl) = lastN dl Pre ++ Bk ++ Post := by
    rw [List.append_assoc, List.drop_append_of_le_length (by omega)]
    simp [lastN, List.append_assoc]
  by_cases h0 : 0 < k
  · have hPd := hPre h0
    rw [if_pos h0, hd]
    have hl := lastN_length dl Pre hPd
    have hN : Pre.length + Bk.length + dr - (Pre.length - dl) = (lastN dl Pre).length + Bk.length + dr := by
      rw [hl]; omega
    rw [hN, take_app3]
    by_cases h1 : k + 1 < (cut cs x).length
    · rw [if_pos h1]
    · rw [if_neg h1, hPost0 h1]; simp
  · have hk0 : k = 0 := by omega
    have hPre0 : Pre = [] := by
      have : Pre.length = 0 := by rw [hlo, hk0]; simp [lo]
      exact List.eq_nil_of_length_eq_zero this
    subst hPre0
    rw [if_neg h0]
    simp only [lastN_zero, List.nil_append, List.length_nil, Nat.zero_sub, List.drop_zero, Nat.sub_zero, Nat.zero_add]
    have := take_app3 ([] : List α) Bk Post dr
    simp only [List.nil_append, List.length_nil, Nat.zero_add] at this
    rw [this]
    by_cases h1 : k + 1 < (cut cs x).length
    · rw [if_pos h1]
    · rw [if_neg h1, hPost0 h1]; simp

/-- chunk arithmetic, kinds other than `none`: every block is cut by `dl + dr` -/
theorem trimChunks_pieces (bk : BKind) (dl dr : Nat) (cs : List Nat) (hb : bk ≠ .none) :
    trimChunks bk dl dr (cs.map (· + (dl + dr))) = cs := by
  apply List.ext_getElem?
  intro j
  simp only [trimChunks, List.getElem?_mapIdx, List.getElem?_map]
  cases cs[j]? <;> simp [hb]

/-- chunk arithmetic, kind `none`: `trim_internal`'s chunks of `_overlap_internal_chunks(cs)` are `cs`
(the natural-number reading of `overlapTrim_chunks_id` of Props/C19.lean) -/
theorem trimChunks_internal (dl dr : Nat) : ∀ (cs : List Nat),
    trimChunks .none dl dr (internalChunks dl dr cs) = cs
  | [] => rfl
  | [b] => by simp [internalChunks, trimChunks]
  | b0 :: b1 :: rest => by
    obtain ⟨mid, last, h⟩ : ∃ mid last, b1 :: rest = mid ++ [last] :=
      ⟨(b1 :: rest).dropLast, (b1 :: rest).getLast (by simp), (List.dropLast_concat_getLast _).symm⟩
    have hi : internalChunks dl dr (b0 :: b1 :: rest) = (b0 + dr) :: (mid.map (· + dl + dr) ++ [last + dl]) := by
      show (b0 + dr) :: ((b1 :: rest).dropLast.map (· + dl + dr) ++ [(b1 :: rest).getLastD 0 + dl]) = _
      rw [h]; simp
    rw [hi, h]
    apply List.ext_getElem?
    intro j
    simp only [trimChunks, List.getElem?_mapIdx, List.length_cons, List.length_append, List.length_map,
      List.length_singleton]
    cases j with
    | zero => simp
    | succ j =>
      simp only [List.getElem?_cons_succ]
      by_cases hj : j < mid.length
      · have hne : ¬ j = mid.length := by omega
        rw [List.getElem?_append_left (by simpa using hj), List.getElem?_append_left hj]
        simp [List.getElem?_eq_getElem hj, hne]
        omega
      · by_cases hj2 : j = mid.length
        · subst hj2; simp
        · have h1 : (mid.map (· + dl + dr) ++ [last + dl]).length ≤ j := by simp; omega
          have h2 : (mid ++ [last]).length ≤ j := by simp; omega
          rw [List.getElem?_eq_none h1, List.getElem?_eq_none h2]
          rfl

theorem le_sum_of_mem : ∀ (cs : List Nat) (c : Nat), c ∈ cs → c ≤ cs.sum
  | [], _, h => by simp at h
  | a :: t, c, h => by
    simp only [List.mem_cons] at h
    simp only [List.sum_cons]
    rcases h with rfl | h
    · omega
    · have := le_sum_of_mem t c h; omega

/-- **the chunked pipeline is the global stencil** -/
theorem pipeline_eq_global {dl dr : Nat} {g : List (Option α) → List β} (hg : WinLocal dl dr g)
    (b : Boundary α) (cs : List Nat) (f : List α → List β) (x : List α)
    (hf : ∀ e, f e = g (padB .none dl dr e)) (hG : Guard dl dr cs x.length) :
    pipeline b dl dr cs f x = mapOverlap1 g b dl dr x := by
  unfold pipeline mapOverlap1
  rw [pipelineBlocks_eq_cut hg b cs f x hf hG]
  obtain ⟨hne, hsum, hmin⟩ := hG
  apply cut_flatten
  have hc : ∃ c ∈ cs, True := by
    cases cs with
    | nil => exact absurd rfl hne
    | cons c t => exact ⟨c, by simp, trivial⟩
  obtain ⟨c, hc, _⟩ := hc
  have h1 := hmin c hc
  have h2 : c ≤ cs.sum := le_sum_of_mem cs c hc
  rw [hg.1, padB_length b dl dr x (by omega) (by omega)]
  omega

theorem pipelineBlocks_lengths {dl dr : Nat} {g : List (Option α) → List β} (hg : WinLocal dl dr g)
    (b : Boundary α) (cs : List Nat) (f : List α → List β) (x : List α)
    (hf : ∀ e, f e = g (padB .none dl dr e)) (hG : Guard dl dr cs x.length) :
    (pipelineBlocks b dl dr cs f x).map List.length = cs := by
  rw [pipelineBlocks_eq_cut hg b cs f x hf hG]
  obtain ⟨hne, hsum, hmin⟩ := hG
  apply cut_lengths
  have hc : ∃ c ∈ cs, True := by
    cases cs with
    | nil => exact absurd rfl hne
    | cons c t => exact ⟨c, by simp, trivial⟩
  obtain ⟨c, hc, _⟩ := hc
  have h1 := hmin c hc
  have h2 : c ≤ cs.sum := le_sum_of_mem cs c hc
  rw [hg.1, padB_length b dl dr x (by omega) (by omega)]
  omega

theorem none_edges (dl dr : Nat) (blks : List (List α)) (hne : blks ≠ []) :
    (extBlock dl dr blks 0).take (blks.getD 0 []).length = blks.getD 0 [] ∧
    lastN (blks.getD (blks.length - 1) []).length (extBlock dl dr blks (blks.length - 1)) =
      blks.getD (blks.length - 1) [] ∧
    trimFront .none dl 0 = 0 ∧ trimBack .none dr (blks.length - 1) blks.length = none ∧
    (∀ k, 0 < k → trimFront .none dl k = dl) ∧
    (∀ k, k ≠ blks.length - 1 → dr ≠ 0 → trimBack .none dr k blks.length = some dr) ∧
    (∀ bk k, bk ≠ .none → trimFront bk dl k = dl ∧ (dr ≠ 0 → trimBack bk dr k blks.length = some dr)) := by
  have hnb : 0 < blks.length := List.length_pos_iff.mpr hne
  refine ⟨?_, ?_, by simp [trimFront], by simp [trimBack], ?_, ?_, ?_⟩
  · unfold extBlock
    simp
  · unfold extBlock
    have : ¬ (blks.length - 1 + 1 < blks.length) := by omega
    simp only [this, false_and, if_false, List.append_nil]
    rw [lastN_append _ _ _ (Nat.le_refl _)]
    simp [lastN]
  · intro k hk
    have : ¬ k = 0 := by omega
    simp [trimFront, this]
  · intro k hk hd
    simp [trimBack, hk, hd]
  · intro bk k hb
    refine ⟨by simp [trimFront, hb], fun hd => by simp [trimBack, hb, hd]⟩

/-! ### the witness: a chunk below the depth -/

def xs12 : List Int := [0, 1, 2, 3, 4, 5, 6, 7, 8, 9, 10, 11]

theorem witness_guard : ¬ Guard 4 0 [3, 4, 5] xs12.length := by decide

theorem witness_blocks :
    overlapInternal 4 0 (cut [3, 4, 5] xs12) = [[0, 1, 2], [0, 1, 2, 3, 4, 5, 6], [3, 4, 5, 6, 7, 8, 9, 10, 11]] := by
  decide

theorem witness_lengths :
    (pipelineBlocks .none 4 0 [3, 4, 5] (blockFn (stencil ksum 4 0) 4 0) xs12).map List.length = [3, 3, 5] := by
  decide

theorem witness_differs :
    pipeline .none 4 0 [3, 4, 5] (blockFn (stencil ksum 4 0) 4 0) xs12 ≠
      mapOverlap1 (stencil ksum 4 0) .none 4 0 xs12 := by
  decide

end Dask.Lemmas.OverlapPipe
