/-
The take pushdown (`_accept_shuffle`): unpacking the gate, the take as a re-indexing (`takeR`), and the
theorem for integer-list indices.
-/
import DaskArrayModel.Lemmas.BlockwiseGateSlice
namespace Dask.BWG
open Dask.Py Dask.Py.PySlice Dask.ND Dask.Slicing Dask.Contract

/-! ### a take along one axis is a re-indexing -/

theorem reix_off (R : Reix) (N : Nat → Nat) (ind : List Nat) (a : Arr Int) (hr : ind.length = a.shape.length)
    (hoff : ∀ k, k < ind.length → R.on N (ind.getD k 0) (a.shape.getD k 0) = false) :
    Arr.Equiv a (reix R N ind a) := by
  have hs : a.shape = (reix R N ind a).shape := by
    apply list_ext_getD
    · rw [reix_shape_length, hr]
    · intro k hk
      rw [reix_shape_getD _ _ _ _ _ (by omega), hoff k (by omega)]; rfl
  refine ⟨hs, ?_⟩
  intro i hi
  have hil := InB.length_eq hi
  simp only [reix]
  congr 1
  apply list_ext_getD
  · simp; omega
  · intro k hk
    rw [getD_rangeMap _ _ _ _ (by omega), hoff k (by omega)]; rfl

theorem takeArr_eq_reix (R : Reix) (N : Nat → Nat) (ind : List Nat) (a : Arr Int) (axis : Nat) (flat : List Nat)
    (hr : ind.length = a.shape.length) (hax : axis < ind.length)
    (hon : R.on N (ind.getD axis 0) (a.shape.getD axis 0) = true)
    (hlen : R.len (ind.getD axis 0) = flat.length) (hmap : ∀ x, R.map (ind.getD axis 0) x = flat.getD x 0)
    (hoff : ∀ k, k < ind.length → k ≠ axis → R.on N (ind.getD k 0) (a.shape.getD k 0) = false) :
    Arr.Equiv (takeArr a axis flat) (reix R N ind a) := by
  have hs : a.shape.set axis flat.length = (reix R N ind a).shape := by
    apply list_ext_getD
    · rw [reix_shape_length]; simp [hr]
    · intro k hk
      have hk' : k < ind.length := by simpa [hr] using hk
      rw [reix_shape_getD _ _ _ _ _ hk']
      by_cases e : axis = k
      · subst e; rw [getD_set_eq _ _ _ _ (by omega), if_pos hon, hlen]
      · rw [getD_set_ne _ _ _ _ _ e, hoff k hk' (fun h => e h.symm)]; rfl
  refine ⟨hs, ?_⟩
  intro i hi
  simp only [takeArr] at hi ⊢
  have hil : i.length = ind.length := by
    have := InB.length_eq hi
    simpa [hr] using this
  simp only [reix]
  congr 1
  apply list_ext_getD
  · simp [hil]
  · intro k hk
    have hk' : k < ind.length := by simpa [hil] using hk
    rw [getD_rangeMap _ _ _ _ hk']
    by_cases e : axis = k
    · subst e; rw [getD_set_eq _ _ _ _ (by omega), if_pos hon, hmap]
    · rw [getD_set_ne _ _ _ _ _ e, hoff k hk' (fun h => e h.symm)]; rfl

theorem idxOf_of_count_le_one (l : Nat) : ∀ (ind : List Nat) (k : Nat), k < ind.length → ind.getD k 0 = l →
    ind.count l ≤ 1 → ind.idxOf l = k
  | [], k, h, _, _ => by simp at h
  | x :: xs, 0, _, h, _ => by
    have : x = l := by simpa using h
    subst this; simp
  | x :: xs, k + 1, hk, h, hc => by
    have hk' : k < xs.length := by simpa using hk
    have h' : xs.getD k 0 = l := by simpa using h
    have hmem : l ∈ xs := h' ▸ getD_mem xs k 0 hk'
    have hpos : 0 < xs.count l := List.count_pos_iff.mpr hmem
    rw [List.count_cons] at hc
    have hx : (x == l) = false := by
      cases hb : (x == l) with
      | false => rfl
      | true => rw [hb] at hc; simp at hc; omega
    rw [hx] at hc
    rw [List.idxOf_cons, hx]
    simp only [cond_false]
    rw [idxOf_of_count_le_one l xs k hk' h' (by simpa using hc)]

/-! ### the gate -/

def takeR (bw : BW) (axis : Nat) (flat : List Nat) : Reix :=
  { act := fun l => decide (axis < bw.outInd.length) && l == bw.outInd.getD axis 0
    len := fun _ => flat.length
    map := fun _ x => flat.getD x 0 }

structure TakeGate (U : Nat → List Nat) (bw : BW) (axis : Nat) : Prop where
  newFree : bw.newAxes.lookup (bw.outInd.getD axis 0) = none
  ops : ∀ o ∈ bw.ops, ∀ ind, o.ind = some ind → bw.outInd.getD axis 0 ∈ ind →
    o.isArr = true ∧ ind.count (bw.outInd.getD axis 0) ≤ 1 ∧
    o.arr.shape.getD (ind.idxOf (bw.outInd.getD axis 0)) 0 = (outShape U bw).getD axis 0 ∧
    (!bw.align && decide (o.chunks.getD (ind.idxOf (bw.outInd.getD axis 0)) [] ≠ (outChunks U bw).getD axis [])) = false

/-- the operand after the push -/
def pushedOpdT (bw : BW) (axis : Nat) (indexer : List (List Nat)) (o : Opd) : Opd :=
  match o.ind with
  | none => o
  | some ind =>
    if ind.contains (bw.outInd.getD axis 0) then takeOpd indexer o (some (ind.idxOf (bw.outInd.getD axis 0))) else o

theorem acceptShuffle_some (U : Nat → List Nat) (bw : BW) (hadj : bw.adjust = []) (axis : Nat)
    (axes : List (Option Nat)) (h : acceptShuffleG {} U bw axis = some axes) :
    TakeGate U bw axis ∧ axes = bw.ops.map (fun o => (shuffleArg {} U bw axis o).getD none) := by
  unfold acceptShuffleG at h
  simp only [hadj, List.isEmpty_nil, Bool.not_true, Bool.false_and, Bool.false_eq_true, if_false] at h
  split at h
  · simp at h
  split at h
  · simp at h
  rename_i hcc hnew
  split at h
  · rename_i hall
    simp only [Option.some.injEq] at h
    have hargs : ∀ o ∈ bw.ops, (shuffleArg {} U bw axis o).isSome = true := List.all_eq_true.mp hall
    refine ⟨⟨?_, ?_⟩, h.symm⟩
    · by_cases he : bw.newAxes.isEmpty = true
      · exact lookup_isSome_false_of_empty _ _ he
      · cases hlk : bw.newAxes.lookup (bw.outInd.getD axis 0) with
        | none => rfl
        | some v =>
          have he' : bw.newAxes.isEmpty = false := by simpa using he
          exact absurd (by rw [hlk, he']; rfl) hnew
    · intro o ho ind hind hmem
      have := hargs o ho
      have hc : ind.contains (bw.outInd.getD axis 0) = true := by simpa using hmem
      simp only [shuffleArg, hind, hc, if_true, Bool.true_and] at this
      split at this
      · simp at this
      split at this
      · simp at this
      split at this
      · simp at this
      split at this
      · simp at this
      rename_i h1 h2 h3 h4
      refine ⟨by simpa using h1, by simpa using h2, by simpa using h3, by simpa using h4⟩
  · simp at h

theorem push_take_unpack (U : Nat → List Nat) (bw : BW) (hadj : bw.adjust = []) (axis : Nat)
    (indexer : List (List Nat)) (p : Pushed) (hp : push U bw (.take axis indexer) = some p) :
    TakeGate U bw axis ∧ p.bw = { bw with ops := bw.ops.map (pushedOpdT bw axis indexer) } ∧ p.extract = none := by
  simp only [push, pushG] at hp
  split at hp
  · rename_i axes heq
    obtain ⟨hG, haxes⟩ := acceptShuffle_some U bw hadj axis axes heq
    simp only [Option.some.injEq] at hp
    refine ⟨hG, ?_, by rw [← hp]⟩
    rw [← hp, haxes]
    simp only
    congr 1
    rw [zipWith_map_right']
    apply List.map_congr_left
    intro o ho
    unfold pushedOpdT
    cases hind : o.ind with
    | none => simp [shuffleArg, hind, takeOpd]
    | some ind =>
      by_cases hc : ind.contains (bw.outInd.getD axis 0) = true
      · obtain ⟨h1, h2, h3, h4⟩ := hG.ops o ho ind hind (by simpa using hc)
        have h2' : ¬ (ind.count (bw.outInd.getD axis 0) > 1) := by omega
        simp only [shuffleArg, hind, hc, if_true, h1, Bool.not_true, Bool.and_false, Bool.false_eq_true,
          if_false, Bool.true_and, h2', decide_false, h3, ne_eq, not_true_eq_false, h4, Option.getD_some]
      · simp only [shuffleArg, hind, hc, Bool.false_eq_true, if_false, Option.getD_some, takeOpd]
  · simp at hp

theorem takeR_act (bw : BW) (axis : Nat) (flat : List Nat) (l : Nat) :
    (takeR bw axis flat).act l = true ↔ axis < bw.outInd.length ∧ l = bw.outInd.getD axis 0 := by
  simp [takeR]

theorem outShape_axis (U : Nat → List Nat) (bw : BW) (hS : SOK bw) (hL : LOK U bw) (axis : Nat)
    (hax : axis < bw.outInd.length) (hnew : bw.newAxes.lookup (bw.outInd.getD axis 0) = none) :
    (outShape U bw).getD axis 0 = labLen bw (bw.outInd.getD axis 0) := by
  have := outShape_getD U bw hS hL _ (getD_mem _ _ _ hax) hnew
  rwa [idxOf_getD_of_nodup _ hS.nodup axis hax] at this

theorem takeGate_axis (U : Nat → List Nat) (bw : BW) (hS : SOK bw) (hL : LOK U bw) (axis : Nat)
    (hax : axis < bw.outInd.length) (hG : TakeGate U bw axis) (o : Opd) (ho : o ∈ bw.ops) (k : Nat)
    (hk : k < o.labels.length) (hl : o.labels.getD k 0 = bw.outInd.getD axis 0) :
    o.labels.idxOf (bw.outInd.getD axis 0) = k ∧
    o.arr.shape.getD k 0 = labLen bw (bw.outInd.getD axis 0) := by
  cases hind : o.ind with
  | none => simp [Opd.labels, hind] at hk
  | some ind =>
    have hlabs : o.labels = ind := by simp [Opd.labels, hind]
    rw [hlabs] at hk hl ⊢
    have hmem : bw.outInd.getD axis 0 ∈ ind := hl ▸ getD_mem ind k 0 hk
    obtain ⟨_, h2, h3, _⟩ := hG.ops o ho ind hind hmem
    have hidx := idxOf_of_count_le_one _ ind k hk hl h2
    rw [hidx] at h3
    exact ⟨hidx, by rw [h3, outShape_axis U bw hS hL axis hax hG.newFree]⟩

theorem takeR_ok (U : Nat → List Nat) (bw : BW) (hS : SOK bw) (hL : LOK U bw) (axis : Nat)
    (indexer : List (List Nat)) (hI : indexOK (outShape U bw) (.take axis indexer) = true)
    (hG : TakeGate U bw axis) : ReixOK (takeR bw axis indexer.flatten) bw := by
  simp only [indexOK, Bool.and_eq_true, decide_eq_true_eq, List.all_eq_true] at hI
  rw [outShape_length] at hI
  refine ⟨?_, ?_, ?_⟩
  · intro l hact
    obtain ⟨hax, e⟩ := (takeR_act bw axis _ l).mp hact
    subst e
    exact (point_iff bw hS _).mpr ⟨getD_mem _ _ _ hax, hG.newFree⟩
  · intro l hact x hx
    obtain ⟨hax, e⟩ := (takeR_act bw axis _ l).mp hact
    subst e
    simp only [takeR] at hx ⊢
    have := hI.2 _ (getD_mem _ x 0 hx)
    rwa [outShape_axis U bw hS hL axis hax hG.newFree] at this
  · intro l hact p hp e
    obtain ⟨hax, el⟩ := (takeR_act bw axis _ l).mp hact
    subst el
    obtain ⟨o, ho, k, hk1, _, ep⟩ := (mem_lenPairs _ _).mp hp
    have hl : o.labels.getD k 0 = bw.outInd.getD axis 0 := by rw [ep] at e; exact e
    rw [ep]
    exact (takeGate_axis U bw hS hL axis hax hG o ho k hk1 hl).2

/-- the pushed operand is the operand re-indexed by `takeR` -/
theorem pushedOpdT_arr (U : Nat → List Nat) (bw : BW) (hS : SOK bw) (hL : LOK U bw) (axis : Nat)
    (hax : axis < bw.outInd.length) (indexer : List (List Nat)) (hG : TakeGate U bw axis) (o : Opd) (ho : o ∈ bw.ops) :
    Arr.Equiv (pushedOpdT bw axis indexer o).arr
      (reix (takeR bw axis indexer.flatten) (labLen bw) o.labels o.arr) := by
  have hr := (hS.rank o ho).1
  have hoffk : ∀ k, k < o.labels.length → o.labels.getD k 0 ≠ bw.outInd.getD axis 0 →
      (takeR bw axis indexer.flatten).on (labLen bw) (o.labels.getD k 0) (o.arr.shape.getD k 0) = false := by
    intro k _ hne
    have : (takeR bw axis indexer.flatten).act (o.labels.getD k 0) = false := by
      rw [Bool.eq_false_iff]; intro h; exact hne ((takeR_act _ _ _ _).mp h).2
    simp only [Reix.on, this, Bool.false_and]
  unfold pushedOpdT
  cases hind : o.ind with
  | none =>
    apply reix_off _ _ _ _ hr
    intro k hk
    simp [Opd.labels, hind] at hk
  | some ind =>
    have hlabs : o.labels = ind := by simp [Opd.labels, hind]
    simp only
    by_cases hc : ind.contains (bw.outInd.getD axis 0) = true
    · rw [if_pos hc]
      have hmem : bw.outInd.getD axis 0 ∈ ind := by simpa using hc
      have ha : ind.idxOf (bw.outInd.getD axis 0) < ind.length := List.idxOf_lt_length_of_mem hmem
      have hla : ind.getD (ind.idxOf (bw.outInd.getD axis 0)) 0 = bw.outInd.getD axis 0 := getD_idxOf _ _ hmem
      simp only [takeOpd]
      rw [hlabs] at hr hoffk ⊢
      have hsh := (takeGate_axis U bw hS hL axis hax hG o ho _ (by rw [hlabs]; exact ha) (by rw [hlabs]; exact hla)).2
      apply takeArr_eq_reix _ _ _ _ _ _ hr ha
      · simp only [Reix.on, Bool.and_eq_true, beq_iff_eq]
        rw [hla]
        exact ⟨(takeR_act _ _ _ _).mpr ⟨hax, rfl⟩, hsh⟩
      · rfl
      · intro _; rfl
      · intro k hk hne
        apply hoffk k hk
        intro e
        have := (takeGate_axis U bw hS hL axis hax hG o ho k (by rw [hlabs]; exact hk) (by rw [hlabs]; exact e)).1
        rw [hlabs] at this
        exact hne this.symm
    · rw [if_neg hc]
      apply reix_off _ _ _ _ hr
      intro k hk
      apply hoffk k hk
      intro e
      rw [hlabs] at hk e
      have hm := getD_mem ind k 0 hk
      rw [e] at hm
      exact hc (by simpa using hm)

theorem pushedT_reindexed (U : Nat → List Nat) (bw : BW) (hS : SOK bw) (hL : LOK U bw) (axis : Nat)
    (hax : axis < bw.outInd.length) (indexer : List (List Nat)) (hG : TakeGate U bw axis) :
    Reindexed (takeR bw axis indexer.flatten) bw { bw with ops := bw.ops.map (pushedOpdT bw axis indexer) } := by
  have hget : ∀ t, t < bw.ops.length →
      (List.map (pushedOpdT bw axis indexer) bw.ops).getD t dO = pushedOpdT bw axis indexer (bw.ops.getD t dO) :=
    fun t ht => getD_map _ bw.ops t dO dO ht
  refine ⟨rfl, rfl, rfl, rfl, by simp, ?_, ?_, ?_, ?_, ?_⟩
  · intro t ht
    simp only; rw [hget t ht]
    unfold pushedOpdT
    cases hind : (bw.ops.getD t dO).ind with
    | none => exact hind
    | some ind =>
      simp only
      split
      · exact hind
      · exact hind
  · intro t ht
    simp only; rw [hget t ht]
    unfold pushedOpdT
    cases (bw.ops.getD t dO).ind with
    | none => rfl
    | some ind =>
      simp only
      split <;> rfl
  · intro t ht
    simp only; rw [hget t ht]
    unfold pushedOpdT
    cases (bw.ops.getD t dO).ind with
    | none => rfl
    | some ind =>
      simp only
      split <;> rfl
  · intro t ht
    simp only; rw [hget t ht]
    have hr := hS.rank _ (getD_mem bw.ops t dO ht)
    unfold pushedOpdT
    cases hind : (bw.ops.getD t dO).ind with
    | none => exact hr.2.1
    | some ind =>
      simp only
      split
      · simp only [takeOpd, List.length_set]; exact hr.2.1
      · exact hr.2.1
  · intro t ht
    simp only; rw [hget t ht]
    exact pushedOpdT_arr U bw hS hL axis hax indexer hG _ (getD_mem bw.ops t dO ht)

/-! ### unaligned nodes: the operands stay paired -/

theorem pushedOpdT_labels (bw : BW) (axis : Nat) (indexer : List (List Nat)) (o : Opd) :
    (pushedOpdT bw axis indexer o).labels = o.labels := by
  unfold pushedOpdT Opd.labels
  cases hind : o.ind with
  | none => simp [hind]
  | some ind =>
    simp only
    split
    · simp [takeOpd, hind]
    · simp [hind]

/-- with `align_arrays=False` every operand axis that carries the take label gets the same new chunks: the
regrouping of the NODE's chunks of that label -/
theorem take_pairing (U : Nat → List Nat) (bw : BW) (hS : SOK bw) (hL : LOK U bw) (axis : Nat)
    (hax : axis < bw.outInd.length) (indexer : List (List Nat)) (hG : TakeGate U bw axis) (hna : bw.align = false)
    (o : Opd) (ho : o ∈ bw.ops) (k : Nat) (hk : k < o.labels.length)
    (hl : o.labels.getD k 0 = bw.outInd.getD axis 0) :
    (pushedOpdT bw axis indexer o).chunks.getD k [] = shuffleChunks ((outChunks U bw).getD axis []) indexer := by
  obtain ⟨hr1, hr2, _⟩ := hS.rank o ho
  have hidx := (takeGate_axis U bw hS hL axis hax hG o ho k hk hl).1
  cases hind : o.ind with
  | none => simp [Opd.labels, hind] at hk
  | some ind =>
    have hlabs : o.labels = ind := by simp [Opd.labels, hind]
    rw [hlabs] at hk hl hidx hr1
    have hmem : bw.outInd.getD axis 0 ∈ ind := hl ▸ getD_mem ind k 0 hk
    obtain ⟨_, _, _, h4⟩ := hG.ops o ho ind hind hmem
    rw [hidx, hna] at h4
    simp only [Bool.not_false, Bool.true_and, decide_eq_false_iff_not, ne_eq, Decidable.not_not] at h4
    unfold pushedOpdT
    rw [hind]
    have hc : ind.contains (bw.outInd.getD axis 0) = true := by simpa using hmem
    simp only [hc, if_true, takeOpd, hidx]
    rw [getD_set_eq _ _ _ _ (by omega), h4]

/-- **The take pushdown is sound** (Prop-level hypotheses). -/
theorem push_sound_take (U U' : Nat → List Nat) (bw : BW) (hS : SOK bw) (hL : LOK U bw)
    (hf : LabelLocal bw.sig bw.f) (axis : Nat) (indexer : List (List Nat))
    (hI : indexOK (outShape U bw) (.take axis indexer) = true) (p : Pushed)
    (hp : push U bw (.take axis indexer) = some p) (hL' : LOK U' p.bw) :
    SOK p.bw ∧ Arr.Equiv (denPushed U' p) (applyIndex bw.outInd.length (den U bw) (.take axis indexer)) := by
  obtain ⟨hG, hbw, hex⟩ := push_take_unpack U bw hS.noAdj axis indexer p hp
  have hax : axis < bw.outInd.length := by
    simp only [indexOK, Bool.and_eq_true, decide_eq_true_eq] at hI
    rw [outShape_length] at hI; exact hI.1
  have hRe := pushedT_reindexed U bw hS hL axis hax indexer hG
  rw [← hbw] at hRe
  have hR := takeR_ok U bw hS hL axis indexer hI hG
  refine ⟨sok_reindexed hS hR hRe, ?_⟩
  have hD := den_reindexed U U' hS hL hf hR hRe hL'
  have hO : Arr.Equiv (takeArr (den U bw) axis indexer.flatten)
      (reix (takeR bw axis indexer.flatten) (labLen bw) bw.outInd (den U bw)) := by
    have hshape : (den U bw).shape = outShape U bw := rfl
    apply takeArr_eq_reix _ _ _ _ _ _ (by rw [hshape, outShape_length]) hax
    · simp only [Reix.on, Bool.and_eq_true, beq_iff_eq]
      refine ⟨(takeR_act _ _ _ _).mpr ⟨hax, rfl⟩, ?_⟩
      rw [hshape, outShape_axis U bw hS hL axis hax hG.newFree]
    · rfl
    · intro _; rfl
    · intro k hk hne
      have : (takeR bw axis indexer.flatten).act (bw.outInd.getD k 0) = false := by
        rw [Bool.eq_false_iff]; intro h
        have e := ((takeR_act _ _ _ _).mp h).2
        have h1 := idxOf_getD_of_nodup _ hS.nodup k hk
        have h2 := idxOf_getD_of_nodup _ hS.nodup axis hax
        rw [e, h2] at h1
        exact hne h1.symm
      simp only [Reix.on, this, Bool.false_and]
  unfold denPushed
  rw [hex]
  simp only [applyIndex]
  exact hD.trans hO.symm

/-- **Unaligned nodes stay paired (takes).** -/
theorem take_pairing_all (U : Nat → List Nat) (bw : BW) (hS : SOK bw) (hL : LOK U bw) (axis : Nat)
    (indexer : List (List Nat)) (hI : indexOK (outShape U bw) (.take axis indexer) = true) (p : Pushed)
    (hna : bw.align = false) (hp : push U bw (.take axis indexer) = some p) (l : Nat)
    (hl : l ∈ indexedLabels bw (.take axis indexer)) :
    ∃ c, ∀ o ∈ p.bw.ops, ∀ k, k < o.labels.length → o.labels.getD k 0 = l → o.chunks.getD k [] = c := by
  obtain ⟨hG, hbw, _⟩ := push_take_unpack U bw hS.noAdj axis indexer p hp
  have hax : axis < bw.outInd.length := by
    simp only [indexOK, Bool.and_eq_true, decide_eq_true_eq] at hI
    rw [outShape_length] at hI; exact hI.1
  have hle : l = bw.outInd.getD axis 0 := by simpa [indexedLabels] using hl
  refine ⟨shuffleChunks ((outChunks U bw).getD axis []) indexer, ?_⟩
  intro o' ho' k hk hlab
  rw [hbw] at ho'
  obtain ⟨o, ho, e⟩ := List.mem_map.mp ho'
  subst e
  rw [pushedOpdT_labels] at hk hlab
  exact take_pairing U bw hS hL axis hax indexer hG hna o ho k hk (hlab.trans hle)

end Dask.BWG
