/-
Proofs about the chunk-unification model (Model/Unify.lean).  Core Lean only.
-/
import DaskArrayModel.Model.Unify
namespace Dask.Lemmas.Unify
open Dask.Py Dask.Unify

/-! ### basic facts -/

theorem mem_dedupe (x : Layout) : ∀ l : List Layout, x ∈ dedupe l ↔ x ∈ l
  | [] => by simp [dedupe]
  | y :: ys => by
    have ih := mem_dedupe x ys
    unfold dedupe
    by_cases h : y ∈ ys
    · simp only [h, if_true, ih, List.mem_cons]
      constructor
      · intro hx; exact Or.inr hx
      · rintro (rfl | hx)
        · exact h
        · exact hx
    · simp only [h, if_false, List.mem_cons, ih]

theorem mem_nonTrivial (x : Layout) (bd : List Layout) :
    x ∈ nonTrivial bd ↔ x ∈ bd ∧ x.length > 1 := by
  unfold nonTrivial
  rw [mem_dedupe, List.mem_filter]
  simp

theorem imax_nonneg : ∀ l : List Int, 0 ≤ imax l
  | [] => by simp [imax]
  | x :: xs => by
    have := imax_nonneg xs
    simp only [imax]; omega

theorem le_imax : ∀ (l : List Int) (x : Int), x ∈ l → x ≤ imax l
  | [], _, h => by cases h
  | y :: ys, x, h => by
    simp only [imax]
    rcases List.mem_cons.mp h with rfl | h
    · omega
    · have := le_imax ys x h; omega

theorem imax_le (l : List Int) (b : Int) (hb : 0 ≤ b) (h : ∀ x ∈ l, x ≤ b) : imax l ≤ b := by
  induction l with
  | nil => simpa [imax] using hb
  | cons y ys ih =>
    simp only [imax]
    have h1 := h y (List.mem_cons_self)
    have h2 := ih (fun x hx => h x (List.mem_cons_of_mem _ hx))
    omega

theorem isum_zero_of_all_zero : ∀ c : List Int, (∀ x ∈ c, x = 0) → isum c = 0
  | [], _ => rfl
  | x :: xs, h => by
    have h1 := h x List.mem_cons_self
    have h2 := isum_zero_of_all_zero xs (fun y hy => h y (List.mem_cons_of_mem _ hy))
    simp only [isum]; omega

theorem isum_nonneg : ∀ c : List Int, (∀ x ∈ c, 0 ≤ x) → 0 ≤ isum c
  | [], _ => by simp [isum]
  | x :: xs, h => by
    have h1 := h x List.mem_cons_self
    have h2 := isum_nonneg xs (fun y hy => h y (List.mem_cons_of_mem _ hy))
    simp only [isum]; omega

theorem all_zero_of_isum_zero : ∀ c : List Int, (∀ x ∈ c, 0 ≤ x) → isum c = 0 → ∀ x ∈ c, x = 0
  | [], _, _ => by intro x hx; cases hx
  | y :: ys, h, hs => by
    have h1 := h y List.mem_cons_self
    have h2 := isum_nonneg ys (fun z hz => h z (List.mem_cons_of_mem _ hz))
    simp only [isum] at hs
    intro x hx
    rcases List.mem_cons.mp hx with rfl | hx
    · omega
    · exact all_zero_of_isum_zero ys (fun z hz => h z (List.mem_cons_of_mem _ hz)) (by omega) x hx

/-! ### boundaries -/

theorem zero_mem_bnds : ∀ l : Layout, (0 : Int) ∈ bnds l
  | [] => by simp [bnds]
  | _ :: _ => by simp [bnds]

theorem isum_mem_bnds : ∀ l : Layout, isum l ∈ bnds l
  | [] => by simp [bnds, isum]
  | x :: xs => by
    simp only [bnds, isum, List.mem_cons, List.mem_map]
    exact Or.inr ⟨isum xs, isum_mem_bnds xs, rfl⟩

theorem mem_bnds_cons (x b : Int) (xs : Layout) :
    b ∈ bnds (x :: xs) ↔ b = 0 ∨ ∃ b', b' ∈ bnds xs ∧ b = x + b' := by
  simp only [bnds, List.mem_cons, List.mem_map]
  constructor
  · rintro (h | ⟨b', h1, h2⟩)
    · exact Or.inl h
    · exact Or.inr ⟨b', h1, h2.symm⟩
  · rintro (h | ⟨b', h1, h2⟩)
    · exact Or.inl h
    · exact Or.inr ⟨b', h1, h2.symm⟩

theorem bnds_all_zero : ∀ c : Layout, (∀ x ∈ c, x = 0) → ∀ b ∈ bnds c, b = 0
  | [], _, b, hb => by simpa [bnds] using hb
  | x :: xs, h, b, hb => by
    rcases (mem_bnds_cons x b xs).mp hb with h0 | ⟨b', hb', rfl⟩
    · exact h0
    · have := bnds_all_zero xs (fun y hy => h y (List.mem_cons_of_mem _ hy)) b' hb'
      have := h x List.mem_cons_self
      omega

/-! ### consequences of `Splits` -/

theorem splits_isum {f c : Layout} (h : Splits f c) : isum f = isum c := by
  induction h with
  | done c hz => simp [isum, isum_zero_of_all_zero c hz]
  | full m f c _ ih => simp only [isum, ih]
  | part m x f c _ _ _ ih => simp only [isum] at ih ⊢; omega

/-- only splits: every boundary of `c` is a boundary of `f` -/
theorem splits_bnds {f c : Layout} (h : Splits f c) : ∀ b ∈ bnds c, b ∈ bnds f := by
  induction h with
  | done c hz =>
    intro b hb
    have := bnds_all_zero c hz b hb
    subst this; exact zero_mem_bnds []
  | full m f c _ ih =>
    intro b hb
    rcases (mem_bnds_cons m b c).mp hb with h0 | ⟨b', hb', rfl⟩
    · subst h0; exact zero_mem_bnds _
    · exact (mem_bnds_cons m _ f).mpr (Or.inr ⟨b', ih b' hb', rfl⟩)
  | part m x f c _ _ _ ih =>
    intro b hb
    rcases (mem_bnds_cons x b c).mp hb with h0 | ⟨b', hb', rfl⟩
    · subst h0; exact zero_mem_bnds _
    · have h1 : (x - m) + b' ∈ bnds ((x - m) :: c) :=
        (mem_bnds_cons (x - m) _ c).mpr (Or.inr ⟨b', hb', rfl⟩)
      exact (mem_bnds_cons m _ f).mpr (Or.inr ⟨(x - m) + b', ih _ h1, by omega⟩)

/-- only splits: no block of `f` is larger than the largest block of `c` -/
theorem splits_imax {f c : Layout} (h : Splits f c) : imax f ≤ imax c := by
  induction h with
  | done c _ => simpa [imax] using imax_nonneg c
  | full m f c _ ih => simp only [imax]; omega
  | part m x f c _ _ _ ih => simp only [imax] at ih ⊢; omega

theorem splits_len {f c : Layout} (h : Splits f c) (hp : ∀ x ∈ c, 0 < x) : c.length ≤ f.length := by
  induction h with
  | done c hz =>
    cases c with
    | nil => simp
    | cons y ys =>
      have h1 := hz y List.mem_cons_self
      have h2 := hp y List.mem_cons_self
      omega
  | full m f c _ ih =>
    have := ih (fun y hy => hp y (List.mem_cons_of_mem _ hy))
    simp only [List.length_cons]; omega
  | part m x f c _ hlt _ ih =>
    have := ih (by
      intro y hy
      rcases List.mem_cons.mp hy with rfl | hy
      · omega
      · exact hp y (List.mem_cons_of_mem _ hy))
    simp only [List.length_cons] at this ⊢; omega

/-- a refinement with no more blocks than the (positive) layout it refines is that layout -/
theorem splits_eq_of_len {f c : Layout} (h : Splits f c) (hp : ∀ x ∈ c, 0 < x)
    (hl : f.length ≤ c.length) : f = c := by
  induction h with
  | done c hz =>
    cases c with
    | nil => rfl
    | cons y ys =>
      have h1 := hz y List.mem_cons_self
      have h2 := hp y List.mem_cons_self
      omega
  | full m f c _ ih =>
    have := ih (fun y hy => hp y (List.mem_cons_of_mem _ hy)) (by simpa using hl)
    rw [this]
  | part m x f c _ hlt hs _ =>
    have hp' : ∀ y ∈ (x - m) :: c, 0 < y := by
      intro y hy
      rcases List.mem_cons.mp hy with rfl | hy
      · omega
      · exact hp y (List.mem_cons_of_mem _ hy)
    have := splits_len hs hp'
    simp only [List.length_cons] at this hl; omega

theorem splits_refl : ∀ c : Layout, Splits c c
  | [] => Splits.done [] (by intro x hx; cases hx)
  | x :: xs => Splits.full x xs xs (splits_refl xs)

/-! ### the `while i < total` loop of `common_blockdim` -/

theorem minHead_spec : ∀ (rch : List Layout) (m : Int), minHead rch = some m →
    (∀ c ∈ rch, ∃ x xs, c = x :: xs ∧ m ≤ x) ∧ (∃ c ∈ rch, ∃ xs, c = m :: xs)
  | [], m, h => by simp [minHead] at h
  | [c], m, h => by
    simp only [minHead] at h
    cases c with
    | nil => simp at h
    | cons x xs =>
      simp only [List.head?_cons, Option.some.injEq] at h
      subst h
      exact ⟨by intro c hc; simp only [List.mem_singleton] at hc; subst hc; exact ⟨x, xs, rfl, Int.le_refl _⟩,
             ⟨x :: xs, by simp, xs, rfl⟩⟩
  | c :: d :: ds, m, h => by
    simp only [minHead] at h
    cases c with
    | nil => simp at h
    | cons x xs =>
      simp only [List.head?_cons] at h
      cases hb : minHead (d :: ds) with
      | none => simp [hb] at h
      | some b =>
        simp only [hb, Option.some.injEq] at h
        have ih := minHead_spec (d :: ds) b hb
        constructor
        · intro c' hc'
          rcases List.mem_cons.mp hc' with rfl | hc'
          · exact ⟨x, xs, rfl, by omega⟩
          · obtain ⟨y, ys, e, hle⟩ := ih.1 c' hc'
            exact ⟨y, ys, e, by omega⟩
        · by_cases hxb : x ≤ b
          · have : m = x := by omega
            subst this
            exact ⟨m :: xs, List.mem_cons_self, xs, rfl⟩
          · have : m = b := by omega
            subst this
            obtain ⟨c', hc', ys, e⟩ := ih.2
            exact ⟨c', List.mem_cons_of_mem _ hc', ys, e⟩

theorem minHead_some : ∀ (rch : List Layout), rch ≠ [] → (∀ c ∈ rch, c ≠ []) → ∃ m, minHead rch = some m
  | [], h, _ => absurd rfl h
  | [c], _, hne => by
    cases c with
    | nil => exact absurd rfl (hne [] (by simp))
    | cons x xs => exact ⟨x, by simp [minHead]⟩
  | c :: d :: ds, _, hne => by
    cases c with
    | nil => exact absurd rfl (hne [] (by simp))
    | cons x xs =>
      obtain ⟨b, hb⟩ := minHead_some (d :: ds) (by simp) (fun c hc => hne c (List.mem_cons_of_mem _ hc))
      exact ⟨min x b, by simp [minHead, hb]⟩

def lenSum (rch : List Layout) : Nat := (rch.map List.length).sum

theorem cbStep_len_le (m : Int) : ∀ c : Layout, (cbStep m c).length ≤ c.length
  | [] => by simp [cbStep]
  | x :: xs => by
    simp only [cbStep]; split <;> simp

theorem lenSum_step_le (m : Int) : ∀ rch : List Layout, lenSum (rch.map (cbStep m)) ≤ lenSum rch
  | [] => by simp [lenSum]
  | c :: cs => by
    have := lenSum_step_le m cs
    have := cbStep_len_le m c
    simp only [lenSum, List.map_cons, List.sum_cons] at *
    omega

theorem lenSum_step_lt (m : Int) : ∀ rch : List Layout, (∃ c ∈ rch, ∃ xs, c = m :: xs) →
    lenSum (rch.map (cbStep m)) < lenSum rch
  | [], h => by obtain ⟨c, hc, _⟩ := h; cases hc
  | c :: cs, h => by
    obtain ⟨c', hc', xs, e⟩ := h
    rcases List.mem_cons.mp hc' with rfl | hc'
    · subst e
      have := lenSum_step_le m cs
      simp only [lenSum, List.map_cons, List.sum_cons, cbStep, Int.sub_self, if_true, List.length_cons] at *
      omega
    · have := lenSum_step_lt m cs ⟨c', hc', xs, e⟩
      have := cbStep_len_le m c
      simp only [lenSum, List.map_cons, List.sum_cons] at *
      omega

theorem cbStep_facts (m x : Int) (xs : Layout) (h0 : 0 ≤ m) (hle : m ≤ x) :
    isum (cbStep m (x :: xs)) = isum (x :: xs) - m ∧
    (∀ f, Splits f (cbStep m (x :: xs)) → Splits (m :: f) (x :: xs)) ∧
    (∀ b' ∈ bnds (cbStep m (x :: xs)), b' = 0 ∨ m + b' ∈ bnds (x :: xs)) := by
  by_cases hx : x - m = 0
  · have hxm : x = m := by omega
    subst hxm
    simp only [cbStep, hx, if_true, isum]
    refine ⟨by omega, fun f hf => Splits.full _ f xs hf, ?_⟩
    intro b' hb'
    exact Or.inr ((mem_bnds_cons x _ xs).mpr (Or.inr ⟨b', hb', rfl⟩))
  · simp only [cbStep, hx, if_false, isum]
    refine ⟨by omega, fun f hf => Splits.part m x f xs h0 (by omega) hf, ?_⟩
    intro b' hb'
    rcases (mem_bnds_cons (x - m) b' xs).mp hb' with h | ⟨b'', hb'', e⟩
    · exact Or.inl h
    · exact Or.inr ((mem_bnds_cons x _ xs).mpr (Or.inr ⟨b'', hb'', by omega⟩))

theorem cbStep_nonneg (m x : Int) (xs : Layout) (hle : m ≤ x)
    (h : ∀ y ∈ x :: xs, 0 ≤ y) : ∀ y ∈ cbStep m (x :: xs), 0 ≤ y := by
  intro y hy
  simp only [cbStep] at hy
  split at hy
  · exact h y (List.mem_cons_of_mem _ hy)
  · rcases List.mem_cons.mp hy with rfl | hy
    · omega
    · exact h y (List.mem_cons_of_mem _ hy)

theorem cbStep_pos (m x : Int) (xs : Layout) (hle : m ≤ x)
    (h : ∀ y ∈ x :: xs, 0 < y) : ∀ y ∈ cbStep m (x :: xs), 0 < y := by
  intro y hy
  simp only [cbStep] at hy
  split at hy
  · exact h y (List.mem_cons_of_mem _ hy)
  · rcases List.mem_cons.mp hy with rfl | hy
    · omega
    · exact h y (List.mem_cons_of_mem _ hy)

/-- Main loop invariant.  `T = total - i` is what is left of the axis; every list in `rch` sums
to `T`. -/
theorem cbLoop_spec : ∀ (fuel : Nat) (rch : List Layout) (total i : Int),
    lenSum rch < fuel → rch ≠ [] →
    (∀ c ∈ rch, isum c = total - i) → (∀ c ∈ rch, ∀ x ∈ c, 0 ≤ x) →
    ∃ out, cbLoop fuel total i rch = .ok out ∧
      (∀ c ∈ rch, Splits out c) ∧
      (∀ b ∈ bnds out, ∃ c ∈ rch, b ∈ bnds c) ∧
      (∀ x ∈ out, 0 ≤ x) ∧
      ((∀ c ∈ rch, ∀ x ∈ c, 0 < x) → ∀ x ∈ out, 0 < x)
  | 0, rch, total, i, hf, _, _, _ => by omega
  | fuel + 1, rch, total, i, hf, hne, hsum, hnn => by
    unfold cbLoop
    by_cases hi : i < total
    · simp only [hi, if_true]
      -- every list is non-empty since its sum is positive
      have hne' : ∀ c ∈ rch, c ≠ [] := by
        intro c hc e
        have := hsum c hc
        subst e
        simp only [isum] at this; omega
      obtain ⟨m, hm⟩ := minHead_some rch hne hne'
      obtain ⟨hall, c0, hc0, xs0, e0⟩ := minHead_spec rch m hm
      have hm0 : 0 ≤ m := by
        have := hnn c0 hc0 m (by rw [e0]; exact List.mem_cons_self)
        exact this
      simp only [hm]
      have hlt := lenSum_step_lt m rch ⟨c0, hc0, xs0, e0⟩
      obtain ⟨out', hout', hsp, hb, hnn', hpos'⟩ :=
        cbLoop_spec fuel (rch.map (cbStep m)) total (i + m) (by omega)
          (by intro e; exact hne (List.map_eq_nil_iff.mp e))
          (by
            intro c' hc'
            obtain ⟨c, hc, rfl⟩ := List.mem_map.mp hc'
            obtain ⟨x, xs, rfl, hle⟩ := hall c hc
            have := (cbStep_facts m x xs hm0 hle).1
            have := hsum _ hc
            omega)
          (by
            intro c' hc'
            obtain ⟨c, hc, rfl⟩ := List.mem_map.mp hc'
            obtain ⟨x, xs, rfl, hle⟩ := hall c hc
            exact cbStep_nonneg m x xs hle (hnn _ hc))
      refine ⟨m :: out', by simp only [hout'], ?_, ?_, ?_, ?_⟩
      · intro c hc
        obtain ⟨x, xs, rfl, hle⟩ := hall c hc
        exact (cbStep_facts m x xs hm0 hle).2.1 out' (hsp _ (List.mem_map.mpr ⟨_, hc, rfl⟩))
      · intro b hb'
        rcases (mem_bnds_cons m b out').mp hb' with h | ⟨b', hb'', rfl⟩
        · subst h; exact ⟨c0, hc0, zero_mem_bnds _⟩
        · obtain ⟨c', hc', hbc'⟩ := hb b' hb''
          obtain ⟨c, hc, rfl⟩ := List.mem_map.mp hc'
          obtain ⟨x, xs, rfl, hle⟩ := hall c hc
          rcases (cbStep_facts m x xs hm0 hle).2.2 b' hbc' with h | h
          · subst h
            refine ⟨c0, hc0, ?_⟩
            rw [e0]
            exact (mem_bnds_cons m _ xs0).mpr (Or.inr ⟨0, zero_mem_bnds _, rfl⟩)
          · exact ⟨_, hc, h⟩
      · intro x hx
        rcases List.mem_cons.mp hx with rfl | hx
        · exact hm0
        · exact hnn' x hx
      · intro hp x hx
        rcases List.mem_cons.mp hx with rfl | hx
        · have := hp c0 hc0 x (by rw [e0]; exact List.mem_cons_self)
          exact this
        · refine hpos' ?_ x hx
          intro c' hc'
          obtain ⟨c, hc, rfl⟩ := List.mem_map.mp hc'
          obtain ⟨x', xs, rfl, hle⟩ := hall c hc
          exact cbStep_pos m x' xs hle (hp _ hc)
    · simp only [hi, if_false]
      refine ⟨[], rfl, ?_, ?_, (by intro x hx; cases hx), (by intro _ x hx; cases hx)⟩
      · intro c hc
        have h0 : isum c = 0 := by
          have h1 := hsum c hc
          have h2 := isum_nonneg c (hnn c hc)
          omega
        exact Splits.done c (all_zero_of_isum_zero c (hnn c hc) h0)
      · intro b hb
        obtain ⟨c, hc⟩ := List.exists_mem_of_ne_nil rch hne
        simp only [bnds, List.mem_singleton] at hb
        subst hb
        exact ⟨c, hc, zero_mem_bnds c⟩

/-! ### `common_blockdim` -/

/-- well-formed input of the consolidation functions: a non-empty collection of non-empty
layouts of one axis (equal totals `T`), sizes non-negative (zero-length chunks allowed). -/
structure WF (bd : List Layout) (T : Int) : Prop where
  ne : bd ≠ []
  nonempty : ∀ c ∈ bd, c ≠ []
  sum : ∀ c ∈ bd, isum c = T
  nonneg : ∀ c ∈ bd, ∀ x ∈ c, 0 ≤ x

theorem foldl_pick_mem {α} (p : α → α → Bool) : ∀ (ds : List α) (d : α),
    ds.foldl (fun best e => if p e best then e else best) d ∈ d :: ds
  | [], d => by simp
  | e :: es, d => by
    simp only [List.foldl_cons]
    have := foldl_pick_mem p es (if p e d then e else d)
    rcases List.mem_cons.mp this with h | h
    · rw [h]; split <;> simp
    · exact List.mem_cons_of_mem _ (List.mem_cons_of_mem _ h)

theorem imax_le_isum : ∀ l : List Int, (∀ x ∈ l, 0 ≤ x) → imax l ≤ isum l
  | [], _ => by simp [imax, isum]
  | x :: xs, h => by
    have h1 := h x List.mem_cons_self
    have h2 := imax_le_isum xs (fun y hy => h y (List.mem_cons_of_mem _ hy))
    have h3 := isum_nonneg xs (fun y hy => h y (List.mem_cons_of_mem _ hy))
    simp only [imax, isum]; omega

theorem anyTruthy_of_wf {bd : List Layout} {T : Int} (h : WF bd T) : anyTruthy bd = true := by
  obtain ⟨c, hc⟩ := List.exists_mem_of_ne_nil bd h.ne
  unfold anyTruthy
  rw [List.any_eq_true]
  refine ⟨c, hc, ?_⟩
  have := h.nonempty c hc
  cases c with
  | nil => exact absurd rfl this
  | cons _ _ => rfl

theorem trivial_eq {bd : List Layout} {T : Int} (h : WF bd T) (c : Layout) (hc : c ∈ bd)
    (hl : ¬ c.length > 1) : c = [T] := by
  have hne := h.nonempty c hc
  have hs := h.sum c hc
  match c, hne, hs, hl with
  | [x], _, hs, _ => simp only [isum] at hs; rw [← hs]; simp
  | _ :: _ :: _, _, _, hl => simp at hl

theorem bnds_single_sub (T : Int) (r : Layout) (hr : isum r = T) : ∀ b ∈ bnds [T], b ∈ bnds r := by
  intro b hb
  simp only [bnds, List.map_cons, List.map_nil, List.mem_cons, List.not_mem_nil, or_false] at hb
  rcases hb with rfl | rfl
  · exact zero_mem_bnds r
  · rw [← hr]; simpa using isum_mem_bnds r

/-- everything the rest of the development needs about `commonBlockdim` -/
structure CommonSpec (bd : List Layout) (T : Int) (r : Layout) : Prop where
  sum : isum r = T
  refines : ∀ c ∈ bd, ∀ b ∈ bnds c, b ∈ bnds r
  union : ∀ b ∈ bnds r, ∃ c ∈ bd, b ∈ bnds c
  splits : ∀ c ∈ bd, c.length > 1 → Splits r c
  nonneg : ∀ x ∈ r, 0 ≤ x
  pos : (∀ c ∈ bd, ∀ x ∈ c, 0 < x) → ∀ x ∈ r, 0 < x
  imax_le : ∀ c ∈ bd, imax r ≤ imax c

theorem commonBlockdim_ok {bd : List Layout} {T : Int} (h : WF bd T) :
    ∃ r, commonBlockdim bd = .ok r ∧ CommonSpec bd T r := by
  unfold commonBlockdim
  simp only [anyTruthy_of_wf h, Bool.not_true, Bool.false_eq_true, if_false]
  -- facts shared by the cases
  have key : ∀ r, isum r = T → (∀ x ∈ r, 0 ≤ x) →
      (∀ c ∈ bd, c.length > 1 → Splits r c) → (∀ b ∈ bnds r, ∃ c ∈ bd, b ∈ bnds c) →
      ((∀ c ∈ bd, ∀ x ∈ c, 0 < x) → ∀ x ∈ r, 0 < x) → CommonSpec bd T r := by
    intro r hsum hnn hsp hun hpos
    refine ⟨hsum, ?_, hun, hsp, hnn, hpos, ?_⟩
    · intro c hc
      by_cases hl : c.length > 1
      · exact splits_bnds (hsp c hc hl)
      · rw [trivial_eq h c hc hl]; exact bnds_single_sub T r hsum
    · intro c hc
      by_cases hl : c.length > 1
      · exact splits_imax (hsp c hc hl)
      · rw [trivial_eq h c hc hl]
        have := imax_le_isum r hnn
        simp only [imax]; omega
  cases hnt : nonTrivial bd with
  | nil =>
    simp only
    have htriv : ∀ c ∈ bd, c = [T] := by
      intro c hc
      apply trivial_eq h c hc
      intro hl
      have : c ∈ nonTrivial bd := (mem_nonTrivial c bd).mpr ⟨hc, hl⟩
      rw [hnt] at this; cases this
    unfold maxByFirst
    have hany : (bd.any fun d => d.isEmpty) = false := by
      rw [List.any_eq_false]
      intro c hc
      rw [htriv c hc]; simp
    simp only [hany, Bool.false_eq_true, if_false]
    cases hbd : bd with
    | nil => exact absurd hbd h.ne
    | cons d ds =>
      simp only
      have hmem := foldl_pick_mem (fun e best : Layout => decide (e.headD 0 > best.headD 0)) ds d
      simp only [decide_eq_true_eq] at hmem
      rw [← hbd] at hmem
      have hr := htriv _ hmem
      refine ⟨_, rfl, ?_⟩
      rw [← hbd, hr]
      have hT : 0 ≤ T := by
        have := h.nonneg _ hmem T (by rw [hr]; simp)
        exact this
      apply key
      · simp [isum]
      · intro x hx; simp only [List.mem_singleton] at hx; subst hx; exact hT
      · intro c hc hl; rw [htriv c hc] at hl; simp at hl
      · intro b hb; exact ⟨_, hmem, by rw [hr]; exact hb⟩
      · intro hp x hx
        simp only [List.mem_singleton] at hx; subst hx
        exact hp _ hmem x (by rw [hr]; simp)
  | cons d ds =>
    have hd : d ∈ bd ∧ d.length > 1 := (mem_nonTrivial d bd).mp (by rw [hnt]; exact List.mem_cons_self)
    cases ds with
    | nil =>
      simp only
      refine ⟨d, rfl, ?_⟩
      apply key
      · exact h.sum d hd.1
      · exact h.nonneg d hd.1
      · intro c hc hl
        have : c ∈ nonTrivial bd := (mem_nonTrivial c bd).mpr ⟨hc, hl⟩
        rw [hnt] at this
        simp only [List.mem_singleton] at this
        subst this; exact splits_refl c
      · intro b hb; exact ⟨d, hd.1, hb⟩
      · intro hp; exact hp d hd.1
    | cons d' ds' =>
      simp only
      have hmemnt : ∀ c ∈ d :: d' :: ds', c ∈ bd ∧ c.length > 1 := by
        intro c hc; rw [← hnt] at hc; exact (mem_nonTrivial c bd).mp hc
      have hall : (d :: d' :: ds').all (fun e => decide (isum e = isum d)) = true := by
        rw [List.all_eq_true]
        intro c hc
        simp only [decide_eq_true_eq]
        rw [h.sum c (hmemnt c hc).1, h.sum d hd.1]
      simp only [hall, Bool.not_true, Bool.false_eq_true, if_false]
      obtain ⟨out, hout, hsp, hun, hnn, hpos⟩ :=
        cbLoop_spec (fuelFor (d :: d' :: ds')) (d :: d' :: ds') (isum d) 0
          (by unfold fuelFor lenSum; omega) (by simp)
          (by intro c hc; rw [h.sum c (hmemnt c hc).1, h.sum d hd.1]; omega)
          (by intro c hc; exact h.nonneg c (hmemnt c hc).1)
      refine ⟨out, hout, ?_⟩
      apply key
      · rw [splits_isum (hsp d List.mem_cons_self)]; exact h.sum d hd.1
      · exact hnn
      · intro c hc hl
        apply hsp
        rw [← hnt]; exact (mem_nonTrivial c bd).mpr ⟨hc, hl⟩
      · intro b hb
        obtain ⟨c, hc, hbc⟩ := hun b hb
        exact ⟨c, (hmemnt c hc).1, hbc⟩
      · intro hp
        apply hpos
        intro c hc; exact hp c (hmemnt c hc).1

/-! ### `coarse_blockdim` -/

theorem minByLen_mem (d : Layout) (ds : List Layout) : minByLen d ds ∈ d :: ds := by
  have := foldl_pick_mem (fun e best : Layout => decide (e.length < best.length)) ds d
  simpa [minByLen] using this

theorem foldl_minlen_le : ∀ (ds : List Layout) (d : Layout),
    (ds.foldl (fun best e => if e.length < best.length then e else best) d).length ≤ d.length ∧
    ∀ c ∈ ds, (ds.foldl (fun best e => if e.length < best.length then e else best) d).length ≤ c.length
  | [], d => by simp
  | e :: es, d => by
    simp only [List.foldl_cons]
    have ih := foldl_minlen_le es (if e.length < d.length then e else d)
    have hle : (if e.length < d.length then e else d).length ≤ d.length ∧
        (if e.length < d.length then e else d).length ≤ e.length := by
      split <;> omega
    refine ⟨by omega, ?_⟩
    intro c hc
    rcases List.mem_cons.mp hc with rfl | hc
    · omega
    · exact ih.2 c hc

theorem minByLen_le (d : Layout) (ds : List Layout) : ∀ c ∈ d :: ds, (minByLen d ds).length ≤ c.length := by
  intro c hc
  have := foldl_minlen_le ds d
  rcases List.mem_cons.mp hc with rfl | hc
  · exact this.1
  · exact this.2 c hc

/-- structure of the result of `coarseBlockdim`, no hypotheses on the input -/
theorem coarseBlockdim_cases (bd : List Layout) :
    coarseBlockdim bd = commonBlockdim bd ∨
    ∃ r, coarseBlockdim bd = .ok r ∧ r ∈ bd ∧ r.length > 1 ∧
      (∀ c ∈ bd, c.length > 1 → r.length ≤ c.length) ∧
      (∀ c ∈ bd, c.length > 1 → c = r ∨ ∀ b ∈ interior r, b ∈ interior c) := by
  unfold coarseBlockdim
  by_cases hany : anyTruthy bd = true
  · simp only [hany, Bool.not_true, Bool.false_eq_true, if_false]
    cases hnt : nonTrivial bd with
    | nil => left; simp [commonBlockdim, hany, hnt]
    | cons d ds =>
      cases ds with
      | nil => left; simp [commonBlockdim, hany, hnt]
      | cons d' ds' =>
        simp only
        by_cases hall : (d :: d' :: ds').all (fun e => decide (isum e = isum d)) = true
        · simp only [hall, Bool.not_true, Bool.false_eq_true, if_false]
          by_cases hal : alignsAll (minByLen d (d' :: ds')) (d :: d' :: ds') = true
          · right
            simp only [hal, if_true]
            have hmem := minByLen_mem d (d' :: ds')
            rw [← hnt] at hmem
            have hm := (mem_nonTrivial _ bd).mp hmem
            refine ⟨_, rfl, hm.1, hm.2, ?_, ?_⟩
            · intro c hc hl
              apply minByLen_le
              rw [← hnt]; exact (mem_nonTrivial c bd).mpr ⟨hc, hl⟩
            · intro c hc hl
              have hcnt : c ∈ d :: d' :: ds' := by
                rw [← hnt]; exact (mem_nonTrivial c bd).mpr ⟨hc, hl⟩
              unfold alignsAll at hal
              rw [List.all_eq_true] at hal
              have := hal c hcnt
              simp only [Bool.or_eq_true, decide_eq_true_eq, List.all_eq_true] at this
              rcases this with h | h
              · exact Or.inl h
              · exact Or.inr h
          · left
            simp only [hal, Bool.false_eq_true, if_false]
        · left
          simp only [hall, Bool.not_false, if_true]
          simp [commonBlockdim, hany, hnt, hall]
  · left
    simp only [Bool.not_eq_true] at hany
    simp [commonBlockdim, hany]

/-! interior boundaries vs `bnds` -/

theorem cumsumFrom_shift (a : Int) : ∀ (l : List Int) (b : Int),
    b ∈ cumsumFrom a l ↔ ∃ b', b' ∈ cumsumFrom 0 l ∧ b = a + b'
  | [], b => by simp [cumsumFrom]
  | x :: xs, b => by
    simp only [cumsumFrom, List.mem_cons]
    constructor
    · rintro (h | h)
      · exact ⟨0 + x, Or.inl rfl, by omega⟩
      · obtain ⟨b', hb', e⟩ := (cumsumFrom_shift (a + x) xs b).mp h
        exact ⟨x + b', Or.inr ((cumsumFrom_shift (0 + x) xs _).mpr ⟨b', hb', by omega⟩), by omega⟩
    · rintro ⟨b', h | h, e⟩
      · exact Or.inl (by omega)
      · obtain ⟨b'', hb'', e'⟩ := (cumsumFrom_shift (0 + x) xs b').mp h
        exact Or.inr ((cumsumFrom_shift (a + x) xs b).mpr ⟨b'', hb'', by omega⟩)

/-- for a non-empty layout the boundaries are `0`, the interior boundaries, and the total -/
theorem mem_bnds_iff : ∀ (c : Layout), c ≠ [] → ∀ b,
    b ∈ bnds c ↔ (b = 0 ∨ b ∈ interior c ∨ b = isum c)
  | [], h, _ => absurd rfl h
  | [x], _, b => by
    simp [bnds, interior, cumsum, cumsumFrom, isum]
  | x :: y :: ys, _, b => by
    have ih := mem_bnds_iff (y :: ys) (by simp)
    rw [mem_bnds_cons]
    simp only [interior, cumsum, List.dropLast_cons_cons, cumsumFrom, isum, List.mem_cons] at ih ⊢
    rw [cumsumFrom_shift (0 + x)]
    constructor
    · rintro (h | ⟨b', hb', e⟩)
      · exact Or.inl h
      · rcases (ih b').mp hb' with h | h | h
        · exact Or.inr (Or.inl (Or.inl (by omega)))
        · exact Or.inr (Or.inl (Or.inr ⟨b', h, by omega⟩))
        · exact Or.inr (Or.inr (by omega))
    · rintro (h | (h | ⟨b', hb', e⟩) | h)
      · exact Or.inl h
      · exact Or.inr ⟨0, zero_mem_bnds _, by omega⟩
      · exact Or.inr ⟨b', (ih b').mpr (Or.inr (Or.inl hb')), by omega⟩
      · exact Or.inr ⟨isum (y :: ys), isum_mem_bnds _, by simp only [isum]; omega⟩

theorem bnds_sub_of_interior_sub (r c : Layout) (hr : r ≠ []) (hc : c ≠ []) (hs : isum r = isum c)
    (h : ∀ b ∈ interior r, b ∈ interior c) : ∀ b ∈ bnds r, b ∈ bnds c := by
  intro b hb
  rcases (mem_bnds_iff r hr b).mp hb with h0 | h1 | h2
  · subst h0; exact zero_mem_bnds c
  · exact (mem_bnds_iff c hc b).mpr (Or.inr (Or.inl (h b h1)))
  · exact (mem_bnds_iff c hc b).mpr (Or.inr (Or.inr (by omega)))

/-- `coarse_blockdim` on well-formed input: it succeeds, and the result is either
`commonBlockdim`'s or one of the inputs -- a non-trivial one with the fewest blocks -- every
boundary of which is a boundary of every other non-trivial input. -/
theorem coarseBlockdim_ok {bd : List Layout} {T : Int} (h : WF bd T) :
    ∃ r, coarseBlockdim bd = .ok r ∧
      (commonBlockdim bd = .ok r ∨
        (r ∈ bd ∧ r.length > 1 ∧ (∀ c ∈ bd, c.length > 1 → r.length ≤ c.length) ∧
          ∀ c ∈ bd, c.length > 1 → ∀ b ∈ bnds r, b ∈ bnds c)) := by
  rcases coarseBlockdim_cases bd with heq | ⟨r, hr, hmem, hlen, hmin, hsub⟩
  · obtain ⟨r, hr, _⟩ := commonBlockdim_ok h
    exact ⟨r, by rw [heq, hr], Or.inl hr⟩
  · refine ⟨r, hr, Or.inr ⟨hmem, hlen, hmin, ?_⟩⟩
    intro c hc hl
    rcases hsub c hc hl with rfl | hsub
    · exact fun b hb => hb
    · exact bnds_sub_of_interior_sub r c (h.nonempty r hmem) (h.nonempty c hc)
        (by rw [h.sum r hmem, h.sum c hc]) hsub

/-! ### the size guard -/

theorem worstLoop_ge_acc (lay : Nat → Layout) : ∀ (ops : List Opd) (w : Int), w ≤ worstLoop lay ops w
  | [], w => by simp [worstLoop]
  | a :: rest, w => by
    simp only [worstLoop]
    by_cases hgt : targetBytes lay a > currentBytes a
    · have := worstLoop_ge_acc lay rest (max w (targetBytes lay a))
      simp only [hgt, if_true]; omega
    · have := worstLoop_ge_acc lay rest w
      simp only [hgt, if_false]; omega

theorem worstLoop_ge (lay : Nat → Layout) : ∀ (ops : List Opd) (w : Int) (a : Opd), a ∈ ops →
    targetBytes lay a > currentBytes a → targetBytes lay a ≤ worstLoop lay ops w
  | [], _, _, h, _ => by cases h
  | a' :: rest, w, a, h, hgt => by
    simp only [worstLoop]
    rcases List.mem_cons.mp h with rfl | h
    · have := worstLoop_ge_acc lay rest
        (if targetBytes lay a > currentBytes a then max w (targetBytes lay a) else w)
      simp only [hgt, if_true] at this ⊢
      omega
    · exact worstLoop_ge lay rest _ a h hgt

theorem iprod_map_le {α} (f g : α → Int) : ∀ (l : List α), (∀ x ∈ l, 0 ≤ f x ∧ f x ≤ g x) →
    0 ≤ iprod (l.map f) ∧ iprod (l.map f) ≤ iprod (l.map g)
  | [], _ => by simp [iprod]
  | x :: xs, h => by
    have h1 := h x List.mem_cons_self
    have ih := iprod_map_le f g xs (fun y hy => h y (List.mem_cons_of_mem _ hy))
    simp only [List.map_cons, iprod]
    refine ⟨Int.mul_nonneg h1.1 ih.1, ?_⟩
    exact Int.mul_le_mul h1.2 ih.2 ih.1 (by omega)

theorem iprod_map_congr {α} (f g : α → Int) : ∀ (l : List α), (∀ x ∈ l, f x = g x) →
    iprod (l.map f) = iprod (l.map g)
  | [], _ => rfl
  | x :: xs, h => by
    simp only [List.map_cons, iprod]
    rw [h x List.mem_cons_self, iprod_map_congr f g xs (fun y hy => h y (List.mem_cons_of_mem _ hy))]

/-- **C17 limit, abstract form.**  `chunkss` are the layouts chosen before the guard (any
oracle value), `fine` the refinement.  Hypotheses: `fine` only splits every participating
operand axis (`hfine`), and a chosen layout that has at least as many blocks as the
refinement *is* the refinement (`hco`; true whenever the chosen layout is a coarsening of the
refinement -- see `C17_limit` where both are derived for the concrete model).  Then after the
guard no operand's largest block exceeds `max limit (its own largest block)`. -/
theorem sizeGuard_limit (limit : Int) (hlim : limit ≠ 0) (chunkss fine : Nat → Layout) (ops : List Opd)
    (hit : ∀ a ∈ ops, 0 ≤ a.itemsize)
    (hfine : ∀ a ∈ ops, ∀ ax ∈ a.axes, ax.live = true → imax (fine ax.label) ≤ imax ax.chunks)
    (hco : ∀ a ∈ ops, ∀ ax ∈ a.axes, ax.live = true →
      (fine ax.label).length ≤ (chunkss ax.label).length → chunkss ax.label = fine ax.label) :
    ∀ a ∈ ops, targetBytes (sizeGuard (some limit) chunkss fine ops) a ≤ max limit (currentBytes a) := by
  intro a ha
  by_cases hw : worstOf chunkss ops > limit
  · -- guard fires: every participating index ends at the refinement
    have hfin : ∀ ax ∈ a.axes.filter Ax.live,
        imax (sizeGuard (some limit) chunkss fine ops ax.label) = imax (fine ax.label) := by
      intro ax hax
      have hmem := (List.mem_filter.mp hax)
      simp only [sizeGuard, hw, hlim, ne_eq, not_false_eq_true, true_and]
      by_cases hc : coarsened chunkss fine ax.label = true
      · simp only [hc, if_true]
      · simp only [hc, Bool.false_eq_true, if_false]
        have : (fine ax.label).length ≤ (chunkss ax.label).length := by
          simp only [coarsened, decide_eq_true_eq] at hc; omega
        rw [hco a ha ax hmem.1 hmem.2 this]
    have h1 : targetBytes (sizeGuard (some limit) chunkss fine ops) a =
        a.itemsize * iprod ((a.axes.filter Ax.live).map (fun ax => imax (fine ax.label))) := by
      unfold targetBytes
      rw [iprod_map_congr _ _ _ hfin]
    have h2 := iprod_map_le (fun ax : Ax => imax (fine ax.label)) (fun ax : Ax => imax ax.chunks)
      (a.axes.filter Ax.live) (by
        intro ax hax
        have hmem := (List.mem_filter.mp hax)
        exact ⟨imax_nonneg _, hfine a ha ax hmem.1 hmem.2⟩)
    have h3 : targetBytes (sizeGuard (some limit) chunkss fine ops) a ≤ currentBytes a := by
      rw [h1]; unfold currentBytes
      exact Int.mul_le_mul_of_nonneg_left h2.2 (hit a ha)
    omega
  · -- guard does not fire: the chosen layouts stay, and `worst ≤ limit`
    have h1 : targetBytes (sizeGuard (some limit) chunkss fine ops) a = targetBytes chunkss a := by
      unfold targetBytes
      apply congrArg
      apply iprod_map_congr
      intro ax _
      simp only [sizeGuard, hw, false_and, and_false, if_false]
    rw [h1]
    by_cases hgt : targetBytes chunkss a > currentBytes a
    · have := worstLoop_ge chunkss ops 0 a ha hgt
      unfold worstOf at hw
      omega
    · omega

/-! ### the concrete per-index model `unifyModel` -/

/-- well-formed operand list: non-negative itemsizes, non-empty positive chunk tuples, and
NumPy broadcast compatibility (axes sharing an index label have the same length unless one of
them has length 1). -/
structure OpsWF (ops : List Opd) : Prop where
  itemsize : ∀ a ∈ ops, 0 ≤ a.itemsize
  nonempty : ∀ a ∈ ops, ∀ ax ∈ a.axes, ax.chunks ≠ []
  pos : ∀ a ∈ ops, ∀ ax ∈ a.axes, ∀ x ∈ ax.chunks, 0 < x
  shapes : ∀ a ∈ ops, ∀ ax ∈ a.axes, ∀ b ∈ ops, ∀ bx ∈ b.axes, ax.label = bx.label →
    ax.live = true → bx.live = true → ax.shape = bx.shape

theorem live_iff (ax : Ax) : ax.live = true ↔ isum ax.chunks > 1 := by
  unfold Ax.live Ax.shape
  exact decide_eq_true_iff

theorem look_range_map (g : Nat → Layout) (n j : Nat) (h : j < n) :
    look ((List.range n).map g) j = g j := by
  simp [look, List.getD_eq_getElem?_getD, List.getElem?_map, List.getElem?_range h]

theorem tabE_ok (f : Nat → Except Err Layout) : ∀ (n : Nat) (t : List Layout), tabE f n = .ok t →
    t.length = n ∧ ∀ j, j < n → f j = .ok (look t j)
  | 0, t, h => by
    simp only [tabE, Except.ok.injEq] at h
    subst h; exact ⟨rfl, by intro j hj; omega⟩
  | n + 1, t, h => by
    simp only [tabE] at h
    cases ht : tabE f n with
    | error e => simp [ht] at h
    | ok t' =>
      cases hv : f n with
      | error e => simp [ht, hv] at h
      | ok v =>
        simp only [ht, hv, Except.ok.injEq] at h
        subst h
        obtain ⟨hl, hj⟩ := tabE_ok f n t' ht
        refine ⟨by simp [hl], ?_⟩
        intro j hjn
        by_cases hlt : j < n
        · rw [hj j hlt]
          simp [look, List.getD_eq_getElem?_getD, List.getElem?_append_left (by omega : j < t'.length)]
        · have : j = n := by omega
          subst this
          rw [hv]
          simp [look, List.getD_eq_getElem?_getD, ← hl]

theorem mem_layoutsAt (ops : List Opd) (j : Nat) (c : Layout) :
    c ∈ layoutsAt ops j ↔ ∃ a ∈ ops, ∃ ax ∈ a.axes, ax.label = j ∧ ax.chunks = c := by
  unfold layoutsAt
  simp only [List.mem_flatMap, List.mem_map, List.mem_filter, decide_eq_true_eq]
  constructor
  · rintro ⟨a, ha, ax, ⟨hax, hl⟩, e⟩; exact ⟨a, ha, ax, hax, hl, e⟩
  · rintro ⟨a, ha, ax, hax, hl, e⟩; exact ⟨a, ha, ax, ⟨hax, hl⟩, e⟩

theorem dedupe_nodup : ∀ l : List Layout, (dedupe l).Nodup
  | [] => by simp [dedupe]
  | x :: xs => by
    unfold dedupe
    by_cases h : x ∈ xs
    · simp only [h, if_true]; exact dedupe_nodup xs
    · simp only [h, if_false, List.nodup_cons]
      exact ⟨fun hx => h ((mem_dedupe x xs).mp hx), dedupe_nodup xs⟩

theorem exists_ne_of_nodup (l : List Layout) (x : Layout) (hn : l.Nodup) (hl : l.length > 1) :
    ∃ y ∈ l, y ≠ x := by
  match l, hn, hl with
  | a :: b :: _, hn, _ =>
    have hab : a ≠ b := by
      intro e; subst e
      simp at hn
    by_cases ha : a = x
    · exact ⟨b, by simp, fun hb => hab (by rw [ha, hb])⟩
    · exact ⟨a, by simp, ha⟩

theorem eq_one_of_sum_le_one : ∀ c : Layout, c ≠ [] → (∀ x ∈ c, 0 < x) → isum c ≤ 1 → c = [1]
  | [], h, _, _ => absurd rfl h
  | [x], _, hp, hs => by
    have := hp x (by simp)
    simp only [isum] at hs
    have : x = 1 := by omega
    rw [this]
  | x :: y :: ys, _, hp, hs => by
    have h1 := hp x (by simp)
    have h2 := hp y (by simp)
    have h3 := isum_nonneg ys (fun z hz => Int.le_of_lt (hp z (by simp [hz])))
    simp only [isum] at hs
    omega

theorem mem_g2 (v : List Layout) (c : Layout) :
    c ∈ g2 v ↔ c ∈ v ∧ ((dedupe v).length > 1 → c ≠ [1]) := by
  unfold g2
  by_cases h : (dedupe v).length > 1
  · simp only [h, if_true, List.mem_filter, mem_dedupe, decide_eq_true_eq]
    constructor
    · rintro ⟨h1, h2⟩; exact ⟨h1, fun _ => h2⟩
    · rintro ⟨h1, h2⟩; exact ⟨h1, h2 trivial⟩
  · simp only [h, if_false, mem_dedupe]
    constructor
    · intro h1; exact ⟨h1, fun h' => False.elim h'⟩
    · rintro ⟨h1, _⟩; exact h1

/-- what `broadcast_dimensions` hands to the consolidation function on a used index -/
theorem g2_wf {ops : List Opd} (hwf : OpsWF ops) (j : Nat)
    (hused : ∃ a ∈ ops, ∃ ax ∈ a.axes, ax.label = j) :
    (∃ T, WF (g2 (layoutsAt ops j)) T) ∧
    (∀ c ∈ g2 (layoutsAt ops j), ∀ x ∈ c, 0 < x) ∧
    (∀ a ∈ ops, ∀ ax ∈ a.axes, ax.label = j → ax.live = true → ax.chunks ∈ g2 (layoutsAt ops j)) := by
  have hV : ∀ c ∈ g2 (layoutsAt ops j), ∃ a ∈ ops, ∃ ax ∈ a.axes, ax.label = j ∧ ax.chunks = c := by
    intro c hc
    exact (mem_layoutsAt ops j c).mp ((mem_g2 _ c).mp hc).1
  have hpos : ∀ c ∈ g2 (layoutsAt ops j), ∀ x ∈ c, 0 < x := by
    intro c hc
    obtain ⟨a, ha, ax, hax, _, e⟩ := hV c hc
    rw [← e]; exact hwf.pos a ha ax hax
  have hne : ∀ c ∈ g2 (layoutsAt ops j), c ≠ [] := by
    intro c hc
    obtain ⟨a, ha, ax, hax, _, e⟩ := hV c hc
    rw [← e]; exact hwf.nonempty a ha ax hax
  have hlive : ∀ a ∈ ops, ∀ ax ∈ a.axes, ax.label = j → ax.live = true →
      ax.chunks ∈ g2 (layoutsAt ops j) := by
    intro a ha ax hax hl hlv
    refine (mem_g2 _ _).mpr ⟨(mem_layoutsAt ops j _).mpr ⟨a, ha, ax, hax, hl, rfl⟩, ?_⟩
    intro _ e
    rw [live_iff, e] at hlv
    simp [isum] at hlv
  refine ⟨?_, hpos, hlive⟩
  by_cases hD : (dedupe (layoutsAt ops j)).length > 1
  · -- several layouts: the sentinel (1,) is removed, all that remain are live axes
    have hlv : ∀ c ∈ g2 (layoutsAt ops j), isum c > 1 := by
      intro c hc
      have hc1 := ((mem_g2 _ c).mp hc).2 hD
      have := eq_one_of_sum_le_one c (hne c hc) (hpos c hc)
      by_cases h : isum c ≤ 1
      · exact absurd (this h) hc1
      · omega
    obtain ⟨y, hy, hy1⟩ := exists_ne_of_nodup _ [1] (dedupe_nodup (layoutsAt ops j)) hD
    have hyg : y ∈ g2 (layoutsAt ops j) :=
      (mem_g2 _ y).mpr ⟨(mem_dedupe y _).mp hy, fun _ => hy1⟩
    refine ⟨isum y, ⟨?_, hne, ?_, fun c hc x hx => Int.le_of_lt (hpos c hc x hx)⟩⟩
    · intro e; rw [e] at hyg; cases hyg
    · intro c hc
      obtain ⟨a, ha, ax, hax, hl, e⟩ := hV c hc
      obtain ⟨b, hb, bx, hbx, hl', e'⟩ := hV y hyg
      have h1 := hlv c hc
      have h2 := hlv y hyg
      rw [← e, ← e']
      apply hwf.shapes a ha ax hax b hb bx hbx (by rw [hl, hl'])
      · rw [live_iff, e]; exact h1
      · rw [live_iff, e']; exact h2
  · -- a single layout
    obtain ⟨a, ha, ax, hax, hl⟩ := hused
    have hmem : ax.chunks ∈ g2 (layoutsAt ops j) :=
      (mem_g2 _ _).mpr ⟨(mem_layoutsAt ops j _).mpr ⟨a, ha, ax, hax, hl, rfl⟩, fun h => absurd h hD⟩
    have hg : g2 (layoutsAt ops j) = dedupe (layoutsAt ops j) := by
      unfold g2; simp only [hD, if_false]
    have hsingle : ∀ c ∈ g2 (layoutsAt ops j), c = ax.chunks := by
      intro c hc
      rw [hg] at hc hmem
      match hdd : dedupe (layoutsAt ops j), hc, hmem with
      | [], hc, _ => cases hc
      | [z], hc, hmem =>
        simp only [List.mem_singleton] at hc hmem
        rw [hc, hmem]
      | _ :: _ :: _, _, _ => rw [hdd] at hD; simp at hD
    refine ⟨isum ax.chunks, ⟨?_, hne, ?_, fun c hc x hx => Int.le_of_lt (hpos c hc x hx)⟩⟩
    · intro e; rw [e] at hmem; cases hmem
    · intro c hc; rw [hsingle c hc]

theorem single_of_len_le_one (r : Layout) (T : Int) (hT : 0 < T) (hs : isum r = T)
    (hl : r.length ≤ 1) : r = [T] := by
  match r, hs, hl with
  | [], hs, _ => simp only [isum] at hs; omega
  | [y], hs, _ => simp only [isum] at hs; rw [← hs]; simp
  | _ :: _ :: _, _, hl => simp at hl

/-- facts about one used index `j` with a live axis, for every admissible oracle value -/
theorem index_facts {ops : List Opd} (hwf : OpsWF ops) (j : Nat) (f co : Layout)
    (hf : commonBlockdim (g2 (layoutsAt ops j)) = .ok f)
    (a : Opd) (ha : a ∈ ops) (ax : Ax) (hax : ax ∈ a.axes) (hl : ax.label = j) (hlv : ax.live = true) :
    imax f ≤ imax ax.chunks ∧
    (∀ b ∈ bnds ax.chunks, b ∈ bnds f) ∧ isum f = isum ax.chunks ∧
    (∀ b ∈ bnds f, ∃ c ∈ layoutsAt ops j, b ∈ bnds c) ∧
    (coarseBlockdim (g2 (layoutsAt ops j)) = .ok co →
      ∀ ch, oracleOK ch co f (g2 (layoutsAt ops j)) = true → f.length ≤ ch.length → ch = f) := by
  obtain ⟨⟨T, hW⟩, hpos, hlive⟩ := g2_wf hwf j ⟨a, ha, ax, hax, hl⟩
  obtain ⟨r, hr, spec⟩ := commonBlockdim_ok hW
  have hrf : r = f := by rw [hr] at hf; exact Except.ok.inj hf
  subst hrf
  have hmem := hlive a ha ax hax hl hlv
  refine ⟨spec.imax_le _ hmem, spec.refines _ hmem, by rw [spec.sum, hW.sum _ hmem], ?_, ?_⟩
  · intro b hb
    obtain ⟨c, hc, hbc⟩ := spec.union b hb
    exact ⟨c, ((mem_g2 _ c).mp hc).1, hbc⟩
  · intro hco ch hok hlen
    -- an input layout with at least as many blocks as the refinement is the refinement
    have hin : ∀ c ∈ g2 (layoutsAt ops j), r.length ≤ c.length → c = r := by
      intro c hc hle
      by_cases hcl : c.length > 1
      · exact (splits_eq_of_len (spec.splits c hc hcl) (hpos c hc) hle).symm
      · have hcT := trivial_eq hW c hc hcl
        have hTpos : 0 < T := by
          have := hpos c hc T (by rw [hcT]; simp)
          exact this
        rw [hcT] at hle ⊢
        exact (single_of_len_le_one r T hTpos spec.sum (by simpa using hle)).symm
    simp only [oracleOK, Bool.or_eq_true, decide_eq_true_eq] at hok
    rcases hok with (h | h) | h
    · -- the coarse choice
      obtain ⟨r', hr', hcase⟩ := coarseBlockdim_ok hW
      have : r' = co := by rw [hr'] at hco; exact Except.ok.inj hco
      subst this
      rcases hcase with hc | ⟨hc, _⟩
      · rw [hr] at hc; rw [h]; exact (Except.ok.inj hc).symm
      · rw [h]; rw [h] at hlen; exact hin r' hc hlen
    · exact h
    · exact hin ch h hlen

theorem unifyModel_limit (policy : Policy) (limit : Int) (hlim : limit ≠ 0) (pre : List Layout)
    (ops : List Opd) (nlabels : Nat) (hwf : OpsWF ops)
    (hlab : ∀ a ∈ ops, ∀ ax ∈ a.axes, ax.label < nlabels)
    (res : UnifyResult) (hres : unifyModel policy (some limit) pre ops nlabels = .ok res)
    (hrel : res.oracleOk = true) :
    ∀ a ∈ ops, targetBytes (look res.final) a ≤ max limit (currentBytes a) := by
  unfold unifyModel at hres
  cases hfT : tabE (fun j => commonBlockdim (g2 (layoutsAt ops j))) nlabels with
  | error e => simp [hfT] at hres
  | ok fineT =>
    obtain ⟨_, hfine⟩ := tabE_ok _ nlabels fineT hfT
    simp only [hfT] at hres
    -- the refinement never enlarges a block
    have hfineImax : ∀ a ∈ ops, ∀ ax ∈ a.axes, ax.live = true →
        imax (look fineT ax.label) ≤ imax ax.chunks := by
      intro a ha ax hax hlv
      exact (index_facts hwf ax.label _ [] (hfine _ (hlab a ha ax hax)) a ha ax hax rfl hlv).1
    by_cases hpol : policy = .refine
    · simp only [hpol, if_true, Except.ok.injEq] at hres
      subst hres
      intro a ha
      have h2 := iprod_map_le (fun ax : Ax => imax (look fineT ax.label)) (fun ax : Ax => imax ax.chunks)
        (a.axes.filter Ax.live) (by
          intro ax hax
          have hmem := (List.mem_filter.mp hax)
          exact ⟨imax_nonneg _, hfineImax a ha ax hmem.1 hmem.2⟩)
      have : targetBytes (look fineT) a ≤ currentBytes a :=
        Int.mul_le_mul_of_nonneg_left h2.2 (hwf.itemsize a ha)
      show targetBytes (look fineT) a ≤ max limit (currentBytes a)
      omega
    · simp only [hpol, if_false] at hres
      cases hcT : tabE (fun j => coarseBlockdim (g2 (layoutsAt ops j))) nlabels with
      | error e => simp [hcT] at hres
      | ok coarseT =>
        obtain ⟨_, hcoarse⟩ := tabE_ok _ nlabels coarseT hcT
        simp only [hcT, Except.ok.injEq] at hres
        subst hres
        simp only [List.all_eq_true, List.mem_range] at hrel
        intro a ha
        have hG := sizeGuard_limit limit hlim
          (look (if policy = .coarse then coarseT else pre)) (look fineT) ops hwf.itemsize hfineImax
          (by
            intro a' ha' ax hax hlv hlen
            have hj := hlab a' ha' ax hax
            exact (index_facts hwf ax.label _ _ (hfine _ hj) a' ha' ax hax rfl hlv).2.2.2.2
              (hcoarse _ hj) _ (hrel _ hj) hlen)
          a ha
        have heq : targetBytes (look ((List.range nlabels).map
              (sizeGuard (some limit) (look (if policy = .coarse then coarseT else pre)) (look fineT) ops))) a
            = targetBytes (sizeGuard (some limit) (look (if policy = .coarse then coarseT else pre)) (look fineT) ops) a := by
          unfold targetBytes
          apply congrArg
          apply iprod_map_congr
          intro ax hax
          rw [look_range_map _ _ _ (hlab a ha ax (List.mem_filter.mp hax).1)]
        show targetBytes (look ((List.range nlabels).map _)) a ≤ _
        rw [heq]; exact hG

/-- under the `refine` policy the final layout of every participating axis only splits it -/
theorem unifyModel_refine (limit : Option Int) (pre : List Layout)
    (ops : List Opd) (nlabels : Nat) (hwf : OpsWF ops)
    (hlab : ∀ a ∈ ops, ∀ ax ∈ a.axes, ax.label < nlabels)
    (res : UnifyResult) (hres : unifyModel .refine limit pre ops nlabels = .ok res) :
    ∀ a ∈ ops, ∀ ax ∈ a.axes, ax.live = true →
      isum (look res.final ax.label) = isum ax.chunks ∧
      (∀ b ∈ bnds ax.chunks, b ∈ bnds (look res.final ax.label)) ∧
      (∀ b ∈ bnds (look res.final ax.label), ∃ c ∈ layoutsAt ops ax.label, b ∈ bnds c) ∧
      imax (look res.final ax.label) ≤ imax ax.chunks := by
  unfold unifyModel at hres
  cases hfT : tabE (fun j => commonBlockdim (g2 (layoutsAt ops j))) nlabels with
  | error e => simp [hfT] at hres
  | ok fineT =>
    obtain ⟨_, hfine⟩ := tabE_ok _ nlabels fineT hfT
    simp only [hfT, if_true, Except.ok.injEq] at hres
    subst hres
    intro a ha ax hax hlv
    have := index_facts hwf ax.label _ [] (hfine _ (hlab a ha ax hax)) a ha ax hax rfl hlv
    exact ⟨this.2.2.1, this.2.1, this.2.2.2.1, this.1⟩

end Dask.Lemmas.Unify
