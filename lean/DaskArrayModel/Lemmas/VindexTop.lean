/-
Top-level proofs for Model/Vindex.lean: `x.vindex[...]` returns the points in order, `IndexError` iff out of bounds.
Core Lean only.
-/
import DaskArrayModel.Lemmas.VindexNorm
namespace Dask.Lemmas.Vindex
open Dask.Py Dask.Slicing Dask.Indexing Dask.Shuffle Dask.Vindex Dask.Lemmas.Shuffle

theorem headD_normed_length : ∀ (css inds : List (List Int)) (P : Nat), css ≠ [] → WF css inds P →
    ((normed css inds).headD []).length = P
  | [], _, _, h, _ => absurd rfl h
  | _ :: _, [], _, _, h => by simp [WF] at h
  | cs :: css, ind :: inds, P, _, h => by
    simp [normed, h.2.1]

section top
variable (argsort : List Int → List Nat) (hA : ∀ l, IsArgsort l (argsort l))

theorem vindex_error (css inds : List (List Int)) (P : Nat) (hwf : WF css inds P) {α} (x : List Int → α)
    (h : ¬ InRangeAll (css.map isum) inds) : vindexEval argsort css inds x = .err .indexError := by
  unfold vindexEval
  rw [normAll_err css inds P hwf h]

include hA in
theorem vindex_ok (css inds : List (List Int)) (P : Nat) (hne : css ≠ []) (hwf : WF css inds P)
    {α} (x : List Int → α) (h : InRangeAll (css.map isum) inds) :
    ∃ out, vindexEval argsort css inds x = .ok out ∧
      out.flatten = (List.range P).map (fun j => some (x (normPoint css inds j))) ∧
      (2 ≤ css.length → 0 < P → out.map (fun c => (c.length : Int)) = vChunks css P) := by
  have hn := normAll_ok css inds P hwf h
  have hhead := headD_normed_length css inds P hne hwf
  unfold vindexEval
  rw [hn.1]
  simp only [hhead]
  by_cases hP : P = 0
  · subst hP
    exact ⟨[[]], by simp, by simp, by intro _ h0; omega⟩
  · have hP' : 0 < P := by omega
    simp only [hP, ↓reduceIte]
    have hpts : (List.range P).map (fun j => some (x (pointAt (normed css inds) j))) =
        (List.range P).map (fun j => some (x (normPoint css inds j))) := by
      apply List.map_congr_left
      intro j hj
      rw [pointAt_normed css inds P j hwf (by simpa using hj)]
    have hm := mcpd_pos css (normed css inds) P hn.2 hP'
    have hlayer : ∃ out, evalLayer argsort css (normed css inds) x = .ok out ∧
        out.flatten = (List.range P).map (fun j => some (x (normPoint css inds j))) ∧
        out.map (fun c => (c.length : Int)) = vChunks css P := by
      refine ⟨_, evalLayer_correct argsort hA css (normed css inds) P hn.2 hm hhead hP' x, ?_, ?_⟩
      · rw [chunk_flatten (fun j => some (x (pointAt (normed css inds) j))) (mcpd css).toNat P,
          Nat.min_eq_right (nOut_ge hm hP'), hpts]
      · rw [List.map_map]
        simp only [Function.comp_def, List.length_map, List.length_range]
        exact vChunks_eq css P hm hP'
    cases css with
    | nil => exact absurd rfl hne
    | cons cs css' =>
      cases inds with
      | nil => simp [WF] at hwf
      | cons ind inds' =>
        cases css' with
        | nil =>
          cases inds' with
          | cons _ _ => simp [WF] at hwf
          | nil =>
            -- one indexed axis: `_compute_indexer` + `_shuffle`
            have hcs : ChunksOK cs := hwf.1
            have hr1 : ∀ i ∈ ind, -(isum cs) ≤ i ∧ i < isum cs := h.1
            have hfl := Dask.Lemmas.Indexing.computeIndexer_flatten (ind.map (posifyInt (isum cs))) cs
            have hib : InBounds (isum cs) (computeIndexer (ind.map (posifyInt (isum cs))) cs) := by
              intro g hg p hp
              have : p ∈ ind.map (posifyInt (isum cs)) := by
                rw [← hfl]; exact List.mem_flatten.mpr ⟨g, hg, hp⟩
              rcases List.mem_map.mp this with ⟨i, hi, rfl⟩
              exact posify_bounds (hr1 i hi)
            rcases shuffle_correct argsort hA cs hcs _ hib (fun p => x [p]) with ⟨out, h1, h2, _⟩
            refine ⟨out.map (fun c => c.map some), ?_, ?_, by intro h2; simp at h2⟩
            · simp only [normed, List.zipWith_cons_cons, List.zipWith_nil_right, h1]
            · rw [← List.map_flatten, h2, hfl, List.map_map, List.map_map]
              have hl : ind.length = P := hwf.2.1
              refine Eq.trans (congrArg _ (map_getD_range ind 0).symm) ?_
              rw [List.map_map, hl]
              apply List.map_congr_left
              intro j _
              simp [normPoint]
        | cons cs2 rest =>
          cases inds' with
          | nil => simp [WF] at hwf
          | cons ind2 inds'' =>
            rcases hlayer with ⟨out, h1, h2, h3⟩
            refine ⟨out, ?_, h2, fun _ _ => h3⟩
            rw [← h1]

end top
end Dask.Lemmas.Vindex
