/-
Helper lemmas for the shuffle / vindex models (Model/Shuffle.lean, Model/Vindex.lean): argsort, `astype`,
run boundaries (`runStarts`) and the slices between them.  Core Lean only.
-/
import DaskArrayModel.Model.Shuffle
import DaskArrayModel.Lemmas.Indexing
namespace Dask.Lemmas.Shuffle
open Dask.Py Dask.Slicing Dask.Indexing Dask.Shuffle

/-! ### argsort -/

theorem insertIdx_perm (key : Nat → Int) (j : Nat) : ∀ l, (insertIdx key j l).Perm (j :: l)
  | [] => by simp [insertIdx]
  | k :: ks => by
    unfold insertIdx
    split
    · exact List.Perm.refl _
    · exact ((insertIdx_perm key j ks).cons k).trans (List.Perm.swap j k ks)

theorem insertIdx_sorted (key : Nat → Int) (j : Nat) : ∀ l, (l.map key).Pairwise (· ≤ ·) →
    ((insertIdx key j l).map key).Pairwise (· ≤ ·)
  | [], _ => by simp [insertIdx]
  | k :: ks, h => by
    unfold insertIdx
    split
    · rename_i hjk
      simp only [List.map_cons, List.pairwise_cons] at h ⊢
      refine ⟨?_, h⟩
      intro a ha
      rcases List.mem_cons.mp ha with rfl | ha
      · exact hjk
      · exact Int.le_trans hjk (h.1 a ha)
    · rename_i hjk
      simp only [List.map_cons, List.pairwise_cons] at h ⊢
      refine ⟨?_, insertIdx_sorted key j ks h.2⟩
      intro a ha
      rcases List.mem_map.mp ha with ⟨i, hi, rfl⟩
      rcases List.mem_cons.mp ((insertIdx_perm key j ks).subset hi) with rfl | hi
      · omega
      · exact h.1 _ (List.mem_map.mpr ⟨i, hi, rfl⟩)

theorem foldr_insert_perm (key : Nat → Int) : ∀ l : List Nat, (l.foldr (insertIdx key) []).Perm l
  | [] => by simp
  | j :: l => by
    simp only [List.foldr_cons]
    exact (insertIdx_perm key j _).trans ((foldr_insert_perm key l).cons j)

theorem foldr_insert_sorted (key : Nat → Int) : ∀ l : List Nat,
    ((l.foldr (insertIdx key) []).map key).Pairwise (· ≤ ·)
  | [] => by simp
  | j :: l => by
    simp only [List.foldr_cons]
    exact insertIdx_sorted key j _ (foldr_insert_sorted key l)

theorem argsortStable_isArgsort (l : List Int) : IsArgsort l (argsortStable l) :=
  ⟨foldr_insert_perm _ _, foldr_insert_sorted _ _⟩

theorem IsArgsort.length {l : List Int} {s : List Nat} (h : IsArgsort l s) : s.length = l.length := by
  simpa using h.1.length_eq

theorem IsArgsort.lt {l : List Int} {s : List Nat} (h : IsArgsort l s) : ∀ j ∈ s, j < l.length := by
  intro j hj
  simpa using h.1.subset hj

/-- on a non-decreasing list the stable argsort is the identity. -/
theorem foldr_insert_range' (key : Nat → Int) : ∀ (m k n : Nat), k + m = n →
    (∀ i j, i ≤ j → j < n → key i ≤ key j) →
    (List.range' k m).foldr (insertIdx key) [] = List.range' k m
  | 0, _, _, _, _ => by simp
  | m + 1, k, n, hn, h => by
    rw [List.range'_succ, List.foldr_cons, foldr_insert_range' key m (k + 1) n (by omega) h]
    cases m with
    | zero => simp [insertIdx]
    | succ m =>
      rw [List.range'_succ]
      unfold insertIdx
      rw [if_pos (h _ _ (by omega) (by omega))]

theorem getD_le_of_pairwise {l : List Int} (h : l.Pairwise (· ≤ ·)) {i j : Nat} (hij : i ≤ j)
    (hj : j < l.length) : l.getD i 0 ≤ l.getD j 0 := by
  rcases Nat.eq_or_lt_of_le hij with rfl | hlt
  · exact Int.le_refl _
  · have := (List.pairwise_iff_getElem.mp h) i j (by omega) hj hlt
    simpa [List.getD_eq_getElem?_getD, List.getElem?_eq_getElem, hj, (by omega : i < l.length)] using this

theorem argsortStable_of_sorted {l : List Int} (h : l.Pairwise (· ≤ ·)) :
    argsortStable l = List.range l.length := by
  unfold argsortStable
  rw [List.range_eq_range']
  exact foldr_insert_range' _ _ 0 l.length (by omega) (fun i j hij hj => getD_le_of_pairwise h hij hj)

/-! ### `astype` -/

theorem wrapU_id {m v : Int} (h0 : 0 ≤ v) (hv : v ≤ m) : wrapU (minScalarBits m) v = v := by
  unfold minScalarBits
  repeat' split
  all_goals first | rfl | (simp only [wrapU]; apply Int.emod_eq_of_lt h0; omega)

/-! ### slices and run boundaries -/

/-- consecutive pairs of `l ++ [L]`. -/
def pairsEnd : List Nat → Nat → List (Nat × Nat)
  | [], _ => []
  | [a], L => [(a, L)]
  | a :: b :: r, L => (a, b) :: pairsEnd (b :: r) L

theorem zip3_pairsEnd {β} (f : Nat → β) : ∀ (rs : List Nat) (L : Nat),
    zip3 (rs.map f) (rs ++ [L]) (rs ++ [L]).tail = (pairsEnd rs L).map (fun ab => (f ab.1, ab.1, ab.2))
  | [], _ => by simp [zip3, pairsEnd]
  | [a], L => by simp [zip3, pairsEnd]
  | a :: b :: r, L => by
    have := zip3_pairsEnd f (b :: r) L
    simp only [List.map_cons, List.cons_append, List.tail_cons, zip3, pairsEnd] at this ⊢
    rw [this]

theorem zip_pairsEnd : ∀ (rs : List Nat) (L : Nat),
    (rs ++ [L]).zip (rs ++ [L]).tail = pairsEnd rs L
  | [], _ => by simp [pairsEnd]
  | [a], L => by simp [pairsEnd]
  | a :: b :: r, L => by
    have := zip_pairsEnd (b :: r) L
    simp only [List.cons_append, List.tail_cons, List.zip_cons_cons, pairsEnd] at this ⊢
    rw [this]

theorem pairsEnd_fst_mem : ∀ (rs : List Nat) (L : Nat) (ab : Nat × Nat), ab ∈ pairsEnd rs L → ab.1 ∈ rs
  | [], _, _, h => by simp [pairsEnd] at h
  | [a], L, ab, h => by simp [pairsEnd] at h; simp [h]
  | a :: b :: r, L, ab, h => by
    simp only [pairsEnd, List.mem_cons] at h
    rcases h with rfl | h
    · simp
    · exact List.mem_cons_of_mem _ (pairsEnd_fst_mem (b :: r) L ab (by simpa [List.mem_cons] using h))

theorem pySlice_append {α} (s : List α) {a b c : Nat} (hab : a ≤ b) (hbc : b ≤ c) :
    pySlice s a b ++ pySlice s b c = pySlice s a c := by
  unfold pySlice
  have e : c - a = (b - a) + (c - b) := by omega
  rw [e, List.take_add, List.drop_drop]
  congr 3; omega

/-- the slices between consecutive boundaries tile `s[a:L]`. -/
theorem pairsEnd_flatten {α} (s : List α) : ∀ (rs : List Nat) (L : Nat), (rs.Pairwise (· < ·)) →
    (∀ a ∈ rs, a ≤ L) →
    ((pairsEnd rs L).map (fun ab => pySlice s ab.1 ab.2)).flatten = pySlice s (rs.headD L) L
  | [], L, _, _ => by simp [pairsEnd, pySlice]
  | [a], L, _, _ => by simp [pairsEnd]
  | a :: b :: r, L, hp, hL => by
    have hp' : (b :: r).Pairwise (· < ·) := (List.pairwise_cons.mp hp).2
    have hab : a < b := (List.pairwise_cons.mp hp).1 b (by simp)
    have ih := pairsEnd_flatten s (b :: r) L hp' (fun x hx => hL x (List.mem_cons_of_mem _ hx))
    simp only [pairsEnd, List.map_cons, List.flatten_cons, List.headD_cons] at ih ⊢
    rw [ih]
    exact pySlice_append s (by omega) (hL b (by simp))

/-- no boundary lies strictly inside a pair. -/
theorem pairsEnd_gap : ∀ (rs : List Nat) (L : Nat), (rs.Pairwise (· < ·)) →
    ∀ ab ∈ pairsEnd rs L, ∀ j, ab.1 < j → j < ab.2 → j ∉ rs
  | [], _, _, ab, h => by simp [pairsEnd] at h
  | [a], L, _, ab, h => by
    simp [pairsEnd] at h; subst h
    intro j h1 _; simp; omega
  | a :: b :: r, L, hp, ab, h => by
    have hp' : (b :: r).Pairwise (· < ·) := (List.pairwise_cons.mp hp).2
    have hlt := (List.pairwise_cons.mp hp).1
    simp only [pairsEnd, List.mem_cons] at h
    intro j h1 h2
    rcases h with rfl | h
    · simp only [List.mem_cons, not_or]
      refine ⟨by omega, by omega, ?_⟩
      intro hj
      have := (List.pairwise_cons.mp hp').1 j hj
      simp at h2; omega
    · have h' : ab ∈ pairsEnd (b :: r) L := by simpa [List.mem_cons] using h
      have := pairsEnd_gap (b :: r) L hp' ab h' j h1 h2
      have hm := pairsEnd_fst_mem (b :: r) L ab h'
      have : a < ab.1 := hlt _ hm
      intro hj
      rcases List.mem_cons.mp hj with rfl | hj
      · omega
      · contradiction

theorem pairsEnd_snd_le : ∀ (rs : List Nat) (L : Nat), (∀ a ∈ rs, a < L) → (rs.Pairwise (· < ·)) →
    ∀ ab ∈ pairsEnd rs L, ab.1 < ab.2 ∧ ab.2 ≤ L
  | [], _, _, _, ab, h => by simp [pairsEnd] at h
  | [a], L, hL, _, ab, h => by
    simp [pairsEnd] at h; subst h; simp; exact hL a (by simp)
  | a :: b :: r, L, hL, hp, ab, h => by
    simp only [pairsEnd, List.mem_cons] at h
    rcases h with rfl | h
    · have := (List.pairwise_cons.mp hp).1 b (by simp)
      have := hL b (by simp)
      simp; omega
    · exact pairsEnd_snd_le (b :: r) L (fun x hx => hL x (List.mem_cons_of_mem _ hx))
        (List.pairwise_cons.mp hp).2 ab (by simpa [List.mem_cons] using h)

theorem runStarts_pairwise (aux : List Int) : (runStarts aux).Pairwise (· < ·) :=
  List.Pairwise.filter _ List.pairwise_lt_range

theorem runStarts_lt (aux : List Int) : ∀ a ∈ runStarts aux, a < aux.length := by
  intro a ha
  have := (List.mem_filter.mp ha).1
  simpa using this

theorem runStarts_head (aux : List Int) (h : aux ≠ []) : (runStarts aux).headD aux.length = 0 := by
  have hpos : 0 < aux.length := List.length_pos_iff.mpr h
  unfold runStarts
  obtain ⟨n, hn⟩ : ∃ n, aux.length = n + 1 := ⟨aux.length - 1, by omega⟩
  rw [hn, List.range_succ_eq_map, List.filter_cons]
  simp

/-- inside a run the sequence is constant. -/
theorem run_const (aux : List Int) : ∀ ab ∈ pairsEnd (runStarts aux) aux.length,
    ∀ j, ab.1 ≤ j → j < ab.2 → aux.getD j 0 = aux.getD ab.1 0 := by
  intro ab hab j
  have hb := (pairsEnd_snd_le _ _ (runStarts_lt aux) (runStarts_pairwise aux) ab hab).2
  induction j with
  | zero => intro h1 _; have : ab.1 = 0 := by omega
            rw [this]
  | succ j ih =>
    intro h1 h2
    rcases Nat.eq_or_lt_of_le h1 with e | hlt
    · rw [e]
    · have hnot := pairsEnd_gap _ _ (runStarts_pairwise aux) ab hab (j + 1) hlt h2
      have : ¬ (j + 1 = 0 ∨ aux.getD (j + 1) 0 ≠ aux.getD (j + 1 - 1) 0) := by
        intro hm
        apply hnot
        unfold runStarts
        exact List.mem_filter.mpr ⟨by simp; omega, by simpa using hm⟩
      have e : aux.getD (j + 1) 0 = aux.getD j 0 := by
        by_cases h : aux.getD (j + 1) 0 = aux.getD j 0
        · exact h
        · exact absurd (Or.inr (by simpa using h)) this
      rw [e]; exact ih (by omega) (by omega)

end Dask.Lemmas.Shuffle
