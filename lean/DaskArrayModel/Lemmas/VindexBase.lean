/-
Helper lemmas for Model/Vindex.lean: ravel/unravel, the block of a point, one slice-task read.  Core Lean only.
-/
import DaskArrayModel.Model.Vindex
import DaskArrayModel.Lemmas.ShuffleTop
namespace Dask.Lemmas.Vindex
open Dask.Py Dask.Slicing Dask.Indexing Dask.Shuffle Dask.Vindex Dask.Lemmas.Shuffle

/-! ### ravel / unravel -/

/-- pointwise `idx < shape`, same length. -/
def AllLt : List Nat → List Nat → Prop
  | [], [] => True
  | i :: is, d :: ds => i < d ∧ AllLt is ds
  | _, _ => False

theorem ravel_lt : ∀ (shape idx : List Nat), AllLt idx shape → ravel shape idx < prod shape
  | [], [], _ => by simp [ravel, prod]
  | [], _ :: _, h => by simp [AllLt] at h
  | _ :: _, [], h => by simp [AllLt] at h
  | d :: ds, i :: is, h => by
    have ih := ravel_lt ds is h.2
    have h1 : i < d := h.1
    simp only [ravel, prod]
    calc i * prod ds + ravel ds is < i * prod ds + prod ds := by omega
      _ = (i + 1) * prod ds := by rw [Nat.succ_mul]
      _ ≤ d * prod ds := Nat.mul_le_mul_right _ h1

theorem unravel_ravel : ∀ (shape idx : List Nat), AllLt idx shape → unravel shape (ravel shape idx) = idx
  | [], [], _ => rfl
  | [], _ :: _, h => by simp [AllLt] at h
  | _ :: _, [], h => by simp [AllLt] at h
  | d :: ds, i :: is, h => by
    have hlt := ravel_lt ds is h.2
    have hpos : 0 < prod ds := by omega
    simp only [ravel, unravel]
    have e1 : (i * prod ds + ravel ds is) / prod ds = i := by
      rw [Nat.add_comm, Nat.add_mul_div_right _ _ hpos, Nat.div_eq_of_lt hlt]; omega
    have e2 : (i * prod ds + ravel ds is) % prod ds = ravel ds is := by
      rw [Nat.add_comm, Nat.add_mul_mod_self_right, Nat.mod_eq_of_lt hlt]
    rw [e1, e2, unravel_ravel ds is h.2]

/-! ### block of a point on one axis -/

theorem bisectRight_cum0 (cs : List Int) (p : Int) (h0 : 0 ≤ p) :
    bisectRight (cum0 cs) p = bisectRight (cumsum cs) p + 1 := by
  unfold cum0
  rw [bisectRight]
  simp [show ¬ p < 0 by omega]

theorem axis_facts (cs : List Int) (hcs : ChunksOK cs) (p : Int) (h0 : 0 ≤ p) (h1 : p < isum cs) :
    blockIdx cs p < cs.length ∧ 0 ≤ inblockOff cs p ∧ inblockOff cs p < cs.getD (blockIdx cs p) 0 ∧
      blockStart cs (blockIdx cs p) + inblockOff cs p = p := by
  have bf := block_facts cs hcs p h0 h1
  have hb : blockIdx cs p = bisectRight (cumsum cs) p := by
    unfold blockIdx; rw [bisectRight_cum0 cs p h0]; omega
  have hs : (cum0 cs).getD (blockIdx cs p) 0 = blockStart cs (blockIdx cs p) := by
    rw [hb, ← bf.2.1]
    unfold cum0
    cases hc : bisectRight (cumsum cs) p with
    | zero => simp
    | succ c => simp
  unfold inblockOff
  rw [hs, hb]
  refine ⟨bf.1, bf.2.2.1, bf.2.2.2, by omega⟩

/-- well-formed normalised index arrays: one per indexed axis, `P` points each, all on their axis. -/
def PointsOK : List (List Int) → List (List Int) → Nat → Prop
  | [], [], _ => True
  | cs :: css, ind :: inds, P =>
    ChunksOK cs ∧ ind.length = P ∧ (∀ p ∈ ind, 0 ≤ p ∧ p < isum cs) ∧ PointsOK css inds P
  | _, _, _ => False

theorem readBlockN_point {α} : ∀ (css inds : List (List Int)) (P j : Nat) (x : List Int → α),
    PointsOK css inds P → j < P →
    readBlockN css x
      ((List.zipWith (fun cs ind => ind.map (blockIdx cs)) css inds).map (fun b => b.getD j 0))
      (pointAt (List.zipWith (fun cs ind => ind.map (inblockOff cs)) css inds) j) = some (x (pointAt inds j))
  | [], [], _, _, _, _, _ => rfl
  | [], _ :: _, _, _, _, h, _ => by simp [PointsOK] at h
  | _ :: _, [], _, _, _, h, _ => by simp [PointsOK] at h
  | cs :: css, ind :: inds, P, j, x, h, hj => by
    obtain ⟨hcs, hl, hin, hrest⟩ := h
    have hj' : j < ind.length := by omega
    have hp := hin _ (getD_mem_lt ind j hj' 0)
    have af := axis_facts cs hcs _ hp.1 hp.2
    simp only [List.zipWith_cons_cons, List.map_cons, pointAt, readBlockN]
    rw [getD_map_lt _ _ _ hj' 0 0, getD_map_lt _ _ _ hj' 0 0, if_pos ⟨af.1, af.2.1, af.2.2.1⟩, af.2.2.2]
    exact readBlockN_point css inds P j (fun t => x (ind.getD j 0 :: t)) hrest hj

theorem blocks_allLt : ∀ (css inds : List (List Int)) (P j : Nat), PointsOK css inds P → j < P →
    AllLt ((List.zipWith (fun cs ind => ind.map (blockIdx cs)) css inds).map (fun b => b.getD j 0))
      (css.map List.length)
  | [], [], _, _, _, _ => trivial
  | [], _ :: _, _, _, h, _ => by simp [PointsOK] at h
  | _ :: _, [], _, _, h, _ => by simp [PointsOK] at h
  | cs :: css, ind :: inds, P, j, h, hj => by
    obtain ⟨hcs, hl, hin, hrest⟩ := h
    have hj' : j < ind.length := by omega
    have hp := hin _ (getD_mem_lt ind j hj' 0)
    have af := axis_facts cs hcs _ hp.1 hp.2
    simp only [List.zipWith_cons_cons, List.map_cons, AllLt]
    rw [getD_map_lt _ _ _ hj' 0 0]
    exact ⟨af.1, blocks_allLt css inds P j hrest hj⟩

end Dask.Lemmas.Vindex
