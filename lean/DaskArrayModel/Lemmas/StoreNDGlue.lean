/-
The glue facts of Lemmas/StoreNDCorrect.lean for every accepted call: `fuse_slice(region, block index)`
names, axis by axis, the block's piece of the region's selection.  Core Lean only.
-/
import DaskArrayModel.Lemmas.StoreNDCorrect
namespace Dask.Lemmas.StoreND
open Dask.Py Dask.Py.PySlice Dask.Slicing Dask.SourceIO Dask.StoreND Dask.Lemmas.SourceIO
open Dask.Lemmas.SliceAlgebra

theorem fuseTuple_nil (r : List RIdx) : fuseTuple r [] = .ok r := by
  induction r with
  | nil => rfl
  | cons a as ih =>
    cases a with
    | int i => simp [fuseTuple, ih, bind, Except.bind, pure, Except.pure]
    | slc s => simp [fuseTuple, ih, bind, Except.bind, pure, Except.pure]

theorem nodup_of_lt (l : List Int) (h : l.Pairwise (· < ·)) : l.Nodup :=
  h.imp (fun hab => Int.ne_of_lt hab)

theorem regionOK_sel (tshape : List Int) (r : List RIdx) (chunks : List (List Int))
    (h : regionOK tshape r chunks = true) :
    ∃ G, indexSel tshape r = .ok G ∧ NodupSel G ∧ selShape G = srcShape chunks := by
  induction r generalizing tshape chunks with
  | nil =>
    cases tshape <;> cases chunks <;> simp [regionOK] at h
    exact ⟨[], rfl, trivial, rfl⟩
  | cons a as ih =>
    cases tshape with
    | nil => cases a <;> simp [regionOK] at h
    | cons n ns =>
      cases a with
      | int i =>
        simp only [regionOK, Bool.and_eq_true, decide_eq_true_eq] at h
        obtain ⟨G, hG, hn, hs⟩ := ih ns chunks h.2
        exact ⟨AxSel.pt (if i < 0 then i + n else i) :: G, by simp [indexSel, h.1, hG], hn, hs⟩
      | slc s =>
        cases chunks with
        | nil => simp [regionOK] at h
        | cons c cs =>
          simp only [regionOK, Bool.and_eq_true, decide_eq_true_eq] at h
          obtain ⟨G, hG, hn, hs⟩ := ih ns cs h.2
          refine ⟨AxSel.many (sel s n) :: G, by simp [indexSel, hG], ⟨?_, hn⟩, ?_⟩
          · exact nodup_of_lt _ (pairwise_sel_pos s n h.1.2.2.1)
          · simp only [selShape, srcShape, List.map_cons, List.cons.injEq]
            exact ⟨h.1.2.2.2.2.symm, hs⟩

theorem regionOK_block (tshape : List Int) (r : List RIdx) (chunks : List (List Int)) (G : List AxSel)
    (h : regionOK tshape r chunks = true) (hc : ChunksOK chunks) (hG : indexSel tshape r = .ok G)
    (bid : List Nat) (hb : bid ∈ blockIds chunks) :
    ∃ widx, fuseTuple r (blockIndex chunks bid) = .ok widx ∧
      indexSel tshape widx = .ok (blockSel G (blockIndex chunks bid)) := by
  induction r generalizing tshape chunks G bid with
  | nil =>
    cases tshape <;> cases chunks <;> simp [regionOK] at h
    simp [blockIds] at hb
    subst hb
    simp only [indexSel] at hG
    injection hG with hG
    subst hG
    exact ⟨[], rfl, rfl⟩
  | cons a as ih =>
    cases tshape with
    | nil => cases a <;> simp [regionOK] at h
    | cons n ns =>
      cases a with
      | int i =>
        simp only [regionOK, Bool.and_eq_true, decide_eq_true_eq] at h
        simp only [indexSel, h.1, and_self, if_true] at hG
        cases hG' : indexSel ns as with
        | error e => simp [hG'] at hG
        | ok G' =>
          simp only [hG'] at hG
          injection hG with hG
          subst hG
          obtain ⟨widx, hw, hs⟩ := ih ns chunks G' h.2 hc hG' bid hb
          refine ⟨RIdx.int i :: widx, by simp [fuseTuple, hw, bind, Except.bind, pure, Except.pure], ?_⟩
          simp [indexSel, h.1, hs, blockSel]
      | slc s =>
        cases chunks with
        | nil => simp [regionOK] at h
        | cons c cs =>
          simp only [regionOK, Bool.and_eq_true, decide_eq_true_eq] at h
          obtain ⟨⟨hn, hst, hstep, hstop, hlen⟩, hrest⟩ := h
          obtain ⟨i, is, rfl, hi, his⟩ := (mem_blockIds_cons ..).mp hb
          simp only [indexSel] at hG
          cases hG' : indexSel ns as with
          | error e => simp [hG'] at hG
          | ok G' =>
            simp only [hG'] at hG
            injection hG with hG
            subst hG
            have hc0 := hc c (List.mem_cons_self ..)
            obtain ⟨widx, hw, hs⟩ := ih ns cs G' hrest (fun c' hc' => hc c' (List.mem_cons_of_mem _ hc')) hG' is his
            have hp0 := blockStart_nonneg c hc0 i
            have hp1 := getD_nonneg c hc0 i
            have hp2 := blockEnd_le c hc0 i hi
            obtain ⟨f, hf⟩ := (fuseSliceSlice_error_iff s (chunkSlice (blockStart c i, blockStart c i + c.getD i 0))).mpr
              (by simp only [chunkSlice, Option.getD_some, Option.getD_none]; omega)
            have hsel := storeIndexAxis_sel s n hn (blockStart c i, blockStart c i + c.getD i 0) f
              hp0 (by simp only; omega) (by simp only; omega) hf
            refine ⟨RIdx.slc f :: widx, by simp only [blockIndex, fuseTuple, hf, hw, bind, Except.bind, pure, Except.pure], ?_⟩
            simp only [indexSel, hs, blockSel, blockIndex, hsel]

theorem rangeList_len (n : Int) (hn : 0 ≤ n) : ((rangeList 0 n 1).length : Int) = n := by
  rw [length_rangeList]
  have := rangeLen_one 0 n
  split at this <;> omega

theorem piece_range (n : Int) (p : Int × Int) (h0 : 0 ≤ p.1) (h2 : p.2 ≤ n) :
    piece (rangeList 0 n 1) p = rangeList p.1 p.2 1 := by
  unfold piece
  apply pick_range_id
  intro i hi
  have := (mem_range_one _ _ _).mp hi
  omega

theorem noregion_sel (chunks : List (List Int)) (hc : ChunksOK chunks) :
    ∃ G, indexSel (srcShape chunks) [] = .ok G ∧ NodupSel G ∧ selShape G = srcShape chunks := by
  induction chunks with
  | nil => exact ⟨[], rfl, trivial, rfl⟩
  | cons c cs ih =>
    obtain ⟨G, hG, hn, hs⟩ := ih (fun c' hc' => hc c' (List.mem_cons_of_mem _ hc'))
    have hc0 := isum_nonneg c (hc c (List.mem_cons_self ..))
    refine ⟨AxSel.many (rangeList 0 (isum c) 1) :: G, ?_, ⟨?_, hn⟩, ?_⟩
    · simp only [srcShape, List.map_cons, indexSel]
      simp only [srcShape] at hG
      simp [hG]
    · exact nodup_of_lt _ (pairwise_rangeList _ _ _ (by omega))
    · simp only [selShape, srcShape, List.map_cons, List.cons.injEq]
      exact ⟨rangeList_len _ hc0, hs⟩

theorem noregion_block (chunks : List (List Int)) (hc : ChunksOK chunks) (G : List AxSel)
    (hG : indexSel (srcShape chunks) [] = .ok G) (bid : List Nat) (hb : bid ∈ blockIds chunks) :
    indexSel (srcShape chunks) ((blockIndex chunks bid).map (fun p => RIdx.slc (chunkSlice p))) =
      .ok (blockSel G (blockIndex chunks bid)) := by
  induction chunks generalizing G bid with
  | nil =>
    simp [blockIds] at hb
    subst hb
    simp only [srcShape, List.map_nil, indexSel] at hG
    injection hG with hG
    subst hG
    rfl
  | cons c cs ih =>
    obtain ⟨i, is, rfl, hi, his⟩ := (mem_blockIds_cons ..).mp hb
    simp only [srcShape, List.map_cons, indexSel] at hG
    cases hG' : indexSel (cs.map isum) [] with
    | error e => simp [hG'] at hG
    | ok G' =>
      simp only [hG'] at hG
      injection hG with hG
      subst hG
      have hc0 := hc c (List.mem_cons_self ..)
      have hp0 := blockStart_nonneg c hc0 i
      have hp1 := getD_nonneg c hc0 i
      have hp2 := blockEnd_le c hc0 i hi
      have hr := ih (fun c' hc' => hc c' (List.mem_cons_of_mem _ hc')) G' hG' is his
      simp only [srcShape] at hr
      simp only [srcShape, List.map_cons, blockIndex, indexSel, hr, blockSel]
      rw [sel_chunkSlice _ _ hp0 (by simp only; omega) (by simp only; omega),
        piece_range _ _ hp0 (by simp only; omega)]

theorem chunksOK_of_all (chunks : List (List Int))
    (h : chunks.all (fun c => c.all (fun x => decide (0 ≤ x))) = true) : ChunksOK chunks := by
  intro c hc x hx
  simp only [List.all_eq_true, decide_eq_true_eq] at h
  exact h c hc x hx

theorem glue_of_accepted (tshape : List Int) (region : Option (List RIdx)) (chunks : List (List Int))
    (h : accepted tshape region chunks = true) :
    ChunksOK chunks ∧ ∃ G, Glue tshape region chunks G := by
  unfold accepted at h
  rw [Bool.and_eq_true] at h
  have hc := chunksOK_of_all chunks h.1
  refine ⟨hc, ?_⟩
  have hnone : tshape = srcShape chunks → (region = none ∨ region = some []) → ∃ G, Glue tshape region chunks G := by
    rintro rfl hr
    obtain ⟨G, hG, hn, hs⟩ := noregion_sel chunks hc
    refine ⟨G, ⟨by rcases hr with rfl | rfl <;> exact hG, hn, hs, ?_⟩⟩
    intro bid hb
    refine ⟨(blockIndex chunks bid).map (fun p => RIdx.slc (chunkSlice p)), ?_, noregion_block chunks hc G hG bid hb⟩
    rcases hr with rfl | rfl <;> rfl
  cases region with
  | none => exact hnone (by simpa using h.2) (Or.inl rfl)
  | some r =>
    cases r with
    | nil => exact hnone (by simpa using h.2) (Or.inr rfl)
    | cons x r =>
      have hr : regionOK tshape (x :: r) chunks = true := h.2
      obtain ⟨G, hG, hn, hs⟩ := regionOK_sel tshape (x :: r) chunks hr
      refine ⟨G, ⟨hG, hn, hs, ?_⟩⟩
      intro bid hb
      obtain ⟨widx, hw, hsel⟩ := regionOK_block tshape (x :: r) chunks G hr hc hG bid hb
      refine ⟨widx, ?_, hsel⟩
      unfold storeIndex
      simp only
      split
      · rename_i he
        have : blockIndex chunks bid = [] := by simpa using he
        rw [this, fuseTuple_nil] at hw
        exact hw
      · exact hw

end Dask.Lemmas.StoreND
