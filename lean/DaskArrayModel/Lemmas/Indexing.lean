/-
Lemmas and proofs for the n-D indexing model (Model/Indexing.lean): `normalize_index`
soundness against NumPy's meaning (`npIndex`), the cartesian-product lifting of per-axis
partitions (`axisLift`), `.blocks`, and the regrouping helpers of `take`.
Core Lean only.
-/
import DaskArrayModel.Model.Indexing
import DaskArrayModel.Lemmas.SliceAlgebra
import DaskArrayModel.Lemmas.Slice1dPos
import DaskArrayModel.Lemmas.Slice1dNeg
namespace Dask.Lemmas.Indexing
open Dask.Py Dask.Py.PySlice Dask.Slicing Dask.Indexing

/-! ### `take` regrouping: `_compute_indexer`, `Shuffle._new_chunks` -/

theorem indexerLoop_flatten (bounds : List Int) :
    ∀ (rest : List Int) (cid : Nat) (cur : List Int),
      (indexerLoop bounds rest cid cur).flatten = cur.reverse ++ rest := by
  intro rest
  induction rest with
  | nil => intro cid cur; simp [indexerLoop]
  | cons i rest ih =>
    intro cid cur
    unfold indexerLoop
    by_cases h : bisectRight bounds i = cid
    · simp only [h, ↓reduceIte]; rw [ih]; simp
    · simp only [h, ↓reduceIte]; rw [List.flatten_cons, ih]; simp

/-- `_compute_indexer` only regroups: concatenating the groups gives back the index. -/
theorem computeIndexer_flatten (index chunks : List Int) :
    (computeIndexer index chunks).flatten = index := by
  unfold computeIndexer
  cases index with
  | nil => simp
  | cons i rest => simp only; rw [indexerLoop_flatten]; simp

theorem indexerLoop_groups (bounds : List Int) :
    ∀ (rest : List Int) (cid : Nat) (cur : List Int),
      (∀ x ∈ cur, bisectRight bounds x = cid) →
      ∀ g ∈ indexerLoop bounds rest cid cur, ∀ x ∈ g, ∀ y ∈ g,
        bisectRight bounds x = bisectRight bounds y := by
  intro rest
  induction rest with
  | nil =>
    intro cid cur hc g hg x hx y hy
    simp [indexerLoop] at hg
    subst hg
    rw [hc x (by simpa using hx), hc y (by simpa using hy)]
  | cons i rest ih =>
    intro cid cur hc g hg
    unfold indexerLoop at hg
    by_cases h : bisectRight bounds i = cid
    · simp only [h, ↓reduceIte] at hg
      exact ih cid (i :: cur) (by
        intro x hx
        rcases List.mem_cons.mp hx with rfl | hx
        · exact h
        · exact hc x hx) g hg
    · simp only [h, ↓reduceIte] at hg
      rcases List.mem_cons.mp hg with rfl | hg
      · intro x hx y hy
        rw [hc x (by simpa using hx), hc y (by simpa using hy)]
      · exact ih (bisectRight bounds i) [i] (by simp) g hg

/-- every group of `_compute_indexer` reads from a single input chunk. -/
theorem computeIndexer_groups (index chunks : List Int) :
    ∀ g ∈ computeIndexer index chunks, ∀ x ∈ g, ∀ y ∈ g,
      bisectRight (cumsum chunks) x = bisectRight (cumsum chunks) y := by
  unfold computeIndexer
  cases index with
  | nil => intro g hg x hx; simp at hg; subst hg; simp at hx
  | cons i rest =>
    simp only
    exact indexerLoop_groups _ rest _ [i] (by simp)

theorem partitionAll_flatten' {α} {k : Nat} (hk : 0 < k) :
    ∀ (n : Nat) (xs : List α), xs.length ≤ n → (partitionAll k xs).flatten = xs := by
  intro n
  induction n with
  | zero =>
    intro xs h
    have : xs = [] := List.length_eq_zero_iff.mp (by omega)
    subst this
    unfold partitionAll; simp
  | succ n ih =>
    intro xs h
    unfold partitionAll
    by_cases hx : k = 0 ∨ xs = []
    · rcases hx with hx | hx
      · omega
      · simp [hx]
    · simp only [hx, ↓reduceDIte, List.flatten_cons]
      rw [ih (xs.drop k) (by
        have : 0 < xs.length := List.length_pos_iff.mpr (fun e => hx (Or.inr e))
        simp [List.length_drop]; omega)]
      exact List.take_append_drop k xs

theorem partitionAll_flatten {α} {k : Nat} (hk : 0 < k) (xs : List α) :
    (partitionAll k xs).flatten = xs := partitionAll_flatten' hk xs.length xs (Nat.le_refl _)

theorem partitionAll_bounded' {α} {k : Nat} (hk : 0 < k) :
    ∀ (n : Nat) (xs : List α), xs.length ≤ n →
      ∀ g ∈ partitionAll k xs, 0 < g.length ∧ g.length ≤ k := by
  intro n
  induction n with
  | zero =>
    intro xs h g hg
    have : xs = [] := List.length_eq_zero_iff.mp (by omega)
    subst this
    unfold partitionAll at hg; simp at hg
  | succ n ih =>
    intro xs h g hg
    unfold partitionAll at hg
    by_cases hx : k = 0 ∨ xs = []
    · simp [hx] at hg
    · simp only [hx, ↓reduceDIte] at hg
      have hpos : 0 < xs.length := List.length_pos_iff.mpr (fun e => hx (Or.inr e))
      rcases List.mem_cons.mp hg with rfl | hg
      · simp [List.length_take]; omega
      · exact ih (xs.drop k) (by simp [List.length_drop]; omega) g hg

theorem newChunksLoop_flatten {limit : Nat} (hl : 0 < limit) :
    ∀ (rest : List (List Int)) (cur : List Int),
      (newChunksLoop limit rest cur).flatten = cur ++ rest.flatten := by
  intro rest
  induction rest with
  | nil =>
    intro cur
    unfold newChunksLoop
    by_cases h : cur.length > 0
    · simp [h]
    · have : cur = [] := List.length_eq_zero_iff.mp (by omega)
      simp [this]
  | cons idx rest ih =>
    intro cur
    unfold newChunksLoop
    by_cases h1 : idx.length > limit
    · simp only [h1, ↓reduceIte, List.flatten_append, List.flatten_cons]
      rw [partitionAll_flatten hl, ih]
      by_cases h : cur.length > 0
      · simp [h]
      · have : cur = [] := List.length_eq_zero_iff.mp (by omega)
        simp [this]
    · simp only [h1, ↓reduceIte]
      by_cases h2 : cur.length + idx.length > limit ∧ cur.length > 0
      · simp only [h2, and_self, ↓reduceIte, List.flatten_cons]; rw [ih]
      · simp only [h2, ↓reduceIte]
        by_cases h3 : (cur ++ idx).length > limit
        · simp only [h3, ↓reduceIte, List.flatten_cons]; rw [ih]; simp
        · simp only [h3, ↓reduceIte]; rw [ih]; simp

/-- `Shuffle._new_chunks` only regroups: the concatenated index list is preserved. -/
theorem newChunks_flatten {limit : Nat} (hl : 0 < limit) (indexer : List (List Int)) :
    (newChunks limit indexer).flatten = indexer.flatten := by
  unfold newChunks; rw [newChunksLoop_flatten hl]; simp

theorem newChunksLoop_bounded {limit : Nat} (hl : 0 < limit) :
    ∀ (rest : List (List Int)) (cur : List Int), cur.length ≤ limit →
      ∀ g ∈ newChunksLoop limit rest cur, 0 < g.length ∧ g.length ≤ limit := by
  intro rest
  induction rest with
  | nil =>
    intro cur hc g hg
    unfold newChunksLoop at hg
    by_cases h : cur.length > 0
    · simp [h] at hg; subst hg; exact ⟨h, hc⟩
    · simp [h] at hg
  | cons idx rest ih =>
    intro cur hc g hg
    unfold newChunksLoop at hg
    by_cases h1 : idx.length > limit
    · simp only [h1, ↓reduceIte] at hg
      rcases List.mem_append.mp hg with hg | hg
      · rcases List.mem_append.mp hg with hg | hg
        · by_cases h : cur.length > 0
          · simp [h] at hg; subst hg; exact ⟨h, hc⟩
          · simp [h] at hg
        · exact partitionAll_bounded' hl idx.length idx (Nat.le_refl _) g hg
      · exact ih [] (by simp) g hg
    · simp only [h1, ↓reduceIte] at hg
      by_cases h2 : cur.length + idx.length > limit ∧ cur.length > 0
      · simp only [h2, and_self, ↓reduceIte] at hg
        rcases List.mem_cons.mp hg with rfl | hg
        · exact ⟨h2.2, hc⟩
        · exact ih idx (by omega) g hg
      · simp only [h2, ↓reduceIte] at hg
        have hlen : (cur ++ idx).length ≤ limit := by
          simp only [List.length_append]
          by_cases h0 : cur.length > 0
          · have : ¬ (cur.length + idx.length > limit) := fun h => h2 ⟨h, h0⟩
            omega
          · omega
        have h3 : ¬ ((cur ++ idx).length > limit) := by omega
        simp only [h3, ↓reduceIte] at hg
        exact ih (cur ++ idx) hlen g hg

/-- every output chunk of `_new_chunks` is non-empty and no longer than the largest input chunk. -/
theorem newChunks_bounded {limit : Nat} (hl : 0 < limit) (indexer : List (List Int)) :
    ∀ g ∈ newChunks limit indexer, 0 < g.length ∧ g.length ≤ limit :=
  newChunksLoop_bounded hl indexer [] (by simp)

/-! ### cartesian products: the lifting of per-axis partitions to the block grid -/

theorem cart_nil {α} : cart ([] : List (List α)) = [[]] := rfl

theorem cart_cons {α} (l : List α) (ls : List (List α)) :
    cart (l :: ls) = l.flatMap (fun a => (cart ls).map (fun t => a :: t)) := rfl

theorem length_cart {α} : ∀ (ls : List (List α)),
    (cart ls).length = (ls.map List.length).foldr (· * ·) 1
  | [] => rfl
  | l :: ls => by
    rw [cart_cons, List.map_cons, List.foldr_cons, ← length_cart ls]
    induction l with
    | nil => simp
    | cons a l ih => simp [List.flatMap_cons, ih, Nat.add_mul, Nat.add_comm]

/-- membership in a product is componentwise membership. -/
theorem mem_cart {α} : ∀ (ls : List (List α)) (t : List α),
    t ∈ cart ls ↔ t.length = ls.length ∧ ∀ p ∈ t.zip ls, p.1 ∈ p.2
  | [], t => by
    simp only [cart_nil, List.mem_singleton, List.length_nil]
    constructor
    · intro h; subst h; simp
    · intro h; exact List.length_eq_zero_iff.mp h.1
  | l :: ls, t => by
    rw [cart_cons]
    simp only [List.mem_flatMap, List.mem_map]
    constructor
    · rintro ⟨a, ha, u, hu, rfl⟩
      have ih := (mem_cart ls u).mp hu
      refine ⟨by simp [ih.1], ?_⟩
      intro p hp
      rw [List.zip_cons_cons] at hp
      rcases List.mem_cons.mp hp with rfl | hp
      · exact ha
      · exact ih.2 p hp
    · rintro ⟨hlen, h⟩
      cases t with
      | nil => simp at hlen
      | cons a u =>
        refine ⟨a, ?_, u, ?_, rfl⟩
        · exact h (a, l) (by simp)
        · refine (mem_cart ls u).mpr ⟨by simpa using hlen, ?_⟩
          intro p hp
          exact h p (by rw [List.zip_cons_cons]; exact List.mem_cons_of_mem _ hp)

/-- products distribute over concatenation in the first (slowest) axis. -/
theorem cart_append_first {α} (a b : List α) (ls : List (List α)) :
    cart ((a ++ b) :: ls) = cart (a :: ls) ++ cart (b :: ls) := by
  simp [cart_cons, List.flatMap_append]

theorem flatMap_append_perm {α β} (l : List α) (f g : α → List β) :
    (l.flatMap (fun a => f a ++ g a)).Perm (l.flatMap f ++ l.flatMap g) := by
  induction l with
  | nil => simp
  | cons a l ih =>
    simp only [List.flatMap_cons]
    -- (f a ++ g a) ++ rest ~ (f a ++ F) ++ (g a ++ G)
    have h1 : ((f a ++ g a) ++ l.flatMap (fun a => f a ++ g a)).Perm
        ((f a ++ g a) ++ (l.flatMap f ++ l.flatMap g)) := List.Perm.append_left _ ih
    refine h1.trans ?_
    -- f a ++ g a ++ (F ++ G) ~ f a ++ F ++ (g a ++ G)
    rw [List.append_assoc, List.append_assoc]
    refine List.Perm.append_left _ ?_
    rw [← List.append_assoc, ← List.append_assoc]
    exact List.Perm.append_right _ List.perm_append_comm

theorem flatMap_swap_perm {α β γ} (l1 : List α) (l2 : List β) (f : α → β → List γ) :
    (l1.flatMap (fun a => l2.flatMap (fun b => f a b))).Perm
      (l2.flatMap (fun b => l1.flatMap (fun a => f a b))) := by
  induction l1 with
  | nil => simp
  | cons a l1 ih =>
    simp only [List.flatMap_cons]
    have h := flatMap_append_perm l2 (fun b => f a b) (fun b => l1.flatMap (fun a => f a b))
    exact (List.Perm.append_left _ ih).trans h.symm

theorem flatMap_perm_congr {α β} (l : List α) (f g : α → List β)
    (h : ∀ a ∈ l, (f a).Perm (g a)) : (l.flatMap f).Perm (l.flatMap g) := by
  induction l with
  | nil => simp
  | cons a l ih =>
    simp only [List.flatMap_cons]
    exact List.Perm.append (h a (by simp)) (ih (fun b hb => h b (by simp [hb])))

/-- **axisLift**: if on every axis the blocks `Bs[a]` (lists of positions, in output-block order)
concatenate to the axis selection, then the grid of blocks (`cart Bs`, each cell reading the
product of its per-axis pieces) reads exactly the product selection — every selected
multi-position exactly as often as it is selected. -/
theorem axisLift {α} : ∀ (Bs : List (List (List α))),
    ((cart Bs).flatMap cart).Perm (cart (Bs.map List.flatten))
  | [] => by simp [cart_nil, cart]
  | B :: Bs => by
    have ih := axisLift Bs
    rw [List.map_cons, cart_cons, cart_cons]
    -- LHS: B.flatMap (blk => (cart Bs).map (blk :: ·)) |>.flatMap cart
    rw [List.flatMap_assoc]
    -- RHS: B.flatten.flatMap …
    rw [List.flatten_eq_flatMap, List.flatMap_assoc]
    apply flatMap_perm_congr
    intro blk _
    simp only [id]
    -- ((cart Bs).map (blk :: ·)).flatMap cart = (cart Bs).flatMap (cell => blk.flatMap (x => (cart cell).map (x :: ·)))
    rw [List.flatMap_map]
    have e : (fun cell => cart (blk :: cell)) =
        (fun cell => blk.flatMap (fun x => (cart cell).map (fun t => x :: t))) := by
      funext cell; rw [cart_cons]
    rw [e]
    refine (flatMap_swap_perm (cart Bs) blk (fun cell x => (cart cell).map (fun t => x :: t))).trans ?_
    apply flatMap_perm_congr
    intro x _
    -- (cart Bs).flatMap (cell => (cart cell).map (x :: ·)) = ((cart Bs).flatMap cart).map (x :: ·)
    rw [← List.map_flatMap]
    exact List.Perm.map _ ih


/-! ### counting items -/

theorem count3 : ∀ l : List Ix,
    l.length = l.countP Ix.consumes + l.countP Ix.isNone + l.countP Ix.isEllipsis
  | [] => rfl
  | x :: l => by
    have ih := count3 l
    cases x <;> simp [List.countP_cons, Ix.consumes, Ix.isNone, Ix.isEllipsis] <;> omega

theorem countP_notNone : ∀ l : List Ix,
    l.countP (fun i => !i.isNone) = l.countP Ix.consumes + l.countP Ix.isEllipsis
  | [] => rfl
  | x :: l => by
    rw [List.countP_cons, List.countP_cons, List.countP_cons, countP_notNone l]
    cases x <;> simp [Ix.consumes, Ix.isNone, Ix.isEllipsis] <;> omega

theorem filter_notNone_length (l : List Ix) :
    (l.filter (fun i => !i.isNone)).length = l.countP Ix.consumes + l.countP Ix.isEllipsis := by
  rw [← List.countP_eq_length_filter, countP_notNone]

theorem any_isEllipsis_iff (l : List Ix) : l.any Ix.isEllipsis = true ↔ 0 < l.countP Ix.isEllipsis := by
  rw [List.countP_pos_iff, List.any_eq_true]

theorem replaceFirst_of_not_any (fill : List Ix) : ∀ l : List Ix,
    l.any Ix.isEllipsis = false → replaceFirst fill l = l
  | [], _ => rfl
  | x :: l, h => by
    rw [List.any_cons, Bool.or_eq_false_iff] at h
    have ih := replaceFirst_of_not_any fill l h.2
    cases x <;> simp_all [replaceFirst, Ix.isEllipsis]

theorem countP_replaceFirst (P : Ix → Bool) (hP : P .ellipsis = false) (fill : List Ix) :
    ∀ l : List Ix, l.any Ix.isEllipsis = true →
      (replaceFirst fill l).countP P = l.countP P + fill.countP P
  | [], h => by simp at h
  | x :: l, h => by
    cases x with
    | ellipsis => simp [replaceFirst, hP, List.countP_append, Nat.add_comm]
    | int i =>
      simp only [List.any_cons, Ix.isEllipsis, Bool.false_or] at h
      simp only [replaceFirst, List.countP_cons, countP_replaceFirst P hP fill l h]; omega
    | slc s =>
      simp only [List.any_cons, Ix.isEllipsis, Bool.false_or] at h
      simp only [replaceFirst, List.countP_cons, countP_replaceFirst P hP fill l h]; omega
    | none_ =>
      simp only [List.any_cons, Ix.isEllipsis, Bool.false_or] at h
      simp only [replaceFirst, List.countP_cons, countP_replaceFirst P hP fill l h]; omega
    | lst v =>
      simp only [List.any_cons, Ix.isEllipsis, Bool.false_or] at h
      simp only [replaceFirst, List.countP_cons, countP_replaceFirst P hP fill l h]; omega

theorem countP_isEllipsis_replaceFirst (fill : List Ix) :
    ∀ l : List Ix, l.any Ix.isEllipsis = true →
      (replaceFirst fill l).countP Ix.isEllipsis + 1 = l.countP Ix.isEllipsis + fill.countP Ix.isEllipsis
  | [], h => by simp at h
  | x :: l, h => by
    cases x with
    | ellipsis => simp [replaceFirst, List.countP_cons, Ix.isEllipsis, List.countP_append]; omega
    | int i =>
      simp only [List.any_cons, Ix.isEllipsis, Bool.false_or] at h
      have := countP_isEllipsis_replaceFirst fill l h
      simp [replaceFirst, Ix.isEllipsis]; omega
    | slc s =>
      simp only [List.any_cons, Ix.isEllipsis, Bool.false_or] at h
      have := countP_isEllipsis_replaceFirst fill l h
      simp [replaceFirst, Ix.isEllipsis]; omega
    | none_ =>
      simp only [List.any_cons, Ix.isEllipsis, Bool.false_or] at h
      have := countP_isEllipsis_replaceFirst fill l h
      simp [replaceFirst, Ix.isEllipsis]; omega
    | lst v =>
      simp only [List.any_cons, Ix.isEllipsis, Bool.false_or] at h
      have := countP_isEllipsis_replaceFirst fill l h
      simp [replaceFirst, Ix.isEllipsis]; omega

theorem countP_fill (m : Nat) :
    (List.replicate m (Ix.slc colon)).countP Ix.consumes = m ∧
    (List.replicate m (Ix.slc colon)).countP Ix.isNone = 0 ∧
    (List.replicate m (Ix.slc colon)).countP Ix.isEllipsis = 0 := by
  simp [List.countP_replicate, Ix.consumes, Ix.isNone, Ix.isEllipsis]

/-! ### the expansion step of `normalize_index` vs NumPy's -/

/-- `replace_ellipsis` followed by the padding with full slices. -/
def expand (n : Nat) (idx : List Ix) : List Ix :=
  replaceEllipsis n idx ++
    List.replicate (n - (replaceEllipsis n idx).countP (fun i => !i.isNone)) (Ix.slc colon)

/-- the three passes of `normalize_index` after the expansion. -/
def passes (l : List Ix) (shape : List Int) : Except Err (List Ix) :=
  match checkAll (noneShape l shape) with
  | .error e => .error e
  | .ok _ =>
    match normSlices (noneShape l shape) with
    | .error e => .error e
    | .ok al' => .ok (al'.map posifyItem)

theorem normalizeIndex_eq (idx : List Ix) (shape : List Int) :
    normalizeIndex idx shape =
      if ((expand shape.length idx).filter (fun i => !i.isNone)).length > shape.length then .error .indexError
      else passes (expand shape.length idx) shape := rfl

/-- counts of the expanded tuple. -/
theorem expand_counts (n : Nat) (idx : List Ix) :
    (expand n idx).countP Ix.isNone = idx.countP Ix.isNone ∧
    (expand n idx).countP Ix.isEllipsis = idx.countP Ix.isEllipsis - 1 ∧
    idx.countP Ix.consumes ≤ (expand n idx).countP Ix.consumes ∧
    (expand n idx).countP Ix.isLst = idx.countP Ix.isLst := by
  have fl : ∀ m, (List.replicate m (Ix.slc colon)).countP Ix.isLst = 0 := by
    intro m; simp [List.countP_replicate, Ix.isLst]
  unfold expand replaceEllipsis
  by_cases ha : idx.any Ix.isEllipsis = true
  · simp only [ha, ↓reduceIte, List.countP_append]
    have f := countP_fill
    have hpos := (any_isEllipsis_iff idx).mp ha
    refine ⟨?_, ?_, ?_, ?_⟩
    · rw [countP_replaceFirst Ix.isNone rfl _ idx ha, (f _).2.1, (f _).2.1]; omega
    · have := countP_isEllipsis_replaceFirst
        (List.replicate ((n : Int) - ((idx.length : Int) - (idx.countP Ix.isNone : Int) - 1)).toNat (Ix.slc colon)) idx ha
      rw [(f _).2.2] at this
      rw [(f _).2.2]; omega
    · rw [countP_replaceFirst Ix.consumes rfl _ idx ha]; omega
    · rw [countP_replaceFirst Ix.isLst rfl _ idx ha, fl, fl]; omega
  · simp only [ha, Bool.false_eq_true, ↓reduceIte, List.countP_append]
    have f := countP_fill
    have h0 : idx.countP Ix.isEllipsis = 0 := by
      exact Nat.eq_zero_of_not_pos (fun hp => ha ((any_isEllipsis_iff idx).mpr hp))
    refine ⟨?_, ?_, ?_, ?_⟩
    · rw [(f _).2.1]; omega
    · rw [(f _).2.2]; omega
    · omega
    · rw [fl]; omega

/-- With at most one `Ellipsis` and no more consuming items than axes, the model's expansion
is NumPy's, and it has exactly one consuming item per axis. -/
theorem expand_eq_npExpand (n : Nat) (idx : List Ix)
    (he : idx.countP Ix.isEllipsis ≤ 1) (hk : idx.countP Ix.consumes ≤ n) :
    npExpand n idx = .ok (expand n idx) ∧ (expand n idx).countP Ix.consumes = n := by
  have f := countP_fill
  have h3 := count3 idx
  unfold npExpand expand replaceEllipsis
  simp only [show ¬ (idx.countP Ix.isEllipsis > 1) from by omega, show ¬ (idx.countP Ix.consumes > n) from by omega,
    ↓reduceIte]
  by_cases ha : idx.any Ix.isEllipsis = true
  · have hpos := (any_isEllipsis_iff idx).mp ha
    have h1 : idx.countP Ix.isEllipsis = 1 := by omega
    have hextra : ((n : Int) - ((idx.length : Int) - (idx.countP Ix.isNone : Int) - 1)).toNat
        = n - idx.countP Ix.consumes := by omega
    simp only [ha, ↓reduceIte, hextra]
    have hc : (replaceFirst (List.replicate (n - idx.countP Ix.consumes) (Ix.slc colon)) idx).countP Ix.consumes = n := by
      rw [countP_replaceFirst Ix.consumes rfl _ idx ha, (f _).1]; omega
    have he' : (replaceFirst (List.replicate (n - idx.countP Ix.consumes) (Ix.slc colon)) idx).countP Ix.isEllipsis = 0 := by
      have := countP_isEllipsis_replaceFirst (List.replicate (n - idx.countP Ix.consumes) (Ix.slc colon)) idx ha
      rw [(f _).2.2] at this; omega
    have hnn : (replaceFirst (List.replicate (n - idx.countP Ix.consumes) (Ix.slc colon)) idx).countP (fun i => !i.isNone) = n := by
      rw [countP_notNone, hc, he']; rfl
    rw [hnn, Nat.sub_self]
    simp [hc]
  · have h0 : idx.countP Ix.isEllipsis = 0 := by
      exact Nat.eq_zero_of_not_pos (fun hp => ha ((any_isEllipsis_iff idx).mpr hp))
    simp only [ha, Bool.false_eq_true, ↓reduceIte]
    rw [countP_notNone, h0, Nat.add_zero]
    refine ⟨rfl, ?_⟩
    rw [List.countP_append, (f _).1]; omega

/-! ### the three passes, item by item -/

theorem passes_nil (shape : List Int) : passes [] shape = .ok [] := rfl

/-- one step of the three passes, given the pairing of the head item. -/
theorem passes_cons (x : Ix) (rest : List Ix) (shape shape' : List Int) (od : Option Int)
    (h : noneShape (x :: rest) shape = (x, od) :: noneShape rest shape') :
    passes (x :: rest) shape =
      match checkItem (x, od) with
      | .error e => .error e
      | .ok _ =>
        match normSlice1 (x, od) with
        | .error e =>
          (match checkAll (noneShape rest shape') with
           | .error e' => .error e'
           | .ok _ => .error e)
        | .ok q =>
          match passes rest shape' with
          | .error e => .error e
          | .ok r => .ok (posifyItem q :: r) := by
  unfold passes
  rw [h]
  simp only [checkAll, normSlices]
  cases checkItem (x, od) with
  | error e => rfl
  | ok u =>
    simp only
    cases checkAll (noneShape rest shape') with
    | error e =>
      cases normSlice1 (x, od) <;> rfl
    | ok u' =>
      simp only
      cases normSlice1 (x, od) with
      | error e => rfl
      | ok q =>
        simp only
        cases normSlices (noneShape rest shape') <;> rfl

theorem noneShape_none (rest : List Ix) (shape : List Int) :
    noneShape (.none_ :: rest) shape = (.none_, none) :: noneShape rest shape := by
  cases shape <;> rfl

theorem noneShape_nilshape (x : Ix) (rest : List Ix) :
    noneShape (x :: rest) [] = (x, none) :: noneShape rest [] := by
  cases x <;> rfl

theorem noneShape_cons (x : Ix) (hx : x ≠ .none_) (rest : List Ix) (d : Int) (shape : List Int) :
    noneShape (x :: rest) (d :: shape) = (x, some d) :: noneShape rest shape := by
  cases x <;> first | rfl | exact absurd rfl hx

theorem stp_normalizeSlice (s : PySlice) (d : Int) (hs : s.stp ≠ 0) : (normalizeSlice s d).stp = s.stp := by
  unfold normalizeSlice
  by_cases h1 : s.stp > 0
  · simp only [h1, ↓reduceIte]
    exact Dask.Lemmas.SliceAlgebra.stp_mk_ite _ _ _
  · by_cases h2 : s.stp < 0
    · simp only [h1, h2, ↓reduceIte]
      split
      · rfl
      · split <;> rfl
    · omega

theorem posifyInt_bounds {d i : Int} (h1 : -d ≤ i) (h2 : i < d) : 0 ≤ posifyInt d i ∧ posifyInt d i < d := by
  unfold posifyInt; split <;> omega

theorem posifyInt_nonneg {d i : Int} (h : 0 ≤ i) : posifyInt d i = i := by
  unfold posifyInt; split <;> omega

/-- The three passes preserve NumPy's meaning, produce the normal form, and keep the kind of
every item; an `Ellipsis` cannot survive them (hypothesis: the "Too many indices" test passed). -/
theorem passes_spec : ∀ (l : List Ix) (shape : List Int) (idx' : List Ix),
    (∀ d ∈ shape, 0 ≤ d) → l.countP (fun i => !i.isNone) ≤ shape.length → passes l shape = .ok idx' →
      npAxes idx' shape = npAxes l shape ∧ NormalFor idx' shape ∧
      idx'.countP Ix.consumes = l.countP Ix.consumes ∧ idx'.countP Ix.isNone = l.countP Ix.isNone ∧
      idx'.countP Ix.isEllipsis = 0 ∧ l.countP Ix.isEllipsis = 0 ∧
      idx'.countP Ix.isLst = l.countP Ix.isLst
  | [], shape, idx', _, _, h => by
    rw [passes_nil] at h; cases h
    simp [NormalFor]
  | x :: rest, shape, idx', hd, hfit, h => by
    cases x with
    | none_ =>
      rw [passes_cons _ _ shape shape none (noneShape_none rest shape)] at h
      simp only [checkItem, normSlice1] at h
      cases hp : passes rest shape with
      | error e => rw [hp] at h; cases h
      | ok r =>
        rw [hp] at h; cases h
        have ih := passes_spec rest shape r hd (by simpa [List.countP_cons, Ix.isNone] using hfit) hp
        simp only [posifyItem, npAxes, NormalFor, List.countP_cons, Ix.consumes, Ix.isNone, Ix.isEllipsis, Ix.isLst]
        refine ⟨by rw [ih.1], ih.2.1, by simp [ih.2.2.1], by simp [ih.2.2.2.1], by simp [ih.2.2.2.2.1], by simp [ih.2.2.2.2.2.1], by simp [ih.2.2.2.2.2.2]⟩
    | ellipsis =>
      cases shape with
      | nil => simp [Ix.isNone] at hfit
      | cons d sh =>
        rw [passes_cons _ _ (d :: sh) sh (some d) (noneShape_cons _ (by simp) rest d sh)] at h
        simp [checkItem] at h
    | int i =>
      cases shape with
      | nil => simp [Ix.isNone] at hfit
      | cons d sh =>
        rw [passes_cons _ _ (d :: sh) sh (some d) (noneShape_cons _ (by simp) rest d sh)] at h
        simp only [checkItem, normSlice1] at h
        by_cases hb : i ≥ d ∨ i < -d
        · simp [hb] at h
        · simp only [hb, ↓reduceIte] at h
          cases hp : passes rest sh with
          | error e => rw [hp] at h; cases h
          | ok r =>
            rw [hp] at h; cases h
            have ih := passes_spec rest sh r (fun d' hd' => hd d' (List.mem_cons_of_mem _ hd'))
              (by simpa [List.countP_cons, Ix.isNone] using hfit) hp
            have hb' : -d ≤ i ∧ i < d := by omega
            have hpb := posifyInt_bounds hb'.1 hb'.2
            have c1 : -d ≤ posifyInt d i ∧ posifyInt d i < d := by omega
            simp only [posifyItem, npAxes, NormalFor, List.countP_cons, Ix.consumes, Ix.isNone, Ix.isEllipsis, Ix.isLst,
              c1, hb', and_self, ↓reduceIte, posifyInt_nonneg hpb.1, ih.1]
            refine ⟨trivial, ⟨?_, ih.2.1⟩, by simp [ih.2.2.1], by simp [ih.2.2.2.1], by simp [ih.2.2.2.2.1], by simp [ih.2.2.2.2.2.1], by simp [ih.2.2.2.2.2.2]⟩
            first | exact hpb | exact ⟨hpb.1, trivial⟩ | exact hpb.1
    | slc s =>
      cases shape with
      | nil => simp [Ix.isNone] at hfit
      | cons d sh =>
        rw [passes_cons _ _ (d :: sh) sh (some d) (noneShape_cons _ (by simp) rest d sh)] at h
        simp only [checkItem, normSlice1] at h
        by_cases hz : s.stp = 0
        · simp only [hz, ↓reduceIte] at h
          cases hc : checkAll (noneShape rest sh) <;> rw [hc] at h <;> cases h
        · simp only [hz, ↓reduceIte] at h
          cases hp : passes rest sh with
          | error e => rw [hp] at h; cases h
          | ok r =>
            rw [hp] at h; cases h
            have ih := passes_spec rest sh r (fun d' hd' => hd d' (List.mem_cons_of_mem _ hd'))
              (by simpa [List.countP_cons, Ix.isNone] using hfit) hp
            have hd0 : 0 ≤ d := hd d (by simp)
            have hz' : (normalizeSlice s d).stp ≠ 0 := by rw [stp_normalizeSlice s d hz]; exact hz
            simp only [posifyItem, npAxes, NormalFor, List.countP_cons, Ix.consumes, Ix.isNone, Ix.isEllipsis, Ix.isLst,
              hz, hz', ↓reduceIte, Dask.Lemmas.SliceAlgebra.sel_normalizeSlice s d hd0 hz, ih.1]
            refine ⟨trivial, ⟨⟨s, hz, rfl⟩, ih.2.1⟩, by simp [ih.2.2.1], by simp [ih.2.2.2.1], by simp [ih.2.2.2.2.1], by simp [ih.2.2.2.2.2.1], by simp [ih.2.2.2.2.2.2]⟩
    | lst v =>
      cases shape with
      | nil => simp [Ix.isNone] at hfit
      | cons d sh =>
        rw [passes_cons _ _ (d :: sh) sh (some d) (noneShape_cons _ (by simp) rest d sh)] at h
        simp only [checkItem, normSlice1] at h
        by_cases hb : (v.any (fun i => decide (i ≥ d)) = true ∨ v.any (fun i => decide (i < -d)) = true)
        · rw [if_pos hb] at h; cases h
        · rw [if_neg hb] at h
          simp only at h
          cases hp : passes rest sh with
          | error e => rw [hp] at h; cases h
          | ok r =>
            rw [hp] at h; cases h
            have ih := passes_spec rest sh r (fun d' hd' => hd d' (List.mem_cons_of_mem _ hd'))
              (by simpa [List.countP_cons, Ix.isNone] using hfit) hp
            have hin : ∀ i ∈ v, -d ≤ i ∧ i < d := by
              intro i hi
              have h1 : ¬ (i ≥ d) := fun hge => hb (Or.inl (List.any_eq_true.mpr ⟨i, hi, by simpa using hge⟩))
              have h2 : ¬ (i < -d) := fun hlt => hb (Or.inr (List.any_eq_true.mpr ⟨i, hi, by simpa using hlt⟩))
              omega
            have hall : v.all (fun i => decide (-d ≤ i ∧ i < d)) = true :=
              List.all_eq_true.mpr (fun i hi => by simpa using hin i hi)
            have hin' : ∀ i ∈ v.map (posifyInt d), 0 ≤ i ∧ i < d := by
              intro i hi
              rcases List.mem_map.mp hi with ⟨j, hj, rfl⟩
              exact posifyInt_bounds (hin j hj).1 (hin j hj).2
            have hall' : (v.map (posifyInt d)).all (fun i => decide (-d ≤ i ∧ i < d)) = true :=
              List.all_eq_true.mpr (fun i hi => by have := hin' i hi; simp; omega)
            have hidem : (v.map (posifyInt d)).map (posifyInt d) = v.map (posifyInt d) := by
              rw [List.map_map]
              apply List.map_congr_left
              intro j hj
              exact posifyInt_nonneg (posifyInt_bounds (hin j hj).1 (hin j hj).2).1
            simp only [posifyItem, npAxes, NormalFor, List.countP_cons, Ix.consumes, Ix.isNone, Ix.isEllipsis, Ix.isLst,
              hall, hall', ↓reduceIte, hidem, List.length_map, ih.1]
            refine ⟨trivial, ⟨hin', ih.2.1⟩, by simp [ih.2.2.1], by simp [ih.2.2.2.1], by simp [ih.2.2.2.2.1], by simp [ih.2.2.2.2.2.1], by simp [ih.2.2.2.2.2.2]⟩


/-! ### `normalize_index` is sound and complete w.r.t. NumPy's meaning -/

theorem npExpand_normal (n : Nat) (l : List Ix) (he : l.countP Ix.isEllipsis = 0)
    (hk : l.countP Ix.consumes = n) : npExpand n l = .ok l := by
  unfold npExpand
  have ha : l.any Ix.isEllipsis = false := by
    cases h : l.any Ix.isEllipsis with
    | false => rfl
    | true => have := (any_isEllipsis_iff l).mp h; omega
  simp [he, hk, ha]

theorem npAxes_ok_of_normal : ∀ (l : List Ix) (shape : List Int), NormalFor l shape →
    ∃ r, npAxes l shape = .ok r
  | [], shape, _ => ⟨_, rfl⟩
  | x :: rest, shape, h => by
    cases x with
    | none_ =>
      simp only [NormalFor] at h
      rcases npAxes_ok_of_normal rest shape h with ⟨r, hr⟩
      exact ⟨_, by simp only [npAxes, hr]; rfl⟩
    | ellipsis => simp [NormalFor] at h
    | int i =>
      cases shape with
      | nil => simp [NormalFor] at h
      | cons d sh =>
        simp only [NormalFor] at h
        rcases npAxes_ok_of_normal rest sh h.2 with ⟨r, hr⟩
        have c : -d ≤ i ∧ i < d := by omega
        exact ⟨_, by simp only [npAxes, c, and_self, ↓reduceIte, hr]; rfl⟩
    | slc s =>
      cases shape with
      | nil => simp [NormalFor] at h
      | cons d sh =>
        simp only [NormalFor] at h
        rcases npAxes_ok_of_normal rest sh h.2 with ⟨r, hr⟩
        rcases h.1 with ⟨s0, hs0, rfl⟩
        have c : (normalizeSlice s0 d).stp ≠ 0 := by rw [stp_normalizeSlice s0 d hs0]; exact hs0
        exact ⟨_, by simp only [npAxes, c, ↓reduceIte, hr]; rfl⟩
    | lst v =>
      cases shape with
      | nil => simp [NormalFor] at h
      | cons d sh =>
        simp only [NormalFor] at h
        rcases npAxes_ok_of_normal rest sh h.2 with ⟨r, hr⟩
        have c : v.all (fun i => decide (-d ≤ i ∧ i < d)) = true :=
          List.all_eq_true.mpr (fun i hi => by have := h.1 i hi; simp; omega)
        exact ⟨_, by simp only [npAxes, c, ↓reduceIte, hr]; rfl⟩

theorem normalizeIndex_ok_inv (idx idx' : List Ix) (shape : List Int)
    (h : normalizeIndex idx shape = .ok idx') :
    (expand shape.length idx).countP (fun i => !i.isNone) ≤ shape.length ∧
      passes (expand shape.length idx) shape = .ok idx' := by
  rw [normalizeIndex_eq] at h
  by_cases too : ((expand shape.length idx).filter (fun i => !i.isNone)).length > shape.length
  · rw [if_pos too] at h; cases h
  · rw [if_neg too] at h
    refine ⟨?_, h⟩
    rw [List.countP_eq_length_filter]; omega

/-- **normalize_index is sound**: the normalised tuple has the same NumPy meaning, is in normal
form item by item, has exactly one consuming item per axis, no `Ellipsis`, and the `None`s of
the input. -/
theorem normalizeIndex_sound (idx idx' : List Ix) (shape : List Int) (hd : ∀ d ∈ shape, 0 ≤ d)
    (h : normalizeIndex idx shape = .ok idx') :
    npIndex idx' shape = npIndex idx shape ∧ NormalFor idx' shape ∧
    idx'.countP Ix.consumes = shape.length ∧ idx'.countP Ix.isEllipsis = 0 ∧
    idx'.countP Ix.isNone = idx.countP Ix.isNone ∧ idx'.countP Ix.isLst = idx.countP Ix.isLst := by
  rcases normalizeIndex_ok_inv idx idx' shape h with ⟨hfit, hp⟩
  have ps := passes_spec _ shape idx' hd hfit hp
  have ec := expand_counts shape.length idx
  have he : idx.countP Ix.isEllipsis ≤ 1 := by omega
  have hk : idx.countP Ix.consumes ≤ shape.length := by
    rw [countP_notNone] at hfit; omega
  have ee := expand_eq_npExpand shape.length idx he hk
  have hk' : idx'.countP Ix.consumes = shape.length := by rw [ps.2.2.1, ee.2]
  refine ⟨?_, ps.2.1, hk', ps.2.2.2.2.1, by rw [ps.2.2.2.1, ec.1], by rw [ps.2.2.2.2.2.2, ec.2.2.2]⟩
  unfold npIndex
  rw [ee.1, npExpand_normal shape.length idx' ps.2.2.2.2.1 hk']
  exact ps.1

theorem np_to_passes : ∀ (l : List Ix) (shape : List Int) (r : List (List Int) × List Nat),
    npAxes l shape = .ok r → ∃ idx', passes l shape = .ok idx'
  | [], shape, _, _ => ⟨[], rfl⟩
  | x :: rest, shape, r, h => by
    cases x with
    | none_ =>
      simp only [npAxes] at h
      cases hr : npAxes rest shape with
      | error e => rw [hr] at h; cases h
      | ok r0 =>
        rcases np_to_passes rest shape r0 hr with ⟨q, hq⟩
        exact ⟨_, by rw [passes_cons _ _ shape shape none (noneShape_none rest shape)]; simp only [checkItem, normSlice1, hq]; rfl⟩
    | ellipsis => simp [npAxes] at h
    | int i =>
      cases shape with
      | nil => simp [npAxes] at h
      | cons d sh =>
        simp only [npAxes] at h
        by_cases c : -d ≤ i ∧ i < d
        · rw [if_pos c] at h
          cases hr : npAxes rest sh with
          | error e => rw [hr] at h; cases h
          | ok r0 =>
            rcases np_to_passes rest sh r0 hr with ⟨q, hq⟩
            have c' : ¬ (i ≥ d ∨ i < -d) := by omega
            exact ⟨_, by rw [passes_cons _ _ (d :: sh) sh (some d) (noneShape_cons _ (by simp) rest d sh)]; simp only [checkItem, normSlice1, c', ↓reduceIte, hq]; rfl⟩
        · rw [if_neg c] at h; cases h
    | slc s =>
      cases shape with
      | nil => simp [npAxes] at h
      | cons d sh =>
        simp only [npAxes] at h
        by_cases c : s.stp = 0
        · rw [if_pos c] at h; cases h
        · rw [if_neg c] at h
          cases hr : npAxes rest sh with
          | error e => rw [hr] at h; cases h
          | ok r0 =>
            rcases np_to_passes rest sh r0 hr with ⟨q, hq⟩
            exact ⟨_, by rw [passes_cons _ _ (d :: sh) sh (some d) (noneShape_cons _ (by simp) rest d sh)]; simp only [checkItem, normSlice1, c, ↓reduceIte, hq]; rfl⟩
    | lst v =>
      cases shape with
      | nil => simp [npAxes] at h
      | cons d sh =>
        simp only [npAxes] at h
        by_cases c : v.all (fun i => decide (-d ≤ i ∧ i < d)) = true
        · rw [if_pos c] at h
          cases hr : npAxes rest sh with
          | error e => rw [hr] at h; cases h
          | ok r0 =>
            rcases np_to_passes rest sh r0 hr with ⟨q, hq⟩
            have c' : ¬ (v.any (fun i => decide (i ≥ d)) = true ∨ v.any (fun i => decide (i < -d)) = true) := by
              rintro (hx | hx) <;> rcases List.any_eq_true.mp hx with ⟨i, hi, hi'⟩ <;>
                have := List.all_eq_true.mp c i hi <;> simp at hi' this <;> omega
            exact ⟨_, by rw [passes_cons _ _ (d :: sh) sh (some d) (noneShape_cons _ (by simp) rest d sh)]; simp only [checkItem, normSlice1, if_neg c', hq]; rfl⟩
        · rw [if_neg c] at h; cases h

/-- **normalize_index refuses exactly the indices NumPy refuses** (any error class). -/
theorem normalizeIndex_ok_iff (idx : List Ix) (shape : List Int) (hd : ∀ d ∈ shape, 0 ≤ d) :
    (∃ idx', normalizeIndex idx shape = .ok idx') ↔ (∃ r, npIndex idx shape = .ok r) := by
  constructor
  · rintro ⟨idx', h⟩
    have s := normalizeIndex_sound idx idx' shape hd h
    rcases npAxes_ok_of_normal idx' shape s.2.1 with ⟨r, hr⟩
    refine ⟨r, ?_⟩
    rw [← s.1]
    unfold npIndex
    rw [npExpand_normal shape.length idx' s.2.2.2.1 s.2.2.1]
    exact hr
  · rintro ⟨r, h⟩
    unfold npIndex at h
    have he : idx.countP Ix.isEllipsis ≤ 1 := by
      by_cases c : idx.countP Ix.isEllipsis > 1
      · simp [npExpand, c] at h
      · omega
    have hk : idx.countP Ix.consumes ≤ shape.length := by
      by_cases c : idx.countP Ix.consumes > shape.length
      · simp [npExpand, show ¬ idx.countP Ix.isEllipsis > 1 from by omega, c] at h
      · omega
    have ee := expand_eq_npExpand shape.length idx he hk
    rw [ee.1] at h
    rcases np_to_passes _ shape r h with ⟨idx', hp⟩
    refine ⟨idx', ?_⟩
    rw [normalizeIndex_eq]
    have ec := expand_counts shape.length idx
    have : ¬ (((expand shape.length idx).filter (fun i => !i.isNone)).length > shape.length) := by
      rw [filter_notNone_length, ee.2, ec.2.1]; omega
    rw [if_neg this]; exact hp

/-! ### error classes -/

theorem npAxes_error_class : ∀ (l : List Ix) (shape : List Int) (e : Err),
    (∀ s, Ix.slc s ∈ l → s.stp ≠ 0) → npAxes l shape = .error e → e = .indexError
  | [], shape, e, _, h => by simp [npAxes] at h
  | x :: rest, shape, e, hz, h => by
    have hz' : ∀ s, Ix.slc s ∈ rest → s.stp ≠ 0 := fun s hs => hz s (List.mem_cons_of_mem _ hs)
    cases x with
    | none_ =>
      simp only [npAxes] at h
      cases hr : npAxes rest shape with
      | error e' => rw [hr] at h; cases h; exact npAxes_error_class rest shape e hz' hr
      | ok r0 => rw [hr] at h; cases h
    | ellipsis => simp only [npAxes] at h; cases h; rfl
    | int i =>
      cases shape with
      | nil => simp only [npAxes] at h; cases h; rfl
      | cons d sh =>
        simp only [npAxes] at h
        by_cases c : -d ≤ i ∧ i < d
        · rw [if_pos c] at h
          cases hr : npAxes rest sh with
          | error e' => rw [hr] at h; cases h; exact npAxes_error_class rest sh e hz' hr
          | ok r0 => rw [hr] at h; cases h
        · rw [if_neg c] at h; cases h; rfl
    | slc s =>
      cases shape with
      | nil => simp only [npAxes] at h; cases h; rfl
      | cons d sh =>
        simp only [npAxes] at h
        rw [if_neg (hz s (by simp))] at h
        cases hr : npAxes rest sh with
        | error e' => rw [hr] at h; cases h; exact npAxes_error_class rest sh e hz' hr
        | ok r0 => rw [hr] at h; cases h
    | lst v =>
      cases shape with
      | nil => simp only [npAxes] at h; cases h; rfl
      | cons d sh =>
        simp only [npAxes] at h
        by_cases c : v.all (fun i => decide (-d ≤ i ∧ i < d)) = true
        · rw [if_pos c] at h
          cases hr : npAxes rest sh with
          | error e' => rw [hr] at h; cases h; exact npAxes_error_class rest sh e hz' hr
          | ok r0 => rw [hr] at h; cases h
        · rw [if_neg c] at h; cases h; rfl

theorem checkAll_error_class : ∀ (l : List Ix) (shape : List Int) (e : Err),
    l.countP Ix.isEllipsis = 0 → checkAll (noneShape l shape) = .error e → e = .indexError
  | [], shape, e, _, h => by simp [noneShape, checkAll] at h
  | x :: rest, shape, e, he, h => by
    have he' : rest.countP Ix.isEllipsis = 0 := by
      cases x <;> simp [List.countP_cons, Ix.isEllipsis] at he ⊢ <;> omega
    cases x with
    | none_ =>
      rw [noneShape_none] at h
      simp only [checkAll, checkItem] at h
      exact checkAll_error_class rest shape e he' h
    | ellipsis => simp [List.countP_cons, Ix.isEllipsis] at he
    | int i =>
      cases shape with
      | nil =>
        rw [noneShape_nilshape] at h
        simp only [checkAll, checkItem] at h
        exact checkAll_error_class rest [] e he' h
      | cons d sh =>
        rw [noneShape_cons _ (by simp)] at h
        simp only [checkAll, checkItem] at h
        by_cases c : i ≥ d ∨ i < -d
        · rw [if_pos c] at h; cases h; rfl
        · rw [if_neg c] at h; exact checkAll_error_class rest sh e he' h
    | slc s =>
      cases shape with
      | nil =>
        rw [noneShape_nilshape] at h
        simp only [checkAll, checkItem] at h
        exact checkAll_error_class rest [] e he' h
      | cons d sh =>
        rw [noneShape_cons _ (by simp)] at h
        simp only [checkAll, checkItem] at h
        exact checkAll_error_class rest sh e he' h
    | lst v =>
      cases shape with
      | nil =>
        rw [noneShape_nilshape] at h
        simp only [checkAll, checkItem] at h
        exact checkAll_error_class rest [] e he' h
      | cons d sh =>
        rw [noneShape_cons _ (by simp)] at h
        simp only [checkAll, checkItem] at h
        by_cases c : (v.any (fun i => decide (i ≥ d)) = true ∨ v.any (fun i => decide (i < -d)) = true)
        · rw [if_pos c] at h; cases h; rfl
        · rw [if_neg c] at h; exact checkAll_error_class rest sh e he' h

theorem normSlices_ok_of_nozero : ∀ (l : List Ix) (shape : List Int),
    (∀ s, Ix.slc s ∈ l → s.stp ≠ 0) → ∃ r, normSlices (noneShape l shape) = .ok r
  | [], shape, _ => ⟨[], rfl⟩
  | x :: rest, shape, hz => by
    have hz' : ∀ s, Ix.slc s ∈ rest → s.stp ≠ 0 := fun s hs => hz s (List.mem_cons_of_mem _ hs)
    cases x with
    | none_ =>
      rcases normSlices_ok_of_nozero rest shape hz' with ⟨r, hr⟩
      exact ⟨_, by rw [noneShape_none]; simp only [normSlices, normSlice1, hr]; rfl⟩
    | slc s =>
      cases shape with
      | nil =>
        rcases normSlices_ok_of_nozero rest [] hz' with ⟨r, hr⟩
        exact ⟨_, by rw [noneShape_nilshape]; simp only [normSlices, normSlice1, hr]; rfl⟩
      | cons d sh =>
        rcases normSlices_ok_of_nozero rest sh hz' with ⟨r, hr⟩
        exact ⟨_, by rw [noneShape_cons _ (by simp)]; simp only [normSlices, normSlice1, if_neg (hz s (by simp)), hr]; rfl⟩
    | int i =>
      cases shape with
      | nil =>
        rcases normSlices_ok_of_nozero rest [] hz' with ⟨r, hr⟩
        exact ⟨_, by rw [noneShape_nilshape]; simp only [normSlices, normSlice1, hr]; rfl⟩
      | cons d sh =>
        rcases normSlices_ok_of_nozero rest sh hz' with ⟨r, hr⟩
        exact ⟨_, by rw [noneShape_cons _ (by simp)]; simp only [normSlices, normSlice1, hr]; rfl⟩
    | ellipsis =>
      cases shape with
      | nil =>
        rcases normSlices_ok_of_nozero rest [] hz' with ⟨r, hr⟩
        exact ⟨_, by rw [noneShape_nilshape]; simp only [normSlices, normSlice1, hr]; rfl⟩
      | cons d sh =>
        rcases normSlices_ok_of_nozero rest sh hz' with ⟨r, hr⟩
        exact ⟨_, by rw [noneShape_cons _ (by simp)]; simp only [normSlices, normSlice1, hr]; rfl⟩
    | lst v =>
      cases shape with
      | nil =>
        rcases normSlices_ok_of_nozero rest [] hz' with ⟨r, hr⟩
        exact ⟨_, by rw [noneShape_nilshape]; simp only [normSlices, normSlice1, hr]; rfl⟩
      | cons d sh =>
        rcases normSlices_ok_of_nozero rest sh hz' with ⟨r, hr⟩
        exact ⟨_, by rw [noneShape_cons _ (by simp)]; simp only [normSlices, normSlice1, hr]; rfl⟩

theorem mem_replaceFirst (fill : List Ix) : ∀ (l : List Ix) (x : Ix),
    x ∈ replaceFirst fill l → x ∈ l ∨ x ∈ fill
  | [], x, h => by simp [replaceFirst] at h
  | y :: l, x, h => by
    cases y with
    | ellipsis =>
      simp only [replaceFirst, List.mem_append] at h
      rcases h with h | h
      · exact Or.inr h
      · exact Or.inl (List.mem_cons_of_mem _ h)
    | int i =>
      simp only [replaceFirst, List.mem_cons] at h
      rcases h with h | h
      · exact Or.inl (by simp [h])
      · rcases mem_replaceFirst fill l x h with h | h
        · exact Or.inl (List.mem_cons_of_mem _ h)
        · exact Or.inr h
    | slc s =>
      simp only [replaceFirst, List.mem_cons] at h
      rcases h with h | h
      · exact Or.inl (by simp [h])
      · rcases mem_replaceFirst fill l x h with h | h
        · exact Or.inl (List.mem_cons_of_mem _ h)
        · exact Or.inr h
    | none_ =>
      simp only [replaceFirst, List.mem_cons] at h
      rcases h with h | h
      · exact Or.inl (by simp [h])
      · rcases mem_replaceFirst fill l x h with h | h
        · exact Or.inl (List.mem_cons_of_mem _ h)
        · exact Or.inr h
    | lst v =>
      simp only [replaceFirst, List.mem_cons] at h
      rcases h with h | h
      · exact Or.inl (by simp [h])
      · rcases mem_replaceFirst fill l x h with h | h
        · exact Or.inl (List.mem_cons_of_mem _ h)
        · exact Or.inr h

theorem colon_stp : colon.stp ≠ 0 := by decide

theorem expand_nozero (n : Nat) (idx : List Ix) (hz : ∀ s, Ix.slc s ∈ idx → s.stp ≠ 0) :
    ∀ s, Ix.slc s ∈ expand n idx → s.stp ≠ 0 := by
  intro s hs
  unfold expand at hs
  rcases List.mem_append.mp hs with hs | hs
  · unfold replaceEllipsis at hs
    by_cases ha : idx.any Ix.isEllipsis = true
    · rw [if_pos ha] at hs
      rcases mem_replaceFirst _ idx _ hs with h | h
      · exact hz s h
      · have := (List.mem_replicate.mp h).2
        cases this; exact colon_stp
    · rw [if_neg ha] at hs; exact hz s hs
  · have := (List.mem_replicate.mp hs).2
    cases this; exact colon_stp

/-- With no zero-step slice and at most one `Ellipsis` in the index, every refusal of
`normalize_index` is an `IndexError`. -/
theorem normalizeIndex_error_class (idx : List Ix) (shape : List Int)
    (hz : ∀ s, Ix.slc s ∈ idx → s.stp ≠ 0) (he : idx.countP Ix.isEllipsis ≤ 1)
    (e : Err) (h : normalizeIndex idx shape = .error e) : e = .indexError := by
  rw [normalizeIndex_eq] at h
  by_cases too : ((expand shape.length idx).filter (fun i => !i.isNone)).length > shape.length
  · rw [if_pos too] at h; cases h; rfl
  · rw [if_neg too] at h
    have ec := expand_counts shape.length idx
    have he0 : (expand shape.length idx).countP Ix.isEllipsis = 0 := by omega
    unfold passes at h
    cases hc : checkAll (noneShape (expand shape.length idx) shape) with
    | error e' =>
      rw [hc] at h; cases h
      exact checkAll_error_class _ shape e he0 hc
    | ok u =>
      rw [hc] at h
      rcases normSlices_ok_of_nozero (expand shape.length idx) shape (expand_nozero _ idx hz) with ⟨r, hr⟩
      rw [hr] at h; cases h

/-- … and so is every refusal of NumPy. -/
theorem npIndex_error_class (idx : List Ix) (shape : List Int)
    (hz : ∀ s, Ix.slc s ∈ idx → s.stp ≠ 0) (he : idx.countP Ix.isEllipsis ≤ 1)
    (e : Err) (h : npIndex idx shape = .error e) : e = .indexError := by
  unfold npIndex at h
  by_cases hk : idx.countP Ix.consumes ≤ shape.length
  · have ee := expand_eq_npExpand shape.length idx he hk
    rw [ee.1] at h
    exact npAxes_error_class _ shape e (expand_nozero _ idx hz) h
  · have : npExpand shape.length idx = .error .indexError := by
      unfold npExpand
      rw [if_neg (show ¬ idx.countP Ix.isEllipsis > 1 from by omega), if_pos (show idx.countP Ix.consumes > shape.length from by omega)]
    rw [this] at h; cases h; rfl

/-- **normalize_index raises IndexError exactly when NumPy raises IndexError** (indices with
no zero-step slice and at most one `Ellipsis`; outside that domain both still refuse together,
`normalizeIndex_ok_iff`, but the class may differ: a second `Ellipsis` gives `TypeError`, a zero
step `ValueError`, in an order that differs from NumPy's). -/
theorem normalizeIndex_error_iff (idx : List Ix) (shape : List Int) (hd : ∀ d ∈ shape, 0 ≤ d)
    (hz : ∀ s, Ix.slc s ∈ idx → s.stp ≠ 0) (he : idx.countP Ix.isEllipsis ≤ 1) :
    normalizeIndex idx shape = .error .indexError ↔ npIndex idx shape = .error .indexError := by
  have oi := normalizeIndex_ok_iff idx shape hd
  constructor
  · intro h
    cases hn : npIndex idx shape with
    | ok r =>
      rcases oi.mpr ⟨r, hn⟩ with ⟨idx', hi⟩
      rw [hi] at h; cases h
    | error e => rw [npIndex_error_class idx shape hz he e hn]
  · intro h
    cases hn : normalizeIndex idx shape with
    | ok r =>
      rcases oi.mp ⟨r, hn⟩ with ⟨q, hq⟩
      rw [hq] at h; cases h
    | error e => rw [normalizeIndex_error_class idx shape hz he e hn]

/-! ### per-axis reads of the block plan -/

theorem bisectRight_gt : ∀ (l : List Int) (x : Int),
    bisectRight l x < l.length → x < l.getD (bisectRight l x) 0
  | [], _, h => by simp [bisectRight] at h
  | y :: ys, x, h => by
    unfold bisectRight at h ⊢
    split
    · simpa
    · rename_i hxy
      rw [if_neg hxy] at h
      simpa using bisectRight_gt ys x (by simpa using h)

theorem isum_take_one : ∀ (L : List Int) (b : Nat), isum ((L.drop b).take 1) = L.getD b 0
  | [], b => by simp [isum]
  | x :: xs, 0 => by simp [isum]
  | x :: xs, b + 1 => by simpa using isum_take_one xs b

/-- `_slice_1d` for an in-range integer: the block that holds it and the offset inside it. -/
theorem slice1dInt_spec (L : List Int) (i : Int) (hl : ∀ c ∈ L, 0 ≤ c)
    (h0 : 0 ≤ i) (h1 : i < isum L) :
    (slice1dInt L i).1 < L.length ∧ 0 ≤ (slice1dInt L i).2 ∧
      (slice1dInt L i).2 < L.getD (slice1dInt L i).1 0 ∧
      blockStart L (slice1dInt L i).1 + (slice1dInt L i).2 = i := by
  have hle := Slice1dPos.bisectRight_le (cumsum L) i
  rw [Slice1dPos.cumsum_length] at hle
  have hlt : bisectRight (cumsum L) i < L.length := by
    by_cases hb : bisectRight (cumsum L) i < L.length
    · exact hb
    · exfalso
      have hb' : bisectRight (cumsum L) i = L.length := by omega
      have hpos : 0 < L.length := by
        cases L with
        | nil => simp [isum] at h1; omega
        | cons _ _ => simp
      have := Slice1dPos.bisectRight_spec (cumsum L) i (L.length - 1) (by omega)
      rw [Slice1dPos.cumsum_getD L (L.length - 1) (by omega)] at this
      have e : L.length - 1 + 1 = L.length := by omega
      rw [e] at this
      unfold blockStart at this
      rw [List.take_length] at this
      omega
  have hgt := bisectRight_gt (cumsum L) i (by rw [Slice1dPos.cumsum_length]; exact hlt)
  rw [Slice1dPos.cumsum_getD L _ hlt, Slice1dPos.blockStart_add L _ 1, isum_take_one] at hgt
  have hlow := Slice1dPos.blockStart_istart_le L i h0
  have hoff := Slice1dPos.off_eq L (bisectRight (cumsum L) i) hle
  have hval : (slice1dInt L i).2 = i - blockStart L (bisectRight (cumsum L) i) := by
    unfold slice1dInt
    simp only
    by_cases hp : bisectRight (cumsum L) i > 0
    · rw [if_pos hp] at hoff ⊢; rw [hoff]
    · rw [if_neg hp] at hoff ⊢; omega
  have hfst : (slice1dInt L i).1 = bisectRight (cumsum L) i := rfl
  rw [hfst, hval]
  refine ⟨hlt, by omega, by omega, by omega⟩

theorem axisPieces_slc_def (lengths : List Int) (s : PySlice) :
    axisPieces lengths (.slc s) =
      (orderedPlan s.stp (slice1d (isum lengths) lengths s)).map
        (fun p => (sel p.2 (lengths.getD p.1 0)).map (· + blockStart lengths p.1)) := rfl

theorem axisPieces_flatten_slc (lengths : List Int) (s : PySlice) :
    (axisPieces lengths (.slc s)).flatten =
      planPositions lengths (orderedPlan s.stp (slice1d (isum lengths) lengths s)) := by
  unfold axisPieces planPositions
  rw [List.flatMap_def]

/-- one sliced axis: the pieces, concatenated in output-block order, are exactly the selected
positions in order (lift of `C13.slice1d_partition`). -/
theorem axisPieces_slc (lengths : List Int) (s0 : PySlice) (hl : ∀ c ∈ lengths, 0 ≤ c)
    (hs : s0.stp ≠ 0) :
    (axisPieces lengths (.slc (normalizeSlice s0 (isum lengths)))).flatten = sel s0 (isum lengths) := by
  rw [axisPieces_flatten_slc, stp_normalizeSlice s0 _ hs]
  unfold orderedPlan
  by_cases h : s0.stp < 0
  · simp only [h, ↓reduceIte]; exact Slice1dNeg.slice1d_partition_neg lengths s0 hl h
  · simp only [h, ↓reduceIte]; exact Slice1dPos.slice1d_partition_pos lengths s0 hl (by omega)

theorem planLengths_eq_pieces (lengths : List Int) (plan : List (Nat × PySlice)) :
    planLengths lengths plan =
      (plan.map (fun p => (sel p.2 (lengths.getD p.1 0)).map (· + blockStart lengths p.1))).map
        (fun q => (q.length : Int)) := by
  unfold planLengths
  rw [List.map_map]
  apply List.map_congr_left
  intro p _
  simp

/-- one sliced axis: the advertised chunks (`new_blockdim`) sum to the selection length and,
for a non-empty selection, are the lengths of the pieces. -/
theorem axisChunks_slc (lengths : List Int) (s0 : PySlice) (hl : ∀ c ∈ lengths, 0 ≤ c)
    (hs : s0.stp ≠ 0) :
    isum (newBlockdim (isum lengths) lengths (normalizeSlice s0 (isum lengths))) =
        ((sel s0 (isum lengths)).length : Int) ∧
    (sel s0 (isum lengths) ≠ [] →
      newBlockdim (isum lengths) lengths (normalizeSlice s0 (isum lengths)) =
        (axisPieces lengths (.slc (normalizeSlice s0 (isum lengths)))).map (fun q => (q.length : Int))) := by
  rw [axisPieces_slc_def, stp_normalizeSlice s0 _ hs, ← planLengths_eq_pieces]
  unfold orderedPlan
  by_cases h : s0.stp < 0
  · simp only [h, ↓reduceIte]; exact Slice1dNeg.newBlockdim_neg lengths s0 hl h
  · simp only [h, ↓reduceIte]; exact Slice1dPos.newBlockdim_pos lengths s0 hl (by omega)


/-! ### lifting to all axes -/

theorem filter_none (l : List Ix) :
    (Ix.none_ :: l).filter (fun i => !i.isNone) = l.filter (fun i => !i.isNone) := rfl
theorem filter_int (i : Int) (l : List Ix) :
    (Ix.int i :: l).filter (fun i => !i.isNone) = Ix.int i :: l.filter (fun i => !i.isNone) := rfl
theorem filter_slc (s : PySlice) (l : List Ix) :
    (Ix.slc s :: l).filter (fun i => !i.isNone) = Ix.slc s :: l.filter (fun i => !i.isNone) := rfl
theorem filter_lst (v : List Int) (l : List Ix) :
    (Ix.lst v :: l).filter (fun i => !i.isNone) = Ix.lst v :: l.filter (fun i => !i.isNone) := rfl
theorem filter_ell (l : List Ix) :
    (Ix.ellipsis :: l).filter (fun i => !i.isNone) = Ix.ellipsis :: l.filter (fun i => !i.isNone) := rfl

theorem npAxes_filter : ∀ (l : List Ix) (shape : List Int) (pos : List (List Int)) (out : List Nat),
    npAxes l shape = .ok (pos, out) →
      ∃ out', npAxes (l.filter (fun i => !i.isNone)) shape = .ok (pos, out')
  | [], shape, pos, out, h => ⟨out, by simpa using h⟩
  | x :: rest, shape, pos, out, h => by
    cases x with
    | none_ =>
      simp only [npAxes] at h
      cases hr : npAxes rest shape with
      | error e => rw [hr] at h; cases h
      | ok r0 =>
        rw [hr] at h
        simp only [Except.ok.injEq, Prod.mk.injEq] at h
        rcases npAxes_filter rest shape r0.1 r0.2 hr with ⟨o', ho'⟩
        refine ⟨o', ?_⟩
        rw [filter_none, ho', h.1]
    | ellipsis => simp [npAxes] at h
    | int i =>
      cases shape with
      | nil => simp [npAxes] at h
      | cons d sh =>
        simp only [npAxes] at h
        by_cases c : -d ≤ i ∧ i < d
        · rw [if_pos c] at h
          cases hr : npAxes rest sh with
          | error e => rw [hr] at h; cases h
          | ok r0 =>
            rw [hr] at h
            simp only [Except.ok.injEq, Prod.mk.injEq] at h
            rcases npAxes_filter rest sh r0.1 r0.2 hr with ⟨o', ho'⟩
            refine ⟨o', ?_⟩
            rw [filter_int]
            simp only [npAxes, if_pos c, ho']
            rw [← h.1]
        · rw [if_neg c] at h; cases h
    | slc s =>
      cases shape with
      | nil => simp [npAxes] at h
      | cons d sh =>
        simp only [npAxes] at h
        by_cases c : s.stp = 0
        · rw [if_pos c] at h; cases h
        · rw [if_neg c] at h
          cases hr : npAxes rest sh with
          | error e => rw [hr] at h; cases h
          | ok r0 =>
            rw [hr] at h
            simp only [Except.ok.injEq, Prod.mk.injEq] at h
            rcases npAxes_filter rest sh r0.1 r0.2 hr with ⟨o', ho'⟩
            refine ⟨(sel s d).length :: o', ?_⟩
            rw [filter_slc]
            simp only [npAxes, if_neg c, ho']
            rw [← h.1]
    | lst v =>
      cases shape with
      | nil => simp [npAxes] at h
      | cons d sh =>
        simp only [npAxes] at h
        by_cases c : v.all (fun i => decide (-d ≤ i ∧ i < d)) = true
        · rw [if_pos c] at h
          cases hr : npAxes rest sh with
          | error e => rw [hr] at h; cases h
          | ok r0 =>
            rw [hr] at h
            simp only [Except.ok.injEq, Prod.mk.injEq] at h
            rcases npAxes_filter rest sh r0.1 r0.2 hr with ⟨o', ho'⟩
            refine ⟨v.length :: o', ?_⟩
            rw [filter_lst]
            simp only [npAxes, if_pos c, ho']
            rw [← h.1]
        · rw [if_neg c] at h; cases h

theorem NormalFor_filter : ∀ (l : List Ix) (shape : List Int), NormalFor l shape →
    NormalFor (l.filter (fun i => !i.isNone)) shape
  | [], shape, _ => by simp [NormalFor]
  | x :: rest, shape, h => by
    cases x with
    | none_ =>
      simp only [NormalFor] at h
      rw [filter_none]; exact NormalFor_filter rest shape h
    | ellipsis => simp [NormalFor] at h
    | int i =>
      cases shape with
      | nil => simp [NormalFor] at h
      | cons d sh =>
        simp only [NormalFor] at h
        first | rw [filter_int] | rw [filter_slc] | rw [filter_lst]
        simp only [NormalFor]
        exact ⟨h.1, NormalFor_filter rest sh h.2⟩
    | slc s =>
      cases shape with
      | nil => simp [NormalFor] at h
      | cons d sh =>
        simp only [NormalFor] at h
        first | rw [filter_int] | rw [filter_slc] | rw [filter_lst]
        simp only [NormalFor]
        exact ⟨h.1, NormalFor_filter rest sh h.2⟩
    | lst v =>
      cases shape with
      | nil => simp [NormalFor] at h
      | cons d sh =>
        simp only [NormalFor] at h
        first | rw [filter_int] | rw [filter_slc] | rw [filter_lst]
        simp only [NormalFor]
        exact ⟨h.1, NormalFor_filter rest sh h.2⟩

theorem countP_filter_notNone (P : Ix → Bool) (hP : P .none_ = false) : ∀ l : List Ix,
    (l.filter (fun i => !i.isNone)).countP P = l.countP P
  | [] => rfl
  | x :: l => by
    have ih := countP_filter_notNone P hP l
    cases x
    · rw [filter_int, List.countP_cons, List.countP_cons, ih]
    · rw [filter_slc, List.countP_cons, List.countP_cons, ih]
    · rw [filter_none, List.countP_cons, ih, hP]; simp
    · rw [filter_ell, List.countP_cons, List.countP_cons, ih]
    · rw [filter_lst, List.countP_cons, List.countP_cons, ih]

theorem countP_isNone_filter : ∀ l : List Ix, (l.filter (fun i => !i.isNone)).countP Ix.isNone = 0
  | [] => rfl
  | x :: l => by
    have ih := countP_isNone_filter l
    cases x
    · rw [filter_int, List.countP_cons, ih]; rfl
    · rw [filter_slc, List.countP_cons, ih]; rfl
    · rw [filter_none, ih]
    · rw [filter_ell, List.countP_cons, ih]; rfl
    · rw [filter_lst, List.countP_cons, ih]; rfl

/-- all axes at once: per axis the pieces concatenate (in output-block order) to the positions
NumPy selects on that axis. -/
theorem axesRead : ∀ (index : List Ix) (chunks : List (List Int)) (pos : List (List Int)) (out : List Nat),
    (∀ l ∈ chunks, ∀ c ∈ l, 0 ≤ c) → NormalFor index (chunks.map isum) →
    index.countP Ix.isNone = 0 → index.countP Ix.isLst = 0 → index.length = chunks.length →
    npAxes index (chunks.map isum) = .ok (pos, out) →
      (List.zipWith axisPieces chunks index).map List.flatten = pos
  | [], chunks, pos, out, _, _, _, _, hlen, h => by
    have : chunks = [] := List.length_eq_zero_iff.mp (by simpa using hlen.symm)
    subst this
    simp [npAxes] at h
    simp [h.1]
  | x :: rest, [], pos, out, _, _, _, _, hlen, _ => by simp at hlen
  | x :: rest, lengths :: cs, pos, out, hc, hn, h0, hl, hlen, h => by
    have hc' : ∀ l ∈ cs, ∀ c ∈ l, 0 ≤ c := fun l hl' => hc l (List.mem_cons_of_mem _ hl')
    have hcl : ∀ c ∈ lengths, 0 ≤ c := hc lengths (by simp)
    have hlen' : rest.length = cs.length := by simpa using hlen
    cases x with
    | none_ => simp [List.countP_cons, Ix.isNone] at h0
    | ellipsis => simp [NormalFor] at hn
    | lst v => simp [List.countP_cons, Ix.isLst] at hl
    | int i =>
      simp only [List.map_cons, NormalFor] at hn
      simp only [List.map_cons, npAxes] at h
      have c : -isum lengths ≤ i ∧ i < isum lengths := by omega
      rw [if_pos c] at h
      cases hr : npAxes rest (cs.map isum) with
      | error e => rw [hr] at h; cases h
      | ok r0 =>
        rw [hr] at h
        simp only [Except.ok.injEq, Prod.mk.injEq] at h
        have ih := axesRead rest cs r0.1 r0.2 hc' hn.2
          (by simpa [List.countP_cons, Ix.isNone] using h0) (by simpa [List.countP_cons, Ix.isLst] using hl) hlen' hr
        have sp := slice1dInt_spec lengths i hcl hn.1.1 hn.1.2
        simp only [List.zipWith_cons_cons, List.map_cons, ih, ← h.1, axisPieces, List.flatten_cons,
          List.flatten_nil, List.append_nil, sp.2.2.2, posifyInt_nonneg hn.1.1]
    | slc s =>
      simp only [List.map_cons, NormalFor] at hn
      rcases hn.1 with ⟨s0, hs0, rfl⟩
      simp only [List.map_cons, npAxes] at h
      have c : (normalizeSlice s0 (isum lengths)).stp ≠ 0 := by rw [stp_normalizeSlice s0 _ hs0]; exact hs0
      rw [if_neg c] at h
      cases hr : npAxes rest (cs.map isum) with
      | error e => rw [hr] at h; cases h
      | ok r0 =>
        rw [hr] at h
        simp only [Except.ok.injEq, Prod.mk.injEq] at h
        have ih := axesRead rest cs r0.1 r0.2 hc' hn.2
          (by simpa [List.countP_cons, Ix.isNone] using h0) (by simpa [List.countP_cons, Ix.isLst] using hl) hlen' hr
        have hd0 : 0 ≤ isum lengths := Slice1dPos.isum_nonneg lengths hcl
        simp only [List.zipWith_cons_cons, List.map_cons, ih, ← h.1, axisPieces_slc lengths s0 hcl hs0,
          SliceAlgebra.sel_normalizeSlice s0 _ hd0 hs0]

/-- the advertised chunks agree with the pieces on every sliced axis. -/
theorem chunksAgree : ∀ (index : List Ix) (chunks : List (List Int)),
    (∀ l ∈ chunks, ∀ c ∈ l, 0 ≤ c) → NormalFor index (chunks.map isum) →
    index.countP Ix.isNone = 0 → ChunksAgree chunks index
  | [], chunks, _, _, _ => by cases chunks <;> simp [ChunksAgree]
  | x :: rest, [], _, _, _ => by simp [ChunksAgree]
  | x :: rest, lengths :: cs, hc, hn, h0 => by
    have hc' : ∀ l ∈ cs, ∀ c ∈ l, 0 ≤ c := fun l hl' => hc l (List.mem_cons_of_mem _ hl')
    have hcl : ∀ c ∈ lengths, 0 ≤ c := hc lengths (by simp)
    cases x with
    | none_ => simp [List.countP_cons, Ix.isNone] at h0
    | ellipsis => simp [NormalFor] at hn
    | lst v =>
      simp only [List.map_cons, NormalFor] at hn
      simp only [ChunksAgree]
      exact chunksAgree rest cs hc' hn.2 (by simpa [List.countP_cons, Ix.isNone] using h0)
    | int i =>
      simp only [List.map_cons, NormalFor] at hn
      simp only [ChunksAgree]
      exact chunksAgree rest cs hc' hn.2 (by simpa [List.countP_cons, Ix.isNone] using h0)
    | slc s =>
      simp only [List.map_cons, NormalFor] at hn
      rcases hn.1 with ⟨s0, hs0, rfl⟩
      simp only [ChunksAgree]
      refine ⟨?_, chunksAgree rest cs hc' hn.2 (by simpa [List.countP_cons, Ix.isNone] using h0)⟩
      have a := axisChunks_slc lengths s0 hcl hs0
      rw [axisPieces_slc lengths s0 hcl hs0]
      exact a

theorem shape_nonneg (chunks : List (List Int)) (hc : ∀ l ∈ chunks, ∀ c ∈ l, 0 ≤ c) :
    ∀ d ∈ chunks.map isum, 0 ≤ d := by
  intro d hd
  rcases List.mem_map.mp hd with ⟨l, hl, rfl⟩
  exact Slice1dPos.isum_nonneg l (hc l hl)

/-- **C12_getitem_basic**: for every chunking and every basic index that `normalize_index`
accepts, NumPy accepts it too, and the n-D block plan of `SliceSlicesIntegers` (per-axis
`_slice_1d` plans, output-block order) reads, on every axis, exactly the positions NumPy selects,
in order; the grid of blocks reads exactly the product selection (`axisLift`); the advertised
chunks are the piece lengths. -/
theorem getitem_basic_blocks (chunks : List (List Int)) (idx idx' : List Ix)
    (hc : ∀ l ∈ chunks, ∀ c ∈ l, 0 ≤ c) (hb : idx.countP Ix.isLst = 0)
    (h : normalizeIndex idx (chunks.map isum) = .ok idx') :
    ∃ pos out, npIndex idx (chunks.map isum) = .ok (pos, out) ∧
      (List.zipWith axisPieces chunks (idx'.filter (fun i => !i.isNone))).map List.flatten = pos ∧
      (gridReads chunks (idx'.filter (fun i => !i.isNone))).Perm (cart pos) ∧
      ChunksAgree chunks (idx'.filter (fun i => !i.isNone)) := by
  have hd := shape_nonneg chunks hc
  have s := normalizeIndex_sound idx idx' _ hd h
  rcases npAxes_ok_of_normal idx' _ s.2.1 with ⟨r, hr⟩
  have hnp : npIndex idx (chunks.map isum) = .ok r := by
    rw [← s.1]; unfold npIndex
    rw [npExpand_normal _ idx' s.2.2.2.1 s.2.2.1]; exact hr
  rcases npAxes_filter idx' _ r.1 r.2 hr with ⟨o', ho'⟩
  have hnf := NormalFor_filter idx' _ s.2.1
  have h0 := countP_isNone_filter idx'
  have hl : (idx'.filter (fun i => !i.isNone)).countP Ix.isLst = 0 := by
    rw [countP_filter_notNone Ix.isLst rfl, s.2.2.2.2.2, hb]
  have hlen : (idx'.filter (fun i => !i.isNone)).length = chunks.length := by
    rw [filter_notNone_length, s.2.2.1, s.2.2.2.1]; simp
  have ar := axesRead _ chunks r.1 o' hc hnf h0 hl hlen ho'
  refine ⟨r.1, r.2, hnp, ar, ?_, chunksAgree _ chunks hc hnf h0⟩
  unfold gridReads
  rw [← ar]
  exact axisLift _

/-! ### `.blocks[idx]` -/

theorem sel_unit (k d : Int) (h0 : 0 ≤ k) (h1 : k < d) :
    sel ⟨some k, some (k + 1), none⟩ d = [k] := by
  have hs : stp ⟨some k, some (k + 1), none⟩ = 1 := rfl
  rw [SliceAlgebra.sel_mk_pos _ _ _ d 1 hs (by omega)]
  simp only [Option.map_some, Option.getD_some]
  rw [SliceAlgebra.adjust_false_id k d h0 (by omega), SliceAlgebra.adjust_false_id (k + 1) d (by omega) (by omega)]
  have hl : rangeLen k (k + 1) 1 = 1 := by
    unfold rangeLen
    rw [if_pos (by omega), if_pos (by omega)]
    have e : (k + 1 - k - 1) / 1 + 1 = 1 := by omega
    rw [e]; rfl
  unfold rangeList
  rw [hl]
  simp [List.range_succ]

/-- per axis, the `index_maps` of `.blocks` are NumPy's selection of `arange(numblocks)` and
name existing blocks. -/
theorem blocksMaps : ∀ (index : List Ix) (chunks : List (List Int)) (pos : List (List Int)) (out : List Nat),
    NormalFor index (chunks.map (fun c => (c.length : Int))) →
    index.countP Ix.isNone = 0 → index.length = chunks.length →
    npAxes index (chunks.map (fun c => (c.length : Int))) = .ok (pos, out) →
      List.zipWith (fun c i => blockSel (c.length : Int) i) chunks (index.map keepDim) = pos ∧
      ∀ p ∈ List.zip chunks pos, ∀ b ∈ p.2, 0 ≤ b ∧ b < (p.1.length : Int)
  | [], chunks, pos, out, _, _, hlen, h => by
    have : chunks = [] := List.length_eq_zero_iff.mp (by simpa using hlen.symm)
    subst this
    simp only [npAxes, Except.ok.injEq, Prod.mk.injEq] at h
    rcases h with ⟨rfl, rfl⟩
    simp
  | x :: rest, [], pos, out, _, _, hlen, _ => by simp at hlen
  | x :: rest, c :: cs, pos, out, hn, h0, hlen, h => by
    have hlen' : rest.length = cs.length := by simpa using hlen
    have h0' : rest.countP Ix.isNone = 0 := by
      cases x <;> simp [List.countP_cons, Ix.isNone] at h0 ⊢ <;> omega
    cases x with
    | none_ => simp [List.countP_cons, Ix.isNone] at h0
    | ellipsis => simp [NormalFor] at hn
    | int k =>
      simp only [List.map_cons, NormalFor] at hn
      simp only [List.map_cons, npAxes] at h
      have cnd : -(c.length : Int) ≤ k ∧ k < (c.length : Int) := by omega
      rw [if_pos cnd] at h
      cases hr : npAxes rest (cs.map (fun c => (c.length : Int))) with
      | error e => rw [hr] at h; cases h
      | ok r0 =>
        rw [hr] at h
        simp only [Except.ok.injEq, Prod.mk.injEq] at h
        have ih := blocksMaps rest cs r0.1 r0.2 hn.2 h0' hlen' hr
        rw [← h.1]
        refine ⟨?_, ?_⟩
        · rw [List.map_cons, List.zipWith_cons_cons, ih.1]
          simp only [keepDim, blockSel, sel_unit k _ hn.1.1 hn.1.2, posifyInt_nonneg hn.1.1]
        · intro p hp b hb
          rw [List.zip_cons_cons] at hp
          rcases List.mem_cons.mp hp with rfl | hp
          · simp only [List.mem_singleton] at hb
            rw [hb, posifyInt_nonneg hn.1.1]; exact hn.1
          · exact ih.2 p hp b hb
    | slc s =>
      simp only [List.map_cons, NormalFor] at hn
      rcases hn.1 with ⟨s0, hs0, rfl⟩
      simp only [List.map_cons, npAxes] at h
      have cnd : (normalizeSlice s0 (c.length : Int)).stp ≠ 0 := by rw [stp_normalizeSlice s0 _ hs0]; exact hs0
      rw [if_neg cnd] at h
      cases hr : npAxes rest (cs.map (fun c => (c.length : Int))) with
      | error e => rw [hr] at h; cases h
      | ok r0 =>
        rw [hr] at h
        simp only [Except.ok.injEq, Prod.mk.injEq] at h
        have ih := blocksMaps rest cs r0.1 r0.2 hn.2 h0' hlen' hr
        rw [← h.1]
        refine ⟨?_, ?_⟩
        · rw [List.map_cons, List.zipWith_cons_cons, ih.1]
          simp only [keepDim, blockSel]
        · intro p hp b hb
          rw [List.zip_cons_cons] at hp
          rcases List.mem_cons.mp hp with rfl | hp
          · exact SliceAlgebra.sel_bounds _ _ (by omega) cnd b hb
          · exact ih.2 p hp b hb
    | lst v =>
      simp only [List.map_cons, NormalFor] at hn
      simp only [List.map_cons, npAxes] at h
      have cnd : v.all (fun i => decide (-(c.length : Int) ≤ i ∧ i < (c.length : Int))) = true :=
        List.all_eq_true.mpr (fun i hi => by have := hn.1 i hi; simp; omega)
      rw [if_pos cnd] at h
      cases hr : npAxes rest (cs.map (fun c => (c.length : Int))) with
      | error e => rw [hr] at h; cases h
      | ok r0 =>
        rw [hr] at h
        simp only [Except.ok.injEq, Prod.mk.injEq] at h
        have ih := blocksMaps rest cs r0.1 r0.2 hn.2 h0' hlen' hr
        have hid : v.map (posifyInt (c.length : Int)) = v := by
          conv => rhs; rw [← List.map_id v]
          apply List.map_congr_left
          intro j hj
          exact posifyInt_nonneg (hn.1 j hj).1
        rw [← h.1, hid]
        refine ⟨?_, ?_⟩
        · rw [List.map_cons, List.zipWith_cons_cons, ih.1]
          simp only [keepDim, blockSel]
        · intro p hp b hb
          rw [List.zip_cons_cons] at hp
          rcases List.mem_cons.mp hp with rfl | hp
          · exact hn.1 b hb
          · exact ih.2 p hp b hb

/-- **`.blocks[idx]`**: whenever it is accepted, NumPy accepts the same index on
`arange(numblocks)` per axis (integers keeping their axis); the selected input blocks (`maps`)
are exactly NumPy's selection, they exist, and the chunks of the result are exactly the sizes
of the selected blocks in that order. -/
theorem blocksIndex_spec (chunks : List (List Int)) (idx : List Ix) (cs maps : List (List Int))
    (h : blocksIndex chunks idx = .ok (cs, maps)) :
    (∃ out, npIndex idx (chunks.map (fun c => (c.length : Int))) = .ok (maps, out)) ∧
    cs = List.zipWith (fun c m => m.map (fun b => c.getD b.toNat 0)) chunks maps ∧
    (∀ p ∈ List.zip chunks maps, ∀ b ∈ p.2, 0 ≤ b ∧ b < (p.1.length : Int)) ∧
    idx.countP Ix.isLst ≤ 1 ∧ idx.countP Ix.isNone = 0 := by
  unfold blocksIndex at h
  by_cases h1 : idx.countP Ix.isLst > 1
  · rw [if_pos h1] at h; cases h
  · rw [if_neg h1] at h
    by_cases h2 : idx.any Ix.isNone = true
    · rw [if_pos h2] at h; cases h
    · rw [if_neg h2] at h
      have hnone : idx.countP Ix.isNone = 0 := by
        apply Nat.eq_zero_of_not_pos
        intro hp
        exact h2 (by rw [List.any_eq_true]; exact List.countP_pos_iff.mp hp)
      cases hn : normalizeIndex idx (chunks.map (fun c => (c.length : Int))) with
      | error e => rw [hn] at h; cases h
      | ok index =>
        rw [hn] at h
        simp only [Except.ok.injEq, Prod.mk.injEq] at h
        have hd : ∀ d ∈ chunks.map (fun c => (c.length : Int)), 0 ≤ d := by
          intro d hd
          rcases List.mem_map.mp hd with ⟨l, _, rfl⟩
          omega
        have s := normalizeIndex_sound idx index _ hd hn
        rcases npAxes_ok_of_normal index _ s.2.1 with ⟨r, hr⟩
        have hnp : npIndex idx (chunks.map (fun c => (c.length : Int))) = .ok r := by
          rw [← s.1]; unfold npIndex
          rw [npExpand_normal _ index s.2.2.2.1 s.2.2.1]; exact hr
        have h0 : index.countP Ix.isNone = 0 := by rw [s.2.2.2.2.1, hnone]
        have hlen : index.length = chunks.length := by
          have := count3 index
          rw [this, s.2.2.1, s.2.2.2.1, h0]; simp
        have bm := blocksMaps index chunks r.1 r.2 s.2.1 h0 hlen hr
        have hm : maps = r.1 := by rw [← h.2]; exact bm.1
        refine ⟨⟨r.2, by rw [hnp, hm]⟩, ?_, ?_, by omega, hnone⟩
        · rw [← h.1, h.2]
        · rw [hm]; exact bm.2

/-! ### the wiring of `_layer` on one axis, the output shape, `ExpandDims` -/

/-- On a sliced axis, output block `o[k]` of `_layer` (the `k`-th entry of the `out_names`
factor, paired with the `k`-th sorted input block) is the `o[k]`-th entry of the plan in
output-block order — the order `axisPieces` uses. -/
theorem layerAxis_ordered (lengths : List Int) (s : PySlice) (o : List Nat)
    (h : outRange1 lengths (.slc s) = some o) :
    o.length = (sortByKey (slice1d (isum lengths) lengths s)).length ∧
    ∀ k, k < (sortByKey (slice1d (isum lengths) lengths s)).length →
      (orderedPlan s.stp (slice1d (isum lengths) lengths s))[o.getD k 0]? =
        (sortByKey (slice1d (isum lengths) lengths s))[k]? := by
  have hn : (blockSlices1 lengths (.slc s)).length = (sortByKey (slice1d (isum lengths) lengths s)).length := by
    simp [blockSlices1]
  unfold outRange1 at h
  simp only [hn] at h
  unfold orderedPlan
  by_cases hneg : s.stp < 0
  · have hr : o = (List.range (sortByKey (slice1d (isum lengths) lengths s)).length).reverse := by
      unfold stp at hneg
      cases hs : s.step with
      | none => rw [hs] at hneg; simp at hneg
      | some c =>
        rw [hs] at hneg h
        simp only [Option.getD_some] at hneg
        have : c ≠ 0 ∧ c < 0 := by omega
        simp only [if_pos this] at h
        exact (Option.some.inj h).symm
    subst hr
    simp only [hneg, ↓reduceIte, List.length_reverse, List.length_range, true_and]
    intro k hk
    have e : (List.range (sortByKey (slice1d (isum lengths) lengths s)).length).reverse.getD k 0
        = (sortByKey (slice1d (isum lengths) lengths s)).length - 1 - k := by
      rw [List.getD_eq_getElem?_getD, List.getElem?_reverse (by simpa using hk)]
      simp only [List.length_range]
      rw [List.getElem?_range (by omega)]
      simp
    rw [e, List.getElem?_reverse (by omega)]
    congr 1
    omega
  · have hr : o = List.range (sortByKey (slice1d (isum lengths) lengths s)).length := by
      unfold stp at hneg
      cases hs : s.step with
      | none => rw [hs] at h; exact (Option.some.inj h).symm
      | some c =>
        rw [hs] at hneg h
        simp only [Option.getD_some] at hneg
        have : ¬ (c ≠ 0 ∧ c < 0) := by omega
        simp only [if_neg this] at h
        exact (Option.some.inj h).symm
    subst hr
    simp only [hneg, ↓reduceIte, List.length_range, true_and]
    intro k hk
    have e : (List.range (sortByKey (slice1d (isum lengths) lengths s)).length).getD k 0 = k := by
      rw [List.getD_eq_getElem?_getD, List.getElem?_range hk]; rfl
    rw [e]

/-- the output shape NumPy gives is the shape of the advertised chunks, `None` axes included. -/
theorem outShape : ∀ (idx' : List Ix) (chunks : List (List Int)) (pos : List (List Int)) (out : List Nat),
    (∀ l ∈ chunks, ∀ c ∈ l, 0 ≤ c) → NormalFor idx' (chunks.map isum) → idx'.countP Ix.isLst = 0 →
    npAxes idx' (chunks.map isum) = .ok (pos, out) →
      out = (outChunks chunks idx').map (fun c => (isum c).toNat)
  | [], chunks, pos, out, _, _, _, h => by
    simp only [npAxes, Except.ok.injEq, Prod.mk.injEq] at h
    rw [← h.2]; cases chunks <;> simp [outChunks]
  | x :: rest, chunks, pos, out, hc, hn, hl, h => by
    cases x with
    | none_ =>
      simp only [NormalFor] at hn
      simp only [npAxes] at h
      cases hr : npAxes rest (chunks.map isum) with
      | error e => rw [hr] at h; cases h
      | ok r0 =>
        rw [hr] at h
        simp only [Except.ok.injEq, Prod.mk.injEq] at h
        have ih := outShape rest chunks r0.1 r0.2 hc hn (by simpa [List.countP_cons, Ix.isLst] using hl) hr
        rw [← h.2, ih]
        cases chunks <;> simp [outChunks, isum]
    | ellipsis => simp [NormalFor] at hn
    | lst v => simp [List.countP_cons, Ix.isLst] at hl
    | int i =>
      cases chunks with
      | nil => simp [NormalFor] at hn
      | cons lengths cs =>
        simp only [List.map_cons, NormalFor] at hn
        simp only [List.map_cons, npAxes] at h
        have c : -isum lengths ≤ i ∧ i < isum lengths := by omega
        rw [if_pos c] at h
        cases hr : npAxes rest (cs.map isum) with
        | error e => rw [hr] at h; cases h
        | ok r0 =>
          rw [hr] at h
          simp only [Except.ok.injEq, Prod.mk.injEq] at h
          have ih := outShape rest cs r0.1 r0.2 (fun l hl' => hc l (List.mem_cons_of_mem _ hl')) hn.2
            (by simpa [List.countP_cons, Ix.isLst] using hl) hr
          rw [← h.2, ih]; simp [outChunks]
    | slc s =>
      cases chunks with
      | nil => simp [NormalFor] at hn
      | cons lengths cs =>
        simp only [List.map_cons, NormalFor] at hn
        rcases hn.1 with ⟨s0, hs0, rfl⟩
        simp only [List.map_cons, npAxes] at h
        have c : (normalizeSlice s0 (isum lengths)).stp ≠ 0 := by rw [stp_normalizeSlice s0 _ hs0]; exact hs0
        rw [if_neg c] at h
        cases hr : npAxes rest (cs.map isum) with
        | error e => rw [hr] at h; cases h
        | ok r0 =>
          rw [hr] at h
          simp only [Except.ok.injEq, Prod.mk.injEq] at h
          have hcl : ∀ c ∈ lengths, 0 ≤ c := hc lengths (by simp)
          have ih := outShape rest cs r0.1 r0.2 (fun l hl' => hc l (List.mem_cons_of_mem _ hl')) hn.2
            (by simpa [List.countP_cons, Ix.isLst] using hl) hr
          have a := (axisChunks_slc lengths s0 hcl hs0).1
          have hd0 : 0 ≤ isum lengths := Slice1dPos.isum_nonneg lengths hcl
          rw [← h.2, ih]
          simp only [outChunks, List.map_cons, a, SliceAlgebra.sel_normalizeSlice s0 _ hd0 hs0, Int.toNat_natCast]

theorem insertAt_length_append {α} (pre X : List α) (a : α) :
    insertAt (pre ++ X) pre.length a = (pre ++ [a]) ++ X := by
  unfold insertAt
  simp

/-- `ExpandDims(SliceSlicesIntegers(x, index without None), where_none)` has the chunks
`outChunks` writes down directly: generalised over the output axes `pre` already produced. -/
theorem expandDims_whereNone : ∀ (index : List Ix) (chunks pre : List (List Int)) (pos ints : Nat),
    ints ≤ pos → pre.length = pos - ints →
    index.countP Ix.isLst = 0 → index.countP Ix.isEllipsis = 0 → index.countP Ix.consumes ≤ chunks.length →
    (whereNoneFrom pos ints index).foldl (fun c ax => insertAt c ax [1])
        (pre ++ ssiChunks chunks (index.filter (fun i => !i.isNone)))
      = pre ++ outChunks chunks index
  | [], chunks, pre, pos, ints, _, _, _, _, _ => by
    cases chunks <;> simp [whereNoneFrom, ssiChunks, outChunks]
  | x :: rest, chunks, pre, pos, ints, hi, hp, hl, he, hk => by
    cases x with
    | none_ =>
      rw [filter_none]
      simp only [whereNoneFrom, List.foldl_cons]
      rw [← hp, insertAt_length_append]
      have ih := expandDims_whereNone rest chunks (pre ++ [[1]]) (pos + 1) ints (by omega)
        (by simp; omega) (by simpa [List.countP_cons, Ix.isLst] using hl)
        (by simpa [List.countP_cons, Ix.isEllipsis] using he) (by simpa [List.countP_cons, Ix.consumes] using hk)
      rw [ih]
      cases chunks <;> simp [outChunks]
    | ellipsis => simp [List.countP_cons, Ix.isEllipsis] at he
    | lst v => simp [List.countP_cons, Ix.isLst] at hl
    | int i =>
      cases chunks with
      | nil => simp [List.countP_cons, Ix.consumes] at hk
      | cons lengths cs =>
        rw [filter_int]
        simp only [whereNoneFrom, ssiChunks, outChunks]
        exact expandDims_whereNone rest cs pre (pos + 1) (ints + 1) (by omega) (by omega)
          (by simpa [List.countP_cons, Ix.isLst] using hl) (by simpa [List.countP_cons, Ix.isEllipsis] using he)
          (by simpa [List.countP_cons, Ix.consumes] using hk)
    | slc s =>
      cases chunks with
      | nil => simp [List.countP_cons, Ix.consumes] at hk
      | cons lengths cs =>
        rw [filter_slc]
        simp only [whereNoneFrom, ssiChunks, outChunks]
        have ih := expandDims_whereNone rest cs (pre ++ [newBlockdim (isum lengths) lengths s]) (pos + 1) ints
          (by omega) (by simp; omega) (by simpa [List.countP_cons, Ix.isLst] using hl)
          (by simpa [List.countP_cons, Ix.isEllipsis] using he) (by simpa [List.countP_cons, Ix.consumes] using hk)
        simpa using ih

/-- `x[idx].chunks` (the `normalize_index` → `slice_with_newaxes` → `SliceSlicesIntegers` →
`ExpandDims` pipeline) is, item by item, `(1,)` for `None`, nothing for an integer and
`new_blockdim` for a slice; its shape is NumPy's output shape. -/
theorem getitemChunks_spec (chunks : List (List Int)) (idx : List Ix) (r : List (List Int))
    (hc : ∀ l ∈ chunks, ∀ c ∈ l, 0 ≤ c) (hb : idx.countP Ix.isLst = 0)
    (h : getitemChunks chunks idx = .ok r) :
    ∃ idx' pos out, normalizeIndex idx (chunks.map isum) = .ok idx' ∧ r = outChunks chunks idx' ∧
      npIndex idx (chunks.map isum) = .ok (pos, out) ∧ out = r.map (fun c => (isum c).toNat) := by
  unfold getitemChunks at h
  cases hn : normalizeIndex idx (chunks.map isum) with
  | error e => rw [hn] at h; cases h
  | ok idx' =>
    rw [hn] at h
    simp only [Except.ok.injEq] at h
    have hd := shape_nonneg chunks hc
    have s := normalizeIndex_sound idx idx' _ hd hn
    rcases npAxes_ok_of_normal idx' _ s.2.1 with ⟨q, hq⟩
    have hnp : npIndex idx (chunks.map isum) = .ok q := by
      rw [← s.1]; unfold npIndex
      rw [npExpand_normal _ idx' s.2.2.2.1 s.2.2.1]; exact hq
    have hl : idx'.countP Ix.isLst = 0 := by rw [s.2.2.2.2.2, hb]
    have e := expandDims_whereNone idx' chunks [] 0 0 (Nat.le_refl _) rfl hl s.2.2.2.1
      (by rw [s.2.2.1]; simp)
    simp only [List.nil_append] at e
    have hr : r = outChunks chunks idx' := by rw [← h]; exact e
    refine ⟨idx', q.1, q.2, rfl, hr, hnp, ?_⟩
    rw [hr]
    exact outShape idx' chunks q.1 q.2 hc s.2.1 hl hq

/-! ### `_layer` = the product of the per-axis wirings (zip of products = product of zips) -/

theorem flatMap_congr' {α β} : ∀ (l : List α) (f g : α → List β), (∀ a ∈ l, f a = g a) →
    l.flatMap f = l.flatMap g
  | [], _, _, _ => rfl
  | a :: l, f, g, h => by
    simp only [List.flatMap_cons]
    rw [h a (by simp), flatMap_congr' l f g (fun b hb => h b (List.mem_cons_of_mem _ hb))]

theorem zip_flatMap {α β γ δ} : ∀ (A : List α) (B : List β) (f : α → List γ) (g : β → List δ),
    A.length = B.length → (∀ a ∈ A, ∀ b ∈ B, (f a).length = (g b).length) →
    (A.flatMap f).zip (B.flatMap g) = (A.zip B).flatMap (fun p => (f p.1).zip (g p.2))
  | [], [], _, _, _, _ => by simp
  | [], _ :: _, _, _, h, _ => by simp at h
  | _ :: _, [], _, _, h, _ => by simp at h
  | a :: A, b :: B, f, g, h, hin => by
    simp only [List.flatMap_cons, List.zip_cons_cons]
    rw [List.zip_append (hin a (by simp) b (by simp))]
    rw [zip_flatMap A B f g (by simpa using h)
      (fun a' ha' b' hb' => hin a' (List.mem_cons_of_mem _ ha') b' (List.mem_cons_of_mem _ hb'))]

/-- zipping two products whose factors have pairwise equal lengths is the product of the zips. -/
theorem zip_cart {α β} : ∀ (As : List (List α)) (Bs : List (List β)),
    As.map List.length = Bs.map List.length →
    (cart As).zip (cart Bs) =
      (cart (List.zipWith List.zip As Bs)).map (fun t => (t.map Prod.fst, t.map Prod.snd))
  | [], [], _ => by simp [cart]
  | [], _ :: _, h => by simp at h
  | _ :: _, [], h => by simp at h
  | A :: As, B :: Bs, h => by
    simp only [List.map_cons, List.cons.injEq] at h
    have ih := zip_cart As Bs h.2
    have hl : (cart As).length = (cart Bs).length := by rw [length_cart, length_cart, h.2]
    rw [cart_cons, cart_cons, List.zipWith_cons_cons, cart_cons]
    rw [zip_flatMap A B _ _ h.1 (by intro a _ b _; simp [hl])]
    rw [List.map_flatMap]
    apply flatMap_congr'
    intro p _
    rw [List.zip_map, ih, List.map_map, List.map_map]
    apply List.map_congr_left
    intro t _
    simp [Prod.map]

theorem zip_map_fst_snd {α β} : ∀ (l : List (α × β)), (l.map Prod.fst).zip (l.map Prod.snd) = l
  | [] => rfl
  | p :: l => by simp [zip_map_fst_snd l]

/-- the product of first components zipped with the product of second components. -/
theorem zip_cart_fst_snd {α β} (ls : List (List (α × β))) :
    (cart (ls.map (fun s => s.map Prod.fst))).zip (cart (ls.map (fun s => s.map Prod.snd))) =
      (cart ls).map (fun t => (t.map Prod.fst, t.map Prod.snd)) := by
  rw [zip_cart _ _ (by simp [List.map_map, Function.comp_def])]
  congr 2
  induction ls with
  | nil => rfl
  | cons s ls ih => simp [List.zipWith_cons_cons, zip_map_fst_snd, ih]


theorem zip3_eq_zip {α β γ} : ∀ (a : List α) (b : List β) (c : List γ), zip3 a b c = a.zip (b.zip c)
  | [], _, _ => by simp [zip3]
  | _ :: _, [], _ => by simp [zip3]
  | _ :: _, _ :: _, [] => by simp [zip3]
  | x :: a, y :: b, z :: c => by simp [zip3, zip3_eq_zip a b c]

/-- the `out_names` factors: an axis without output index (integer) contributes `[none]`. -/
def optRange : Option (List Nat) → List (Option Nat)
  | some o => o.map some
  | none => [none]

theorem cart_filterMap : ∀ (L : List (Option (List Nat))),
    cart (L.filterMap id) = (cart (L.map optRange)).map (fun u => u.filterMap id)
  | [] => by simp [cart]
  | none :: L => by
    have e : (none :: L).filterMap id = L.filterMap id := rfl
    rw [e, cart_filterMap L, List.map_cons, cart_cons]
    simp [optRange, List.map_map, Function.comp_def]
  | some o :: L => by
    have e : (some o :: L).filterMap id = o :: L.filterMap id := rfl
    rw [e, cart_cons, cart_filterMap L, List.map_cons, cart_cons]
    simp only [optRange, List.flatMap_map, List.map_flatMap, List.map_map, Function.comp_def]
    rfl

theorem outRange1_slc (lengths : List Int) (s : PySlice) :
    ∃ o, outRange1 lengths (.slc s) = some o ∧ o.length = (blockSlices1 lengths (.slc s)).length := by
  rcases s with ⟨a, b, c⟩
  cases c with
  | none => exact ⟨_, rfl, by simp⟩
  | some c =>
    by_cases hc : c ≠ 0 ∧ c < 0
    · refine ⟨(List.range (blockSlices1 lengths (.slc ⟨a, b, some c⟩)).length).reverse, ?_, by simp⟩
      unfold outRange1
      simp only
      rw [if_pos hc]
    · refine ⟨List.range (blockSlices1 lengths (.slc ⟨a, b, some c⟩)).length, ?_, by simp⟩
      unfold outRange1
      simp only
      rw [if_neg hc]

theorem isIntOrSlc_cases (i : Ix) (h : i.isInt = true ∨ (∃ s, i = .slc s)) :
    (∃ k, i = .int k) ∨ (∃ s, i = .slc s) := by
  rcases h with h | h
  · cases i <;> simp [Ix.isInt] at h
    exact Or.inl ⟨_, rfl⟩
  · exact Or.inr h

theorem axisCells_eq (lengths : List Int) (i : Ix) (h : (∃ k, i = .int k) ∨ (∃ s, i = .slc s)) :
    axisCells lengths i = (optRange (outRange1 lengths i)).zip (blockSlices1 lengths i) ∧
    (optRange (outRange1 lengths i)).length = (blockSlices1 lengths i).length := by
  rcases h with ⟨k, rfl⟩ | ⟨s, rfl⟩
  · simp [axisCells, outRange1, optRange, blockSlices1]
  · rcases outRange1_slc lengths s with ⟨o, ho, hl⟩
    simp only [axisCells, ho, optRange, List.length_map, hl, and_self]

/-- **`_layer` is the product of the per-axis wirings**: the triples
`zip(out_names, in_names, all_slices)` are exactly the cells of the grid
`cart (axisCells per axis)`, in the same order. -/
theorem ssiLayer_eq_cells : ∀ (chunks : List (List Int)) (index : List Ix),
    (∀ i ∈ index, (∃ k, i = .int k) ∨ (∃ s, i = .slc s)) →
    ssiLayer chunks index = (cart (List.zipWith axisCells chunks index)).map splitCell := by
  intro chunks index hix
  unfold ssiLayer
  simp only
  rw [zip3_eq_zip, zip_cart_fst_snd, cart_filterMap]
  -- the three per-axis lists, as lists over the axes
  have hcells : ∀ (cs : List (List Int)) (ix : List Ix), (∀ i ∈ ix, (∃ k, i = .int k) ∨ (∃ s, i = .slc s)) →
      List.zipWith axisCells cs ix =
        List.zipWith List.zip ((List.zipWith outRange1 cs ix).map optRange) (List.zipWith blockSlices1 cs ix) ∧
      ((List.zipWith outRange1 cs ix).map optRange).map List.length =
        (List.zipWith blockSlices1 cs ix).map List.length := by
    intro cs
    induction cs with
    | nil => intro ix _; simp
    | cons c cs ih =>
      intro ix h
      cases ix with
      | nil => simp
      | cons i ix =>
        have a := axisCells_eq c i (h i (by simp))
        have r := ih ix (fun j hj => h j (List.mem_cons_of_mem _ hj))
        simp only [List.zipWith_cons_cons, List.map_cons, a.1, a.2, r.1, r.2, and_self]
  have hc := hcells chunks index hix
  rw [List.zip_map, zip_cart _ _ hc.2, ← hc.1, List.map_map]
  apply List.map_congr_left
  intro t _
  simp [splitCell, Prod.map, List.filterMap_map, Function.comp_def]

end Dask.Lemmas.Indexing
