/-
Structure of `VIndexArray._layer` (Model/Vindex.lean `layer`): groups are slices of the sorted point order;
every slice task reads the points of its group inside its block.  Core Lean only.
-/
import DaskArrayModel.Lemmas.VindexParts
namespace Dask.Lemmas.Vindex
open Dask.Py Dask.Slicing Dask.Indexing Dask.Shuffle Dask.Vindex Dask.Lemmas.Shuffle

theorem pySlice_map {α β} (f : α → β) (L : List α) (a b : Nat) :
    pySlice (L.map f) a b = (pySlice L a b).map f := by
  simp [pySlice, List.map_take, List.map_drop]

theorem mem_pySliceN {S : List Nat} {a b j : Nat} (h : j ∈ pySlice S a b) :
    ∃ s, a ≤ s ∧ s < b ∧ s < S.length ∧ S.getD s 0 = j := by
  unfold pySlice at h
  rcases List.mem_iff_getElem.mp h with ⟨i, hi, he⟩
  simp only [List.length_take, List.length_drop] at hi
  refine ⟨a + i, by omega, by omega, by omega, ?_⟩
  rw [List.getD_eq_getElem?_getD, List.getElem?_eq_getElem (by omega)]
  simpa [List.getElem_take, List.getElem_drop] using he

theorem getD_mem_pySliceN (S : List Nat) {a b s : Nat} (h1 : a ≤ s) (h2 : s < b) (h3 : s < S.length) :
    S.getD s 0 ∈ pySlice S a b := by
  unfold pySlice
  rw [List.mem_iff_getElem]
  refine ⟨s - a, by simp; omega, ?_⟩
  rw [List.getD_eq_getElem?_getD, List.getElem?_eq_getElem h3]
  simp [List.getElem_take, List.getElem_drop, show a + (s - a) = s by omega]

section layer
variable (argsort : List Int → List Nat) (hA : ∀ l, IsArgsort l (argsort l))
variable (css inds : List (List Int)) (P : Nat)

def BI : List (List Nat) := List.zipWith (fun cs ind => ind.map (blockIdx cs)) css inds
def IB : List (List Int) := List.zipWith (fun cs ind => ind.map (inblockOff cs)) css inds
def shapeOf : List Nat := (P / (mcpd css).toNat + 1) :: css.map List.length
def keyOf (j : Nat) : Nat :=
  ravel (shapeOf css P) ((j / (mcpd css).toNat) :: (BI css inds).map (fun b => b.getD j 0))
def keysOf : List Int := (List.range P).map (fun j => ((keyOf css inds P j : Nat) : Int))
def sidx : List Nat := argsort (keysOf css inds P)
def skeys : List Int := (sidx argsort css inds P).map (fun j => (keysOf css inds P).getD j 0)
def Jof (ab : Nat × Nat) : List Nat := pySlice (sidx argsort css inds P) ab.1 ab.2
def mkGroup (ab : Nat × Nat) : Group :=
  let u := unravel (shapeOf css P) ((skeys argsort css inds P).getD ab.1 0).toNat
  ⟨u.headD 0, u.tail, (IB css inds).map (fun A => (Jof argsort css inds P ab).map (fun j => A.getD j 0)),
    (Jof argsort css inds P ab).map (fun j => ((j % (mcpd css).toNat : Nat) : Int))⟩

include hA in
theorem sidx_perm : (sidx argsort css inds P).Perm (List.range P) := by
  have := (hA (keysOf css inds P)).1
  have hl : (keysOf css inds P).length = P := by simp [keysOf]
  rw [hl] at this
  exact this

include hA in
theorem sidx_length : (sidx argsort css inds P).length = P := by
  simpa using (sidx_perm argsort hA css inds P).length_eq

include hA in
theorem sidx_lt : ∀ j ∈ sidx argsort css inds P, j < P := by
  intro j hj
  simpa using (sidx_perm argsort hA css inds P).subset hj

include hA in
theorem skeys_length : (skeys argsort css inds P).length = P := by
  simp [skeys, sidx_length argsort hA css inds P]

include hA in
theorem layer_form (hm : 0 < (mcpd css).toNat) (hhead : (inds.headD []).length = P) :
    layer argsort css inds =
      (pairsEnd (runStarts (skeys argsort css inds P)) P).map (mkGroup argsort css inds P) := by
  have hw : ∀ j : Nat, wrapU (minScalarBits (mcpd css)) ((j % (mcpd css).toNat : Nat) : Int)
      = ((j % (mcpd css).toNat : Nat) : Int) := by
    intro j
    have := Nat.mod_lt j hm
    exact wrapU_id (by omega) (by omega)
  unfold layer
  simp only [hhead, hw]
  have e := skeys_length argsort hA css inds P
  unfold skeys sidx keysOf keyOf shapeOf BI at e
  rw [zip_pairsEnd, e]
  apply List.map_congr_left
  intro ab _
  unfold mkGroup Jof skeys sidx keysOf keyOf shapeOf BI IB
  simp only [List.map_map, Function.comp_def, pySlice_map]


variable (hok : PointsOK css inds P) (hm : 0 < (mcpd css).toNat)

theorem keys_getD (j : Nat) (hj : j < P) :
    (keysOf css inds P).getD j 0 = ((keyOf css inds P j : Nat) : Int) := by
  unfold keysOf
  rw [getD_map_lt _ _ _ (by simpa using hj) 0 0]
  simp [List.getD_eq_getElem?_getD, hj]

include hok in
theorem unravel_key (j : Nat) (hj : j < P) :
    unravel (shapeOf css P) (keyOf css inds P j) =
      (j / (mcpd css).toNat) :: (BI css inds).map (fun b => b.getD j 0) := by
  unfold keyOf
  apply unravel_ravel
  unfold shapeOf
  refine ⟨?_, blocks_allLt css inds P j hok hj⟩
  have := Nat.div_le_div_right (c := (mcpd css).toNat) (Nat.le_of_lt hj)
  omega

include hA in
theorem group_mem : ∀ ab ∈ pairsEnd (runStarts (skeys argsort css inds P)) P,
    ∀ j ∈ Jof argsort css inds P ab, j < P ∧
      ((skeys argsort css inds P).getD ab.1 0).toNat = keyOf css inds P j := by
  intro ab hab j hj
  rcases mem_pySliceN hj with ⟨s, h1, h2, h3, rfl⟩
  have hlt := sidx_lt argsort hA css inds P _ (getD_mem_lt _ s h3 0)
  refine ⟨hlt, ?_⟩
  have hrc := run_const (skeys argsort css inds P)
  rw [skeys_length argsort hA css inds P] at hrc
  rw [← hrc ab hab s h1 h2]
  unfold skeys
  rw [getD_map_lt _ _ _ h3 0 0, keys_getD css inds P _ hlt, Int.toNat_natCast]

include hA hok in
theorem group_fields : ∀ ab ∈ pairsEnd (runStarts (skeys argsort css inds P)) P,
    ∀ j ∈ Jof argsort css inds P ab,
      (mkGroup argsort css inds P ab).outblock = j / (mcpd css).toNat ∧
      (mkGroup argsort css inds P ab).inBlocks = (BI css inds).map (fun b => b.getD j 0) := by
  intro ab hab j hj
  have h := group_mem argsort hA css inds P ab hab j hj
  unfold mkGroup
  simp only [h.2, unravel_key css inds P hok j h.1, List.headD_cons, List.tail_cons, and_self]

include hA hok in
theorem evalGroup_form {α} (x : List Int → α) : ∀ ab ∈ pairsEnd (runStarts (skeys argsort css inds P)) P,
    evalGroup css x (mkGroup argsort css inds P ab) =
      some ((Jof argsort css inds P ab).map (fun j => x (pointAt inds j))) := by
  intro ab hab
  unfold evalGroup
  have hl : (mkGroup argsort css inds P ab).locs.length = (Jof argsort css inds P ab).length := by
    simp [mkGroup]
  rw [hl]
  have : (List.range (Jof argsort css inds P ab).length).mapM
      (fun s => readBlockN css x (mkGroup argsort css inds P ab).inBlocks
        (pointAt (mkGroup argsort css inds P ab).points s)) =
      some ((List.range (Jof argsort css inds P ab).length).map
        (fun s => x (pointAt inds ((Jof argsort css inds P ab).getD s 0)))) := by
    apply mapM_some
    intro s hs
    have hs' : s < (Jof argsort css inds P ab).length := by simpa using hs
    have hj := getD_mem_lt (Jof argsort css inds P ab) s hs' 0
    have hf := group_fields argsort hA css inds P hok ab hab _ hj
    have hg := group_mem argsort hA css inds P ab hab _ hj
    rw [hf.2]
    have hp : pointAt (mkGroup argsort css inds P ab).points s =
        pointAt (IB css inds) ((Jof argsort css inds P ab).getD s 0) := by
      unfold mkGroup pointAt
      simp only [List.map_map]
      apply List.map_congr_left
      intro A _
      simp only [Function.comp]
      rw [getD_map_lt _ _ _ hs' 0 0]
    rw [hp]
    exact readBlockN_point css inds P _ x hok hg.1
  rw [this]
  congr 1
  have e := congrArg (List.map (fun j => x (pointAt inds j))) (map_getD_range (Jof argsort css inds P ab) 0)
  rw [List.map_map] at e
  exact e

end layer
end Dask.Lemmas.Vindex
