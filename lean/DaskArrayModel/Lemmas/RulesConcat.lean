/-
Soundness of the slice pushdown through a concatenation (unit step on the concat axis; each
operand gets its own sub-slice, a missed operand is dropped).
-/
import DaskArrayModel.Lemmas.RulesSlice
namespace Dask.ND
open Dask.Py Dask.Py.PySlice Dask.Slicing Dask.Lemmas.SliceAlgebra

theorem layout_ext_getD {l m : Layout} (hl : l.length = m.length)
    (h : ∀ k, k < l.length → l.getD k [] = m.getD k []) : l = m := by
  apply List.ext_getElem hl
  intro i h1 h2
  have := h i h1
  rwa [getD_eq_getElem _ _ _ h1, getD_eq_getElem _ _ _ h2] at this

theorem set_getD_self (l : List Nat) (ax : Nat) : l.set ax (l.getD ax 0) = l := by
  apply list_ext_getD (by simp)
  intro k hk
  rw [List.length_set] at hk
  by_cases hkx : k = ax
  · subst hkx; rw [getD_set_eq _ _ _ _ hk]
  · rw [getD_set_ne _ _ _ _ _ (Ne.symm hkx)]

/-- two shapes that agree off `ax` -/
def OffEq (ax : Nat) (sh sh' : List Nat) : Prop :=
  sh'.length = sh.length ∧ ∀ j, j ≠ ax → sh'.getD j 0 = sh.getD j 0

theorem OffEq.of_set {ax : Nat} {sh sh' : List Nat} (h : sh.set ax 0 = sh'.set ax 0) : OffEq ax sh sh' := by
  refine ⟨by simpa using (congrArg List.length h).symm, ?_⟩
  intro j hj
  have := congrArg (fun l => l.getD j 0) h
  simp only [getD_set_ne _ _ _ _ _ (Ne.symm hj)] at this
  exact this.symm

theorem OffEq.set (ax : Nat) (sh : List Nat) (v : Nat) : OffEq ax (sh.set ax v) sh :=
  ⟨by simp, fun j hj => (getD_set_ne _ _ _ _ _ (Ne.symm hj)).symm⟩

theorem getD_set_eq' {α} (l : List α) (k : Nat) (a d : α) (h : k < l.length) :
    (l.set k a).getD k d = a := by
  simp [List.getD_eq_getElem?_getD, h]

theorem getD_set_ne' {α} (l : List α) (k j : Nat) (a d : α) (h : k ≠ j) :
    (l.set k a).getD j d = l.getD j d := by
  simp [List.getD_eq_getElem?_getD, h]

/-- replacing the slice of one axis (and the length of that axis): shape -/
theorem sliceShape_set_axis {ax : Nat} {sh sh' : List Nat} (ho : OffEq ax sh sh') (ss : List PySlice)
    (s' : PySlice) (hl : ss.length = sh.length) (hax : ax < sh.length) :
    sliceShape sh' ((ss.set ax s').map Ix.slc)
      = (sliceShape sh (ss.map Ix.slc)).set ax (sel s' (sh'.getD ax 0 : Nat)).length := by
  apply list_ext_getD
  · rw [List.length_set, sliceShape_slc_length, sliceShape_slc_length, List.length_set, ho.1]
  · intro j hj
    rw [sliceShape_slc_length, List.length_set, ho.1, hl, Nat.min_self] at hj
    rw [sliceShape_slc_getD _ _ _ (by rw [ho.1]; exact hj) (by rw [List.length_set]; omega)]
    by_cases hjx : j = ax
    · subst hjx
      rw [getD_set_eq' _ _ _ _ (by omega), getD_set_eq _ _ _ _ (by rw [sliceShape_slc_length]; omega)]
    · rw [getD_set_ne' _ _ _ _ _ (Ne.symm hjx), getD_set_ne _ _ _ _ _ (Ne.symm hjx), ho.2 j hjx,
        sliceShape_slc_getD _ _ _ hj (by omega)]

/-- … index map -/
theorem sliceIdx_set_axis {ax : Nat} {sh sh' : List Nat} (ho : OffEq ax sh sh') (ss : List PySlice)
    (s' : PySlice) (i : List Nat) (y v : Nat) (hl : ss.length = sh.length) (hil : i.length = sh.length)
    (hax : ax < sh.length) (hv : ((sel s' (sh'.getD ax 0 : Nat)).getD y 0).toNat = v) :
    sliceIdx sh' ((ss.set ax s').map Ix.slc) (i.set ax y) = (sliceIdx sh (ss.map Ix.slc) i).set ax v := by
  apply list_ext_getD
  · rw [List.length_set, sliceIdx_slc_length, sliceIdx_slc_length, List.length_set, List.length_set, ho.1]
  · intro j hj
    rw [sliceIdx_slc_length, List.length_set, List.length_set, ho.1] at hj
    have hj' : j < sh.length := by omega
    rw [sliceIdx_slc_getD _ _ _ _ (by rw [ho.1]; exact hj') (by rw [List.length_set]; omega)
      (by rw [List.length_set]; omega)]
    by_cases hjx : j = ax
    · subst hjx
      rw [getD_set_eq' _ _ _ _ (by omega), getD_set_eq _ _ _ _ (by omega),
        getD_set_eq _ _ _ _ (by rw [sliceIdx_slc_length]; omega), hv]
    · rw [getD_set_ne' _ _ _ _ _ (Ne.symm hjx), getD_set_ne _ _ _ _ _ (Ne.symm hjx),
        getD_set_ne _ _ _ _ _ (Ne.symm hjx), ho.2 j hjx,
        sliceIdx_slc_getD _ _ _ _ hj' (by omega) (by omega)]

/-- … chunks off the axis -/
theorem sliceChunks_set_axis {ax : Nat} {sh sh' : List Nat} {cl cl' : Layout} (ho : OffEq ax sh sh')
    (hc : cl.set ax [] = cl'.set ax []) (ss : List PySlice) (s' s'' : PySlice)
    (hl : ss.length = sh.length) (hcl : cl.length = sh.length) :
    (sliceChunks sh' cl' ((ss.set ax s').map Ix.slc)).set ax []
      = (sliceChunks sh cl ((ss.set ax s'').map Ix.slc)).set ax [] := by
  have hcl' : cl'.length = cl.length := by simpa using (congrArg List.length hc).symm
  apply layout_ext_getD
  · rw [List.length_set, List.length_set, sliceChunks_slc_length, sliceChunks_slc_length, List.length_set,
      List.length_set, ho.1, hcl']
  · intro j hj
    rw [List.length_set, sliceChunks_slc_length, List.length_set, ho.1, hcl', hcl, hl] at hj
    have hj' : j < sh.length := by omega
    by_cases hjx : j = ax
    · subst hjx
      rw [getD_set_eq' _ _ _ _ (by rw [sliceChunks_slc_length, List.length_set, ho.1, hcl', hcl, hl]; omega),
        getD_set_eq' _ _ _ _ (by rw [sliceChunks_slc_length, List.length_set, hcl, hl]; omega)]
    · rw [getD_set_ne' _ _ _ _ _ (Ne.symm hjx), getD_set_ne' _ _ _ _ _ (Ne.symm hjx),
        sliceChunks_slc_getD _ _ _ _ (by rw [ho.1]; exact hj') (by rw [hcl', hcl]; exact hj')
          (by rw [List.length_set]; omega),
        sliceChunks_slc_getD _ _ _ _ hj' (by omega) (by rw [List.length_set]; omega),
        getD_set_ne' _ _ _ _ _ (Ne.symm hjx), getD_set_ne' _ _ _ _ _ (Ne.symm hjx), ho.2 j hjx]
      have := congrArg (fun l => l.getD j []) hc
      simp only [getD_set_ne' _ _ _ _ _ (Ne.symm hjx)] at this
      rw [this]

/-- a unit-step slice with explicit in-range bounds -/
theorem sel_unit_range (lo hi : Int) (n : Nat) (h0 : 0 ≤ lo) (h1 : lo ≤ hi) (h2 : hi ≤ n) :
    sel ⟨some lo, some hi, none⟩ n = rangeList lo hi 1 := by
  have e1 : adjust lo n false = lo := adjust_false_id lo n h0 (by omega)
  have e2 : adjust hi n false = hi := adjust_false_id hi n (by omega) h2
  simp only [sel, istart, istop, stp, Option.getD_none]
  simp only [show ¬ ((1 : Int) < 0) by omega, decide_false]
  rw [e1, e2]

theorem sel_stp_one (s : PySlice) (n : Int) (h : s.stp = 1) :
    sel s n = rangeList (s.istart n) (s.istop n) 1 := by
  unfold sel; rw [h]

theorem wfIx_set_unit {sh : List Nat} {ss : List PySlice} {ax : Nat} (lo hi : Int)
    (hl : ss.length = sh.length) (hst : ∀ s ∈ ss, s.stp ≠ 0) :
    wfIx sh ((ss.set ax ⟨some lo, some hi, none⟩).map Ix.slc) = true := by
  rw [wfIx_slc]
  refine ⟨by simpa using hl, ?_⟩
  intro s hs
  rcases List.mem_or_eq_of_mem_set hs with h | h
  · exact hst s h
  · subst h; simp [stp]

theorem sliceThroughConcat_sound : Sound sliceThroughConcat := by
  intro env e e' hw h
  unfold sliceThroughConcat at h
  split at h
  · rename_i a b ax idx
    split at h
    · rename_i ss hss
      have hidx := allSlc?_some idx ss hss
      subst hidx
      simp only [WF, wf, Bool.and_eq_true, decide_eq_true_eq] at hw
      obtain ⟨⟨⟨⟨⟨ha, hb⟩, hax⟩, hshp⟩, hchk⟩, hi⟩ := hw
      have hi' : wfIx ((shape a).set ax ((shape a).getD ax 0 + (shape b).getD ax 0)) (ss.map Ix.slc) = true := hi
      obtain ⟨hl, hst⟩ := (wfIx_slc _ _).mp hi'
      rw [List.length_set] at hl
      obtain ⟨ma, _⟩ := meta_ok a ha
      obtain ⟨mb, _⟩ := meta_ok b hb
      have hcla : (chunks a).length = (shape a).length := length_of_map_sum ma
      have hclb : (chunks b).length = (shape b).length := length_of_map_sum mb
      -- abbreviations
      have hoC : OffEq ax ((shape a).set ax ((shape a).getD ax 0 + (shape b).getD ax 0)) (shape a) :=
        OffEq.set ax (shape a) _
      have hoAB : OffEq ax (shape a) (shape b) := OffEq.of_set hshp
      have hoCb : OffEq ax ((shape a).set ax ((shape a).getD ax 0 + (shape b).getD ax 0)) (shape b) :=
        ⟨by rw [hoAB.1]; simp, fun j hj => by rw [hoAB.2 j hj]; exact (getD_set_ne _ _ _ _ _ (Ne.symm hj)).symm⟩
      have hlenC : ((shape a).set ax ((shape a).getD ax 0 + (shape b).getD ax 0)).length = (shape a).length := by
        simp
      have hnC : (((shape a).set ax ((shape a).getD ax 0 + (shape b).getD ax 0)).getD ax 0 : Nat)
          = (shape a).getD ax 0 + (shape b).getD ax 0 := getD_set_eq _ _ _ _ hax
      dsimp only at h
      generalize hs : ss.getD ax colon = s at h
      generalize hna : (shape a).getD ax 0 = na at h hnC hoC hoCb hlenC hi'
      generalize hnb : (shape b).getD ax 0 = nb at h hnC hoC hoCb hlenC hi'
      split at h
      · rename_i hc
        obtain ⟨hstp, haxs⟩ := hc
        have hn0 : (0 : Int) ≤ (na : Int) + (nb : Int) := by omega
        have hb1 := istart_pos_bounds s ((na : Int) + (nb : Int)) hn0 (by omega)
        have hb2 := istop_pos_bounds s ((na : Int) + (nb : Int)) hn0 (by omega)
        generalize hstart : s.istart ((na : Int) + (nb : Int)) = start at h hb1
        generalize hstop : s.istop ((na : Int) + (nb : Int)) = stop at h hb2
        have hselC : sel s (((na + nb : Nat)) : Int) = rangeList start stop 1 := by
          rw [sel_stp_one s _ hstp]; push_cast; rw [hstart, hstop]
        -- facts about the concatenated array's slice
        have hJ : ∀ i, InB i (sliceShape ((shape a).set ax (na + nb)) (ss.map Ix.slc)) →
            (i.getD ax 0 : Int) < stop - start ∧
            (sliceIdx ((shape a).set ax (na + nb)) (ss.map Ix.slc) i).getD ax 0 = (start + (i.getD ax 0 : Nat)).toNat := by
          intro i hi0
          have hlt := hi0.getD_lt ax (by rw [sliceShape_slc_length, hlenC]; omega)
          rw [sliceShape_slc_getD _ _ _ (by rw [hlenC]; exact hax) haxs, hnC, hs, hselC] at hlt
          have hil : i.length = (shape a).length := by
            rw [hi0.length_eq, sliceShape_slc_length, hlenC]; omega
          refine ⟨?_, ?_⟩
          · by_cases hle : start ≤ stop
            · rw [rangeList_one_length start stop hle] at hlt; omega
            · have : (rangeList start stop 1).length = 0 := by
                simp [rangeList, rangeLen]; omega
              omega
          · rw [sliceIdx_slc_getD _ _ _ _ (by rw [hlenC]; exact hax) haxs (by omega), hnC, hs, hselC,
              rangeList_one_getD start stop _ hlt]
        have hss_set : ss.set ax s = ss := by
          rw [← hs]
          apply List.ext_getElem (by simp)
          intro k h1 h2
          by_cases hk : ax = k
          · subst hk; simp [List.getD_eq_getElem?_getD, h2]
          · simp [List.getElem_set_ne hk]
        have hshapeC : sliceShape ((shape a).set ax (na + nb)) (ss.map Ix.slc)
            = (sliceShape (shape a) (ss.map Ix.slc)).set ax (rangeList start stop 1).length := by
          have hoC' : OffEq ax (shape a) ((shape a).set ax (na + nb)) :=
            ⟨by simp, fun j hj => getD_set_ne _ _ _ _ _ (Ne.symm hj)⟩
          have := sliceShape_set_axis hoC' ss s hl hax
          rw [hss_set, hnC, hselC] at this
          exact this
        have hoAA : OffEq ax (shape a) (shape a) := ⟨rfl, fun _ _ => rfl⟩
        -- operand `a`
        have factA : start < min stop na →
            sel (⟨some start, some (min stop na), none⟩ : PySlice) (na : Nat)
              = rangeList start (min stop na) 1 := fun hA =>
          sel_unit_range start (min stop na) na hb1.1 (by omega) (by omega)
        have factB : max start na < stop →
            sel (⟨some (max start na - na), some (stop - na), none⟩ : PySlice) (nb : Nat)
              = rangeList (max start na - na) (stop - na) 1 := fun hB =>
          sel_unit_range _ _ nb (by omega) (by omega) (by omega)
        have hlb : ss.length = (shape b).length := by rw [hoAB.1]; exact hl
        have haxb : ax < (shape b).length := by rw [hoAB.1]; exact hax
        split at h
        · rename_i hA
          have hselA := factA hA
          have hshA := sliceShape_set_axis hoAA ss ⟨some start, some (min stop na), none⟩ hl hax
          rw [hna, hselA] at hshA
          have hlenA : (rangeList start (min stop ↑na) 1).length = (min stop na - start).toNat :=
            rangeList_one_length _ _ (by omega)
          split at h
          · rename_i hB
            injection h with h; subst h
            have hselB := factB hB
            have hshB := sliceShape_set_axis hoAB ss ⟨some (max start na - na), some (stop - na), none⟩ hl hax
            rw [hnb, hselB] at hshB
            have hlenB : (rangeList (max start ↑na - ↑na) (stop - ↑na) 1).length
                = (stop - na - (max start na - na)).toNat := rangeList_one_length _ _ (by omega)
            have hlenT : (rangeList start stop 1).length = (stop - start).toNat :=
              rangeList_one_length _ _ (by omega)
            have hSSl : (sliceShape (shape a) (ss.map Ix.slc)).length = (shape a).length := by
              rw [sliceShape_slc_length]; omega
            refine ⟨?_, ?_, ?_⟩
            · simp only [WF, wf, Bool.and_eq_true, decide_eq_true_eq]
              refine ⟨⟨⟨⟨⟨ha, wfIx_set_unit _ _ hl hst⟩, hb, wfIx_set_unit _ _ hlb hst⟩, ?_⟩, ?_⟩, ?_⟩
              · simp only [shape]; rw [hshA, List.length_set, hSSl]; exact hax
              · simp only [shape]; rw [hshA, hshB, List.set_set, List.set_set]
              · simp only [chunks]
                exact (sliceChunks_set_axis hoAB hchk ss _ _ hl hcla).symm
            · simp only [shape, hna, hnb]
              rw [hshapeC, hshA, hshB, List.set_set, getD_set_eq _ _ _ _ (by omega),
                getD_set_eq _ _ _ _ (by omega), hlenA, hlenB, hlenT]
              congr 1; omega
            · intro i hi0
              have hi1 : InB i (sliceShape ((shape a).set ax (na + nb)) (ss.map Ix.slc)) := by
                simpa only [shape, hna, hnb] using hi0
              obtain ⟨hx, hJx⟩ := hJ i hi1
              have hil : i.length = (shape a).length := by
                rw [hi1.length_eq, sliceShape_slc_length, hlenC]; omega
              have hLA : (sliceShape (shape a) (List.map Ix.slc
                  (ss.set ax ⟨some start, some (min stop na), none⟩))).getD ax 0
                    = (min stop na - start).toNat := by
                rw [hshA, getD_set_eq _ _ _ _ (by omega), hlenA]
              have hlC : ss.length = ((shape a).set ax (na + nb)).length := by rw [hlenC]; exact hl
              have haxC : ax < ((shape a).set ax (na + nb)).length := by rw [hlenC]; exact hax
              have hilC : i.length = ((shape a).set ax (na + nb)).length := by rw [hlenC]; exact hil
              simp only [denGet, shape, hna, hnb, hLA, hJx]
              by_cases hbr : i.getD ax 0 < (min stop na - start).toNat
              · rw [if_pos hbr, if_pos (by omega)]
                congr 1
                have := sliceIdx_set_axis hoC ss ⟨some start, some (min stop na), none⟩ i (i.getD ax 0)
                  (start + (i.getD ax 0 : Nat)).toNat hlC hilC haxC
                  (by rw [hna, hselA, rangeList_one_getD _ _ _ (by rw [hlenA]; exact hbr)])
                rw [set_getD_self] at this
                rw [this, ← hJx, set_getD_self]
              · rw [if_neg hbr, if_neg (by omega)]
                congr 1
                have := sliceIdx_set_axis hoCb ss ⟨some (max start na - na), some (stop - na), none⟩ i
                  (i.getD ax 0 - (min stop na - start).toNat) ((start + (i.getD ax 0 : Nat)).toNat - na)
                  hlC hilC haxC
                  (by rw [hnb, hselB, rangeList_one_getD _ _ _ (by rw [hlenB]; omega)]; omega)
                rw [this]
          · rename_i hB
            injection h with h; subst h
            have hlenT : (rangeList start stop 1).length = (stop - start).toNat :=
              rangeList_one_length _ _ (by omega)
            refine ⟨?_, ?_, ?_⟩
            · simp only [WF, wf, Bool.and_eq_true]
              exact ⟨ha, wfIx_set_unit _ _ hl hst⟩
            · simp only [shape, hna, hnb]
              rw [hshapeC, hshA, hlenA, hlenT]
              congr 1; omega
            · intro i hi0
              have hi1 : InB i (sliceShape ((shape a).set ax (na + nb)) (ss.map Ix.slc)) := by
                simpa only [shape, hna, hnb] using hi0
              obtain ⟨hx, hJx⟩ := hJ i hi1
              have hil : i.length = (shape a).length := by
                rw [hi1.length_eq, sliceShape_slc_length, hlenC]; omega
              have hlC : ss.length = ((shape a).set ax (na + nb)).length := by rw [hlenC]; exact hl
              have haxC : ax < ((shape a).set ax (na + nb)).length := by rw [hlenC]; exact hax
              have hilC : i.length = ((shape a).set ax (na + nb)).length := by rw [hlenC]; exact hil
              simp only [denGet, shape, hna, hnb, hJx]
              rw [if_pos (by omega)]
              congr 1
              have := sliceIdx_set_axis hoC ss ⟨some start, some (min stop na), none⟩ i (i.getD ax 0)
                (start + (i.getD ax 0 : Nat)).toNat hlC hilC haxC
                (by rw [hna, hselA, rangeList_one_getD _ _ _ (by rw [hlenA]; omega)])
              rw [set_getD_self] at this
              rw [this, ← hJx, set_getD_self]
        · rename_i hA
          split at h
          · rename_i hB
            injection h with h; subst h
            have hselB := factB hB
            have hshB := sliceShape_set_axis hoAB ss ⟨some (max start na - na), some (stop - na), none⟩ hl hax
            rw [hnb, hselB] at hshB
            have hlenB : (rangeList (max start ↑na - ↑na) (stop - ↑na) 1).length
                = (stop - na - (max start na - na)).toNat := rangeList_one_length _ _ (by omega)
            have hlenT : (rangeList start stop 1).length = (stop - start).toNat :=
              rangeList_one_length _ _ (by omega)
            refine ⟨?_, ?_, ?_⟩
            · simp only [WF, wf, Bool.and_eq_true]
              exact ⟨hb, wfIx_set_unit _ _ hlb hst⟩
            · simp only [shape, hna, hnb]
              rw [hshapeC, hshB, hlenB, hlenT]
              congr 1; omega
            · intro i hi0
              have hi1 : InB i (sliceShape ((shape a).set ax (na + nb)) (ss.map Ix.slc)) := by
                simpa only [shape, hna, hnb] using hi0
              obtain ⟨hx, hJx⟩ := hJ i hi1
              have hil : i.length = (shape a).length := by
                rw [hi1.length_eq, sliceShape_slc_length, hlenC]; omega
              have hlC : ss.length = ((shape a).set ax (na + nb)).length := by rw [hlenC]; exact hl
              have haxC : ax < ((shape a).set ax (na + nb)).length := by rw [hlenC]; exact hax
              have hilC : i.length = ((shape a).set ax (na + nb)).length := by rw [hlenC]; exact hil
              simp only [denGet, shape, hna, hnb, hJx]
              rw [if_neg (by omega)]
              congr 1
              have := sliceIdx_set_axis hoCb ss ⟨some (max start na - na), some (stop - na), none⟩ i
                (i.getD ax 0) ((start + (i.getD ax 0 : Nat)).toNat - na) hlC hilC haxC
                (by rw [hnb, hselB, rangeList_one_getD _ _ _ (by rw [hlenB]; omega)]; omega)
              rw [set_getD_self] at this
              rw [this]
          · exact absurd h (by simp)
      · exact absurd h (by simp)
    · exact absurd h (by simp)
  · exact absurd h (by simp)

end Dask.ND
