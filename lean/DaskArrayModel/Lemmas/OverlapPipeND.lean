/-
n-D lift of the map_overlap pipeline (Model/OverlapPipe.lean) by axis independence.

* `blockIdx_spec`, `lo_*`: where a position lies in a chunking;
* `axisSrc_eq_padSrc`: ONE axis, index level: the entry the kept output `i` of the pipeline reads at window offset `t`
  is the entry the global extension `padSrc` has at `i + t` (every kind, every depth pair, every guarded chunking);
* `box_pipe`: the boxes agree, by induction over the axes (the per-axis maps are composed as a product, so corner
  neighbours are covered);
* `pipelineND_eq_global`.
Core Lean only.
-/
import DaskArrayModel.Lemmas.OverlapPipe
import DaskArrayModel.Lemmas.OverlapSliceND
namespace Dask.Lemmas.OverlapPipe
open Dask.OverlapSlice Dask.OverlapPipe Dask.Lemmas.OverlapSlice

variable {α β : Type}

theorem lo_zero (cs : List Nat) : lo cs 0 = 0 := by simp [lo]

theorem lo_succ (cs : List Nat) (k : Nat) (hk : k < cs.length) : lo cs (k + 1) = lo cs k + cs.getD k 0 := by
  unfold lo
  rw [List.take_add_one, List.sum_append]
  simp [List.getD_eq_getElem?_getD, List.getElem?_eq_getElem hk]

theorem lo_length (cs : List Nat) : lo cs cs.length = cs.sum := by simp [lo]

theorem blockIdx_spec : ∀ (cs : List Nat) (i : Nat), i < cs.sum →
    blockIdx cs i < cs.length ∧ lo cs (blockIdx cs i) ≤ i ∧ i < lo cs (blockIdx cs i) + cs.getD (blockIdx cs i) 0
  | [], i, h => by simp at h
  | c :: cs, i, h => by
    unfold blockIdx
    by_cases hi : i < c
    · simp [hi, lo]
    · have ih := blockIdx_spec cs (i - c) (by simp at h; omega)
      simp only [hi, if_false, List.length_cons, lo, List.take_succ_cons, List.sum_cons, List.getD_cons_succ]
      simp only [lo] at ih
      omega

/-- facts about the block containing `i` under the guard -/
theorem guard_facts (dl dr : Nat) (cs : List Nat) (n : Nat) (hG : Guard dl dr cs n) (i : Nat) (hi : i < n) :
    let k := blockIdx cs i
    k < cs.length ∧ lo cs k ≤ i ∧ i < lo cs k + cs.getD k 0 ∧ lo cs k + cs.getD k 0 ≤ n ∧
      (0 < k → dl ≤ lo cs k) ∧ (k + 1 < cs.length → lo cs k + cs.getD k 0 + dr ≤ n) ∧
      (k + 1 = cs.length → lo cs k + cs.getD k 0 = n) := by
  obtain ⟨_, hsum, hmin⟩ := hG
  intro k
  have hs := blockIdx_spec cs i (by omega)
  have hmem : ∀ j, j < cs.length → max dl dr ≤ cs.getD j 0 := fun j hj =>
    hmin _ (by rw [List.getD_eq_getElem?_getD, List.getElem?_eq_getElem hj]; exact List.getElem_mem hj)
  refine ⟨hs.1, hs.2.1, hs.2.2, ?_, ?_, ?_, ?_⟩
  · have := lo_le_sum cs k; omega
  · intro h0
    obtain ⟨j, hj⟩ : ∃ j, k = j + 1 := ⟨k - 1, by omega⟩
    have h1 := lo_succ cs j (by have := hs.1; omega)
    have h2 := hmem j (by have := hs.1; omega)
    rw [hj]
    omega
  · intro h1
    have h2 := lo_succ cs k hs.1
    have h3 := lo_le_sum cs (k + 1)
    have h4 := hmem (k + 1) h1
    omega
  · intro h1
    have h2 := lo_succ cs k hs.1
    have h3 := lo_length cs
    rw [← h1] at h3
    omega

/-- **one axis, index level**: window offset `t` of the kept output `i` reads what the global extension has at `i + t` -/
theorem axisSrc_eq_padSrc (b : Boundary α) (dl dr : Nat) (cs : List Nat) (n : Nat) (hG : Guard dl dr cs n)
    (i : Nat) (hi : i < n) (t : Nat) (ht : t < dl + dr + 1) :
    axisSrc b dl dr cs n (blockIdx cs i) ((i - lo cs (blockIdx cs i)) + trimFront b.kind dl (blockIdx cs i) + t) =
      padSrc b dl dr n (i + t) := by
  obtain ⟨hk, hlo, hhi, hle, hprev, hnext, hlast⟩ := guard_facts dl dr cs n hG i hi
  unfold axisSrc extLen haloL haloR trimFront
  generalize blockIdx cs i = k at *
  generalize hc : cs.getD k 0 = c at *
  have hl0 : k = 0 → lo cs k = 0 := fun h => h ▸ lo_zero cs
  generalize lo cs k = l at *
  by_cases hp : addsPieces b.kind dl dr = true
  · have hb : b.kind ≠ .none := by
      intro h; simp [addsPieces, h] at hp
    simp only [hp, hb, true_or, if_true, and_false, if_false]
    have e1 : ¬ (i - l + dl + t < dl) := by omega
    have e2 : i - l + dl + t < dl + (dl + c + dr) := by omega
    have e3 : l + (i - l + dl + t - dl) = i + t := by omega
    rw [if_neg e1, if_pos e2, e3]
  · have hp' : addsPieces b.kind dl dr = false := by simpa using hp
    simp only [hp', false_or, Bool.false_eq_true, if_false]
    by_cases hb : b.kind = .none
    · have hbb : b = .none := by
        cases b <;> first | rfl | exact absurd hb (by simp [Boundary.kind])
      subst hbb
      simp only [Boundary.kind, and_true, padSrc]
      by_cases h0 : 0 < k
      · have hk0 : ¬ k = 0 := by omega
        have := hprev h0
        simp only [h0, hk0, if_true, if_false]
        by_cases h1 : k + 1 < cs.length
        · have := hnext h1
          simp only [h1, if_true]
          have e1 : ¬ (i - l + dl + t < dl) := by omega
          have e2 : i - l + dl + t < dl + (dl + c + dr) := by omega
          have e3 : ¬ (i + t < dl) := by omega
          have e4 : i + t < dl + n := by omega
          rw [if_neg e1, if_pos e2, if_neg e3, if_pos e4]
          congr 1; omega
        · have := hlast (by omega)
          simp only [h1, if_false]
          have e1 : ¬ (i - l + dl + t < dl) := by omega
          have e3 : ¬ (i + t < dl) := by omega
          rw [if_neg e1, if_neg e3]
          by_cases e2 : i - l + dl + t < dl + (dl + c + 0)
          · have e4 : i + t < dl + n := by omega
            rw [if_pos e2, if_pos e4]
            congr 1; omega
          · have e4 : ¬ (i + t < dl + n) := by omega
            have e5 : i - l + dl + t < dl + (dl + c + 0) + dr := by omega
            have e6 : i + t < dl + n + dr := by omega
            rw [if_neg e2, if_neg e4, if_pos e5, if_pos e6]
      · have hk0 : k = 0 := by omega
        subst hk0
        have hl0' : l = 0 := hl0 rfl
        subst hl0'
        simp only [Nat.lt_irrefl, if_false, if_true, Nat.sub_zero, Nat.add_zero, Nat.zero_add]
        by_cases h1 : 0 + 1 < cs.length
        · have := hnext h1
          simp only [h1, if_true]
          by_cases e1 : i + t < dl
          · rw [if_pos e1, if_pos e1]
          · have e2 : i + t < dl + (c + dr) := by omega
            have e4 : i + t < dl + n := by omega
            rw [if_neg e1, if_neg e1, if_pos e2, if_pos e4]
        · have := hlast (by omega)
          simp only [h1, if_false]
          by_cases e1 : i + t < dl
          · rw [if_pos e1, if_pos e1]
          · rw [if_neg e1, if_neg e1]
            by_cases e2 : i + t < dl + (c + 0)
            · have e4 : i + t < dl + n := by omega
              rw [if_pos e2, if_pos e4]
            · have e4 : ¬ (i + t < dl + n) := by omega
              have e5 : i + t < dl + (c + 0) + dr := by omega
              have e6 : i + t < dl + n + dr := by omega
              rw [if_neg e2, if_neg e4, if_pos e5, if_pos e6]
    · have hz : dl = 0 ∧ dr = 0 := by
        simp [addsPieces, hb] at hp'; exact hp'
      obtain ⟨rfl, rfl⟩ := hz
      have ht0 : t = 0 := by omega
      subst ht0
      simp only [hb, and_false, if_false, Nat.add_zero, Nat.zero_add, Nat.not_lt_zero, Nat.sub_zero]
      have e2 : i - l < c := by omega
      have e3 : l + (i - l) = i := by omega
      split <;> simp only [padSrc, Nat.not_lt_zero, if_false, Nat.zero_add, hi, if_true, Nat.sub_zero] <;>
        simp [e2, e3]

/-! ### the product over the axes -/

/-- `I` is a multi-index of the array -/
def InRangeP : List (AxPipe α) → List Nat → Prop
  | [], [] => True
  | p :: ps, i :: is => i < p.spec.n ∧ InRangeP ps is
  | _, _ => False

theorem box_pipe : ∀ (ps : List (AxPipe α)) (I : List Nat)
    (_hG : ∀ p ∈ ps, Guard p.spec.dl p.spec.dr p.cs p.spec.n) (_hI : InRangeP ps I) (G : List Nat → Option α),
    boxWin (widths (ps.map (·.spec)))
        (resolveND
          (List.zipWith (fun p i => axisSrc p.spec.b p.spec.dl p.spec.dr p.cs p.spec.n (blockIdx p.cs i)) ps I) G)
        (List.zipWith localPos ps I) =
      boxWin (widths (ps.map (·.spec))) (padND (ps.map (·.spec)) G) I
  | [], [], _, _, G => by simp [widths, boxWin, resolveND, padND]
  | [], _ :: _, _, h, _ => by simp [InRangeP] at h
  | _ :: _, [], _, h, _ => by simp [InRangeP] at h
  | p :: ps, i :: is, hG, hI, G => by
    simp only [InRangeP] at hI
    simp only [List.map_cons, widths, List.zipWith_cons_cons, boxWin]
    apply flatMap_congr'
    intro o ho
    have ho' : o < p.spec.dl + p.spec.dr + 1 := by simpa using ho
    have hax := axisSrc_eq_padSrc p.spec.b p.spec.dl p.spec.dr p.cs p.spec.n (hG p (by simp)) i hI.1 o ho'
    have hl : localPos p i + o =
        (i - lo p.cs (blockIdx p.cs i)) + trimFront p.spec.b.kind p.spec.dl (blockIdx p.cs i) + o := rfl
    simp only [resolveND, padND, hl, hax]
    exact box_pipe ps is (fun q hq => hG q (by simp [hq])) hI.2 _

/-- **n-D: the chunked pipeline is the global stencil at every multi-index** -/
theorem pipelineND_eq_global (kern : List (Option α) → β) (ps : List (AxPipe α))
    (hG : ∀ p ∈ ps, Guard p.spec.dl p.spec.dr p.cs p.spec.n) (A : List Nat → α) (I : List Nat)
    (hI : InRangeP ps I) :
    pipelineND kern ps A I = mapOverlapND kern (ps.map (·.spec)) A I := by
  unfold pipelineND mapOverlapND
  rw [box_pipe ps I hG hI]

end Dask.Lemmas.OverlapPipe
