/-
Rewrite-rule layer, collection: every rule of `rules` (used by `optimize`) and of `extraRules` is
sound; hence `step`, every sequence of single-rule steps, and `optimize`.
-/
import DaskArrayModel.Lemmas.RulesConcat
namespace Dask.ND
open Dask.Py Dask.Py.PySlice Dask.Slicing

theorem rules_sound : ∀ r ∈ rules, Sound r.2 := by
  intro r hr
  simp only [rules, List.mem_cons, List.mem_nil_iff, or_false] at hr
  rcases hr with h | h | h | h | h | h | h | h | h | h | h | h | h | h | h | h | h <;> subst h
  · exact sliceIdentityDrop_sound
  · exact sliceSliceFuse_sound
  · exact sliceThroughMap_sound
  · exact sliceThroughZip_sound
  · exact sliceThroughTranspose_sound
  · exact sliceThroughExpandDims_sound
  · exact sliceThroughSqueeze_sound
  · exact sliceThroughReduce_sound
  · exact sliceThroughConcat_sound
  · exact rechunkNoop_sound
  · exact rechunkRechunk_sound
  · exact rechunkThroughMap_sound
  · exact rechunkThroughZip_sound
  · exact rechunkThroughTranspose_sound
  · exact rechunkThroughExpandDims_sound
  · exact rechunkIntoSrc_sound
  · exact rechunkIntoRegion_sound

theorem extraRules_sound : ∀ r ∈ extraRules, Sound r.2 := by
  intro r hr
  simp only [extraRules, List.mem_cons, List.mem_nil_iff, or_false] at hr
  rcases hr with h | h <;> subst h
  · exact sliceIntoSrcKeep_sound
  · exact sliceSplitInts_sound

theorem allRules_sound : ∀ r ∈ rules ++ extraRules, Sound r.2 := by
  intro r hr
  rcases List.mem_append.mp hr with h | h
  · exact rules_sound r h
  · exact extraRules_sound r h

theorem step_refines (env : Env) (henv : EnvOK env) (e e' : Expr) (hw : WF e) (h : step e = some e') :
    Refines env e' e := by
  unfold step at h
  obtain ⟨q, hq, rfl⟩ := Option.map_eq_some_iff.mp h
  exact stepWith_sound rules rules_sound env henv e q hw hq

/-- a sequence of single-rule steps: each step applies ONE rule of `rules ++ extraRules` at the
first position (root first, then the children left to right) where it fires -/
inductive Rewrites : Expr → Expr → Prop
  | refl (e : Expr) : Rewrites e e
  | step {e e'' : Expr} {p : String × Expr} (r : String × (Expr → Option Expr))
      (hr : r ∈ rules ++ extraRules) (h : stepWith [r] e = some p) (t : Rewrites p.2 e'') :
      Rewrites e e''

theorem rewrites_refines (env : Env) (henv : EnvOK env) {e e' : Expr} (h : Rewrites e e') :
    WF e → Refines env e' e := by
  induction h with
  | refl e => exact fun hw => Refines.refl hw
  | step r hr h _ ih =>
    intro hw
    have h1 := stepWith_sound [r] (fun r' hr' => by
      rw [List.mem_singleton] at hr'; subst hr'; exact allRules_sound _ hr) env henv _ _ hw h
    exact (ih h1.isWF).trans h1

/-- an environment whose block functions are the identity satisfies `EnvOK` -/
def trivialEnv : Env := { src := fun _ => ⟨[], fun _ => 0⟩, un := fun _ x => x, bin := fun _ x _ => x }

theorem trivialEnv_ok : EnvOK trivialEnv := fun _ _ _ h => ⟨h, rfl⟩

end Dask.ND
