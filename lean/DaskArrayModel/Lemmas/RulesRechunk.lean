/-
Soundness of the structure-free rules: slice through `map` / `zip`, and the rechunk family
(no-op, rechunk∘rechunk, through map / zip / transpose / expand_dims, into a NumPy source).
-/
import DaskArrayModel.Lemmas.RulesStep
namespace Dask.ND
open Dask.Py Dask.Py.PySlice Dask.Slicing

theorem sliceThroughMap_sound : Sound sliceThroughMap := by
  intro env e e' hw h
  unfold sliceThroughMap at h
  split at h
  · injection h with h; subst h
    refine ⟨by simpa only [WF, wf, shape] using hw, rfl, fun i _ => rfl⟩
  · exact absurd h (by simp)

theorem sliceThroughZip_sound : Sound sliceThroughZip := by
  intro env e e' hw h
  unfold sliceThroughZip at h
  split at h
  · rename_i f a b idx
    injection h with h; subst h
    simp only [WF, wf, Bool.and_eq_true, decide_eq_true_eq] at hw
    obtain ⟨⟨⟨⟨ha, hb⟩, hs⟩, hc⟩, hi⟩ := hw
    have hi' : wfIx (shape a) idx = true := hi
    refine ⟨?_, rfl, ?_⟩
    · simp only [WF, wf, Bool.and_eq_true, decide_eq_true_eq]
      refine ⟨⟨⟨⟨ha, hi'⟩, hb, by rw [← hs]; exact hi'⟩, ?_⟩, ?_⟩
      · simp only [shape, hs]
      · simp only [chunks, hs, hc]
    · intro i _
      simp only [denGet, shape, hs]
  · exact absurd h (by simp)

theorem rechunkNoop_sound : Sound rechunkNoop := by
  intro env e e' hw h
  unfold rechunkNoop at h
  split at h
  · split at h
    · injection h with h; subst h
      simp only [WF, wf, Bool.and_eq_true] at hw
      exact ⟨hw.1, rfl, fun i _ => rfl⟩
    · exact absurd h (by simp)
  · exact absurd h (by simp)

theorem rechunkRechunk_sound : Sound rechunkRechunk := by
  intro env e e' hw h
  unfold rechunkRechunk at h
  split at h
  · injection h with h; subst h
    simp only [WF, wf, Bool.and_eq_true, shape] at hw
    refine ⟨?_, rfl, fun i _ => rfl⟩
    simp only [WF, wf, Bool.and_eq_true]
    exact ⟨hw.1.1, hw.2⟩
  · exact absurd h (by simp)

theorem rechunkThroughMap_sound : Sound rechunkThroughMap := by
  intro env e e' hw h
  unfold rechunkThroughMap at h
  split at h
  · injection h with h; subst h
    exact ⟨by simpa only [WF, wf, shape] using hw, rfl, fun i _ => rfl⟩
  · exact absurd h (by simp)

theorem rechunkThroughZip_sound : Sound rechunkThroughZip := by
  intro env e e' hw h
  unfold rechunkThroughZip at h
  split at h
  · rename_i f a b l
    injection h with h; subst h
    simp only [WF, wf, Bool.and_eq_true, decide_eq_true_eq] at hw
    obtain ⟨⟨⟨⟨ha, hb⟩, hs⟩, hc⟩, hl⟩ := hw
    have hl' : wfLayout (shape a) l = true := hl
    refine ⟨?_, rfl, fun i _ => rfl⟩
    simp only [WF, wf, Bool.and_eq_true, decide_eq_true_eq]
    exact ⟨⟨⟨⟨ha, hl'⟩, hb, by rw [← hs]; exact hl'⟩, hs⟩, rfl⟩
  · exact absurd h (by simp)

theorem rechunkIntoSrc_sound : Sound rechunkIntoSrc := by
  intro env e e' hw h
  unfold rechunkIntoSrc at h
  split at h
  · injection h with h; subst h
    simp only [WF, wf, Bool.and_eq_true, shape] at hw
    exact ⟨by simpa only [WF, wf] using hw.2, rfl, fun i _ => rfl⟩
  · exact absurd h (by simp)

theorem rechunkIntoRegion_sound : Sound rechunkIntoRegion := by
  intro env e e' hw h
  unfold rechunkIntoRegion at h
  split at h
  · rename_i id sh ch idx l
    split at h
    · dsimp only at h
      split at h
      · rename_i hc
        injection h with h; subst h
        simp only [WF, wf, Bool.and_eq_true] at hw
        refine ⟨?_, rfl, fun i _ => rfl⟩
        simp only [WF, wf, Bool.and_eq_true]
        exact ⟨hc.1, hw.1.2⟩
      · exact absurd h (by simp)
    · exact absurd h (by simp)
  · exact absurd h (by simp)

theorem unpermL_length {α} (perm : List Nat) (x : List α) (d : α) :
    (unpermL perm x d).length = perm.length := by simp [unpermL]

theorem unpermL_getD {α} (perm : List Nat) (x : List α) (d : α) (a : Nat) (ha : a < perm.length) :
    (unpermL perm x d).getD a d = x.getD (perm.idxOf a) d := by
  unfold unpermL
  simp [List.getD_eq_getElem?_getD, ha]

theorem rechunkThroughTranspose_sound : Sound rechunkThroughTranspose := by
  intro env e e' hw h
  unfold rechunkThroughTranspose at h
  split at h
  · rename_i a perm l
    injection h with h; subst h
    simp only [WF, wf, Bool.and_eq_true, shape] at hw
    obtain ⟨⟨ha, hp⟩, hl⟩ := hw
    have hp' := isPerm_ok hp
    obtain ⟨l1, l2⟩ := wfLayout_iff.mp hl
    have hll : l.length = (shape a).length := by
      have := length_of_map_sum l1; simpa [hp'.len] using this
    refine ⟨?_, rfl, fun i _ => rfl⟩
    simp only [WF, wf, Bool.and_eq_true, shape]
    refine ⟨⟨ha, wfLayout_iff.mpr ⟨?_, ?_⟩⟩, hp⟩
    · apply list_ext_getD
      · simp [unpermL_length, hp'.len]
      · intro k hk
        simp only [List.length_map, unpermL_length, hp'.len] at hk
        rw [getD_map List.sum _ k [] 0 (by rw [unpermL_length, hp'.len]; exact hk),
          unpermL_getD _ _ _ _ (by rw [hp'.len]; exact hk), sum_getD_of_map_sum l1,
          getD_map _ perm _ 0 0 (by rw [hp'.len]; exact hp'.idxOf_lt hk), hp'.getD_idxOf hk]
    · intro cs hcs
      simp only [unpermL, List.mem_map, List.mem_range] at hcs
      obtain ⟨a0, ha0, rfl⟩ := hcs
      rw [hp'.len] at ha0
      exact l2.getD _ (by rw [hll]; exact hp'.idxOf_lt ha0)
  · exact absurd h (by simp)

theorem rechunkThroughExpandDims_sound : Sound rechunkThroughExpandDims := by
  intro env e e' hw h
  unfold rechunkThroughExpandDims at h
  split at h
  · rename_i a ax l
    split at h
    · rename_i hc
      injection h with h; subst h
      simp only [WF, wf, Bool.and_eq_true, decide_eq_true_eq, shape] at hw
      obtain ⟨⟨ha, hax⟩, hl⟩ := hw
      obtain ⟨l1, l2⟩ := wfLayout_iff.mp hl
      refine ⟨?_, rfl, fun i _ => rfl⟩
      simp only [WF, wf, Bool.and_eq_true, decide_eq_true_eq, shape]
      refine ⟨⟨ha, wfLayout_iff.mpr ⟨?_, ?_⟩⟩, decide_eq_true hax⟩
      · rw [map_eraseIdx', l1, List.eraseIdx_insertIdx_self]
      · intro cs hcs
        exact l2 cs (List.mem_of_mem_eraseIdx hcs)
    · exact absurd h (by simp)
  · exact absurd h (by simp)

end Dask.ND
