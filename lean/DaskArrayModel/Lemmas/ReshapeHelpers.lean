/-
Helper lemmas for the reshape planner model (`Model/Reshape.lean`): Python list primitives at natural-number
indices, `expand_tuple` / `contract_tuple` / `_smooth_chunks` / `_calc_lower_dimension_chunks` facts.
Everything is partial-correctness style: IF the model function returns `.ok v` THEN `v` has the property.
-/
import DaskArrayModel.Model.ReshapeSpec
namespace Dask.Reshape
open Dask.ND

/-! ### the `Except` monad -/

theorem bind_ok {α β : Type} {x : Except Err α} {f : α → Except Err β} {v : β} :
    (x >>= f) = .ok v ↔ ∃ a, x = .ok a ∧ f a = .ok v := by
  cases x <;> simp [bind, Except.bind]

theorem pure_ok {α : Type} {a v : α} : (pure a : Except Err α) = .ok v ↔ a = v := by
  simp [pure, Except.pure]

/-! ### Python indices -/

theorem pyIdx_ofNat {n k : Nat} (h : k < n) : pyIdx n (k : Int) = some k := by
  unfold pyIdx
  have : (0:Int) ≤ (k:Int) := Int.natCast_nonneg k
  simp [this, h]

theorem pyIdx_lt {n : Nat} {i : Int} {k : Nat} (h : pyIdx n i = some k) : k < n := by
  unfold pyIdx at h
  split at h <;> split at h <;> simp at h <;> omega

theorem pyIdx_nonneg {n : Nat} {i : Int} {k : Nat} (hi : 0 ≤ i) (h : pyIdx n i = some k) :
    i = (k : Int) := by
  unfold pyIdx at h
  simp [hi] at h
  omega

theorem pyIdx_neg {n : Nat} {i : Int} {k : Nat} (hi : i < 0) (h : pyIdx n i = some k) :
    i + n = (k : Int) := by
  unfold pyIdx at h
  have : ¬ (0 ≤ i) := by omega
  simp [this] at h
  omega

theorem pyGet_ok {α : Type} {l : List α} {i : Int} {v : α} (h : pyGet l i = .ok v) :
    ∃ k, pyIdx l.length i = some k ∧ l[k]? = some v := by
  unfold pyGet at h
  split at h
  · rename_i k hk
    split at h
    · rename_i w hw
      refine ⟨k, hk, ?_⟩
      simp only [Except.ok.injEq] at h
      rw [hw, h]
    · simp at h
  · simp at h

theorem pyGet_ofNat {α : Type} {l : List α} {k : Nat} {v : α} (h : l[k]? = some v) :
    pyGet l (k : Int) = .ok v := by
  have hk : k < l.length := by
    rcases Nat.lt_or_ge k l.length with h' | h'
    · exact h'
    · rw [List.getElem?_eq_none h'] at h; simp at h
  unfold pyGet
  rw [pyIdx_ofNat hk]
  simp [h]

theorem pyGet_nat_ok {α : Type} {l : List α} {k : Nat} {v : α} (h : pyGet l (k : Int) = .ok v) :
    l[k]? = some v := by
  obtain ⟨j, hj, hv⟩ := pyGet_ok h
  have := pyIdx_nonneg (Int.natCast_nonneg k) hj
  have : k = j := by omega
  subst this; exact hv

theorem pySet_ok {α : Type} {l : List α} {i : Int} {v : α} {r : List α} (h : pySet l i v = .ok r) :
    ∃ k, pyIdx l.length i = some k ∧ r = l.set k v := by
  unfold pySet at h
  split at h
  · rename_i k hk
    simp only [Except.ok.injEq] at h
    exact ⟨k, hk, h.symm⟩
  · simp at h

theorem pySet_nat_ok {α : Type} {l : List α} {k : Nat} {v : α} {r : List α}
    (h : pySet l (k : Int) v = .ok r) : k < l.length ∧ r = l.set k v := by
  obtain ⟨j, hj, hv⟩ := pySet_ok h
  have h1 := pyIdx_nonneg (Int.natCast_nonneg k) hj
  have h2 := pyIdx_lt hj
  have : k = j := by omega
  subst this; exact ⟨h2, hv⟩

theorem pyClamp_ofNat (n k : Nat) : pyClamp n (k : Int) = min k n := by
  unfold pyClamp
  have : ¬ ((k : Int) < 0) := by omega
  simp [this]

theorem pySlice_nat {α : Type} (l : List α) (a b : Nat) (hb : b ≤ l.length) :
    pySlice l (a : Int) (b : Int) = (l.drop a).take (b - a) := by
  unfold pySlice
  rw [pyClamp_ofNat, pyClamp_ofNat]
  rcases Nat.le_total a l.length with h | h
  · rw [Nat.min_eq_left h, Nat.min_eq_left hb]
  · rw [Nat.min_eq_right h, Nat.min_eq_left hb]
    have h1 : b - l.length = 0 := by omega
    have h2 : b - a = 0 := by omega
    rw [h1, h2]; simp

theorem pyRange_nat (a b : Nat) :
    pyRange (a : Int) (b : Int) = (List.range' a (b - a)).map (fun (k : Nat) => (k : Int)) := by
  unfold pyRange
  have : ((b : Int) - (a : Int)).toNat = b - a := by omega
  rw [this]
  apply List.ext_getElem?
  intro i
  by_cases h : i < b - a
  · simp [h]
  · simp [h]

theorem pyRange_cons (a b : Nat) (h : a < b) :
    pyRange (a : Int) (b : Int) = (a : Int) :: pyRange ((a + 1 : Nat) : Int) (b : Int) := by
  rw [pyRange_nat, pyRange_nat]
  have : b - a = (b - (a + 1)) + 1 := by omega
  rw [this, List.range'_succ]
  simp

theorem pyRange_empty (a b : Nat) (h : b ≤ a) : pyRange (a : Int) (b : Int) = [] := by
  rw [pyRange_nat]
  have : b - a = 0 := by omega
  rw [this]; rfl

/-! ### small list facts -/

theorem sum_replicate (n x : Nat) : (List.replicate n x).sum = n * x := List.sum_replicate_nat

theorem sum_flatMap {α : Type} (f : α → List Nat) (l : List α) :
    (l.flatMap f).sum = (l.map (fun x => (f x).sum)).sum := by
  induction l with
  | nil => simp
  | cons x xs ih => simp [List.flatMap_cons, List.sum_append, ih]

theorem allOnes_iff (c : Chunks) : allOnes c = true ↔ ∀ x ∈ c, x = 1 := by
  unfold allOnes
  simp [List.all_eq_true]

theorem allOnes_sum {c : Chunks} (h : allOnes c = true) : c = List.replicate c.sum 1 := by
  induction c with
  | nil => simp
  | cons x xs ih =>
    rw [allOnes_iff] at h ih
    have hx : x = 1 := h x (by simp)
    have hxs := ih (fun y hy => h y (by simp [hy]))
    subst hx
    rw [List.sum_cons, Nat.add_comm, List.replicate_succ, ← hxs]

theorem allOnes_replicate (d : Nat) : allOnes (List.replicate d 1) = true := by
  rw [allOnes_iff]; intro x hx; exact (List.mem_replicate.mp hx).2

/-- positive entries summing to 1: the tuple is `(1,)` -/
theorem pos_sum_one {c : Chunks} (hp : ∀ x ∈ c, 0 < x) (hs : c.sum = 1) : c = [1] := by
  match c, hp, hs with
  | [], _, hs => simp at hs
  | [x], _, hs => simp at hs; simp [hs]
  | x :: y :: r, hp, hs =>
    have h1 := hp x (by simp)
    have h2 := hp y (by simp)
    simp only [List.sum_cons] at hs
    omega

/-- positive entries, as many as their sum: every entry is 1 -/
theorem pos_sum_len {c : Chunks} (hp : ∀ x ∈ c, 0 < x) (hs : c.sum = c.length) : allOnes c = true := by
  induction c with
  | nil => rfl
  | cons x xs ih =>
    have hx := hp x (by simp)
    have hxs : ∀ y ∈ xs, 0 < y := fun y hy => hp y (by simp [hy])
    have hge : xs.length ≤ xs.sum := by
      clear ih hs hp
      induction xs with
      | nil => simp
      | cons y ys ih2 =>
        have := hxs y (by simp)
        have := ih2 (fun z hz => hxs z (by simp [hz]))
        simp only [List.sum_cons, List.length_cons]; omega
    simp only [List.sum_cons, List.length_cons] at hs
    have hx1 : x = 1 := by omega
    have := ih hxs (by omega)
    rw [allOnes_iff] at this ⊢
    intro y hy
    rcases List.mem_cons.mp hy with h | h
    · omega
    · exact this y h

theorem normAxis_one {c : Chunks} (h : NormAxis c) (hs : c.sum = 1) : c = [1] := by
  rcases h with h | ⟨_, hp⟩
  · subst h; simp at hs
  · exact pos_sum_one hp hs

/-! ### `expand_tuple` -/

theorem expandLoop_sum (ip : Nat) (cond : Nat → Bool) (hc : ∀ x, cond x = true → ip ≤ x) :
    ∀ fuel x, (expandLoop ip cond fuel x).sum = x
  | 0, x => by
    unfold expandLoop
    by_cases h : x ≠ 0 <;> simp [h]
    omega
  | fuel + 1, x => by
    unfold expandLoop
    by_cases hcx : cond x = true
    · have := hc x hcx
      simp only [hcx, if_true, List.sum_cons, expandLoop_sum ip cond hc fuel (x - ip)]
      omega
    · simp only [hcx]
      by_cases h : x ≠ 0 <;> simp [h]
      omega

theorem expandLoop_pos (ip : Nat) (cond : Nat → Bool) (hip : 0 < ip) :
    ∀ fuel x, ∀ y ∈ expandLoop ip cond fuel x, 0 < y
  | 0, x => by
    unfold expandLoop
    by_cases h : x ≠ 0 <;> simp [h]
    omega
  | fuel + 1, x => by
    unfold expandLoop
    by_cases hcx : cond x = true
    · simp only [hcx, if_true, List.mem_cons]
      intro y hy
      rcases hy with h | h
      · omega
      · exact expandLoop_pos ip cond hip fuel (x - ip) y h
    · simp only [hcx]
      by_cases h : x ≠ 0 <;> simp [h]
      omega

theorem expandOne_sum (c f : Nat) : (expandOne c f).sum = c := by
  unfold expandOne
  split
  · apply expandLoop_sum
    intro x hx
    simp only [decide_eq_true_eq] at hx
    rcases Nat.eq_zero_or_pos f with h0 | hpos
    · subst h0; simp
    · have h1 : c / f * f ≤ c := Nat.div_mul_le_self c f
      have h2 : c / f * f ≤ x * f := by omega
      exact Nat.le_of_mul_le_mul_right h2 hpos
  · apply expandLoop_sum
    intro x hx
    simp only [decide_eq_true_eq] at hx
    omega

theorem expandOne_pos (c f : Nat) (hf : 0 < f) : ∀ y ∈ expandOne c f, 0 < y := by
  unfold expandOne
  split
  · rename_i h
    exact expandLoop_pos _ _ (Nat.div_pos h hf) _ _
  · exact expandLoop_pos _ _ (by omega) _ _

theorem expandTuple_sum {c : Chunks} {f : Nat} {e : Chunks} (h : expandTuple c f = .ok e) :
    e.sum = c.sum := by
  unfold expandTuple at h
  split at h
  · simp only [Except.ok.injEq] at h; rw [h]
  · split at h
    · simp at h
    · simp only [Except.ok.injEq] at h
      rw [← h, sum_flatMap]
      congr 1
      have : (fun x => (expandOne x f).sum) = (fun x => x) := by
        funext x; exact expandOne_sum x f
      rw [this]; simp

theorem expandTuple_pos {c : Chunks} {f : Nat} {e : Chunks} (h : expandTuple c f = .ok e)
    (hp : ∀ x ∈ c, 0 < x) : ∀ y ∈ e, 0 < y := by
  unfold expandTuple at h
  split at h
  · simp only [Except.ok.injEq] at h; rw [← h]; exact hp
  · rename_i hf1
    split at h
    · simp at h
    · rename_i hf0
      simp only [Except.ok.injEq] at h
      rw [← h]
      intro y hy
      rw [List.mem_flatMap] at hy
      obtain ⟨x, hx, hy⟩ := hy
      have hfpos : 0 < f := by
        rcases Nat.eq_zero_or_pos f with h0 | h0
        · exfalso; apply hf0; refine ⟨h0, ?_⟩
          intro hc; rw [hc] at hx; simp at hx
        · exact h0
      exact expandOne_pos x f hfpos y hy

/-! ### `contract_tuple` -/

theorem contractLoop_sum (f : Nat) (hf : 0 < f) : ∀ (c : List Nat) (res : Nat), res < f →
    (contractLoop f res c).sum = f * ((res + c.sum) / f)
  | [], res, hres => by
    unfold contractLoop
    simp [Nat.div_eq_of_lt hres]
  | chunk :: rest, res, hres => by
    unfold contractLoop
    have ih := contractLoop_sum f hf rest ((chunk + res) % f) (Nat.mod_lt _ hf)
    have key : (res + (chunk + rest.sum)) / f = (chunk + res) / f + ((chunk + res) % f + rest.sum) / f := by
      have h1 : res + (chunk + rest.sum) = f * ((chunk + res) / f) + ((chunk + res) % f + rest.sum) := by
        have := Nat.div_add_mod (chunk + res) f
        omega
      rw [h1, Nat.mul_add_div hf]
    simp only [List.sum_cons]
    split
    · simp only [List.sum_cons, ih, key, Nat.mul_add]
    · rename_i h0
      have h0' : f * ((chunk + res) / f) = 0 := by
        by_cases h : f * ((chunk + res) / f) = 0
        · exact h
        · exact absurd h h0
      rw [ih, key, Nat.mul_add, h0']; simp

theorem contractLoop_mem (f : Nat) : ∀ (c : List Nat) (res : Nat),
    ∀ y ∈ contractLoop f res c, y ≠ 0 ∧ ∃ q, y = f * q
  | [], res => by unfold contractLoop; simp
  | chunk :: rest, res => by
    unfold contractLoop
    split
    · rename_i hne
      intro y hy
      rcases List.mem_cons.mp hy with h | h
      · exact ⟨h ▸ hne, _, h⟩
      · exact contractLoop_mem f rest _ y h
    · exact contractLoop_mem f rest _

theorem contractTuple_ok {c : Chunks} {f : Nat} {ct : Chunks} (h : contractTuple c f = .ok ct) :
    0 < f ∧ ct.sum = c.sum ∧ ∀ y ∈ ct, y ≠ 0 ∧ ∃ q, y = f * q := by
  unfold contractTuple at h
  split at h
  · simp at h
  · rename_i hf
    split at h
    · simp at h
    · rename_i hm
      simp only [Except.ok.injEq] at h
      have hf' : 0 < f := Nat.pos_of_ne_zero hf
      refine ⟨hf', ?_, ?_⟩
      · rw [← h, contractLoop_sum f hf' c 0 hf']
        simp only [Nat.zero_add]
        have hm' : c.sum % f = 0 := by
          by_cases h' : c.sum % f = 0
          · exact h'
          · exact absurd h' hm
        have := Nat.div_add_mod c.sum f
        omega
      · rw [← h]; exact contractLoop_mem f c 0

/-- the quotients of a tuple of multiples of `f` -/
theorem sum_map_div {f : Nat} (hf : 0 < f) : ∀ (l : List Nat), (∀ y ∈ l, ∃ q, y = f * q) →
    (l.map (fun c => c / f)).sum * f = l.sum
  | [], _ => by simp
  | y :: ys, h => by
    obtain ⟨q, hq⟩ := h y (by simp)
    have ih := sum_map_div hf ys (fun z hz => h z (by simp [hz]))
    simp only [List.map_cons, List.sum_cons, Nat.add_mul, ih]
    rw [hq, Nat.mul_div_cancel_left q hf, Nat.mul_comm]

/-! ### `splitEven` (the even split of `_smooth_chunks`) -/

theorem splitEven_sum (elem f : Nat) (hf : 0 < f) : (splitEven elem f).sum = elem := by
  unfold splitEven ceilDivN
  rw [List.sum_append, sum_replicate, sum_replicate]
  generalize hce : (elem + f - 1) / f = ce
  have h1 := Nat.div_add_mod (elem + f - 1) f
  have h2 := Nat.mod_lt (elem + f - 1) hf
  rw [hce] at h1
  rcases ce with _ | ce'
  · simp at h1 ⊢; omega
  · have e1 : (ce' + 1) * f = ce' * f + f := by rw [Nat.add_mul]; simp
    have e2 : f * (ce' + 1) = ce' * f + f := by rw [Nat.mul_comm]; exact e1
    rw [e1]
    rw [e2] at h1
    simp only [Nat.add_sub_cancel]
    generalize hP : ce' * f = P at *
    have hk : P + f - elem ≤ f := by omega
    have e3 : (f - (P + f - elem)) * (ce' + 1) = (f - (P + f - elem)) * ce' + (f - (P + f - elem)) := by
      rw [Nat.mul_add]; simp
    rw [e3, ← Nat.add_assoc, ← Nat.add_mul]
    have e4 : P + f - elem + (f - (P + f - elem)) = f := by omega
    rw [e4, Nat.mul_comm f ce', hP]
    omega

theorem splitBig_sum (other mx : Nat) (hmx : 0 < mx) (c : Chunks) : (splitBig other mx c).sum = c.sum := by
  unfold splitBig
  rw [sum_flatMap]
  induction c with
  | nil => rfl
  | cons e es ih =>
    simp only [List.map_cons, List.sum_cons, ih]
    congr 1
    split
    · simp
    · rename_i h
      apply splitEven_sum
      unfold ceilDivN
      apply Nat.div_pos
      · omega
      · exact hmx

/-! ### slots -/

/-- the chunk tuples held by a slot list (`None` reads as `()`) -/
def val (r : Slots) : List Chunks := r.map (fun o => o.getD [])

/-- the axes `(length, chunks)` described by a shape and a slot list -/
def axes (shape : List Nat) (r : Slots) : List Axis := List.zip shape (val r)

theorem val_length (r : Slots) : (val r).length = r.length := by simp [val]

theorem val_getElem? (r : Slots) (k : Nat) : (val r)[k]? = (r[k]?).map (fun o => o.getD []) := by
  simp [val]

theorem getC_nat_ok {r : Slots} {k : Nat} {c : Chunks} (h : getC r (k:Int) = .ok c) :
    r[k]? = some (some c) := by
  unfold getC at h
  rw [bind_ok] at h
  obtain ⟨o, ho, hm⟩ := h
  cases o with
  | none => simp at hm
  | some c' =>
    simp only [pure_ok] at hm
    rw [← hm]; exact pyGet_nat_ok ho

theorem getC_ofNat {r : Slots} {k : Nat} {c : Chunks} (h : r[k]? = some (some c)) :
    getC r (k:Int) = .ok c := by
  unfold getC
  rw [pyGet_ofNat h]
  rfl

/-! ### `mapE` -/

theorem mapE_unsome {g : Option Chunks → Except Err Chunks} (hg : ∀ o c, g o = .ok c → o = some c) :
    ∀ (l : Slots) (cs : List Chunks), mapE g l = .ok cs → l = cs.map some
  | [], cs, h => by
    simp only [mapE, Except.ok.injEq] at h
    rw [← h]; rfl
  | o :: l, cs, h => by
    simp only [mapE, bind_ok, pure_ok] at h
    obtain ⟨y, hy, ys, hys, hcs⟩ := h
    rw [← hcs, hg o y hy, mapE_unsome hg l ys hys]; rfl

/-! ### `_calc_lower_dimension_chunks` -/

theorem calcLower_ok {r : Slots} {a b : Nat} {low : Chunks} (h : calcLower r (a:Int) (b:Int) = .ok low)
    (hb : b < r.length) :
    ∃ cs, (r.drop a).take (b + 1 - a) = cs.map some ∧ low = crossProd cs := by
  unfold calcLower at h
  rw [bind_ok] at h
  obtain ⟨cs, hcs, h⟩ := h
  split at h
  · simp at h
  · simp only [pure_ok] at h
    refine ⟨cs, ?_, h.symm⟩
    have e : ((b:Int) + 1) = ((b + 1 : Nat) : Int) := by push_cast; rfl
    rw [e, pySlice_nat r a (b+1) (by omega)] at hcs
    refine mapE_unsome ?_ _ _ hcs
    intro o c ho
    cases o with
    | none => simp at ho
    | some c' => simp only [Except.ok.injEq] at ho; rw [ho]

/-! ### `_smooth_chunks` -/

theorem skipOnes_ok {r : Slots} : ∀ (fuel : Nat) (a : Nat) (x : Int), skipOnes r fuel (a:Int) = .ok x →
    ∃ q : Nat, x = (q:Int) ∧ a ≤ q ∧
      (∀ k, a ≤ k → k < q → ∃ c, r[k]? = some (some c) ∧ allOnes c = true) ∧
      ∃ c, r[q]? = some (some c) ∧ allOnes c = false
  | 0, a, x, h => by simp [skipOnes] at h
  | fuel + 1, a, x, h => by
    unfold skipOnes at h
    rw [bind_ok] at h
    obtain ⟨c, hc, h⟩ := h
    have hc' := getC_nat_ok hc
    split at h
    · rename_i hones
      have e : ((a:Int) + 1) = ((a + 1 : Nat) : Int) := by push_cast; rfl
      rw [e] at h
      obtain ⟨q, hq, haq, hall, hlast⟩ := skipOnes_ok fuel (a+1) x h
      refine ⟨q, hq, by omega, ?_, hlast⟩
      intro k hk1 hk2
      rcases Nat.eq_or_lt_of_le hk1 with h' | h'
      · subst h'; exact ⟨c, hc', hones⟩
      · exact hall k (by omega) hk2
    · rename_i hones
      simp only [pure_ok] at h
      refine ⟨a, h.symm, Nat.le_refl _, ?_, c, hc', by simpa using hones⟩
      intro k hk1 hk2; omega

/-- what one call of `_smooth_chunks(a, b, …)` may do to the slot list: a sequence of updates, each replacing
the FIRST tuple in `a..b` that is not all ones (everything before it in `a..b` is all ones) by a tuple with
the same sum -/
inductive SmoothRel (a b : Nat) : Slots → Slots → Prop
  | refl (r : Slots) : SmoothRel a b r r
  | step (r r' : Slots) (q : Nat) (c c' : Chunks) : a ≤ q → q ≤ b →
      (∀ k, a ≤ k → k < q → ∃ ck, r[k]? = some (some ck) ∧ allOnes ck = true) →
      r[q]? = some (some c) → allOnes c = false → c'.sum = c.sum →
      SmoothRel a b (r.set q (some c')) r' → SmoothRel a b r r'

theorem smooth_rel : ∀ (fuel : Nat) (a b : Nat) (mx : Nat) (r r' : Slots),
    smooth fuel (a:Int) (b:Int) mx r = .ok r' → SmoothRel a b r r'
  | 0, a, b, mx, r, r', h => by simp [smooth] at h
  | fuel + 1, a, b, mx, r, r', h => by
    unfold smooth at h
    rw [bind_ok] at h
    obtain ⟨maxRes, _, h⟩ := h
    split at h
    · simp only [pure_ok] at h; rw [← h]; exact SmoothRel.refl r
    · rw [bind_ok] at h
      obtain ⟨x, hx, h⟩ := h
      obtain ⟨q, hq, haq, hall, c0, hc0, hc0ones⟩ := skipOnes_ok _ a x hx
      subst hq
      split at h
      · rename_i hqb
        have hqb' : q ≤ b := by omega
        split at h
        · simp at h
        · rename_i hmx
          rw [bind_ok] at h
          obtain ⟨c, hc, h⟩ := h
          have hc' := getC_nat_ok hc
          rw [hc0] at hc'
          simp only [Option.some.injEq] at hc'
          subst hc'
          split at h
          · rename_i hlen
            dsimp only at h
            split at h
            · simp at h
            · rename_i hfac
              rw [bind_ok] at h
              obtain ⟨r1, hr1, h⟩ := h
              obtain ⟨_, hr1⟩ := pySet_nat_ok hr1
              have hsum : (splitEven (c0.headD 0) (min (ceilDivN maxRes mx) (c0.headD 0))).sum = c0.sum := by
                rw [splitEven_sum _ _ (Nat.pos_of_ne_zero hfac)]
                match c0, hlen with
                | [e], _ => simp
              split at h
              · have := smooth_rel fuel a b mx r1 r' h
                rw [hr1] at this
                exact SmoothRel.step r r' q c0 _ haq hqb' hall hc0 hc0ones hsum this
              · simp only [pure_ok] at h
                rw [← h, hr1]
                exact SmoothRel.step r _ q c0 _ haq hqb' hall hc0 hc0ones hsum (SmoothRel.refl _)
          · rw [bind_ok] at h
            obtain ⟨m, _, h⟩ := h
            split at h
            · simp at h
            · obtain ⟨_, hr1⟩ := pySet_nat_ok h
              rw [hr1]
              exact SmoothRel.step r _ q c0 _ haq hqb' hall hc0 hc0ones
                (splitBig_sum _ _ (Nat.pos_of_ne_zero hmx) c0) (SmoothRel.refl _)
      · simp only [pure_ok] at h; rw [← h]; exact SmoothRel.refl r

theorem SmoothRel.length {a b : Nat} {r r' : Slots} (h : SmoothRel a b r r') : r'.length = r.length := by
  induction h with
  | refl r => rfl
  | step r r' q c c' _ _ _ _ _ _ _ ih => rw [ih]; simp

theorem SmoothRel.frame {a b : Nat} {r r' : Slots} (h : SmoothRel a b r r') :
    ∀ k : Nat, (k < a ∨ b < k) → r'[k]? = r[k]? := by
  induction h with
  | refl r => intro k _; rfl
  | step r r' q c c' haq hqb _ _ _ _ _ ih =>
    intro k hk
    rw [ih k hk, List.getElem?_set]
    have : q ≠ k := by omega
    simp [this]

theorem SmoothRel.sums {a b : Nat} {r r' : Slots} (h : SmoothRel a b r r') :
    ∀ (k : Nat) (c : Chunks), r[k]? = some (some c) → ∃ c' : Chunks, r'[k]? = some (some c') ∧ c'.sum = c.sum := by
  induction h with
  | refl r => intro k c hc; exact ⟨c, hc, rfl⟩
  | step r r' q c c' haq hqb _ hq _ hsum _ ih =>
    intro k ck hck
    by_cases hkq : q = k
    · subst hkq
      rw [hq] at hck
      simp only [Option.some.injEq] at hck
      subst hck
      have hlt : q < r.length := by
        rcases Nat.lt_or_ge q r.length with h' | h'
        · exact h'
        · rw [List.getElem?_eq_none h'] at hq; simp at hq
      obtain ⟨c'', h1, h2⟩ := ih q c' (by rw [List.getElem?_set]; simp [hlt])
      exact ⟨c'', h1, by omega⟩
    · exact ih k ck (by rw [List.getElem?_set]; simp [hkq, hck])

theorem SmoothRel.ones {a b : Nat} {r r' : Slots} (h : SmoothRel a b r r') :
    ∀ (k : Nat) (c : Chunks), r[k]? = some (some c) → allOnes c = true → r'[k]? = some (some c) := by
  induction h with
  | refl r => intro k c hc _; exact hc
  | step r r' q c c' haq hqb _ hq hnot _ _ ih =>
    intro k ck hck hones
    have hkq : q ≠ k := by
      intro e; subst e
      rw [hq] at hck
      simp only [Option.some.injEq] at hck
      subst hck
      rw [hnot] at hones; simp at hones
    exact ih k ck (by rw [List.getElem?_set]; simp [hkq, hck]) hones

/-- pivot form on slots `a..b` for axis lengths `d`: all-ones tuples, one free slot `p`, whole-axis tuples -/
def SlotPivot (d : Nat → Nat) (a b : Nat) (r : Slots) : Prop :=
  ∃ p, a ≤ p ∧ p ≤ b ∧
    (∀ k, a ≤ k → k < p → ∃ c, r[k]? = some (some c) ∧ allOnes c = true) ∧
    (∀ k, p < k → k ≤ b → r[k]? = some (some [d k]))

theorem SmoothRel.pivot {d : Nat → Nat} {a b : Nat} {r r' : Slots} (h : SmoothRel a b r r') :
    SlotPivot d a b r → SlotPivot d a b r' := by
  induction h with
  | refl r => exact id
  | step r r' q c c' haq hqb hall hq hnot _ _ ih =>
    intro ⟨p, hap, hpb, hpre, hpost⟩
    apply ih
    have hpq : p ≤ q := by
      rcases Nat.lt_or_ge q p with h' | h'
      · obtain ⟨ck, h1, h2⟩ := hpre q haq h'
        rw [hq] at h1
        simp only [Option.some.injEq] at h1
        subst h1
        rw [hnot] at h2; simp at h2
      · exact h'
    refine ⟨q, haq, hqb, ?_, ?_⟩
    · intro k hk1 hk2
      obtain ⟨ck, h1, h2⟩ := hall k hk1 hk2
      refine ⟨ck, ?_, h2⟩
      rw [List.getElem?_set]
      have : q ≠ k := by omega
      simp [this, h1]
    · intro k hk1 hk2
      rw [List.getElem?_set]
      have : q ≠ k := by omega
      simp only [this, if_false]
      exact hpost k (by omega) hk2

end Dask.Reshape
