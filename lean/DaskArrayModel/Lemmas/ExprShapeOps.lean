/-
Per-axis obligations (`SpecsOK`) and spec-side index maps (`gGlob`) of the shape-changing
gather ops: `expand_dims`, `squeeze`, `broadcast_to`.
-/
import DaskArrayModel.Lemmas.ExprRechunk
namespace Dask.ND

theorem idAxis_ok (cs : List Nat) : AxisOK (idAxis cs) cs cs := by
  intro j hj
  refine ⟨rfl, ?_⟩
  intro i hi
  exact ⟨hj, hi, rfl⟩

theorem bcastAxis_ok (oc : List Nat) : AxisOK (bcastAxis oc) oc [1] := by
  intro j _
  refine ⟨rfl, ?_⟩
  intro i _
  simp [bcastAxis]

theorem idSpecs_ok : ∀ (cl : Layout), SpecsOK (idSpecs cl) cl cl
  | [] => SpecsOK.nil
  | cs :: cl => by
    simp only [idSpecs, List.map_cons]
    exact SpecsOK.keep (idAxis_ok cs) (idSpecs_ok cl)

theorem gGlob_idSpecs : ∀ (cl : Layout) (g : List Nat), g.length = cl.length →
    gGlob (idSpecs cl) g = g
  | [], [], _ => rfl
  | cs :: cl, x :: g, h => by
    have ih := gGlob_idSpecs cl g (by simpa using h)
    simp only [idSpecs, List.map_cons, gGlob] at ih ⊢
    rw [ih]; rfl
  | [], _ :: _, h => by simp at h
  | _ :: _, [], h => by simp at h

/-! ### expand_dims -/

theorem expandSpecs_ok : ∀ (cl : Layout) (ax : Nat), ax ≤ cl.length →
    SpecsOK (expandSpecs cl ax) (cl.insertIdx ax [1]) cl
  | cl, 0, _ => by
    simp only [expandSpecs, List.insertIdx_zero]
    refine SpecsOK.new ?_ (idSpecs_ok cl)
    intro j hj
    have : j = 0 := by simpa using hj
    subst this; rfl
  | cs :: cl, ax + 1, h => by
    simp only [expandSpecs, List.insertIdx_succ_cons]
    exact SpecsOK.keep (idAxis_ok cs) (expandSpecs_ok cl ax (by simpa using h))
  | [], _ + 1, h => by simp at h

theorem gGlob_expandSpecs : ∀ (cl : Layout) (ax : Nat) (g : List Nat), ax ≤ cl.length →
    g.length = cl.length + 1 → gGlob (expandSpecs cl ax) g = g.eraseIdx ax
  | cl, 0, x :: g, _, hg => by
    simp only [expandSpecs, gGlob, List.eraseIdx_cons_zero]
    exact gGlob_idSpecs cl g (by simpa using hg)
  | cs :: cl, ax + 1, x :: g, h, hg => by
    simp only [expandSpecs, gGlob, List.eraseIdx_cons_succ]
    rw [gGlob_expandSpecs cl ax g (by simpa using h) (by simpa using hg)]; rfl
  | _, _, [], _, hg => by simp at hg
  | [], _ + 1, _, h, _ => by simp at h

/-! ### squeeze -/

theorem squeezeSpecs_ok : ∀ (cl : Layout) (ax : Nat), ax < cl.length → cl.getD ax [] = [1] →
    SpecsOK (squeezeSpecs cl ax) (cl.eraseIdx ax) cl
  | cs :: cl, 0, _, h1 => by
    simp only [List.getD_cons_zero] at h1
    subst h1
    simp only [squeezeSpecs, List.eraseIdx_cons_zero]
    exact SpecsOK.fix (by simp) (by simp) (by simp) (idSpecs_ok cl)
  | cs :: cl, ax + 1, h, h1 => by
    simp only [squeezeSpecs, List.eraseIdx_cons_succ]
    exact SpecsOK.keep (idAxis_ok cs)
      (squeezeSpecs_ok cl ax (by simpa using h) (by simpa using h1))
  | [], _, h, _ => by simp at h

theorem gGlob_squeezeSpecs : ∀ (cl : Layout) (ax : Nat) (g : List Nat), ax < cl.length →
    g.length + 1 = cl.length → gGlob (squeezeSpecs cl ax) g = g.insertIdx ax 0
  | cs :: cl, 0, g, _, hg => by
    simp only [squeezeSpecs, gGlob, List.insertIdx_zero]
    rw [gGlob_idSpecs cl g (by simpa using hg)]
  | cs :: cl, ax + 1, x :: g, h, hg => by
    simp only [squeezeSpecs, gGlob, List.insertIdx_succ_cons]
    rw [gGlob_squeezeSpecs cl ax g (by simpa using h) (by simpa using hg)]; rfl
  | cs :: cl, ax + 1, [], h, hg => by
    simp only [List.length_cons, List.length_nil] at h hg
    omega
  | [], _, _, h, _ => by simp at h

/-! ### broadcast_to -/

theorem SpecsOK.append {s1 s2 : List AxSpec} {ol1 ol2 cl1 cl2 : Layout} (h1 : SpecsOK s1 ol1 cl1)
    (h2 : SpecsOK s2 ol2 cl2) : SpecsOK (s1 ++ s2) (ol1 ++ ol2) (cl1 ++ cl2) := by
  induction h1 with
  | nil => exact h2
  | keep hax _ ih => exact SpecsOK.keep hax ih
  | fix a b c _ ih => exact SpecsOK.fix a b c ih
  | new hl _ ih => exact SpecsOK.new hl ih

theorem newSpecs_ok : ∀ (ol : Layout),
    SpecsOK (ol.map (fun oc => AxSpec.new (fun j => oc.getD j 0))) ol []
  | [] => SpecsOK.nil
  | oc :: ol => by
    simp only [List.map_cons]
    exact SpecsOK.new (fun _ _ => rfl) (newSpecs_ok ol)

theorem bcOK_cons {cc oc : List Nat} {cl ol : Layout} :
    bcOK (cc :: cl) (oc :: ol) = true ↔ (cc = [1] ∨ cc = oc) ∧ bcOK cl ol = true := by
  simp [bcOK]

theorem bcZip_ok : ∀ (cl ol : Layout), bcOK cl ol = true →
    SpecsOK (List.zipWith (fun cc oc =>
      if cc = [1] then AxSpec.keep (bcastAxis oc) else AxSpec.keep (idAxis cc)) cl ol) ol cl
  | [], [], _ => SpecsOK.nil
  | cc :: cl, oc :: ol, h => by
    rw [bcOK_cons] at h
    have ih := bcZip_ok cl ol h.2
    simp only [List.zipWith_cons_cons]
    by_cases h1 : cc = [1]
    · rw [if_pos h1, h1]
      exact SpecsOK.keep (bcastAxis_ok oc) ih
    · rw [if_neg h1]
      have : cc = oc := by rcases h.1 with h' | h'; exact absurd h' h1; exact h'
      subst this
      exact SpecsOK.keep (idAxis_ok cc) ih
  | [], _ :: _, h => by simp [bcOK] at h
  | _ :: _, [], h => by simp [bcOK] at h

theorem bcOK_length : ∀ (cl ol : Layout), bcOK cl ol = true → cl.length = ol.length
  | [], [], _ => rfl
  | _ :: cl, _ :: ol, h => by
    rw [bcOK_cons] at h
    simp [bcOK_length cl ol h.2]
  | [], _ :: _, h => by simp [bcOK] at h
  | _ :: _, [], h => by simp [bcOK] at h

theorem broadcastSpecs_ok (cl ol : Layout)
    (h : bcOK cl (ol.drop (ol.length - cl.length)) = true) :
    SpecsOK (broadcastSpecs cl ol) ol cl := by
  have h1 := newSpecs_ok (ol.take (ol.length - cl.length))
  have h2 := bcZip_ok cl _ h
  have := SpecsOK.append h1 h2
  rw [List.take_append_drop, List.nil_append] at this
  exact this

/-- spec side: the broadcast gather reads NumPy's broadcast index -/
theorem gGlob_bcZip : ∀ (cl ol : Layout) (g : List Nat), bcOK cl ol = true →
    InB g (ol.map List.sum) →
    gGlob (List.zipWith (fun cc oc =>
      if cc = [1] then AxSpec.keep (bcastAxis oc) else AxSpec.keep (idAxis cc)) cl ol) g
      = bcIdx (cl.map List.sum) g
  | [], [], [], _, _ => rfl
  | cc :: cl, oc :: ol, x :: g, h, hg => by
    rw [bcOK_cons] at h
    simp only [List.map_cons, InB] at hg
    have ih := gGlob_bcZip cl ol g h.2 hg.2
    simp only [List.zipWith_cons_cons, bcIdx, List.map_cons] at ih ⊢
    by_cases h1 : cc = [1]
    · rw [if_pos h1]
      simp only [gGlob]
      rw [ih, h1]; simp [bcastAxis]
    · rw [if_neg h1]
      have h2 : cc = oc := by rcases h.1 with h' | h'; exact absurd h' h1; exact h'
      simp only [gGlob]
      rw [ih]
      congr 1
      show x = _
      split
      · rename_i hs; rw [h2] at hs; omega
      · rfl
  | [], [], _ :: _, _, hg => by simp [InB] at hg
  | _ :: _, _ :: _, [], _, hg => by simp [InB] at hg
  | [], _ :: _, _, h, _ => by simp [bcOK] at h
  | _ :: _, [], _, h, _ => by simp [bcOK] at h

theorem gGlob_newSpecs_append : ∀ (ol : Layout) (rest : List AxSpec) (g : List Nat),
    ol.length ≤ g.length →
    gGlob (ol.map (fun oc => AxSpec.new (fun j => oc.getD j 0)) ++ rest) g
      = gGlob rest (g.drop ol.length)
  | [], _, _, _ => rfl
  | oc :: ol, rest, x :: g, h => by
    simp only [List.map_cons, List.cons_append, gGlob, List.length_cons, List.drop_succ_cons]
    exact gGlob_newSpecs_append ol rest g (by simpa using h)
  | _ :: _, _, [], h => by simp at h

theorem InB_drop : ∀ (k : Nat) (g s : List Nat), InB g s → InB (g.drop k) (s.drop k)
  | 0, _, _, h => h
  | k + 1, [], [], _ => by simp [InB]
  | k + 1, x :: g, n :: s, h => by
    simp only [List.drop_succ_cons]
    exact InB_drop k g s h.2
  | _ + 1, [], _ :: _, h => h.elim
  | _ + 1, _ :: _, [], h => h.elim

theorem gGlob_broadcastSpecs (cl ol : Layout) (g : List Nat) (hle : cl.length ≤ ol.length)
    (h : bcOK cl (ol.drop (ol.length - cl.length)) = true) (hg : InB g (ol.map List.sum)) :
    gGlob (broadcastSpecs cl ol) g = bcIdx (cl.map List.sum) (g.drop (ol.length - cl.length)) := by
  unfold broadcastSpecs
  have hgl : g.length = ol.length := by rw [hg.length_eq]; simp
  dsimp only
  rw [gGlob_newSpecs_append _ _ g (by rw [List.length_take]; omega)]
  have hk : (ol.take (ol.length - cl.length)).length = ol.length - cl.length := by
    rw [List.length_take]; omega
  rw [hk]
  apply gGlob_bcZip cl _ _ h
  have := InB_drop (ol.length - cl.length) g _ hg
  rwa [← List.map_drop] at this

end Dask.ND
