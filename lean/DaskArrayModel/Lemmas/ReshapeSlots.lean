/-
Slot lists as axes: how the in-place updates of `reshape_rechunk` (`Model/Reshape.lean`) read as lists of
`(length, chunks)` axes, and the group (pivot form) extracted from a range of slots.
-/
import DaskArrayModel.Lemmas.ReshapeHelpers
namespace Dask.Reshape
open Dask.ND

/-! ### `axes` -/

theorem axes_length {shape : List Nat} {r : Slots} (h : r.length = shape.length) :
    (axes shape r).length = shape.length := by
  simp [axes, List.length_zip, val_length, h]

theorem axes_getElem?_some {shape : List Nat} {r : Slots} {k d : Nat} {c : Chunks}
    (h1 : shape[k]? = some d) (h2 : r[k]? = some (some c)) : (axes shape r)[k]? = some (d, c) := by
  unfold axes
  rw [List.getElem?_zip_eq_some]
  refine ⟨h1, ?_⟩
  rw [val_getElem?, h2]; rfl

theorem axes_getElem?_inv {shape : List Nat} {r : Slots} {k : Nat} {a : Axis}
    (h : (axes shape r)[k]? = some a) : shape[k]? = some a.1 ∧ ∃ o, r[k]? = some o ∧ o.getD [] = a.2 := by
  unfold axes at h
  rw [List.getElem?_zip_eq_some] at h
  refine ⟨h.1, ?_⟩
  have h2 := h.2
  rw [val_getElem?] at h2
  cases hr : r[k]? with
  | none => rw [hr] at h2; simp at h2
  | some o => rw [hr] at h2; simp at h2; exact ⟨o, rfl, h2⟩

/-- slots that agree from `p` on describe the same axes from `p` on -/
theorem axes_drop_congr {shape : List Nat} {r r' : Slots} {p : Nat}
    (h : ∀ k, p ≤ k → r'[k]? = r[k]?) : (axes shape r').drop p = (axes shape r).drop p := by
  apply List.ext_getElem?
  intro j
  simp only [List.getElem?_drop]
  unfold axes
  have hv : (val r')[p + j]? = (val r)[p + j]? := by
    rw [val_getElem?, val_getElem?, h (p + j) (by omega)]
  cases h1 : shape[p + j]? with
  | none =>
    have e1 : (shape.zip (val r'))[p + j]? = none := by
      cases h3 : (shape.zip (val r'))[p + j]? with
      | none => rfl
      | some z => rw [List.getElem?_zip_eq_some] at h3; rw [h1] at h3; simp at h3
    have e2 : (shape.zip (val r))[p + j]? = none := by
      cases h3 : (shape.zip (val r))[p + j]? with
      | none => rfl
      | some z => rw [List.getElem?_zip_eq_some] at h3; rw [h1] at h3; simp at h3
    rw [e1, e2]
  | some d =>
    cases h2 : (val r)[p + j]? with
    | none =>
      have e1 : (shape.zip (val r'))[p + j]? = none := by
        cases h3 : (shape.zip (val r'))[p + j]? with
        | none => rfl
        | some z => rw [List.getElem?_zip_eq_some] at h3; rw [hv, h2] at h3; simp at h3
      have e2 : (shape.zip (val r))[p + j]? = none := by
        cases h3 : (shape.zip (val r))[p + j]? with
        | none => rfl
        | some z => rw [List.getElem?_zip_eq_some] at h3; rw [h2] at h3; simp at h3
      rw [e1, e2]
    | some c =>
      have e1 : (shape.zip (val r'))[p + j]? = some (d, c) := by
        rw [List.getElem?_zip_eq_some]; exact ⟨h1, by rw [hv, h2]⟩
      have e2 : (shape.zip (val r))[p + j]? = some (d, c) := by
        rw [List.getElem?_zip_eq_some]; exact ⟨h1, h2⟩
      rw [e1, e2]

theorem axes_drop_cons {shape : List Nat} {r : Slots} {k d : Nat} {c : Chunks}
    (h1 : shape[k]? = some d) (h2 : r[k]? = some (some c)) :
    (axes shape r).drop k = (d, c) :: (axes shape r).drop (k + 1) := by
  have h := axes_getElem?_some h1 h2
  obtain ⟨hk, hv⟩ := List.getElem?_eq_some_iff.mp h
  rw [List.drop_eq_getElem_cons hk, hv]

/-- after `r[k] = c` the axes from `k` on are `(shape[k], c)` followed by the old axes from `k + 1` on -/
theorem axes_drop_set {shape : List Nat} {r : Slots} {k d : Nat} {c : Chunks}
    (h1 : shape[k]? = some d) (hk : k < r.length) :
    (axes shape (r.set k (some c))).drop k = (d, c) :: (axes shape r).drop (k + 1) := by
  rw [axes_drop_cons h1 (r := r.set k (some c)) (c := c) (by rw [List.getElem?_set]; simp [hk])]
  congr 1
  apply axes_drop_congr
  intro j hj
  rw [List.getElem?_set]
  have : k ≠ j := by omega
  simp [this]

theorem shapeA_axes_seg {shape : List Nat} {r : Slots} (h : r.length = shape.length) (L cnt : Nat) :
    shapeA (((axes shape r).drop L).take cnt) = (shape.drop L).take cnt := by
  unfold shapeA axes
  have : (fun (a : Axis) => a.1) = Prod.fst := rfl
  rw [this, List.map_take, List.map_drop, List.map_fst_zip (by rw [val_length]; omega)]

theorem chunksA_axes_seg {shape : List Nat} {r : Slots} (h : r.length = shape.length) (L cnt : Nat) :
    chunksA (((axes shape r).drop L).take cnt) = ((val r).drop L).take cnt := by
  unfold chunksA axes
  have : (fun (a : Axis) => a.2) = Prod.snd := rfl
  rw [this, List.map_take, List.map_drop, List.map_snd_zip (by rw [val_length]; omega)]

/-! ### `reduce(mul, …)`, the `while … ileft -= 1` loop -/

theorem reduceMul_ok {l : List Nat} {p : Nat} (h : reduceMul l = .ok p) : l ≠ [] ∧ p = prodL l := by
  cases l with
  | nil => simp [reduceMul] at h
  | cons x xs => simp only [reduceMul, Except.ok.injEq] at h; exact ⟨by simp, h.symm⟩

theorem growLeft_ok {shape : List Nat} {ii : Int} {d : Nat} : ∀ (fuel : Nat) (x y : Int),
    growLeft shape ii d fuel x = .ok y → y ≤ x ∧ (-1 ≤ x → -1 ≤ y)
  | 0, x, y, h => by simp [growLeft] at h
  | fuel + 1, x, y, h => by
    unfold growLeft at h
    split at h
    · rw [bind_ok] at h
      obtain ⟨p, _, h⟩ := h
      split at h
      · have := growLeft_ok fuel (x - 1) y h
        omega
      · simp only [pure_ok] at h; omega
    · simp only [pure_ok] at h; omega

/-- the left end found by the merge / split branch: a natural number below `i` whose range multiplies to `d` -/
theorem group_left {shape : List Nat} {i d : Nat} {fuel : Nat} {ileft : Int} {p : Nat}
    (hi : i < shape.length) (hlt : shape[i]? = some p') (hne : p' ≠ d)
    (hg : growLeft shape (i : Int) d fuel ((i : Int) - 1) = .ok ileft)
    (hp : reduceMul (pySlice shape ileft ((i : Int) + 1)) = .ok p) (hpd : p = d) :
    ∃ L : Nat, ileft = (L : Int) ∧ L < i ∧ prodL ((shape.drop L).take (i + 1 - L)) = d := by
  obtain ⟨h1, h2⟩ := growLeft_ok _ _ _ hg
  have e : ((i : Int) + 1) = ((i + 1 : Nat) : Int) := by push_cast; rfl
  rcases Int.lt_or_le ileft 0 with hneg | hpos
  · exfalso
    have hil : ileft = -1 := by omega
    subst hil
    obtain ⟨hne', hpl⟩ := reduceMul_ok hp
    unfold pySlice at hne' hpl
    have c1 : pyClamp shape.length (-1) = shape.length - 1 := by
      unfold pyClamp; simp; omega
    have c2 : pyClamp shape.length ((i : Int) + 1) = i + 1 := by
      rw [e, pyClamp_ofNat]; omega
    rw [c1, c2] at hne' hpl
    rcases Nat.lt_or_ge (i + 1) shape.length with h' | h'
    · have : i + 1 - (shape.length - 1) = 0 := by omega
      rw [this] at hne'; simp at hne'
    · have hie : i = shape.length - 1 := by omega
      have : i + 1 - (shape.length - 1) = 1 := by omega
      rw [this, ← hie] at hpl
      obtain ⟨hk, hv⟩ := List.getElem?_eq_some_iff.mp hlt
      rw [List.drop_eq_getElem_cons hk, hv] at hpl
      simp [prodL] at hpl
      omega
  · refine ⟨ileft.toNat, by omega, by omega, ?_⟩
    have hL : ileft = (ileft.toNat : Int) := by omega
    rw [hL, e, pySlice_nat shape _ _ (by omega)] at hp
    obtain ⟨_, hpl⟩ := reduceMul_ok hp
    rw [← hpl, hpd]

/-! ### `for i in range(a, b): r[i] = f(i)` -/

theorem setMany_ok {f : Int → Except Err Chunks} : ∀ (cnt a : Nat) (r r' : Slots),
    setMany f r ((List.range' a cnt).map (fun (k : Nat) => (k : Int))) = .ok r' →
    r'.length = r.length ∧ (∀ k : Nat, (k < a ∨ a + cnt ≤ k) → r'[k]? = r[k]?) ∧
      (∀ k : Nat, a ≤ k → k < a + cnt → k < r.length ∧ ∃ v, f (k : Int) = .ok v ∧ r'[k]? = some (some v))
  | 0, a, r, r', h => by
    simp only [List.range'_zero, List.map_nil, setMany, Except.ok.injEq] at h
    subst h
    exact ⟨rfl, fun _ _ => rfl, fun k h1 h2 => by omega⟩
  | cnt + 1, a, r, r', h => by
    rw [List.range'_succ, List.map_cons] at h
    simp only [setMany, bind_ok] at h
    obtain ⟨v, hv, r1, hr1, h⟩ := h
    obtain ⟨ha, hr1⟩ := pySet_nat_ok hr1
    obtain ⟨ih1, ih2, ih3⟩ := setMany_ok cnt (a + 1) r1 r' h
    subst hr1
    refine ⟨by rw [ih1]; simp, ?_, ?_⟩
    · intro k hk
      rw [ih2 k (by omega), List.getElem?_set]
      have : a ≠ k := by omega
      simp [this]
    · intro k hk1 hk2
      rcases Nat.eq_or_lt_of_le hk1 with h' | h'
      · subst h'
        refine ⟨ha, v, hv, ?_⟩
        rw [ih2 a (by omega), List.getElem?_set]; simp [ha]
      · obtain ⟨h3, h4⟩ := ih3 k (by omega) (by omega)
        simp only [List.length_set] at h3
        exact ⟨h3, h4⟩

theorem setMany_range {f : Int → Except Err Chunks} {a b : Nat} {r r' : Slots}
    (h : setMany f r (pyRange (a : Int) (b : Int)) = .ok r') :
    r'.length = r.length ∧ (∀ k : Nat, (k < a ∨ b ≤ k) → r'[k]? = r[k]?) ∧
      (∀ k : Nat, a ≤ k → k < b → k < r.length ∧ ∃ v, f (k : Int) = .ok v ∧ r'[k]? = some (some v)) := by
  rw [pyRange_nat] at h
  obtain ⟨h1, h2, h3⟩ := setMany_ok _ _ _ _ h
  refine ⟨h1, ?_, ?_⟩
  · intro k hk; exact h2 k (by omega)
  · intro k hk1 hk2; exact h3 k hk1 (by omega)

theorem allFull_ok {inshape : List Nat} {inchunks : List Chunks} : ∀ (cnt a : Nat),
    allFull inshape inchunks ((List.range' a cnt).map (fun (k : Nat) => (k : Int))) = .ok true →
    ∀ k : Nat, a ≤ k → k < a + cnt → ∃ c d, inchunks[k]? = some c ∧ inshape[k]? = some d ∧ c.length = d
  | 0, a, _ => fun k h1 h2 => by omega
  | cnt + 1, a, h => by
    rw [List.range'_succ, List.map_cons] at h
    simp only [allFull, bind_ok] at h
    obtain ⟨c, hc, d, hd, h⟩ := h
    split at h
    · rename_i hlen
      intro k hk1 hk2
      rcases Nat.eq_or_lt_of_le hk1 with h' | h'
      · subst h'; exact ⟨c, d, pyGet_nat_ok hc, pyGet_nat_ok hd, hlen⟩
      · exact allFull_ok cnt (a + 1) h k (by omega) (by omega)
    · simp [pure, Except.pure] at h

/-! ### the group held by slots `L..i` -/

/-- Slots `L..i` hold valid chunkings of the axes `shape[L..i]` in pivot form: the axes they describe are a
group `G` in `PivotForm`, and the axes from `L` on are `G` followed by the axes from `i + 1` on. -/
theorem group_of_slots {shape : List Nat} {r : Slots} {L i : Nat} (hlen : r.length = shape.length)
    (hi : i < shape.length) (hL : L ≤ i)
    (hsum : ∀ k, L ≤ k → k ≤ i → ∃ c d, r[k]? = some (some c) ∧ shape[k]? = some d ∧ c.sum = d)
    (hpiv : SlotPivot (fun k => shape.getD k 0) L i r) :
    PivotForm (((axes shape r).drop L).take (i + 1 - L)) ∧
      (∀ a ∈ ((axes shape r).drop L).take (i + 1 - L), ValidAx a) ∧
      (axes shape r).drop L = ((axes shape r).drop L).take (i + 1 - L) ++ (axes shape r).drop (i + 1) := by
  have hax := axes_length hlen
  -- element `j` of the group
  have hG : ∀ j, j < i + 1 - L → ∃ c d, r[L + j]? = some (some c) ∧ shape[L + j]? = some d ∧ c.sum = d ∧
      (((axes shape r).drop L).take (i + 1 - L))[j]? = some (d, c) := by
    intro j hj
    obtain ⟨c, d, h1, h2, h3⟩ := hsum (L + j) (by omega) (by omega)
    refine ⟨c, d, h1, h2, h3, ?_⟩
    rw [List.getElem?_take]
    simp only [hj, if_true, List.getElem?_drop]
    exact axes_getElem?_some h2 h1
  have hGlen : (((axes shape r).drop L).take (i + 1 - L)).length = i + 1 - L := by
    rw [List.length_take, List.length_drop, hax]; omega
  refine ⟨?_, ?_, ?_⟩
  · obtain ⟨p, hLp, hpi, hpre, hpost⟩ := hpiv
    generalize hGdef : ((axes shape r).drop L).take (i + 1 - L) = G at hG hGlen
    have hpl : p - L < G.length := by omega
    refine ⟨G.take (p - L), G[p - L], G.drop (p - L + 1), ?_, ?_, ?_⟩
    · rw [List.getElem_cons_drop hpl, List.take_append_drop]
    · intro a ha
      obtain ⟨j, hj⟩ := List.mem_iff_getElem?.mp ha
      rw [List.getElem?_take] at hj
      split at hj
      · rename_i hjp
        obtain ⟨c, d, h1, h2, h3, h4⟩ := hG j (by omega)
        rw [h4] at hj
        simp only [Option.some.injEq] at hj
        obtain ⟨c', h5, h6⟩ := hpre (L + j) (by omega) (by omega)
        rw [h1] at h5
        simp only [Option.some.injEq] at h5
        subst h5
        rw [← hj]
        show c = List.replicate d 1
        rw [← h3]; exact allOnes_sum h6
      · simp at hj
    · intro a ha
      obtain ⟨j, hj⟩ := List.mem_iff_getElem?.mp ha
      rw [List.getElem?_drop] at hj
      have hjl : p - L + 1 + j < G.length := by
        rcases Nat.lt_or_ge (p - L + 1 + j) G.length with h' | h'
        · exact h'
        · rw [List.getElem?_eq_none h'] at hj; simp at hj
      obtain ⟨c, d, h1, h2, h3, h4⟩ := hG (p - L + 1 + j) (by omega)
      rw [h4] at hj
      simp only [Option.some.injEq] at hj
      have h5 := hpost (L + (p - L + 1 + j)) (by omega) (by omega)
      rw [h1] at h5
      simp only [Option.some.injEq] at h5
      rw [← hj]
      show c = [d]
      rw [h5]
      have : shape.getD (L + (p - L + 1 + j)) 0 = d := by
        rw [List.getD_eq_getElem?_getD, h2]; rfl
      rw [this]
  · intro a ha
    obtain ⟨j, hj⟩ := List.mem_iff_getElem?.mp ha
    have hjl : j < i + 1 - L := by
      rcases Nat.lt_or_ge j (i + 1 - L) with h' | h'
      · exact h'
      · rw [List.getElem?_eq_none (by omega)] at hj; simp at hj
    obtain ⟨c, d, _, _, h3, h4⟩ := hG j hjl
    rw [h4] at hj
    simp only [Option.some.injEq] at hj
    rw [← hj]; exact h3
  · have : (axes shape r).drop (i + 1) = ((axes shape r).drop L).drop (i + 1 - L) := by
      rw [List.drop_drop]; congr 1; omega
    rw [this, List.take_append_drop]

/-! ### tuple repetition and the block sizes of an all-ones prefix (the "moving around blocks" case) -/

theorem repeatL_one {α : Type} (t : List α) : repeatL t 1 = t := by simp [repeatL]

theorem repeatL_add {α : Type} (t : List α) (a b : Nat) : repeatL t (a + b) = repeatL t a ++ repeatL t b := by
  induction a with
  | zero => simp [repeatL]
  | succ a ih =>
    have : a + 1 + b = (a + b) + 1 := by omega
    rw [this]
    simp only [repeatL, ih, List.append_assoc]

theorem repeatL_mul {α : Type} (t : List α) (a b : Nat) : repeatL (repeatL t a) b = repeatL t (b * a) := by
  induction b with
  | zero => simp [repeatL]
  | succ b ih =>
    simp only [repeatL, ih]
    rw [Nat.add_mul, Nat.one_mul, Nat.add_comm, repeatL_add]

theorem flatMap_ones (d : Nat) (l : List Nat) :
    (List.replicate d 1).flatMap (fun x => l.map (fun y => x * y)) = repeatL l d := by
  induction d with
  | zero => simp [repeatL]
  | succ d ih =>
    rw [List.replicate_succ, List.flatMap_cons, ih]
    simp [repeatL]

/-- block sizes of axes cut into single elements followed by one free axis: the free axis' chunks repeated -/
theorem crossProd_ones_prefix : ∀ (pre : List Chunks) (c : Chunks),
    (∀ x ∈ pre, x = List.replicate x.length 1) →
    crossProd (pre ++ [c]) = repeatL c (prodL (pre.map List.length))
  | [], c, _ => by
    simp only [List.nil_append, crossProd, List.map_nil, prodL, repeatL_one]
    induction c with
    | nil => rfl
    | cons x xs ih => simp [List.flatMap_cons] at ih ⊢
  | x :: pre, c, h => by
    have hx := h x (by simp)
    have ih := crossProd_ones_prefix pre c (fun y hy => h y (by simp [hy]))
    simp only [List.cons_append, crossProd, List.map_cons, prodL]
    rw [hx, flatMap_ones, ih, repeatL_mul]
    simp

end Dask.Reshape
