/-
Lemmas for C24 (FromArray regions) and C25 (store write index).  Core Lean only.
-/
import DaskArrayModel.Model.SourceIO
import DaskArrayModel.Model.SliceSpec
import DaskArrayModel.Lemmas.SliceAlgebra
namespace Dask.Lemmas.SourceIO
open Dask.Py Dask.Py.PySlice Dask.Slicing Dask.SourceIO Dask.Lemmas.SliceAlgebra

theorem isum_append (a b : List Int) : isum (a ++ b) = isum a + isum b := by
  induction a with
  | nil => simp [isum]
  | cons x xs ih => simp [isum, ih]; omega

theorem isum_nonneg (l : List Int) (h : ∀ c ∈ l, 0 ≤ c) : 0 ≤ isum l := by
  induction l with
  | nil => simp [isum]
  | cons x xs ih =>
    have := h x (List.mem_cons_self ..)
    have := ih (fun c hc => h c (List.mem_cons_of_mem _ hc))
    simp [isum]; omega

theorem rangeLen_one (a b : Int) : (rangeLen a b 1 : Int) = if a < b then b - a else 0 := by
  unfold rangeLen
  simp only [gt_iff_lt, Int.zero_lt_one, if_true, Int.ediv_one]
  split
  · omega
  · rfl

theorem rangeList_append_one (a b c : Int) (hab : a ≤ b) (hbc : b ≤ c) :
    rangeList a b 1 ++ rangeList b c 1 = rangeList a c 1 := by
  apply List.ext_getElem?
  intro i
  have h1 := rangeLen_one a b
  have h2 := rangeLen_one b c
  have h3 := rangeLen_one a c
  rw [List.getElem?_append, getElem?_rangeList, getElem?_rangeList, getElem?_rangeList, length_rangeList]
  split at h1 <;> split at h2 <;> split at h3 <;> (repeat' split) <;> first | rfl | omega | (congr 1; omega)

theorem rangeList_empty (a b : Int) (h : b ≤ a) : rangeList a b 1 = [] := by
  have := rangeLen_one a b
  have h0 : rangeLen a b 1 = 0 := by split at this <;> omega
  unfold rangeList; rw [h0]; rfl


/-! ### `slices_from_chunks` tiles `[acc, acc + sum)` -/

theorem slicesPositions_cons (p : Int × Int) (l : List (Int × Int)) :
    slicesPositions (p :: l) = rangeList p.1 p.2 1 ++ slicesPositions l := by
  simp [slicesPositions]

theorem slicesFromChunksFrom_positions (cs : List Int) (acc : Int) (hc : ∀ c ∈ cs, 0 ≤ c) :
    slicesPositions (slicesFromChunksFrom acc cs) = rangeList acc (acc + isum cs) 1 := by
  induction cs generalizing acc with
  | nil => simp [slicesFromChunksFrom, slicesPositions, isum, rangeList_empty]
  | cons c rest ih =>
    have h0 := hc c (List.mem_cons_self ..)
    have hr : ∀ c ∈ rest, 0 ≤ c := fun x hx => hc x (List.mem_cons_of_mem _ hx)
    have hs := isum_nonneg rest hr
    simp only [slicesFromChunksFrom, slicesPositions_cons, isum]
    rw [ih (acc + c) hr, rangeList_append_one _ _ _ (by omega) (by omega)]
    congr 1; omega

theorem slicesFromChunks_partition (cs : List Int) (hc : ∀ c ∈ cs, 0 ≤ c) :
    slicesPositions (slicesFromChunks cs) = rangeList 0 (isum cs) 1 := by
  have := slicesFromChunksFrom_positions cs 0 hc
  simpa [slicesFromChunks] using this

theorem slicesFromChunksFrom_shift (cs : List Int) (acc off : Int) :
    (slicesFromChunksFrom acc cs).map (fun p => (p.1 + off, p.2 + off)) =
      slicesFromChunksFrom (acc + off) cs := by
  induction cs generalizing acc with
  | nil => rfl
  | cons c rest ih =>
    simp only [slicesFromChunksFrom, List.map_cons, ih]
    congr 2 <;> omega

theorem slicesFromChunksFrom_bounds (cs : List Int) (acc : Int) (hc : ∀ c ∈ cs, 0 ≤ c) :
    ∀ p ∈ slicesFromChunksFrom acc cs, acc ≤ p.1 ∧ p.1 ≤ p.2 ∧ p.2 ≤ acc + isum cs := by
  induction cs generalizing acc with
  | nil => intro p hp; simp [slicesFromChunksFrom] at hp
  | cons c rest ih =>
    have h0 := hc c (List.mem_cons_self ..)
    have hr : ∀ c ∈ rest, 0 ≤ c := fun x hx => hc x (List.mem_cons_of_mem _ hx)
    have hs := isum_nonneg rest hr
    intro p hp
    simp only [slicesFromChunksFrom, List.mem_cons] at hp
    rcases hp with rfl | hp
    · simp only [isum]; omega
    · have := ih (acc + c) hr p hp
      simp only [isum]; omega

theorem length_slicesFromChunksFrom (cs : List Int) (acc : Int) :
    (slicesFromChunksFrom acc cs).length = cs.length := by
  induction cs generalizing acc with
  | nil => rfl
  | cons c rest ih => simp [slicesFromChunksFrom, ih]


/-! ### regions -/

/-- the state invariant of a `FromArray` axis -/
structure Inv (ax : Axis) : Prop where
  dim_nonneg : 0 ≤ ax.dim
  chunks_nonneg : ∀ c ∈ ax.chunks, 0 ≤ c
  chunks_sum : isum ax.chunks = effLen ax.region ax.dim
  unit : ∀ r, ax.region = some r → r.stp = 1

theorem effLen_eq_length (ax : Axis) (h0 : 0 ≤ ax.dim) :
    effLen ax.region ax.dim = ((regionPositions ax).length : Int) := by
  unfold effLen regionPositions
  cases ax.region with
  | none =>
    simp only [length_rangeList]
    have := rangeLen_one 0 ax.dim
    split at this <;> omega
  | some r => simp [sel]

theorem unit_region_bounds (r : PySlice) (n : Int) (hn : 0 ≤ n) (hr : r.stp = 1) :
    0 ≤ r.istart n ∧ r.istart n ≤ n ∧ 0 ≤ r.istop n ∧ r.istop n ≤ n := by
  have h1 := istart_pos_bounds r n hn (by omega)
  have h2 := istop_pos_bounds r n hn (by omega)
  omega

theorem layerSlices_eq (ax : Axis) :
    layerSlices ax = slicesFromChunksFrom (regionStart ax.region ax.dim) ax.chunks := by
  unfold layerSlices slicesFromChunks
  rw [slicesFromChunksFrom_shift]; simp

theorem readPositions_eq_region (ax : Axis) (h : Inv ax) : readPositions ax = regionPositions ax := by
  unfold readPositions
  rw [layerSlices_eq, slicesFromChunksFrom_positions _ _ h.chunks_nonneg, h.chunks_sum]
  unfold regionStart effLen regionPositions
  cases hr : ax.region with
  | none => simp
  | some r =>
    have hu := h.unit r hr
    have hb := unit_region_bounds r ax.dim h.dim_nonneg hu
    simp only [sel, hu]
    have hl := rangeLen_one (r.istart ax.dim) (r.istop ax.dim)
    split at hl
    · rw [hl]; congr 1; omega
    · rw [hl, rangeList_empty _ _ (by omega), rangeList_empty _ _ (by omega)]

theorem layerSlices_in_bounds (ax : Axis) (h : Inv ax) :
    ∀ p ∈ layerSlices ax, 0 ≤ p.1 ∧ p.1 ≤ p.2 ∧ p.2 ≤ ax.dim := by
  intro p hp
  rw [layerSlices_eq] at hp
  have hb := slicesFromChunksFrom_bounds _ _ h.chunks_nonneg p hp
  rw [h.chunks_sum] at hb
  have h0 := h.dim_nonneg
  revert hb
  unfold regionStart effLen
  cases hr : ax.region with
  | none => intro hb; simp only at hb; omega
  | some r =>
    intro hb
    simp only at hb
    have hu := h.unit r hr
    have hbb := unit_region_bounds r ax.dim h0 hu
    rw [hu] at hb
    have hl := rangeLen_one (r.istart ax.dim) (r.istop ax.dim)
    split at hl <;> omega


/-! ### `_compute_sliced_chunks` (unit step) -/

theorem overlapSpec_nil_of_ge (start stop : Int) (blocks : List (Int × Int))
    (h : ∀ p ∈ blocks, stop ≤ p.1) : overlapSpec start stop blocks = [] := by
  unfold overlapSpec
  induction blocks with
  | nil => rfl
  | cons p rest ih =>
    have hp := h p (List.mem_cons_self ..)
    have : (p.2 ≤ start ∨ p.1 ≥ stop) := Or.inr (by omega)
    simp only [List.filterMap_cons, this, if_true]
    exact ih (fun q hq => h q (List.mem_cons_of_mem _ hq))

theorem overlapLoop_eq_spec (start stop : Int) (cs : List Int) (pos : Int) (hc : ∀ c ∈ cs, 0 ≤ c) :
    overlapLoop start stop cs pos = overlapSpec start stop (slicesFromChunksFrom pos cs) := by
  induction cs generalizing pos with
  | nil => rfl
  | cons c rest ih =>
    have hr : ∀ c ∈ rest, 0 ≤ c := fun x hx => hc x (List.mem_cons_of_mem _ hx)
    have h0 := hc c (List.mem_cons_self ..)
    simp only [overlapLoop, slicesFromChunksFrom]
    by_cases h1 : pos + c ≤ start
    · simp only [h1, if_true, overlapSpec, List.filterMap_cons, true_or]
      exact ih (pos + c) hr
    · by_cases h2 : pos ≥ stop
      · simp only [h1, h2, if_true, if_false]
        symm
        apply overlapSpec_nil_of_ge
        intro p hp
        simp only [List.mem_cons] at hp
        rcases hp with rfl | hp
        · exact h2
        · have := slicesFromChunksFrom_bounds rest (pos + c) hr p hp
          omega
      · simp only [h1, h2, if_false, overlapSpec, List.filterMap_cons, or_self]
        congr 1
        exact ih (pos + c) hr

theorem overlapLoop_sum (start stop : Int) (cs : List Int) (pos : Int) (hc : ∀ c ∈ cs, 0 ≤ c)
    (hss : start < stop) (hend : stop ≤ pos + isum cs) :
    isum (overlapLoop start stop cs pos) = max 0 (stop - max pos start) ∧
    ∀ x ∈ overlapLoop start stop cs pos, 0 ≤ x := by
  induction cs generalizing pos with
  | nil => simp only [isum] at hend; simp only [overlapLoop, isum]; constructor; omega; simp
  | cons c rest ih =>
    have hr : ∀ c ∈ rest, 0 ≤ c := fun x hx => hc x (List.mem_cons_of_mem _ hx)
    have h0 := hc c (List.mem_cons_self ..)
    simp only [isum] at hend
    simp only [overlapLoop]
    by_cases h1 : pos + c ≤ start
    · simp only [h1, if_true]
      have := ih (pos + c) hr (by omega)
      constructor
      · omega
      · exact this.2
    · by_cases h2 : pos ≥ stop
      · simp only [h1, h2, if_true, if_false, isum]
        constructor; omega; simp
      · simp only [h1, h2, if_false, isum]
        have := ih (pos + c) hr (by omega)
        constructor
        · omega
        · intro x hx
          simp only [List.mem_cons] at hx
          rcases hx with rfl | hx
          · omega
          · exact this.2 x hx

/-- `_compute_sliced_chunks` for a unit-step slice: sums to the selection length, entries
non-negative, and (non-empty selection) exactly the overlap lengths of the chunks with the
selected interval. -/
theorem computeSlicedChunks_spec (chunks : List Int) (s : PySlice) (n : Int)
    (hn : 0 ≤ n) (hc : ∀ c ∈ chunks, 0 ≤ c) (hsum : isum chunks = n) (hs : s.stp = 1) :
    isum (computeSlicedChunks chunks s n) = ((sel s n).length : Int) ∧
    (∀ c ∈ computeSlicedChunks chunks s n, 0 ≤ c) ∧
    (s ≠ colon → s.istart n < s.istop n →
      computeSlicedChunks chunks s n = overlapSpec (s.istart n) (s.istop n) (slicesFromChunks chunks)) := by
  have hlen : ((sel s n).length : Int) = if s.istart n < s.istop n then s.istop n - s.istart n else 0 := by
    rw [length_sel, hs, rangeLen_one]
  have hb := unit_region_bounds s n hn hs
  unfold computeSlicedChunks
  by_cases hcol : s = colon
  · subst hcol
    simp only [if_true]
    refine ⟨?_, hc, fun h => absurd rfl h⟩
    rw [hlen, hsum]
    simp [colon, istart, istop, stp]
    intro h; omega
  · simp only [hcol, if_false, hs]
    have e1 : ¬ ((1 : Int) = -1) := by omega
    simp only [e1, if_false, ne_eq, not_true_eq_false]
    by_cases hss : s.istart n ≥ s.istop n
    · simp only [hss, if_true]
      refine ⟨?_, ?_, fun _ h => by omega⟩
      · rw [hlen]; simp [isum]; intro h; omega
      · simp
    · simp only [hss, if_false]
      have hss' : s.istart n < s.istop n := by omega
      have hL := overlapLoop_sum (s.istart n) (s.istop n) chunks 0 hc hss' (by omega)
      have hne : overlapLoop (s.istart n) (s.istop n) chunks 0 ≠ [] := by
        intro he
        rw [he] at hL
        simp only [isum] at hL
        omega
      have hemp : (overlapLoop (s.istart n) (s.istop n) chunks 0).isEmpty = false := by
        cases h : overlapLoop (s.istart n) (s.istop n) chunks 0 with
        | nil => exact absurd h hne
        | cons _ _ => rfl
      simp only [hemp, Bool.false_eq_true, if_false]
      refine ⟨?_, hL.2, fun _ _ => ?_⟩
      · rw [hL.1, hlen]; simp only [hss', if_true]; omega
      · rw [overlapLoop_eq_spec _ _ _ _ hc]; rfl


/-! ### one accepted push, chains -/

theorem length_pick (xs is : List Int) (h : ∀ i ∈ is, 0 ≤ i ∧ i < (xs.length : Int)) :
    (pick xs is).length = is.length := by
  unfold pick
  induction is with
  | nil => rfl
  | cons i rest ih =>
    have hi := h i (List.mem_cons_self ..)
    have hlt : i.toNat < xs.length := by omega
    simp only [List.filterMap_cons, List.getElem?_eq_getElem hlt, List.length_cons]
    rw [ih (fun j hj => h j (List.mem_cons_of_mem _ hj))]

theorem pick_range_id (n : Int) (is : List Int) (h : ∀ i ∈ is, 0 ≤ i ∧ i < n) :
    pick (rangeList 0 n 1) is = is := by
  unfold pick
  induction is with
  | nil => rfl
  | cons i rest ih =>
    have hi := h i (List.mem_cons_self ..)
    have hl := rangeLen_one 0 n
    have hlt : i.toNat < rangeLen 0 n 1 := by split at hl <;> omega
    have e : (rangeList 0 n 1)[i.toNat]? = some i := by
      rw [getElem?_rangeList]; simp only [hlt, if_true]; congr 1; omega
    rw [List.filterMap_cons, e, ih (fun j hj => h j (List.mem_cons_of_mem _ hj))]

theorem sel_int_slice (k n : Int) (h0 : 0 ≤ k) (h1 : k < n) :
    sel ⟨some k, some (k + 1), none⟩ n = [k] := by
  have e1 : adjust k n false = k := adjust_false_id k n h0 (by omega)
  have e2 : adjust (k + 1) n false = k + 1 := adjust_false_id (k + 1) n (by omega) (by omega)
  have hl := rangeLen_one k (k + 1)
  have hl' : rangeLen k (k + 1) 1 = 1 := by split at hl <;> omega
  simp [sel, istart, istop, stp, e1, e2, rangeList, hl']

theorem stp_regionIndex (idx : Idx) (h : idxAccepted idx = true) : (regionIndex idx).stp = 1 := by
  cases idx with
  | int i => simp [regionIndex, stp]
  | slc s =>
    simp only [idxAccepted, decide_eq_true_eq] at h
    simp only [regionIndex, stp]
    rcases h with h | h <;> simp [h]
  | newaxis => simp [idxAccepted] at h
  | fancy => simp [idxAccepted] at h

theorem accept_core (ax : Axis) (ri : PySlice) (h : Inv ax) (hri : ri.stp = 1) :
    let newRegion := match ax.region with
      | some old => composeSlices old ri ax.dim
      | none => ri
    let ax' : Axis := ⟨ax.dim, some newRegion, computeSlicedChunks ax.chunks ri (effLen ax.region ax.dim)⟩
    Inv ax' ∧ regionPositions ax' = pick (regionPositions ax) (sel ri ((regionPositions ax).length : Int)) := by
  intro newRegion ax'
  have hd := h.dim_nonneg
  have hL := effLen_eq_length ax hd
  have hL0 : 0 ≤ effLen ax.region ax.dim := by rw [hL]; omega
  have hcs := computeSlicedChunks_spec ax.chunks ri (effLen ax.region ax.dim) hL0 h.chunks_nonneg h.chunks_sum hri
  have hbnd : ∀ i ∈ sel ri ((regionPositions ax).length : Int), 0 ≤ i ∧ i < ((regionPositions ax).length : Int) :=
    sel_bounds ri _ (by omega) (by omega)
  have hpos : regionPositions ax' = pick (regionPositions ax) (sel ri ((regionPositions ax).length : Int)) := by
    show sel newRegion ax.dim = _
    cases hr : ax.region with
    | none =>
      have e : regionPositions ax = rangeList 0 ax.dim 1 := by simp [regionPositions, hr]
      have hlen : ((regionPositions ax).length : Int) = ax.dim := by
        rw [← hL]; simp [effLen, hr]
      rw [hlen] at hbnd
      rw [e] at *
      rw [hlen, pick_range_id _ _ hbnd]
      simp [newRegion, hr]
    | some old =>
      have e : regionPositions ax = sel old ax.dim := by simp [regionPositions, hr]
      have ho := h.unit old hr
      rw [e]
      simp only [newRegion, hr]
      rw [composeSlices_sel old ri ax.dim hd (by omega) (by omega)]
      rfl
  have hunit : newRegion.stp = 1 := by
    cases hr : ax.region with
    | none => simp [newRegion, hr, hri]
    | some old =>
      have ho := h.unit old hr
      simp only [newRegion, hr]
      rw [composeSlices_eq, ho, hri]
      simp [stp]
  refine ⟨⟨hd, hcs.2.1, ?_, ?_⟩, hpos⟩
  · show isum (computeSlicedChunks ax.chunks ri (effLen ax.region ax.dim)) = effLen (some newRegion) ax.dim
    have e2 := effLen_eq_length ax' hd
    have e3 : effLen (some newRegion) ax.dim = ((regionPositions ax').length : Int) := e2
    rw [e3, hpos, length_pick _ _ hbnd, hcs.1, hL]
  · intro r hr
    have : r = newRegion := by
      have : some newRegion = some r := hr
      injection this with this; exact this.symm
    rw [this]; exact hunit

theorem accept_step (ax ax' : Axis) (idx : Idx) (h : Inv ax)
    (ha : acceptSliceAxis ax idx = some ax') (hv : IdxValid (regionPositions ax) idx) :
    Inv ax' ∧ ax'.dim = ax.dim ∧ regionPositions ax' = npIndex (regionPositions ax) idx := by
  unfold acceptSliceAxis at ha
  by_cases hacc : idxAccepted idx = true
  · simp only [hacc, if_true] at ha
    injection ha with ha
    have hc := accept_core ax (regionIndex idx) h (stp_regionIndex idx hacc)
    subst ha
    refine ⟨hc.1, rfl, hc.2.trans ?_⟩
    cases idx with
    | int k =>
      simp only [IdxValid] at hv
      simp only [regionIndex, npIndex]
      rw [sel_int_slice k _ hv.1 hv.2]
      have hlt : k.toNat < (regionPositions ax).length := by omega
      simp [pick, List.getElem?_eq_getElem hlt]
    | slc s => rfl
    | newaxis => simp [idxAccepted] at hacc
    | fancy => simp [idxAccepted] at hacc
  · simp [hacc] at ha

theorem validChain_cons (xs : List Int) (i : Idx) (rest : List Idx) (h : ValidChain xs (i :: rest)) :
    IdxValid xs i ∧ ValidChain (npIndex xs i) rest := h

theorem accept_chain (ax ax' : Axis) (idxs : List Idx) (h : Inv ax)
    (ha : acceptChain ax idxs = some ax') (hv : ValidChain (regionPositions ax) idxs) :
    Inv ax' ∧ ax'.dim = ax.dim ∧ regionPositions ax' = npChain (regionPositions ax) idxs := by
  induction idxs generalizing ax with
  | nil =>
    simp only [acceptChain] at ha
    injection ha with ha
    subst ha
    exact ⟨h, rfl, rfl⟩
  | cons i rest ih =>
    simp only [acceptChain] at ha
    cases h1 : acceptSliceAxis ax i with
    | none => simp [h1] at ha
    | some ax1 =>
      simp only [h1, Option.bind] at ha
      have hvc := validChain_cons _ _ _ hv
      have hs := accept_step ax ax1 i h h1 hvc.1
      have := ih ax1 hs.1 ha (by rw [hs.2.2]; exact hvc.2)
      refine ⟨this.1, by rw [this.2.1, hs.2.1], ?_⟩
      rw [this.2.2, hs.2.2]; rfl


/-! ### read chunks chosen by `_accept_rechunk` -/

theorem diffs_sum (a : Int) (rest : List Int) :
    isum (diffs (a :: rest)) = (a :: rest).getLast (by simp) - a := by
  induction rest generalizing a with
  | nil => simp [diffs, isum]
  | cons b rest ih =>
    simp only [diffs, isum, ih b, List.getLast_cons_cons]
    omega

theorem diffs_sum' (a : Int) (mid : List Int) (z : Int) :
    isum (diffs (a :: (mid ++ [z]))) = z - a := by
  induction mid generalizing a with
  | nil => simp [diffs, isum]
  | cons b rest ih =>
    simp only [List.cons_append, diffs, isum, ih b]
    omega

theorem diffs_nonneg (l : List Int) (h : List.Pairwise (· ≤ ·) l) : ∀ x ∈ diffs l, 0 ≤ x := by
  induction l with
  | nil => simp [diffs]
  | cons a rest ih =>
    cases rest with
    | nil => simp [diffs]
    | cons b rest =>
      intro x hx
      simp only [diffs, List.mem_cons] at hx
      rw [List.pairwise_cons] at h
      rcases hx with rfl | hx
      · have := h.1 b (List.mem_cons_self ..); omega
      · exact ih h.2 x hx

theorem pairwise_rangeList (a b c : Int) (hc : 0 < c) : List.Pairwise (· < ·) (rangeList a b c) := by
  unfold rangeList
  rw [List.pairwise_map]
  apply List.Pairwise.imp _ (List.pairwise_lt_range)
  intro i j hij
  have : (i : Int) < (j : Int) := by omega
  have := Int.mul_lt_mul_of_pos_right this hc
  omega

theorem alignedReadChunks_valid (start stop storage : Int) (hs : 0 < storage) (hss : start ≤ stop) :
    (∀ c ∈ alignedReadChunks start stop storage, 0 ≤ c) ∧
    isum (alignedReadChunks start stop storage) = stop - start := by
  unfold alignedReadChunks
  simp only []
  generalize hfirst : pyDiv (start + storage - 1) storage * storage = first
  have hp := pairwise_rangeList first stop storage hs
  have hmem : ∀ b ∈ rangeList first stop storage, b < stop := by
    intro b hb
    obtain ⟨i, hi, rfl⟩ := (mem_rangeList _ _ _ _).mp hb
    exact (lt_rangeLen_pos _ _ _ hs i).mp hi
  generalize rangeList first stop storage = R at hp hmem
  constructor
  · apply diffs_nonneg
    rw [List.append_assoc, List.singleton_append, List.pairwise_cons]
    constructor
    · intro x hx
      rw [List.mem_append] at hx
      rcases hx with hx | hx
      · simp only [List.mem_map, List.mem_filter, decide_eq_true_eq] at hx
        obtain ⟨b, ⟨_, hb⟩, rfl⟩ := hx
        omega
      · simp only [List.mem_singleton] at hx; omega
    · rw [List.pairwise_append]
      refine ⟨?_, by simp, ?_⟩
      · rw [List.pairwise_map]
        apply List.Pairwise.imp _ (List.Pairwise.filter _ hp)
        intro x y hxy; omega
      · intro x hx y hy
        simp only [List.mem_map, List.mem_filter, decide_eq_true_eq] at hx
        obtain ⟨b, ⟨hbR, _⟩, rfl⟩ := hx
        simp only [List.mem_singleton] at hy
        have := hmem b hbR
        omega
  · rw [List.append_assoc, List.singleton_append, diffs_sum']
    omega

theorem isum_replicate (k : Nat) (c : Int) : isum (List.replicate k c) = (k : Int) * c := by
  induction k with
  | zero => simp [isum]
  | succ k ih => simp only [List.replicate_succ, isum, ih]; rw [Int.natCast_succ, Int.add_mul]; omega

theorem uniformChunks_valid (size dim : Int) (hs : 0 < size) (hd : 0 ≤ dim) :
    (∀ c ∈ uniformChunks size dim, 0 ≤ c) ∧ isum (uniformChunks size dim) = dim ∧ uniformChunks size dim ≠ [] := by
  unfold uniformChunks
  by_cases h0 : dim ≤ 0
  · simp only [h0, if_true]
    refine ⟨by simp, by simp [isum]; omega, by simp⟩
  · simp only [h0, if_false]
    have hq : pyDiv dim size = dim / size := by simp [pyDiv, hs]
    have hm : pyMod dim size = dim % size := by simp [pyMod, hs]
    rw [hq, hm]
    have h1 : 0 ≤ dim / size := Int.ediv_nonneg hd (Int.le_of_lt hs)
    have h2 : 0 ≤ dim % size := Int.emod_nonneg _ (by omega)
    have h3 := Int.mul_ediv_add_emod dim size
    refine ⟨?_, ?_, ?_⟩
    · intro c hc
      rw [List.mem_append] at hc
      rcases hc with hc | hc
      · have := (List.mem_replicate.mp hc).2; omega
      · split at hc
        · simp at hc
        · simp only [List.mem_singleton] at hc; omega
    · rw [isum_append, isum_replicate, Int.toNat_of_nonneg h1]
      split
      · rename_i hr; simp only [isum]; rw [Int.mul_comm]; omega
      · simp only [isum]; rw [Int.mul_comm]; omega
    · intro he
      have he' := congrArg List.length he
      simp only [List.length_append, List.length_replicate, List.length_nil] at he'
      split at he'
      · rename_i hr
        have : (dim / size).toNat = 0 := by simpa using he'
        have : dim / size = 0 := by omega
        rw [this, hr] at h3; omega
      · simp at he'

theorem coarseReadSize_pos (target : List Int) (storage : Int) (hs : 0 < storage) :
    0 < coarseReadSize target storage := by
  unfold coarseReadSize
  have hq : pyDiv (max (imax target) storage + storage - 1) storage =
      (max (imax target) storage + storage - 1) / storage := by simp [pyDiv, hs]
  rw [hq]
  have : 1 ≤ (max (imax target) storage + storage - 1) / storage := by
    rw [Int.le_ediv_iff_mul_le hs]; omega
  have := Int.mul_le_mul_of_nonneg_right this (Int.le_of_lt hs)
  omega

/-- region branch of `_accept_rechunk` on one axis: the chosen read chunks are a valid
chunking of the region -/
theorem readChunksAxis_valid (target : List Int) (storage : Int) (region : PySlice) (dim : Int)
    (read : List Int) (hs : 0 < storage) (hu : region.stp = 1)
    (hord : region.istart dim ≤ region.istop dim)
    (ht : ∀ c ∈ target, 0 ≤ c) (htsum : isum target = effLen (some region) dim)
    (h : readChunksAxis target storage region dim = some read) :
    (∀ c ∈ read, 0 ≤ c) ∧ isum read = effLen (some region) dim := by
  unfold readChunksAxis at h
  simp only [] at h
  split at h
  · injection h with h; subst h; exact ⟨ht, htsum⟩
  · split at h
    · cases h
    · injection h with h
      subst h
      have := alignedReadChunks_valid (region.istart dim) (region.istop dim) storage hs hord
      refine ⟨this.1, ?_⟩
      rw [this.2]
      unfold effLen
      simp only [hu]
      have hl := rangeLen_one (region.istart dim) (region.istop dim)
      split at hl <;> omega

theorem istart_some_none (x : Int) (y : Option Int) (n : Int) :
    (⟨some x, y, none⟩ : PySlice).istart n = adjust x n false := by simp [istart, stp]
theorem istop_some_none (x : Option Int) (y : Int) (n : Int) :
    (⟨x, some y, none⟩ : PySlice).istop n = adjust y n false := by simp [istop, stp]

/-- pushing an ordered index keeps the region ordered (`start ≤ stop`) -/
theorem accept_ordered (ax : Axis) (ri : PySlice) (h : Inv ax) (hri : ri.stp = 1)
    (hord : ri.istart (effLen ax.region ax.dim) ≤ ri.istop (effLen ax.region ax.dim)) :
    let newRegion := match ax.region with
      | some old => composeSlices old ri ax.dim
      | none => ri
    newRegion.istart ax.dim ≤ newRegion.istop ax.dim := by
  intro newRegion
  cases hr : ax.region with
  | none => simpa [newRegion, hr, effLen] using hord
  | some old =>
    have ho := h.unit old hr
    have hd := h.dim_nonneg
    have hb := unit_region_bounds old ax.dim hd ho
    simp only [hr, effLen, ho] at hord
    have hL0 : 0 ≤ (rangeLen (old.istart ax.dim) (old.istop ax.dim) 1 : Int) := by omega
    have hbi := unit_region_bounds ri _ hL0 hri
    simp only [newRegion, hr]
    rw [composeSlices_eq, ho, hri]
    simp only [Int.mul_one, ne_eq, not_true_eq_false, if_false]
    generalize ri.istart (rangeLen (old.istart ax.dim) (old.istop ax.dim) 1 : Int) = a at *
    generalize ri.istop (rangeLen (old.istart ax.dim) (old.istop ax.dim) 1 : Int) = b at *
    rw [istart_some_none, istop_some_none]
    have c1 := clamp_cases (old.istart ax.dim + a) ax.dim (by omega)
    have c2 := clamp_cases (old.istart ax.dim + b) ax.dim (by omega)
    omega


/-! ### C25: the write index of `store` -/

theorem mapE_ok_map {α β γ} (f : α → Except Err β) (g : β → γ) (h : α → γ) (l : List α) (ys : List β)
    (hf : ∀ x ∈ l, ∀ y, f x = .ok y → g y = h x) (hm : mapE f l = .ok ys) :
    ys.map g = l.map h := by
  induction l generalizing ys with
  | nil => simp only [mapE] at hm; injection hm with hm; subst hm; rfl
  | cons x xs ih =>
    simp only [mapE] at hm
    cases hx : f x with
    | error e => simp [hx] at hm
    | ok y =>
      simp only [hx] at hm
      cases hxs : mapE f xs with
      | error e => simp [hxs] at hm
      | ok ys' =>
        simp only [hxs] at hm
        injection hm with hm
        subst hm
        simp only [List.map_cons]
        rw [hf x (List.mem_cons_self ..) y hx, ih ys' (fun z hz => hf z (List.mem_cons_of_mem _ hz)) hxs]

theorem mapE_ok_of_forall {α β} (f : α → Except Err β) (l : List α)
    (hf : ∀ x ∈ l, ∃ y, f x = .ok y) : ∃ ys, mapE f l = .ok ys := by
  induction l with
  | nil => exact ⟨[], rfl⟩
  | cons x xs ih =>
    obtain ⟨y, hy⟩ := hf x (List.mem_cons_self ..)
    obtain ⟨ys, hys⟩ := ih (fun z hz => hf z (List.mem_cons_of_mem _ hz))
    exact ⟨y :: ys, by simp [mapE, hy, hys]⟩

theorem mapE_error_of_mem {α β} (f : α → Except Err β) (l : List α) (ys : List β)
    (hm : mapE f l = .ok ys) : ∀ x ∈ l, ∃ y, f x = .ok y := by
  induction l generalizing ys with
  | nil => intro x hx; simp at hx
  | cons x xs ih =>
    simp only [mapE] at hm
    cases hx : f x with
    | error e => simp [hx] at hm
    | ok y =>
      simp only [hx] at hm
      cases hxs : mapE f xs with
      | error e => simp [hxs] at hm
      | ok ys' =>
        intro z hz
        simp only [List.mem_cons] at hz
        rcases hz with rfl | hz
        · exact ⟨y, hx⟩
        · exact ih ys' hxs z hz

theorem sel_chunkSlice (p : Int × Int) (L : Int) (h0 : 0 ≤ p.1) (h1 : p.1 ≤ p.2) (h2 : p.2 ≤ L) :
    sel (chunkSlice p) L = rangeList p.1 p.2 1 := by
  unfold sel chunkSlice
  rw [istart_some_none, istop_some_none, adjust_false_id _ _ h0 (by omega), adjust_false_id _ _ (by omega) h2]
  rfl

theorem pick_eq_map (l is : List Int) (h : ∀ i ∈ is, 0 ≤ i ∧ i < (l.length : Int)) :
    pick l is = is.map (fun i => l.getD i.toNat 0) := by
  unfold pick
  apply filterMap_eq_map_of
  intro i hi
  have := h i hi
  have hlt : i.toNat < l.length := by omega
  simp [List.getD, List.getElem?_eq_getElem hlt]

theorem pick_append (l a b : List Int) : pick l (a ++ b) = pick l a ++ pick l b := by
  simp [pick, List.filterMap_append]

theorem pick_self (l : List Int) : pick l (rangeList 0 (l.length : Int) 1) = l := by
  have hl := rangeLen_one 0 (l.length : Int)
  have hlen : rangeLen 0 (l.length : Int) 1 = l.length := by split at hl <;> omega
  rw [pick_eq_map]
  · apply List.ext_getElem?
    intro i
    rw [List.getElem?_map, getElem?_rangeList, hlen]
    by_cases hi : i < l.length
    · simp [hi, List.getD]
    · simp [hi]
  · intro i hi
    obtain ⟨j, hj, rfl⟩ := (mem_rangeList _ _ _ _).mp hi
    omega

/-- the piece of `l` a block `[p.1, p.2)` names -/
def piece (l : List Int) (p : Int × Int) : List Int := pick l (rangeList p.1 p.2 1)

theorem mem_range_one (a b i : Int) : i ∈ rangeList a b 1 ↔ a ≤ i ∧ i < b := by
  rw [mem_rangeList]
  constructor
  · rintro ⟨j, hj, rfl⟩
    have := (lt_rangeLen_pos a b 1 (by omega) j).mp hj
    omega
  · intro h
    refine ⟨(i - a).toNat, ?_, by omega⟩
    rw [lt_rangeLen_pos a b 1 (by omega)]; omega

theorem piece_getElem? (l : List Int) (p : Int × Int) (h0 : 0 ≤ p.1) (h2 : p.2 ≤ (l.length : Int))
    (j : Nat) (hj : (j : Int) < p.2 - p.1) : (piece l p)[j]? = l[(p.1 + j).toNat]? := by
  unfold piece
  rw [pick_eq_map]
  · rw [List.getElem?_map, getElem?_rangeList]
    have hl := rangeLen_one p.1 p.2
    have : j < rangeLen p.1 p.2 1 := by split at hl <;> omega
    simp only [this, if_true, Option.map_some, Int.mul_one]
    have hlt : (p.1 + (j : Int)).toNat < l.length := by omega
    simp [List.getD, List.getElem?_eq_getElem hlt]
  · intro i hi
    have := (mem_range_one _ _ _).mp hi
    omega

theorem length_piece (l : List Int) (p : Int × Int) (h0 : 0 ≤ p.1) (h1 : p.1 ≤ p.2)
    (h2 : p.2 ≤ (l.length : Int)) : ((piece l p).length : Int) = p.2 - p.1 := by
  unfold piece
  rw [length_pick]
  · rw [length_rangeList]
    have hl := rangeLen_one p.1 p.2
    split at hl <;> omega
  · intro i hi
    have := (mem_range_one _ _ _).mp hi
    omega

theorem mem_piece (l : List Int) (p : Int × Int) (h0 : 0 ≤ p.1) (x : Int)
    (hx : x ∈ piece l p) : ∃ i : Nat, p.1 ≤ (i : Int) ∧ (i : Int) < p.2 ∧ l[i]? = some x := by
  unfold piece pick at hx
  rw [List.mem_filterMap] at hx
  obtain ⟨i, hi, hix⟩ := hx
  have := (mem_range_one _ _ _).mp hi
  exact ⟨i.toNat, by omega, by omega, hix⟩

theorem flatten_pieces (l : List Int) (blocks : List (Int × Int)) :
    (blocks.map (piece l)).flatten = pick l (slicesPositions blocks) := by
  induction blocks with
  | nil => rfl
  | cons p rest ih =>
    simp only [List.map_cons, List.flatten_cons, slicesPositions_cons, pick_append, ih]
    rfl

theorem blocks_ordered (cs : List Int) (acc : Int) (hc : ∀ c ∈ cs, 0 ≤ c) :
    List.Pairwise (fun p q : Int × Int => p.2 ≤ q.1) (slicesFromChunksFrom acc cs) := by
  induction cs generalizing acc with
  | nil => simp [slicesFromChunksFrom]
  | cons c rest ih =>
    have hr : ∀ c ∈ rest, 0 ≤ c := fun x hx => hc x (List.mem_cons_of_mem _ hx)
    simp only [slicesFromChunksFrom, List.pairwise_cons]
    refine ⟨?_, ih (acc + c) hr⟩
    intro q hq
    have := slicesFromChunksFrom_bounds rest (acc + c) hr q hq
    show acc + c ≤ q.1
    omega

theorem pieces_disjoint (l : List Int) (hl : List.Pairwise (· < ·) l) (blocks : List (Int × Int))
    (hb : ∀ p ∈ blocks, 0 ≤ p.1 ∧ p.2 ≤ (l.length : Int))
    (ho : List.Pairwise (fun p q : Int × Int => p.2 ≤ q.1) blocks) :
    List.Pairwise (fun a b : List Int => ∀ x ∈ a, x ∉ b) (blocks.map (piece l)) := by
  rw [List.pairwise_map]
  induction blocks with
  | nil => simp
  | cons p rest ih =>
    rw [List.pairwise_cons] at ho ⊢
    refine ⟨?_, ih (fun q hq => hb q (List.mem_cons_of_mem _ hq)) ho.2⟩
    intro q hq x hxp hxq
    have hbp := hb p (List.mem_cons_self ..)
    have hbq := hb q (List.mem_cons_of_mem _ hq)
    obtain ⟨i, hi1, hi2, hix⟩ := mem_piece l p hbp.1 x hxp
    obtain ⟨j, hj1, hj2, hjx⟩ := mem_piece l q hbq.1 x hxq
    have hpq := ho.1 q hq
    have hij : i < j := by omega
    have hjl : j < l.length := by omega
    have hil : i < l.length := by omega
    rw [List.getElem?_eq_getElem hil] at hix
    rw [List.getElem?_eq_getElem hjl] at hjx
    injection hix with hix
    injection hjx with hjx
    have := (List.pairwise_iff_getElem.mp hl) i j hil hjl hij
    omega

theorem storeIndexAxis_sel (r : PySlice) (n : Int) (hn : 0 ≤ n) (p : Int × Int) (f : PySlice)
    (h0 : 0 ≤ p.1) (h1 : p.1 ≤ p.2) (h2 : p.2 ≤ ((sel r n).length : Int))
    (h : storeIndexAxis (some r) p = .ok f) : sel f n = piece (sel r n) p := by
  unfold storeIndexAxis at h
  simp only at h
  rw [fuseSliceSlice_sel r (chunkSlice p) f n hn h, sel_chunkSlice p _ h0 h1 h2]
  rfl


theorem pairwise_sel_pos (r : PySlice) (n : Int) (hs : 0 < r.stp) : List.Pairwise (· < ·) (sel r n) :=
  pairwise_rangeList _ _ _ hs

theorem blockAt (cs : List Int) (acc : Int) (b : Nat) (hb : b < cs.length) :
    (slicesFromChunksFrom acc cs)[b]? =
      some (acc + blockStart cs b, acc + blockStart cs b + cs[b]) := by
  induction cs generalizing acc b with
  | nil => simp at hb
  | cons c rest ih =>
    cases b with
    | zero => simp [slicesFromChunksFrom, blockStart, isum]
    | succ b =>
      simp only [slicesFromChunksFrom, List.getElem?_cons_succ, List.getElem_cons_succ]
      rw [ih (acc + c) b (by simpa using hb)]
      simp only [blockStart, List.take_succ_cons, isum]
      congr 2 <;> omega

/-- All facts about the write sets of one axis at once. -/
theorem store_tiles (r : PySlice) (n : Int) (chunks : List Int) (ws : List PySlice)
    (hn : 0 ≤ n) (hstep : 0 < r.stp) (hc : ∀ c ∈ chunks, 0 ≤ c)
    (hlen : isum chunks = ((sel r n).length : Int))
    (hw : storeWrites (some r) chunks = .ok ws) :
    ws.map (fun w => sel w n) = (slicesFromChunks chunks).map (piece (sel r n)) ∧
    (ws.flatMap (fun w => sel w n) = sel r n) ∧
    List.Pairwise (fun a b : List Int => ∀ x ∈ a, x ∉ b) (ws.map (fun w => sel w n)) := by
  have hbnd := slicesFromChunksFrom_bounds chunks 0 hc
  have hmap : ws.map (fun w => sel w n) = (slicesFromChunks chunks).map (piece (sel r n)) := by
    apply mapE_ok_map (storeIndexAxis (some r)) (fun w => sel w n) (piece (sel r n)) _ _ _ hw
    intro p hp f hf
    have := hbnd p hp
    exact storeIndexAxis_sel r n hn p f (by omega) (by omega) (by omega) hf
  refine ⟨hmap, ?_, ?_⟩
  · rw [List.flatMap_def, hmap, flatten_pieces]
    unfold slicesFromChunks
    rw [slicesFromChunksFrom_positions _ _ hc, hlen]
    simp only [Int.zero_add]
    exact pick_self _
  · rw [hmap]
    apply pieces_disjoint _ (pairwise_sel_pos r n hstep)
    · intro p hp
      have := hbnd p hp
      omega
    · exact blocks_ordered chunks 0 hc

theorem store_landing (r : PySlice) (n : Int) (chunks : List Int) (ws : List PySlice)
    (hn : 0 ≤ n) (hstep : 0 < r.stp) (hc : ∀ c ∈ chunks, 0 ≤ c)
    (hlen : isum chunks = ((sel r n).length : Int))
    (hw : storeWrites (some r) chunks = .ok ws) :
    ws.length = chunks.length ∧
    ∀ (b : Nat) (hb : b < chunks.length) (w : PySlice), ws[b]? = some w →
      ((sel w n).length : Int) = chunks[b] ∧
      ∀ j : Nat, (j : Int) < chunks[b] → (sel w n)[j]? = (sel r n)[(blockStart chunks b + j).toNat]? := by
  have ht := (store_tiles r n chunks ws hn hstep hc hlen hw).1
  have hbnd := slicesFromChunksFrom_bounds chunks 0 hc
  have hl : ws.length = chunks.length := by
    have := congrArg List.length ht
    simpa [slicesFromChunks, length_slicesFromChunksFrom] using this
  refine ⟨hl, ?_⟩
  intro b hb w hwb
  have hblk := blockAt chunks 0 b hb
  simp only [Int.zero_add] at hblk
  have hmem : (blockStart chunks b, blockStart chunks b + chunks[b]) ∈ slicesFromChunksFrom 0 chunks :=
    List.mem_of_getElem? hblk
  have hb3 := hbnd _ hmem
  simp only at hb3
  have hsel : sel w n = piece (sel r n) (blockStart chunks b, blockStart chunks b + chunks[b]) := by
    have h1 : (ws.map (fun w => sel w n))[b]? = some (sel w n) := by simp [hwb]
    rw [ht] at h1
    simp only [slicesFromChunks, List.getElem?_map, hblk, Option.map_some] at h1
    injection h1 with h1
    exact h1.symm
  have hc0 := hc _ (List.getElem_mem hb)
  constructor
  · rw [hsel, length_piece _ _ (by simp only; omega) (by simp only; omega) (by simp only; omega)]
    simp only; omega
  · intro j hj
    rw [hsel, piece_getElem? _ _ (by simp only; omega) (by simp only; omega) j (by simp only; omega)]

theorem storeWrites_ok_iff (r : PySlice) (chunks : List Int) (hc : ∀ c ∈ chunks, 0 ≤ c) (hne : chunks ≠ []) :
    (∃ ws, storeWrites (some r) chunks = .ok ws) ↔
      (0 ≤ r.start.getD 0 ∧ 0 ≤ r.step.getD 1 ∧ 0 ≤ r.stop.getD 0) := by
  have hbnd := slicesFromChunksFrom_bounds chunks 0 hc
  constructor
  · rintro ⟨ws, hw⟩
    cases chunks with
    | nil => exact absurd rfl hne
    | cons c rest =>
      have := mapE_error_of_mem _ _ _ hw (0, 0 + c) (by simp [slicesFromChunks, slicesFromChunksFrom])
      obtain ⟨f, hf⟩ := this
      have := (fuseSliceSlice_error_iff r (chunkSlice (0, 0 + c))).mp ⟨f, hf⟩
      omega
  · intro h
    apply mapE_ok_of_forall
    intro p hp
    have := hbnd p hp
    apply (fuseSliceSlice_error_iff r (chunkSlice p)).mpr
    simp only [chunkSlice, Option.getD_some, Option.getD_none]
    omega

/-- no region: the write slices are the chunk slices; they tile `[0, n)` when the target axis
has the source's length. -/
theorem store_tiles_noregion (n : Int) (chunks : List Int) (hc : ∀ c ∈ chunks, 0 ≤ c)
    (hlen : isum chunks = n) :
    ∃ ws, storeWrites none chunks = .ok ws ∧ ws = (slicesFromChunks chunks).map chunkSlice ∧
      ws.flatMap (fun w => sel w n) = rangeList 0 n 1 := by
  have hbnd := slicesFromChunksFrom_bounds chunks 0 hc
  obtain ⟨ws, hw⟩ := mapE_ok_of_forall (storeIndexAxis none) (slicesFromChunks chunks)
    (fun p _ => ⟨chunkSlice p, rfl⟩)
  have h1 : ws.map id = (slicesFromChunks chunks).map chunkSlice :=
    mapE_ok_map (storeIndexAxis none) id chunkSlice _ _
      (fun p _ y hy => by simp only [storeIndexAxis] at hy; injection hy with hy; exact hy.symm) hw
  have h2 : ws.map (fun w => sel w n) = (slicesFromChunks chunks).map (fun p => rangeList p.1 p.2 1) :=
    mapE_ok_map (storeIndexAxis none) (fun w => sel w n) (fun p => rangeList p.1 p.2 1) _ _
      (fun p hp y hy => by
        simp only [storeIndexAxis] at hy; injection hy with hy; subst hy
        have := hbnd p hp
        exact sel_chunkSlice p n (by omega) (by omega) (by omega)) hw
  refine ⟨ws, hw, by simpa using h1, ?_⟩
  rw [List.flatMap_def, h2, ← List.flatMap_def]
  have := slicesFromChunks_partition chunks hc
  unfold slicesPositions at this
  rw [this, hlen]


/-- n-d glue: for a region made of one slice per axis the tuple fusion is the per-axis fusion -/
theorem fuseTuple_axiswise (rs : List PySlice) (ps : List (Int × Int)) (out : List RIdx)
    (hl : rs.length = ps.length) (h : fuseTuple (rs.map RIdx.slc) ps = .ok out) :
    ∃ fs : List PySlice, out = fs.map RIdx.slc ∧
      mapE (fun (rp : PySlice × (Int × Int)) => storeIndexAxis (some rp.1) rp.2) (rs.zip ps) = .ok fs := by
  induction rs generalizing ps out with
  | nil =>
    cases ps with
    | nil => simp [fuseTuple] at h; subst h; exact ⟨[], rfl, rfl⟩
    | cons p ps => simp at hl
  | cons r rs ih =>
    cases ps with
    | nil => simp at hl
    | cons p ps =>
      simp only [List.map_cons, fuseTuple, bind, Except.bind] at h
      cases hf : fuseSliceSlice r (chunkSlice p) with
      | error e => simp [hf] at h
      | ok f =>
        simp only [hf] at h
        cases hr : fuseTuple (rs.map RIdx.slc) ps with
        | error e => simp [hr] at h
        | ok out' =>
          simp only [hr, pure, Except.pure] at h
          injection h with h
          obtain ⟨fs, hfs, hall⟩ := ih ps out' (by simpa using hl) hr
          refine ⟨f :: fs, by rw [← h, hfs]; rfl, ?_⟩
          have hf' : storeIndexAxis (some (r, p).1) (r, p).2 = .ok f := hf
          simp only [List.zip_cons_cons, mapE, hf', hall]


/-! ### top-level statements for Props/C24 -/

theorem inv_init (dim : Int) (chunks : List Int) (hd : 0 ≤ dim) (hc : ∀ c ∈ chunks, 0 ≤ c)
    (hsum : isum chunks = dim) : Inv ⟨dim, none, chunks⟩ :=
  ⟨hd, hc, hsum, fun r hr => by cases hr⟩

theorem chain_all (dim : Int) (chunks : List Int) (idxs : List Idx) (ax : Axis)
    (hd : 0 ≤ dim) (hc : ∀ c ∈ chunks, 0 ≤ c) (hsum : isum chunks = dim)
    (hv : ValidChain (rangeList 0 dim 1) idxs)
    (ha : acceptChain ⟨dim, none, chunks⟩ idxs = some ax) :
    Inv ax ∧ ax.dim = dim ∧ regionPositions ax = npChain (rangeList 0 dim 1) idxs :=
  accept_chain ⟨dim, none, chunks⟩ ax idxs (inv_init dim chunks hd hc hsum) ha hv

theorem region_read (dim : Int) (chunks : List Int) (idxs : List Idx) (ax : Axis)
    (hd : 0 ≤ dim) (hc : ∀ c ∈ chunks, 0 ≤ c) (hsum : isum chunks = dim)
    (hv : ValidChain (rangeList 0 dim 1) idxs)
    (ha : acceptChain ⟨dim, none, chunks⟩ idxs = some ax) :
    readPositions ax = npChain (rangeList 0 dim 1) idxs := by
  have h := chain_all dim chunks idxs ax hd hc hsum hv ha
  rw [readPositions_eq_region ax h.1, h.2.2]

theorem in_bounds (dim : Int) (chunks : List Int) (idxs : List Idx) (ax : Axis)
    (hd : 0 ≤ dim) (hc : ∀ c ∈ chunks, 0 ≤ c) (hsum : isum chunks = dim)
    (hv : ValidChain (rangeList 0 dim 1) idxs)
    (ha : acceptChain ⟨dim, none, chunks⟩ idxs = some ax) :
    ∀ p ∈ layerSlices ax, 0 ≤ p.1 ∧ p.1 ≤ p.2 ∧ p.2 ≤ dim := by
  have h := chain_all dim chunks idxs ax hd hc hsum hv ha
  have := layerSlices_in_bounds ax h.1
  rw [h.2.1] at this
  exact this

theorem chunks_advertised (dim : Int) (chunks : List Int) (idxs : List Idx) (ax : Axis)
    (hd : 0 ≤ dim) (hc : ∀ c ∈ chunks, 0 ≤ c) (hsum : isum chunks = dim)
    (hv : ValidChain (rangeList 0 dim 1) idxs)
    (ha : acceptChain ⟨dim, none, chunks⟩ idxs = some ax) :
    (∀ c ∈ ax.chunks, 0 ≤ c) ∧ isum ax.chunks = ((npChain (rangeList 0 dim 1) idxs).length : Int) := by
  have h := chain_all dim chunks idxs ax hd hc hsum hv ha
  refine ⟨h.1.chunks_nonneg, ?_⟩
  rw [h.1.chunks_sum, effLen_eq_length ax h.1.dim_nonneg, h.2.2]

theorem accept_iff (ax : Axis) (idx : Idx) :
    (∃ ax', acceptSliceAxis ax idx = some ax') ↔
      (match idx with
       | .int _ => True
       | .slc s => s.step = none ∨ s.step = some 1
       | _ => False) := by
  unfold acceptSliceAxis
  cases idx with
  | int i => simp [idxAccepted]
  | slc s =>
    by_cases h : s.step = none ∨ s.step = some 1
    · simp [idxAccepted, h]
    · simp [idxAccepted, h]
  | newaxis => simp [idxAccepted]
  | fancy => simp [idxAccepted]

theorem rechunk_read (dim : Int) (chunks : List Int) (idxs : List Idx) (ax : Axis)
    (read : List Int)
    (hd : 0 ≤ dim) (hc : ∀ c ∈ chunks, 0 ≤ c) (hsum : isum chunks = dim)
    (hv : ValidChain (rangeList 0 dim 1) idxs)
    (ha : acceptChain ⟨dim, none, chunks⟩ idxs = some ax)
    (hr : ∀ c ∈ read, 0 ≤ c) (hrs : isum read = effLen ax.region ax.dim) :
    readPositions ⟨ax.dim, ax.region, read⟩ = npChain (rangeList 0 dim 1) idxs ∧
    ∀ p ∈ layerSlices ⟨ax.dim, ax.region, read⟩, 0 ≤ p.1 ∧ p.1 ≤ p.2 ∧ p.2 ≤ dim := by
  have h := chain_all dim chunks idxs ax hd hc hsum hv ha
  have hi : Inv ⟨ax.dim, ax.region, read⟩ := ⟨h.1.dim_nonneg, hr, hrs, h.1.unit⟩
  constructor
  · rw [readPositions_eq_region _ hi, ← h.2.2]; rfl
  · intro p hp
    have := layerSlices_in_bounds _ hi p hp
    have hdim : ax.dim = dim := h.2.1
    simp only at this
    omega

theorem accept_step_ordered (ax ax' : Axis) (idx : Idx) (h : Inv ax)
    (ha : acceptSliceAxis ax idx = some ax')
    (hord : (regionIndex idx).istart (effLen ax.region ax.dim) ≤ (regionIndex idx).istop (effLen ax.region ax.dim)) :
    ∀ r, ax'.region = some r → r.istart ax'.dim ≤ r.istop ax'.dim := by
  unfold acceptSliceAxis at ha
  by_cases hacc : idxAccepted idx = true
  · simp only [hacc, if_true] at ha
    injection ha with ha
    have := accept_ordered ax (regionIndex idx) h (stp_regionIndex idx hacc) hord
    subst ha
    intro r hr
    injection hr with hr
    subst hr
    exact this
  · simp [hacc] at ha

/-! ### top-level statement for Props/C25 -/

theorem store_tiles_all (r : PySlice) (n : Int) (chunks : List Int) (ws : List PySlice)
    (hn : 0 ≤ n) (hstep : 0 < r.stp) (hc : ∀ c ∈ chunks, 0 ≤ c)
    (hlen : isum chunks = ((sel r n).length : Int))
    (hw : storeWrites (some r) chunks = .ok ws) :
    ws.flatMap (fun w => sel w n) = sel r n ∧
    List.Pairwise (fun a b : List Int => ∀ x ∈ a, x ∉ b) (ws.map (fun w => sel w n)) ∧
    (ws.length = chunks.length ∧
      ∀ (b : Nat) (hb : b < chunks.length) (w : PySlice), ws[b]? = some w →
        ((sel w n).length : Int) = chunks[b] ∧
        ∀ j : Nat, (j : Int) < chunks[b] →
          (sel w n)[j]? = (sel r n)[(blockStart chunks b + j).toNat]?) ∧
    (∀ q, q ∉ sel r n → ∀ w ∈ ws, q ∉ sel w n) := by
  have h1 := store_tiles r n chunks ws hn hstep hc hlen hw
  have h2 := store_landing r n chunks ws hn hstep hc hlen hw
  refine ⟨h1.2.1, h1.2.2, h2, ?_⟩
  intro q hq w hw' hqw
  apply hq
  rw [← h1.2.1, List.mem_flatMap]
  exact ⟨w, hw', hqw⟩

end Dask.Lemmas.SourceIO
