/-
Metadata invariants of well-formed expressions: `.chunks` sums to the NumPy shape on every
axis and every axis has at least one block (structural induction).
-/
import DaskArrayModel.Lemmas.ExprShapeOps
namespace Dask.ND
open Dask.Py Dask.Py.PySlice Dask.Slicing

/-! ### unfolding the Boolean checks -/

theorem wfLayout_iff {sh : List Nat} {l : Layout} :
    wfLayout sh l = true ↔ l.map List.sum = sh ∧ NonEmptyAxes l := by
  simp [wfLayout, NonEmptyAxes, List.all_eq_true]

/-- `perm` is a permutation of `range n` -/
structure PermOK (perm : List Nat) (n : Nat) : Prop where
  len : perm.length = n
  lt : ∀ a ∈ perm, a < n
  mem : ∀ a, a < n → a ∈ perm
  nodup : perm.Nodup

theorem isPerm_ok {perm : List Nat} {n : Nat} (h : isPerm perm n = true) : PermOK perm n := by
  simp only [isPerm, Bool.and_eq_true, decide_eq_true_eq, List.all_eq_true, List.mem_range,
    List.contains_iff_mem] at h
  exact ⟨h.1.1.1, h.1.1.2, h.1.2, h.2⟩

theorem PermOK.idxOf_lt {perm : List Nat} {n : Nat} (h : PermOK perm n) {a : Nat} (ha : a < n) :
    perm.idxOf a < n := by
  have := List.idxOf_lt_length_iff.2 (h.mem a ha)
  rwa [h.len] at this

theorem PermOK.getD_idxOf {perm : List Nat} {n : Nat} (h : PermOK perm n) {a : Nat} (ha : a < n) :
    perm.getD (perm.idxOf a) 0 = a := by
  have hlt := List.idxOf_lt_length_iff.2 (h.mem a ha)
  rw [getD_eq_getElem _ _ _ hlt]
  exact List.getElem_idxOf hlt

theorem PermOK.idxOf_getD {perm : List Nat} {n : Nat} (h : PermOK perm n) {k : Nat} (hk : k < n) :
    perm.idxOf (perm.getD k 0) = k := by
  have hk' : k < perm.length := by rw [h.len]; exact hk
  rw [getD_eq_getElem _ _ _ hk']
  exact h.nodup.idxOf_getElem k hk'

theorem PermOK.getD_lt {perm : List Nat} {n : Nat} (h : PermOK perm n) {k : Nat} (hk : k < n) :
    perm.getD k 0 < n := by
  have hk' : k < perm.length := by rw [h.len]; exact hk
  rw [getD_eq_getElem _ _ _ hk']
  exact h.lt _ (List.getElem_mem hk')

/-! ### sliced chunks -/

theorem planPositions_length (cs : List Nat) : ∀ (P : List (Nat × PySlice)),
    (planPositions (toI cs) P).length = (P.map (pieceLen cs)).sum
  | [] => rfl
  | p :: ps => by
    have ih := planPositions_length cs ps
    simp only [planPositions, List.flatMap_cons, List.length_append, List.length_map,
      List.map_cons, List.sum_cons] at ih ⊢
    rw [ih]; rfl

theorem finish_ne_nil' (L : List Int) (d : List (Nat × PySlice)) : finish L d ≠ [] := by
  unfold finish
  dsimp only
  split
  · simp
  · rename_i h
    intro e
    rw [e] at h
    simp at h

theorem slice1d_ne_nil (dim : Int) (L : List Int) (hL : L ≠ []) (idx : PySlice) :
    slice1d dim L idx ≠ [] := by
  unfold slice1d
  split
  · simpa using hL
  · dsimp only
    repeat (first | exact finish_ne_nil' _ _ | split)

theorem slicePlan_ne_nil (n : Nat) (cs : List Nat) (hne : cs ≠ []) (s : PySlice) :
    slicePlan n cs s ≠ [] := by
  unfold slicePlan
  dsimp only
  have h := slice1d_ne_nil n (toI cs) (by simpa [toI] using hne) (normalizeSlice s n)
  obtain ⟨q, hq⟩ := List.exists_mem_of_ne_nil _ h
  intro e
  have := (mem_orderedPlan q (normalizeSlice s n).stp _).2 hq
  rw [e] at this
  simp at this

theorem sliceChunks1_facts (cs : List Nat) (hne : cs ≠ []) (s : PySlice) (hs : s.stp ≠ 0) (n : Nat)
    (hn : n = cs.sum) :
    (sliceChunks1 n cs s).sum = (sel s n).length ∧ sliceChunks1 n cs s ≠ [] := by
  obtain ⟨hpos, _, hch⟩ := slicePlan_facts cs hne s hs n hn
  refine ⟨?_, ?_⟩
  · rw [hch, ← planPositions_length, hpos]
  · rw [hch]
    intro e
    exact slicePlan_ne_nil n cs hne s (List.map_eq_nil_iff.mp e)

theorem sliceChunks_facts : ∀ (sh : List Nat) (cl : Layout) (idx : List Ix),
    cl.map List.sum = sh → NonEmptyAxes cl → wfIx sh idx = true →
    (sliceChunks sh cl idx).map List.sum = sliceShape sh idx ∧ NonEmptyAxes (sliceChunks sh cl idx)
  | [], [], [], _, _, _ => by simp [sliceChunks, sliceShape, NonEmptyAxes]
  | n :: ns, cs :: cl, .int k :: r, hsum, hne, hwf => by
    simp only [List.map_cons, List.cons.injEq] at hsum
    rw [wfIx_cons_int] at hwf
    simp only [sliceChunks, sliceShape]
    exact sliceChunks_facts ns cl r hsum.2 (fun c hc => hne c (List.mem_cons_of_mem _ hc)) hwf.2
  | n :: ns, cs :: cl, .slc s :: r, hsum, hne, hwf => by
    simp only [List.map_cons, List.cons.injEq] at hsum
    rw [wfIx_cons_slc] at hwf
    obtain ⟨ih1, ih2⟩ :=
      sliceChunks_facts ns cl r hsum.2 (fun c hc => hne c (List.mem_cons_of_mem _ hc)) hwf.2
    obtain ⟨f1, f2⟩ := sliceChunks1_facts cs (hne cs (by simp)) s hwf.1 n hsum.1.symm
    simp only [sliceChunks, sliceShape, List.map_cons]
    refine ⟨by rw [f1, ih1], ?_⟩
    intro c hc
    rcases List.mem_cons.mp hc with rfl | hc
    · exact f2
    · exact ih2 c hc
  | [], _ :: _, _, hsum, _, _ => by simp at hsum
  | _ :: _, [], _, hsum, _, _ => by simp at hsum
  | [], [], _ :: _, _, _, hwf => by simp [wfIx] at hwf
  | _ :: _, _ :: _, [], _, _, hwf => by simp [wfIx] at hwf

/-! ### the invariant -/

theorem sum_getD_of_map_sum {l : Layout} {sh : List Nat} (h : l.map List.sum = sh) (k : Nat) :
    (l.getD k []).sum = sh.getD k 0 := by
  subst h
  by_cases hk : k < l.length
  · rw [getD_map List.sum l k [] 0 hk]
  · rw [getD_of_ge _ _ _ (by omega), getD_of_ge _ _ _ (by simp; omega)]; rfl

theorem length_of_map_sum {l : Layout} {sh : List Nat} (h : l.map List.sum = sh) :
    l.length = sh.length := by
  subst h; simp

theorem NonEmptyAxes.getD {l : Layout} (h : NonEmptyAxes l) (k : Nat) (hk : k < l.length) :
    l.getD k [] ≠ [] := by
  rw [getD_eq_getElem _ _ _ hk]
  exact h _ (List.getElem_mem hk)

theorem map_insertIdx' {α β} (f : α → β) : ∀ (l : List α) (ax : Nat) (x : α),
    (l.insertIdx ax x).map f = (l.map f).insertIdx ax (f x)
  | l, 0, x => by simp
  | [], ax + 1, x => by simp
  | a :: l, ax + 1, x => by
    simp only [List.insertIdx_succ_cons, List.map_cons, map_insertIdx' f l ax x]

theorem map_eraseIdx' {α β} (f : α → β) : ∀ (l : List α) (ax : Nat),
    (l.eraseIdx ax).map f = (l.map f).eraseIdx ax
  | [], _ => by simp
  | a :: l, 0 => by simp
  | a :: l, ax + 1 => by
    simp only [List.eraseIdx_cons_succ, List.map_cons, map_eraseIdx' f l ax]

/-- `.chunks` sums to the shape on every axis, and every axis has at least one block -/
theorem meta_ok : ∀ (e : Expr), WF e →
    (chunks e).map List.sum = shape e ∧ NonEmptyAxes (chunks e)
  | .src _ sh ch, h => by
    simp only [WF, wf] at h
    exact wfLayout_iff.mp h
  | .map _ e, h => by
    simp only [WF, wf] at h
    exact meta_ok e h
  | .zip _ a b, h => by
    simp only [WF, wf, Bool.and_eq_true, decide_eq_true_eq] at h
    exact meta_ok a h.1.1.1
  | .slice e idx, h => by
    simp only [WF, wf, Bool.and_eq_true] at h
    obtain ⟨i1, i2⟩ := meta_ok e h.1
    exact sliceChunks_facts (shape e) (chunks e) idx i1 i2 h.2
  | .transpose e perm, h => by
    simp only [WF, wf, Bool.and_eq_true] at h
    obtain ⟨i1, i2⟩ := meta_ok e h.1
    have hp := isPerm_ok h.2
    have hlen := length_of_map_sum i1
    simp only [chunks, shape]
    refine ⟨?_, ?_⟩
    · rw [List.map_map]
      apply List.map_congr_left
      intro a _
      exact sum_getD_of_map_sum i1 a
    · intro c hc
      simp only [List.mem_map] at hc
      obtain ⟨a, ha, rfl⟩ := hc
      exact i2.getD a (by rw [hlen]; exact hp.lt a ha)
  | .rechunk e l, h => by
    simp only [WF, wf, Bool.and_eq_true] at h
    exact wfLayout_iff.mp h.2
  | .concat a b ax, h => by
    simp only [WF, wf, Bool.and_eq_true, decide_eq_true_eq] at h
    obtain ⟨⟨⟨⟨ha, hb⟩, hax⟩, _⟩, _⟩ := h
    obtain ⟨a1, a2⟩ := meta_ok a ha
    obtain ⟨b1, _⟩ := meta_ok b hb
    have hlen := length_of_map_sum a1
    simp only [chunks, shape]
    refine ⟨?_, ?_⟩
    · rw [List.map_set, a1, List.sum_append, sum_getD_of_map_sum a1, sum_getD_of_map_sum b1]
    · intro c hc
      rcases List.mem_or_eq_of_mem_set hc with hc | rfl
      · exact a2 c hc
      · intro e
        have := a2.getD ax (by rw [hlen]; exact hax)
        exact this (List.append_eq_nil_iff.mp e).1
  | .expandDims e ax, h => by
    simp only [WF, wf, Bool.and_eq_true, decide_eq_true_eq] at h
    obtain ⟨i1, i2⟩ := meta_ok e h.1
    have hlen := length_of_map_sum i1
    simp only [chunks, shape]
    refine ⟨by rw [map_insertIdx', i1]; rfl, ?_⟩
    intro c hc
    rcases (List.mem_insertIdx (by rw [hlen]; exact h.2)).mp hc with rfl | hc
    · simp
    · exact i2 c hc
  | .squeeze e ax, h => by
    simp only [WF, wf, Bool.and_eq_true, decide_eq_true_eq] at h
    obtain ⟨i1, i2⟩ := meta_ok e h.1.1
    simp only [chunks, shape]
    refine ⟨by rw [map_eraseIdx', i1], ?_⟩
    intro c hc
    exact i2 c (List.mem_of_mem_eraseIdx hc)
  | .broadcastTo e sh l, h => by
    simp only [WF, wf, Bool.and_eq_true, decide_eq_true_eq] at h
    exact wfLayout_iff.mp h.1.1.2
  | .reduce r e ax k, h => by
    simp only [WF, wf, Bool.and_eq_true, decide_eq_true_eq] at h
    obtain ⟨i1, i2⟩ := meta_ok e h.1.1.1
    simp only [chunks, shape]
    refine ⟨by rw [List.map_set, i1]; rfl, ?_⟩
    intro c hc
    rcases List.mem_or_eq_of_mem_set hc with hc | rfl
    · exact i2 c hc
    · simp
  | .cumsum e ax, h => by
    simp only [WF, wf, Bool.and_eq_true, decide_eq_true_eq] at h
    exact meta_ok e h.1
  | .mapBlocks _ e, h => by
    simp only [WF, wf] at h
    exact meta_ok e h

end Dask.ND
