/-
Phase 3: the refinement theorem of the second-layer language `Expr2` (Model/Expr2.lean): for every
well-formed expression and every valid block index the value the task computes (`blockDen2`) is the
block of the NumPy meaning (`den2`) on the extent advertised by `.chunks` (`chunks2`).  Induction on
`Expr2`; the base case and the context of `node` are phase 1's `blockDen_correct`.
-/
import DaskArrayModel.Lemmas.Expr2Swv
namespace Dask.ND
open Dask.Py Dask.Py.PySlice Dask.Slicing Dask.Reduce

/-! ### metadata invariants -/

theorem nonEmptyAxes_set {l : Layout} {ax : Nat} {oc : List Nat} (h : NonEmptyAxes l) (hoc : oc ≠ []) :
    NonEmptyAxes (l.set ax oc) := by
  intro c hc
  rcases List.mem_or_eq_of_mem_set hc with hc | rfl
  · exact h c hc
  · exact hoc

theorem wf2_take_idx {e : Expr2} {ax : Nat} {idx : List Int}
    (h : idx.all (fun k => decide (-(((shape2 e).getD ax 0 : Nat) : Int) ≤ k ∧ k < (((shape2 e).getD ax 0 : Nat) : Int))) = true) :
    ∀ k ∈ idx, -(((shape2 e).getD ax 0 : Nat) : Int) ≤ k ∧ k < (((shape2 e).getD ax 0 : Nat) : Int) := by
  intro k hk
  have := List.all_eq_true.mp h k hk
  simpa using this

theorem meta2_ok : ∀ (e : Expr2), WF2 e →
    (chunks2 e).map List.sum = shape2 e ∧ NonEmptyAxes (chunks2 e)
  | .base e, h => meta_ok e h
  | .node e a b, h => by
    simp only [WF2, wf2, Bool.and_eq_true] at h
    exact meta_ok e h.1.2
  | .zipB f a b, h => by
    simp only [WF2, wf2, Bool.and_eq_true] at h
    obtain ⟨_, a2⟩ := meta2_ok a h.1.1.1
    obtain ⟨_, b2⟩ := meta2_ok b h.1.1.2
    exact ⟨rfl, zipBLayout_nonempty _ _ a2 b2⟩
  | .take e ax idx, h => by
    simp only [WF2, wf2, Bool.and_eq_true, decide_eq_true_eq] at h
    obtain ⟨⟨hwe, hax⟩, hidx⟩ := h
    obtain ⟨m1, m2⟩ := meta2_ok e hwe
    have haxc : ax < (chunks2 e).length := by rw [length_of_map_sum m1]; exact hax
    have hn : ((chunks2 e).getD ax []).sum = (shape2 e).getD ax 0 := sum_getD_of_map_sum m1 ax
    have hidx' := wf2_take_idx hidx
    rw [← hn] at hidx'
    obtain ⟨hflat, hne⟩ := takeGroups_spec _ ((chunks2 e).getD ax []) idx rfl (m2.getD ax haxc) hidx'
    refine ⟨?_, nonEmptyAxes_set m2 (by simpa using hne)⟩
    simp only [chunks2, shape2]
    rw [List.map_set, m1, sum_map_length_flatten, hflat, List.length_map]
  | .swvReduce r e w ax, h => by
    simp only [WF2, wf2, Bool.and_eq_true, decide_eq_true_eq, List.all_eq_true] at h
    obtain ⟨⟨⟨hwe, hax⟩, hw⟩, hall⟩ := h
    obtain ⟨m1, m2⟩ := meta2_ok e hwe
    have haxc : ax < (chunks2 e).length := by rw [length_of_map_sum m1]; exact hax
    have hne := m2.getD ax haxc
    have hn : ((chunks2 e).getD ax []).sum = (shape2 e).getD ax 0 := sum_getD_of_map_sum m1 ax
    refine ⟨?_, nonEmptyAxes_set m2 ?_⟩
    · simp only [chunks2, shape2]
      rw [List.map_set, m1, swvChunks_sum _ w hne hw hall, hn]
    · intro he
      have := swvChunks_length ((chunks2 e).getD ax []) w hne
      rw [he] at this
      exact hne (List.length_eq_zero_iff.mp this.symm)

/-! ### the refinement theorem of the second layer -/

theorem envOK_withHoles {env : Env} (h : EnvOK env) (x y : Arr Int) : EnvOK (env.withHoles x y) := h

theorem compute2_of_blockOK (env : Env) (e : Expr2) (m1 : (chunks2 e).map List.sum = shape2 e)
    (h : BlockOK2 env e) : Arr.Equiv (compute2 env e) (den2 env e) :=
  assemble_of_blocks (den2 env e) (chunks2 e) _ (by rw [den2_shape]; exact m1) h

theorem holes_agree (env : Env) (e : Expr) (a b : Expr2) (hh : holesOK a b e = true)
    (ha : Arr.Equiv (compute2 env a) (den2 env a)) (hb : Arr.Equiv (compute2 env b) (den2 env b))
    (ma : (chunks2 a).map List.sum = shape2 a) (mb : (chunks2 b).map List.sum = shape2 b) :
    SrcAgree (env.withHoles (compute2 env a) (compute2 env b))
      (env.withHoles (den2 env a) (den2 env b)) e := by
  intro p hp i hi
  have := List.all_eq_true.mp hh p hp
  simp only [Bool.and_eq_true, Bool.or_eq_true, bne_iff_ne, ne_eq, decide_eq_true_eq] at this
  obtain ⟨h1, h2⟩ := this
  simp only [Env.withHoles]
  by_cases hA : p.1 = holeA
  · rw [if_pos hA, if_pos hA]
    rcases h1 with h1 | h1
    · exact absurd hA h1
    · apply ha.2 i
      show InB i ((chunks2 a).map List.sum)
      rw [ma, ← h1.1]; exact hi
  · rw [if_neg hA, if_neg hA]
    by_cases hB : p.1 = holeB
    · rw [if_pos hB, if_pos hB]
      rcases h2 with h2 | h2
      · exact absurd hB h2
      · apply hb.2 i
        show InB i ((chunks2 b).map List.sum)
        rw [mb, ← h2.1]; exact hi
    · rw [if_neg hB, if_neg hB]

theorem blockDen2_correct (env : Env) (henv : EnvOK env) : ∀ (e : Expr2), WF2 e → BlockOK2 env e
  | .base e, h => blockDen_correct env henv e h
  | .node e a b, h => by
    have h' := h
    simp only [WF2, wf2, Bool.and_eq_true] at h'
    obtain ⟨⟨⟨hwa, hwb⟩, hwe⟩, hh⟩ := h'
    have iha := blockDen2_correct env henv a hwa
    have ihb := blockDen2_correct env henv b hwb
    obtain ⟨ma, _⟩ := meta2_ok a hwa
    obtain ⟨mb, _⟩ := meta2_ok b hwb
    obtain ⟨me, _⟩ := meta_ok e hwe
    have ca := compute2_of_blockOK env a ma iha
    have cb := compute2_of_blockOK env b mb ihb
    intro bid hbid
    have hbid' : validBid (chunks e) bid := hbid
    have h1 := blockDen_correct (env.withHoles (compute2 env a) (compute2 env b))
      (envOK_withHoles henv _ _) e hwe bid hbid'
    refine Arr.Equiv.trans h1 ?_
    show Arr.Equiv (restrict ⟨shape e, denGet (env.withHoles (compute2 env a) (compute2 env b)) e⟩
        (extent (chunks e) bid))
      (restrict ⟨shape e, denGet (env.withHoles (den2 env a) (den2 env b)) e⟩ (extent (chunks e) bid))
    apply restrict_congr _ _ _ _ _ me hbid'
    intro g hg
    exact denGet_congr (env.withHoles (compute2 env a) (compute2 env b))
      (env.withHoles (den2 env a) (den2 env b)) rfl rfl rfl (envOK_withHoles henv _ _) e hwe
      (holes_agree env e a b hh ca cb ma mb) g hg
  | .zipB f a b, h => by
    have h' := h
    simp only [WF2, wf2, Bool.and_eq_true] at h'
    obtain ⟨⟨⟨hwa, hwb⟩, hA⟩, hB⟩ := h'
    obtain ⟨ma, na⟩ := meta2_ok a hwa
    obtain ⟨mb, nb⟩ := meta2_ok b hwb
    exact zipB_block env f a b hA hB ma na mb nb (blockDen2_correct env henv a hwa)
      (blockDen2_correct env henv b hwb)
  | .take e ax idx, h => by
    have h' := h
    simp only [WF2, wf2, Bool.and_eq_true, decide_eq_true_eq] at h'
    obtain ⟨⟨hwe, hax⟩, hidx⟩ := h'
    obtain ⟨m1, m2⟩ := meta2_ok e hwe
    exact take_block env e ax idx m1 m2 hax (wf2_take_idx hidx) (blockDen2_correct env henv e hwe)
  | .swvReduce r e w ax, h => by
    have h' := h
    simp only [WF2, wf2, Bool.and_eq_true, decide_eq_true_eq, List.all_eq_true] at h'
    obtain ⟨⟨⟨hwe, hax⟩, hw⟩, hall⟩ := h'
    obtain ⟨m1, m2⟩ := meta2_ok e hwe
    exact swv_block env r e w ax m1 m2 hax hw hall (blockDen2_correct env henv e hwe)

/-- assembling all computed blocks gives the NumPy meaning -/
theorem compute2_eq_den2 (env : Env) (henv : EnvOK env) (e : Expr2) (h : WF2 e) :
    Arr.Equiv (compute2 env e) (den2 env e) :=
  compute2_of_blockOK env e (meta2_ok e h).1 (blockDen2_correct env henv e h)

/-- every computed block has the advertised shape -/
theorem block_shape2 (env : Env) (henv : EnvOK env) (e : Expr2) (h : WF2 e) (bid : List Nat)
    (hb : validBid (chunks2 e) bid) : (blockDen2 env e bid).shape = blockShape (chunks2 e) bid :=
  (blockDen2_correct env henv e h bid hb).1

end Dask.ND
