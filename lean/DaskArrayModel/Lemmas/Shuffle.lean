/-
Proofs for Model/Shuffle.lean: one output chunk of `Shuffle._layer` computes `x[taker]` (`planChunk_correct`).
Core Lean only.
-/
import DaskArrayModel.Lemmas.ShuffleBase
namespace Dask.Lemmas.Shuffle
open Dask.Py Dask.Slicing Dask.Indexing Dask.Shuffle

theorem map_getD_range {α} (l : List α) (d : α) : (List.range l.length).map (fun j => l.getD j d) = l := by
  apply List.ext_getElem
  · simp
  · intro i h1 h2
    simp at h1
    simp [List.getD_eq_getElem?_getD, h1]

theorem getD_map_natCast (s : List Nat) (j : Nat) :
    (s.map Int.ofNat).getD j 0 = ((s.getD j 0 : Nat) : Int) := by
  simp only [List.getD_eq_getElem?_getD, List.getElem?_map]
  cases s[j]? <;> simp

/-- `np.argsort` of a permutation of `range n` is its inverse. -/
theorem inv_map_eq_range {s : List Nat} {n : Nat} (hs : s.Perm (List.range n)) {inv : List Nat}
    (hi : IsArgsort (s.map Int.ofNat) inv) : inv.map (fun i => s.getD i 0) = List.range n := by
  have hlen : s.length = n := by simpa using hs.length_eq
  have hiperm : inv.Perm (List.range n) := by simpa [hlen] using hi.1
  have h1 : (inv.map (fun i => s.getD i 0)).Perm (List.range n) := by
    refine (hiperm.map _).trans ?_
    rw [← hlen, map_getD_range]; rw [hlen]; exact hs
  have h2 : (inv.map (fun i => s.getD i 0)).Pairwise (· ≤ ·) := by
    have := hi.2
    simp only [getD_map_natCast] at this
    rw [List.pairwise_map] at this ⊢
    exact this.imp (fun h => by omega)
  have h3 : (List.range n).Pairwise (· ≤ ·) := List.pairwise_lt_range.imp (fun h => by omega)
  exact List.Perm.eq_of_pairwise (le := (· ≤ ·)) (fun a b _ _ h h' => by omega) h2 h3 h1

theorem mapM_some {α β} {f : α → Option β} {g : α → β} : ∀ (l : List α),
    (∀ a ∈ l, f a = some (g a)) → l.mapM f = some (l.map g)
  | [], _ => by simp
  | a :: l, h => by
    rw [List.mapM_cons, h a (by simp), mapM_some l (fun b hb => h b (List.mem_cons_of_mem _ hb))]
    rfl

theorem pairsEnd_length : ∀ (rs : List Nat) (L : Nat), (pairsEnd rs L).length = rs.length
  | [], _ => rfl
  | [a], _ => rfl
  | a :: b :: r, L => by simp [pairsEnd, pairsEnd_length (b :: r) L]

theorem mapM_map_some {α β γ} (h : α → β) (f : β → Option γ) (g : α → γ) : ∀ l : List α,
    (∀ a ∈ l, f (h a) = some (g a)) → (l.map h).mapM f = some (l.map g)
  | [], _ => by simp
  | a :: l, hh => by
    rw [List.map_cons, List.mapM_cons, hh a (by simp),
      mapM_map_some h f g l (fun b hb => hh b (List.mem_cons_of_mem _ hb))]
    rfl

theorem getD_map_lt {α β} (f : α → β) (l : List α) (i : Nat) (h : i < l.length) (d : α) (d' : β) :
    (l.map f).getD i d' = f (l.getD i d) := by
  simp [List.getD_eq_getElem?_getD, List.getElem?_eq_getElem h]

theorem getD_mem_lt {α} (l : List α) (i : Nat) (h : i < l.length) (d : α) : l.getD i d ∈ l := by
  simp [List.getD_eq_getElem?_getD, List.getElem?_eq_getElem h]

theorem mapM_some_mem {α β} {f : α → Option β} : ∀ (l : List α) (r : List β),
    l.mapM f = some r → ∀ a ∈ l, ∃ b, f a = some b
  | [], _, _, a, h => by simp at h
  | a :: l, r, h, b, hb => by
    rw [List.mapM_cons] at h
    cases hfa : f a with
    | none => simp [hfa] at h
    | some v =>
      cases hr : l.mapM f with
      | none => simp [hfa, hr] at h
      | some r' =>
        rcases List.mem_cons.mp hb with rfl | hb
        · exact ⟨v, hfa⟩
        · exact mapM_some_mem l r' hr b hb

theorem foldl_max_ge : ∀ (cs : List Int) (init : Int),
    init ≤ cs.foldl max init ∧ ∀ c ∈ cs, c ≤ cs.foldl max init
  | [], init => by simp
  | a :: cs, init => by
    have := foldl_max_ge cs (max init a)
    simp only [List.foldl_cons, List.mem_cons]
    refine ⟨by omega, ?_⟩
    intro c hc
    rcases hc with rfl | hc
    · omega
    · exact this.2 c hc

theorem getD_le_maxChunk (cs : List Int) (c : Nat) (hc : c < cs.length) : cs.getD c 0 ≤ maxChunk cs := by
  apply (foldl_max_ge cs 0).2
  rw [List.getD_eq_getElem?_getD, List.getElem?_eq_getElem hc]
  simp

theorem bisectRight_mono : ∀ (l : List Int) {x y : Int}, x ≤ y → bisectRight l x ≤ bisectRight l y
  | [], _, _, _ => by simp [bisectRight]
  | a :: l, x, y, h => by
    unfold bisectRight
    have := bisectRight_mono l h
    split <;> split <;> omega

/-- the block `np.searchsorted(cumsum, p, side="right")` names holds `p`. -/
theorem block_facts (cs : List Int) (hcs : ChunksOK cs) (p : Int) (h0 : 0 ≤ p) (h1 : p < isum cs) :
    bisectRight (cumsum cs) p < cs.length ∧
    (if bisectRight (cumsum cs) p > 0 then (cumsum cs).getD (bisectRight (cumsum cs) p - 1) 0 else 0)
      = blockStart cs (bisectRight (cumsum cs) p) ∧
    0 ≤ p - blockStart cs (bisectRight (cumsum cs) p) ∧
    p - blockStart cs (bisectRight (cumsum cs) p) < cs.getD (bisectRight (cumsum cs) p) 0 := by
  have h := Dask.Lemmas.Indexing.slice1dInt_spec cs p hcs h0 h1
  have hle := Slice1dPos.bisectRight_le (cumsum cs) p
  rw [Slice1dPos.cumsum_length] at hle
  have hoff := Slice1dPos.off_eq cs (bisectRight (cumsum cs) p) hle
  simp only [slice1dInt] at h
  refine ⟨h.1, hoff, ?_, ?_⟩ <;> omega


/-! ### one output chunk -/

section chunk
variable (argsort : List Int → List Nat) (hA : ∀ l, IsArgsort l (argsort l))
variable (cs : List Int) (hcs : ChunksOK cs) (taker : List Int) (hne : taker ≠ [])
variable (hin : ∀ p ∈ taker, 0 ≤ p ∧ p < isum cs) (hlen : (taker.length : Int) ≤ maxChunk cs)

/-- `taker[sorter]`. -/
def sortedOf : List Int := (argsort taker).map (fun j => taker.getD j 0)
/-- the source block of every sorted position. -/
def blocksS : List Int := (sortedOf argsort taker).map (fun p => ((bisectRight (cumsum cs) p : Nat) : Int))

include hA in
theorem sortedOf_length : (sortedOf argsort taker).length = taker.length := by
  simp [sortedOf, (IsArgsort.length (hA taker))]

include hA in
theorem sortedOf_mem : ∀ p ∈ sortedOf argsort taker, p ∈ taker := by
  intro p hp
  rcases List.mem_map.mp hp with ⟨j, hj, rfl⟩
  have := IsArgsort.lt (hA taker) j hj
  rw [List.getD_eq_getElem?_getD, List.getElem?_eq_getElem this]
  simp

include hA in
theorem blocksS_sorted : (blocksS argsort cs taker).Pairwise (· ≤ ·) := by
  unfold blocksS
  rw [List.pairwise_map]
  exact (hA taker).2.imp (fun h => by
    have := bisectRight_mono (cumsum cs) h; omega)

theorem npUnique_of_sorted {B : List Int} (h : B.Pairwise (· ≤ ·)) :
    npUnique B = (runStarts B).map (fun j => (B.getD j 0, j)) := by
  unfold npUnique
  simp only [argsortStable_of_sorted h, map_getD_range]
  apply List.map_congr_left
  intro j hj
  have := runStarts_lt B j hj
  simp [List.getD_eq_getElem?_getD, this]

include hA hlen in
theorem sorter_wrap :
    (argsort taker).map (fun (j : Nat) => wrapU (minScalarBits (max (maxChunk cs) (maxChunk cs))) (j : Int))
      = (argsort taker).map Int.ofNat := by
  apply List.map_congr_left
  intro j hj
  have := IsArgsort.lt (hA taker) j hj
  exact wrapU_id (by omega) (by omega)


/-- the per-block offsets of one boundary pair, as the code writes them. -/
def offsOf (ab : Nat × Nat) : List Int :=
  (pySlice (sortedOf argsort taker) ab.1 ab.2).map (fun p =>
    wrapU (minScalarBits (max (maxChunk cs) (maxChunk cs)))
      (p - (if ((blocksS argsort cs taker).getD ab.1 0).toNat > 0 then
        (cumsum cs).getD (((blocksS argsort cs taker).getD ab.1 0).toNat - 1) 0 else 0)))

def piecesOf : List (Nat × List Int) :=
  (pairsEnd (runStarts (blocksS argsort cs taker)) taker.length).map (fun ab =>
    (((blocksS argsort cs taker).getD ab.1 0).toNat,
      if (runStarts (blocksS argsort cs taker)).length = 1 then
        (invOf argsort ((argsort taker).map Int.ofNat)).map (fun i => (offsOf argsort cs taker ab).getD i 0)
      else offsOf argsort cs taker ab))

include hA hlen in
theorem planChunk_form :
    planChunk argsort cs taker =
      if (piecesOf argsort cs taker).isEmpty then .error .notImplemented
      else .ok ⟨(argsort taker).map Int.ofNat, piecesOf argsort cs taker,
        decide ((piecesOf argsort cs taker).length > 1)⟩ := by
  have e1 := sorter_wrap argsort hA cs taker hlen
  have e2 : ((argsort taker).map Int.ofNat).map (fun j => taker.getD j.toNat 0) = sortedOf argsort taker := by
    simp [sortedOf]
  have e3 := npUnique_of_sorted (blocksS_sorted argsort hA cs taker)
  unfold planChunk
  simp only [e1, e2]
  unfold blocksS at e3
  have e4 : ∀ (f : Nat → Int) (l : List Nat), l.map ((fun x : Int × Nat => x.snd) ∘ fun j => (f j, j)) = l := by
    intro f l; simp [Function.comp_def]
  have e5 : ∀ (f : Nat → Int) (l : List Nat), l.map ((fun x : Int × Nat => x.fst) ∘ fun j => (f j, j)) = l.map f := by
    intro f l; simp [Function.comp_def]
  simp only [e3, List.map_map, List.length_map, e4, e5, zip3_pairsEnd]
  unfold piecesOf offsOf blocksS
  simp only [Function.comp_def, List.length_map]


theorem mem_pySlice {S : List Int} {a b : Nat} {p : Int} (h : p ∈ pySlice S a b) :
    ∃ j, a ≤ j ∧ j < b ∧ j < S.length ∧ S.getD j 0 = p := by
  unfold pySlice at h
  rcases List.mem_iff_getElem.mp h with ⟨i, hi, he⟩
  simp only [List.length_take, List.length_drop] at hi
  refine ⟨a + i, by omega, by omega, by omega, ?_⟩
  rw [List.getD_eq_getElem?_getD, List.getElem?_eq_getElem (by omega)]
  simpa [List.getElem_take, List.getElem_drop] using he

theorem pySlice_full {α} (S : List α) : pySlice S 0 S.length = S := by simp [pySlice]

include hA in
theorem blocksS_length : (blocksS argsort cs taker).length = taker.length := by
  simp [blocksS, sortedOf_length argsort hA taker]

include hA hcs hin in
/-- every position of a piece lies in the piece's source block, and the task reads it there. -/
theorem piece_read {α} (x : Int → α) :
    ∀ ab ∈ pairsEnd (runStarts (blocksS argsort cs taker)) taker.length,
      ∀ p ∈ pySlice (sortedOf argsort taker) ab.1 ab.2,
        readBlock cs x ((blocksS argsort cs taker).getD ab.1 0).toNat
          (wrapU (minScalarBits (max (maxChunk cs) (maxChunk cs)))
            (p - (if ((blocksS argsort cs taker).getD ab.1 0).toNat > 0 then
              (cumsum cs).getD (((blocksS argsort cs taker).getD ab.1 0).toNat - 1) 0 else 0))) = some (x p) := by
  intro ab hab p hp
  have hBl := blocksS_length argsort hA cs taker
  have hSl := sortedOf_length argsort hA taker
  rcases mem_pySlice hp with ⟨j, hj1, hj2, hj3, rfl⟩
  have hrc := run_const (blocksS argsort cs taker)
  rw [hBl] at hrc
  have hc := hrc ab hab j hj1 hj2
  have hBj : (blocksS argsort cs taker).getD j 0 =
      ((bisectRight (cumsum cs) ((sortedOf argsort taker).getD j 0) : Nat) : Int) := by
    unfold blocksS
    simp only [List.getD_eq_getElem?_getD, List.getElem?_map, List.getElem?_eq_getElem hj3]
    simp
  rw [← hc, hBj, Int.toNat_natCast]
  have hmem : (sortedOf argsort taker).getD j 0 ∈ taker := by
    apply sortedOf_mem argsort hA taker
    rw [List.getD_eq_getElem?_getD, List.getElem?_eq_getElem hj3]; simp
  have hb := hin _ hmem
  have bf := block_facts cs hcs _ hb.1 hb.2
  rw [bf.2.1]
  have hmx := getD_le_maxChunk cs _ bf.1
  rw [wrapU_id bf.2.2.1 (by omega)]
  unfold readBlock
  rw [if_pos ⟨bf.1, bf.2.2.1, bf.2.2.2⟩]
  congr 2; omega


include hA in
/-- un-sorting: `taker[sorter][argsort(sorter)] = taker`. -/
theorem unsort :
    (invOf argsort ((argsort taker).map Int.ofNat)).map (fun i => (sortedOf argsort taker).getD i 0) = taker := by
  have hinv := hA ((argsort taker).map Int.ofNat)
  have hr := inv_map_eq_range (hA taker).1 hinv
  have hl := IsArgsort.length (hA taker)
  have : (invOf argsort ((argsort taker).map Int.ofNat)).map (fun i => (sortedOf argsort taker).getD i 0)
      = ((invOf argsort ((argsort taker).map Int.ofNat)).map (fun i => (argsort taker).getD i 0)).map
          (fun j => taker.getD j 0) := by
    rw [List.map_map]
    apply List.map_congr_left
    intro i hi
    have hi' : i < (argsort taker).length := by
      have := IsArgsort.lt hinv i hi
      simpa using this
    unfold sortedOf
    simp [List.getD_eq_getElem?_getD, List.getElem?_map, List.getElem?_eq_getElem hi']
  rw [this]
  unfold invOf
  rw [hr, map_getD_range]

include hA hcs hne hin hlen in
theorem planChunk_correct {α} (x : Int → α) :
    ∃ p, planChunk argsort cs taker = .ok p ∧ evalPlan argsort cs x p = some (taker.map x) := by
  have hBl := blocksS_length argsort hA cs taker
  have hSl := sortedOf_length argsort hA taker
  have hBne : blocksS argsort cs taker ≠ [] := by
    intro h; rw [h] at hBl; simp at hBl
    exact hne (List.length_eq_zero_iff.mp hBl.symm)
  have hhead := runStarts_head _ hBne
  have hpw := runStarts_pairwise (blocksS argsort cs taker)
  have hlt := runStarts_lt (blocksS argsort cs taker)
  rw [hBl] at hhead hlt
  have hread := piece_read argsort hA cs hcs taker hin x
  have hun := unsort argsort hA taker
  have hinvlt : ∀ i ∈ invOf argsort ((argsort taker).map Int.ofNat), i < taker.length := by
    intro i hi
    have := IsArgsort.lt (hA ((argsort taker).map Int.ofNat)) i hi
    simpa [IsArgsort.length (hA taker)] using this
  have hfull : pySlice (sortedOf argsort taker) 0 taker.length = sortedOf argsort taker := by
    rw [← hSl, pySlice_full]
  have hunx : (invOf argsort ((argsort taker).map Int.ofNat)).map
      (fun i => x ((sortedOf argsort taker).getD i 0)) = taker.map x := by
    have := congrArg (List.map x) hun
    rw [List.map_map] at this
    exact this
  rw [planChunk_form argsort hA cs taker hlen]
  -- the pieces are never empty
  cases hrs : runStarts (blocksS argsort cs taker) with
  | nil =>
    rw [hrs] at hhead
    simp at hhead
    exact absurd hhead hne
  | cons a r =>
    rw [hrs] at hhead hpw hlt
    simp at hhead
    subst hhead
    cases r with
    | nil =>
      -- one source block: the single task is the output chunk
      have hp : piecesOf argsort cs taker =
          [(((blocksS argsort cs taker).getD 0 0).toNat,
            (invOf argsort ((argsort taker).map Int.ofNat)).map
              (fun i => (offsOf argsort cs taker (0, taker.length)).getD i 0))] := by
        simp [piecesOf, hrs, pairsEnd]
      rw [hp]
      simp only [List.isEmpty_cons, Bool.false_eq_true, ↓reduceIte]
      refine ⟨_, rfl, ?_⟩
      have hr0 := hread (0, taker.length) (by simp [hrs, pairsEnd])
      have hoffs : offsOf argsort cs taker (0, taker.length) = (sortedOf argsort taker).map (fun p =>
              wrapU (minScalarBits (max (maxChunk cs) (maxChunk cs)))
                (p - (if ((blocksS argsort cs taker).getD 0 0).toNat > 0 then
                  (cumsum cs).getD (((blocksS argsort cs taker).getD 0 0).toNat - 1) 0 else 0))) := by
        unfold offsOf
        simp only [hfull]
      have hm : ((invOf argsort ((argsort taker).map Int.ofNat)).map
              (fun i => (offsOf argsort cs taker (0, taker.length)).getD i 0)).mapM
            (readBlock cs x ((blocksS argsort cs taker).getD 0 0).toNat)
          = some ((invOf argsort ((argsort taker).map Int.ofNat)).map
              (fun i => x ((sortedOf argsort taker).getD i 0))) := by
        apply mapM_map_some
        intro i hi
        have hi' : i < (sortedOf argsort taker).length := by rw [hSl]; exact hinvlt i hi
        rw [hoffs, getD_map_lt _ _ _ hi' 0]
        exact hr0 _ (by rw [hfull]; exact getD_mem_lt _ _ hi' _)
      have hmm : ∀ (c : Nat) (o : List Int) (v : List α), o.mapM (readBlock cs x c) = some v →
          [(c, o)].mapM (fun q => q.2.mapM (readBlock cs x q.1)) = some [v] := by
        intro c o v h
        rw [List.mapM_cons, List.mapM_nil]
        simp only [h]
        rfl
      simp only [evalPlan]
      rw [hmm _ _ _ hm]
      simpa using hunx
    | cons b r =>
      have hn1 : ¬ (runStarts (blocksS argsort cs taker)).length = 1 := by rw [hrs]; simp
      have hp : piecesOf argsort cs taker =
          (pairsEnd (runStarts (blocksS argsort cs taker)) taker.length).map (fun ab =>
            (((blocksS argsort cs taker).getD ab.1 0).toNat, offsOf argsort cs taker ab)) := by
        unfold piecesOf
        simp only [if_neg hn1]
      have hlen2 : (piecesOf argsort cs taker).length > 1 := by
        rw [hp, hrs]; simp [pairsEnd_length]
      have hne2 : (piecesOf argsort cs taker).isEmpty = false := by
        cases h : piecesOf argsort cs taker with
        | nil => rw [h] at hlen2; simp at hlen2
        | cons _ _ => rfl
      simp only [hne2, Bool.false_eq_true, ↓reduceIte, hlen2, decide_true]
      refine ⟨_, rfl, ?_⟩
      simp only [evalPlan]
      have hm : (piecesOf argsort cs taker).mapM (fun q => q.2.mapM (readBlock cs x q.1)) =
          some ((pairsEnd (runStarts (blocksS argsort cs taker)) taker.length).map
            (fun ab => (pySlice (sortedOf argsort taker) ab.1 ab.2).map x)) := by
        rw [hp]
        apply mapM_map_some
        intro ab hab
        simp only [offsOf]
        apply mapM_map_some
        exact hread ab hab
      rw [hm]
      simp only [↓reduceIte]
      have hfl : ((pairsEnd (runStarts (blocksS argsort cs taker)) taker.length).map
            (fun ab => (pySlice (sortedOf argsort taker) ab.1 ab.2).map x)).flatten
          = (sortedOf argsort taker).map x := by
        have := pairsEnd_flatten (sortedOf argsort taker) (runStarts (blocksS argsort cs taker)) taker.length
          (by rw [hrs]; exact hpw) (by rw [hrs]; intro a ha; exact Nat.le_of_lt (hlt a ha))
        rw [hrs] at this ⊢
        simp only [List.headD_cons, hfull] at this
        have e : (fun ab : Nat × Nat => List.map x (pySlice (sortedOf argsort taker) ab.1 ab.2)) =
            List.map x ∘ (fun ab : Nat × Nat => pySlice (sortedOf argsort taker) ab.1 ab.2) := rfl
        rw [e, ← List.map_map, ← List.map_flatten, this]
      rw [hfl]
      unfold takeList
      have : (invOf argsort ((argsort taker).map Int.ofNat)).mapM (fun i => ((sortedOf argsort taker).map x)[i]?)
          = some ((invOf argsort ((argsort taker).map Int.ofNat)).map
              (fun i => x ((sortedOf argsort taker).getD i 0))) := by
        apply mapM_some
        intro i hi
        have hi' : i < (sortedOf argsort taker).length := by rw [hSl]; exact hinvlt i hi
        simp [List.getD_eq_getElem?_getD, List.getElem?_eq_getElem hi']
      rw [this, hunx]

end chunk
end Dask.Lemmas.Shuffle
