/-
The slice pushdown (`_accept_slice`, exact path): unpacking the gate, the slice as a re-indexing (`sliceR`),
and the theorem for basic indices.
-/
import DaskArrayModel.Lemmas.BlockwiseGateCore
import DaskArrayModel.Lemmas.BlockwiseGateIndex
namespace Dask.BWG
open Dask.Py Dask.Py.PySlice Dask.ND Dask.Slicing Dask.Contract

/-! ### a tuple of slices is a re-indexing -/

theorem sliceArr_eq_reix (R : Reix) (N : Nat → Nat) (ind : List Nat) (a : Arr Int) (ss : List PySlice)
    (hr : ind.length = a.shape.length) (hss : ss.length = ind.length)
    (hon : ∀ k, k < ind.length → R.on N (ind.getD k 0) (a.shape.getD k 0) = true →
      R.len (ind.getD k 0) = (sel (ss.getD k colon) (a.shape.getD k 0 : Nat)).length ∧
      ∀ x, R.map (ind.getD k 0) x = ((sel (ss.getD k colon) (a.shape.getD k 0 : Nat)).getD x 0).toNat)
    (hoff : ∀ k, k < ind.length → R.on N (ind.getD k 0) (a.shape.getD k 0) = false → ss.getD k colon = colon) :
    Arr.Equiv (sliceArr a (ss.map Ix.slc)) (reix R N ind a) := by
  have hshape : sliceShape a.shape (ss.map Ix.slc) = (reix R N ind a).shape := by
    apply list_ext_getD
    · rw [sliceShape_slc_length, reix_shape_length]; omega
    · intro k hk
      have hk' : k < ind.length := by rw [sliceShape_slc_length] at hk; omega
      rw [sliceShape_slc_getD _ _ _ (by omega) (by omega), reix_shape_getD _ _ _ _ _ hk']
      cases ho : R.on N (ind.getD k 0) (a.shape.getD k 0) with
      | true => rw [if_pos rfl]; exact ((hon k hk' ho).1).symm
      | false =>
        rw [hoff k hk' ho, sel_colon_length]; simp
  refine ⟨hshape, ?_⟩
  intro i hi
  simp only [sliceArr] at hi ⊢
  have hil : i.length = ind.length := by
    have := InB.length_eq hi
    rw [sliceShape_slc_length] at this; omega
  simp only [reix]
  congr 1
  apply list_ext_getD
  · rw [sliceIdx_slc_length]; simp; omega
  · intro k hk
    have hk' : k < ind.length := by rw [sliceIdx_slc_length] at hk; omega
    rw [sliceIdx_slc_getD _ _ _ _ (by omega) (by omega) (by omega), getD_rangeMap _ _ _ _ hk']
    cases ho : R.on N (ind.getD k 0) (a.shape.getD k 0) with
    | true => rw [if_pos rfl]; exact ((hon k hk' ho).2 _).symm
    | false =>
      have hik := InB.getD_lt hi k (by rw [sliceShape_slc_length]; omega)
      rw [sliceShape_slc_getD _ _ _ (by omega) (by omega), hoff k hk' ho, sel_colon_length] at hik
      rw [hoff k hk' ho, sel_colon_getD _ _ hik]
      simp

/-! ### the gate -/

/-- the slice as a re-indexing of labels -/
def sliceR (bw : BW) (full : List Ix) : Reix :=
  { act := fun l => bw.outInd.contains l && !isColon (full.getD (bw.outInd.idxOf l) colonIx)
    len := fun l => (sel (toSl (full.getD (bw.outInd.idxOf l) colonIx)) (labLen bw l : Nat)).length
    map := fun l x => ((sel (toSl (full.getD (bw.outInd.idxOf l) colonIx)) (labLen bw l : Nat)).getD x 0).toNat }

/-- what an accepted basic index establishes -/
structure SliceGate (U : Nat → List Nat) (bw : BW) (full : List Ix) : Prop where
  newFree : ∀ l ∈ slicedLabels bw full, bw.newAxes.lookup l = none
  arr : ∀ o ∈ bw.ops, ∀ ind, o.ind = some ind → o.isArr = true
  axes : ∀ o ∈ bw.ops, ∀ ind, o.ind = some ind → ∀ pos, pos < ind.length →
    sliceAxisOK {} U bw full o pos (ind.getD pos 0) = true

/-- the operand after the push -/
def pushedOpd (bw : BW) (full : List Ix) (o : Opd) : Opd :=
  match o.ind with
  | none => o
  | some ind => sliceOpd o (some (argSlices bw full ind))

theorem zipWith_map_right' {α β γ} (f : α → β → γ) (g : α → β) : ∀ (l : List α),
    List.zipWith f l (l.map g) = l.map (fun a => f a (g a))
  | [] => rfl
  | a :: l => by simp [zipWith_map_right' f g l]

theorem lookup_isSome_false_of_empty {β} (l : List (Nat × β)) (k : Nat) (h : l.isEmpty = true) :
    l.lookup k = none := by
  cases l with
  | nil => rfl
  | cons _ _ => simp at h

theorem acceptSlice_exact (U : Nat → List Nat) (bw : BW) (hadj : bw.adjust = []) (index : List (Option Ix))
    (args : List (Option (List Ix))) (ex : Option (List Ix))
    (h : acceptSliceG {} U bw index = .exact args ex) :
    SliceGate U bw (fullIndex bw (index.filterMap id)) ∧
    args = bw.ops.map (fun o => (sliceArg {} U bw (fullIndex bw (index.filterMap id)) o).getD none) ∧
    ex = (if (fullIndex bw (index.filterMap id)).any isInt
      then some ((fullIndex bw (index.filterMap id)).map extractIx) else none) := by
  unfold acceptSliceG at h
  simp only [hadj, List.isEmpty_nil, Bool.not_true, Bool.false_and, Bool.false_eq_true, if_false] at h
  split at h
  · simp at h
  split at h
  · simp at h
  split at h
  · simp at h
  rename_i hnone hcc hnew
  split at h
  · rename_i hall
    simp only [Route.exact.injEq] at h
    have hargs : ∀ o ∈ bw.ops, (sliceArg {} U bw (fullIndex bw (index.filterMap id)) o).isSome = true :=
      List.all_eq_true.mp hall
    refine ⟨⟨?_, ?_, ?_⟩, h.1.symm, h.2.symm⟩
    · intro l hl
      by_cases he : bw.newAxes.isEmpty = true
      · exact lookup_isSome_false_of_empty _ _ he
      · have : ¬ ((slicedLabels bw (fullIndex bw (index.filterMap id))).any
            (fun l => (bw.newAxes.lookup l).isSome) = true) := by
          intro hany; exact hnew (by simp [he, hany])
        rw [List.any_eq_true] at this
        cases hlk : bw.newAxes.lookup l with
        | none => rfl
        | some v => exact absurd ⟨l, hl, by rw [hlk]; rfl⟩ this
    · intro o ho ind hind
      have := hargs o ho
      simp only [sliceArg, hind] at this
      by_cases ha : o.isArr = true
      · exact ha
      · simp [ha] at this
    · intro o ho ind hind pos hpos
      have := hargs o ho
      simp only [sliceArg, hind] at this
      split at this
      · simp at this
      · split at this
        · rename_i hall2
          exact List.all_eq_true.mp hall2 pos (List.mem_range.mpr hpos)
        · simp at this
  · simp at h

theorem push_basic_unpack (U : Nat → List Nat) (bw : BW) (hadj : bw.adjust = []) (index : List (Option Ix)) (p : Pushed)
    (hp : push U bw (.basic index) = some p) :
    SliceGate U bw (fullIndex bw (index.filterMap id)) ∧
    p.bw = { bw with ops := bw.ops.map (pushedOpd bw (fullIndex bw (index.filterMap id))) } ∧
    p.extract = (if (fullIndex bw (index.filterMap id)).any isInt
      then some ((fullIndex bw (index.filterMap id)).map extractIx) else none) := by
  simp only [push, pushG] at hp
  split at hp
  · rename_i args ex heq
    obtain ⟨hG, hargs, hex⟩ := acceptSlice_exact U bw hadj index args ex heq
    simp only [Option.some.injEq] at hp
    refine ⟨hG, ?_, ?_⟩
    · rw [← hp, hargs]
      simp only
      congr 1
      rw [zipWith_map_right']
      apply List.map_congr_left
      intro o ho
      unfold pushedOpd
      cases hind : o.ind with
      | none => simp [sliceArg, hind, sliceOpd]
      | some ind =>
        have ha := hG.arr o ho ind hind
        have hx : (List.range ind.length).all
            (fun pos => sliceAxisOK {} U bw (fullIndex bw (index.filterMap id)) o pos (ind.getD pos 0)) = true := by
          rw [List.all_eq_true]; intro pos hpos
          exact hG.axes o ho ind hind pos (List.mem_range.mp hpos)
        simp only [sliceArg, hind, ha, Bool.not_true, Bool.and_false, Bool.false_eq_true, if_false, hx, if_true,
          Option.getD_some]
    · rw [← hp]; exact hex
  · simp at hp

theorem slicedAxes_contains (full : List Ix) (a : Nat) :
    (slicedAxes full).contains a = !isColon (full.getD a colonIx) := by
  unfold slicedAxes
  rw [Bool.eq_iff_iff]
  simp only [List.contains_eq_mem, List.mem_filter, List.mem_range, decide_eq_true_eq]
  constructor
  · exact fun h => h.2
  · intro h
    refine ⟨?_, h⟩
    by_cases hlt : a < full.length
    · exact hlt
    · rw [getD_of_ge _ _ _ (by omega)] at h
      simp [isColon, colonIx] at h

theorem mem_slicedLabels (bw : BW) (full : List Ix) (l : Nat) (hl : l ∈ bw.outInd)
    (h : isColon (full.getD (bw.outInd.idxOf l) colonIx) = false) : l ∈ slicedLabels bw full := by
  unfold slicedLabels
  apply List.mem_map.mpr
  have hk : bw.outInd.idxOf l < bw.outInd.length := List.idxOf_lt_length_of_mem hl
  refine ⟨bw.outInd.idxOf l, ?_, getD_idxOf _ _ hl⟩
  apply List.mem_filter.mpr
  refine ⟨?_, by simpa using hk⟩
  have := slicedAxes_contains full (bw.outInd.idxOf l)
  rw [h] at this
  simpa using this

theorem sliceR_act (bw : BW) (full : List Ix) (l : Nat) :
    (sliceR bw full).act l = true ↔ l ∈ bw.outInd ∧ isColon (full.getD (bw.outInd.idxOf l) colonIx) = false := by
  simp [sliceR]

theorem outShape_getD (U : Nat → List Nat) (bw : BW) (hS : SOK bw) (hL : LOK U bw) (l : Nat) (hl : l ∈ bw.outInd)
    (hnew : bw.newAxes.lookup l = none) : (outShape U bw).getD (bw.outInd.idxOf l) 0 = labLen bw l := by
  have hk : bw.outInd.idxOf l < bw.outInd.length := List.idxOf_lt_length_of_mem hl
  unfold outShape
  rw [getD_map List.sum _ _ [] 0 (by rw [outChunks_length]; exact hk), outChunks_getD U bw hS _ hk,
    getD_idxOf _ _ hl]
  rcases hL.lab l hl with c | c
  · rw [hnew] at c; simp at c
  · exact c.1

/-- the gate's shape test: an acted label is not broadcast by any operand -/
theorem sliceGate_unbroadcast (U : Nat → List Nat) (bw : BW) (hS : SOK bw) (hL : LOK U bw) (full : List Ix)
    (hG : SliceGate U bw full) (l : Nat) (hact : (sliceR bw full).act l = true) :
    ∀ p ∈ lenPairs bw.ops, p.1 = l → p.2 = labLen bw l := by
  intro p hp e
  obtain ⟨hin, hcol⟩ := (sliceR_act bw full l).mp hact
  obtain ⟨o, ho, k, hk1, hk2, ep⟩ := (mem_lenPairs _ _).mp hp
  have hlab : o.labels.getD k 0 = l := by rw [ep] at e; exact e
  cases hind : o.ind with
  | none => simp [Opd.labels, hind] at hk1
  | some ind =>
    have hlabs : o.labels = ind := by simp [Opd.labels, hind]
    rw [hlabs] at hk1 hlab
    have hax := hG.axes o ho ind hind k hk1
    have hnew : bw.newAxes.lookup l = none := by
      rw [← hlab, ← hlabs]
      exact lookup_new_of_label bw hS o ho k (by rw [hlabs]; exact hk1)
    rw [hlab] at hax
    have hsl : (slicedAxes full).contains (bw.outInd.idxOf l) = true := by
      rw [slicedAxes_contains, hcol]; rfl
    have hc : bw.outInd.contains l = true := by simpa using hin
    simp only [sliceAxisOK, hc, if_true, hsl, Bool.and_true, Bool.true_and, Bool.and_eq_true,
      Bool.not_eq_true', decide_eq_false_iff_not, ne_eq, Decidable.not_not] at hax
    rw [ep]; simp only
    rw [hax.1, outShape_getD U bw hS hL l hin hnew]

theorem sliceR_ok (U : Nat → List Nat) (bw : BW) (hS : SOK bw) (hL : LOK U bw) (full : List Ix)
    (hG : SliceGate U bw full) : ReixOK (sliceR bw full) bw := by
  refine ⟨?_, ?_, sliceGate_unbroadcast U bw hS hL full hG⟩
  · intro l hact
    obtain ⟨hin, hcol⟩ := (sliceR_act bw full l).mp hact
    exact (point_iff bw hS l).mpr ⟨hin, hG.newFree l (mem_slicedLabels bw full l hin hcol)⟩
  · intro l _ x hx
    simp only [sliceR] at hx ⊢
    have := sel_getD_bounds (toSl (full.getD (bw.outInd.idxOf l) colonIx)) (labLen bw l : Nat)
      (Int.natCast_nonneg _) x hx
    omega

/-- the slices pushed into an operand, as `PySlice`s -/
def argSl (bw : BW) (full : List Ix) (ind : List Nat) : List PySlice :=
  ind.map (fun l => if bw.outInd.contains l then toSl (full.getD (bw.outInd.idxOf l) colonIx) else colon)

theorem argSlices_eq (bw : BW) (full : List Ix) (ind : List Nat) :
    argSlices bw full ind = (argSl bw full ind).map Ix.slc := by
  unfold argSlices argSl
  rw [List.map_map]
  apply List.map_congr_left
  intro l _
  simp only [Function.comp]
  split
  · exact intToSlice_eq _
  · rfl

theorem argSl_getD (bw : BW) (full : List Ix) (ind : List Nat) (k : Nat) (hk : k < ind.length) :
    (argSl bw full ind).getD k colon =
      if bw.outInd.contains (ind.getD k 0) then toSl (full.getD (bw.outInd.idxOf (ind.getD k 0)) colonIx) else colon := by
  unfold argSl
  rw [getD_map _ ind k 0 colon hk]

/-- the pushed operand is the operand re-indexed by `sliceR` -/
theorem pushedOpd_arr (U : Nat → List Nat) (bw : BW) (hS : SOK bw) (hL : LOK U bw) (full : List Ix)
    (hG : SliceGate U bw full) (o : Opd) (ho : o ∈ bw.ops) :
    Arr.Equiv (pushedOpd bw full o).arr (reix (sliceR bw full) (labLen bw) o.labels o.arr) := by
  have hr := (hS.rank o ho).1
  unfold pushedOpd
  cases hind : o.ind with
  | none =>
    have hlabs : o.labels = [] := by simp [Opd.labels, hind]
    rw [hlabs] at hr ⊢
    have hs : o.arr.shape = [] := List.eq_nil_of_length_eq_zero (by simpa using hr.symm)
    refine ⟨by simp [reix, hs], ?_⟩
    intro i hi
    rw [hs] at hi
    cases i with
    | nil => simp [reix]
    | cons _ _ => exact hi.elim
  | some ind =>
    have hlabs : o.labels = ind := by simp [Opd.labels, hind]
    rw [hlabs] at hr ⊢
    simp only [sliceOpd]
    rw [argSlices_eq]
    apply sliceArr_eq_reix _ _ _ _ _ hr (by simp [argSl])
    · intro k hk hon
      simp only [Reix.on, Bool.and_eq_true, beq_iff_eq] at hon
      obtain ⟨hin, _⟩ := (sliceR_act bw full _).mp hon.1
      rw [argSl_getD _ _ _ _ hk]
      simp only [List.contains_eq_mem, hin, decide_true, if_true, hon.2, sliceR]
      first | exact ⟨rfl, fun _ => rfl⟩ | simp
    · intro k hk hoff
      rw [argSl_getD _ _ _ _ hk]
      by_cases hin : ind.getD k 0 ∈ bw.outInd
      · simp only [List.contains_eq_mem, hin, decide_true, if_true]
        by_cases hcol : isColon (full.getD (bw.outInd.idxOf (ind.getD k 0)) colonIx) = true
        · rw [(isColon_iff _).mp hcol]; rfl
        · exfalso
          have hact : (sliceR bw full).act (ind.getD k 0) = true :=
            (sliceR_act bw full _).mpr ⟨hin, by simpa using hcol⟩
          have hn := sliceGate_unbroadcast U bw hS hL full hG _ hact
            (ind.getD k 0, o.arr.shape.getD k 0)
            ((mem_lenPairs _ _).mpr ⟨o, ho, k, by rw [hlabs]; exact hk, by omega, by rw [hlabs]⟩) rfl
          simp only at hn
          simp only [Reix.on, hact, hn, beq_self_eq_true, Bool.and_self, Bool.true_eq_false] at hoff
      · simp only [List.contains_eq_mem, hin, decide_false, Bool.false_eq_true, if_false]

theorem pushed_reindexed (U : Nat → List Nat) (bw : BW) (hS : SOK bw) (hL : LOK U bw) (full : List Ix)
    (hG : SliceGate U bw full) :
    Reindexed (sliceR bw full) bw { bw with ops := bw.ops.map (pushedOpd bw full) } := by
  have hget : ∀ t, t < bw.ops.length →
      (List.map (pushedOpd bw full) bw.ops).getD t dO = pushedOpd bw full (bw.ops.getD t dO) :=
    fun t ht => getD_map _ bw.ops t dO dO ht
  refine ⟨rfl, rfl, rfl, rfl, by simp, ?_, ?_, ?_, ?_, ?_⟩
  · intro t ht
    simp only; rw [hget t ht]
    unfold pushedOpd
    cases hind : (bw.ops.getD t dO).ind with
    | none => exact hind
    | some ind => exact hind
  · intro t ht
    simp only; rw [hget t ht]
    unfold pushedOpd
    cases (bw.ops.getD t dO).ind with
    | none => rfl
    | some ind => rfl
  · intro t ht
    simp only; rw [hget t ht]
    unfold pushedOpd
    cases (bw.ops.getD t dO).ind with
    | none => rfl
    | some ind => rfl
  · intro t ht
    simp only; rw [hget t ht]
    have hr := hS.rank _ (getD_mem bw.ops t dO ht)
    unfold pushedOpd
    cases hind : (bw.ops.getD t dO).ind with
    | none => exact hr.2.1
    | some ind =>
      have hlabs : (bw.ops.getD t dO).labels = ind := by unfold Opd.labels; rw [hind]; rfl
      simp only [sliceOpd]
      rw [argSlices_eq, sliceChunks_slc_length]
      simp only [argSl, List.length_map]
      rw [hr.2.1, ← hlabs, hr.1]; omega
  · intro t ht
    simp only; rw [hget t ht]
    exact pushedOpd_arr U bw hS hL full hG _ (getD_mem bw.ops t dO ht)

/-! ### unaligned nodes: the operands stay paired -/

theorem pushedOpd_labels (bw : BW) (full : List Ix) (o : Opd) : (pushedOpd bw full o).labels = o.labels := by
  unfold pushedOpd Opd.labels
  cases hind : o.ind with
  | none => simp [hind]
  | some ind => simp [sliceOpd, hind]

/-- with `align_arrays=False` every operand axis that carries a sliced label gets the same new chunks: the
slice of the NODE's chunks of that label -/
theorem slice_pairing (U : Nat → List Nat) (bw : BW) (hS : SOK bw) (full : List Ix) (hG : SliceGate U bw full)
    (hna : bw.align = false) (o : Opd) (ho : o ∈ bw.ops) (k : Nat) (hk : k < o.labels.length)
    (hact : (sliceR bw full).act (o.labels.getD k 0) = true) :
    (pushedOpd bw full o).chunks.getD k [] =
      sliceChunks1 ((outShape U bw).getD (bw.outInd.idxOf (o.labels.getD k 0)) 0)
        ((outChunks U bw).getD (bw.outInd.idxOf (o.labels.getD k 0)) [])
        (toSl (full.getD (bw.outInd.idxOf (o.labels.getD k 0)) colonIx)) := by
  obtain ⟨hr1, hr2, _⟩ := hS.rank o ho
  obtain ⟨hin, hcol⟩ := (sliceR_act bw full _).mp hact
  cases hind : o.ind with
  | none => simp [Opd.labels, hind] at hk
  | some ind =>
    have hlabs : o.labels = ind := by simp [Opd.labels, hind]
    rw [hlabs] at hk hin hcol hr1 ⊢
    have hax := hG.axes o ho ind hind k hk
    have hsl : (slicedAxes full).contains (bw.outInd.idxOf (ind.getD k 0)) = true := by
      rw [slicedAxes_contains, hcol]; rfl
    have hc : bw.outInd.contains (ind.getD k 0) = true := by simpa using hin
    simp only [sliceAxisOK, hc, if_true, hsl, hna, Bool.and_true, Bool.true_and, Bool.and_eq_true,
      Bool.not_eq_true', decide_eq_false_iff_not, ne_eq, Decidable.not_not, Bool.not_false] at hax
    unfold pushedOpd
    rw [hind]
    simp only [sliceOpd]
    rw [argSlices_eq, sliceChunks_slc_getD _ _ _ _ (by omega) (by omega) (by simp [argSl]; exact hk),
      argSl_getD _ _ _ _ hk, if_pos hc, hax.1, hax.2]

theorem act_of_mem_slicedLabels (bw : BW) (hnd : bw.outInd.Nodup) (full : List Ix) (l : Nat)
    (h : l ∈ slicedLabels bw full) : (sliceR bw full).act l = true := by
  unfold slicedLabels at h
  obtain ⟨a, ha, e⟩ := List.mem_map.mp h
  obtain ⟨ha1, ha2⟩ := List.mem_filter.mp ha
  have halt : a < bw.outInd.length := by simpa using ha2
  have hc := slicedAxes_contains full a
  have hm : (slicedAxes full).contains a = true := by simpa using ha1
  rw [hm] at hc
  subst e
  apply (sliceR_act bw full _).mpr
  refine ⟨getD_mem _ _ _ halt, ?_⟩
  rw [idxOf_getD_of_nodup _ hnd a halt]
  simpa using hc.symm

/-- **Unaligned nodes stay paired (slices).** -/
theorem slice_pairing_all (U : Nat → List Nat) (bw : BW) (hS : SOK bw) (index : List (Option Ix)) (p : Pushed)
    (hna : bw.align = false) (hp : push U bw (.basic index) = some p) (l : Nat)
    (hl : l ∈ indexedLabels bw (.basic index)) :
    ∃ c, ∀ o ∈ p.bw.ops, ∀ k, k < o.labels.length → o.labels.getD k 0 = l → o.chunks.getD k [] = c := by
  obtain ⟨hG, hbw, _⟩ := push_basic_unpack U bw hS.noAdj index p hp
  have hact := act_of_mem_slicedLabels bw hS.nodup _ l hl
  refine ⟨sliceChunks1 ((outShape U bw).getD (bw.outInd.idxOf l) 0) ((outChunks U bw).getD (bw.outInd.idxOf l) [])
    (toSl ((fullIndex bw (index.filterMap id)).getD (bw.outInd.idxOf l) colonIx)), ?_⟩
  intro o' ho' k hk hlab
  rw [hbw] at ho'
  obtain ⟨o, ho, e⟩ := List.mem_map.mp ho'
  subst e
  rw [pushedOpd_labels] at hk hlab
  have := slice_pairing U bw hS _ hG hna o ho k hk (hlab ▸ hact)
  rw [hlab] at this
  exact this

/-! ### the result side -/

theorem den_shape (U : Nat → List Nat) (bw : BW) : (den U bw).shape = outShape U bw := rfl

theorem outShape_length (U : Nat → List Nat) (bw : BW) : (outShape U bw).length = bw.outInd.length := by
  simp [outShape, outChunks]

/-- the re-indexed result is the result indexed with the size-1-slice form of the index -/
theorem reix_out_eq_slice (U : Nat → List Nat) (bw : BW) (hS : SOK bw) (hL : LOK U bw) (full : List Ix)
    (hfl : full.length = bw.outInd.length) (hG : SliceGate U bw full) (y : Arr Int) (hy : y.shape = outShape U bw) :
    Arr.Equiv (sliceArr y (full.map intToSlice)) (reix (sliceR bw full) (labLen bw) bw.outInd y) := by
  rw [map_intToSlice]
  have hyl : bw.outInd.length = y.shape.length := by rw [hy, outShape_length]
  have hss : ∀ k, k < bw.outInd.length → (full.map toSl).getD k colon = toSl (full.getD k colonIx) :=
    fun k hk => getD_map toSl full k colonIx colon (by omega)
  apply sliceArr_eq_reix _ _ _ _ _ hyl (by simp [hfl])
  · intro k hk hon
    have hidx := idxOf_getD_of_nodup _ hS.nodup k hk
    simp only [Reix.on, Bool.and_eq_true, beq_iff_eq] at hon
    rw [hss k hk]
    simp only [sliceR, hidx, hon.2]
    first | exact ⟨rfl, fun _ => rfl⟩ | simp
  · intro k hk hoff
    have hidx := idxOf_getD_of_nodup _ hS.nodup k hk
    have hin : bw.outInd.getD k 0 ∈ bw.outInd := getD_mem _ _ _ hk
    rw [hss k hk]
    by_cases hcol : isColon (full.getD k colonIx) = true
    · rw [(isColon_iff _).mp hcol]; rfl
    · exfalso
      have hcol' : isColon (full.getD (bw.outInd.idxOf (bw.outInd.getD k 0)) colonIx) = false := by
        rw [hidx]; simpa using hcol
      have hact : (sliceR bw full).act (bw.outInd.getD k 0) = true := (sliceR_act bw full _).mpr ⟨hin, hcol'⟩
      have hnew := hG.newFree _ (mem_slicedLabels bw full _ hin hcol')
      have hn := outShape_getD U bw hS hL _ hin hnew
      rw [hidx, ← hy] at hn
      simp only [Reix.on, hact, hn, beq_self_eq_true, Bool.and_self, Bool.true_eq_false] at hoff

/-- the admissible basic index, padded, is `FullOK` for the node's shape -/
theorem fullOK_of_indexOK (U : Nat → List Nat) (bw : BW) (index : List (Option Ix))
    (h : indexOK (outShape U bw) (.basic index) = true) :
    FullOK (outShape U bw) (fullIndex bw (index.filterMap id)) := by
  simp only [indexOK, Bool.and_eq_true, Bool.not_eq_true', decide_eq_true_eq, List.all_eq_true,
    List.mem_range] at h
  obtain ⟨⟨_, hlen⟩, hall⟩ := h
  rw [outShape_length] at hlen
  apply FullOK.of_getD
  · simp [fullIndex, outShape_length]; omega
  · intro k hk
    unfold fullIndex at hk ⊢
    by_cases hk' : k < (index.filterMap id).length
    · have := hall k hk'
      have e1 : (index.filterMap id ++ List.replicate (bw.outInd.length - (index.filterMap id).length) colonIx).getD
          k colonIx = (index.filterMap id).getD k colonIx := by
        simp only [List.getD_eq_getElem?_getD]; rw [List.getElem?_append_left hk']
      rw [e1]
      split <;> rename_i e <;> rw [e] at this <;> simpa using this
    · have e2 : (index.filterMap id ++ List.replicate (bw.outInd.length - (index.filterMap id).length) colonIx).getD
          k colonIx = colonIx := by
        simp only [List.getD_eq_getElem?_getD]
        rw [List.getElem?_append_right (by omega), List.getElem?_replicate]
        split <;> rfl
      rw [e2]
      show colon.stp ≠ 0
      decide

/-- **The slice pushdown is sound** (Prop-level hypotheses). -/
theorem push_sound_basic (U U' : Nat → List Nat) (bw : BW) (hS : SOK bw) (hL : LOK U bw)
    (hf : LabelLocal bw.sig bw.f) (index : List (Option Ix))
    (hI : indexOK (outShape U bw) (.basic index) = true) (p : Pushed)
    (hp : push U bw (.basic index) = some p) (hL' : LOK U' p.bw) :
    SOK p.bw ∧ Arr.Equiv (denPushed U' p) (applyIndex bw.outInd.length (den U bw) (.basic index)) := by
  obtain ⟨hG, hbw, hex⟩ := push_basic_unpack U bw hS.noAdj index p hp
  have hFull := fullOK_of_indexOK U bw index hI
  have hfl : (fullIndex bw (index.filterMap id)).length = bw.outInd.length := by
    rw [hFull.length, outShape_length]
  have hRe := pushed_reindexed U bw hS hL _ hG
  rw [← hbw] at hRe
  have hR := sliceR_ok U bw hS hL _ hG
  refine ⟨sok_reindexed hS hR hRe, ?_⟩
  have hD := den_reindexed U U' hS hL hf hR hRe hL'
  have hO := reix_out_eq_slice U bw hS hL _ hfl hG (den U bw) rfl
  have hD' : Arr.Equiv (den U' p.bw) (sliceArr (den U bw) ((fullIndex bw (index.filterMap id)).map intToSlice)) :=
    hD.trans hO.symm
  simp only [applyIndex]
  show Arr.Equiv (denPushed U' p) (sliceArr (den U bw) (fullIndex bw (index.filterMap id)))
  unfold denPushed
  rw [hex]
  by_cases hint : (fullIndex bw (index.filterMap id)).any isInt = true
  · rw [if_pos hint]
    simp only
    have hw := (extract_ok _ _ hFull).wfIx
    have c1 := sliceArr_congr _ _ ((fullIndex bw (index.filterMap id)).map extractIx) hD'.symm hw
    exact c1.symm.trans (extract_eq (den U bw) _ hFull)
  · rw [if_neg hint]
    simp only
    rw [map_intToSlice_noInt _ (by simpa using hint)] at hD'
    exact hD'

end Dask.BWG
