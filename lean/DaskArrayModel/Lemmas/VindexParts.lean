/-
Partition / counting / chunking lemmas for the `VIndexArray` layer proof.  Core Lean only.
-/
import DaskArrayModel.Lemmas.VindexMerge
namespace Dask.Lemmas.Vindex
open Dask.Py Dask.Slicing Dask.Indexing Dask.Shuffle Dask.Vindex Dask.Lemmas.Shuffle

/-! ### groups of a partition, counting, chunking of a range -/

theorem filter_flatten_uniform {β} (g : β → List Nat) (ob : β → Nat) (q : Nat → Nat) (i : Nat) :
    ∀ (L : List β), (∀ b ∈ L, ∀ j ∈ g b, q j = ob b) →
    ((L.filter (fun b => ob b = i)).map g).flatten = ((L.map g).flatten).filter (fun j => q j = i)
  | [], _ => by simp
  | b :: L, h => by
    have ih := filter_flatten_uniform g ob q i L (fun b' hb' => h b' (List.mem_cons_of_mem _ hb'))
    have hb := h b (by simp)
    simp only [List.map_cons, List.flatten_cons, List.filter_append, List.filter_cons]
    by_cases hi : ob b = i
    · simp only [hi, decide_true, ↓reduceIte, List.map_cons, List.flatten_cons, ih]
      congr 1
      symm
      apply List.filter_eq_self.mpr
      intro j hj; simp [hb j hj, hi]
    · simp only [hi, decide_false, Bool.false_eq_true, ↓reduceIte, ih]
      have : (g b).filter (fun j => q j = i) = [] := by
        apply List.filter_eq_nil_iff.mpr
        intro j hj; simp [hb j hj, hi]
      rw [this, List.nil_append]

theorem div_eq_iff' {m : Nat} (hm : 0 < m) (j i : Nat) : j / m = i ↔ i * m ≤ j ∧ j < i * m + m := by
  rw [Nat.div_eq_iff hm]; omega

theorem count_block {m : Nat} (hm : 0 < m) (i : Nat) : ∀ P : Nat,
    ((List.range P).filter (fun j => j / m = i)).length = min (i * m + m) P - min (i * m) P
  | 0 => by simp
  | P + 1 => by
    rw [List.range_succ, List.filter_append, List.length_append, count_block hm i P]
    by_cases h : P / m = i
    · have := (div_eq_iff' hm P i).mp h
      simp [h]; omega
    · have : ¬ (i * m ≤ P ∧ P < i * m + m) := fun hh => h ((div_eq_iff' hm P i).mpr hh)
      simp [h]; omega

theorem pairsEnd_cover : ∀ (rs : List Nat) (L : Nat), rs.headD L = 0 → ∀ s < L,
    ∃ ab ∈ pairsEnd rs L, ab.1 ≤ s ∧ s < ab.2
  | [], L, h, s, hs => by simp at h; omega
  | [a], L, h, s, hs => by
    simp at h; subst h
    exact ⟨(0, L), by simp [pairsEnd], by simp, hs⟩
  | a :: b :: r, L, h, s, hs => by
    simp at h; subst h
    by_cases hb : s < b
    · exact ⟨(0, b), by simp [pairsEnd], by simp, hb⟩
    · -- shift: the tail starts at `b`, not 0 — generalise by a direct recursion on the tail
      have : ∀ (rs : List Nat) (a : Nat), a ≤ s → ∃ ab ∈ pairsEnd (a :: rs) L, ab.1 ≤ s ∧ s < ab.2 := by
        intro rs
        induction rs with
        | nil => intro a ha; exact ⟨(a, L), by simp [pairsEnd], ha, hs⟩
        | cons c rs ih =>
          intro a ha
          by_cases hc : s < c
          · exact ⟨(a, c), by simp [pairsEnd], ha, hc⟩
          · rcases ih c (by omega) with ⟨ab, hab, h1⟩
            exact ⟨ab, by simp only [pairsEnd, List.mem_cons]; exact Or.inr hab, h1⟩
      rcases this r b (by omega) with ⟨ab, hab, h1⟩
      exact ⟨ab, by simp only [pairsEnd, List.mem_cons]; exact Or.inr hab, h1⟩

/-- cutting `range P` into `q` pieces of `m`. -/
theorem chunk_flatten {β} (g : Nat → β) (m P : Nat) : ∀ q : Nat,
    ((List.range q).map (fun i => (List.range (min (i * m + m) P - min (i * m) P)).map (fun l => g (i * m + l)))).flatten
      = (List.range (min (q * m) P)).map g
  | 0 => by simp
  | q + 1 => by
    rw [List.range_succ, List.map_append, List.flatten_append, chunk_flatten g m P q]
    simp only [List.map_cons, List.map_nil, List.flatten_cons, List.flatten_nil, List.append_nil]
    have e : min ((q + 1) * m) P = min (q * m) P + (min (q * m + m) P - min (q * m) P) := by
      rw [Nat.succ_mul]; omega
    rw [e, List.range_add, List.map_append, List.map_map]
    congr 1
    apply List.map_congr_left
    intro l hl
    simp only [List.mem_range] at hl
    simp only [Function.comp]
    congr 1
    omega

theorem lookup_map_mem {β} (f : Nat → β) (i : Nat) : ∀ (l : List Nat), i ∈ l →
    (l.map (fun a => (a, f a))).lookup i = some (f i)
  | [], h => by simp at h
  | a :: l, h => by
    simp only [List.map_cons, List.lookup_cons]
    by_cases e : i = a
    · subst e; simp
    · have : (i == a) = false := by simp [e]
      rw [this]
      exact lookup_map_mem f i l (by simpa [e] using h)

end Dask.Lemmas.Vindex
